import ColoVerif.Proofs.IspdTextBase
/-
C20, text level: the readers of Model/IspdText.lean, run on the text that the writer emits, do what the
record-level readers of Model/Ispd.lean do on the records (`Ispd.write`).
-/
namespace ColoVerif.Ispd.Text
open ColoVerif ColoVerif.Ispd

/-! ### generic facts about a line whose first non-blank character is known -/

theorem free_of_all {p : Char → Bool} {t : Line} (h : t.all (fun c => !p c) = true) : Free p t := by
  intro c hc
  have := List.all_eq_true.1 h c hc
  simpa using this

theorem startsWith_cons (P : String) (a : Char) (rest : Line) (hP : P.toList = a :: rest) (c : Char) (r : Line) :
    startsWith P (c :: r) = (a == c && rest.isPrefixOf r) := by
  unfold startsWith
  rw [hP]
  rfl

theorem startsWith_cons_ne (P : String) (a : Char) (rest : Line) (hP : P.toList = a :: rest) (c : Char) (r : Line)
    (h : a ≠ c) : startsWith P (c :: r) = false := by
  rw [startsWith_cons P a rest hP]
  simp [h]

/-- a line whose first non-blank character is not `#` and is not the `U` of an unseen `UCLA` header is content -/
theorem prologue_content (first : Bool) (line : Line) (c : Char) (r : Line) (hl : lstrip line = c :: r)
    (h1 : c ≠ '#') (h2 : c ≠ 'U' ∨ first = true) : prologue first line = .content (strip line) := by
  have he : (strip line).isEmpty = false := by rw [strip_isEmpty, hl]; rfl
  have hh : startsWith "#" (strip line) = false := by
    rw [startsWith_strip "#" (free_of_all (by decide)), hl, startsWith_cons_ne "#" '#' [] rfl]
    exact fun e => h1 e.symm
  have hu : (startsWith "UCLA" (strip line) && !first) = false := by
    rcases h2 with h2 | h2
    · rw [startsWith_strip "UCLA" (free_of_all (by decide)), hl, startsWith_cons_ne "UCLA" 'U' "CLA".toList rfl]
      · rfl
      · exact fun e => h2 e.symm
    · simp [h2]
  simp only [prologue, he, hh, hu, Bool.false_eq_true, if_false]

/-- a line whose first non-blank character is `#` is skipped -/
theorem prologue_comment (first : Bool) (line r : Line) (hl : lstrip line = '#' :: r) : prologue first line = .skip := by
  have he : (strip line).isEmpty = false := by rw [strip_isEmpty, hl]; rfl
  have hh : startsWith "#" (strip line) = true := by
    rw [startsWith_strip "#" (free_of_all (by decide)), hl]; rfl
  simp only [prologue, he, hh, Bool.false_eq_true, if_false, if_true]

/-- `startswith` on the stripped line, through the known first character -/
theorem startsWith_strip_ne (P : String) (a : Char) (rest : Line) (hP : P.toList = a :: rest) (hf : Free isWs P.toList)
    (line : Line) (c : Char) (r : Line) (hl : lstrip line = c :: r) (h : a ≠ c) : startsWith P (strip line) = false := by
  rw [startsWith_strip P hf, hl, startsWith_cons_ne P a rest hP c r h]

theorem split_strip (l : Line) : split (strip l) = split l := splitBy_strip isWs (fun _ h => h) l

theorem splitC_strip (l : Line) : split (replaceColon (strip l)) = splitBy isWsC l := by
  rw [split_replaceColon, splitBy_strip isWsC (fun _ h => isWsC_of_isWs h)]

theorem showInt_chars (i : Int) : ∀ c ∈ showInt i, isDig c = true ∨ c = '-' := by
  intro c hc
  unfold showInt at hc
  split at hc
  · rcases List.mem_cons.1 hc with h | h
    · exact Or.inr h
    · exact Or.inl (showNat_isDig _ c h)
  · exact Or.inl (showNat_isDig _ c hc)

theorem showInt_ne_of_mem (i : Int) (K : Line) (x : Char) (hx : x ∈ K) (h1 : isDig x = false) (h2 : x ≠ '-') :
    showInt i ≠ K := by
  intro e
  rw [← e] at hx
  rcases showInt_chars i x hx with h | h
  · rw [h] at h1; cases h1
  · exact h2 h

/-! ### `.nodes` -/

def recTuple (r : NodeRec) : NodeTuple := (r.name, r.w, r.h, r.terminal, true)

theorem split_nodeLine (i : Nat) (cl : Cell) :
    split (nodeLine i cl) = cellTok i :: showInt cl.w :: showInt cl.h :: (if cl.fixed then ["terminal".toList] else []) := by
  unfold nodeLine split
  rw [splitBy_sep isWs (by decide), splitBy_tok isWs (cellTok_ne_nil i) (cellTok_free i).ws (by decide),
    splitBy_tok isWs (showInt_ne_nil _) (showInt_free _).ws (by decide)]
  cases cl.fixed
  · simp only [Bool.false_eq_true, if_false, List.append_nil]
    rw [splitBy_tok_end isWs (showInt_ne_nil _) (showInt_free _).ws]
  · simp only [if_true]
    have : "\tterminal".toList = '\t' :: "terminal".toList := rfl
    rw [this, splitBy_tok isWs (showInt_ne_nil _) (showInt_free _).ws (by decide),
      splitBy_tok_end isWs (by decide) (free_of_all (by decide))]

theorem lstrip_nodeLine (i : Nat) (cl : Cell) : ∃ r, lstrip (nodeLine i cl) = 'o' :: r := by
  unfold nodeLine cellTok
  rw [lstrip_ws (by decide), List.cons_append, lstrip_nonws (by decide)]
  exact ⟨_, rfl⟩

theorem nodeOfVals_nodeLine (i : Nat) (cl : Cell) :
    nodeOfVals (split (nodeLine i cl)) = .ok (cellName i, cl.w, cl.h, cl.fixed, true) := by
  rw [split_nodeLine]
  simp only [nodeOfVals, pyInt_showInt, ofList_cellTok]
  have hw : ∀ j : Int, ¬ ['t', 'e', 'r', 'm', 'i', 'n', 'a', 'l'] = showInt j := fun j e =>
    showInt_ne_of_mem j _ 't' (by simp) (by decide) (by decide) e.symm
  cases cl.fixed <;> simp [List.contains_eq_mem, hw]

theorem nodesStep_nodeLine (st : NodesSt) (_hf : st.first = true) (i : Nat) (cl : Cell) :
    nodesStep st (nodeLine i cl) = .ok { st with nodes := st.nodes ++ [(cellName i, cl.w, cl.h, cl.fixed, true)] } := by
  obtain ⟨r, hl⟩ := lstrip_nodeLine i cl
  have hp := prologue_content st.first (nodeLine i cl) 'o' r hl (by decide) (Or.inl (by decide))
  have h1 := startsWith_strip_ne "NumNodes" 'N' "umNodes".toList rfl (free_of_all (by decide)) (nodeLine i cl) 'o' r hl (by decide)
  have h2 := startsWith_strip_ne "NumTerminals" 'N' "umTerminals".toList rfl (free_of_all (by decide)) (nodeLine i cl) 'o' r hl (by decide)
  simp only [nodesStep, hp, nodesContent, h1, h2, Bool.false_eq_true, if_false, split_strip, nodeOfVals_nodeLine]

theorem nodesLoop_cells (cs : List Cell) : ∀ (k : Nat) (st : NodesSt), st.first = true →
    nodesLoop st (nodeLinesFrom k cs) = .ok { st with nodes := st.nodes ++ (writeNodesFrom k cs).map recTuple } := by
  induction cs with
  | nil => intro k st _; simp [nodeLinesFrom, nodesLoop, writeNodesFrom]
  | cons cl cs ih =>
    intro k st hf
    simp only [nodeLinesFrom, nodesLoop, nodesStep_nodeLine st hf]
    rw [ih (k + 1) { st with nodes := st.nodes ++ [(cellName k, cl.w, cl.h, cl.fixed, true)] } hf]
    simp [writeNodesFrom, recTuple]

theorem keyLine_eq (K : String) (K0 : Line) (D : Line) (h : K.toList = K0 ++ [':', ' ']) :
    K.toList ++ D = K0 ++ ':' :: ' ' :: D := by
  rw [h]; simp

/-- a `Key : n` header line is content, and its value is parsed -/
theorem header_line (first : Bool) (K0 : Line) (c : Char) (r : Line) (n : Int) (hK : K0 = c :: r) (hc : isWs c = false)
    (h1 : c ≠ '#') (h2 : c ≠ 'U') (h3 : ∀ x ∈ K0, x ≠ ':') :
    prologue first (K0 ++ ':' :: ' ' :: showInt n) = .content (strip (K0 ++ ':' :: ' ' :: showInt n)) ∧
    parseNumLine (strip (K0 ++ ':' :: ' ' :: showInt n)) = .ok n ∧
    lstrip (K0 ++ ':' :: ' ' :: showInt n) = c :: (r ++ ':' :: ' ' :: showInt n) := by
  have hl : lstrip (K0 ++ ':' :: ' ' :: showInt n) = c :: (r ++ ':' :: ' ' :: showInt n) := by
    rw [hK, List.cons_append, lstrip_nonws hc]
  exact ⟨prologue_content first _ c _ hl h1 (Or.inl h2), parseNumLine_key K0 n h3 ⟨c, r, hK, hc⟩, hl⟩

theorem nodes_header (c : Circuit) :
    nodesLoop ⟨none, none, false, []⟩ (nodesText c) =
      nodesLoop ⟨some (c.cells.length : Int), some ((c.cells.countP (·.fixed) : Nat) : Int), true, []⟩ (nodeLinesFrom 0 c.cells) := by
  have e1 := keyLine_eq "NumNodes : " "NumNodes ".toList (showInt c.cells.length) rfl
  have e2 := keyLine_eq "NumTerminals : " "NumTerminals ".toList (showInt (c.cells.countP (·.fixed))) rfl
  obtain ⟨p1, v1, l1⟩ := header_line true "NumNodes ".toList 'N' "umNodes ".toList (c.cells.length : Int) rfl (by decide)
    (by decide) (by decide) (by decide)
  obtain ⟨p2, v2, l2⟩ := header_line true "NumTerminals ".toList 'N' "umTerminals ".toList ((c.cells.countP (·.fixed) : Nat) : Int)
    rfl (by decide) (by decide) (by decide) (by decide)
  have s1 : startsWith "NumNodes" (strip ("NumNodes ".toList ++ ':' :: ' ' :: showInt (c.cells.length : Int))) = true := by
    rw [startsWith_strip "NumNodes" (free_of_all (by decide)), l1]; rfl
  have s2 : startsWith "NumNodes" (strip ("NumTerminals ".toList ++ ':' :: ' ' :: showInt ((c.cells.countP (·.fixed) : Nat) : Int))) = false := by
    rw [startsWith_strip "NumNodes" (free_of_all (by decide)), l2]; rfl
  have s3 : startsWith "NumTerminals" (strip ("NumTerminals ".toList ++ ':' :: ' ' :: showInt ((c.cells.countP (·.fixed) : Nat) : Int))) = true := by
    rw [startsWith_strip "NumTerminals" (free_of_all (by decide)), l2]; rfl
  have hu : prologue false "UCLA nodes 1.0".toList = .first := by decide
  have hb : prologue true [] = .skip := rfl
  simp only [nodesText, nodesLoop, nodesStep, hu, hb, e1, e2, p1, p2, nodesContent, s1, s2, s3, v1, v2, if_true,
    Bool.false_eq_true, if_false, Option.isSome_none]

theorem nodesFinish_records (f : Files) (b : Bool) :
    nodesFinish ⟨f.numNodes, f.numTerminals, b, f.nodes.map recTuple⟩ = readNodes f := by
  simp [nodesFinish, readNodes, recTuple, List.map_map, Function.comp_def, List.countP_map]

/-- **`.nodes`**: `_read_nodes` on the exported text = the record-level reader on the exported records -/
theorem readNodesT_write (c : Circuit) : readNodesT (nodesText c) = readNodes (write c) := by
  unfold readNodesT
  rw [nodes_header, nodesLoop_cells c.cells 0 _ rfl]
  simp only [List.nil_append]
  exact nodesFinish_records (write c) true

/-! ### `.pl` -/

theorem splitC_plLine (i : Nat) (cl : Cell) :
    splitBy isWsC (plLine i cl) = [cellTok i, showInt cl.x, showInt cl.y, (orientToString cl.orient).toList] := by
  unfold plLine
  rw [splitBy_tok isWsC (cellTok_ne_nil i) (cellTok_free i) (by decide),
    splitBy_tok isWsC (showInt_ne_nil _) (showInt_free _) (by decide),
    splitBy_tok isWsC (showInt_ne_nil _) (showInt_free _) (by decide),
    splitBy_sep isWsC (by decide), splitBy_sep isWsC (by decide),
    splitBy_tok_end isWsC (orient_ne_nil _) (orient_free _)]

theorem lstrip_plLine (i : Nat) (cl : Cell) : ∃ r, lstrip (plLine i cl) = 'o' :: r := by
  unfold plLine cellTok
  rw [List.cons_append, lstrip_nonws (by decide)]
  exact ⟨_, rfl⟩

theorem placeOfVals_plLine (names : List String) (st : Place) (i : Nat) (cl : Cell) :
    placeOfVals names st [cellTok i, showInt cl.x, showInt cl.y, (orientToString cl.orient).toList] =
      readPlaceStep names st ⟨cellName i, cl.x, cl.y, orientToString cl.orient, false⟩ := by
  simp only [placeOfVals, ofList_cellTok, pyInt_showInt, String.ofList_toList, readPlaceStep]
  cases lookup (cellName i) names <;> cases orientOfName (orientToString cl.orient) <;> rfl

theorem placeLoop_cells (names : List String) (cs : List Cell) : ∀ (k : Nat) (first : Bool) (st : Place),
    placeLoop names first st (plLinesFrom k cs) = readPlaceLoop names st (writePlFrom k cs) := by
  induction cs with
  | nil => intro k first st; rfl
  | cons cl cs ih =>
    intro k first st
    obtain ⟨r, hl⟩ := lstrip_plLine k cl
    have hp := prologue_content first (plLine k cl) 'o' r hl (by decide) (Or.inl (by decide))
    simp only [plLinesFrom, placeLoop, hp, splitC_strip, splitC_plLine, placeOfVals_plLine, writePlFrom, readPlaceLoop]
    cases h : readPlaceStep names st ⟨cellName k, cl.x, cl.y, orientToString cl.orient, false⟩ with
    | error e => rfl
    | ok st' => simp only [ih (k + 1) first st']; rfl

/-- **`.pl`**: `_read_place` on the exported text = the record-level reader on the exported records -/
theorem readPlaceT_write (c : Circuit) (names : List String) : readPlaceT (plText c) names = readPlace (write c) names := by
  have hu : prologue false "UCLA pl 1.0".toList = .first := by decide
  have hb : prologue true [] = .skip := rfl
  simp only [readPlaceT, plText, placeLoop, hu, hb, placeLoop_cells, readPlace, write]

/-! ### `.nets` -/

theorem splitC_pinLine (c : Circuit) (p : Pin) :
    splitBy isWsC (pinLine c p) =
      [cellTok p.cell, ['I'], fmtG6 (2 * p.xo - (c.cell p.cell).w), fmtG6 (2 * p.yo - (c.cell p.cell).h)] := by
  have hI : ∀ rest, splitBy isWsC ('I' :: ' ' :: rest) = ['I'] :: splitBy isWsC rest := fun rest =>
    splitBy_tok isWsC (t := ['I']) (by decide) (free_of_all (by decide)) (w := ' ') (by decide) rest
  unfold pinLine
  rw [splitBy_sep isWsC (by decide), splitBy_tok isWsC (cellTok_ne_nil _) (cellTok_free _) (by decide), hI,
    splitBy_sep isWsC (by decide), splitBy_sep isWsC (by decide),
    splitBy_tok isWsC (fmtG6_ne_nil _) (fmtG6_free _) (by decide),
    splitBy_tok_end isWsC (fmtG6_ne_nil _) (fmtG6_free _)]

theorem lstrip_pinLine (c : Circuit) (p : Pin) : ∃ r, lstrip (pinLine c p) = 'o' :: r := by
  unfold pinLine cellTok
  rw [lstrip_ws (by decide), List.cons_append, lstrip_nonws (by decide)]
  exact ⟨_, rfl⟩

theorem appendPin_last (pre : List RawNet) (d : Int) (ps : List (Nat × Rat × Rat)) (x : Nat × Rat × Rat) :
    appendPin (pre ++ [(d, ps)]) x = .ok (pre ++ [(d, ps ++ [x])]) := by
  induction pre with
  | nil => rfl
  | cons a pre ih =>
    cases pre with
    | nil => simp only [List.cons_append, List.nil_append, appendPin]
    | cons b pre =>
      simp only [List.cons_append] at ih ⊢
      simp only [appendPin, ih]

theorem netsStep_pinLine (names : List String) (c : Circuit) (p : Pin) (hp : pinPrintable c p = true)
    (st : NetsSt) (pre : List RawNet) (d : Int) (ps0 : List (Nat × Rat × Rat)) (hn : st.nets = pre ++ [(d, ps0)]) :
    netsStep names st (pinLine c p) =
      match lookup (cellName p.cell) names with
      | none => .error .assertion
      | some i => .ok { st with nets := pre ++ [(d, ps0 ++ [(i, (writePin c p).dx, (writePin c p).dy)])] } := by
  obtain ⟨r, hl⟩ := lstrip_pinLine c p
  simp only [pinPrintable, Bool.and_eq_true, decide_eq_true_eq] at hp
  have hpro := prologue_content st.first (pinLine c p) 'o' r hl (by decide) (Or.inl (by decide))
  have h1 := startsWith_strip_ne "NumNets" 'N' "umNets".toList rfl (free_of_all (by decide)) (pinLine c p) 'o' r hl (by decide)
  have h2 := startsWith_strip_ne "NumPins" 'N' "umPins".toList rfl (free_of_all (by decide)) (pinLine c p) 'o' r hl (by decide)
  have h3 : startsWith "NetDegree" (replaceColon (strip (pinLine c p))) = false := by
    rw [startsWith_replaceColon "NetDegree" (by decide)]
    exact startsWith_strip_ne "NetDegree" 'N' "etDegree".toList rfl (free_of_all (by decide)) (pinLine c p) 'o' r hl (by decide)
  simp only [netsStep, hpro, netsContent, h1, h2, h3, Bool.false_eq_true, if_false, splitC_strip, splitC_pinLine, pinOfVals,
    pyFloat_fmtG6 _ hp.1, pyFloat_fmtG6 _ hp.2, ofList_cellTok, writePin]
  cases lookup (cellName p.cell) names with
  | none => rfl
  | some i => simp only [hn, appendPin_last]

theorem netsLoop_pins (names : List String) (c : Circuit) (rest : List Line) (ps : List Pin) :
    ∀ (st : NetsSt) (pre : List RawNet) (d : Int) (ps0 : List (Nat × Rat × Rat)), st.nets = pre ++ [(d, ps0)] →
      ps.all (pinPrintable c) = true →
      netsLoop names st (ps.map (pinLine c) ++ rest) =
        match resolvePins names (ps.map (writePin c)) with
        | .error e => .error e
        | .ok r => netsLoop names { st with nets := pre ++ [(d, ps0 ++ r)] } rest := by
  induction ps with
  | nil =>
    intro st pre d ps0 hn _
    simp only [List.map_nil, List.nil_append, resolvePins, pure, Except.pure, List.append_nil, ← hn]
  | cons p ps ih =>
    intro st pre d ps0 hn hall
    simp only [List.all_cons, Bool.and_eq_true] at hall
    have hc : (writePin c p).cell = cellName p.cell := rfl
    simp only [List.map_cons, List.cons_append, netsLoop, netsStep_pinLine names c p hall.1 st pre d ps0 hn, resolvePins, hc]
    cases lookup (cellName p.cell) names with
    | none => rfl
    | some i =>
      simp only []
      rw [ih _ pre d (ps0 ++ [(i, (writePin c p).dx, (writePin c p).dy)]) rfl hall.2]
      cases resolvePins names (ps.map (writePin c)) with
      | error e => rfl
      | ok r => simp only [ok_bind, pure_eq_ok, List.append_assoc, List.singleton_append]

theorem netDegreeLine_eq (i : Nat) (n : Net) :
    netDegreeLine i n = "NetDegree".toList ++ ' ' :: ':' :: ' ' :: (showInt n.pins.length ++ ' ' :: netTok i) := rfl

theorem netsStep_degreeLine (names : List String) (st : NetsSt) (i : Nat) (n : Net) :
    netsStep names st (netDegreeLine i n) = .ok { st with nets := st.nets ++ [((n.pins.length : Int), [])] } := by
  have hl : lstrip (netDegreeLine i n) = netDegreeLine i n := by
    rw [netDegreeLine_eq]
    exact lstrip_nonws (c := 'N') (by decide) _
  have hl' : lstrip (netDegreeLine i n) = 'N' :: ("etDegree".toList ++ ' ' :: ':' :: ' ' :: (showInt n.pins.length ++ ' ' :: netTok i)) := by
    rw [hl]; rfl
  have hpro := prologue_content st.first (netDegreeLine i n) 'N' _ hl' (by decide) (Or.inl (by decide))
  have h1 : startsWith "NumNets" (strip (netDegreeLine i n)) = false := by
    rw [startsWith_strip "NumNets" (free_of_all (by decide)), hl, netDegreeLine_eq,
      startsWith_append_of_le "NumNets" _ _ (by decide)]; decide
  have h2 : startsWith "NumPins" (strip (netDegreeLine i n)) = false := by
    rw [startsWith_strip "NumPins" (free_of_all (by decide)), hl, netDegreeLine_eq,
      startsWith_append_of_le "NumPins" _ _ (by decide)]; decide
  have h3 : startsWith "NetDegree" (replaceColon (strip (netDegreeLine i n))) = true := by
    rw [startsWith_replaceColon "NetDegree" (by decide), startsWith_strip "NetDegree" (free_of_all (by decide)), hl,
      netDegreeLine_eq, startsWith_append_of_le "NetDegree" _ _ (by decide)]; decide
  have hs : splitBy isWsC (netDegreeLine i n) = ["NetDegree".toList, showInt n.pins.length, netTok i] := by
    rw [netDegreeLine_eq, splitBy_tok isWsC (by decide) (free_of_all (by decide)) (by decide),
      splitBy_sep isWsC (by decide), splitBy_sep isWsC (by decide),
      splitBy_tok isWsC (showInt_ne_nil _) (showInt_free _) (by decide),
      splitBy_tok_end isWsC (netTok_ne_nil _) (netTok_free _)]
  simp only [netsStep, hpro, netsContent, h1, h2, h3, Bool.false_eq_true, if_false, if_true, splitC_strip, hs, degreeOfVals,
    pyInt_showInt]

theorem netsLoop_nets (names : List String) (c : Circuit) (rest : List Line) (ns : List Net) :
    ∀ (k : Nat) (st : NetsSt), ns.all (fun n => n.pins.all (pinPrintable c)) = true →
      netsLoop names st (netLinesFrom c k ns ++ rest) =
        match resolveNets names (writeNetsFrom c k ns) with
        | .error e => .error e
        | .ok raw => netsLoop names { st with nets := st.nets ++ raw } rest := by
  induction ns with
  | nil => intro k st _; simp [netLinesFrom, writeNetsFrom, resolveNets, pure, Except.pure]
  | cons n ns ih =>
    intro k st hall
    simp only [List.all_cons, Bool.and_eq_true] at hall
    simp only [netLinesFrom, List.cons_append, List.append_assoc, netsLoop, netsStep_degreeLine, writeNetsFrom, resolveNets]
    rw [netsLoop_pins names c _ n.pins _ st.nets (n.pins.length : Int) [] rfl hall.1]
    cases resolvePins names (n.pins.map (writePin c)) with
    | error e => rfl
    | ok r =>
      simp only [List.nil_append, ok_bind]
      rw [ih (k + 1) _ hall.2]
      cases resolveNets names (writeNetsFrom c (k + 1) ns) with
      | error e => rfl
      | ok raw => simp only [ok_bind, pure_eq_ok, List.append_assoc, List.singleton_append]

theorem readNets_eq (f : Files) (nd : Nodes) :
    readNets f nd = match resolveNets nd.names f.nets with
      | .error e => .error e
      | .ok raw => netsFinish f.numNets f.numPins nd raw := by
  unfold readNets netsFinish
  cases resolveNets nd.names f.nets <;> rfl

theorem nets_header (names : List String) (c : Circuit) :
    netsLoop names ⟨none, none, false, []⟩ (netsText c) =
      netsLoop names ⟨some (c.nets.length : Int), some ((totalPins c.nets : Nat) : Int), true, []⟩ (netLinesFrom c 0 c.nets) := by
  have e1 := keyLine_eq "NumNets : " "NumNets ".toList (showInt c.nets.length) rfl
  have e2 := keyLine_eq "NumPins : " "NumPins ".toList (showInt (totalPins c.nets)) rfl
  obtain ⟨p1, v1, l1⟩ := header_line true "NumNets ".toList 'N' "umNets ".toList (c.nets.length : Int) rfl (by decide)
    (by decide) (by decide) (by decide)
  obtain ⟨p2, v2, l2⟩ := header_line true "NumPins ".toList 'N' "umPins ".toList ((totalPins c.nets : Nat) : Int)
    rfl (by decide) (by decide) (by decide) (by decide)
  have s1 : startsWith "NumNets" (strip ("NumNets ".toList ++ ':' :: ' ' :: showInt (c.nets.length : Int))) = true := by
    rw [startsWith_strip "NumNets" (free_of_all (by decide)), l1]; rfl
  have s2 : startsWith "NumNets" (strip ("NumPins ".toList ++ ':' :: ' ' :: showInt ((totalPins c.nets : Nat) : Int))) = false := by
    rw [startsWith_strip "NumNets" (free_of_all (by decide)), l2]; rfl
  have s3 : startsWith "NumPins" (strip ("NumPins ".toList ++ ':' :: ' ' :: showInt ((totalPins c.nets : Nat) : Int))) = true := by
    rw [startsWith_strip "NumPins" (free_of_all (by decide)), l2]; rfl
  have hu : prologue false "UCLA nets 1.0".toList = .first := by decide
  have hb : prologue true [] = .skip := rfl
  simp only [netsText, netsLoop, netsStep, hu, hb, e1, e2, p1, p2, netsContent, s1, s2, s3, v1, v2, if_true,
    Bool.false_eq_true, if_false, Option.isSome_none]

/-- **`.nets`**: `_read_nets` on the exported text = the record-level reader on the exported records, as long
as every pin offset is printable with six digits -/
theorem readNetsT_write (c : Circuit) (nd : Nodes) (hp : printable c = true) :
    readNetsT (netsText c) nd = readNets (write c) nd := by
  have h := netsLoop_nets nd.names c [] c.nets 0 ⟨some (c.nets.length : Int), some ((totalPins c.nets : Nat) : Int), true, []⟩ hp
  rw [List.append_nil] at h
  rw [readNets_eq]
  unfold readNetsT
  rw [nets_header, h]
  simp only [write]
  cases resolveNets nd.names (writeNetsFrom c 0 c.nets) with
  | error e => rfl
  | ok raw => simp only [netsLoop, List.nil_append]

/-! ### `.scl` -/

theorem lstrip_append (K D : Line) (h : lstrip K ≠ []) : lstrip (K ++ D) = lstrip K ++ D := by
  unfold lstrip at *
  rw [List.dropWhile_append]
  simp [h]

/-- `startswith` on a stripped line that begins with a closed text `K` -/
theorem startsWith_strip_prefix (P : String) (hP : Free isWs P.toList) (K K' D : Line) (hK : lstrip K = K')
    (hne : K' ≠ []) (hlen : P.toList.length ≤ K'.length) : startsWith P (strip (K ++ D)) = startsWith P K' := by
  rw [startsWith_strip P hP, lstrip_append K D (by rw [hK]; exact hne), hK, startsWith_append_of_le P K' D hlen]

theorem splitBy_seps (p : Char → Bool) (S : Line) (hS : S.all p = true) (rest : Line) :
    splitBy p (S ++ rest) = splitBy p rest := by
  induction S with
  | nil => rfl
  | cons a S ih =>
    simp only [List.all_cons, Bool.and_eq_true] at hS
    rw [List.cons_append, splitBy_sep p hS.1, ih hS.2]

/-- leading separators, a key, separators -/
theorem splitBy_key (p : Char → Bool) (S1 T S2 D : Line) (hS1 : S1.all p = true) (hT : T ≠ []) (hf : Free p T)
    (w : Char) (S2' : Line) (hS2 : S2 = w :: S2') (hw : p w = true) (hS2' : S2'.all p = true) :
    splitBy p (S1 ++ (T ++ (S2 ++ D))) = T :: splitBy p D := by
  rw [splitBy_seps p S1 hS1, hS2, List.cons_append, splitBy_tok p hT hf hw, splitBy_seps p S2' hS2']

def rowDesc (r : Row) : List Line :=
  ["Coordinate".toList, showInt r.rect.minY, "Height".toList, showInt r.rect.height, "Sitewidth".toList, ['1'],
   "Sitespacing".toList, ['1'], "Siteorient".toList, (orientToString r.orient).toList, "Sitesymmetry".toList, ['1'],
   "SubrowOrigin".toList, showInt r.rect.minX, "NumSites".toList, showInt r.rect.width]

theorem extendLast_last (ds : List (List Line)) (d t : List Line) : extendLast (ds ++ [d]) t = ds ++ [d ++ t] := by
  induction ds with
  | nil => rfl
  | cons a ds ih =>
    cases ds with
    | nil => simp only [List.cons_append, List.nil_append, extendLast]
    | cons b ds =>
      simp only [List.cons_append] at ih ⊢
      simp only [extendLast, ih]

/-- the three things `_read_rows` looks at in a line `K ++ D` whose closed part `K` starts with a key -/
theorem scl_line (K K' D : Line) (hK : lstrip K = K') (hne : K' ≠ []) (h7 : 7 ≤ K'.length)
    (hN : startsWith "NumRows" K' = false) (hC : startsWith "CoreRow" K' = false) (hE : startsWith "End" K' = false) :
    startsWith "NumRows" (strip (K ++ D)) = false ∧ startsWith "CoreRow" (strip (K ++ D)) = false ∧
    startsWith "End" (strip (K ++ D)) = false := by
  refine ⟨?_, ?_, ?_⟩
  · rw [startsWith_strip_prefix "NumRows" (free_of_all (by decide)) K K' D hK hne h7, hN]
  · rw [startsWith_strip_prefix "CoreRow" (free_of_all (by decide)) K K' D hK hne h7, hC]
  · rw [startsWith_strip_prefix "End" (free_of_all (by decide)) K K' D hK hne (Nat.le_trans (by decide) h7), hE]

abbrev SclFalse (l : Line) : Prop :=
  startsWith "NumRows" (strip l) = false ∧ startsWith "CoreRow" (strip l) = false ∧ startsWith "End" (strip l) = false

theorem sclA (D : Line) : SclFalse ("  Coordinate    : ".toList ++ D) := scl_line "  Coordinate    : ".toList "Coordinate    : ".toList D (by decide) (by decide) (by decide) (by decide) (by decide) (by decide)
theorem sclB (D : Line) : SclFalse ("  Height        : ".toList ++ D) := scl_line "  Height        : ".toList "Height        : ".toList D (by decide) (by decide) (by decide) (by decide) (by decide) (by decide)
theorem sclC (D : Line) : SclFalse ("  Siteorient    : ".toList ++ D) := scl_line "  Siteorient    : ".toList "Siteorient    : ".toList D (by decide) (by decide) (by decide) (by decide) (by decide) (by decide)
theorem sclD (D : Line) : SclFalse ("  SubrowOrigin  : ".toList ++ D) := scl_line "  SubrowOrigin  : ".toList "SubrowOrigin  : ".toList D (by decide) (by decide) (by decide) (by decide) (by decide) (by decide)

theorem tokA (D : Line) (hne : D ≠ []) (hf : Free isWsC D) :
    splitBy isWsC ("  Coordinate    : ".toList ++ D) = ["Coordinate".toList, D] := by
  have e : "  Coordinate    : ".toList ++ D = "  ".toList ++ ("Coordinate".toList ++ ("    : ".toList ++ D)) := rfl
  rw [e, splitBy_key isWsC "  ".toList "Coordinate".toList "    : ".toList D (by decide) (by decide) (free_of_all (by decide)) ' ' "   : ".toList rfl (by decide) (by decide),
    splitBy_tok_end isWsC hne hf]

theorem tokB (D : Line) (hne : D ≠ []) (hf : Free isWsC D) :
    splitBy isWsC ("  Height        : ".toList ++ D) = ["Height".toList, D] := by
  have e : "  Height        : ".toList ++ D = "  ".toList ++ ("Height".toList ++ ("        : ".toList ++ D)) := rfl
  rw [e, splitBy_key isWsC "  ".toList "Height".toList "        : ".toList D (by decide) (by decide) (free_of_all (by decide)) ' ' "       : ".toList rfl (by decide) (by decide),
    splitBy_tok_end isWsC hne hf]

theorem tokC (D : Line) (hne : D ≠ []) (hf : Free isWsC D) :
    splitBy isWsC ("  Siteorient    : ".toList ++ D) = ["Siteorient".toList, D] := by
  have e : "  Siteorient    : ".toList ++ D = "  ".toList ++ ("Siteorient".toList ++ ("    : ".toList ++ D)) := rfl
  rw [e, splitBy_key isWsC "  ".toList "Siteorient".toList "    : ".toList D (by decide) (by decide) (free_of_all (by decide)) ' ' "   : ".toList rfl (by decide) (by decide),
    splitBy_tok_end isWsC hne hf]

theorem tokD (D1 D2 : Line) (hne1 : D1 ≠ []) (hf1 : Free isWsC D1) (hne2 : D2 ≠ []) (hf2 : Free isWsC D2) :
    splitBy isWsC ("  SubrowOrigin  : ".toList ++ (D1 ++ ("     NumSites : ".toList ++ D2))) =
      ["SubrowOrigin".toList, D1, "NumSites".toList, D2] := by
  have e : "  SubrowOrigin  : ".toList ++ (D1 ++ ("     NumSites : ".toList ++ D2)) =
      "  ".toList ++ ("SubrowOrigin".toList ++ ("  : ".toList ++ (D1 ++ ' ' :: ("    ".toList ++ ("NumSites".toList ++ (" : ".toList ++ D2)))))) := rfl
  rw [e, splitBy_key isWsC "  ".toList "SubrowOrigin".toList "  : ".toList _ (by decide) (by decide) (free_of_all (by decide)) ' ' " : ".toList rfl (by decide) (by decide),
    splitBy_tok isWsC hne1 hf1 (by decide),
    splitBy_key isWsC "    ".toList "NumSites".toList " : ".toList D2 (by decide) (by decide) (free_of_all (by decide)) ' ' ": ".toList rfl (by decide) (by decide),
    splitBy_tok_end isWsC hne2 hf2]

/-- a key/value line inside a `CoreRow` block appends its tokens to the current description -/
theorem rowDescs_tokens (l : Line) (toks : List Line) (h : SclFalse l) (ht : splitBy isWsC l = toks)
    (ds : List (List Line)) (d : List Line) (rest : List Line) :
    rowDescs true (ds ++ [d]) (l :: rest) = rowDescs true (ds ++ [d ++ toks]) rest := by
  simp only [rowDescs, h.2.1, h.2.2, Bool.false_eq_true, if_false, if_true, splitC_strip, ht, extendLast_last]

theorem rowDescs_rowLines (r : Row) (rest : List Line) (inRow : Bool) (ds : List (List Line)) :
    rowDescs inRow ds (rowLines r ++ rest) = rowDescs false (ds ++ [rowDesc r]) rest := by
  have c0 : startsWith "CoreRow" (strip "CoreRow Horizontal".toList) = true := by decide
  have c3 : SclFalse "  Sitewidth     : 1".toList ∧ splitBy isWsC "  Sitewidth     : 1".toList = ["Sitewidth".toList, ['1']] := by decide
  have c4 : SclFalse "  Sitespacing   : 1".toList ∧ splitBy isWsC "  Sitespacing   : 1".toList = ["Sitespacing".toList, ['1']] := by decide
  have c6 : SclFalse "  Sitesymmetry  : 1".toList ∧ splitBy isWsC "  Sitesymmetry  : 1".toList = ["Sitesymmetry".toList, ['1']] := by decide
  have c8 : startsWith "CoreRow" (strip "End".toList) = false ∧ startsWith "End" (strip "End".toList) = true := by decide
  have start : rowDescs inRow ds (rowLines r ++ rest) = rowDescs true (ds ++ [[]]) ((rowLines r).tail ++ rest) := by
    simp only [rowLines, List.cons_append, rowDescs, c0, if_true, List.tail_cons]
  rw [start]
  simp only [rowLines, List.tail_cons, List.cons_append, List.nil_append]
  rw [rowDescs_tokens _ _ (sclA _) (tokA _ (showInt_ne_nil _) (showInt_free _)),
    rowDescs_tokens _ _ (sclB _) (tokB _ (showInt_ne_nil _) (showInt_free _)),
    rowDescs_tokens _ _ c3.1 c3.2, rowDescs_tokens _ _ c4.1 c4.2,
    rowDescs_tokens _ _ (sclC _) (tokC _ (orient_ne_nil _) (orient_free _)),
    rowDescs_tokens _ _ c6.1 c6.2,
    rowDescs_tokens _ _ (sclD _) (tokD _ _ (showInt_ne_nil _) (showInt_free _) (showInt_ne_nil _) (showInt_free _))]
  simp only [rowDescs, c8.1, c8.2, Bool.false_eq_true, if_false, if_true, List.nil_append, List.cons_append, rowDesc]

theorem rowDescs_blocks (rs : List Row) : ∀ (inRow : Bool) (ds : List (List Line)),
    rowDescs inRow ds (rowBlocks rs) = ds ++ rs.map rowDesc := by
  induction rs with
  | nil => intro inRow ds; simp [rowBlocks, rowDescs]
  | cons r rs ih =>
    intro inRow ds
    simp only [rowBlocks, rowDescs_rowLines, ih, List.map_cons, List.append_assoc, List.singleton_append]

theorem numRowsPass_rowLines (r : Row) (rest : List Line) (nb : Option Int) :
    numRowsPass nb (rowLines r ++ rest) = numRowsPass nb rest := by
  have c0 : startsWith "NumRows" (strip "CoreRow Horizontal".toList) = false := by decide
  have c3 : startsWith "NumRows" (strip "  Sitewidth     : 1".toList) = false := by decide
  have c4 : startsWith "NumRows" (strip "  Sitespacing   : 1".toList) = false := by decide
  have c6 : startsWith "NumRows" (strip "  Sitesymmetry  : 1".toList) = false := by decide
  have c8 : startsWith "NumRows" (strip "End".toList) = false := by decide
  simp only [rowLines, List.cons_append, List.nil_append, numRowsPass, c0, c3, c4, c6, c8, (sclA _).1, (sclB _).1, (sclC _).1,
    (sclD _).1, Bool.false_eq_true, if_false]

theorem numRowsPass_blocks (rs : List Row) (nb : Option Int) : numRowsPass nb (rowBlocks rs) = .ok nb := by
  induction rs with
  | nil => rfl
  | cons r rs ih => simp only [rowBlocks, numRowsPass_rowLines, ih]

/-! #### the key/value scan of one row description -/

def isKey (t : Line) : Bool :=
  ["coordinate".toList, "subroworigin".toList, "numsites".toList, "height".toList, "sitewidth".toList,
   "siteorient".toList].contains (lower t)

theorem rowScanStep_nokey (a : RowAcc) (k v : Line) (h : isKey k = false) : rowScanStep a k v = .ok a := by
  simp only [isKey, List.contains_eq_mem, List.mem_cons, List.not_mem_nil, or_false, decide_eq_false_iff_not, not_or] at h
  obtain ⟨h1, h2, h3, h4, h5, h6⟩ := h
  simp only [rowScanStep, h1, h2, h3, h4, h5, h6, if_false]

theorem rowScan_pair (a : RowAcc) (k v : Line) (rest : List Line) (hv : isKey v = false) :
    rowScan a (k :: v :: rest) = match rowScanStep a k v with
      | .error e => .error e
      | .ok a' => rowScan a' rest := by
  simp only [rowScan]
  cases rowScanStep a k v with
  | error e => rfl
  | ok a' =>
    cases rest with
    | nil => rfl
    | cons k2 rest => simp only [rowScan, rowScanStep_nokey a' v k2 hv]

theorem toLower_small (c : Char) (h : c.toNat < 65) : c.toLower = c := by
  unfold Char.toLower
  rw [dif_neg]
  intro hh
  have h1 := hh.1
  simp only [ge_iff_le, UInt32.le_iff_toNat_le] at h1
  have : 'A'.val.toNat = 65 := by decide
  rw [this] at h1
  unfold Char.toNat at h
  omega

theorem lower_showInt (i : Int) : lower (showInt i) = showInt i := by
  unfold lower
  have : ∀ c ∈ showInt i, c.toLower = c := by
    intro c hc
    apply toLower_small
    rcases showInt_chars i c hc with h | h
    · simp only [isDig, Bool.and_eq_true, decide_eq_true_eq] at h; omega
    · subst h; decide
  calc (showInt i).map Char.toLower = (showInt i).map id := List.map_congr_left this
    _ = showInt i := List.map_id _

theorem isKey_showInt (i : Int) : isKey (showInt i) = false := by
  simp only [isKey, lower_showInt, List.contains_eq_mem, List.mem_cons, List.not_mem_nil, or_false, decide_eq_false_iff_not, not_or]
  refine ⟨?_, ?_, ?_, ?_, ?_, ?_⟩ <;>
    first
    | exact showInt_ne_of_mem i _ 'i' (by decide) (by decide) (by decide)
    | exact showInt_ne_of_mem i _ 'e' (by decide) (by decide) (by decide)

theorem isKey_orient (o : Orient) : isKey (orientToString o).toList = false := by cases o <;> decide

theorem rowScan_rowDesc (r : Row) :
    rowScan ⟨none, none, none, none, 1, .N⟩ (rowDesc r) =
      .ok ⟨some r.rect.minX, some r.rect.minY, some r.rect.width, some r.rect.height, 1,
           (orientOfName (orientToString r.orient)).getD .N⟩ := by
  have k1 : isKey ['1'] = false := by decide
  have s1 : ∀ (a : RowAcc) (v : Line), rowScanStep a "Coordinate".toList v = match pyInt v with | .error e => .error e | .ok x => .ok { a with minY := some x } := fun _ _ => rfl
  have s2 : ∀ (a : RowAcc) (v : Line), rowScanStep a "Height".toList v = match pyInt v with | .error e => .error e | .ok x => .ok { a with height := some x } := fun _ _ => rfl
  have s3 : ∀ (a : RowAcc) (v : Line), rowScanStep a "Sitewidth".toList v = match pyInt v with | .error e => .error e | .ok x => .ok { a with siteWidth := x } := fun _ _ => rfl
  have s4 : ∀ (a : RowAcc) (v : Line), rowScanStep a "Sitespacing".toList v = .ok a := fun _ _ => rfl
  have s5 : ∀ (a : RowAcc) (v : Line), rowScanStep a "Siteorient".toList v = match orientOfName (String.ofList v) with | some o => .ok { a with orient := o } | none => .ok a := fun _ _ => rfl
  have s6 : ∀ (a : RowAcc) (v : Line), rowScanStep a "Sitesymmetry".toList v = .ok a := fun _ _ => rfl
  have s7 : ∀ (a : RowAcc) (v : Line), rowScanStep a "SubrowOrigin".toList v = match pyInt v with | .error e => .error e | .ok x => .ok { a with minX := some x } := fun _ _ => rfl
  have s8 : ∀ (a : RowAcc) (v : Line), rowScanStep a "NumSites".toList v = match pyInt v with | .error e => .error e | .ok x => .ok { a with width := some x } := fun _ _ => rfl
  have one : pyInt ['1'] = .ok 1 := by decide
  have e0 : ∀ a : RowAcc, rowScan a [] = .ok a := fun _ => rfl
  unfold rowDesc
  rw [rowScan_pair _ _ _ _ (isKey_showInt _), s1, pyInt_showInt]; simp only []
  rw [rowScan_pair _ _ _ _ (isKey_showInt _), s2, pyInt_showInt]; simp only []
  rw [rowScan_pair _ _ _ _ k1, s3, one]; simp only []
  rw [rowScan_pair _ _ _ _ k1, s4]; simp only []
  rw [rowScan_pair _ _ _ _ (isKey_orient _), s5, String.ofList_toList]
  cases orientOfName (orientToString r.orient) <;>
  · simp only []
    rw [rowScan_pair _ _ _ _ k1, s6]; simp only []
    rw [rowScan_pair _ _ _ _ (isKey_showInt _), s7, pyInt_showInt]; simp only []
    rw [rowScan_pair _ _ _ _ (isKey_showInt _), s8, pyInt_showInt]; simp only []
    rw [e0]
    rfl

theorem rowsOfDescs_map (rs : List Row) : rowsOfDescs (rs.map rowDesc) = .ok (rs.map (fun r => readRow (writeRow r))) := by
  induction rs with
  | nil => rfl
  | cons r rs ih =>
    simp only [List.map_cons, rowsOfDescs, rowScan_rowDesc, rowOfAcc, ih, readRow, writeRow, Int.mul_one]

/-- **`.scl`**: `_read_rows` on the exported text = the record-level reader on the exported records -/
theorem readRowsT_write (c : Circuit) : readRowsT (sclText c) = .ok ((write c).rows.map readRow) := by
  have e1 := keyLine_eq "NumRows : " "NumRows ".toList (showInt c.rows.length) rfl
  obtain ⟨_, v1, l1⟩ := header_line true "NumRows ".toList 'N' "umRows ".toList (c.rows.length : Int) rfl (by decide)
    (by decide) (by decide) (by decide)
  have s1 : startsWith "NumRows" (strip ("NumRows ".toList ++ ':' :: ' ' :: showInt (c.rows.length : Int))) = true := by
    rw [startsWith_strip "NumRows" (free_of_all (by decide)), l1]; rfl
  have s2 := startsWith_strip_ne "CoreRow" 'C' "oreRow".toList rfl (free_of_all (by decide)) _ 'N' _ l1 (by decide)
  have s3 := startsWith_strip_ne "End" 'E' "nd".toList rfl (free_of_all (by decide)) _ 'N' _ l1 (by decide)
  have u : startsWith "NumRows" (strip "UCLA scl 1.0".toList) = false ∧ startsWith "CoreRow" (strip "UCLA scl 1.0".toList) = false ∧
      startsWith "End" (strip "UCLA scl 1.0".toList) = false := by decide
  have b : startsWith "NumRows" (strip []) = false ∧ startsWith "CoreRow" (strip []) = false ∧ startsWith "End" (strip []) = false := by decide
  simp only [readRowsT, sclText, e1, numRowsPass, rowDescs, u.1, u.2.1, u.2.2, b.1, b.2.1, b.2.2, s1, s2, s3, v1, if_true,
    Bool.false_eq_true, if_false, Option.isSome_none, numRowsPass_blocks, rowDescs_blocks, List.nil_append, rowsOfDescs_map,
    write, List.map_map, Function.comp_def]

/-! ### the four files together -/

/-- **Text level refines record level**: `read_ispd` on the exported texts = `Ispd.read` on the exported
records, for every circuit whose pin offsets are printable with six digits. -/
theorem readText_write (c : Circuit) (hp : printable c = true) : readText (writeText c) = read (write c) := by
  simp only [readText, writeText, read, readNodesT_write, readNodes_write, ok_bind, readNetsT_write c _ hp,
    readPlaceT_write, readRowsT_write]

theorem printable_of_inDomain (c : Circuit) (h : inDomain c = true) : printable c = true := by
  simp only [inDomain, Bool.and_eq_true] at h
  obtain ⟨⟨⟨_, _⟩, hn⟩, _⟩ := h
  rw [printable, List.all_eq_true]
  intro n hm
  have h1 := (List.all_eq_true.1 hn) n hm
  simp only [Bool.and_eq_true] at h1
  rw [List.all_eq_true]
  intro p hpm
  have h2 := (List.all_eq_true.1 h1.2) p hpm
  simp only [pinOk, Bool.and_eq_true] at h2
  simp only [pinPrintable, Bool.and_eq_true]
  exact ⟨h2.1.2, h2.2⟩

/-! ### `write_placement` / `load_placement` -/

/-- names that `write_placement` can print and `_read_place` finds again as the first token of a line -/
def nameOk (t : Line) : Prop := Free isWsC t ∧ ∃ c r, t = c :: r ∧ c ≠ '#'

def solRecs : List String → List Cell → List PlRec
  | n :: ns, cl :: cs => ⟨n, cl.x, cl.y, orientToString cl.orient, cl.fixed⟩ :: solRecs ns cs
  | _, _ => []

theorem splitC_solLine (name : Line) (hne : name ≠ []) (hf : Free isWsC name) (cl : Cell) :
    splitBy isWsC (solLine name cl) =
      name :: showInt cl.x :: showInt cl.y :: (orientToString cl.orient).toList :: (if cl.fixed then ["/FIXED".toList] else []) := by
  unfold solLine
  rw [splitBy_tok isWsC hne hf (by decide), splitBy_tok isWsC (showInt_ne_nil _) (showInt_free _) (by decide),
    splitBy_tok isWsC (showInt_ne_nil _) (showInt_free _) (by decide), splitBy_sep isWsC (by decide), splitBy_sep isWsC (by decide)]
  cases cl.fixed
  · simp only [Bool.false_eq_true, if_false, List.append_nil]
    rw [splitBy_tok_end isWsC (orient_ne_nil _) (orient_free _)]
  · simp only [if_true]
    have : " /FIXED".toList = ' ' :: "/FIXED".toList := rfl
    rw [this, splitBy_tok isWsC (orient_ne_nil _) (orient_free _) (by decide),
      splitBy_tok_end isWsC (by decide) (free_of_all (by decide))]

theorem placeLoop_sol (nm : List String) : ∀ (ns : List String) (cs : List Cell) (st : Place),
    (∀ s ∈ ns, nameOk s.toList) →
    placeLoop nm true st (solLines (ns.map String.toList) cs) = readPlaceLoop nm st (solRecs ns cs) := by
  intro ns
  induction ns with
  | nil => intro cs st _; rfl
  | cons n ns ih =>
    intro cs st hok
    cases cs with
    | nil => rfl
    | cons cl cs =>
      obtain ⟨hf, ch, r, hn, hc⟩ := hok n (List.mem_cons_self ..)
      have hne : n.toList ≠ [] := by rw [hn]; simp
      have hws : isWs ch = false := by
        have := hf.ws ch (by rw [hn]; exact List.mem_cons_self ..)
        exact this
      have hl : lstrip (solLine n.toList cl) = ch :: (r ++ '\t' :: (showInt cl.x ++ '\t' :: (showInt cl.y ++ '\t' :: ':' :: ' ' ::
          ((orientToString cl.orient).toList ++ (if cl.fixed then " /FIXED".toList else []))))) := by
        unfold solLine
        rw [hn, List.cons_append, lstrip_nonws hws]
      have hp := prologue_content true (solLine n.toList cl) ch _ hl hc (Or.inr rfl)
      simp only [List.map_cons, solLines, placeLoop, hp, splitC_strip, splitC_solLine n.toList hne hf cl, solRecs, readPlaceLoop]
      have hstep : placeOfVals nm st (n.toList :: showInt cl.x :: showInt cl.y :: (orientToString cl.orient).toList ::
            (if cl.fixed then ["/FIXED".toList] else [])) =
          readPlaceStep nm st ⟨n, cl.x, cl.y, orientToString cl.orient, cl.fixed⟩ := by
        simp only [placeOfVals, String.ofList_toList, pyInt_showInt, readPlaceStep]
        cases lookup n nm <;> cases orientOfName (orientToString cl.orient) <;> rfl
      rw [hstep]
      cases readPlaceStep nm st ⟨n, cl.x, cl.y, orientToString cl.orient, cl.fixed⟩ with
      | error e => rfl
      | ok st' =>
        simp only []
        rw [ih cs st' (fun s hs => hok s (List.mem_cons_of_mem _ hs))]
        rfl

theorem lookup_nodup : ∀ (nm : List String) (i : Nat) (s : String), nm.Nodup → nm[i]? = some s → lookup s nm = some i := by
  intro nm
  induction nm with
  | nil => intro i s _ h; simp at h
  | cons n nm ih =>
    intro i s hnd h
    rw [List.nodup_cons] at hnd
    cases i with
    | zero =>
      simp only [List.getElem?_cons_zero, Option.some.injEq] at h
      subst h
      simp [lookup, lookup_none hnd.1]
    | succ j =>
      simp only [List.getElem?_cons_succ] at h
      simp [lookup, ih j s hnd.2 h]

theorem readPlaceLoop_sol (nm : List String) (hnd : nm.Nodup) (cs : List Cell)
    (hc : cs.all (fun cl => isProper cl.orient) = true) :
    ∀ pre : List Cell, pre.length + cs.length = nm.length →
      readPlaceLoop nm (placeAfter pre cs.length) (solRecs (nm.drop pre.length) cs) = .ok (placeAfter (pre ++ cs) 0) := by
  induction cs with
  | nil => intro pre _; cases nm.drop pre.length <;> simp [readPlaceLoop, solRecs, pure_eq_ok]
  | cons cl cs ih =>
    intro pre hn
    simp only [List.all_cons, Bool.and_eq_true] at hc
    simp only [List.length_cons] at hn
    have hlt : pre.length < nm.length := by omega
    have hd : nm.drop pre.length = nm[pre.length] :: nm.drop (pre.length + 1) := List.drop_eq_getElem_cons hlt
    have hl := lookup_nodup nm pre.length nm[pre.length] hnd (List.getElem?_eq_getElem hlt)
    have hx := set_mid (pre.map (·.x)) 0 cl.x cs.length
    have hy := set_mid (pre.map (·.y)) 0 cl.y cs.length
    have ho := set_mid (pre.map (fun c => some c.orient)) none (some cl.orient) cs.length
    simp only [List.length_map] at hx hy ho
    have ih' := ih hc.2 (pre ++ [cl]) (by simp; omega)
    simp only [List.length_append, List.length_cons, List.length_nil, Nat.zero_add, List.append_assoc,
      List.cons_append, List.nil_append] at ih'
    rw [hd]
    simp only [solRecs, readPlaceLoop, readPlaceStep, hl, orientOfName_toString cl.orient hc.1, ok_bind,
      pure_eq_ok, placeAfter, List.length_cons, hx, hy, ho]
    simpa [placeAfter] using ih'

theorem setPlacement_maps : ∀ (cs ds : List Cell), cs.length = ds.length →
    (setPlacement cs (ds.map (·.x)) (ds.map (·.y)) (ds.map (·.orient))).map (fun cl => (cl.x, cl.y, cl.orient)) =
        ds.map (fun cl => (cl.x, cl.y, cl.orient)) ∧
    (setPlacement cs (ds.map (·.x)) (ds.map (·.y)) (ds.map (·.orient))).map (fun cl => (cl.w, cl.h, cl.fixed, cl.obstruction, cl.pol)) =
        cs.map (fun cl => (cl.w, cl.h, cl.fixed, cl.obstruction, cl.pol))
  | [], [], _ => ⟨rfl, rfl⟩
  | [], _ :: _, h => by simp at h
  | _ :: _, [], h => by simp at h
  | c :: cs, d :: ds, h => by
    have ih := setPlacement_maps cs ds (by simpa using h)
    simp only [List.map_cons, setPlacement, ih.1, ih.2, and_self]

/-- `load_placement(write_placement(c))` into a circuit `c0` with the same cell names -/
theorem loadPlacement_writePlacement (nm : List String) (c c0 : Circuit) (hnd : nm.Nodup)
    (hok : ∀ s ∈ nm, nameOk s.toList) (hlen : nm.length = c.cells.length) (hlen0 : c0.cells.length = c.cells.length)
    (hc : c.cells.all (fun cl => isProper cl.orient) = true) :
    loadPlacement nm (writePlacementText (nm.map String.toList) c) c0 =
      .ok { c0 with cells := setPlacement c0.cells (c.cells.map (·.x)) (c.cells.map (·.y)) (c.cells.map (·.orient)) } := by
  have hu : prologue false "UCLA pl 1.0".toList = .first := by decide
  have h1 : prologue true "# Created by Coloquinte".toList = .skip :=
    prologue_comment true _ " Created by Coloquinte".toList (lstrip_nonws (c := '#') (by decide) _)
  have h2 : prologue true "# https://github.com/Coloquinte/PlaceRoute".toList = .skip :=
    prologue_comment true _ " https://github.com/Coloquinte/PlaceRoute".toList (lstrip_nonws (c := '#') (by decide) _)
  have hb : prologue true [] = .skip := rfl
  have hB := readPlaceLoop_sol nm hnd c.cells hc [] (by simp; omega)
  simp only [List.length_nil, List.drop_zero, List.nil_append] at hB
  have hA := placeLoop_sol nm nm c.cells (placeAfter [] c.cells.length) hok
  have hinit : (⟨List.replicate nm.length 0, List.replicate nm.length 0, List.replicate nm.length none⟩ : Place) =
      placeAfter [] c.cells.length := by simp [placeAfter, hlen]
  simp only [loadPlacement, readPlaceT, writePlacementText, placeLoop, hu, h1, h2, hb, hinit, hA, hB]
  simp only [placeAfter, List.replicate_zero, List.append_nil, List.length_map, hlen0, ne_eq, not_true_eq_false, if_false,
    allSome_map]

end ColoVerif.Ispd.Text
