/-
The libstdc++ binary heap of `Model/Transp.lean` (`makeHeap`, `heapPush`, `heapPop`) keeps the
min-heap property `IsHeap` and permutes its contents.
-/
import ColoVerif.Proofs.TranspSsp2Defs

namespace ColoVerif.Transp

/-! ### pointwise access -/

theorem hget_set (a : Heap) (i k : Nat) (v : CostElt) :
    hget (a.setIfInBounds i v) k = if k = i ∧ i < a.size then v else hget a k := by
  unfold hget
  simp only [Array.getD_eq_getD_getElem?, Array.getElem?_setIfInBounds]
  by_cases h : i = k
  · subst h
    by_cases h2 : i < a.size
    · simp [h2]
    · simp [h2]
  · have h' : ¬ k = i := fun e => h e.symm
    simp [h, h']

theorem hget_set_self (a : Heap) (i : Nat) (v : CostElt) (h : i < a.size) :
    hget (a.setIfInBounds i v) i = v := by
  rw [hget_set]; simp [h]

theorem hget_set_ne (a : Heap) (i k : Nat) (v : CostElt) (h : k ≠ i) :
    hget (a.setIfInBounds i v) k = hget a k := by
  rw [hget_set]; simp [h]

theorem hget_eq_getElem (a : Heap) (i : Nat) (h : i < a.size) : hget a i = a[i] := by
  unfold hget; simp [h]

theorem hget_toList (a : Heap) (i : Nat) (h : i < a.toList.length) : a.toList[i] = hget a i := by
  unfold hget
  have h' : i < a.size := by simpa using h
  simp [h']

theorem comp_iff (x y : CostElt) : comp x y = true ↔ x.cost > y.cost := by
  unfold comp; simp

/-! ### induction principles for the two loops -/

theorem pushHeapLoop_ind (top : Nat) (v : CostElt) (P : Heap → Nat → Prop) (Q : Heap → Prop)
    (step : ∀ a hole, P a hole → hole > top → (hget a ((hole - 1) / 2)).cost > v.cost →
      P (a.setIfInBounds hole (hget a ((hole - 1) / 2))) ((hole - 1) / 2))
    (fin : ∀ a hole, P a hole → (hole ≤ top ∨ (hget a ((hole - 1) / 2)).cost ≤ v.cost) →
      Q (a.setIfInBounds hole v)) :
    ∀ (hole : Nat) (a : Heap), P a hole → Q (pushHeapLoop a hole top v) := by
  intro hole
  induction hole using Nat.strongRecOn with
  | _ hole ih =>
    intro a hP
    rw [pushHeapLoop]
    split
    · rename_i hc
      have hc2 := (comp_iff _ _).1 hc.2
      exact ih ((hole - 1) / 2) (by omega) _ (step a hole hP hc.1 hc2)
    · rename_i hc
      apply fin a hole hP
      by_cases h1 : hole > top
      · right
        have : ¬ comp (hget a ((hole - 1) / 2)) v = true := fun h => hc ⟨h1, h⟩
        rw [comp_iff] at this
        omega
      · left; omega

theorem adjustLoop_ind (len : Nat) (P : Heap → Nat → Prop)
    (step : ∀ a hole s3, P a hole → hole < (len - 1) / 2 → (s3 = 2 * hole + 1 ∨ s3 = 2 * hole + 2) →
      (hget a s3).cost ≤ (hget a (2 * hole + 1)).cost →
      (hget a s3).cost ≤ (hget a (2 * hole + 2)).cost →
      P (a.setIfInBounds hole (hget a s3)) s3) :
    ∀ (fuel : Nat) (a : Heap) (hole : Nat), P a hole →
      P (adjustLoop len fuel a hole hole).1 (adjustLoop len fuel a hole hole).2.1 ∧
      (adjustLoop len fuel a hole hole).2.2 = (adjustLoop len fuel a hole hole).2.1 ∧
      (len ≤ hole + fuel → ¬ (adjustLoop len fuel a hole hole).2.1 < (len - 1) / 2) := by
  intro fuel
  induction fuel with
  | zero =>
    intro a hole hP
    simp only [adjustLoop]
    exact ⟨hP, trivial, by omega⟩
  | succ fuel ih =>
    intro a hole hP
    simp only [adjustLoop]
    split
    · rename_i hlt
      split
      · rename_i hc
        rw [comp_iff] at hc
        have e : 2 * (hole + 1) - 1 = 2 * hole + 1 := by omega
        have e2 : 2 * (hole + 1) = 2 * hole + 2 := by omega
        rw [e, e2] at hc
        rw [e]
        have := ih _ _ (step a hole (2 * hole + 1) hP hlt (Or.inl rfl) (by omega) (by omega))
        refine ⟨this.1, this.2.1, fun h => this.2.2 (by omega)⟩
      · rename_i hc
        rw [comp_iff] at hc
        have e : 2 * (hole + 1) - 1 = 2 * hole + 1 := by omega
        have e2 : 2 * (hole + 1) = 2 * hole + 2 := by omega
        rw [e, e2] at hc
        rw [e2]
        have := ih _ _ (step a hole (2 * hole + 2) hP hlt (Or.inr rfl) (by omega) (by omega))
        refine ⟨this.1, this.2.1, fun h => this.2.2 (by omega)⟩
    · rename_i hlt
      exact ⟨hP, rfl, fun _ => hlt⟩

/-! ### permutation -/

theorem list_move_perm {α} (l : List α) (i j : Nat) (x : α) (hi : i < l.length) (hj : j < l.length)
    (hij : i ≠ j) : ((l.set i l[j]).set j x).Perm (l.set i x) := by
  have h := List.set_set_perm (as := l.set i x) (i := i) (j := j) (by simpa using hi) (by simpa using hj)
  have e1 : (l.set i x)[j]'(by simpa using hj) = l[j] := by
    simp [hij]
  have e2 : (l.set i x)[i]'(by simpa using hi) = x := by simp
  rw [e1, e2, List.set_set] at h
  exact h

theorem move_perm (a : Heap) (i j : Nat) (x : CostElt) (hi : i < a.size) (hj : j < a.size)
    (hij : i ≠ j) :
    ((a.setIfInBounds i (hget a j)).setIfInBounds j x).toList.Perm (a.setIfInBounds i x).toList := by
  simp only [Array.toList_setIfInBounds]
  have := list_move_perm a.toList i j x (by simpa using hi) (by simpa using hj) hij
  rw [hget_toList] at this
  exact this

/-- the array `a` with `v` put into the hole is a permutation of `L`; nothing at or beyond `m` moved -/
def PInv (L : List CostElt) (m : Nat) (F : Nat → CostElt) (v : CostElt) (a : Heap) (hole : Nat) : Prop :=
  hole < m ∧ m ≤ a.size ∧ (a.setIfInBounds hole v).toList.Perm L ∧ ∀ k, m ≤ k → hget a k = F k

def PFin (L : List CostElt) (m : Nat) (F : Nat → CostElt) (r : Heap) : Prop :=
  r.toList.Perm L ∧ ∀ k, m ≤ k → hget r k = F k

theorem PInv.step {L m F v a hole} (h : PInv L m F v a hole) (j : Nat) (hj : j < m) (hne : j ≠ hole) :
    PInv L m F v (a.setIfInBounds hole (hget a j)) j := by
  obtain ⟨h1, h2, h3, h4⟩ := h
  refine ⟨hj, by simpa using h2, ?_, ?_⟩
  · exact (move_perm a hole j v (by omega) (by omega) (fun e => hne e.symm)).trans h3
  · intro k hk
    rw [hget_set_ne _ _ _ _ (by omega)]
    exact h4 k hk

theorem PInv.fin {L m F v a hole} (h : PInv L m F v a hole) : PFin L m F (a.setIfInBounds hole v) := by
  obtain ⟨h1, h2, h3, h4⟩ := h
  refine ⟨h3, ?_⟩
  intro k hk
  rw [hget_set_ne _ _ _ _ (by omega)]
  exact h4 k hk

theorem pushHeapLoop_pfin {L m F v a hole} (top : Nat) (h : PInv L m F v a hole) :
    PFin L m F (pushHeapLoop a hole top v) := by
  refine pushHeapLoop_ind top v (PInv L m F v) (PFin L m F) ?_ ?_ hole a h
  · intro a hole hP ht _
    exact hP.step _ (by have := hP.1; omega) (by omega)
  · intro a hole hP _
    exact hP.fin

theorem adjustLoop_pinv {L len F v} (fuel : Nat) {a hole} (h : PInv L len F v a hole) :
    PInv L len F v (adjustLoop len fuel a hole hole).1 (adjustLoop len fuel a hole hole).2.1 ∧
    (adjustLoop len fuel a hole hole).2.2 = (adjustLoop len fuel a hole hole).2.1 := by
  have := adjustLoop_ind len (PInv L len F v) ?_ fuel a hole h
  · exact ⟨this.1, this.2.1⟩
  · intro a hole s3 hP hlt hs _ _
    exact hP.step _ (by omega) (by omega)

theorem adjustHeap_pfin {L len F v a hole} (h : PInv L len F v a hole) :
    PFin L len F (adjustHeap a hole len v) := by
  unfold adjustHeap
  have := adjustLoop_pinv (len + 1) h
  generalize adjustLoop len (len + 1) a hole hole = r at this
  obtain ⟨a1, hole1, second1⟩ := r
  simp only at this ⊢
  obtain ⟨hP, he⟩ := this
  subst he
  split
  · rename_i hc
    simp only [Bool.and_eq_true, beq_iff_eq] at hc
    have := hP.1
    exact pushHeapLoop_pfin hole (hP.step (2 * (second1 + 1) - 1) (by omega) (by omega))
  · exact pushHeapLoop_pfin hole hP

theorem PInv.init (a : Heap) (hole len : Nat) (v : CostElt) (h1 : hole < len) (h2 : len ≤ a.size) :
    PInv (a.setIfInBounds hole v).toList len (hget a) v a hole :=
  ⟨h1, h2, List.Perm.refl _, fun _ _ => rfl⟩

theorem set_hget_self (a : Heap) (i : Nat) : a.setIfInBounds i (hget a i) = a := by
  apply Array.ext
  · simp
  · intro k h1 h2
    have := hget_set a i k (hget a i)
    rw [hget_eq_getElem _ _ h1, hget_eq_getElem _ _ h2] at this
    rw [this]
    split
    · rename_i h; obtain ⟨h, _⟩ := h; subst h; exact hget_eq_getElem _ _ (by omega)
    · rfl

/-! #### `makeHeap` -/

theorem makeHeapLoop_perm (len : Nat) : ∀ (parent : Nat) (a : Heap), parent < len → len ≤ a.size →
    (makeHeapLoop len parent a).toList.Perm a.toList := by
  intro parent
  induction parent with
  | zero =>
    intro a h1 h2
    simp only [makeHeapLoop]
    have := (adjustHeap_pfin (PInv.init a 0 len (hget a 0) h1 h2)).1
    rwa [set_hget_self] at this
  | succ p ih =>
    intro a h1 h2
    simp only [makeHeapLoop]
    have := (adjustHeap_pfin (PInv.init a (p + 1) len (hget a (p + 1)) h1 h2)).1
    rw [set_hget_self] at this
    refine (ih _ (by omega) ?_).trans this
    rw [← Array.length_toList, this.length_eq]; simpa using h2

theorem makeHeap_perm (a : Heap) : (makeHeap a).toList.Perm a.toList := by
  unfold makeHeap
  split
  · exact List.Perm.refl _
  · exact makeHeapLoop_perm _ _ _ (by omega) (Nat.le_refl _)

theorem makeHeap_size (a : Heap) : (makeHeap a).size = a.size := by
  have := (makeHeap_perm a).length_eq
  simpa using this

/-! #### `heapPush` -/

theorem heapPush_perm (h : Heap) (v : CostElt) : (heapPush h v).toList.Perm (v :: h.toList) := by
  unfold heapPush
  have hi := PInv.init (h.push v) h.size (h.size + 1) v (by omega) (by simp)
  have := (pushHeapLoop_pfin 0 hi).1
  refine this.trans ?_
  have e : (h.push v).setIfInBounds h.size v = h.push v := by
    have := set_hget_self (h.push v) h.size
    rwa [hget_eq_getElem _ _ (by simp), Array.getElem_push_eq] at this
  rw [e]
  simp only [Array.toList_push]
  exact List.perm_append_singleton _ _

theorem heapPush_size (h : Heap) (v : CostElt) : (heapPush h v).size = h.size + 1 := by
  have := (heapPush_perm h v).length_eq
  simpa using this

/-! #### `heapPop` -/

theorem pop_perm_aux (r : Heap) (L : List CostElt) (x : CostElt) (hr : r.toList.Perm L) (hs : 0 < r.size)
    (hx : hget r (r.size - 1) = x) : (x :: r.pop.toList).Perm L := by
  refine List.Perm.trans ?_ hr
  have hne : r.toList ≠ [] := by
    intro h
    have : r.size = 0 := by rw [← Array.length_toList, h]; rfl
    omega
  have h1 := List.dropLast_concat_getLast hne
  have h2 : r.toList.getLast hne = x := by
    rw [List.getLast_eq_getElem, hget_toList]
    simpa using hx
  rw [h2] at h1
  rw [Array.toList_pop]
  conv => rhs; rw [← h1]
  exact (List.perm_append_singleton _ _).symm

theorem heapPop_perm (h : Heap) (hs : 0 < h.size) : (hget h 0 :: (heapPop h).toList).Perm h.toList := by
  unfold heapPop
  split
  · rename_i h1
    simp only
    have hi := PInv.init (h.setIfInBounds (h.size - 1) (hget h 0)) 0 (h.size - 1) (hget h (h.size - 1))
      (by omega) (by simp)
    obtain ⟨hp, hf⟩ := adjustHeap_pfin hi
    have hsz := hp.length_eq
    simp only [Array.length_toList, Array.size_setIfInBounds] at hsz
    apply pop_perm_aux
    · refine hp.trans ?_
      have := move_perm h (h.size - 1) 0 (hget h (h.size - 1)) (by omega) (by omega) (by omega)
      rwa [set_hget_self] at this
    · omega
    · rw [hsz, hf _ (Nat.le_refl _), hget_set_self _ _ _ (by omega)]
  · apply pop_perm_aux _ _ _ (List.Perm.refl _) hs
    have : h.size - 1 = 0 := by omega
    rw [this]

theorem heapPop_size (h : Heap) : (heapPop h).size = h.size - 1 := by
  by_cases hs : 0 < h.size
  · have := (heapPop_perm h hs).length_eq
    simp only [List.length_cons, Array.length_toList] at this
    omega
  · unfold heapPop
    simp at hs
    simp [hs]

/-! ### heap property -/

/-- `h` lies in the subtree rooted at `lo` -/
inductive Desc (lo : Nat) : Nat → Prop
  | refl : Desc lo lo
  | step {h : Nat} : 0 < h → Desc lo ((h - 1) / 2) → Desc lo h

theorem Desc.le {lo h : Nat} (d : Desc lo h) : lo ≤ h := by
  induction d with
  | refl => exact Nat.le_refl _
  | step h0 _ ih => omega

theorem Desc.parent {lo h : Nat} (d : Desc lo h) (hlt : lo < h) : Desc lo ((h - 1) / 2) := by
  cases d with
  | refl => omega
  | step _ d' => exact d'

theorem desc_zero : ∀ h, Desc 0 h := by
  intro h
  induction h using Nat.strongRecOn with
  | _ h ih =>
    by_cases h0 : h = 0
    · subst h0; exact Desc.refl
    · exact Desc.step (by omega) (ih _ (by omega))

/-- heap property on all edges (inside the prefix `len`) whose parent index is at least `lo`:
the `std::make_heap` loop invariant -/
def HeapFrom (a : Heap) (len lo : Nat) : Prop :=
  ∀ i, 0 < i → i < len → lo ≤ (i - 1) / 2 → (hget a ((i - 1) / 2)).cost ≤ (hget a i).cost

/-- heap-with-a-hole: every edge not touching the hole is fine, and the children of the hole are fine
with respect to the parent of the hole -/
structure HInv (a : Heap) (len lo hole : Nat) : Prop where
  hlt : hole < len
  hsz : len ≤ a.size
  desc : Desc lo hole
  A : ∀ i, 0 < i → i < len → lo ≤ (i - 1) / 2 → i ≠ hole → (i - 1) / 2 ≠ hole →
    (hget a ((i - 1) / 2)).cost ≤ (hget a i).cost
  C : ∀ c, 0 < c → c < len → (c - 1) / 2 = hole → lo < hole →
    (hget a ((hole - 1) / 2)).cost ≤ (hget a c).cost

/-- `v` may be put above all the children of the hole -/
def HB (a : Heap) (len hole : Nat) (v : CostElt) : Prop :=
  ∀ c, 0 < c → c < len → (c - 1) / 2 = hole → v.cost ≤ (hget a c).cost

theorem HInv.init {a : Heap} {len lo : Nat} (h : HeapFrom a len (lo + 1)) (h1 : lo < len)
    (h2 : len ≤ a.size) : HInv a len lo lo where
  hlt := h1
  hsz := h2
  desc := Desc.refl
  A := fun i i0 il ip _ hp => h i i0 il (by omega)
  C := fun c _ _ _ hlo => by omega

theorem HInv.down {a : Heap} {len lo hole : Nat} (h : HInv a len lo hole) (s3 : Nat) (s0 : 0 < s3)
    (sl : s3 < len) (sp : (s3 - 1) / 2 = hole)
    (hmin : ∀ c, 0 < c → c < len → (c - 1) / 2 = hole → (hget a s3).cost ≤ (hget a c).cost) :
    HInv (a.setIfInBounds hole (hget a s3)) len lo s3 where
  hlt := sl
  hsz := by simpa using h.hsz
  desc := Desc.step s0 (sp ▸ h.desc)
  A := by
    intro i i0 il ip hi hpi
    have hl := h.hlt
    have hs := h.hsz
    by_cases e1 : i = hole
    · subst e1
      rw [hget_set_self a i _ (by omega), hget_set_ne a i _ _ (by omega)]
      exact h.C s3 s0 sl sp (by omega)
    · by_cases e2 : (i - 1) / 2 = hole
      · rw [e2, hget_set_self a hole _ (by omega), hget_set_ne a hole _ _ e1]
        exact hmin i i0 il e2
      · rw [hget_set_ne a hole _ _ e1, hget_set_ne a hole _ _ e2]
        exact h.A i i0 il ip e1 e2
  C := by
    intro c c0 cl cp hlo
    have hl := h.hlt
    have hs := h.hsz
    rw [sp, hget_set_self a hole _ (by omega), hget_set_ne a hole _ _ (by omega)]
    have := h.A c c0 cl (by have := h.desc.le; omega) (by omega) (by omega)
    rwa [cp] at this

theorem HInv.up {a : Heap} {len lo hole : Nat} {v : CostElt} (h : HInv a len lo hole) (hb : HB a len hole v)
    (hlo : lo < hole) (hc : (hget a ((hole - 1) / 2)).cost > v.cost) :
    HInv (a.setIfInBounds hole (hget a ((hole - 1) / 2))) len lo ((hole - 1) / 2) ∧
    HB (a.setIfInBounds hole (hget a ((hole - 1) / 2))) len ((hole - 1) / 2) v := by
  have hl := h.hlt
  have hs := h.hsz
  have hd := (h.desc.parent hlo)
  have hdl := hd.le
  refine ⟨⟨by omega, by simpa using hs, hd, ?_, ?_⟩, ?_⟩
  · intro i i0 il ip hi hpi
    have e1 : i ≠ hole := fun e => hpi (by rw [e])
    by_cases e2 : (i - 1) / 2 = hole
    · rw [e2, hget_set_self a hole _ (by omega), hget_set_ne a hole _ _ e1]
      exact h.C i i0 il e2 hlo
    · rw [hget_set_ne a hole _ _ e1, hget_set_ne a hole _ _ e2]
      exact h.A i i0 il ip e1 e2
  · intro c c0 cl cp hlp
    have hpp : (hget a (((hole - 1) / 2 - 1) / 2)).cost ≤ (hget a ((hole - 1) / 2)).cost :=
      h.A ((hole - 1) / 2) (by omega) (by omega) (by have := (hd.parent hlp).le; omega) (by omega) (by omega)
    rw [hget_set_ne a hole _ _ (by omega)]
    by_cases e1 : c = hole
    · subst e1
      rw [hget_set_self a c _ (by omega)]
      exact hpp
    · rw [hget_set_ne a hole _ _ e1]
      have := h.A c c0 cl (by omega) e1 (by omega)
      rw [cp] at this
      omega
  · intro c c0 cl cp
    by_cases e1 : c = hole
    · subst e1
      rw [hget_set_self a c _ (by omega)]
      omega
    · rw [hget_set_ne a hole _ _ e1]
      have := h.A c c0 cl (by omega) e1 (by omega)
      rw [cp] at this
      omega

theorem HInv.fin {a : Heap} {len lo hole : Nat} {v : CostElt} (h : HInv a len lo hole) (hb : HB a len hole v)
    (hc : hole ≤ lo ∨ (hget a ((hole - 1) / 2)).cost ≤ v.cost) :
    HeapFrom (a.setIfInBounds hole v) len lo := by
  have hl := h.hlt
  have hs := h.hsz
  have hdl := h.desc.le
  intro i i0 il ip
  by_cases e1 : i = hole
  · subst e1
    rw [hget_set_self a i _ (by omega), hget_set_ne a i _ _ (by omega)]
    rcases hc with hc | hc
    · omega
    · exact hc
  · by_cases e2 : (i - 1) / 2 = hole
    · rw [e2, hget_set_self a hole _ (by omega), hget_set_ne a hole _ _ e1]
      exact hb i i0 il e2
    · rw [hget_set_ne a hole _ _ e1, hget_set_ne a hole _ _ e2]
      exact h.A i i0 il ip e1 e2

theorem pushHeapLoop_heapFrom {a : Heap} {len lo hole : Nat} {v : CostElt} (h : HInv a len lo hole)
    (hb : HB a len hole v) : HeapFrom (pushHeapLoop a hole lo v) len lo := by
  refine pushHeapLoop_ind lo v (fun a hole => HInv a len lo hole ∧ HB a len hole v)
    (fun r => HeapFrom r len lo) ?_ ?_ hole a ⟨h, hb⟩
  · intro a hole hP ht hc
    exact hP.1.up hP.2 ht hc
  · intro a hole hP hc
    exact hP.1.fin hP.2 hc

theorem adjustHeap_heapFrom {a : Heap} {len lo : Nat} (v : CostElt) (h : HeapFrom a len (lo + 1))
    (h1 : lo < len) (h2 : len ≤ a.size) : HeapFrom (adjustHeap a lo len v) len lo := by
  unfold adjustHeap
  have := adjustLoop_ind len (fun a hole => HInv a len lo hole) ?_ (len + 1) a lo (HInv.init h h1 h2)
  · generalize adjustLoop len (len + 1) a lo lo = r at this
    obtain ⟨a1, hole1, second1⟩ := r
    simp only at this ⊢
    obtain ⟨hP, he, hf⟩ := this
    subst he
    have hf := hf (by omega)
    have hl := hP.hlt
    split
    · rename_i hc
      simp only [Bool.and_eq_true, beq_iff_eq] at hc
      apply pushHeapLoop_heapFrom
      · apply hP.down _ (by omega) (by omega) (by omega)
        intro c c0 cl cp
        have : c = 2 * (second1 + 1) - 1 := by omega
        rw [this]
        exact Int.le_refl _
      · intro c c0 cl cp
        omega
    · rename_i hc
      simp only [Bool.and_eq_true, beq_iff_eq] at hc
      apply pushHeapLoop_heapFrom hP
      intro c c0 cl cp
      omega
  · intro a hole s3 hP hlt hs hm1 hm2
    apply hP.down s3 (by omega) (by omega) (by omega)
    intro c c0 cl cp
    have : c = 2 * hole + 1 ∨ c = 2 * hole + 2 := by omega
    rcases this with e | e
    · rw [e]; exact hm1
    · rw [e]; exact hm2

theorem heapFrom_zero_iff (a : Heap) : HeapFrom a a.size 0 ↔ IsHeap a := by
  unfold HeapFrom IsHeap
  constructor
  · intro h i i0 il; exact h i i0 il (Nat.zero_le _)
  · intro h i i0 il _; exact h i i0 il

theorem hget_pop (a : Heap) (i : Nat) (h : i < a.size - 1) : hget a.pop i = hget a i := by
  have h' : i < a.size := by omega
  unfold hget
  simp [h, h']

theorem hget_push_lt (a : Heap) (v : CostElt) (i : Nat) (h : i < a.size) : hget (a.push v) i = hget a i := by
  have h' : i < (a.push v).size := by simp; omega
  rw [hget_eq_getElem _ _ h', hget_eq_getElem _ _ h, Array.getElem_push_lt]

theorem adjustHeap_size (a : Heap) (hole len : Nat) (v : CostElt) (h1 : hole < len) (h2 : len ≤ a.size) :
    (adjustHeap a hole len v).size = a.size := by
  have := (adjustHeap_pfin (PInv.init a hole len v h1 h2)).1.length_eq
  simpa using this

/-! #### the deliverables -/

theorem isHeap_top_le_idx (h : Heap) (hh : IsHeap h) : ∀ i, i < h.size → (hget h 0).cost ≤ (hget h i).cost := by
  intro i
  induction i using Nat.strongRecOn with
  | _ i ih =>
    intro hi
    by_cases i0 : i = 0
    · subst i0; exact Int.le_refl _
    · have h1 := ih ((i - 1) / 2) (by omega) (by omega)
      have h2 := hh i (by omega) hi
      omega

theorem isHeap_top_le (h : Heap) (hh : IsHeap h) : ∀ e, e ∈ h.toList → (hget h 0).cost ≤ e.cost := by
  intro e he
  obtain ⟨i, hi, rfl⟩ := List.getElem_of_mem he
  rw [hget_toList]
  exact isHeap_top_le_idx h hh i (by simpa using hi)

theorem isHeap_empty : IsHeap #[] := by
  intro i _ hi
  simp at hi

theorem makeHeapLoop_heapFrom (len : Nat) : ∀ (parent : Nat) (a : Heap), parent < len → len ≤ a.size →
    HeapFrom a len (parent + 1) → HeapFrom (makeHeapLoop len parent a) len 0 := by
  intro parent
  induction parent with
  | zero =>
    intro a h1 h2 hf
    simp only [makeHeapLoop]
    exact adjustHeap_heapFrom _ hf h1 h2
  | succ p ih =>
    intro a h1 h2 hf
    simp only [makeHeapLoop]
    apply ih _ (by omega)
    · rw [adjustHeap_size _ _ _ _ h1 h2]; exact h2
    · exact adjustHeap_heapFrom _ hf h1 h2

theorem makeHeap_isHeap (a : Heap) : IsHeap (makeHeap a) := by
  have hsz := makeHeap_size a
  rw [← heapFrom_zero_iff, hsz]
  unfold makeHeap
  split
  · intro i i0 il _; omega
  · apply makeHeapLoop_heapFrom _ _ _ (by omega) (Nat.le_refl _)
    intro i i0 il ip
    omega

theorem heapPush_isHeap (h : Heap) (v : CostElt) (hh : IsHeap h) : IsHeap (heapPush h v) := by
  rw [← heapFrom_zero_iff, heapPush_size]
  unfold heapPush
  apply pushHeapLoop_heapFrom
  · refine ⟨by omega, by simp, desc_zero _, ?_, ?_⟩
    · intro i i0 il _ hi _
      rw [hget_push_lt _ _ _ (by omega), hget_push_lt _ _ _ (by omega)]
      exact hh i i0 (by omega)
    · intro c c0 cl cp _
      omega
  · intro c c0 cl cp
    omega

theorem heapPop_isHeap (h : Heap) (hh : IsHeap h) : IsHeap (heapPop h) := by
  have hsz := heapPop_size h
  intro i i0 il
  rw [hsz] at il
  revert il
  unfold heapPop
  split
  · rename_i h1
    simp only
    intro il
    have hs := adjustHeap_size (h.setIfInBounds (h.size - 1) (hget h 0)) 0 (h.size - 1) (hget h (h.size - 1))
      (by omega) (by simp)
    simp only [Array.size_setIfInBounds] at hs
    rw [hget_pop _ _ (by omega), hget_pop _ _ (by omega)]
    refine adjustHeap_heapFrom (a := h.setIfInBounds (h.size - 1) (hget h 0)) (len := h.size - 1) (lo := 0)
      (hget h (h.size - 1)) ?_ (by omega) (by simp) i i0 il (Nat.zero_le _)
    intro j j0 jl _
    rw [hget_set_ne _ _ _ _ (by omega), hget_set_ne _ _ _ _ (by omega)]
    exact hh j j0 (by omega)
  · intro il; omega

end ColoVerif.Transp
