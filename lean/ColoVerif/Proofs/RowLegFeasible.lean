import ColoVerif.Proofs.RowLegBasic
/-
Helper lemmas for C12, part 2: reachable states, the structural invariant
(sorted queue, constraining positions inside the row) and feasibility of
`getPlacement`.
-/
namespace ColoVerif.RowLeg

/-! ### `Legal` and its mirror image on most-recent-first lists -/

/-- `Legal` read from the last cell: `LegalRev b hi wsRev xsRev`. -/
def LegalRev (b : Int) : Int → List Int → List Int → Prop
  | hi, [], [] => b ≤ hi
  | hi, w :: ws, x :: xs => x + w ≤ hi ∧ LegalRev b x ws xs
  | _, _, _ => False

theorem legal_nil_snoc (e lo x : Int) : ∀ xs : List Int, ¬ Legal e lo [] (xs ++ [x])
  | [] => by simp [Legal]
  | _ :: _ => by simp [Legal]

theorem legal_snoc_nil (e lo w : Int) : ∀ ws : List Int, ¬ Legal e lo (ws ++ [w]) []
  | [] => by simp [Legal]
  | _ :: _ => by simp [Legal]

theorem legal_snoc (e w x : Int) : ∀ (ws xs : List Int) (lo : Int),
    Legal e lo (ws ++ [w]) (xs ++ [x]) ↔ Legal x lo ws xs ∧ x + w ≤ e
  | [], [], lo => by simp [Legal]
  | [], y :: ys, lo => by
    simp only [List.nil_append, List.cons_append, Legal, false_and, iff_false, not_and]
    intro _
    exact legal_nil_snoc e _ x ys
  | v :: vs, [], lo => by
    simp only [List.nil_append, List.cons_append, Legal, false_and, iff_false, not_and]
    intro _
    exact legal_snoc_nil e _ w vs
  | v :: vs, y :: ys, lo => by
    simp only [List.cons_append, Legal, legal_snoc e w x vs ys, and_assoc]

theorem legalRev_iff (b : Int) : ∀ (ws xs : List Int) (hi : Int),
    LegalRev b hi ws xs ↔ Legal hi b ws.reverse xs.reverse
  | [], [], hi => by simp [Legal, LegalRev]
  | [], x :: xs, hi => by
    simp only [LegalRev, List.reverse_nil, List.reverse_cons, false_iff]
    exact legal_nil_snoc hi b x _
  | w :: ws, [], hi => by
    simp only [LegalRev, List.reverse_nil, List.reverse_cons, false_iff]
    exact legal_snoc_nil hi b w _
  | w :: ws, x :: xs, hi => by
    simp only [LegalRev, List.reverse_cons, legal_snoc, legalRev_iff b ws xs x]
    exact And.comm

theorem legal_length (e : Int) : ∀ (ws xs : List Int) (lo : Int), Legal e lo ws xs → xs.length = ws.length
  | [], [], _, _ => rfl
  | [], _ :: _, _, h => by simp [Legal] at h
  | _ :: _, [], _, h => by simp [Legal] at h
  | _ :: ws, _ :: xs, _, h => by
    simp only [Legal] at h
    simp [legal_length e ws xs _ h.2]

theorem legal_lo_le (e : Int) : ∀ (ws xs : List Int) (lo : Int), (∀ w ∈ ws, 0 ≤ w) →
    Legal e lo ws xs → lo ≤ e
  | [], [], _, _, h => h
  | [], _ :: _, _, _, h => by simp [Legal] at h
  | _ :: _, [], _, _, h => by simp [Legal] at h
  | w :: ws, x :: xs, lo, hw, h => by
    simp only [Legal] at h
    have := legal_lo_le e ws xs _ (fun v hv => hw v (List.mem_cons_of_mem _ hv)) h.2
    have := hw w (List.mem_cons_self ..)
    omega

/-- Pointwise reading of `Legal` (for non-negative widths): every cell is inside
`[lo, e - width]` and ends before the next one starts. -/
theorem legal_pointwise (e : Int) : ∀ (ws xs : List Int) (lo : Int), (∀ w ∈ ws, 0 ≤ w) →
    Legal e lo ws xs → ∀ (i : Nat) (x w : Int), xs[i]? = some x → ws[i]? = some w →
      lo ≤ x ∧ x + w ≤ e ∧ ∀ x', xs[i + 1]? = some x' → x + w ≤ x'
  | [], _, _, _, _, i, x, w, _, h2 => by simp at h2
  | _ :: _, [], _, _, _, i, x, w, h1, _ => by simp at h1
  | v :: vs, y :: ys, lo, hw, h, 0, x, w, h1, h2 => by
    simp only [List.getElem?_cons_zero, Option.some.injEq] at h1 h2
    subst h1 h2
    simp only [Legal] at h
    have hw' : ∀ u ∈ vs, 0 ≤ u := fun u hu => hw u (List.mem_cons_of_mem _ hu)
    refine ⟨h.1, legal_lo_le e vs ys _ hw' h.2, ?_⟩
    intro x' hx'
    cases ys with
    | nil => simp at hx'
    | cons z zs =>
      simp only [Nat.zero_add, List.getElem?_cons_succ, List.getElem?_cons_zero, Option.some.injEq] at hx'
      subst hx'
      cases vs with
      | nil => simp [Legal] at h
      | cons u us => simp only [Legal] at h; exact h.2.1
  | v :: vs, y :: ys, lo, hw, h, i + 1, x, w, h1, h2 => by
    simp only [List.getElem?_cons_succ] at h1 h2
    simp only [Legal] at h
    have hw' : ∀ u ∈ vs, 0 ≤ u := fun u hu => hw u (List.mem_cons_of_mem _ hu)
    have := legal_pointwise e vs ys _ hw' h.2 i x w h1 h2
    have hv := hw v (List.mem_cons_self ..)
    refine ⟨by omega, this.2.1, ?_⟩
    intro x' hx'
    simp only [List.getElem?_cons_succ] at hx'
    exact this.2.2 x' hx'

/-! ### running minimum -/

theorem runMin_some : ∀ (cs : List Int) (m : Int), runMin (some m) cs = (runMin none cs).map (min m)
  | [], _ => rfl
  | c :: cs, m => by
    simp only [runMin, List.map_cons, runMin_some cs, List.map_map, List.cons.injEq, true_and]
    apply List.map_congr_left
    intro z _
    simp only [Function.comp]
    omega

theorem runMin_none_cons (c : Int) (cs : List Int) :
    runMin none (c :: cs) = c :: (runMin none cs).map (min c) := by
  simp [runMin, runMin_some]

theorem runMin_length : ∀ (o : Option Int) (cs : List Int), (runMin o cs).length = cs.length
  | _, [] => rfl
  | none, c :: cs => by simp [runMin, runMin_length]
  | some m, c :: cs => by simp [runMin, runMin_length]

/-! ### structural invariant -/

/-- Constraining positions and widths (most recent first) are consistent with the row:
positive widths, `b ≤ cᵢ` and `cᵢ + (w₀+…+wᵢ) ≤ e`. -/
def Aligned (b e : Int) : List Int → List Int → Prop
  | [], [] => True
  | c :: cs, w :: ws => 0 < w ∧ b ≤ c ∧ c + w + ws.sum ≤ e ∧ Aligned b e cs ws
  | _, _ => False

theorem aligned_sum_nonneg (b e : Int) : ∀ cs ws, Aligned b e cs ws → 0 ≤ ws.sum
  | [], [], _ => by simp
  | [], _ :: _, h => by simp [Aligned] at h
  | _ :: _, [], h => by simp [Aligned] at h
  | _ :: cs, w :: ws, h => by
    simp only [Aligned] at h
    have := aligned_sum_nonneg b e cs ws h.2.2.2
    simp only [List.sum_cons]
    omega

theorem aligned_pos (b e : Int) : ∀ cs ws, Aligned b e cs ws → ∀ w ∈ ws, 0 < w
  | [], [], _ => by simp
  | [], _ :: _, h => by simp [Aligned] at h
  | _ :: _, [], h => by simp [Aligned] at h
  | _ :: cs, w :: ws, h => by
    simp only [Aligned] at h
    intro v hv
    rcases List.mem_cons.mp hv with rfl | hv
    · exact h.1
    · exact aligned_pos b e cs ws h.2.2.2 v hv

theorem legalRev_runMin (b e : Int) : ∀ (cs ws : List Int) (m hi : Int), Aligned b e cs ws →
    b ≤ m → m + ws.sum ≤ hi →
    LegalRev b hi ws (List.zipWith (· + ·) (runMin (some m) cs) (cumRev ws))
  | [], [], m, hi, _, h1, h2 => by
    simp only [List.sum_nil] at h2
    simp only [runMin, cumRev, List.zipWith_nil_left, LegalRev]
    omega
  | [], _ :: _, _, _, h, _, _ => by simp [Aligned] at h
  | _ :: _, [], _, _, h, _, _ => by simp [Aligned] at h
  | c :: cs, w :: ws, m, hi, h, h1, h2 => by
    simp only [Aligned] at h
    simp only [List.sum_cons] at h2
    simp only [runMin, cumRev, List.zipWith_cons_cons, LegalRev]
    refine ⟨by omega, legalRev_runMin b e cs ws _ _ h.2.2.2 (by omega) (Int.le_refl _)⟩

theorem legalRev_placementRev (b e : Int) : ∀ (cs ws : List Int), Aligned b e cs ws → b ≤ e →
    LegalRev b e ws (List.zipWith (· + ·) (runMin none cs) (cumRev ws))
  | [], [], _, h => by simpa [runMin, cumRev, LegalRev] using h
  | [], _ :: _, h, _ => by simp [Aligned] at h
  | _ :: _, [], h, _ => by simp [Aligned] at h
  | c :: cs, w :: ws, h, _ => by
    simp only [Aligned] at h
    simp only [runMin, cumRev, List.zipWith_cons_cons, LegalRev]
    refine ⟨by omega, legalRev_runMin b e cs ws _ _ h.2.2.2 h.2.1 (Int.le_refl _)⟩

/-! ### reachable states -/

/-- `Reach b e h C s`: `s` is reached from `State.new b e` by pushes that fit and
cost queries; `h` lists the pushed `(width, target)` most recent first and `C`
is the sum of the costs reported by the pushes. -/
inductive Reach (b e : Int) : List (Int × Int) → Int → State → Prop
  | new : Reach b e [] 0 (State.new b e)
  | push {h C s} (w t : Int) : Reach b e h C s → 0 < w → w ≤ s.remaining →
      Reach b e ((w, t) :: h) (C + (push s w t).1) (push s w t).2
  | cost {h C s} (w t : Int) : Reach b e h C s → Reach b e h C (getCost s w t).2

theorem run_reach (b e : Int) : ∀ (ops : List Op) (h : List (Int × Int)) (C : Int) (s : State),
    Reach b e h C s → Fits s ops →
    Reach b e ((cells ops).reverse ++ h) (C + pushCostSum s ops) (run s ops)
  | [], h, C, s, hr, _ => by simpa [cells, pushCostSum, run] using hr
  | .push w t :: ops, h, C, s, hr, hf => by
    simp only [Fits] at hf
    have := run_reach b e ops _ _ _ (Reach.push w t hr hf.1 hf.2.1) hf.2.2
    simpa [cells, pushCostSum, run, step, Int.add_assoc] using this
  | .cost w t :: ops, h, C, s, hr, hf => by
    simp only [Fits] at hf
    have := run_reach b e ops _ _ _ (Reach.cost w t hr) hf
    simpa [cells, pushCostSum, run, step] using this

/-- What holds in every reachable state (structure only; the cost invariant is in `RowLegOpt`). -/
structure Inv (b e : Int) (h : List (Int × Int)) (s : State) : Prop where
  hb : s.b = b
  he : s.e = e
  widths : s.widthsRev = h.map Prod.fst
  sorted : Sorted s.bounds
  aligned : Aligned b e s.cposRev s.widthsRev

theorem fin_bounds (s : State) (w t : Int) (h : w ≤ s.remaining) :
    s.b ≤ (displacement s w t).finalAbsPos ∧ (displacement s w t).finalAbsPos + w + s.used ≤ s.e := by
  simp only [State.remaining] at h
  simp only [displacement]
  omega

theorem push_b (s : State) (w t : Int) : (push s w t).2.b = s.b := rfl
theorem push_e (s : State) (w t : Int) : (push s w t).2.e = s.e := rfl
theorem push_cposRev (s : State) (w t : Int) :
    (push s w t).2.cposRev = (displacement s w t).finalAbsPos :: s.cposRev := rfl
theorem push_widthsRev (s : State) (w t : Int) : (push s w t).2.widthsRev = w :: s.widthsRev := rfl

theorem scan_rest_sorted (width tgt lim climit : Int) (B : List Bound) (slope curPos curCost : Int)
    (h : Sorted B) : Sorted (scan width tgt lim climit B slope curPos curCost []).rest := by
  have hs := scan_split width tgt lim climit B slope curPos curCost
  rw [← hs] at h
  exact (List.pairwise_append.mp h).2.1

theorem sorted_ite_pqInsert (c : Prop) [Decidable c] (x : Bound) (l : List Bound) (h : Sorted l) :
    Sorted (if c then pqInsert x l else l) := by
  by_cases hc : c
  · rw [if_pos hc]; exact sorted_pqInsert x l h
  · rw [if_neg hc]; exact h

theorem push_sorted (s : State) (w t : Int) (h : Sorted s.bounds) : Sorted (push s w t).2.bounds := by
  have hr := scan_rest_sorted w (t - s.used) (s.e - s.used - w) (s.e - s.used) s.bounds (-w) s.e 0 h
  simp only [push, displacement]
  exact sorted_ite_pqInsert _ _ _ (sorted_ite_pqInsert _ _ _ hr)

theorem reach_inv {b e : Int} {h : List (Int × Int)} {C : Int} {s : State} (hr : Reach b e h C s) :
    Inv b e h s := by
  induction hr with
  | new => exact ⟨rfl, rfl, rfl, sorted_nil, trivial⟩
  | @push h C s w t _ hw hfit ih =>
    have hf := fin_bounds s w t hfit
    refine ⟨ih.hb, ih.he, ?_, push_sorted s w t ih.sorted, ?_⟩
    · simp [push_widthsRev, ih.widths]
    · rw [push_cposRev, push_widthsRev]
      simp only [Aligned]
      refine ⟨hw, ?_, ?_, ih.aligned⟩
      · rw [← ih.hb]; exact hf.1
      · rw [← ih.he]; exact hf.2
  | @cost h C s w t _ ih =>
    rw [getCost_state s w t ih.sorted]
    exact ih

/-- Feasibility on the most-recent-first representation. -/
theorem inv_legalRev {b e : Int} {h : List (Int × Int)} {s : State} (hi : Inv b e h s) (hbe : b ≤ e) :
    LegalRev b e s.widthsRev (placementRev s) :=
  legalRev_placementRev b e _ _ hi.aligned hbe

theorem reach_legal {b e : Int} {h : List (Int × Int)} {C : Int} {s : State} (hr : Reach b e h C s)
    (hbe : b ≤ e) : Legal e b (widths s) (placement s) := by
  have := inv_legalRev (reach_inv hr) hbe
  rw [legalRev_iff] at this
  exact this

theorem run_append (s : State) : ∀ (o1 o2 : List Op), run s (o1 ++ o2) = run (run s o1) o2
  | [], _ => rfl
  | o :: o1, o2 => by simp only [List.cons_append, run]; exact run_append _ o1 o2

theorem fits_append : ∀ (s : State) (o1 o2 : List Op), Fits s o1 → Fits (run s o1) o2 → Fits s (o1 ++ o2)
  | _, [], _, _, h => h
  | s, .push w t :: o1, o2, h1, h2 => by
    simp only [List.cons_append, Fits, run] at *
    exact ⟨h1.1, h1.2.1, fits_append _ o1 o2 h1.2.2 h2⟩
  | s, .cost w t :: o1, o2, h1, h2 => by
    simp only [List.cons_append, Fits, run] at *
    exact fits_append _ o1 o2 h1 h2

theorem cells_append : ∀ (o1 o2 : List Op), cells (o1 ++ o2) = cells o1 ++ cells o2
  | [], _ => rfl
  | .push w t :: o1, o2 => by simp [cells, cells_append o1 o2]
  | .cost w t :: o1, o2 => by simp [cells, cells_append o1 o2]

theorem pushCostSum_append : ∀ (s : State) (o1 o2 : List Op),
    pushCostSum s (o1 ++ o2) = pushCostSum s o1 + pushCostSum (run s o1) o2
  | _, [], _ => by simp [pushCostSum, run]
  | s, .push w t :: o1, o2 => by
    simp only [List.cons_append, pushCostSum, run, pushCostSum_append _ o1 o2]; omega
  | s, .cost w t :: o1, o2 => by
    simp only [List.cons_append, pushCostSum, run, pushCostSum_append _ o1 o2]

theorem aligned_b_le_e (b e : Int) : ∀ cs ws, Aligned b e cs ws → ws ≠ [] → b ≤ e
  | [], [], _, h => absurd rfl h
  | [], _ :: _, h, _ => by simp [Aligned] at h
  | _ :: _, [], h, _ => by simp [Aligned] at h
  | _ :: cs, w :: ws, h, _ => by
    simp only [Aligned] at h
    have := aligned_sum_nonneg b e cs ws h.2.2.2
    omega

/-- Feasibility read cell by cell. -/
theorem reach_pointwise {b e : Int} {h : List (Int × Int)} {C : Int} {s : State} (hr : Reach b e h C s) :
    (placement s).length = h.reverse.length ∧
    ∀ (i : Nat) (x w t : Int), (placement s)[i]? = some x → h.reverse[i]? = some (w, t) →
      b ≤ x ∧ x + w ≤ e ∧ ∀ x', (placement s)[i + 1]? = some x' → x + w ≤ x' := by
  have hi := reach_inv hr
  by_cases hne : h = []
  · subst hne
    have hw : s.widthsRev = [] := by simpa using hi.widths
    have hc : s.cposRev = [] := by
      have := hi.aligned
      rw [hw] at this
      cases hcs : s.cposRev with
      | nil => rfl
      | cons c cs => rw [hcs] at this; simp [Aligned] at this
    simp [placement, placementRev, hw, hc, runMin, cumRev]
  · have hbe : b ≤ e := aligned_b_le_e b e _ _ hi.aligned (by rw [hi.widths]; simpa using hne)
    have hl := reach_legal hr hbe
    have hws : widths s = (h.reverse).map Prod.fst := by simp [widths, hi.widths]
    refine ⟨by rw [legal_length e _ _ _ hl, hws]; simp, ?_⟩
    intro i x w t hx hwt
    have hw : (widths s)[i]? = some w := by rw [hws, List.getElem?_map, hwt]; rfl
    have hnn : ∀ v ∈ widths s, 0 ≤ v := by
      intro v hv
      have := aligned_pos b e _ _ hi.aligned v (by simpa [widths] using hv)
      omega
    exact legal_pointwise e _ _ b hnn hl i x w hx hw

end ColoVerif.RowLeg
