import ColoVerif.Proofs.Transp1dMerge
import ColoVerif.Proofs.Transp1dCert
/-
`solve` returns a valid plan on every input of the domain: geometry of `run` (`run_geometry`)
+ merge (`solLoop_spec`) + the sorter's index maps (`srcOrder`/`snkOrder` list distinct indices,
exactly those of positive supply / demand).
-/
namespace ColoVerif.Transp1d

/-! ### the orders are duplicate-free -/

theorem insertKey_perm (x : Int × Nat) (l : List (Int × Nat)) : (insertKey x l).Perm (x :: l) := by
  induction l with
  | nil => exact List.Perm.refl _
  | cons y ys ih =>
    unfold insertKey
    split
    · exact List.Perm.refl _
    · exact List.Perm.trans (List.Perm.cons y ih) (List.Perm.swap x y ys)

theorem sortKeys_perm (l : List (Int × Nat)) : (sortKeys l).Perm l := by
  induction l with
  | nil => exact List.Perm.refl _
  | cons x xs ih => exact List.Perm.trans (insertKey_perm x (sortKeys xs)) (List.Perm.cons x ih)

theorem ord_nodup (pos cap : List Int) : (ord pos cap).Nodup := by
  unfold ord
  have hp := List.Perm.map (fun x : Int × Nat => x.2)
    (sortKeys_perm (((List.range pos.length).filter fun i => decide (0 < cap.getD i 0)).map
      fun i => (pos.getD i 0, i)))
  rw [hp.nodup_iff, List.map_map]
  have : ((fun x : Int × Nat => x.2) ∘ fun i => (pos.getD i 0, i)) = id := rfl
  rw [this, List.map_id]
  exact List.Nodup.sublist List.filter_sublist List.nodup_range

theorem nodup_getD_inj (l : List Nat) (h : l.Nodup) (a b : Nat) (ha : a < l.length)
    (hb : b < l.length) (e : l.getD a 0 = l.getD b 0) : a = b := by
  induction l generalizing a b with
  | nil => simp at ha
  | cons x xs ih =>
    rw [List.nodup_cons] at h
    cases a with
    | zero =>
      cases b with
      | zero => rfl
      | succ b =>
        simp only [List.getD_cons_zero, List.getD_cons_succ] at e
        exact absurd (e ▸ getD_mem_of_ltN xs b (by simpa using hb)) h.1
    | succ a =>
      cases b with
      | zero =>
        simp only [List.getD_cons_zero, List.getD_cons_succ] at e
        exact absurd (e ▸ getD_mem_of_ltN xs a (by simpa using ha)) h.1
      | succ b =>
        simp only [List.getD_cons_succ] at e
        rw [ih h.2 a b (by simpa using ha) (by simpa using hb) e]

theorem mem_getD (l : List Nat) (k : Nat) (h : k ∈ l) : ∃ a, a < l.length ∧ l.getD a 0 = k := by
  obtain ⟨i, hi, e⟩ := List.mem_iff_getElem.mp h
  exact ⟨i, hi, by simp [List.getD_eq_getElem?_getD, List.getElem?_eq_getElem hi, e]⟩

theorem getD_map_int (l : List Nat) (f : Nat → Int) (a : Nat) (h : a < l.length) :
    (l.map f).getD a 0 = f (l.getD a 0) := by
  simp [List.getD_eq_getElem?_getD, List.getElem?_eq_getElem h]

/-! ### renaming a plan -/

def ren (f g : Nat → Nat) (e : Nat × Nat × Int) : Nat × Nat × Int := (f e.1, g e.2.1, e.2.2)

theorem convertSolutionBack_ok (so : Sorter) (plan : Plan)
    (h : ∀ e ∈ plan, e.1 < so.srcOrder.length ∧ e.2.1 < so.snkOrder.length) :
    convertSolutionBack so plan
      = .ok (plan.map (ren (fun i => so.srcOrder.getD i 0) (fun j => so.snkOrder.getD j 0))) := by
  induction plan with
  | nil => rfl
  | cons e es ih =>
    obtain ⟨i, j, a⟩ := e
    have h1 := h (i, j, a) (List.mem_cons_self ..)
    unfold convertSolutionBack
    simp only [get_okN _ _ h1.1, get_okN _ _ h1.2, ih (fun e he => h e (List.mem_cons_of_mem _ he)),
      bind, Except.bind, pure, Except.pure, List.map_cons, ren]

theorem rowSum_ren (f g : Nat → Nat) (N : Nat) (plan : Plan) (hN : ∀ e ∈ plan, e.1 < N)
    (inj : ∀ a b, a < N → b < N → f a = f b → a = b) (i : Nat) (hi : i < N) :
    rowSum (plan.map (ren f g)) (f i) = rowSum plan i := by
  induction plan with
  | nil => rfl
  | cons e es ih =>
    obtain ⟨i0, j0, a⟩ := e
    have h1 : i0 < N := hN (i0, j0, a) (List.mem_cons_self ..)
    have ih' := ih (fun e he => hN e (List.mem_cons_of_mem _ he))
    simp only [List.map_cons, ren, rowSum, ih']
    by_cases h : i0 = i
    · simp [h]
    · have : ¬ f i0 = f i := fun e => h (inj i0 i h1 hi e)
      simp [h, this]

theorem colSum_ren (f g : Nat → Nat) (N : Nat) (plan : Plan) (hN : ∀ e ∈ plan, e.2.1 < N)
    (inj : ∀ a b, a < N → b < N → g a = g b → a = b) (j : Nat) (hj : j < N) :
    colSum (plan.map (ren f g)) (g j) = colSum plan j := by
  induction plan with
  | nil => rfl
  | cons e es ih =>
    obtain ⟨i0, j0, a⟩ := e
    have h1 : j0 < N := hN (i0, j0, a) (List.mem_cons_self ..)
    have ih' := ih (fun e he => hN e (List.mem_cons_of_mem _ he))
    simp only [List.map_cons, ren, colSum, ih']
    by_cases h : j0 = j
    · simp [h]
    · have : ¬ g j0 = g j := fun e => h (inj j0 j h1 hj e)
      simp [h, this]

/-! ### geometry of the instance handed to the solver -/

theorem mono_of_succ (p : List Int) (h : ∀ i, i + 1 < p.length → p.getD i 0 ≤ p.getD (i + 1) 0)
    (a b : Nat) (hab : a ≤ b) (hb : b < p.length) : p.getD a 0 ≤ p.getD b 0 := by
  induction b with
  | zero =>
    have : a = 0 := by omega
    subst this; exact Int.le_refl _
  | succ b ih =>
    by_cases h1 : a = b + 1
    · subst h1; exact Int.le_refl _
    · have := ih (by omega) (by omega)
      have := h b hb
      omega

theorem sorted_geo (pb : Problem) (hv : checkOk pb = true) (p : List Int)
    (hp : RunPost (sortedSolver pb) p) : Geo (sortedSolver pb) p := by
  have wf := sortedSolver_wf pb
  have dom := sortedSolver_dom pb hv
  have eS : (sortedSolver pb).S = prefixFrom 0 (sortedSolver pb).s := rfl
  refine ⟨wf, hp.len, ?_, ?_, dom.Dmono⟩
  · intro i hi
    have hi' : i < (sortedSolver pb).s.length := by rw [wf.hs]; exact hi
    have h1 : (sortedSolver pb).S.getD (i + 1) 0
        = (sortedSolver pb).S.getD i 0 + (sortedSolver pb).s.getD i 0 := by
      rw [eS]; exact prefixFrom_succ 0 _ i hi'
    have h2 := sortedSolver_spos pb _ (getD_mem_of_lt _ i hi')
    unfold lo Transp1d.hi
    omega
  · intro i i' h1 h2
    have h3 := dom.Smono (i + 1) i' (by omega) (by omega)
    have h4 := mono_of_succ p hp.mono i i' (by omega) (by rw [hp.len]; exact h2)
    unfold lo Transp1d.hi
    omega

/-- what `computeSolution` returns on the instance handed to the solver -/
structure SolPost (sv : Solver) (p : List Int) (plan : Plan) : Prop where
  ent : ∀ e ∈ plan, e.1 < sv.u.length ∧ e.2.1 < sv.v.length ∧ 0 < e.2.2
  row : ∀ i, i < sv.u.length → rowSum plan i = sv.s.getD i 0
  col : ∀ j, j < sv.v.length → colSum plan j ≤ sv.d.getD j 0
  cell : ∀ i j, i < sv.u.length → j < sv.v.length → cellSum plan i j = ov sv p i j

theorem computeSolution_spec (pb : Problem) (hv : checkOk pb = true) :
    ∃ p plan, run (sortedSolver pb) = .ok p ∧ RunPost (sortedSolver pb) p ∧
      computeSolution (sortedSolver pb) p = .ok plan ∧ SolPost (sortedSolver pb) p plan := by
  have wf := sortedSolver_wf pb
  have dom := sortedSolver_dom pb hv
  obtain ⟨p, erun, hp, hlen, hin, _⟩ := run_geometry pb hv
  have geo := sorted_geo pb hv p hp
  obtain ⟨plan, e, post⟩ := solLoop_spec (sortedSolver pb) p geo
    (p.length + (sortedSolver pb).nbSinks) 0 0 (by rw [hlen]; unfold Solver.nbSinks; omega)
    (Nat.zero_le _) (Nat.zero_le _)
  have eS : (sortedSolver pb).S = prefixFrom 0 (sortedSolver pb).s := rfl
  have eD : (sortedSolver pb).D = prefixFrom 0 (sortedSolver pb).d := rfl
  have hD0 : (sortedSolver pb).D.getD 0 0 = 0 := by rw [eD]; exact prefixFrom_zero 0 _
  have hS0 : (sortedSolver pb).S.getD 0 0 = 0 := by rw [eS]; exact prefixFrom_zero 0 _
  refine ⟨p, plan, erun, hp, e, ⟨?_, ?_, ?_, ?_⟩⟩
  · intro x hx
    have := post.ent x hx
    exact ⟨this.2.1, this.2.2.2.1, this.2.2.2.2⟩
  · intro i hi
    have hi' : i < (sortedSolver pb).s.length := by rw [wf.hs]; exact hi
    have h1 : (sortedSolver pb).S.getD (i + 1) 0
        = (sortedSolver pb).S.getD i 0 + (sortedSolver pb).s.getD i 0 := by
      rw [eS]; exact prefixFrom_succ 0 _ i hi'
    have h2 := sortedSolver_spos pb _ (getD_mem_of_lt _ i hi')
    have h3 := dom.Smono 0 i (Nat.zero_le _) (by omega)
    have h4 := hin i hi
    rw [post.row i (Nat.zero_le _) hi, hD0]
    unfold lo Transp1d.hi
    omega
  · intro j hj
    have hj' : j < (sortedSolver pb).d.length := by rw [wf.hd]; exact hj
    have h1 : (sortedSolver pb).D.getD (j + 1) 0
        = (sortedSolver pb).D.getD j 0 + (sortedSolver pb).d.getD j 0 := by
      rw [eD]; exact prefixFrom_succ 0 _ j hj'
    have h2 := sortedSolver_dpos pb _ (getD_mem_of_lt _ j hj')
    by_cases hn : 0 < (sortedSolver pb).u.length
    · have := post.col j (Nat.zero_le _) hj hn
      omega
    · have hnil : plan = [] := List.eq_nil_iff_forall_not_mem.mpr
        (fun x hx => by have := post.ent x hx; omega)
      rw [hnil]; simp only [colSum]; omega
  · intro i j hi hj
    exact post.cell i j (Nat.zero_le _) hi (Nat.zero_le _) hj

/-- `solve` never fails on the domain and returns the renamed merge of the solver's positions -/
theorem solve_eq (pb : Problem) (hv : checkOk pb = true) :
    ∃ p plan, run (sortedSolver pb) = .ok p ∧ RunPost (sortedSolver pb) p ∧
      computeSolution (sortedSolver pb) p = .ok plan ∧ SolPost (sortedSolver pb) p plan ∧
      solve pb = .ok (plan.map (ren (fun i => (ord pb.u pb.s).getD i 0)
        (fun j => (ord pb.v pb.d).getD j 0))) := by
  obtain ⟨hs, hd, hsn, hdn, hle⟩ := (checkOk_iff pb).mp hv
  obtain ⟨p, plan, erun, hp, e, post⟩ := computeSolution_spec pb hv
  refine ⟨p, plan, erun, hp, e, post, ?_⟩
  have hsrcLen : (ord pb.u pb.s).length = (sortedSolver pb).u.length := by simp [sortedSolver, mkSolver]
  have hsnkLen : (ord pb.v pb.d).length = (sortedSolver pb).v.length := by simp [sortedSolver, mkSolver]
  unfold solve
  simp only [check, hv, if_true, mkSorter_ok pb hs hd, convert_ok pb hs hd, erun, e, bind,
    Except.bind, pure, Except.pure]
  exact convertSolutionBack_ok ⟨ord pb.u pb.s, ord pb.v pb.d⟩ plan
    (fun x hx => by have := post.ent x hx; simp only [hsrcLen, hsnkLen]; omega)

theorem solve_valid (pb : Problem) (hv : checkOk pb = true) :
    ∃ plan, solve pb = .ok plan ∧ validPlan pb plan = true := by
  obtain ⟨hs, hd, hsn, hdn, hle⟩ := (checkOk_iff pb).mp hv
  obtain ⟨p, plan, _, _, _, post, es⟩ := solve_eq pb hv
  refine ⟨_, es, ?_⟩
  have hsrcLen : (ord pb.u pb.s).length = (sortedSolver pb).u.length := by simp [sortedSolver, mkSolver]
  have hsnkLen : (ord pb.v pb.d).length = (sortedSolver pb).v.length := by simp [sortedSolver, mkSolver]
  have es_s : (sortedSolver pb).s = (ord pb.u pb.s).map fun i => pb.s.getD i 0 := rfl
  have es_d : (sortedSolver pb).d = (ord pb.v pb.d).map fun i => pb.d.getD i 0 := rfl
  rw [validPlan_iff]
  refine ⟨?_, ?_, ?_⟩
  · unfold entriesOk
    rw [List.all_eq_true]
    intro x hx
    obtain ⟨e, he, rfl⟩ := List.mem_map.mp hx
    have h1 := post.ent e he
    have h2 := (mem_ord pb.u pb.s _).mp (getD_mem_of_ltN (ord pb.u pb.s) e.1 (by omega))
    have h3 := (mem_ord pb.v pb.d _).mp (getD_mem_of_ltN (ord pb.v pb.d) e.2.1 (by omega))
    simp only [ren, Bool.and_eq_true]
    exact ⟨⟨decide_eq_true h2.1, decide_eq_true h3.1⟩, decide_eq_true h1.2.2⟩
  · intro k hk
    by_cases hm : k ∈ ord pb.u pb.s
    · obtain ⟨a, ha, rfl⟩ := mem_getD _ k hm
      rw [rowSum_ren _ _ (ord pb.u pb.s).length plan
        (fun e he => by have := post.ent e he; omega)
        (nodup_getD_inj _ (ord_nodup pb.u pb.s)) a ha,
        post.row a (by omega), es_s, getD_map_int _ _ a ha]
    · have h0 : pb.s.getD k 0 = 0 := by
        have h1 : ¬ 0 < pb.s.getD k 0 := fun h => hm ((mem_ord pb.u pb.s k).mpr ⟨hk, h⟩)
        have h2 := hsn _ (getD_mem_of_lt pb.s k (by omega))
        omega
      rw [h0]
      apply rowSum_zero
      intro x hx
      obtain ⟨e, he, rfl⟩ := List.mem_map.mp hx
      have h1 := post.ent e he
      intro hk'
      exact hm (hk' ▸ getD_mem_of_ltN (ord pb.u pb.s) e.1 (by omega))
  · intro k hk
    by_cases hm : k ∈ ord pb.v pb.d
    · obtain ⟨a, ha, rfl⟩ := mem_getD _ k hm
      rw [colSum_ren _ _ (ord pb.v pb.d).length plan
        (fun e he => by have := post.ent e he; omega)
        (nodup_getD_inj _ (ord_nodup pb.v pb.d)) a ha]
      have := post.col a (by omega)
      rw [es_d, getD_map_int _ _ a ha] at this
      exact this
    · have h2 := hdn _ (getD_mem_of_lt pb.d k (by omega))
      have : colSum (plan.map (ren (fun i => (ord pb.u pb.s).getD i 0)
          (fun j => (ord pb.v pb.d).getD j 0))) k = 0 := by
        apply colSum_zero
        intro x hx
        obtain ⟨e, he, rfl⟩ := List.mem_map.mp hx
        have h1 := post.ent e he
        intro hk'
        exact hm (hk' ▸ getD_mem_of_ltN (ord pb.v pb.d) e.2.1 (by omega))
      rw [this]; exact h2

end ColoVerif.Transp1d
