import ColoVerif.Model.NetTopology
import ColoVerif.Proofs.NetAsmScale
import ColoVerif.Proofs.NetAsmLsq
/-
C17 helper lemmas for the `Circuit → NetModel` step (`NetModel::xTopology/yTopology`):
the stored net list is, net for net, the list of non-degenerate circuit nets, each with the
weight of the circuit net it came from (`topology_eq_circuitNets`), the explicit index map
`keptIdx`, and well-formedness of the resulting nets.
-/
namespace ColoVerif.NetTopology
open ColoVerif.NetAsm

/-! ### `addNet` keeps exactly the nets with a movable pin and two stored pins -/

/-- `addNet(cells, offsets, minPin, maxPin, w)` stores something. -/
def RawKept (r : RawNet) : Bool :=
  !r.pins.isEmpty && decide (2 ≤ (withFixed r.pins r.fixedMinMax).length)

/-- What it stores. -/
def storedOf (store : Rat → Rat) (r : RawNet) : NetAsm.Net :=
  ⟨store r.weight, withFixed r.pins r.fixedMinMax⟩

theorem addNetWith_eq (store : Rat → Rat) (nm : List NetAsm.Net) (r : RawNet) :
    addNetWith store nm r = if RawKept r then nm ++ [storedOf store r] else nm := by
  unfold addNetWith addNet3With RawKept storedOf
  by_cases h1 : r.pins.isEmpty = true
  · simp [h1]
  · by_cases h2 : (withFixed r.pins r.fixedMinMax).length ≤ 1
    · have : ¬ 2 ≤ (withFixed r.pins r.fixedMinMax).length := by omega
      simp [h1, h2, this]
    · have : 2 ≤ (withFixed r.pins r.fixedMinMax).length := by omega
      simp [h1, h2, this]

theorem foldl_addNetWith (store : Rat → Rat) (raws : List RawNet) (nm : List NetAsm.Net) :
    raws.foldl (addNetWith store) nm = nm ++ (raws.filter RawKept).map (storedOf store) := by
  induction raws generalizing nm with
  | nil => simp
  | cons r rs ih =>
    rw [List.foldl_cons, ih, addNetWith_eq]
    by_cases h : RawKept r = true
    · simp [h]
    · simp [h]

/-! ### the loop over the pins of one net -/

theorem foldl_pinStep_pins (a : Axis) (c : Circuit) (ps : List ColoVerif.Pin) (acc : PinAcc) :
    (ps.foldl (pinStep a c) acc).pins
      = acc.pins ++ (ps.filter (fun p => !(c.cell p.cell).fixed)).map (movablePin a c) := by
  induction ps generalizing acc with
  | nil => simp
  | cons p ps ih =>
    rw [List.foldl_cons, ih]
    unfold pinStep
    by_cases h : (c.cell p.cell).fixed = true
    · simp [h]
    · simp [h]

theorem foldFixed_isSome (r : Option (Rat × Rat)) (v : Rat) : (foldFixed r v).isSome = true := by
  unfold foldFixed
  cases r with
  | none => rfl
  | some q => rfl

theorem foldl_pinStep_range (a : Axis) (c : Circuit) (ps : List ColoVerif.Pin) (acc : PinAcc) :
    (ps.foldl (pinStep a c) acc).range.isSome
      = (acc.range.isSome || ps.any (fun p => (c.cell p.cell).fixed)) := by
  induction ps generalizing acc with
  | nil => simp
  | cons p ps ih =>
    rw [List.foldl_cons, ih]
    unfold pinStep
    by_cases h : (c.cell p.cell).fixed = true
    · simp [h, foldFixed_isSome]
    · simp [h]

theorem rawOf_pins (a : Axis) (c : Circuit) (n : ColoVerif.Net) :
    (rawOf a c n).pins = (n.pins.filter (fun p => !(c.cell p.cell).fixed)).map (movablePin a c) := by
  unfold rawOf walkPins
  simp [foldl_pinStep_pins]

theorem rawOf_pins_length (a : Axis) (c : Circuit) (n : ColoVerif.Net) :
    (rawOf a c n).pins.length = nbMovable c n := by
  rw [rawOf_pins]; simp [nbMovable]

theorem clampRange_isSome (a : Axis) (c : Circuit) (r : Option (Rat × Rat)) :
    (clampRange a c r).isSome = r.isSome := by
  unfold clampRange
  cases r with
  | none => rfl
  | some q => rfl

theorem rawOf_fixed_isSome (a : Axis) (c : Circuit) (n : ColoVerif.Net) :
    (rawOf a c n).fixedMinMax.isSome = hasFixed c n := by
  unfold rawOf walkPins hasFixed
  simp [clampRange_isSome, foldl_pinStep_range]

theorem withFixed_length_none (pins : List NetAsm.Pin) : (withFixed pins none).length = pins.length := rfl

theorem withFixed_length_some (pins : List NetAsm.Pin) (q : Rat × Rat) :
    pins.length + 1 ≤ (withFixed pins (some q)).length := by
  obtain ⟨mn, mx⟩ := q
  unfold withFixed
  by_cases h : mx = mn
  · simp [h]
  · simp [h]

/-- The model's `addNet` keeps the net of a circuit net iff the net is not degenerate. -/
theorem rawKept_rawOf (a : Axis) (c : Circuit) (n : ColoVerif.Net) :
    RawKept (rawOf a c n) = IsKept c n := by
  have hl := rawOf_pins_length a c n
  have hf := rawOf_fixed_isSome a c n
  unfold RawKept IsKept
  have hE : (rawOf a c n).pins.isEmpty = decide (nbMovable c n = 0) := by
    rw [← hl]
    cases (rawOf a c n).pins <;> simp
  rw [hE]
  cases hfm : (rawOf a c n).fixedMinMax with
  | none =>
    rw [hfm] at hf
    have hf' : hasFixed c n = false := by simpa using hf.symm
    rw [hf', withFixed_length_none, hl]
    by_cases h2 : 2 ≤ nbMovable c n
    · have h1 : 1 ≤ nbMovable c n := by omega
      have h0 : ¬ nbMovable c n = 0 := by omega
      simp [h2, h1, h0]
    · simp [h2]
  | some q =>
    rw [hfm] at hf
    have hf' : hasFixed c n = true := by simpa using hf.symm
    have hw := withFixed_length_some (rawOf a c n).pins q
    rw [hl] at hw
    rw [hf']
    by_cases h0 : nbMovable c n = 0
    · have h1 : ¬ 1 ≤ nbMovable c n := by omega
      simp [h0]
    · have h1 : 1 ≤ nbMovable c n := by omega
      have h2 : 2 ≤ (withFixed (rawOf a c n).pins (some q)).length := by omega
      simp [h0, h1, h2]

/-! ### the fixed pins of a net act through their extreme positions -/

theorem rmin_le_left (a b : Rat) : rmin a b ≤ a := by
  unfold rmin; split <;> linarith
theorem rmin_le_right (a b : Rat) : rmin a b ≤ b := by
  unfold rmin; split <;> linarith
theorem rmin_cases (a b : Rat) : rmin a b = a ∨ rmin a b = b := by
  unfold rmin; split
  · exact Or.inr rfl
  · exact Or.inl rfl
theorem le_rmax_left (a b : Rat) : a ≤ rmax a b := by
  unfold rmax; split <;> linarith
theorem le_rmax_right' (a b : Rat) : b ≤ rmax a b := by
  unfold rmax; split <;> linarith
theorem rmax_cases (a b : Rat) : rmax a b = a ∨ rmax a b = b := by
  unfold rmax; split
  · exact Or.inr rfl
  · exact Or.inl rfl

theorem foldFixed_rangeOf (vs : List Rat) (r : Option (Rat × Rat)) (v : Rat) (h : RangeOf vs r) :
    RangeOf (vs ++ [v]) (foldFixed r v) := by
  cases r with
  | none =>
    have hv : vs = [] := h
    subst hv
    show v ∈ [] ++ [v] ∧ v ∈ [] ++ [v] ∧ ∀ u ∈ [] ++ [v], v ≤ u ∧ u ≤ v
    refine ⟨by simp, by simp, ?_⟩
    intro u hu
    simp at hu
    subst hu
    exact ⟨Rat.le_refl, Rat.le_refl⟩
  | some q =>
    obtain ⟨mn, mx⟩ := q
    obtain ⟨h1, h2, h3⟩ : mn ∈ vs ∧ mx ∈ vs ∧ ∀ u ∈ vs, mn ≤ u ∧ u ≤ mx := h
    show rmin mn v ∈ vs ++ [v] ∧ rmax mx v ∈ vs ++ [v] ∧ ∀ u ∈ vs ++ [v], rmin mn v ≤ u ∧ u ≤ rmax mx v
    refine ⟨?_, ?_, ?_⟩
    · rcases rmin_cases mn v with e | e <;> rw [e] <;> simp [h1]
    · rcases rmax_cases mx v with e | e <;> rw [e] <;> simp [h2]
    · intro u hu
      rw [List.mem_append] at hu
      rcases hu with hu | hu
      · obtain ⟨ha, hb⟩ := h3 u hu
        exact ⟨Rat.le_trans (rmin_le_left mn v) ha, Rat.le_trans hb (le_rmax_left mx v)⟩
      · simp at hu
        subst hu
        exact ⟨rmin_le_right mn u, le_rmax_right' mx u⟩

theorem foldl_pinStep_rangeOf (a : Axis) (c : Circuit) (ps : List ColoVerif.Pin) (acc : PinAcc)
    (vs : List Rat) (h : RangeOf vs acc.range) :
    RangeOf (vs ++ (ps.filter (fun p => (c.cell p.cell).fixed)).map (fixedPos a c))
      (ps.foldl (pinStep a c) acc).range := by
  induction ps generalizing acc vs with
  | nil => simpa using h
  | cons p ps ih =>
    rw [List.foldl_cons]
    by_cases hf : (c.cell p.cell).fixed = true
    · have := ih (pinStep a c acc p) (vs ++ [fixedPos a c p])
        (by unfold pinStep; rw [if_pos hf]; exact foldFixed_rangeOf vs acc.range _ h)
      simpa [hf, List.append_assoc] using this
    · have := ih (pinStep a c acc p) vs (by unfold pinStep; rw [if_neg hf]; exact h)
      simpa [hf] using this

/-- `(minPos, maxPos)` after the pin loop: none iff the net has no fixed pin, otherwise the
minimum and the maximum of the positions of its fixed pins. -/
theorem walkPins_rangeOf (a : Axis) (c : Circuit) (n : ColoVerif.Net) :
    RangeOf (fixedPositions a c n) (walkPins a c n).range := by
  have := foldl_pinStep_rangeOf a c n.pins ⟨none, []⟩ [] rfl
  simpa [fixedPositions, walkPins] using this

/-! ### the whole net list -/

theorem buildWith_rawNets (store : Rat → Rat) (a : Axis) (c : Circuit) :
    buildWith store (rawNets a c)
      = (c.nets.filter (IsKept c)).map (fun n => ⟨store (netWeight n), storedPins a c n⟩) := by
  unfold buildWith rawNets
  rw [foldl_addNetWith, List.nil_append, List.filter_map, List.map_map]
  have e : (RawKept ∘ rawOf a c) = IsKept c := funext (fun n => rawKept_rawOf a c n)
  rw [e]
  rfl

/-- `xTopology(circuit)` / `yTopology(circuit)` store, in order, exactly the non-degenerate
circuit nets, each with the weight of *that* circuit net. -/
theorem topology_eq_circuitNets (a : Axis) (c : Circuit) : topology a c = circuitNets a c := by
  unfold topology build circuitNets
  rw [buildWith_rawNets]
  have e : Gen.NetWeightType.store = fun w => w := funext store_exact
  rw [e]

theorem buildWith_id_rawNets (a : Axis) (c : Circuit) :
    buildWith (fun w => w) (rawNets a c) = circuitNets a c := by
  rw [buildWith_rawNets]; rfl

/-! ### the explicit index map -/

theorem keptIdxFrom_length (c : Circuit) (ns : List ColoVerif.Net) (i : Nat) :
    (keptIdxFrom c i ns).length = (ns.filter (IsKept c)).length := by
  induction ns generalizing i with
  | nil => rfl
  | cons n ns ih =>
    unfold keptIdxFrom
    by_cases h : IsKept c n = true
    · simp [h, ih]
    · simp [h, ih]

theorem keptIdxFrom_mem (c : Circuit) (ns : List ColoVerif.Net) (i j : Nat) :
    j ∈ keptIdxFrom c i ns ↔ i ≤ j ∧ ∃ n, ns[j - i]? = some n ∧ IsKept c n = true := by
  induction ns generalizing i with
  | nil => simp [keptIdxFrom]
  | cons n ns ih =>
    unfold keptIdxFrom
    by_cases h : IsKept c n = true
    · rw [if_pos h, List.mem_cons, ih]
      constructor
      · rintro (rfl | ⟨hle, m, hm, hk⟩)
        · exact ⟨Nat.le_refl _, n, by simp, h⟩
        · refine ⟨by omega, m, ?_, hk⟩
          have : j - i = (j - (i + 1)) + 1 := by omega
          rw [this, List.getElem?_cons_succ]; exact hm
      · rintro ⟨hle, m, hm, hk⟩
        by_cases hij : j = i
        · exact Or.inl hij
        · right
          refine ⟨by omega, m, ?_, hk⟩
          have : j - i = (j - (i + 1)) + 1 := by omega
          rw [this, List.getElem?_cons_succ] at hm; exact hm
    · rw [if_neg h, ih]
      constructor
      · rintro ⟨hle, m, hm, hk⟩
        refine ⟨by omega, m, ?_, hk⟩
        have : j - i = (j - (i + 1)) + 1 := by omega
        rw [this, List.getElem?_cons_succ]; exact hm
      · rintro ⟨hle, m, hm, hk⟩
        have hij : j ≠ i := by
          intro e
          subst e
          simp at hm
          subst hm
          exact h hk
        refine ⟨by omega, m, ?_, hk⟩
        have : j - i = (j - (i + 1)) + 1 := by omega
        rw [this, List.getElem?_cons_succ] at hm; exact hm

theorem keptIdxFrom_pairwise (c : Circuit) (ns : List ColoVerif.Net) (i : Nat) :
    List.Pairwise (fun x y => x < y) (keptIdxFrom c i ns) := by
  induction ns generalizing i with
  | nil => simp [keptIdxFrom]
  | cons n ns ih =>
    unfold keptIdxFrom
    by_cases h : IsKept c n = true
    · rw [if_pos h, List.pairwise_cons]
      refine ⟨?_, ih (i + 1)⟩
      intro j hj
      have := (keptIdxFrom_mem c ns (i + 1) j).1 hj
      omega
    · rw [if_neg h]; exact ih (i + 1)

/-- The `k`-th kept index `j` points at a circuit net `n`, and the `k`-th element of the
filtered-and-mapped list is the image of that very net. -/
theorem keptIdxFrom_get {β : Type} (c : Circuit) (f : ColoVerif.Net → β) (ns : List ColoVerif.Net)
    (i k j : Nat) (h : (keptIdxFrom c i ns)[k]? = some j) :
    i ≤ j ∧ ∃ n, ns[j - i]? = some n ∧ ((ns.filter (IsKept c)).map f)[k]? = some (f n) := by
  induction ns generalizing i k with
  | nil => simp [keptIdxFrom] at h
  | cons n ns ih =>
    unfold keptIdxFrom at h
    by_cases hk : IsKept c n = true
    · rw [if_pos hk] at h
      cases k with
      | zero =>
        simp at h
        subst h
        exact ⟨Nat.le_refl _, n, by simp, by simp [hk]⟩
      | succ k =>
        rw [List.getElem?_cons_succ] at h
        obtain ⟨hle, m, hm, hf⟩ := ih (i + 1) k h
        refine ⟨by omega, m, ?_, ?_⟩
        · have : j - i = (j - (i + 1)) + 1 := by omega
          rw [this, List.getElem?_cons_succ]; exact hm
        · simp only [List.filter_cons, hk, if_true, List.map_cons, List.getElem?_cons_succ]
          exact hf
    · rw [if_neg hk] at h
      obtain ⟨hle, m, hm, hf⟩ := ih (i + 1) k h
      refine ⟨by omega, m, ?_, ?_⟩
      · have : j - i = (j - (i + 1)) + 1 := by omega
        rw [this, List.getElem?_cons_succ]; exact hm
      · have hk' : IsKept c n = false := by simpa using hk
        simp only [List.filter_cons, hk', Bool.false_eq_true, if_false]
        exact hf

/-! ### well-formedness of the nets built from a valid circuit -/

theorem netWeight_nonneg (n : ColoVerif.Net) (h : 0 ≤ n.wMant) : 0 ≤ netWeight n := by
  unfold netWeight
  have h2 : (0 : Rat) < (2 : Rat) ^ n.wExp := Rat.zpow_pos (by decide)
  have h1 : (0 : Rat) ≤ (n.wMant : Rat) := by exact_mod_cast h
  exact Rat.mul_nonneg h1 (Rat.le_of_lt h2)

theorem withFixed_mem (pins : List NetAsm.Pin) (fm : Option (Rat × Rat)) (q : NetAsm.Pin)
    (hq : q ∈ withFixed pins fm) : q ∈ pins ∨ q.1 = -1 := by
  unfold withFixed at hq
  cases fm with
  | none => exact Or.inl hq
  | some r =>
    obtain ⟨mn, mx⟩ := r
    by_cases h : mx = mn
    · simp [h] at hq
      rcases hq with hq | rfl
      · exact Or.inl hq
      · exact Or.inr rfl
    · simp [h] at hq
      rcases hq with hq | rfl | rfl
      · exact Or.inl hq
      · exact Or.inr rfl
      · exact Or.inr rfl

theorem storedPins_ok (a : Axis) (c : Circuit) (n : ColoVerif.Net)
    (hn : ∀ p ∈ n.pins, p.cell < c.cells.length) :
    ∀ q ∈ storedPins a c n, q.1 = -1 ∨ (0 ≤ q.1 ∧ q.1 < (c.cells.length : Int)) := by
  intro q hq
  unfold storedPins at hq
  rcases withFixed_mem _ _ q hq with hq | hq
  · rw [rawOf_pins] at hq
    simp only [List.mem_map, List.mem_filter] at hq
    obtain ⟨p, ⟨hp, _⟩, rfl⟩ := hq
    right
    have := hn p hp
    show (0 : Int) ≤ (p.cell : Int) ∧ (p.cell : Int) < (c.cells.length : Int)
    exact ⟨Int.natCast_nonneg _, by exact_mod_cast this⟩
  · exact Or.inl hq

theorem circuitNets_wellFormed (a : Axis) (c : Circuit) (h : CircuitOk c) :
    ∀ m ∈ circuitNets a c, NetOk c.cells.length m ∧ 0 ≤ m.weight := by
  intro m hm
  unfold circuitNets at hm
  simp only [List.mem_map, List.mem_filter] at hm
  obtain ⟨n, ⟨hn, _⟩, rfl⟩ := hm
  obtain ⟨hw, hp⟩ := h n hn
  exact ⟨storedPins_ok a c n hp, netWeight_nonneg n hw⟩

end ColoVerif.NetTopology
