import ColoVerif.Proofs.IncrNetBuild
/-
`IncrNetModel::xTopology / yTopology (circuit, cells)`: the freshly built model is well formed,
consistent, and its value is the 1-D half-perimeter wirelength of the circuit.
-/
namespace ColoVerif.IncrNet
open ColoVerif Model ColoVerif.C09

/-! ### span only depends on the convex hull -/

theorem span_hull (l l' : List Int) (h1 : ∀ x ∈ l', x ∈ l)
    (h2 : ∀ x ∈ l, ∃ a ∈ l', ∃ b ∈ l', a ≤ x ∧ x ≤ b) : span l' = span l := by
  apply isSpan_unique l' _ _ (span_isSpan l')
  rcases span_isSpan l with ⟨hl, hv⟩ | ⟨lo, hi, hlo, hhi, hb, hv⟩
  · left
    refine ⟨?_, hv⟩
    cases l' with
    | nil => rfl
    | cons x xs => have := h1 x (by simp); rw [hl] at this; simp at this
  · right
    obtain ⟨a, ha, _, _, hale, _⟩ := h2 lo hlo
    obtain ⟨_, _, b, hb', _, hble⟩ := h2 hi hhi
    have ea : a = lo := by have := (hb a (h1 a ha)).1; omega
    have eb : b = hi := by have := (hb b (h1 b hb')).2; omega
    subst ea; subst eb
    exact ⟨a, b, ha, hb', fun x hx => hb x (h1 x hx), hv⟩

theorem span_short (l : List Int) (h : l.length ≤ 1) : span l = 0 := by
  match l, h with
  | [], _ => rfl
  | [x], _ => simp [span, maxOf, minOf]

theorem lmin_mem (d : Int) (l : List Int) (h : l ≠ []) : Circuit.lmin d l ∈ l ∧ ∀ x ∈ l, Circuit.lmin d l ≤ x := by
  obtain ⟨lo, hlo⟩ := minOf_isSome l h
  rw [lmin_eq, hlo]
  exact minOf_spec l lo hlo

theorem lmax_mem (d : Int) (l : List Int) (h : l ≠ []) : Circuit.lmax d l ∈ l ∧ ∀ x ∈ l, x ≤ Circuit.lmax d l := by
  obtain ⟨hi, hhi⟩ := maxOf_isSome l h
  rw [lmax_eq, hhi]
  exact maxOf_spec l hi hhi

/-! ### the cell mapping -/

theorem cellIndexFrom_spec (cell : Nat) : ∀ (cs : List Nat) (i : Nat) (best : Option Nat) (k : Nat),
    cellIndexFrom cell cs i best = some k →
    best = some k ∨ (i ≤ k ∧ k < i + cs.length ∧ cs.getD (k - i) 0 = cell)
  | [], _, _, _, h => Or.inl h
  | c :: cs, i, best, k, h => by
    rcases cellIndexFrom_spec cell cs (i + 1) _ k h with h1 | ⟨h1, h2, h3⟩
    · by_cases hc : c = cell
      · rw [if_pos hc] at h1
        have : i = k := by simpa using h1
        subst this
        right; simp [hc]
      · rw [if_neg hc] at h1; exact Or.inl h1
    · right
      refine ⟨by omega, by simp; omega, ?_⟩
      have : k - i = (k - (i + 1)) + 1 := by omega
      rw [this]; simpa using h3

theorem cellIndex_spec (cells : List Nat) (cell k : Nat) (h : cellIndex cells cell = some k) :
    k < cells.length ∧ cells.getD k 0 = cell := by
  rcases cellIndexFrom_spec cell cells 0 none k h with h1 | ⟨_, h2, h3⟩
  · simp at h1
  · exact ⟨by omega, by simpa using h3⟩

/-! ### one reduced net -/

theorem mem_pseudoPins (K : Nat) (F : List Int) (q : Pin1) :
    q ∈ pseudoPins K F ↔ (F ≠ [] ∧ (q = (K, Circuit.lmin intMax F) ∨ q = (K, Circuit.lmax intMin F))) := by
  unfold pseudoPins
  by_cases hF : F = []
  · simp [hF]
  · have : F.isEmpty = false := by cases F <;> simp_all
    simp only [this, Bool.false_eq_true, if_false]
    by_cases hne : (Circuit.lmin intMax F != Circuit.lmax intMin F) = true
    · simp [hne, hF]
    · have heq : Circuit.lmin intMax F = Circuit.lmax intMin F := by simpa using hne
      simp [hne, hF, heq]

/-- absolute 1-D coordinate of a circuit pin -/
def absPos (off : Cell → Pin → Int) (pos : Cell → Int) (c : Circuit) (p : Pin) : Int :=
  pos (c.cell p.cell) + off (c.cell p.cell) p

/-- positions in the built model -/
def topoPos (pos : Cell → Int) (c : Circuit) (cells : List Nat) : List Int :=
  cells.map (fun i => pos (c.cell i)) ++ [0]

theorem topoPos_getD_lt (pos : Cell → Int) (c : Circuit) (cells : List Nat) (k : Nat) (hk : k < cells.length) :
    (topoPos pos c cells).getD k 0 = pos (c.cell (cells.getD k 0)) := by
  unfold topoPos
  simp only [List.getD_eq_getElem?_getD]
  rw [List.getElem?_append_left (by simpa using hk)]
  simp [hk]

theorem topoPos_getD_fixed (pos : Cell → Int) (c : Circuit) (cells : List Nat) :
    (topoPos pos c cells).getD cells.length 0 = 0 := by
  unfold topoPos
  simp only [List.getD_eq_getElem?_getD]
  rw [List.getElem?_append_right (by simp)]
  simp

theorem mem_fixedPositions (off : Cell → Pin → Int) (pos : Cell → Int) (c : Circuit) (cells : List Nat) (n : Net) (y : Int) :
    y ∈ fixedPositions off pos c cells n ↔ ∃ p ∈ n.pins, cellIndex cells p.cell = none ∧ y = absPos off pos c p := by
  unfold fixedPositions absPos
  rw [List.mem_filterMap]
  constructor
  · rintro ⟨p, hp, h⟩
    cases hc : cellIndex cells p.cell with
    | none => rw [hc] at h; exact ⟨p, hp, hc, by simpa using h.symm⟩
    | some k => rw [hc] at h; simp at h
  · rintro ⟨p, hp, hc, rfl⟩
    exact ⟨p, hp, by rw [hc]⟩

theorem mem_selectedPins (off : Cell → Pin → Int) (c : Circuit) (cells : List Nat) (n : Net) (q : Pin1) :
    q ∈ selectedPins off c cells n ↔ ∃ p ∈ n.pins, ∃ k, cellIndex cells p.cell = some k ∧ q = (k, off (c.cell p.cell) p) := by
  unfold selectedPins
  rw [List.mem_filterMap]
  constructor
  · rintro ⟨p, hp, h⟩
    cases hc : cellIndex cells p.cell with
    | none => rw [hc] at h; simp at h
    | some k => rw [hc] at h; exact ⟨p, hp, k, hc, by simpa using h.symm⟩
  · rintro ⟨p, hp, k, hc, rfl⟩
    exact ⟨p, hp, by rw [hc]; rfl⟩

/-- the positions of the pins of the reduced net span the same interval as the circuit net -/
theorem reducedNet_span (off : Cell → Pin → Int) (pos : Cell → Int) (c : Circuit) (cells : List Nat) (n : Net) :
    span ((reducedNet off pos c cells n).map fun p => (topoPos pos c cells).getD p.1 0 + p.2)
      = span (n.pins.map (absPos off pos c)) := by
  apply span_hull
  · -- every model pin position is a circuit pin position
    intro x hx
    obtain ⟨q, hq, rfl⟩ := List.mem_map.mp hx
    unfold reducedNet at hq
    rcases List.mem_append.mp hq with hq | hq
    · obtain ⟨p, hp, k, hk, rfl⟩ := (mem_selectedPins off c cells n q).mp hq
      obtain ⟨hk1, hk2⟩ := cellIndex_spec cells p.cell k hk
      rw [List.mem_map]
      refine ⟨p, hp, ?_⟩
      simp only [topoPos_getD_lt pos c cells k hk1, hk2, absPos]
    · obtain ⟨hF, hq⟩ := (mem_pseudoPins _ _ q).mp hq
      have hmem : (Circuit.lmin intMax (fixedPositions off pos c cells n)) ∈ fixedPositions off pos c cells n ∧
                  (Circuit.lmax intMin (fixedPositions off pos c cells n)) ∈ fixedPositions off pos c cells n :=
        ⟨(lmin_mem _ _ hF).1, (lmax_mem _ _ hF).1⟩
      rcases hq with rfl | rfl
      · obtain ⟨p, hp, _, he⟩ := (mem_fixedPositions off pos c cells n _).mp hmem.1
        rw [List.mem_map]
        exact ⟨p, hp, by simp only [topoPos_getD_fixed]; omega⟩
      · obtain ⟨p, hp, _, he⟩ := (mem_fixedPositions off pos c cells n _).mp hmem.2
        rw [List.mem_map]
        exact ⟨p, hp, by simp only [topoPos_getD_fixed]; omega⟩
  · -- every circuit pin position lies between two model pin positions
    intro x hx
    obtain ⟨p, hp, rfl⟩ := List.mem_map.mp hx
    cases hc : cellIndex cells p.cell with
    | some k =>
      obtain ⟨hk1, hk2⟩ := cellIndex_spec cells p.cell k hc
      have hin : absPos off pos c p ∈ (reducedNet off pos c cells n).map fun p => (topoPos pos c cells).getD p.1 0 + p.2 := by
        rw [List.mem_map]
        refine ⟨(k, off (c.cell p.cell) p), ?_, ?_⟩
        · unfold reducedNet
          exact List.mem_append_left _ ((mem_selectedPins off c cells n _).mpr ⟨p, hp, k, hc, rfl⟩)
        · simp only [topoPos_getD_lt pos c cells k hk1, hk2, absPos]
      exact ⟨_, hin, _, hin, Int.le_refl _, Int.le_refl _⟩
    | none =>
      have hy : absPos off pos c p ∈ fixedPositions off pos c cells n :=
        (mem_fixedPositions off pos c cells n _).mpr ⟨p, hp, hc, rfl⟩
      have hF : fixedPositions off pos c cells n ≠ [] := by intro h; rw [h] at hy; simp at hy
      have hlo := lmin_mem intMax _ hF
      have hhi := lmax_mem intMin _ hF
      refine ⟨Circuit.lmin intMax (fixedPositions off pos c cells n), ?_,
              Circuit.lmax intMin (fixedPositions off pos c cells n), ?_, hlo.2 _ hy, hhi.2 _ hy⟩
      · rw [List.mem_map]
        refine ⟨(cells.length, Circuit.lmin intMax (fixedPositions off pos c cells n)), ?_, ?_⟩
        · unfold reducedNet
          exact List.mem_append_right _ ((mem_pseudoPins _ _ _).mpr ⟨hF, Or.inl rfl⟩)
        · simp only [topoPos_getD_fixed]; omega
      · rw [List.mem_map]
        refine ⟨(cells.length, Circuit.lmax intMin (fixedPositions off pos c cells n)), ?_, ?_⟩
        · unfold reducedNet
          exact List.mem_append_right _ ((mem_pseudoPins _ _ _).mpr ⟨hF, Or.inr rfl⟩)
        · simp only [topoPos_getD_fixed]; omega

theorem reducedNet_range (off : Cell → Pin → Int) (pos : Cell → Int) (c : Circuit) (cells : List Nat) (n : Net)
    (q : Pin1) (hq : q ∈ reducedNet off pos c cells n) : q.1 < cells.length + 1 := by
  unfold reducedNet at hq
  rcases List.mem_append.mp hq with hq | hq
  · obtain ⟨p, _, k, hk, rfl⟩ := (mem_selectedPins off c cells n q).mp hq
    have := (cellIndex_spec cells p.cell k hk).1
    simp; omega
  · obtain ⟨_, hq⟩ := (mem_pseudoPins _ _ q).mp hq
    rcases hq with rfl | rfl <;> simp

/-! ### the whole topology -/

/-- the nets handed to `addNet` -/
def reducedNets (off : Cell → Pin → Int) (pos : Cell → Int) (c : Circuit) (cells : List Nat) : List (List Pin1) :=
  c.nets.map (reducedNet off pos c cells)

theorem topology_eq (off : Cell → Pin → Int) (pos : Cell → Int) (c : Circuit) (cells : List Nat) :
    topology off pos c cells =
      ((reducedNets off pos c cells).foldl Builder.addNet (Builder.new (cells.length + 1))).build (topoPos pos c cells) := by
  unfold topology reducedNets topoPos
  rw [List.foldl_map]

theorem sum_map_filter_zero {α} (f : α → Int) (p : α → Bool) : ∀ (l : List α), (∀ x ∈ l, p x = false → f x = 0) →
    ((l.filter p).map f).sum = (l.map f).sum
  | [], _ => rfl
  | x :: xs, h => by
    have ih := sum_map_filter_zero f p xs (fun y hy => h y (by simp [hy]))
    by_cases hp : p x = true
    · simp [List.filter_cons, hp, ih]
    · have hp' : p x = false := by simpa using hp
      simp [List.filter_cons, hp', ih, h x (by simp) hp']

theorem topology_good (off : Cell → Pin → Int) (pos : Cell → Int) (c : Circuit) (cells : List Nat) :
    WF (topology off pos c cells) ∧ Inv (topology off pos c cells) ∧
    Repr (topology off pos c cells) (kept (reducedNets off pos c cells)) ∧
    (topology off pos c cells).cellPos = topoPos pos c cells := by
  rw [topology_eq]
  have hb : BRepr (Builder.new (cells.length + 1)) [] := ⟨rfl, rfl, rfl⟩
  have hr := foldl_addNet_repr (reducedNets off pos c cells) _ _ hb
  simp only [List.nil_append] at hr
  have hrange : ∀ l ∈ kept (reducedNets off pos c cells), ∀ p ∈ l, p.1 < (topoPos pos c cells).length := by
    intro l hl p hp
    have hl' : l ∈ reducedNets off pos c cells := (List.mem_filter.mp hl).1
    obtain ⟨n, _, rfl⟩ := List.mem_map.mp hl'
    have := reducedNet_range off pos c cells n p hp
    simp [topoPos]; omega
  have hg := build_good _ _ (topoPos pos c cells) hr hrange
  exact ⟨hg.1, hg.2, build_repr _ _ _ hr, rfl⟩

/-- value of the freshly built model = Σ over the circuit's nets of the 1-D extent of the pins -/
theorem topology_value (off : Cell → Pin → Int) (pos : Cell → Int) (c : Circuit) (cells : List Nat) :
    (topology off pos c cells).value = (c.nets.map fun n => span (n.pins.map (absPos off pos c))).sum := by
  obtain ⟨_, hinv, hrepr, hpos⟩ := topology_good off pos c cells
  have hne : ∀ n, n < (topology off pos c cells).nbNets → (topology off pos c cells).netPins n ≠ [] := by
    intro n hn
    rw [hrepr.nbNets] at hn
    rw [hrepr.netPins n hn]
    have hmem : (kept (reducedNets off pos c cells)).getD n [] ∈ kept (reducedNets off pos c cells) := by
      simp [List.getD_eq_getElem?_getD, hn]
    have := (List.mem_filter.mp hmem).2
    intro h; rw [h] at this; simp at this
  rw [inv_value _ hinv hne, hrepr.scratchValue, hpos]
  unfold kept
  rw [sum_map_filter_zero]
  · unfold reducedNets
    rw [List.map_map]
    congr 1
    apply List.map_congr_left
    intro n _
    exact reducedNet_span off pos c cells n
  · intro l _ hl
    apply span_short
    have : ¬ 1 < l.length := by simpa using hl
    simp; omega

end ColoVerif.IncrNet
