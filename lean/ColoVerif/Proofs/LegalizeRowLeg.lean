import ColoVerif.Proofs.RowLegFeasible
/-
Helper lemmas for C11: pushing cells whose targets are already in order, non-overlapping and
inside the segment costs 0 each time and `getPlacement` returns the targets.
-/
namespace ColoVerif.RowLeg

/-- push `(width, target)` pairs in order; returns the reported costs and the final state -/
def pushAll (s : State) : List (Int × Int) → List Int × State
  | [] => ([], s)
  | c :: cs => ((push s c.1 c.2).1 :: (pushAll (push s c.1 c.2).2 cs).1, (pushAll (push s c.1 c.2).2 cs).2)

/-- the targets are in order from `lo`, the cells do not overlap and end before `e`; widths positive -/
def InOrder (e : Int) : Int → List (Int × Int) → Prop
  | _, [] => True
  | lo, c :: cs => 0 < c.1 ∧ lo ≤ c.2 ∧ c.2 + c.1 ≤ e ∧ InOrder e (c.2 + c.1) cs

/-- no-conflict invariant: everything recorded so far lies (in absolute terms) at or left of `lo` -/
structure NC (s : State) (lo : Int) (tsRev : List Int) : Prop where
  bounds : ∀ β ∈ s.bounds, β.absPos + s.used ≤ lo
  cpos : ∀ x ∈ runMin none s.cposRev, x + s.used ≤ lo
  begin_ : s.b + s.used ≤ lo
  place : placementRev s = tsRev

theorem scan_no_pop (width tgt lim climit : Int) (B : List Bound) (slope curPos curCost : Int)
    (h : ∀ β ∈ B, β.absPos ≤ tgt) (hl : tgt ≤ lim) :
    scan width tgt lim climit B slope curPos curCost [] = ⟨B, [], slope, curPos, curCost⟩ := by
  cases B with
  | nil => simp [scan]
  | cons t rest =>
    have ht := h t (by simp)
    have c1 : ¬ (t.absPos > tgt) := by omega
    have c2 : ¬ (t.absPos > lim) := by omega
    simp [scan, c1, c2]

theorem used_push (s : State) (w t : Int) : (push s w t).2.used = s.used + w := by
  simp [push, State.used]; omega

theorem push_no_conflict (s : State) (lo : Int) (tsRev : List Int) (w t : Int) (h : NC s lo tsRev)
    (hw : 0 < w) (hlo : lo ≤ t) (he : t + w ≤ s.e) :
    (push s w t).1 = 0 ∧ NC (push s w t).2 (t + w) (t :: tsRev) ∧ (push s w t).2.e = s.e := by
  have hb : ∀ β ∈ s.bounds, β.absPos ≤ t - s.used := fun β hβ => by have := h.bounds β hβ; omega
  have hsc := scan_no_pop w (t - s.used) (s.e - s.used - w) (s.e - s.used) s.bounds (-w) s.e 0 hb (by omega)
  have hbeg := h.begin_
  have hfin : min (s.e - s.used - w) (max s.b (t - s.used)) = t - s.used := by omega
  have hneg : ¬ (-w ≥ 0) := by omega
  have hd : displacement s w t = ⟨0, t - s.used, ⟨s.bounds, [], -w, s.e, 0⟩⟩ := by
    simp only [displacement, hsc, hneg, if_false, hfin]
    congr 1
    have : (-w + w) = 0 := by omega
    simp [this]
  refine ⟨?_, ?_, rfl⟩
  · simp [push, hd]
  · have hu := used_push s w t
    have hcp : (push s w t).2.cposRev = (t - s.used) :: s.cposRev := by simp [push, hd]
    have hwd : (push s w t).2.widthsRev = w :: s.widthsRev := rfl
    have hbd : ∀ β ∈ (push s w t).2.bounds, β = ⟨t - s.used, w⟩ ∨ β ∈ s.bounds := by
      intro β hβ
      have hnw : ¬ (-w > 0) := by omega
      simp only [push, hd, hnw, if_false] at hβ
      by_cases hc : t - s.used > s.b
      · rw [if_pos hc, mem_pqInsert] at hβ
        rcases hβ with hβ | hβ
        · left; rw [hβ]; congr 1 <;> omega
        · right; exact hβ
      · rw [if_neg hc] at hβ; right; exact hβ
    have hrm : runMin none ((t - s.used) :: s.cposRev) = (t - s.used) :: runMin none s.cposRev := by
      rw [runMin_none_cons]
      congr 1
      have e : List.map (min (t - s.used)) (runMin none s.cposRev) = List.map id (runMin none s.cposRev) :=
        List.map_congr_left (fun x hx => by have := h.cpos x hx; simp only [id]; omega)
      rw [e, List.map_id]
    refine ⟨?_, ?_, ?_, ?_⟩
    · intro β hβ
      rw [hu]
      rcases hbd β hβ with rfl | hβ
      · show t - s.used + (s.used + w) ≤ t + w; omega
      · have := h.bounds β hβ; omega
    · intro x hx
      rw [hu]
      rw [hcp, hrm] at hx
      rcases List.mem_cons.mp hx with rfl | hx
      · omega
      · have := h.cpos x hx; omega
    · rw [hu]; show s.b + (s.used + w) ≤ t + w; omega
    · have hp := h.place
      simp only [placementRev] at hp ⊢
      rw [hcp, hwd, hrm]
      simp only [cumRev, List.zipWith_cons_cons, hp]
      congr 1
      simp only [State.used]; omega

theorem nc_new (b e : Int) : NC (State.new b e) b [] := by
  refine ⟨?_, ?_, ?_, ?_⟩ <;> simp [State.new, State.used, runMin, placementRev, cumRev]

theorem pushAll_no_conflict : ∀ (cs : List (Int × Int)) (s : State) (lo : Int) (tsRev : List Int),
    NC s lo tsRev → InOrder s.e lo cs →
    (∀ c ∈ (pushAll s cs).1, c = 0) ∧
    placementRev (pushAll s cs).2 = (cs.map Prod.snd).reverse ++ tsRev
  | [], s, lo, tsRev, h, _ => by simp [pushAll, h.place]
  | c :: cs, s, lo, tsRev, h, hio => by
    obtain ⟨hw, hlo, he, hrest⟩ := hio
    obtain ⟨h0, hnc, hee⟩ := push_no_conflict s lo tsRev c.1 c.2 h hw hlo he
    have ih := pushAll_no_conflict cs (push s c.1 c.2).2 (c.2 + c.1) (c.2 :: tsRev) hnc (by rw [hee]; exact hrest)
    constructor
    · intro x hx
      simp only [pushAll, List.mem_cons] at hx
      rcases hx with rfl | hx
      · exact h0
      · exact ih.1 x hx
    · simp only [pushAll, List.map_cons, List.reverse_cons, List.append_assoc, List.singleton_append]
      exact ih.2

end ColoVerif.RowLeg
