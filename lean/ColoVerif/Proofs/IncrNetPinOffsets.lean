import ColoVerif.Proofs.IncrNetRun
/-
The second parallel array of the cell CSR: `cellPinOffsets_`.  `finalize` fills it at the same
index as `cellNets_`, so the (net, offset) pairs a cell exposes through `pinNet(cell, i)` /
`cellPinOffset(cell, i)` are exactly the pins of the net CSR that sit on that cell, in net
order, offsets included.  Preserved by `updateCellPos` (which only writes `cellPos_`,
`netMinMaxPos_`, `value_`).
-/
namespace ColoVerif.IncrNet
open ColoVerif Model ColoVerif.C09

/-- the (net, offset) pairs of a cell as the C++ accessors `pinNet(cell,i)`,
`cellPinOffset(cell,i)` expose them -/
def cellPinList (m : Model) (cell : Nat) : List (Nat × Int) :=
  (List.range (m.nbCellPins cell)).map fun i => (m.pinNet cell i, m.cellPinOffset cell i)

/-- the cell→(net, offset) CSR is the exact transpose of the net→(cell, offset) CSR, offsets
included, in net order -/
def WFOff (m : Model) : Prop :=
  ∀ cell, cellPinList m cell = (m.allPins.filter (fun p => p.2.1 == cell)).map (fun p => (p.1, p.2.2))

/-! ### filling, offsets -/

/-- `getD_map_append_single` for an arbitrary projection -/
theorem getD_map_append_single_gen {α} (g : P3 → α) (d : α) (l : List P3) (p : P3) (t : Nat) :
    (((l ++ [p]).map g).getD t d) =
      if t < l.length then (l.map g).getD t d else if t = l.length then g p else d := by
  simp only [List.map_append, List.getD_eq_getElem?_getD, List.map_cons, List.map_nil]
  by_cases h : t < l.length
  · rw [List.getElem?_append_left (by simpa using h)]; simp [h]
  · rw [List.getElem?_append_right (by simpa using h)]
    by_cases h2 : t = l.length
    · subst h2; simp
    · simp only [h, h2, if_false, List.length_map]
      cases hh : t - l.length with
      | zero => omega
      | succ n => simp

/-- state of `cellPinOffsets_` in the second loop of `finalize` after the pins `Q`
(the `curIndex` part is `FillInv.cur`) -/
structure FillInvO (lim : List Nat) (K : Nat) (Q : List P3) (f : Fill) : Prop where
  offs : ∀ c, c < K → ∀ t, t < cnt c Q →
    f.cellPinOffsets.getD (lim.getD c 0 + t) 0 = ((onCell c Q).map (·.2.2)).getD t 0

theorem fillStep_invO (lim : List Nat) (K B : Nat) (P Q R : List P3) (p : P3) (f : Fill)
    (hl : IsLimits lim K P B) (hP : P = Q ++ p :: R) (hp : p.2.1 < K) (hB : f.cellPinOffsets.length = B)
    (h : FillInv lim K Q f) (ho : FillInvO lim K Q f) :
    FillInvO lim K (Q ++ [p]) (fillStep f p) ∧ (fillStep f p).cellPinOffsets.length = B := by
  have hcntP : ∀ c, cnt c P = cnt c Q + (if p.2.1 = c then 1 else 0) + cnt c R := by
    intro c; rw [hP, cnt_append, cnt_cons]; omega
  have hind : f.curIndex.getD p.2.1 0 = lim.getD p.2.1 0 + cnt p.2.1 Q := h.cur _ hp
  have hnext := hl.step p.2.1 hp
  have hc0 := hcntP p.2.1
  simp only [if_true] at hc0
  have hindB : f.curIndex.getD p.2.1 0 < B := by
    have := hl.bound (p.2.1 + 1); omega
  refine ⟨⟨?_⟩, ?_⟩
  · intro c hc t ht
    show (f.cellPinOffsets.set (f.curIndex.getD p.2.1 0) p.2.2).getD (lim.getD c 0 + t) 0 = _
    rw [cnt_append, cnt_cons] at ht
    by_cases hpc : p.2.1 = c
    · subst hpc
      have hon : onCell p.2.1 (Q ++ [p]) = onCell p.2.1 Q ++ [p] := by simp [onCell, List.filter_append]
      rw [hon, getD_map_append_single_gen]
      by_cases ht2 : t < cnt p.2.1 Q
      · rw [getD_set_ne' _ _ _ _ _ (by rw [hind]; omega)]
        have : t < (onCell p.2.1 Q).length := ht2
        rw [if_pos this]
        exact ho.offs _ hc t ht2
      · have hnil : cnt p.2.1 ([] : List P3) = 0 := rfl
        rw [if_pos rfl, hnil] at ht
        have hteq : t = cnt p.2.1 Q := by omega
        rw [hind, ← hteq, getD_set_eq' _ _ _ _ (by rw [hB, hteq, ← hind]; exact hindB)]
        have h1 : ¬ t < (onCell p.2.1 Q).length := ht2
        have h2 : t = (onCell p.2.1 Q).length := hteq
        rw [if_neg h1, if_pos h2]
    · have hon : onCell c (Q ++ [p]) = onCell c Q := by simp [onCell, List.filter_append, hpc]
      have hnil : cnt c ([] : List P3) = 0 := rfl
      have ht' : t < cnt c Q := by rw [if_neg hpc, hnil] at ht; omega
      rw [hon]
      have hne : f.curIndex.getD p.2.1 0 ≠ lim.getD c 0 + t := by
        rw [hind]
        have hcP := hcntP c
        simp only [hpc, if_false] at hcP
        have hstepc := hl.step c hc
        by_cases hlt : c < p.2.1
        · have := hl.mono p.2.1 (c + 1) (by omega) (by omega); omega
        · have := hl.mono c (p.2.1 + 1) (by omega) (by omega); omega
      rw [getD_set_ne' _ _ _ _ _ hne]
      exact ho.offs c hc t ht'
  · simp [fillStep, hB]

theorem foldl_fillStep_invO (lim : List Nat) (K B : Nat) (P : List P3) (hl : IsLimits lim K P B)
    (hrange : ∀ q ∈ P, q.2.1 < K) : ∀ (R Q : List P3) (f : Fill), P = Q ++ R →
    f.cellNets.length = B → f.cellPinOffsets.length = B →
    FillInv lim K Q f → FillInvO lim K Q f →
    FillInv lim K P (R.foldl fillStep f) ∧ FillInvO lim K P (R.foldl fillStep f)
  | [], Q, f, hP, _, _, h, ho => by
    have : P = Q := by simpa using hP
    subst this
    exact ⟨h, ho⟩
  | p :: R, Q, f, hP, hB, hBo, h, ho => by
    have hp : p.2.1 < K := hrange p (by rw [hP]; simp)
    have h1 := fillStep_inv lim K B P Q R p f hl hP hp hB h
    have h2 := fillStep_invO lim K B P Q R p f hl hP hp hBo h ho
    exact foldl_fillStep_invO lim K B P hl hrange R (Q ++ [p]) (fillStep f p) (by simp [hP])
      h1.2 h2.2 h1.1 h2.1

/-! ### finalize -/

/-- `finalize` builds the exact transpose *including the pin offsets*, under the same
hypotheses as `finalize_wf`. -/
theorem finalize_wfOff (m : Model) (hrange : ∀ q ∈ m.allPins, q.2.1 < m.nbCells)
    (hsize : m.allPins.length ≤ m.nbPins) : WFOff m.finalize := by
  intro cell
  have hl0 := cellLimits_isLimits m
  have hl : IsLimits m.computeCellLimits m.nbCells m.allPins m.nbPins :=
    ⟨hl0.len, hl0.zero, hl0.step, fun i => Nat.le_trans (hl0.bound i) hsize⟩
  have hfill := foldl_fillStep_invO m.computeCellLimits m.nbCells m.nbPins m.allPins hl hrange m.allPins []
    ⟨m.computeCellLimits, List.replicate m.nbPins 0, List.replicate m.nbPins 0⟩ (by simp) (by simp) (by simp)
    ⟨hl.len, fun c _ => by simp [cnt, onCell], fun c _ t ht => by simp [cnt, onCell] at ht⟩
    ⟨fun c _ t ht => by simp [cnt, onCell] at ht⟩
  rw [finalize_allPins]
  show (List.range (m.computeCellLimits.getD (cell + 1) 0 - m.computeCellLimits.getD cell 0)).map
      (fun i =>
        ((m.allPins.foldl fillStep ⟨m.computeCellLimits, List.replicate m.nbPins 0,
          List.replicate m.nbPins 0⟩).cellNets.getD (m.computeCellLimits.getD cell 0 + i) 0,
         (m.allPins.foldl fillStep ⟨m.computeCellLimits, List.replicate m.nbPins 0,
          List.replicate m.nbPins 0⟩).cellPinOffsets.getD (m.computeCellLimits.getD cell 0 + i) 0)) = _
  by_cases hc : cell < m.nbCells
  · rw [hl.step cell hc]
    have hlen : m.computeCellLimits.getD cell 0 + cnt cell m.allPins - m.computeCellLimits.getD cell 0
        = (onCell cell m.allPins).length := by simp [cnt]
    rw [hlen]
    apply List.ext_getElem
    · simp [onCell]
    · intro i h1 h2
      simp only [List.length_map, List.length_range] at h1
      have hn := hfill.1.nets cell hc i h1
      have ho := hfill.2.offs cell hc i h1
      simp only [List.getElem_map, List.getElem_range]
      rw [hn, ho]
      have h3 : i < (m.allPins.filter (fun p => p.2.1 == cell)).length := h1
      simp [List.getD_eq_getElem?_getD, onCell, h3]
  · have h1 : m.computeCellLimits.getD (cell + 1) 0 = 0 := getD_of_le _ _ _ (by rw [hl.len]; omega)
    rw [h1]
    have : m.allPins.filter (fun p => p.2.1 == cell) = [] := by
      rw [List.filter_eq_nil_iff]
      intro q hq
      have := hrange q hq
      simp; omega
    simp [this]

/-! ### builder, topology, updates -/

/-- a built model has the exact (net, offset) transpose as soon as the pin cells are in range -/
theorem build_wfOff (b : Builder) (L : List (List Pin1)) (pos : List Int) (h : BRepr b L)
    (hrange : ∀ l ∈ L, ∀ p ∈ l, p.1 < pos.length) : WFOff (b.build pos) := by
  have hr : Repr { cellPos := pos, netLimits := b.netLimits, netCells := b.netCells, netPinOffsets := b.netPinOffsets
                   cellLimits := [], cellNets := [], cellPinOffsets := [], netMinMaxPos := [], value := 0 } L :=
    ⟨h.lim, h.cells, h.offs⟩
  refine finalize_wfOff _ ?_ ?_
  · intro q hq
    obtain ⟨l, hl, hp⟩ := hr.mem_allPins q hq
    exact hrange l hl _ hp
  · rw [hr.allPins_length, hr.nbPins]; exact Nat.le_refl _

theorem topology_wfOff (off : Cell → Pin → Int) (pos : Cell → Int) (c : Circuit) (cells : List Nat) :
    WFOff (topology off pos c cells) := by
  rw [topology_eq]
  have hb : BRepr (Builder.new (cells.length + 1)) [] := ⟨rfl, rfl, rfl⟩
  have hr := foldl_addNet_repr (reducedNets off pos c cells) _ _ hb
  simp only [List.nil_append] at hr
  have hrange : ∀ l ∈ kept (reducedNets off pos c cells), ∀ p ∈ l, p.1 < (topoPos pos c cells).length := by
    intro l hl p hp
    have hl' : l ∈ reducedNets off pos c cells := (List.mem_filter.mp hl).1
    obtain ⟨n, _, rfl⟩ := List.mem_map.mp hl'
    have := reducedNet_range off pos c cells n p hp
    simp [topoPos]; omega
  exact build_wfOff _ _ (topoPos pos c cells) hr hrange

/-- models produced by `IncrNetModelBuilder` from any nets whose cells are in range -/
theorem builder_wfOff (K : Nat) (Ls : List (List Pin1)) (pos : List Int) (hK : pos.length = K)
    (hrange : ∀ l ∈ Ls, ∀ p ∈ l, p.1 < K) : WFOff ((Ls.foldl Builder.addNet (Builder.new K)).build pos) := by
  have hb : BRepr (Builder.new K) [] := ⟨rfl, rfl, rfl⟩
  have hr := foldl_addNet_repr Ls _ _ hb
  simp only [List.nil_append] at hr
  exact build_wfOff _ _ pos hr (fun l hl p hp => by rw [hK]; exact hrange l (List.mem_filter.mp hl).1 p hp)

/-- `updateCellPos` never touches the cell CSR (nor the net CSR) -/
theorem run_wfOff (m : Model) (ops : List (Nat × Int)) (h : WFOff m) : WFOff (run m ops) := by
  obtain ⟨X, Y, hxy⟩ := run_frame ops m
  rw [hxy]
  exact h

/-- non-vacuity: a two-net, three-cell model built by the builder; the statement is evaluated -/
example : cellPinList ((([[(0, 1), (1, -2)], [(1, 3), (2, 4), (0, 5)]] : List (List Pin1)).foldl Builder.addNet
    (Builder.new 3)).build [0, 0, 0]) 1 = [(0, -2), (1, 3)] := by decide

end ColoVerif.IncrNet
