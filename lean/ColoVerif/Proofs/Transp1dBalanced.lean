import ColoVerif.Proofs.Transp1dKept
import ColoVerif.Proofs.Transp1dCert
/-
Universal optimality of `solve` when total supply = total demand (the situation `balanceDemand`
creates whenever supply exceeds demand).  Then the flushed positions are all 0, the plan is the
monotone ("north-west corner") coupling, and an explicit Kantorovich potential certifies it:

    F(t)   = (supply at positions ≤ t) - (demand at positions ≤ t)      (on the sorted instance)
    φ(x+1) = φ(x) - sign F(x),      al i = φ(u i) + C,   be j = φ(v j) + C.

`φ` is 1-Lipschitz, hence dual feasible; wherever the plan ships from `u i` to `v j` the net flow
`F` has constant sign between the two positions, hence `φ(u i) - φ(v j) = |u i - v j|`; every sink
is saturated.  So `certOk` holds and `cert_optimal_core` applies.
-/
namespace ColoVerif.Transp1d

/-! ### the sorter sorts -/

theorem sorted_insertKey (x : Int × Nat) (l : List (Int × Nat))
    (h : List.Pairwise (fun a b => a.1 ≤ b.1) l) :
    List.Pairwise (fun a b => a.1 ≤ b.1) (insertKey x l) := by
  induction l with
  | nil => simp [insertKey]
  | cons z zs ih =>
    rw [List.pairwise_cons] at h
    unfold insertKey
    split
    · rename_i hlt
      have hz : x.1 ≤ z.1 := by
        simp only [keyLt, Bool.or_eq_true, Bool.and_eq_true, decide_eq_true_eq] at hlt
        omega
      rw [List.pairwise_cons, List.pairwise_cons]
      refine ⟨?_, h⟩
      intro a ha
      simp only [List.mem_cons] at ha
      rcases ha with rfl | ha
      · exact hz
      · exact Int.le_trans hz (h.1 a ha)
    · rename_i hlt
      have hz : z.1 ≤ x.1 := by
        simp only [keyLt, Bool.or_eq_true, Bool.and_eq_true, decide_eq_true_eq, not_or, not_and] at hlt
        omega
      rw [List.pairwise_cons]
      refine ⟨?_, ih h.2⟩
      intro a ha
      rcases (mem_insertKey x a zs).mp ha with rfl | ha
      · exact hz
      · exact h.1 a ha

theorem sorted_sortKeys (l : List (Int × Nat)) :
    List.Pairwise (fun a b => a.1 ≤ b.1) (sortKeys l) := by
  induction l with
  | nil => simp [sortKeys]
  | cons x xs ih => exact sorted_insertKey x _ ih

/-- the positions handed to the solver are sorted -/
theorem sorted_ord (pos cap : List Int) :
    List.Pairwise (fun a b => a ≤ b) ((ord pos cap).map fun i => pos.getD i 0) := by
  unfold ord
  rw [List.map_map]
  have hmem : ∀ k ∈ sortKeys (((List.range pos.length).filter fun i => decide (0 < cap.getD i 0)).map
      fun i => (pos.getD i 0, i)), ((fun i => pos.getD i 0) ∘ fun x : Int × Nat => x.2) k = k.1 := by
    intro k hk
    rw [mem_sortKeys] at hk
    obtain ⟨i, _, rfl⟩ := List.mem_map.mp hk
    rfl
  rw [List.map_congr_left hmem]
  exact List.Pairwise.map _ (fun a b h => h) (sorted_sortKeys _)

/-! ### cumulative weight at positions `≤ t` -/

def cum : List Int → List Int → Int → Int
  | x :: xs, w :: ws, t => (if x ≤ t then w else 0) + cum xs ws t
  | _, _, _ => 0

theorem cum_nonneg (xs ws : List Int) (t : Int) (hw : ∀ w ∈ ws, 0 ≤ w) : 0 ≤ cum xs ws t := by
  induction xs generalizing ws with
  | nil => simp [cum]
  | cons x xs ih =>
    cases ws with
    | nil => simp [cum]
    | cons w ws =>
      have h1 := hw w (List.mem_cons_self ..)
      have h2 := ih ws (fun y hy => hw y (List.mem_cons_of_mem _ hy))
      simp only [cum]
      split <;> omega

theorem cum_zero (xs ws : List Int) (t : Int) (h : ∀ x ∈ xs, t < x) : cum xs ws t = 0 := by
  induction xs generalizing ws with
  | nil => simp [cum]
  | cons x xs ih =>
    cases ws with
    | nil => simp [cum]
    | cons w ws =>
      have h1 := h x (List.mem_cons_self ..)
      have h2 := ih ws (fun y hy => h y (List.mem_cons_of_mem _ hy))
      simp only [cum, h2]
      rw [if_neg (by omega)]; rfl

/-- sorted positions, `xs[a] ≤ t`: everything up to `a` counts -/
theorem cum_ge (xs ws : List Int) (t acc : Int) (hs : List.Pairwise (fun a b => a ≤ b) xs)
    (hw : ∀ w ∈ ws, 0 ≤ w) (hl : ws.length = xs.length) (a : Nat) (ha : a < xs.length)
    (hx : xs.getD a 0 ≤ t) : (prefixFrom acc ws).getD (a + 1) 0 ≤ acc + cum xs ws t := by
  induction xs generalizing ws a acc with
  | nil => simp at ha
  | cons x xs ih =>
    cases ws with
    | nil => simp at hl
    | cons w ws =>
      rw [List.pairwise_cons] at hs
      have hw' : ∀ y ∈ ws, 0 ≤ y := fun y hy => hw y (List.mem_cons_of_mem _ hy)
      simp only [prefixFrom, List.getD_cons_succ, cum]
      cases a with
      | zero =>
        simp only [List.getD_cons_zero] at hx
        rw [if_pos hx, prefixFrom_zero]
        have := cum_nonneg xs ws t hw'
        omega
      | succ a =>
        simp only [List.getD_cons_succ] at hx
        have ha' : a < xs.length := by simpa using ha
        have hxa : x ≤ t := Int.le_trans (hs.1 _ (getD_mem_of_lt xs a ha')) hx
        rw [if_pos hxa]
        have := ih ws (acc + w) hs.2 hw' (by simpa using hl) a ha' hx
        omega

/-- sorted positions, `t < xs[b]`: nothing from `b` on counts -/
theorem cum_le (xs ws : List Int) (t acc : Int) (hs : List.Pairwise (fun a b => a ≤ b) xs)
    (hw : ∀ w ∈ ws, 0 ≤ w) (hl : ws.length = xs.length) (b : Nat) (hb : b < xs.length)
    (hx : t < xs.getD b 0) : acc + cum xs ws t ≤ (prefixFrom acc ws).getD b 0 := by
  induction xs generalizing ws b acc with
  | nil => simp at hb
  | cons x xs ih =>
    cases ws with
    | nil => simp at hl
    | cons w ws =>
      rw [List.pairwise_cons] at hs
      have hw' : ∀ y ∈ ws, 0 ≤ y := fun y hy => hw y (List.mem_cons_of_mem _ hy)
      have hw0 := hw w (List.mem_cons_self ..)
      cases b with
      | zero =>
        simp only [List.getD_cons_zero] at hx
        rw [cum_zero (x :: xs) (w :: ws) t (fun y hy => by
          rcases List.mem_cons.mp hy with rfl | hy
          · exact hx
          · have := hs.1 y hy; omega), prefixFrom_zero]
        omega
      | succ b =>
        simp only [List.getD_cons_succ] at hx
        simp only [prefixFrom, List.getD_cons_succ, cum]
        have := ih ws (acc + w) hs.2 hw' (by simpa using hl) b (by simpa using hb) hx
        split <;> omega

/-! ### a 1-Lipschitz potential on the integer line -/

def walkSum (g : Int → Int) (x : Int) : Nat → Int
  | 0 => 0
  | k + 1 => g x + walkSum g (x + 1) k

theorem walkSum_add (g : Int → Int) (x : Int) (k l : Nat) :
    walkSum g x (k + l) = walkSum g x k + walkSum g (x + k) l := by
  induction k generalizing x with
  | zero => simp [walkSum]
  | succ k ih =>
    rw [show k + 1 + l = (k + l) + 1 by omega]
    simp only [walkSum, ih]
    rw [show x + 1 + (k : Int) = x + ((k + 1 : Nat) : Int) by omega]
    omega

theorem walkSum_bound (g : Int → Int) (hg : ∀ t, -1 ≤ g t ∧ g t ≤ 1) (x : Int) (k : Nat) :
    -(k : Int) ≤ walkSum g x k ∧ walkSum g x k ≤ k := by
  induction k generalizing x with
  | zero => simp [walkSum]
  | succ k ih =>
    have := ih (x + 1)
    have := hg x
    simp only [walkSum]
    omega

theorem walkSum_const (g : Int → Int) (c : Int) (x : Int) (k : Nat)
    (h : ∀ t, x ≤ t → t < x + k → g t = c) : walkSum g x k = c * k := by
  induction k generalizing x with
  | zero => simp [walkSum]
  | succ k ih =>
    have h1 := h x (Int.le_refl _) (by omega)
    have h2 := ih (x + 1) (fun t ht1 ht2 => h t (by omega) (by omega))
    simp only [walkSum, h1, h2]
    rw [show ((k + 1 : Nat) : Int) = (k : Int) + 1 by omega, Int.mul_add, Int.mul_one]
    omega

/-- the potential, anchored at `b` -/
def phi (g : Int → Int) (b x : Int) : Int := walkSum g b (x - b).toNat

theorem phi_diff (g : Int → Int) (b x y : Int) (hbx : b ≤ x) (hxy : x ≤ y) :
    phi g b y = phi g b x + walkSum g x (y - x).toNat := by
  unfold phi
  have h1 : (y - b).toNat = (x - b).toNat + (y - x).toNat := by omega
  have h2 : b + ((x - b).toNat : Int) = x := by omega
  rw [h1, walkSum_add, h2]

theorem phi_lip (g : Int → Int) (hg : ∀ t, -1 ≤ g t ∧ g t ≤ 1) (b x y : Int) (hbx : b ≤ x)
    (hby : b ≤ y) : phi g b x - phi g b y ≤ iabs (x - y) := by
  unfold iabs
  by_cases h : x ≤ y
  · have h1 := phi_diff g b x y hbx h
    have h2 := walkSum_bound g hg x (y - x).toNat
    split <;> omega
  · have h1 := phi_diff g b y x hby (by omega)
    have h2 := walkSum_bound g hg y (x - y).toNat
    split <;> omega

theorem phi_abs (g : Int → Int) (hg : ∀ t, -1 ≤ g t ∧ g t ≤ 1) (b x : Int) (hbx : b ≤ x) :
    -(x - b) ≤ phi g b x ∧ phi g b x ≤ x - b := by
  unfold phi
  have := walkSum_bound g hg b (x - b).toNat
  omega

/-- constant slope `c` on `[x, y)` -/
theorem phi_slope (g : Int → Int) (b x y c : Int) (hbx : b ≤ x) (hxy : x ≤ y)
    (h : ∀ t, x ≤ t → t < y → g t = c) : phi g b y - phi g b x = c * (y - x) := by
  rw [phi_diff g b x y hbx hxy, walkSum_const g c x (y - x).toNat (fun t h1 h2 => h t h1 (by omega))]
  have : (((y - x).toNat : Nat) : Int) = y - x := by omega
  rw [this]; omega

/-- net supply at positions `≤ t` on the solver's instance -/
def netF (sv : Solver) (t : Int) : Int := cum sv.u sv.s t - cum sv.v sv.d t

/-- slope of the potential: against the direction of the net flow -/
def slope (sv : Solver) (t : Int) : Int := if 0 < netF sv t then -1 else if netF sv t < 0 then 1 else 0

theorem slope_bound (sv : Solver) (t : Int) : -1 ≤ slope sv t ∧ slope sv t ≤ 1 := by
  unfold slope; split
  · omega
  · split <;> omega

/-! ### tightness wherever the monotone coupling ships -/

structure SortedInst (sv : Solver) : Prop where
  wf : sv.WF
  us : List.Pairwise (fun a b => a ≤ b) sv.u
  vs : List.Pairwise (fun a b => a ≤ b) sv.v
  snn : ∀ w ∈ sv.s, 0 ≤ w
  dnn : ∀ w ∈ sv.d, 0 ≤ w
  eS : sv.S = prefixFrom 0 sv.s
  eD : sv.D = prefixFrom 0 sv.d

theorem sortedSolver_inst (pb : Problem) : SortedInst (sortedSolver pb) :=
  ⟨sortedSolver_wf pb, sorted_ord pb.u pb.s, sorted_ord pb.v pb.d,
    fun w hw => Int.le_of_lt (sortedSolver_spos pb w hw),
    fun w hw => Int.le_of_lt (sortedSolver_dpos pb w hw), rfl, rfl⟩

/-- if the cumulative intervals of source `a` and sink `b` overlap, the potential is tight on them -/
theorem phi_tight (sv : Solver) (si : SortedInst sv) (base : Int) (a b : Nat)
    (ha : a < sv.u.length) (hb : b < sv.v.length)
    (h1 : sv.D.getD b 0 < sv.S.getD (a + 1) 0) (h2 : sv.S.getD a 0 < sv.D.getD (b + 1) 0)
    (hba : base ≤ sv.u.getD a 0) (hbb : base ≤ sv.v.getD b 0) :
    phi (slope sv) base (sv.u.getD a 0) - phi (slope sv) base (sv.v.getD b 0)
      = iabs (sv.u.getD a 0 - sv.v.getD b 0) := by
  have wf := si.wf
  rw [si.eS] at h1 h2
  rw [si.eD] at h1 h2
  unfold iabs
  by_cases hxy : sv.u.getD a 0 < sv.v.getD b 0
  · have hs : ∀ t, sv.u.getD a 0 ≤ t → t < sv.v.getD b 0 → slope sv t = -1 := by
      intro t ht1 ht2
      have c1 := cum_ge sv.u sv.s t 0 si.us si.snn wf.hs a ha ht1
      have c2 := cum_le sv.v sv.d t 0 si.vs si.dnn wf.hd b hb ht2
      unfold slope netF
      rw [if_pos (by omega)]
    have := phi_slope (slope sv) base _ _ (-1) hba (by omega) hs
    split <;> omega
  · by_cases hyx : sv.v.getD b 0 < sv.u.getD a 0
    · have hs : ∀ t, sv.v.getD b 0 ≤ t → t < sv.u.getD a 0 → slope sv t = 1 := by
        intro t ht1 ht2
        have c1 := cum_le sv.u sv.s t 0 si.us si.snn wf.hs a ha ht2
        have c2 := cum_ge sv.v sv.d t 0 si.vs si.dnn wf.hd b hb ht1
        unfold slope netF
        rw [if_neg (by omega), if_pos (by omega)]
      have := phi_slope (slope sv) base _ _ 1 hbb (by omega) hs
      split <;> omega
    · have : sv.u.getD a 0 = sv.v.getD b 0 := by omega
      rw [this]
      split <;> omega

/-! ### exact balance: all positions are 0 and every sink is saturated -/

theorem balanced_p_zero (pb : Problem) (hv : checkOk pb = true) (hbal : pb.s.sum = pb.d.sum)
    (p : List Int) (hp : RunPost (sortedSolver pb) p) : ∀ i, p.getD i 0 = 0 := by
  obtain ⟨hs, hd, hsn, hdn, hle⟩ := (checkOk_iff pb).mp hv
  have wf := sortedSolver_wf pb
  have h2 : (sortedSolver pb).s.sum = pb.s.sum := sum_ord pb.u pb.s hs hsn
  have h3 : (sortedSolver pb).d.sum = pb.d.sum := sum_ord pb.v pb.d hd hdn
  have eD : (sortedSolver pb).D = prefixFrom 0 (sortedSolver pb).d := rfl
  have eS : (sortedSolver pb).S = prefixFrom 0 (sortedSolver pb).s := rfl
  have h0 : (sortedSolver pb).D.getD (sortedSolver pb).v.length 0
      - (sortedSolver pb).S.getD (sortedSolver pb).u.length 0 = 0 := by
    rw [← wf.hd, ← wf.hs, eD, eS, prefixFrom_last, prefixFrom_last]; omega
  intro i
  by_cases hi : i < p.length
  · have hm := getD_mem_of_lt p i hi
    have := hp.le _ hm
    have := hp.nn (by omega) _ hm
    omega
  · simp [List.getD_eq_getElem?_getD, List.getElem?_eq_none (by omega : p.length ≤ i)]

theorem sumTo_succ' (n : Nat) (f : Nat → Int) :
    sumTo (n + 1) f = f 0 + sumTo n (fun k => f (k + 1)) := by
  induction n with
  | zero => simp [sumTo]
  | succ n ih =>
    rw [sumTo, ih]
    simp only [sumTo]
    omega

theorem sumTo_getD (l : List Int) : sumTo l.length (fun k => l.getD k 0) = l.sum := by
  induction l with
  | nil => rfl
  | cons x xs ih =>
    rw [List.length_cons, sumTo_succ']
    simp only [List.getD_cons_zero, List.getD_cons_succ, List.sum_cons, ih]

theorem sumTo_eq_zero (n : Nat) (f : Nat → Int) (hnn : ∀ k, k < n → 0 ≤ f k) (h : sumTo n f = 0) :
    ∀ k, k < n → f k = 0 := by
  induction n with
  | zero => intro k hk; omega
  | succ n ih =>
    have h1 : 0 ≤ sumTo n f := by
      have := sumTo_le n (fun _ => 0) f (fun k hk => hnn k (by omega))
      rw [sumTo_zero] at this
      exact this
    have h2 := hnn n (by omega)
    simp only [sumTo] at h
    intro k hk
    by_cases hkn : k = n
    · subst hkn; omega
    · exact ih (fun k hk => hnn k (by omega)) (by omega) k (by omega)

theorem sumTo_sub (n : Nat) (f g : Nat → Int) :
    sumTo n (fun k => f k - g k) = sumTo n f - sumTo n g := by
  induction n with
  | zero => rfl
  | succ n ih => simp only [sumTo, ih]; omega

/-- total shipped, counted by rows = counted by columns -/
theorem sum_rows_eq_cols (n m : Nat) (plan : Plan) (h : entriesOk n m plan = true) :
    sumTo n (rowSum plan) = sumTo m (colSum plan) := by
  have h1 := dualVal_eq n m (fun _ => 1) (fun _ => 0) plan h
  have h2 := dualVal_eq n m (fun _ => 0) (fun _ => -1) plan h
  have e : dualVal (fun _ => 1) (fun _ => 0) plan = dualVal (fun _ => 0) (fun _ => -1) plan := by
    clear h h1 h2
    induction plan with
    | nil => rfl
    | cons x xs ih =>
      obtain ⟨i, j, a⟩ := x
      simp only [dualVal, ih]
      omega
  have r1 : sumTo n (fun i => (1 : Int) * rowSum plan i) = sumTo n (rowSum plan) :=
    sumTo_congr _ _ _ (fun k _ => by omega)
  have r2 : sumTo m (fun j => (0 : Int) * colSum plan j) = 0 := by
    rw [sumTo_congr m _ (fun _ => 0) (fun k _ => by omega), sumTo_zero]
  have r3 : sumTo n (fun i => (0 : Int) * rowSum plan i) = 0 := by
    rw [sumTo_congr n _ (fun _ => 0) (fun k _ => by omega), sumTo_zero]
  have r4 : sumTo m (fun j => (-1 : Int) * colSum plan j) = - sumTo m (colSum plan) := by
    have := sumTo_sub m (fun _ => 0) (colSum plan)
    rw [sumTo_zero] at this
    rw [sumTo_congr m _ (fun k => 0 - colSum plan k) (fun k _ => by omega), this]; omega
  rw [r1, r2] at h1
  rw [r3, r4] at h2
  omega

/-! ### assembly -/

theorem cellSum_nonneg (plan : Plan) (h : ∀ e ∈ plan, 0 < e.2.2) (k l : Nat) : 0 ≤ cellSum plan k l := by
  induction plan with
  | nil => simp [cellSum]
  | cons x xs ih =>
    obtain ⟨i, j, a⟩ := x
    have h1 : 0 < a := h (i, j, a) (List.mem_cons_self ..)
    have h2 := ih (fun e he => h e (List.mem_cons_of_mem _ he))
    simp only [cellSum]
    split <;> omega

theorem cellSum_pos (plan : Plan) (h : ∀ e ∈ plan, 0 < e.2.2) (e0 : Nat × Nat × Int)
    (he0 : e0 ∈ plan) : 0 < cellSum plan e0.1 e0.2.1 := by
  induction plan with
  | nil => simp at he0
  | cons x xs ih =>
    obtain ⟨i, j, a⟩ := x
    have h1 : 0 < a := h (i, j, a) (List.mem_cons_self ..)
    have hxs : ∀ e ∈ xs, 0 < e.2.2 := fun e he => h e (List.mem_cons_of_mem _ he)
    simp only [cellSum]
    rcases List.mem_cons.mp he0 with rfl | he
    · have := cellSum_nonneg xs hxs i j
      simp only [and_self, if_true]
      omega
    · have := ih hxs he
      split <;> omega

theorem iabs_nonneg (x : Int) : 0 ≤ iabs x := by unfold iabs; split <;> omega

theorem le_iabs (x : Int) : x ≤ iabs x ∧ -x ≤ iabs x := by unfold iabs; split <;> omega

theorem iabs_le_sum (l : List Int) (x : Int) (h : x ∈ l) :
    iabs x ≤ (l.map iabs).sum ∧ 0 ≤ (l.map iabs).sum := by
  induction l with
  | nil => simp at h
  | cons y ys ih =>
    have hy := iabs_nonneg y
    have h0 : 0 ≤ (ys.map iabs).sum := by
      clear ih h
      induction ys with
      | nil => simp
      | cons z zs ih => have := iabs_nonneg z; simp only [List.map_cons, List.sum_cons]; omega
    simp only [List.map_cons, List.sum_cons]
    rcases List.mem_cons.mp h with rfl | h
    · omega
    · have := (ih h).1; omega

theorem getD_map_ii (l : List Int) (f : Int → Int) (i : Nat) (h : i < l.length) :
    (l.map f).getD i 0 = f (l.getD i 0) := by
  simp [List.getD_eq_getElem?_getD, List.getElem?_eq_getElem h]

/-- with total supply = total demand every sink of a valid plan is saturated -/
theorem balanced_saturated (pb : Problem) (hs : pb.s.length = pb.u.length)
    (hd : pb.d.length = pb.v.length) (hbal : pb.s.sum = pb.d.sum) (plan : Plan)
    (hv : validPlan pb plan = true) : ∀ j, j < pb.v.length → colSum plan j = pb.d.getD j 0 := by
  obtain ⟨hok, hrow, hcol⟩ := (validPlan_iff pb plan).mp hv
  have h1 := sum_rows_eq_cols _ _ plan hok
  have h2 : sumTo pb.u.length (rowSum plan) = pb.s.sum := by
    rw [sumTo_congr _ _ (fun k => pb.s.getD k 0) hrow, ← hs, sumTo_getD]
  have h3 : sumTo pb.v.length (fun k => pb.d.getD k 0) = pb.d.sum := by rw [← hd, sumTo_getD]
  have h4 := sumTo_sub pb.v.length (fun k => pb.d.getD k 0) (colSum plan)
  have h5 := sumTo_eq_zero pb.v.length (fun k => pb.d.getD k 0 - colSum plan k)
    (fun k hk => by have := hcol k hk; omega) (by omega)
  intro j hj
  have := h5 j hj
  omega

/-- Universal optimality certificate under exact balance. -/
theorem solve_cert_balanced (pb : Problem) (hv : checkOk pb = true) (hbal : pb.s.sum = pb.d.sum) :
    ∃ plan al be, solve pb = .ok plan ∧ certOk pb plan al be = true := by
  obtain ⟨hs, hd, hsn, hdn, hle⟩ := (checkOk_iff pb).mp hv
  obtain ⟨p, plan0, erun, hp, ecs, post, es⟩ := solve_eq pb hv
  obtain ⟨plan', es', hvalid⟩ := solve_valid pb hv
  have hpl : plan' = plan0.map (ren (fun i => (ord pb.u pb.s).getD i 0)
      (fun j => (ord pb.v pb.d).getD j 0)) := by
    rw [es'] at es; exact Except.ok.inj es
  rw [hpl] at hvalid
  have si := sortedSolver_inst pb
  have hsrcLen : (ord pb.u pb.s).length = (sortedSolver pb).u.length := by simp [sortedSolver, mkSolver]
  have hsnkLen : (ord pb.v pb.d).length = (sortedSolver pb).v.length := by simp [sortedSolver, mkSolver]
  have eu : (sortedSolver pb).u = (ord pb.u pb.s).map fun i => pb.u.getD i 0 := rfl
  have ev : (sortedSolver pb).v = (ord pb.v pb.d).map fun i => pb.v.getD i 0 := rfl
  have hp0 := balanced_p_zero pb hv hbal p hp
  -- anchor and shift of the potential
  let W : Int := (pb.u.map iabs).sum + (pb.v.map iabs).sum
  have hWu : ∀ i, i < pb.u.length → -W ≤ pb.u.getD i 0 ∧ pb.u.getD i 0 ≤ W := by
    intro i hi
    have h1 := iabs_le_sum pb.u _ (getD_mem_of_lt pb.u i hi)
    have h2 : 0 ≤ (pb.v.map iabs).sum := by
      cases hvv : pb.v with
      | nil => simp
      | cons y ys => exact (iabs_le_sum (y :: ys) y (List.mem_cons_self ..)).2
    have h3 := le_iabs (pb.u.getD i 0)
    simp only [W]
    omega
  have hWv : ∀ j, j < pb.v.length → -W ≤ pb.v.getD j 0 ∧ pb.v.getD j 0 ≤ W := by
    intro j hj
    have h1 := iabs_le_sum pb.v _ (getD_mem_of_lt pb.v j hj)
    have h2 : 0 ≤ (pb.u.map iabs).sum := by
      cases huu : pb.u with
      | nil => simp
      | cons y ys => exact (iabs_le_sum (y :: ys) y (List.mem_cons_self ..)).2
    have h3 := le_iabs (pb.v.getD j 0)
    simp only [W]
    omega
  have hg : ∀ t, -1 ≤ slope (sortedSolver pb) t ∧ slope (sortedSolver pb) t ≤ 1 := slope_bound _
  refine ⟨_, pb.u.map (fun x => phi (slope (sortedSolver pb)) (-W) x + 2 * W), pb.v.map (fun x => phi (slope (sortedSolver pb)) (-W) x + 2 * W), es, ?_⟩
  simp only [certOk, Bool.and_eq_true, allBelow_iff, decide_eq_true_eq, List.all_eq_true]
  refine ⟨⟨⟨⟨hvalid, ?_⟩, ?_⟩, ?_⟩, ?_⟩
  · intro j hj
    rw [getD_map_ii _ _ j hj]
    have := phi_abs _ hg (-W) (pb.v.getD j 0) (hWv j hj).1
    have := hWv j hj
    omega
  · intro i hi j hj
    rw [getD_map_ii _ _ i hi, getD_map_ii _ _ j hj]
    have := phi_lip _ hg (-W) (pb.u.getD i 0) (pb.v.getD j 0) (hWu i hi).1 (hWv j hj).1
    unfold cst
    omega
  · intro x hx
    obtain ⟨e0, he0, rfl⟩ := List.mem_map.mp hx
    have hent := post.ent e0 he0
    have ha : e0.1 < (ord pb.u pb.s).length := by omega
    have hb : e0.2.1 < (ord pb.v pb.d).length := by omega
    have hia := ((mem_ord pb.u pb.s _).mp (getD_mem_of_ltN _ _ ha)).1
    have hjb := ((mem_ord pb.v pb.d _).mp (getD_mem_of_ltN _ _ hb)).1
    have hcell := post.cell e0.1 e0.2.1 hent.1 hent.2.1
    have hpos := cellSum_pos plan0 (fun e he => (post.ent e he).2.2) e0 he0
    rw [hcell] at hpos
    unfold ov lo Transp1d.hi at hpos
    rw [hp0 e0.1] at hpos
    have hu : (sortedSolver pb).u.getD e0.1 0 = pb.u.getD ((ord pb.u pb.s).getD e0.1 0) 0 := by
      rw [eu, getD_map_int _ _ _ ha]
    have hv' : (sortedSolver pb).v.getD e0.2.1 0 = pb.v.getD ((ord pb.v pb.d).getD e0.2.1 0) 0 := by
      rw [ev, getD_map_int _ _ _ hb]
    have ht := phi_tight (sortedSolver pb) si (-W) e0.1 e0.2.1 hent.1 hent.2.1 (by omega) (by omega)
      (by rw [hu]; exact (hWu _ hia).1) (by rw [hv']; exact (hWv _ hjb).1)
    simp only [ren]
    rw [getD_map_ii _ _ _ hia, getD_map_ii _ _ _ hjb]
    unfold cst
    rw [hu, hv'] at ht
    show phi (slope (sortedSolver pb)) (-W) _ + 2 * W - (phi (slope (sortedSolver pb)) (-W) _ + 2 * W) = _
    omega
  · intro j hj _
    exact balanced_saturated pb hs hd hbal _ hvalid j hj

/-- `solve` returns a plan of minimum cost whenever total supply = total demand. -/
theorem solve_optimal_balanced (pb : Problem) (hv : checkOk pb = true) (hbal : pb.s.sum = pb.d.sum) :
    ∃ plan, solve pb = .ok plan ∧ validPlan pb plan = true ∧
      ∀ plan', validPlan pb plan' = true → planCost pb plan ≤ planCost pb plan' := by
  obtain ⟨plan, al, be, e, hc⟩ := solve_cert_balanced pb hv hbal
  refine ⟨plan, e, ?_, fun plan' hv' => cert_optimal_core pb plan plan' al be hc hv'⟩
  simp only [certOk, Bool.and_eq_true] at hc
  exact hc.1.1.1.1

/-- `balanceDemand` followed by `solve`, on an instance whose supply is at least its demand:
the balanced problem is in the domain, exactly balanced, and solved to optimality. -/
theorem balance_then_solve_optimal (pb : Problem) (hs : pb.s.length = pb.u.length)
    (hd : pb.d.length = pb.v.length) (hsn : ∀ x ∈ pb.s, 0 ≤ x) (hdn : ∀ x ∈ pb.d, 0 ≤ x)
    (hm : 0 < pb.v.length) (hdef : pb.d.sum ≤ pb.s.sum) :
    ∃ pb' plan, balanceDemand pb = .ok pb' ∧ checkOk pb' = true ∧ pb'.s.sum = pb'.d.sum ∧
      solve pb' = .ok plan ∧ validPlan pb' plan = true ∧
      ∀ plan', validPlan pb' plan' = true → planCost pb' plan ≤ planCost pb' plan' := by
  obtain ⟨pb', e, h1, h2, h3, h4, h5, h6, _, h8⟩ := balanceDemand_spec' pb hs hd (Or.inl hm)
  have hbal := h8 hdef
  have hv : checkOk pb' = true := by
    rw [checkOk_iff]
    refine ⟨by rw [h3, h1]; exact hs, by rw [h4, h2]; exact hd, by rw [h3]; exact hsn, ?_, h5⟩
    intro x hx
    obtain ⟨j, hj, rfl⟩ := List.mem_iff_getElem.mp hx
    have e1 : pb'.d[j] = pb'.d.getD j 0 := by
      simp [List.getD_eq_getElem?_getD, List.getElem?_eq_getElem hj]
    have h0 : 0 ≤ pb.d.getD j 0 := hdn _ (getD_mem_of_lt pb.d j (by omega))
    have := h6 j
    omega
  obtain ⟨plan, e2, hval, hopt⟩ := solve_optimal_balanced pb' hv hbal
  exact ⟨pb', plan, e, hv, hbal, e2, hval, hopt⟩

end ColoVerif.Transp1d
