import ColoVerif.Proofs.IncrNetInv
/-
`IncrNetModel::finalize` (counting sort of the pins by cell) builds the exact transpose of the
net→cell CSR and establishes the invariant.
-/
namespace ColoVerif.IncrNet
open ColoVerif Model

abbrev P3 := Nat × Nat × Int

/-- the pins of `Q` that sit on cell `c` -/
def onCell (c : Nat) (Q : List P3) : List P3 := Q.filter (fun p => p.2.1 == c)
/-- number of pins of `Q` on cell `c` -/
def cnt (c : Nat) (Q : List P3) : Nat := (onCell c Q).length

theorem cnt_cons (c : Nat) (p : P3) (Q : List P3) : cnt c (p :: Q) = (if p.2.1 = c then 1 else 0) + cnt c Q := by
  unfold cnt onCell
  by_cases h : p.2.1 = c <;> simp [List.filter_cons, h] <;> omega

theorem cnt_append (c : Nat) (Q R : List P3) : cnt c (Q ++ R) = cnt c Q + cnt c R := by
  simp [cnt, onCell, List.filter_append]

theorem getD_modify' (l : List Nat) (i j : Nat) (f : Nat → Nat) :
    (l.modify i f).getD j 0 = if i = j ∧ j < l.length then f (l.getD j 0) else l.getD j 0 := by
  simp only [List.getD_eq_getElem?_getD, List.getElem?_modify]
  by_cases h : i = j
  · subst h
    by_cases h2 : i < l.length
    · simp [h2]
    · simp [h2]
  · simp [h]

theorem getD_of_le {α} (l : List α) (i : Nat) (d : α) (h : l.length ≤ i) : l.getD i d = d := by
  simp [List.getD_eq_getElem?_getD, List.getElem?_eq_none h]

/-! ### counting -/

theorem foldl_countStep_length : ∀ (Q : List P3) (L : List Nat), (Q.foldl countStep L).length = L.length
  | [], _ => rfl
  | p :: Q, L => by rw [List.foldl_cons, foldl_countStep_length Q]; simp [countStep]

theorem foldl_countStep_getD : ∀ (Q : List P3) (L : List Nat) (c : Nat), c + 1 < L.length →
    (Q.foldl countStep L).getD (c + 1) 0 = L.getD (c + 1) 0 + cnt c Q
  | [], _, _, _ => by simp [cnt, onCell]
  | p :: Q, L, c, h => by
    rw [List.foldl_cons, foldl_countStep_getD Q _ c (by simpa [countStep] using h), cnt_cons]
    unfold countStep
    rw [getD_modify']
    by_cases hp : p.2.1 = c
    · simp [hp, h]; omega
    · have : ¬ (p.2.1 + 1 = c + 1) := by omega
      simp [hp, this]

theorem foldl_countStep_getD_zero : ∀ (Q : List P3) (L : List Nat),
    (Q.foldl countStep L).getD 0 0 = L.getD 0 0
  | [], _ => rfl
  | p :: Q, L => by
    rw [List.foldl_cons, foldl_countStep_getD_zero Q]
    unfold countStep
    rw [getD_modify']
    simp

theorem sum_modify_le : ∀ (L : List Nat) (j : Nat), (L.modify j (· + 1)).sum ≤ L.sum + 1
  | [], _ => by simp
  | x :: L, 0 => by simp [List.modify_cons]; omega
  | x :: L, j + 1 => by
    have := sum_modify_le L j
    simp [List.modify_cons] at this ⊢; omega

theorem foldl_countStep_sum : ∀ (Q : List P3) (L : List Nat), (Q.foldl countStep L).sum ≤ L.sum + Q.length
  | [], _ => by simp
  | p :: Q, L => by
    rw [List.foldl_cons]
    have h1 := foldl_countStep_sum Q (countStep L p)
    have h2 : (countStep L p).sum ≤ L.sum + 1 := sum_modify_le L _
    simp only [List.length_cons]; omega

/-! ### partial sums -/

theorem partialSum_length : ∀ (l : List Nat) (acc : Nat), (partialSum acc l).length = l.length
  | [], _ => rfl
  | x :: xs, acc => by simp [partialSum, partialSum_length xs]

theorem partialSum_head (x : Nat) (xs : List Nat) (acc : Nat) :
    (partialSum acc (x :: xs)).getD 0 0 = acc + x := by simp [partialSum]

theorem partialSum_succ : ∀ (l : List Nat) (acc i : Nat), i + 1 < l.length →
    (partialSum acc l).getD (i + 1) 0 = (partialSum acc l).getD i 0 + l.getD (i + 1) 0
  | [], _, _, h => by simp at h
  | [x], _, _, h => by simp at h
  | x :: y :: ys, acc, 0, _ => by simp [partialSum]
  | x :: y :: ys, acc, i + 1, h => by
    have := partialSum_succ (y :: ys) (acc + x) i (by simpa using h)
    simpa [partialSum] using this

theorem partialSum_le : ∀ (l : List Nat) (acc i : Nat), (partialSum acc l).getD i 0 ≤ acc + l.sum
  | [], _, _ => by simp [partialSum]
  | x :: xs, acc, 0 => by simp [partialSum]
  | x :: xs, acc, i + 1 => by
    have := partialSum_le xs (acc + x) i
    simp [partialSum] at this ⊢; omega

/-- what the first half of `finalize` establishes about `cellLimits_` -/
structure IsLimits (lim : List Nat) (K : Nat) (P : List P3) (B : Nat) : Prop where
  len : lim.length = K + 1
  zero : lim.getD 0 0 = 0
  step : ∀ c, c < K → lim.getD (c + 1) 0 = lim.getD c 0 + cnt c P
  bound : ∀ i, lim.getD i 0 ≤ B

theorem cellLimits_isLimits (m : Model) : IsLimits m.computeCellLimits m.nbCells m.allPins m.allPins.length := by
  unfold computeCellLimits
  have hlen : (m.allPins.foldl countStep (List.replicate (m.nbCells + 1) 0)).length = m.nbCells + 1 := by
    rw [foldl_countStep_length]; simp
  refine ⟨by rw [partialSum_length, hlen], ?_, ?_, ?_⟩
  · generalize hC : m.allPins.foldl countStep (List.replicate (m.nbCells + 1) 0) = C at hlen
    have h0 : C.getD 0 0 = 0 := by
      rw [← hC, foldl_countStep_getD_zero]; simp
    cases C with
    | nil => simp at hlen
    | cons x xs =>
      rw [partialSum_head]
      simpa using h0
  · intro c hc
    rw [partialSum_succ _ _ _ (by omega), foldl_countStep_getD _ _ c (by simp; omega)]
    have : (List.replicate (m.nbCells + 1) 0).getD (c + 1) 0 = 0 := by
      simp only [List.getD_eq_getElem?_getD, List.getElem?_replicate]
      split <;> rfl
    rw [this]; omega
  · intro i
    have h1 := partialSum_le (m.allPins.foldl countStep (List.replicate (m.nbCells + 1) 0)) 0 i
    have h2 := foldl_countStep_sum m.allPins (List.replicate (m.nbCells + 1) 0)
    have h3 : (List.replicate (m.nbCells + 1) 0).sum = 0 := by
      generalize m.nbCells + 1 = n
      induction n with
      | zero => rfl
      | succ n ih => simp [List.replicate_succ, ih]
    omega

theorem IsLimits.mono {lim : List Nat} {K : Nat} {P : List P3} {B : Nat} (h : IsLimits lim K P B) :
    ∀ b a, a ≤ b → b ≤ K → lim.getD a 0 ≤ lim.getD b 0
  | 0, a, hab, _ => by have : a = 0 := by omega
                       subst this; exact Nat.le_refl _
  | b + 1, a, hab, hb => by
    by_cases hab' : a = b + 1
    · subst hab'; exact Nat.le_refl _
    · have := h.mono b a (by omega) (by omega)
      have := h.step b (by omega)
      omega

/-! ### filling -/

/-- state of the second loop of `finalize` after the pins `Q` -/
structure FillInv (lim : List Nat) (K : Nat) (Q : List P3) (f : Fill) : Prop where
  curLen : f.curIndex.length = K + 1
  cur : ∀ c, c < K → f.curIndex.getD c 0 = lim.getD c 0 + cnt c Q
  nets : ∀ c, c < K → ∀ t, t < cnt c Q → f.cellNets.getD (lim.getD c 0 + t) 0 = ((onCell c Q).map (·.1)).getD t 0

theorem getD_map_append_single (l : List P3) (p : P3) (t : Nat) :
    (((l ++ [p]).map (·.1)).getD t 0) = if t < l.length then (l.map (·.1)).getD t 0 else if t = l.length then p.1 else 0 := by
  simp only [List.map_append, List.getD_eq_getElem?_getD, List.map_cons, List.map_nil]
  by_cases h : t < l.length
  · rw [List.getElem?_append_left (by simpa using h)]; simp [h]
  · rw [List.getElem?_append_right (by simpa using h)]
    by_cases h2 : t = l.length
    · subst h2; simp
    · have : t - (List.map (fun x => x.1) l).length ≠ 0 := by simp; omega
      simp [h, h2]
      cases hh : t - l.length with
      | zero => omega
      | succ n => simp

theorem fillStep_inv (lim : List Nat) (K B : Nat) (P Q R : List P3) (p : P3) (f : Fill)
    (hl : IsLimits lim K P B) (hP : P = Q ++ p :: R) (hp : p.2.1 < K) (hB : f.cellNets.length = B)
    (h : FillInv lim K Q f) : FillInv lim K (Q ++ [p]) (fillStep f p) ∧ (fillStep f p).cellNets.length = B := by
  have hcntP : ∀ c, cnt c P = cnt c Q + (if p.2.1 = c then 1 else 0) + cnt c R := by
    intro c; rw [hP, cnt_append, cnt_cons]; omega
  have hind : f.curIndex.getD p.2.1 0 = lim.getD p.2.1 0 + cnt p.2.1 Q := h.cur _ hp
  have hnext := hl.step p.2.1 hp
  have hc0 := hcntP p.2.1
  simp only [if_true] at hc0
  have hindB : f.curIndex.getD p.2.1 0 < B := by
    have := hl.bound (p.2.1 + 1); omega
  refine ⟨⟨?_, ?_, ?_⟩, ?_⟩
  · simp [fillStep, h.curLen]
  · intro c hc
    show (f.curIndex.modify p.2.1 (· + 1)).getD c 0 = _
    rw [getD_modify', cnt_append, cnt_cons, h.cur c hc]
    have hnil : cnt c ([] : List P3) = 0 := rfl
    by_cases hpc : p.2.1 = c
    · subst hpc
      rw [if_pos ⟨rfl, by rw [h.curLen]; omega⟩, if_pos rfl, hnil]; omega
    · rw [if_neg (fun hh => hpc hh.1), if_neg hpc, hnil]; omega
  · intro c hc t ht
    show (f.cellNets.set (f.curIndex.getD p.2.1 0) p.1).getD (lim.getD c 0 + t) 0 = _
    rw [cnt_append, cnt_cons] at ht
    by_cases hpc : p.2.1 = c
    · subst hpc
      have hon : onCell p.2.1 (Q ++ [p]) = onCell p.2.1 Q ++ [p] := by simp [onCell, List.filter_append]
      rw [hon, getD_map_append_single]
      by_cases ht2 : t < cnt p.2.1 Q
      · rw [getD_set_ne' _ _ _ _ _ (by rw [hind]; omega)]
        have : t < (onCell p.2.1 Q).length := ht2
        rw [if_pos this]
        exact h.nets _ hc t ht2
      · have hnil : cnt p.2.1 ([] : List P3) = 0 := rfl
        rw [if_pos rfl, hnil] at ht
        have hteq : t = cnt p.2.1 Q := by omega
        rw [hind, ← hteq, getD_set_eq' _ _ _ _ (by rw [hB, hteq, ← hind]; exact hindB)]
        have h1 : ¬ t < (onCell p.2.1 Q).length := ht2
        have h2 : t = (onCell p.2.1 Q).length := hteq
        rw [if_neg h1, if_pos h2]
    · have hon : onCell c (Q ++ [p]) = onCell c Q := by simp [onCell, List.filter_append, hpc]
      have hnil : cnt c ([] : List P3) = 0 := rfl
      have ht' : t < cnt c Q := by rw [if_neg hpc, hnil] at ht; omega
      rw [hon]
      have hne : f.curIndex.getD p.2.1 0 ≠ lim.getD c 0 + t := by
        rw [hind]
        have hcP := hcntP c
        simp only [hpc, if_false] at hcP
        have hstepc := hl.step c hc
        by_cases hlt : c < p.2.1
        · have := hl.mono p.2.1 (c + 1) (by omega) (by omega); omega
        · have := hl.mono c (p.2.1 + 1) (by omega) (by omega); omega
      rw [getD_set_ne' _ _ _ _ _ hne]
      exact h.nets c hc t ht'
  · simp [fillStep, hB]

theorem foldl_fillStep_inv (lim : List Nat) (K B : Nat) (P : List P3) (hl : IsLimits lim K P B)
    (hrange : ∀ q ∈ P, q.2.1 < K) : ∀ (R Q : List P3) (f : Fill), P = Q ++ R → f.cellNets.length = B →
    FillInv lim K Q f → FillInv lim K P (R.foldl fillStep f)
  | [], Q, f, hP, _, h => by simpa [hP] using h
  | p :: R, Q, f, hP, hB, h => by
    have hp : p.2.1 < K := hrange p (by rw [hP]; simp)
    have := fillStep_inv lim K B P Q R p f hl hP hp hB h
    exact foldl_fillStep_inv lim K B P hl hrange R (Q ++ [p]) (fillStep f p) (by simp [hP]) this.2 this.1

/-! ### finalize -/

theorem finalize_allPins (m : Model) : m.finalize.allPins = m.allPins := rfl
theorem finalize_nbNets (m : Model) : m.finalize.nbNets = m.nbNets := rfl

theorem finalize_inv (m : Model) : Inv m.finalize := by
  rw [inv_iff_consistent]
  exact ⟨rfl, rfl⟩

/-- `finalize` builds the exact transpose, provided the pin cells are in range and the pin
array is at least as long as the number of pins (both hold for every model produced by
`IncrNetModelBuilder::build`, see `IncrNetBuild`). -/
theorem finalize_wf (m : Model) (hrange : ∀ q ∈ m.allPins, q.2.1 < m.nbCells)
    (hsize : m.allPins.length ≤ m.nbPins) : WF m.finalize := by
  intro cell
  have hl0 := cellLimits_isLimits m
  have hl : IsLimits m.computeCellLimits m.nbCells m.allPins m.nbPins :=
    ⟨hl0.len, hl0.zero, hl0.step, fun i => Nat.le_trans (hl0.bound i) hsize⟩
  have hfill := foldl_fillStep_inv m.computeCellLimits m.nbCells m.nbPins m.allPins hl hrange m.allPins []
    ⟨m.computeCellLimits, List.replicate m.nbPins 0, List.replicate m.nbPins 0⟩ (by simp) (by simp)
    ⟨hl.len, fun c _ => by simp [cnt, onCell], fun c _ t ht => by simp [cnt, onCell] at ht⟩
  rw [finalize_allPins]
  show (List.range (m.computeCellLimits.getD (cell + 1) 0 - m.computeCellLimits.getD cell 0)).map
      (fun i => (m.allPins.foldl fillStep ⟨m.computeCellLimits, List.replicate m.nbPins 0,
        List.replicate m.nbPins 0⟩).cellNets.getD (m.computeCellLimits.getD cell 0 + i) 0) = _
  by_cases hc : cell < m.nbCells
  · rw [hl.step cell hc]
    have hlen : m.computeCellLimits.getD cell 0 + cnt cell m.allPins - m.computeCellLimits.getD cell 0
        = ((onCell cell m.allPins).map (·.1)).length := by simp [cnt]
    rw [hlen]
    apply List.ext_getElem
    · simp [onCell]
    · intro i h1 h2
      simp only [List.length_map, List.length_range] at h1
      have := hfill.nets cell hc i (by simpa [cnt] using h1)
      simp only [List.getElem_map, List.getElem_range]
      rw [this]
      have h3 : i < (m.allPins.filter (fun p => p.2.1 == cell)).length := h1
      simp [List.getD_eq_getElem?_getD, onCell, h3]
  · have h1 : m.computeCellLimits.getD (cell + 1) 0 = 0 := getD_of_le _ _ _ (by rw [hl.len]; omega)
    rw [h1]
    have : m.allPins.filter (fun p => p.2.1 == cell) = [] := by
      rw [List.filter_eq_nil_iff]
      intro q hq
      have := hrange q hq
      simp; omega
    simp [this]

end ColoVerif.IncrNet
