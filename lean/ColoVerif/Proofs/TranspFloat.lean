import ColoVerif.Proofs.F64
import ColoVerif.Proofs.TranspCert
import ColoVerif.Model.TranspFloat
/-
C13, the floating-point side: facts about `costsFromFloats` (Model/TranspFloat.lean), the exact model of
the fixed-point scaling of `TransportationProblem`'s `float` constructor.

* `fcMaxVal_spec`     `maxVal` is the maximum of `1e-8f` and all entries;
* `fcFactor_bounds`   for `1e-8f ≤ M ≤ FLT_MAX`, `1 ≤ n ≤ 2^31`: every intermediate of the three binary64
                      divisions is a normal number, the factor is positive,
                      `n·M·factor < 2^29` and `factor ≥ INT_MAX/(4 n M)·(1 − 2^-53)²`;
* `fcFixed_bounds`    `−n·M ≤ c ≤ M  →  |fixed c| ≤ 2^29` and `|fixed c − c·factor| ≤ 1/2 + 2^-24`;
* `costsFromFloats_get2`  entry-wise description of the stored matrix.
-/
namespace ColoVerif.Transp
open ColoVerif.F64

/-! ### `maxVal` -/

lemma fcMax2_ge_left (a b : Rat) : a ≤ fcMax2 a b := by
  unfold fcMax2; split <;> [exact le_of_lt ‹_›; exact le_refl _]

lemma fcMax2_ge_right (a b : Rat) : b ≤ fcMax2 a b := by
  unfold fcMax2; split <;> [exact le_refl _; exact not_lt.mp ‹_›]

lemma fcMax2_le {a b B : Rat} (ha : a ≤ B) (hb : b ≤ B) : fcMax2 a b ≤ B := by
  unfold fcMax2; split <;> assumption

lemma fcFoldRow_spec (r : List Rat) : ∀ (m : Rat),
    m ≤ r.foldl (fun m d => fcMax2 d m) m ∧ (∀ d, d ∈ r → d ≤ r.foldl (fun m d => fcMax2 d m) m) ∧
    ∀ B, m ≤ B → (∀ d, d ∈ r → d ≤ B) → r.foldl (fun m d => fcMax2 d m) m ≤ B := by
  induction r with
  | nil => intro m; exact ⟨le_refl _, fun d hd => by simp at hd, fun B h _ => h⟩
  | cons x xs ih =>
    intro m
    simp only [List.foldl_cons]
    obtain ⟨h1, h2, h3⟩ := ih (fcMax2 x m)
    refine ⟨le_trans (fcMax2_ge_right x m) h1, fun d hd => ?_, fun B hB hd => ?_⟩
    · rcases List.mem_cons.mp hd with e | e
      · rw [e]; exact le_trans (fcMax2_ge_left x m) h1
      · exact h2 d e
    · exact h3 B (fcMax2_le (hd x (by simp)) hB) (fun d hd' => hd d (by simp [hd']))

lemma fcFoldMat_spec (fc : List (List Rat)) : ∀ (m : Rat),
    m ≤ fc.foldl (fun m r => r.foldl (fun m d => fcMax2 d m) m) m ∧
    (∀ r, r ∈ fc → ∀ d, d ∈ r → d ≤ fc.foldl (fun m r => r.foldl (fun m d => fcMax2 d m) m) m) ∧
    ∀ B, m ≤ B → (∀ r, r ∈ fc → ∀ d, d ∈ r → d ≤ B) →
      fc.foldl (fun m r => r.foldl (fun m d => fcMax2 d m) m) m ≤ B := by
  induction fc with
  | nil => intro m; exact ⟨le_refl _, fun r hr => by simp at hr, fun B h _ => h⟩
  | cons x xs ih =>
    intro m
    simp only [List.foldl_cons]
    obtain ⟨g1, g2, g3⟩ := fcFoldRow_spec x m
    obtain ⟨h1, h2, h3⟩ := ih (x.foldl (fun m d => fcMax2 d m) m)
    refine ⟨le_trans g1 h1, fun r hr d hd => ?_, fun B hB hd => ?_⟩
    · rcases List.mem_cons.mp hr with e | e
      · rw [e] at hd; exact le_trans (g2 d hd) h1
      · exact h2 r e d hd
    · exact h3 B (g3 B hB (fun d hd' => hd x (by simp) d hd')) (fun r hr d hd' => hd r (by simp [hr]) d hd')

/-- `maxVal = max(1e-8f, all entries)` -/
lemma fcMaxVal_spec (fc : List (List Rat)) :
    fcEps ≤ fcMaxVal fc ∧ (∀ r, r ∈ fc → ∀ d, d ∈ r → d ≤ fcMaxVal fc) ∧
    ∀ B, fcEps ≤ B → (∀ r, r ∈ fc → ∀ d, d ∈ r → d ≤ B) → fcMaxVal fc ≤ B :=
  fcFoldMat_spec fc fcEps

/-! ### the conversion factor -/

/-- the relative rounding unit of binary64 -/
def u53 : Rat := 1 / 9007199254740992

lemma fcFactor_bounds (M : Rat) (n : Nat) (hM : fcEps ≤ M) (hMf : M ≤ fcFltMax) (hn1 : 1 ≤ n)
    (hn : n ≤ 2147483648) :
    0 < fcFactor M n ∧ (n : Rat) * M * fcFactor M n < 536870912 ∧
    2147483647 / M / 4 / (n : Rat) * (1 - u53) * (1 - u53) ≤ fcFactor M n := by
  have heps : (0 : Rat) < fcEps := by unfold fcEps; norm_num
  have hM0 : 0 < M := lt_of_lt_of_le heps hM
  have hnR : (1 : Rat) ≤ (n : Rat) := by exact_mod_cast hn1
  have hnR' : (n : Rat) ≤ 2147483648 := by exact_mod_cast hn
  have hn0 : (0 : Rat) < (n : Rat) := by linarith
  have hT : (2 : Rat) ^ (-140 : Int) = 1 / 1393796574908163946345982392040522594123776 := by norm_num
  have hsmall : (2 : Rat) ^ (-1022 : Int) ≤ (2 : Rat) ^ (-200 : Int) :=
    zpow_le_zpow_right₀ (by norm_num) (by norm_num)
  have hsmall' : (2 : Rat) ^ (-1020 : Int) ≤ (2 : Rat) ^ (-200 : Int) :=
    zpow_le_zpow_right₀ (by norm_num) (by norm_num)
  have hT200 : (2 : Rat) ^ (-200 : Int) = 1 / 1606938044258990275541962092341162602522202993782792835301376 := by
    norm_num
  -- a0 = INT_MAX / maxVal is a normal number
  have ha0 : (2 : Rat) ^ (-140 : Int) ≤ 2147483647 / M := by
    rw [le_div_iff₀ hM0, hT]
    have : (1 : Rat) / 1393796574908163946345982392040522594123776 * M
        ≤ 1 / 1393796574908163946345982392040522594123776 * fcFltMax :=
      mul_le_mul_of_nonneg_left hMf (by norm_num)
    have h2 : (1 : Rat) / 1393796574908163946345982392040522594123776 * fcFltMax ≤ 2147483647 := by
      unfold fcFltMax; norm_num
    linarith
  have h200_140 : (2 : Rat) ^ (-200 : Int) ≤ (2 : Rat) ^ (-140 : Int) :=
    zpow_le_zpow_right₀ (by norm_num) (by norm_num)
  have ha0n : (2 : Rat) ^ (-1022 : Int) ≤ 2147483647 / M := le_trans hsmall (le_trans h200_140 ha0)
  have ha0q : (2 : Rat) ^ (-1020 : Int) ≤ 2147483647 / M := le_trans hsmall' (le_trans h200_140 ha0)
  have hc0le := f64_rel_le ha0n
  have hc0ge' := f64_rel_ge ha0n
  have hc0ge : (2 : Rat) ^ (-140 : Int) ≤ f64 (2147483647 / M) := f64_ge_pow2 (by norm_num) ha0
  have hq := f64_quarter ha0q
  -- c1 / n is a normal number
  have hc1n : (2 : Rat) ^ (-1022 : Int) ≤ f64 (2147483647 / M) / 4 / (n : Rat) := by
    refine le_trans hsmall ?_
    rw [le_div_iff₀ hn0, hT200]
    rw [hT] at hc0ge
    have : (1 : Rat) / 1606938044258990275541962092341162602522202993782792835301376 * (n : Rat)
        ≤ 1 / 1606938044258990275541962092341162602522202993782792835301376 * 2147483648 :=
      mul_le_mul_of_nonneg_left hnR' (by norm_num)
    have h3 : (1 : Rat) / 1606938044258990275541962092341162602522202993782792835301376 * 2147483648
        ≤ 1 / 1393796574908163946345982392040522594123776 / 4 := by norm_num
    linarith
  have hc2le := f64_rel_le hc1n
  have hc2ge := f64_rel_ge hc1n
  have hc0pos : 0 < f64 (2147483647 / M) := lt_of_lt_of_le (by positivity) hc0ge
  have hc1pos : 0 < f64 (2147483647 / M) / 4 / (n : Rat) := lt_of_lt_of_le (by positivity) hc1n
  unfold fcFactor
  rw [hq]
  rw [two_zpow_neg53] at hc0le hc2le hc0ge' hc2ge
  refine ⟨?_, ?_, ?_⟩
  · exact lt_of_lt_of_le (by positivity) (f64_ge_pow2 (k := -1022) (by norm_num) hc1n)
  · have h1 : f64 (f64 (2147483647 / M) / 4 / (n : Rat))
        ≤ 2147483647 / M * (1 + 1 / 9007199254740992) / 4 / (n : Rat) * (1 + 1 / 9007199254740992) := by
      refine le_trans hc2le ?_
      apply mul_le_mul_of_nonneg_right _ (by norm_num)
      apply div_le_div_of_nonneg_right _ (le_of_lt hn0)
      apply div_le_div_of_nonneg_right hc0le (by norm_num)
    have hnM : 0 < (n : Rat) * M := mul_pos hn0 hM0
    have h2 : (n : Rat) * M * f64 (f64 (2147483647 / M) / 4 / (n : Rat))
        ≤ (n : Rat) * M * (2147483647 / M * (1 + 1 / 9007199254740992) / 4 / (n : Rat) * (1 + 1 / 9007199254740992)) :=
      mul_le_mul_of_nonneg_left h1 (le_of_lt hnM)
    have h3 : (n : Rat) * M * (2147483647 / M * (1 + 1 / 9007199254740992) / 4 / (n : Rat) * (1 + 1 / 9007199254740992))
        = 2147483647 * (1 + 1 / 9007199254740992) * (1 + 1 / 9007199254740992) / 4 := by
      have hMM : M * (2147483647 / M) = 2147483647 := by
        rw [mul_div_assoc']; exact mul_div_cancel_left₀ _ (ne_of_gt hM0)
      have hnn : (n : Rat) / (n : Rat) = 1 := div_self (ne_of_gt hn0)
      have e : (n : Rat) * M * (2147483647 / M * (1 + 1 / 9007199254740992) / 4 / (n : Rat) * (1 + 1 / 9007199254740992))
          = (M * (2147483647 / M)) * ((n : Rat) / (n : Rat)) * (1 + 1 / 9007199254740992) * (1 + 1 / 9007199254740992) / 4 := by
        ring
      rw [e, hMM, hnn]; ring
    have h5 : (2147483647 : Rat) * (1 + 1 / 9007199254740992) * (1 + 1 / 9007199254740992) / 4 < 536870912 := by
      norm_num
    linarith
  · unfold u53
    refine le_trans ?_ hc2ge
    apply mul_le_mul_of_nonneg_right _ (by norm_num)
    have e : 2147483647 / M / 4 / (n : Rat) * (1 - 1 / 9007199254740992)
        = 2147483647 / M * (1 - 1 / 9007199254740992) / 4 / (n : Rat) := by ring
    rw [e]
    apply div_le_div_of_nonneg_right _ (le_of_lt hn0)
    exact div_le_div_of_nonneg_right hc0ge' (by norm_num)

/-! ### one entry -/

/-- binary64 rounding moves a value of magnitude at most `2^29` by at most `2^-24` -/
lemma f64_abs_err_small (x : Rat) (hx : |x| ≤ 536870912) : |f64 x - x| ≤ 1 / 16777216 := by
  rcases le_or_gt ((2 : Rat) ^ (-1022 : Int)) |x| with h | h
  · have h1 := f64_abs_rel h
    rw [two_zpow_neg53] at h1
    have : |x| * (1 / 9007199254740992) ≤ 536870912 * (1 / 9007199254740992) :=
      mul_le_mul_of_nonneg_right hx (by norm_num)
    have e : (536870912 : Rat) * (1 / 9007199254740992) = 1 / 16777216 := by norm_num
    linarith
  · have hp : (2 : Rat) ^ (-1022 : Int) ≤ 1 / 67108864 := by
      have : (2 : Rat) ^ (-1022 : Int) ≤ (2 : Rat) ^ (-26 : Int) :=
        zpow_le_zpow_right₀ (by norm_num) (by norm_num)
      have e : (2 : Rat) ^ (-26 : Int) = 1 / 67108864 := by norm_num
      rw [e] at this; exact this
    obtain ⟨hl, hr⟩ := abs_lt.mp h
    have h1 : f64 x ≤ (2 : Rat) ^ (-1022 : Int) := by
      have := f64_mono (le_of_lt hr)
      rwa [f64_pow2 (by norm_num)] at this
    have h2 : -(2 : Rat) ^ (-1022 : Int) ≤ f64 x := by
      have := f64_mono (le_of_lt hl)
      rwa [f64_neg, f64_pow2 (by norm_num)] at this
    rw [abs_le]
    constructor <;> linarith

lemma fcFixed_bounds (M : Rat) (n : Nat) (hM : fcEps ≤ M) (hMf : M ≤ fcFltMax) (hn1 : 1 ≤ n)
    (hn : n ≤ 2147483648) (c : Rat) (hlo : -((n : Rat) * M) ≤ c) (hhi : c ≤ M) :
    -536870912 ≤ fcFixed (fcFactor M n) c ∧ fcFixed (fcFactor M n) c ≤ 536870912 ∧
    |(fcFixed (fcFactor M n) c : Rat) - c * fcFactor M n| ≤ 1 / 2 + 1 / 16777216 := by
  obtain ⟨hcf0, hcfM, _⟩ := fcFactor_bounds M n hM hMf hn1 hn
  have heps : (0 : Rat) < fcEps := by unfold fcEps; norm_num
  have hM0 : 0 < M := lt_of_lt_of_le heps hM
  have hnR : (1 : Rat) ≤ (n : Rat) := by exact_mod_cast hn1
  have hMn : M ≤ (n : Rat) * M := by nlinarith
  have h1 : c * fcFactor M n ≤ 536870912 := by
    have : c * fcFactor M n ≤ (n : Rat) * M * fcFactor M n :=
      mul_le_mul_of_nonneg_right (le_trans hhi hMn) (le_of_lt hcf0)
    linarith
  have h2 : -536870912 ≤ c * fcFactor M n := by
    have : -((n : Rat) * M) * fcFactor M n ≤ c * fcFactor M n :=
      mul_le_mul_of_nonneg_right hlo (le_of_lt hcf0)
    have e : -((n : Rat) * M) * fcFactor M n = -((n : Rat) * M * fcFactor M n) := by ring
    linarith
  have habs : |c * fcFactor M n| ≤ 536870912 := abs_le.mpr ⟨h2, h1⟩
  have h3 : f64 (c * fcFactor M n) ≤ 536870912 := by
    have := f64_mono (show c * fcFactor M n ≤ ((536870912 : Int) : Rat) by push_cast; linarith)
    rwa [f64_exact_int 536870912 (by norm_num)] at this
  have h4 : -536870912 ≤ f64 (c * fcFactor M n) := by
    have := f64_mono (show ((-536870912 : Int) : Rat) ≤ c * fcFactor M n by push_cast; linarith)
    rw [f64_exact_int (-536870912) (by norm_num)] at this
    push_cast at this
    exact this
  have herr := f64_abs_err_small _ habs
  obtain ⟨e1, e2⟩ := abs_le.mp herr
  have r1 := roundAway_le_add_half (f64 (c * fcFactor M n))
  have r2 := sub_half_le_roundAway (f64 (c * fcFactor M n))
  unfold fcFixed
  refine ⟨?_, ?_, ?_⟩
  · have := le_roundAway (q := f64 (c * fcFactor M n)) (n := -536870912) (by push_cast; linarith)
    exact this
  · exact roundAway_le (by push_cast; linarith)
  · rw [abs_le]
    constructor <;> linarith

lemma fcFixed_zero (cf : Rat) : fcFixed cf 0 = 0 := by
  unfold fcFixed
  rw [zero_mul, f64_zero]
  exact roundAway_int 0

/-! ### the matrix -/

lemma getD_map_fcFixed (cf : Rat) (r : List Rat) (j : Nat) :
    (r.map (fcFixed cf)).getD j 0 = fcFixed cf (r.getD j 0) := by
  simp only [List.getD_eq_getElem?_getD, List.getElem?_map]
  cases r[j]? <;> simp [fcFixed_zero]

lemma getD_map_rows (cf : Rat) (fc : List (List Rat)) (i : Nat) :
    (fc.map (fun r => r.map (fcFixed cf))).getD i [] = (fc.getD i []).map (fcFixed cf) := by
  simp only [List.getD_eq_getElem?_getD, List.getElem?_map]
  cases fc[i]? <;> simp

lemma costsFromFloats_get2 (fc : List (List Rat)) (i j : Nat) :
    get2 (costsFromFloats fc) i j = fcFixed (fcFactor (fcMaxVal fc) fc.length) (getQ2 fc i j) := by
  unfold get2 getQ2 costsFromFloats scaleRows
  rw [getD_map_rows, getD_map_fcFixed]

lemma getQ2_mem_or_zero (fc : List (List Rat)) (i j : Nat) :
    getQ2 fc i j = 0 ∨ ∃ r, r ∈ fc ∧ getQ2 fc i j ∈ r := by
  unfold getQ2
  by_cases hi : i < fc.length
  · by_cases hj : j < (fc.getD i []).length
    · right
      have e1 : fc.getD i [] = fc[i] := by simp [List.getD_eq_getElem?_getD, hi]
      rw [e1] at hj ⊢
      have e2 : (fc[i]).getD j 0 = (fc[i])[j] := by simp [List.getD_eq_getElem?_getD, hj]
      rw [e2]
      exact ⟨_, List.getElem_mem hi, List.getElem_mem hj⟩
    · left
      rw [List.getD_eq_getElem?_getD, List.getElem?_eq_none (Nat.not_lt.mp hj)]; rfl
  · left
    simp [List.getD_eq_getElem?_getD, Nat.not_lt.mp hi]

/-- the propositional content of `floatCostsOk` -/
structure FloatCostsOk (fc : List (List Rat)) : Prop where
  rows : fc.length ≤ 2147483648
  finite : ∀ r, r ∈ fc → ∀ c, c ∈ r → c ≤ fcFltMax
  lower : ∀ r, r ∈ fc → ∀ c, c ∈ r → -((fc.length : Rat) * fcMaxVal fc) ≤ c

lemma floatCostsOk_iff (fc : List (List Rat)) : floatCostsOk fc = true ↔ FloatCostsOk fc := by
  simp only [floatCostsOk, allBetween, Bool.and_eq_true, decide_eq_true_eq, List.all_eq_true]
  constructor
  · rintro ⟨h1, h2⟩
    exact ⟨h1, fun r hr c hc => (h2 r hr c hc).1, fun r hr c hc => (h2 r hr c hc).2⟩
  · rintro ⟨h1, h2, h3⟩
    exact ⟨h1, fun r hr c hc => ⟨h2 r hr c hc, h3 r hr c hc⟩⟩

/-- non-negative finite costs are in the domain -/
lemma floatCostsOk_of_nonneg (fc : List (List Rat)) (hn : fc.length ≤ 2147483648)
    (h : ∀ r, r ∈ fc → ∀ c, c ∈ r → 0 ≤ c ∧ c ≤ fcFltMax) : FloatCostsOk fc := by
  refine ⟨hn, fun r hr c hc => (h r hr c hc).2, fun r hr c hc => ?_⟩
  have heps : (0 : Rat) < fcEps := by unfold fcEps; norm_num
  have hM : 0 < fcMaxVal fc := lt_of_lt_of_le heps (fcMaxVal_spec fc).1
  have : (0 : Rat) ≤ (fc.length : Rat) := by positivity
  have := (h r hr c hc).1
  nlinarith

/-- **every entry of the stored matrix**, on the domain: `|cost| ≤ 2^29` and within `1/2 + 2^-24` of
`c·factor` -/
lemma costsFromFloats_entry (fc : List (List Rat)) (h : FloatCostsOk fc) (hn1 : 1 ≤ fc.length) (i j : Nat) :
    -536870912 ≤ get2 (costsFromFloats fc) i j ∧ get2 (costsFromFloats fc) i j ≤ 536870912 ∧
    |(get2 (costsFromFloats fc) i j : Rat) - getQ2 fc i j * fcFactor (fcMaxVal fc) fc.length|
      ≤ 1 / 2 + 1 / 16777216 := by
  obtain ⟨m1, m2, m3⟩ := fcMaxVal_spec fc
  have heps : fcEps ≤ fcFltMax := by unfold fcEps fcFltMax; norm_num
  have heps0 : (0 : Rat) < fcEps := by unfold fcEps; norm_num
  have hM0 : 0 < fcMaxVal fc := lt_of_lt_of_le heps0 m1
  have hMf : fcMaxVal fc ≤ fcFltMax := m3 fcFltMax heps h.finite
  rw [costsFromFloats_get2]
  have hnR : (0 : Rat) ≤ (fc.length : Rat) := by positivity
  rcases getQ2_mem_or_zero fc i j with e | ⟨r, hr, hc⟩
  · rw [e]
    exact fcFixed_bounds _ _ m1 hMf hn1 h.rows 0 (by nlinarith) (le_of_lt hM0)
  · exact fcFixed_bounds _ _ m1 hMf hn1 h.rows _ (h.lower r hr _ hc) (m2 r hr _ hc)

end ColoVerif.Transp
