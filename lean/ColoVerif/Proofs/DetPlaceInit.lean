import ColoVerif.Proofs.DetPlaceInv
/-
The constructor of `DetailedPlacement` (helper lemmas for Properties/C02 `inv_init`).

`linkRow` / `linkRows` write the doubly linked lists from the per-row cell lists computed by
`assignCells`.  `Chain t r p cs` says that in `t` the cells `cs` are linked one after the other in row
`r`, after predecessor `p`, up to the row's last cell; it is what `linkRow` establishes, it survives
the linking of the other rows (the lists are disjoint), and the link part of `Inv` is read off it.
-/
namespace ColoVerif.DetPlace
open State

/-- the fields the linking never writes -/
structure SameGeom (s t : State) : Prop where
  rows : t.rows = s.rows
  nCells : t.nCells = s.nCells
  width : t.width = s.width
  x : t.x = s.x
  y : t.y = s.y
  orient : t.orient = s.orient
  pol : t.pol = s.pol

theorem SameGeom.refl (s : State) : SameGeom s s := ⟨rfl, rfl, rfl, rfl, rfl, rfl, rfl⟩
theorem SameGeom.trans {s t u : State} (a : SameGeom s t) (b : SameGeom t u) : SameGeom s u :=
  ⟨b.rows.trans a.rows, b.nCells.trans a.nCells, b.width.trans a.width, b.x.trans a.x, b.y.trans a.y,
   b.orient.trans a.orient, b.pol.trans a.pol⟩

/-- the cells `cs` are linked in this order in row `r` after `p`; the last one ends the row -/
def Chain (t : State) (r : Int) : Int → List Int → Prop
  | _, [] => True
  | p, [c] => t.row c = r ∧ t.pred c = p ∧ t.next c = -1 ∧ t.rowLast r = c
  | p, c :: c' :: rest =>
    t.row c = r ∧ t.pred c = p ∧ t.next c = c' ∧ t.x c + t.width c ≤ t.x c' ∧ Chain t r c (c' :: rest)

theorem Chain.head {t : State} {r p c : Int} {rest : List Int} (h : Chain t r p (c :: rest)) :
    t.row c = r ∧ t.pred c = p := by
  cases rest with
  | nil => exact ⟨h.1, h.2.1⟩
  | cons c' rest => exact ⟨h.1, h.2.1⟩

/-- `Chain` only reads row / pred / next of its cells, the abscissas, the widths and `rowLast r` -/
theorem Chain.congr {t u : State} {r : Int} (hx : u.x = t.x) (hw : u.width = t.width)
    (hl : u.rowLast r = t.rowLast r) : ∀ (cs : List Int) (p : Int),
    (∀ d ∈ cs, u.row d = t.row d ∧ u.pred d = t.pred d ∧ u.next d = t.next d) → Chain t r p cs → Chain u r p cs
  | [], _, _, _ => trivial
  | [c], p, hd, h => by
    obtain ⟨e1, e2, e3⟩ := hd c (by simp)
    obtain ⟨h1, h2, h3, h4⟩ := h
    exact ⟨e1.trans h1, e2.trans h2, e3.trans h3, hl.trans h4⟩
  | c :: c' :: rest, p, hd, h => by
    obtain ⟨e1, e2, e3⟩ := hd c (by simp)
    obtain ⟨h1, h2, h3, h4, h5⟩ := h
    refine ⟨e1.trans h1, e2.trans h2, e3.trans h3, by rw [hx, hw]; exact h4, ?_⟩
    exact Chain.congr hx hw hl (c' :: rest) c (fun d hd' => hd d (List.mem_cons_of_mem _ hd')) h5

/-- the row's last cell is the last of the chain -/
theorem Chain.last {t : State} {r : Int} : ∀ (cs : List Int) (p : Int), cs ≠ [] → Chain t r p cs →
    ∃ l ∈ cs, t.rowLast r = l ∧ t.next l = -1 ∧ t.row l = r
  | [], _, hne, _ => absurd rfl hne
  | [c], _, _, h => ⟨c, by simp, h.2.2.2, h.2.2.1, h.1⟩
  | c :: c' :: rest, _, _, h => by
    obtain ⟨l, hl, h1⟩ := Chain.last (c' :: rest) c (by simp) h.2.2.2.2
    exact ⟨l, List.mem_cons_of_mem _ hl, h1⟩

/-- the link part of `LinkOk` for a cell of row `r` -/
def LinkPart (t : State) (r c : Int) : Prop :=
  t.row c = r ∧
  (t.pred c ≠ -1 → t.validCell (t.pred c) ∧ t.row (t.pred c) = r ∧
      t.x (t.pred c) + t.width (t.pred c) ≤ t.x c ∧ t.next (t.pred c) = c) ∧
  (t.pred c = -1 → t.rowFirst r = c) ∧
  (t.next c ≠ -1 → t.validCell (t.next c) ∧ t.row (t.next c) = r ∧
      t.x c + t.width c ≤ t.x (t.next c) ∧ t.pred (t.next c) = c) ∧
  (t.next c = -1 → t.rowLast r = c)

theorem Chain.linkPart {t : State} {r : Int} : ∀ (cs : List Int) (p : Int), Chain t r p cs →
    (∀ c ∈ cs, t.validCell c) →
    (∀ c rest, cs = c :: rest →
      (p = -1 → t.rowFirst r = c) ∧
      (p ≠ -1 → t.validCell p ∧ t.row p = r ∧ t.x p + t.width p ≤ t.x c ∧ t.next p = c)) →
    ∀ c ∈ cs, LinkPart t r c
  | [], _, _, _, _ => by simp
  | [c], p, h, hv, hp => by
    intro d hd
    simp only [List.mem_singleton] at hd
    subst hd
    obtain ⟨h1, h2, h3, h4⟩ := h
    obtain ⟨p1, p2⟩ := hp d [] rfl
    refine ⟨h1, ?_, ?_, ?_, ?_⟩
    · intro hh; rw [h2] at hh ⊢; exact p2 hh
    · intro hh; rw [h2] at hh; exact p1 hh
    · intro hh; exact absurd h3 hh
    · intro _; exact h4
  | c :: c' :: rest, p, h, hv, hp => by
    obtain ⟨h1, h2, h3, h4, h5⟩ := h
    obtain ⟨p1, p2⟩ := hp c (c' :: rest) rfl
    have vc : t.validCell c := hv c (by simp)
    have vc' : t.validCell c' := hv c' (by simp)
    have hc' := h5.head
    have ih := Chain.linkPart (c' :: rest) c h5 (fun d hd => hv d (List.mem_cons_of_mem _ hd))
      (by
        intro d rest' e
        injection e with e1 e2
        subst e1
        refine ⟨fun hh => ?_, fun _ => ⟨vc, h1, h4, h3⟩⟩
        unfold validCell at vc; omega)
    intro d hd
    rcases List.mem_cons.mp hd with rfl | hd
    · refine ⟨h1, ?_, ?_, ?_, ?_⟩
      · intro hh; rw [h2] at hh ⊢; exact p2 hh
      · intro hh; rw [h2] at hh; exact p1 hh
      · intro _; rw [h3]; exact ⟨vc', hc'.1, h4, hc'.2⟩
      · intro hh; rw [h3] at hh; unfold validCell at vc'; omega
    · exact ih d hd

theorem chain_neg (s : State) : ∀ fuel, s.chain fuel (-1) = []
  | 0 => rfl
  | _ + 1 => by simp [State.chain]

/-- following the links from the head of a chain enumerates it -/
theorem Chain.walk {t : State} {r : Int} : ∀ (cs : List Int) (p : Int) (c : Int) (rest : List Int),
    cs = c :: rest → Chain t r p cs → (∀ d ∈ cs, d ≠ -1) → ∀ fuel, cs.length ≤ fuel → t.chain fuel c = cs
  | [], _, _, _, e, _, _, _, _ => by cases e
  | [c], _, _, _, e, h, hv, fuel, hf => by
    injection e with e1 e2
    subst e1
    cases fuel with
    | zero => simp at hf
    | succ k =>
      have := hv c (by simp)
      simp [State.chain, this, h.2.2.1, chain_neg]
  | c :: c' :: rest, _, _, _, e, h, hv, fuel, hf => by
    injection e with e1 e2
    subst e1
    cases fuel with
    | zero => simp at hf
    | succ k =>
      have hne := hv c (by simp)
      have ih := Chain.walk (c' :: rest) c c' rest rfl h.2.2.2.2 (fun d hd => hv d (List.mem_cons_of_mem _ hd)) k
        (by simp at hf ⊢; omega)
      simp [State.chain, hne, h.2.2.1, ih]

/-! ### `linkRow` -/

/-- what `linkRow s r cs` leaves alone -/
structure LinkFrame (s t : State) (r : Int) (cs : List Int) : Prop where
  geom : SameGeom s t
  row : ∀ d, d ∉ cs → t.row d = s.row d
  pred : ∀ d, d ∉ cs → t.pred d = s.pred d
  next : ∀ d, d ∉ cs → t.next d = s.next d
  first : t.rowFirst = s.rowFirst
  last : ∀ q, q ≠ r → t.rowLast q = s.rowLast q

theorem linkRow_spec (r : Int) : ∀ (cs : List Int) (s t : State), linkRow s r cs = .ok t → cs.Nodup →
    (∀ d ∈ cs, s.next d = -1) → (∀ d ∈ cs.tail, s.pred d = -1) →
    LinkFrame s t r cs ∧ (cs = [] → t = s) ∧ (∀ c rest, cs = c :: rest → Chain t r (s.pred c) cs)
  | [], s, t, e, _, _, _ => by
    simp only [linkRow, Except.ok.injEq] at e
    subst e
    exact ⟨⟨SameGeom.refl _, fun _ _ => rfl, fun _ _ => rfl, fun _ _ => rfl, rfl, fun _ _ => rfl⟩, fun _ => rfl,
      fun _ _ e => by cases e⟩
  | [c], s, t, e, _, hn, _ => by
    simp only [linkRow, Except.ok.injEq] at e
    subst e
    refine ⟨⟨⟨rfl, rfl, rfl, rfl, rfl, rfl, rfl⟩, ?_, fun _ _ => rfl, fun _ _ => rfl, rfl, ?_⟩, (fun e => by cases e), ?_⟩
    · intro d hd
      simp only [List.mem_singleton] at hd
      simp [upd, hd]
    · intro q hq
      simp [upd, hq]
    · intro c0 rest e
      injection e with e1 e2
      subst e1
      exact ⟨by simp [upd], rfl, hn c (by simp), by simp [upd]⟩
  | c1 :: c2 :: rest, s, t, e, hnd, hn, hp => by
    simp only [linkRow] at e
    split at e
    · cases e
    · rename_i hov
      have hnd' := List.nodup_cons.mp hnd
      have h12 : c1 ≠ c2 := fun e' => hnd'.1 (by simp [e'])
      obtain ⟨fr, -, ch⟩ := linkRow_spec r (c2 :: rest) _ t e hnd'.2
        (by
          intro d hd
          have : d ≠ c1 := fun e' => hnd'.1 (e' ▸ hd)
          simp only [upd, this, if_false]
          exact hn d (List.mem_cons_of_mem _ hd))
        (by
          intro d hd
          simp only [List.tail_cons] at hd
          have hnd'' := List.nodup_cons.mp hnd'.2
          have : d ≠ c2 := fun e' => hnd''.1 (e' ▸ hd)
          simp only [upd, this, if_false]
          exact hp d (by simp [hd]))
      have ch' := ch c2 rest rfl
      simp only [upd_same] at ch'
      refine ⟨⟨?_, ?_, ?_, ?_, fr.first, fr.last⟩, (fun e => by cases e), ?_⟩
      · exact ⟨fr.geom.rows, fr.geom.nCells, fr.geom.width, fr.geom.x, fr.geom.y, fr.geom.orient, fr.geom.pol⟩
      · intro d hd
        simp only [List.mem_cons, not_or] at hd
        rw [fr.row d (by simp [hd.2.1, hd.2.2])]
        simp [upd, hd.1]
      · intro d hd
        simp only [List.mem_cons, not_or] at hd
        rw [fr.pred d (by simp [hd.2.1, hd.2.2])]
        simp [upd, hd.2.1]
      · intro d hd
        simp only [List.mem_cons, not_or] at hd
        rw [fr.next d (by simp [hd.2.1, hd.2.2])]
        simp [upd, hd.1]
      · intro c0 rest0 e0
        injection e0 with e1 e2
        subst e1
        have hc1 : c1 ∉ c2 :: rest := hnd'.1
        refine ⟨?_, ?_, ?_, ?_, ch'⟩
        · rw [fr.row c1 hc1]; simp [upd]
        · rw [fr.pred c1 hc1]; simp [upd, h12]
        · rw [fr.next c1 hc1]; simp [upd]
        · have hx := fr.geom.x
          have hw := fr.geom.width
          simp only at hx hw
          rw [hx, hw]
          omega

/-! ### `linkRows` -/

/-- result of the linking for row `r` whose list is `cs` -/
def RowBuilt (t : State) (r : Int) : List Int → Prop
  | [] => t.rowFirst r = -1 ∧ t.rowLast r = -1
  | c :: rest => t.rowFirst r = c ∧ Chain t r (-1) (c :: rest)

theorem linkRows_head (s t1 : State) (r0 : Nat) (cs : List Int)
    (e1 : linkRow (match cs with
                   | [] => s
                   | c :: _ => { s with rowFirst := upd s.rowFirst r0 c }) r0 cs = .ok t1)
    (hnd : cs.Nodup) (hfresh : ∀ d ∈ cs, s.pred d = -1 ∧ s.next d = -1)
    (hrow : s.rowFirst r0 = -1 ∧ s.rowLast r0 = -1) :
    SameGeom s t1 ∧
    (∀ d, d ∉ cs → t1.row d = s.row d ∧ t1.pred d = s.pred d ∧ t1.next d = s.next d) ∧
    (∀ q : Int, q ≠ r0 → t1.rowFirst q = s.rowFirst q ∧ t1.rowLast q = s.rowLast q) ∧
    RowBuilt t1 r0 cs := by
  cases cs with
  | nil =>
    simp only [linkRow, Except.ok.injEq] at e1
    subst e1
    exact ⟨SameGeom.refl _, fun _ _ => ⟨rfl, rfl, rfl⟩, fun _ _ => ⟨rfl, rfl⟩, hrow⟩
  | cons c rest =>
    simp only at e1
    obtain ⟨fr, -, ch⟩ := linkRow_spec r0 (c :: rest) _ t1 e1 hnd (fun d hd => (hfresh d hd).2)
      (fun d hd => (hfresh d (List.mem_cons_of_mem _ (by simpa using hd))).1)
    have ch' := ch c rest rfl
    simp only at ch'
    rw [(hfresh c (by simp)).1] at ch'
    refine ⟨⟨fr.geom.rows, fr.geom.nCells, fr.geom.width, fr.geom.x, fr.geom.y, fr.geom.orient, fr.geom.pol⟩,
      fun d hd => ⟨fr.row d hd, fr.pred d hd, fr.next d hd⟩, ?_, ?_, ch'⟩
    · intro q hq
      refine ⟨?_, fr.last q hq⟩
      rw [fr.first]
      simp [upd, hq]
    · rw [fr.first]
      simp [upd]

theorem linkRows_spec : ∀ (css : List (List Int)) (s t : State) (r0 : Nat), linkRows s r0 css = .ok t →
    (∀ (i : Nat) (cs : List Int), css[i]? = some cs → cs.Nodup) →
    (∀ (i j : Nat) (cs ds : List Int) (c : Int), css[i]? = some cs → css[j]? = some ds → c ∈ cs → c ∈ ds → i = j) →
    (∀ (i : Nat) (cs : List Int), css[i]? = some cs → ∀ d ∈ cs, s.pred d = -1 ∧ s.next d = -1) →
    (∀ q : Int, (r0 : Int) ≤ q → s.rowFirst q = -1 ∧ s.rowLast q = -1) →
    SameGeom s t ∧
    (∀ (i : Nat) (cs : List Int), css[i]? = some cs → RowBuilt t ((r0 + i : Nat) : Int) cs) ∧
    (∀ d, (∀ (i : Nat) (cs : List Int), css[i]? = some cs → d ∉ cs) →
      t.row d = s.row d ∧ t.pred d = s.pred d ∧ t.next d = s.next d) ∧
    (∀ q : Int, (q < r0 ∨ ((r0 + css.length : Nat) : Int) ≤ q) →
      t.rowFirst q = s.rowFirst q ∧ t.rowLast q = s.rowLast q)
  | [], s, t, r0, e, _, _, _, _ => by
    simp only [linkRows, Except.ok.injEq] at e
    subst e
    exact ⟨SameGeom.refl _, fun i cs h => by simp at h, fun _ _ => ⟨rfl, rfl, rfl⟩, fun _ _ => ⟨rfl, rfl⟩⟩
  | cs :: css, s, t, r0, e, hnd, hdis, hfresh, hrow => by
    simp only [linkRows] at e
    split at e
    · cases e
    · rename_i t1 e1
      obtain ⟨g1, f1, r1, b1⟩ := linkRows_head s t1 r0 cs e1 (hnd 0 cs rfl) (hfresh 0 cs rfl)
        (hrow r0 (Int.le_refl _))
      have notin : ∀ (k : Nat) (ds : List Int), css[k]? = some ds → ∀ d ∈ ds, d ∉ cs := by
        intro k ds hk d hd hd'
        have := hdis 0 (k + 1) cs ds d rfl (by simpa using hk) hd' hd
        omega
      obtain ⟨g2, b2, f2, r2⟩ := linkRows_spec css t1 t (r0 + 1) e
        (fun i ds h => hnd (i + 1) ds (by simpa using h))
        (fun i j a b c ha hb hca hcb => by
          have := hdis (i + 1) (j + 1) a b c (by simpa using ha) (by simpa using hb) hca hcb
          omega)
        (fun i ds h d hd => by
          have hh := f1 d (notin i ds h d hd)
          have := hfresh (i + 1) ds (by simpa using h) d hd
          rw [hh.2.1, hh.2.2]; exact this)
        (fun q hq => by
          have hh := r1 q (by omega)
          rw [hh.1, hh.2]
          exact hrow q (by omega))
      refine ⟨g1.trans g2, ?_, ?_, ?_⟩
      · intro i ds hi
        cases i with
        | zero =>
          simp only [List.getElem?_cons_zero, Option.some.injEq] at hi
          subst hi
          have hr0 := r2 r0 (Or.inl (by omega))
          simp only [Nat.add_zero]
          have hmem : ∀ d ∈ cs, t.row d = t1.row d ∧ t.pred d = t1.pred d ∧ t.next d = t1.next d := by
            intro d hd
            exact f2 d (fun k ds hk hd' => notin k ds hk d hd' hd)
          cases cs with
          | nil => exact ⟨hr0.1.trans b1.1, hr0.2.trans b1.2⟩
          | cons c rest =>
            exact ⟨hr0.1.trans b1.1, Chain.congr g2.x g2.width hr0.2 _ _ hmem b1.2⟩
        | succ k =>
          simp only [List.getElem?_cons_succ] at hi
          have := b2 k ds hi
          have e' : r0 + (k + 1) = r0 + 1 + k := by omega
          rw [e']
          exact this
      · intro d hd
        have h1 := f1 d (hd 0 cs rfl)
        have h2 := f2 d (fun k ds hk => hd (k + 1) ds (by simpa using hk))
        exact ⟨h2.1.trans h1.1, h2.2.1.trans h1.2.1, h2.2.2.trans h1.2.2⟩
      · intro q hq
        simp only [List.length_cons] at hq
        have h1 := r1 q (by omega)
        have h2 := r2 q (by omega)
        exact ⟨h2.1.trans h1.1, h2.2.trans h1.2⟩

/-! ### `assignCells` -/

theorem mem_insertByX (xs : Int → Int) (c d : Int) : ∀ l : List Int, d ∈ insertByX xs c l ↔ d = c ∨ d ∈ l
  | [] => by simp [insertByX]
  | e :: l => by
    simp only [insertByX]
    split
    · simp
    · simp only [List.mem_cons, mem_insertByX xs c d l]
      constructor
      · rintro (h | h | h)
        · exact Or.inr (Or.inl h)
        · exact Or.inl h
        · exact Or.inr (Or.inr h)
      · rintro (h | h | h)
        · exact Or.inr (Or.inl h)
        · exact Or.inl h
        · exact Or.inr (Or.inr h)

theorem nodup_insertByX (xs : Int → Int) (c : Int) : ∀ l : List Int, c ∉ l → l.Nodup → (insertByX xs c l).Nodup
  | [], _, _ => by simp [insertByX]
  | e :: l, hc, hl => by
    simp only [insertByX]
    split
    · exact List.nodup_cons.mpr ⟨hc, hl⟩
    · have hl' := List.nodup_cons.mp hl
      simp only [List.mem_cons, not_or] at hc
      refine List.nodup_cons.mpr ⟨?_, nodup_insertByX xs c l hc.2 hl'.2⟩
      rw [mem_insertByX]
      intro h
      rcases h with h | h
      · exact hc.1 h.symm
      · exact hl'.1 h

/-- the rows lists are sorted by abscissa -/
theorem sorted_insertByX (xs : Int → Int) (c : Int) : ∀ l : List Int, l.Pairwise (fun a b => xs a ≤ xs b) →
    (insertByX xs c l).Pairwise (fun a b => xs a ≤ xs b)
  | [], _ => by simp [insertByX]
  | e :: l, hl => by
    simp only [insertByX]
    have hl' := List.pairwise_cons.mp hl
    split
    · rename_i hlt
      refine List.pairwise_cons.mpr ⟨?_, hl⟩
      intro d hd
      rcases List.mem_cons.mp hd with rfl | hd
      · omega
      · have := hl'.1 d hd; omega
    · rename_i hge
      refine List.pairwise_cons.mpr ⟨?_, sorted_insertByX xs c l hl'.2⟩
      intro d hd
      rw [mem_insertByX] at hd
      rcases hd with rfl | hd
      · omega
      · exact hl'.1 d hd

theorem getElem?_modify_some {α : Type} {l : List α} {r i : Nat} {f : α → α} {b : α}
    (h : (l.modify r f)[i]? = some b) : ∃ a, l[i]? = some a ∧ b = if r = i then f a else a := by
  rw [List.getElem?_modify] at h
  cases h' : l[i]? with
  | none => simp [h'] at h
  | some a =>
    simp only [h', Option.map_eq_map, Option.map_some, Option.some.injEq] at h
    exact ⟨a, rfl, h.symm⟩

theorem findRow_lt (rows : List Row) (x y : Int) (r : Nat) (h : findRow rows x y = some r) : r < rows.length := by
  unfold findRow at h
  simp only at h
  split at h
  · cases h
  · injection h with h
    have := (List.takeWhile_sublist (l := rows) (fun r : Row => r.rect.minY < y || (r.rect.minY == y && r.rect.minX ≤ x))).length_le
    omega

/-- cell `(x, y, w)` lies in row `r` -/
def Located (rows : List Row) (r : Nat) (x y w : Int) : Prop :=
  r < rows.length ∧ (rows.getD r default).rect.minY = y ∧ (rows.getD r default).rect.minX ≤ x ∧
    x + w ≤ (rows.getD r default).rect.maxX

theorem locate_ok (rows : List Row) (x y w : Int) (r : Nat) (h : locate rows x y w = .ok r) : Located rows r x y w := by
  unfold locate at h
  split at h
  · cases h
  · rename_i r' hf
    simp only at h
    split at h
    · cases h
    · split at h
      · cases h
      · split at h
        · cases h
        · injection h with h
          subst h
          exact ⟨findRow_lt rows x y r' hf, by omega, by omega, by omega⟩

theorem assignCells_spec (rows : List Row) (width xs ys : Int → Int) : ∀ (cells : List Int) (lists : List (List Int)),
    assignCells rows width xs ys cells = .ok lists →
    lists.length = rows.length ∧
    (∀ (i : Nat) (cs : List Int), lists[i]? = some cs → ∀ c ∈ cs,
        c ∈ cells ∧ width c ≠ -1 ∧ Located rows i (xs c) (ys c) (width c)) ∧
    (∀ c ∈ cells, width c ≠ -1 → ∃ (i : Nat) (cs : List Int), lists[i]? = some cs ∧ c ∈ cs) ∧
    (∀ (i : Nat) (cs : List Int), lists[i]? = some cs → cs.Pairwise (fun a b => xs a ≤ xs b)) ∧
    (cells.Nodup →
      (∀ (i : Nat) (cs : List Int), lists[i]? = some cs → cs.Nodup) ∧
      (∀ (i j : Nat) (cs ds : List Int) (c : Int), lists[i]? = some cs → lists[j]? = some ds → c ∈ cs → c ∈ ds → i = j))
  | [], lists, e => by
    simp only [assignCells, Except.ok.injEq] at e
    subst e
    have hnil : ∀ (i : Nat) (cs : List Int), (rows.map fun _ => ([] : List Int))[i]? = some cs → cs = [] := by
      intro i cs h
      rw [List.getElem?_map] at h
      cases hr : rows[i]? with
      | none => simp [hr] at h
      | some a => simp [hr] at h; exact h
    refine ⟨by simp, ?_, by simp, ?_, fun _ => ⟨?_, ?_⟩⟩
    · intro i cs h c hc; rw [hnil i cs h] at hc; simp at hc
    · intro i cs h; rw [hnil i cs h]; simp
    · intro i cs h; rw [hnil i cs h]; simp
    · intro i j cs ds c h _ hc; rw [hnil i cs h] at hc; simp at hc
  | c :: cells, lists, e => by
    simp only [assignCells] at e
    split at e
    · cases e
    · rename_i acc hacc
      obtain ⟨ih1, ih2, ih3, ih4, ih5⟩ := assignCells_spec rows width xs ys cells acc hacc
      split at e
      · rename_i hw
        simp only [beq_iff_eq] at hw
        injection e with e
        subst e
        refine ⟨ih1, ?_, ?_, ih4, ?_⟩
        · intro i cs h d hd
          obtain ⟨a, b⟩ := ih2 i cs h d hd
          exact ⟨List.mem_cons_of_mem _ a, b⟩
        · intro d hd hwd
          rcases List.mem_cons.mp hd with rfl | hd
          · exact absurd hw hwd
          · exact ih3 d hd hwd
        · intro hnd
          exact ih5 (List.nodup_cons.mp hnd).2
      · rename_i hw
        simp only [beq_iff_eq] at hw
        split at e
        · cases e
        · rename_i r hr
          injection e with e
          subst e
          have hloc := locate_ok rows _ _ _ r hr
          refine ⟨by simp [ih1], ?_, ?_, ?_, ?_⟩
          · intro i cs h d hd
            obtain ⟨a, ha, rfl⟩ := getElem?_modify_some h
            by_cases hri : r = i
            · subst hri
              simp only [if_true] at hd
              rw [mem_insertByX] at hd
              rcases hd with rfl | hd
              · exact ⟨by simp, hw, hloc⟩
              · obtain ⟨p, q⟩ := ih2 r a ha d hd
                exact ⟨List.mem_cons_of_mem _ p, q⟩
            · simp only [hri, if_false] at hd
              obtain ⟨p, q⟩ := ih2 i a ha d hd
              exact ⟨List.mem_cons_of_mem _ p, q⟩
          · intro d hd hwd
            have hrl : r < acc.length := by rw [ih1]; exact hloc.1
            rcases List.mem_cons.mp hd with rfl | hd
            · refine ⟨r, insertByX xs d acc[r], ?_, by rw [mem_insertByX]; exact Or.inl rfl⟩
              rw [List.getElem?_modify, List.getElem?_eq_getElem hrl]
              simp
            · obtain ⟨i, cs, hi, hc⟩ := ih3 d hd hwd
              refine ⟨i, if r = i then insertByX xs c cs else cs, ?_, ?_⟩
              · rw [List.getElem?_modify, hi]; simp
              · split
                · rw [mem_insertByX]; exact Or.inr hc
                · exact hc
          · intro i cs h
            obtain ⟨a, ha, rfl⟩ := getElem?_modify_some h
            split
            · exact sorted_insertByX xs c a (ih4 i a ha)
            · exact ih4 i a ha
          · intro hnd
            have hnd' := List.nodup_cons.mp hnd
            obtain ⟨n1, n2⟩ := ih5 hnd'.2
            have hcnew : ∀ (i : Nat) (a : List Int), acc[i]? = some a → c ∉ a := by
              intro i a ha hc
              exact hnd'.1 (ih2 i a ha c hc).1
            constructor
            · intro i cs h
              obtain ⟨a, ha, rfl⟩ := getElem?_modify_some h
              split
              · exact nodup_insertByX xs c a (hcnew i a ha) (n1 i a ha)
              · exact n1 i a ha
            · intro i j cs ds d hi hj hdc hdd
              obtain ⟨a, ha, rfl⟩ := getElem?_modify_some hi
              obtain ⟨b, hb, rfl⟩ := getElem?_modify_some hj
              by_cases hdc' : d = c
              · subst hdc'
                have hi' : r = i := by
                  by_cases hri : r = i
                  · exact hri
                  · simp only [hri, if_false] at hdc
                    exact absurd hdc (hcnew i a ha)
                have hj' : r = j := by
                  by_cases hrj : r = j
                  · exact hrj
                  · simp only [hrj, if_false] at hdd
                    exact absurd hdd (hcnew j b hb)
                omega
              · have hda : d ∈ a := by
                  split at hdc
                  · rw [mem_insertByX] at hdc
                    exact hdc.resolve_left hdc'
                  · exact hdc
                have hdb : d ∈ b := by
                  split at hdd
                  · rw [mem_insertByX] at hdd
                    exact hdd.resolve_left hdc'
                  · exact hdd
                exact n2 i j a b d ha hb hda hdb

/-! ### the constructor -/

theorem mem_intsUpTo (n : Nat) (c : Int) : c ∈ intsUpTo n ↔ 0 ≤ c ∧ c < n := by
  simp only [intsUpTo, List.mem_map, List.mem_range]
  constructor
  · rintro ⟨a, ha, rfl⟩
    exact ⟨Int.natCast_nonneg a, Int.ofNat_lt.mpr ha⟩
  · rintro ⟨h1, h2⟩
    exact ⟨c.toNat, by omega, by simp [Int.toNat_of_nonneg h1]⟩

theorem nodup_intsUpTo (n : Nat) : (intsUpTo n).Nodup := by
  unfold intsUpTo List.Nodup
  rw [List.pairwise_map]
  exact (List.nodup_range (n := n)).imp (fun h e => h (Int.ofNat.inj e))

theorem length_intsUpTo (n : Nat) : (intsUpTo n).length = n := by simp [intsUpTo]

theorem rowAt_nat (s : State) (i : Nat) : s.rowAt (i : Int) = s.rows.getD i default := by
  unfold rowAt
  have : ¬ ((i : Int) < 0) := by omega
  simp [this]

/-- everything the constructor's linking establishes (before its final `check()`) -/
structure PreBuilt (rows : List Row) (n : Nat) (width xs ys : Int → Int) (orient : Int → Orient)
    (pol : Int → Polarity) (s : State) (lists : List (List Int)) : Prop where
  assign : assignCells (sortRows rows) width xs ys (intsUpTo n) = .ok lists
  rows : s.rows = sortRows rows
  nCells : s.nCells = n
  width : s.width = width
  x : s.x = xs
  y : s.y = ys
  orient : s.orient = orient
  pol : s.pol = pol
  built : ∀ (i : Nat) (cs : List Int), lists[i]? = some cs → RowBuilt s (i : Int) cs
  out : ∀ d, (∀ (i : Nat) (cs : List Int), lists[i]? = some cs → d ∉ cs) → s.row d = -1 ∧ s.pred d = -1 ∧ s.next d = -1

/-- … and the final `check()` passed -/
structure Built (rows : List Row) (n : Nat) (width xs ys : Int → Int) (orient : Int → Orient)
    (pol : Int → Polarity) (s : State) (lists : List (List Int)) : Prop
    extends PreBuilt rows n width xs ys orient pol s lists where
  check : s.check = true

theorem linkRows_prebuilt {rows : List Row} {n : Nat} {width xs ys : Int → Int} {orient : Int → Orient}
    {pol : Int → Polarity} {index : Int → Int} {t : State} {lists : List (List Int)}
    (hl : assignCells (sortRows rows) width xs ys (intsUpTo n) = .ok lists)
    (ht : linkRows { rows := sortRows rows, nCells := n, rowFirst := fun _ => -1, rowLast := fun _ => -1,
                     width := width, pred := fun _ => -1, next := fun _ => -1, row := fun _ => -1,
                     x := xs, y := ys, orient := orient, pol := pol, index := index } 0 lists = .ok t) :
    PreBuilt rows n width xs ys orient pol t lists := by
  obtain ⟨_, _, _, _, hnd⟩ := assignCells_spec _ _ _ _ _ _ hl
  obtain ⟨n1, n2⟩ := hnd (nodup_intsUpTo n)
  obtain ⟨g, b, f, _⟩ := linkRows_spec lists _ t 0 ht n1 n2 (fun _ _ _ _ _ => ⟨rfl, rfl⟩) (fun _ _ => ⟨rfl, rfl⟩)
  refine ⟨hl, g.rows, g.nCells, g.width, g.x, g.y, g.orient, g.pol, ?_, f⟩
  intro i cs h
  have := b i cs h
  simpa using this

theorem construct_built {rows : List Row} {n : Nat} {width xs ys : Int → Int} {orient : Int → Orient}
    {pol : Int → Polarity} {index : Int → Int} {s : State}
    (e : construct rows n width xs ys orient pol index = .ok s) :
    ∃ lists, Built rows n width xs ys orient pol s lists := by
  unfold construct at e
  simp only at e
  split at e
  · cases e
  · rename_i lists hl
    split at e
    · cases e
    · rename_i t ht
      split at e
      · rename_i hc
        injection e with e
        subst e
        exact ⟨lists, linkRows_prebuilt hl ht, hc⟩
      · cases e

/-- what the linking gives, cell by cell and row by row -/
structure BuiltFacts (s : State) (lists : List (List Int)) : Prop where
  nRows : s.nRows = lists.length
  rowOk : ∀ r : Int, s.validRow r → RowOk s r
  linkOk : ∀ c : Int, s.validCell c → LinkOk s c
  ignored : ∀ c, s.width c = -1 → s.row c = -1 ∧ s.pred c = -1 ∧ s.next c = -1
  placed : ∀ c, s.validCell c → s.width c ≠ -1 →
    ∃ (i : Nat) (cs : List Int), lists[i]? = some cs ∧ c ∈ cs ∧ s.row c = i ∧ s.y c = s.rowY i
  walk : ∀ (i : Nat) (cs : List Int), lists[i]? = some cs → s.rowCells i = cs

theorem prebuilt_facts {rows : List Row} {n : Nat} {width xs ys : Int → Int} {orient : Int → Orient}
    {pol : Int → Polarity} {s : State} {lists : List (List Int)} (B : PreBuilt rows n width xs ys orient pol s lists) :
    BuiltFacts s lists := by
  obtain ⟨hlen, hin, hall, _, hnd⟩ := assignCells_spec _ _ _ _ _ _ B.assign
  obtain ⟨n1, n2⟩ := hnd (nodup_intsUpTo n)
  have hrowsLen : s.nRows = lists.length := by unfold nRows; rw [B.rows, hlen]
  have valid_of_mem : ∀ (i : Nat) (cs : List Int), lists[i]? = some cs → ∀ c ∈ cs, s.validCell c := by
    intro i cs h c hc
    have := (hin i cs h c hc).1
    rw [mem_intsUpTo] at this
    unfold validCell; rw [B.nCells]; exact this
  have irow : ∀ (i : Nat) (cs : List Int), lists[i]? = some cs → ((i : Int) : Int) < s.nRows := by
    intro i cs h
    have := (List.getElem?_eq_some_iff.mp h).1
    rw [hrowsLen]; exact_mod_cast this
  -- a cell of a list: its link part, its row, the geometry
  have cellFacts : ∀ (i : Nat) (cs : List Int), lists[i]? = some cs → ∀ c ∈ cs,
      LinkPart s i c ∧ s.width c ≠ -1 ∧ s.y c = s.rowY i ∧ s.rowMinX i ≤ s.x c ∧ s.x c + s.width c ≤ s.rowMaxX i := by
    intro i cs h c hc
    obtain ⟨_, hwc, _, l1, l2, l3⟩ := hin i cs h c hc
    have hb := B.built i cs h
    cases cs with
    | nil => simp at hc
    | cons c0 rest =>
      have lp := Chain.linkPart (c0 :: rest) (-1) hb.2 (valid_of_mem i _ h)
        (by
          intro d rest' e'
          injection e' with e1 e2
          subst e1
          exact ⟨fun _ => hb.1, fun hh => absurd rfl hh⟩) c hc
      have hr : s.rows = sortRows rows := B.rows
      refine ⟨lp, by rw [B.width]; exact hwc, ?_, ?_, ?_⟩
      · unfold rowY; rw [rowAt_nat, hr, l1, B.y]
      · unfold rowMinX; rw [rowAt_nat, hr, B.x]; exact l2
      · unfold rowMaxX; rw [rowAt_nat, hr, B.x, B.width]; exact l3
  have notin : ∀ c, s.width c = -1 → s.row c = -1 ∧ s.pred c = -1 ∧ s.next c = -1 := by
    intro c hc
    apply B.out
    intro i cs h hcc
    have := (hin i cs h c hcc).2.1
    rw [B.width] at hc
    exact this hc
  have isin : ∀ c, s.validCell c → s.width c ≠ -1 → ∃ (i : Nat) (cs : List Int), lists[i]? = some cs ∧ c ∈ cs := by
    intro c hc hwc
    apply hall c
    · rw [mem_intsUpTo]; unfold validCell at hc; rw [B.nCells] at hc; exact hc
    · rw [← B.width]; exact hwc
  refine ⟨hrowsLen, ?_, ?_, notin, ?_, ?_⟩
  · -- rows
    intro r hr
    unfold validRow at hr
    obtain ⟨i, rfl⟩ : ∃ i : Nat, r = i := ⟨r.toNat, by omega⟩
    have hi : i < lists.length := by rw [← hrowsLen]; exact_mod_cast hr.2
    have h := List.getElem?_eq_getElem hi
    have hb := B.built i _ h
    generalize lists[i] = cs at h hb
    cases cs with
    | nil =>
      obtain ⟨b1, b2⟩ := hb
      unfold RowOk
      exact ⟨by rw [b1, b2], fun hh => absurd b1 hh⟩
    | cons c0 rest =>
      obtain ⟨b1, b2⟩ := hb
      obtain ⟨l, hl, l1, l2, l3⟩ := Chain.last (c0 :: rest) (-1) (by simp) b2
      have v0 := valid_of_mem i _ h c0 (by simp)
      have vl := valid_of_mem i _ h l hl
      have hd := b2.head
      unfold RowOk
      rw [b1, l1]
      refine ⟨?_, fun _ => ⟨v0, vl, hd.1, hd.2, l3, l2⟩⟩
      unfold validCell at v0 vl
      constructor <;> intro <;> omega
  · -- links
    intro c hc
    by_cases hwc : s.width c = -1
    · obtain ⟨a1, a2, a3⟩ := notin c hwc
      unfold LinkOk
      rw [a1]
      exact ⟨⟨by omega, by omega⟩, fun _ => ⟨a2, a3⟩, fun hh => absurd rfl hh⟩
    · obtain ⟨i, cs, h, hcc⟩ := isin c hc hwc
      obtain ⟨lp, _, _, g1, g2⟩ := cellFacts i cs h c hcc
      have hir := irow i cs h
      obtain ⟨p0, p1, p2, p3, p4⟩ := lp
      unfold LinkOk
      rw [p0]
      refine ⟨⟨by omega, hir⟩, fun hh => by omega, fun _ => ⟨p1, fun hh => ⟨p2 hh, g1⟩, p3, fun hh => ⟨p4 hh, g2⟩⟩⟩
  · intro c hc hwc
    obtain ⟨i, cs, h, hcc⟩ := isin c hc hwc
    obtain ⟨lp, _, hy, _, _⟩ := cellFacts i cs h c hcc
    exact ⟨i, cs, h, hcc, lp.1, hy⟩
  · intro i cs h
    have hb := B.built i cs h
    cases cs with
    | nil =>
      unfold rowCells
      rw [hb.1, chain_neg]
    | cons c0 rest =>
      unfold rowCells
      rw [hb.1]
      apply Chain.walk (c0 :: rest) (-1) c0 rest rfl hb.2
      · intro d hd
        have := valid_of_mem i _ h d hd
        unfold validCell at this; omega
      · have hsub : (c0 :: rest) ⊆ intsUpTo n := fun d hd => (hin i _ h d hd).1
        have := List.Nodup.length_le_of_subset (n1 i _ h) hsub
        rw [length_intsUpTo] at this
        rw [B.nCells]; omega

/-- the state built by the constructor satisfies `Inv` and every optimised cell is placed -/
theorem built_inv {rows : List Row} {n : Nat} {width xs ys : Int → Int} {orient : Int → Orient}
    {pol : Int → Polarity} {s : State} {lists : List (List Int)} (B : Built rows n width xs ys orient pol s lists)
    (hw : ∀ c : Int, 0 ≤ c → c < n → width c ≠ -1 → orient c ≠ Orient.INVALID ∧ 0 < width c) :
    Inv s ∧ s.allPlaced = true := by
  have F := prebuilt_facts B.toPreBuilt
  have hchk := B.check
  unfold State.check at hchk
  simp only [Bool.and_eq_true, List.all_eq_true] at hchk
  obtain ⟨-, horient⟩ := hchk
  constructor
  · refine Inv.mk' F.rowOk F.linkOk ?_
    intro c hc
    unfold CellOk
    constructor
    · intro hwc
      unfold validCell at hc
      rw [B.nCells] at hc
      have := hw c hc.1 hc.2 (by rw [← B.width]; exact hwc)
      rw [B.orient, B.width]; exact this
    · intro hr
      have hwc : s.width c ≠ -1 := fun hh => hr (F.ignored c hh).1
      obtain ⟨i, cs, h, hcc, hrow, hy⟩ := F.placed c hc hwc
      rw [hrow]
      have hmem : (i : Int) ∈ intsUpTo s.nRows := by
        rw [mem_intsUpTo, F.nRows]
        exact ⟨by omega, by exact_mod_cast (List.getElem?_eq_some_iff.mp h).1⟩
      have ho := horient (i : Int) hmem c (by rw [F.walk i cs h]; exact hcc)
      unfold checkOrient at ho
      simp only [Bool.and_eq_true, Bool.or_eq_true, bne_iff_ne, ne_eq, beq_iff_eq] at ho
      exact ⟨hwc, ho.1, fun hu => ho.2.resolve_left hu, hy⟩
  · unfold allPlaced
    rw [List.all_eq_true]
    intro c hc
    rw [B.nCells, mem_intsUpTo] at hc
    have vc : s.validCell c := by unfold validCell; rw [B.nCells]; exact hc
    by_cases hwc : s.width c = -1
    · simp [isIgnored, hwc]
    · obtain ⟨i, cs, h, hcc, hrow, _⟩ := F.placed c vc hwc
      have : s.row c ≠ -1 := by rw [hrow]; omega
      simp [isPlaced, this]

/-! ### the final `check()` follows from the linking and the orientation test -/

theorem checkRow_of_rowOk {s : State} {r : Int} (h : RowOk s r) : s.checkRow r = true := by
  unfold RowOk at h
  unfold checkRow
  obtain ⟨h1, h2⟩ := h
  simp only [Bool.and_eq_true, Bool.or_eq_true, decide_eq_true_eq, beq_iff_eq]
  refine ⟨h1, ?_⟩
  by_cases hf : s.rowFirst r = -1
  · exact Or.inl hf
  · obtain ⟨_, _, a, b, c, d⟩ := h2 hf
    exact Or.inr ⟨⟨⟨a, b⟩, c⟩, d⟩

theorem checkCell_of_linkOk {s : State} {c : Int} (h : LinkOk s c) : s.checkCell c = true := by
  unfold LinkOk at h
  unfold checkCell
  obtain ⟨h1, h2, h3⟩ := h
  simp only [Bool.and_eq_true, decide_eq_true_eq]
  refine ⟨h1, ?_⟩
  by_cases hr : s.row c = -1
  · rw [if_pos hr]
    simp only [Bool.and_eq_true, beq_iff_eq]
    exact h2 hr
  · rw [if_neg hr]
    obtain ⟨a, b, c', d⟩ := h3 hr
    simp only [Bool.and_eq_true]
    constructor
    · by_cases hp : s.pred c = -1
      · simp only [hp, ne_eq, not_true_eq_false, if_false, Bool.and_eq_true, beq_iff_eq, decide_eq_true_eq]
        exact b hp
      · simp only [ne_eq, hp, not_false_eq_true, if_true, Bool.and_eq_true, beq_iff_eq, decide_eq_true_eq]
        exact ⟨(a hp).2.1, (a hp).2.2.1⟩
    · by_cases hn : s.next c = -1
      · simp only [hn, ne_eq, not_true_eq_false, if_false, Bool.and_eq_true, beq_iff_eq, decide_eq_true_eq]
        exact d hn
      · simp only [ne_eq, hn, not_false_eq_true, if_true, Bool.and_eq_true, beq_iff_eq, decide_eq_true_eq]
        exact ⟨(c' hn).2.1, (c' hn).2.2.1⟩

theorem facts_check {s : State} {lists : List (List Int)} (F : BuiltFacts s lists)
    (ho : ∀ (i : Nat) (cs : List Int), lists[i]? = some cs → ∀ c ∈ cs, s.checkOrient i c = true) :
    s.check = true := by
  unfold State.check
  simp only [Bool.and_eq_true, List.all_eq_true]
  refine ⟨⟨?_, ?_⟩, ?_⟩
  · intro r hr
    rw [mem_intsUpTo] at hr
    exact checkRow_of_rowOk (F.rowOk r hr)
  · intro c hc
    rw [mem_intsUpTo] at hc
    exact checkCell_of_linkOk (F.linkOk c hc)
  · intro r hr c hc
    rw [mem_intsUpTo, F.nRows] at hr
    obtain ⟨i, rfl⟩ : ∃ i : Nat, r = i := ⟨r.toNat, by omega⟩
    have hi : i < lists.length := by exact_mod_cast hr.2
    have h := List.getElem?_eq_getElem hi
    rw [F.walk i _ h] at hc
    exact ho i _ h c hc

/-! ### `fromIspdCircuit` -/

theorem ofList_map {α β : Type} (d : β) (f : α → β) (l : List α) (i : Int) (h0 : 0 ≤ i) (h1 : i < l.length) :
    ∃ a ∈ l, l[i.toNat]? = some a ∧ ofList d (l.map f) i = f a := by
  have hi : i.toNat < l.length := by omega
  refine ⟨l[i.toNat], List.getElem_mem hi, List.getElem?_eq_getElem hi, ?_⟩
  unfold ofList
  have : ¬ i < 0 := by omega
  simp [this, List.getD_eq_getElem?_getD, List.getElem?_eq_getElem hi]

/-- the width vector of `fromIspdCircuit` -/
def ispdWidth (h : Int) (cl : Cell) : Int := if cl.fixed then -1 else if cl.placedHeight ≠ h then -1 else cl.placedWidth

/-- the obstacles `fromIspdCircuit` adds: movable cells that are not one row high -/
def ispdObstacles (c : Circuit) (h : Int) : List Rect :=
  (c.cells.filter fun cl => !cl.fixed && cl.placedHeight ≠ h).map Cell.placement

theorem fromIspdCircuit_built {c : Circuit} {s : State} (e : fromIspdCircuit c = .ok s) :
    ∃ h lists, c.rowHeight = some h ∧
      Built (c.computeRows (ispdObstacles c h)) c.cells.length (ofList 0 (c.cells.map (ispdWidth h)))
        (ofList 0 (c.cells.map (·.x))) (ofList 0 (c.cells.map (·.y)))
        (ofList default (c.cells.map (·.orient))) (ofList default (c.cells.map (·.pol))) s lists := by
  unfold fromIspdCircuit at e
  split at e
  · cases e
  · rename_i h hh
    obtain ⟨lists, B⟩ := construct_built e
    exact ⟨h, lists, hh, B⟩

theorem fromIspdCircuit_inv {c : Circuit} {s : State}
    (hd : ∀ cl ∈ c.cells, ¬ cl.fixed → 0 < cl.placedWidth ∧ cl.orient ≠ Orient.INVALID)
    (e : fromIspdCircuit c = .ok s) : Inv s ∧ s.allPlaced = true := by
  obtain ⟨h, lists, _, B⟩ := fromIspdCircuit_built e
  apply built_inv B
  intro i h0 h1 hw
  obtain ⟨cl, hcl, hget, e1⟩ := ofList_map 0 (ispdWidth h) c.cells i h0 h1
  obtain ⟨cl', _, hget', e2⟩ := ofList_map default (·.orient) c.cells i h0 h1
  rw [hget] at hget'
  injection hget' with hget'
  subst hget'
  rw [e1] at hw ⊢
  rw [e2]
  unfold ispdWidth at hw ⊢
  by_cases hf : cl.fixed = true
  · simp [hf] at hw
  · by_cases hh : cl.placedHeight ≠ h
    · simp [hf, hh] at hw
    · simp only [hf, hh, if_false, Bool.false_eq_true]
      have := hd cl hcl hf
      exact ⟨this.2, this.1⟩

end ColoVerif.DetPlace
