import ColoVerif.Proofs.Transp1dBalanced
import ColoVerif.Proofs.CheckedArith
import ColoVerif.Model.Transp1dChecked
/-
Magnitude invariants of the event sweep of the (unbounded) Transp1d model, for C07.

The only accumulation whose size is not obvious is `slope += events.top().second` in `getSlope`
(merged slopes are pushed back).  The bound comes from a potential:

    Φ(i, st) = Σ_{e ∈ events} |e.slope|  +  G(u[i-1])  +  (v[m-1] - v[lastOccupiedSink])  ≤  6·P

* a sink event (pushed once per boundary `l | l+1`, `lastOccupiedSink` only grows) has
  `|cost(i,l) - cost(i,l+1)| ≤ v[l+1] - v[l]`, paid for by the last term;
* a source event has slope `delta(i-1, j) = g_j(u[i-1]) - g_j(u[i]) ≥ 0` with
  `g_j(x) = |x - v[j+1]| - |x - v[j]|` non-increasing; the boundaries `b ≤ j < e` of one source
  telescope to `(|x - v[e]| - |x - v[b]|) - (|y - v[e]| - |y - v[b]|)`, at most the decrease of
  `G(x) = |x - v[m-1]| - |x - v[0]| + (v[m-1] - v[0]) ∈ [0, 2 (v[m-1] - v[0])]` from `x = u[i-1]`
  to `y = u[i]` (positions sorted);
* merging events (`getSlope`, `pushToLastSink`) never increases `Σ |slope|`.

Hence every partial sum of `getSlope` is at most `6·P` in magnitude for positions in `[-P, P]`,
whatever the number of sources and sinks.
-/
namespace ColoVerif.Transp1d
open ColoVerif.Checked

/-! ### inversion of the bounds-checked primitives -/

theorem bind_ok_inv {α β : Type} {x : M α} {f : α → M β} {r : β} (h : (x >>= f) = .ok r) :
    ∃ a, x = .ok a ∧ f a = .ok r := by
  cases x with
  | error e => simp [bind, Except.bind] at h
  | ok a => exact ⟨a, rfl, h⟩

theorem get_inv {l : List Int} {i : Nat} {a : Int} (h : get l i = .ok a) :
    i < l.length ∧ a = l.getD i 0 := by
  by_cases hi : i < l.length
  · rw [get_ok' l i hi] at h
    cases h
    exact ⟨hi, rfl⟩
  · exfalso
    unfold get at h
    rw [List.getElem?_eq_none (by omega)] at h
    cases h

theorem iabs_spec (x : Int) : (x < 0 ∧ iabs x = -x) ∨ (0 ≤ x ∧ iabs x = x) := by
  unfold iabs
  split
  · left; exact ⟨by assumption, rfl⟩
  · right; exact ⟨by omega, rfl⟩

theorem cost_inv {sv : Solver} {i j : Nat} {c : Int} (h : cost sv i j = .ok c) :
    i < sv.u.length ∧ j < sv.v.length ∧ c = iabs (sv.u.getD i 0 - sv.v.getD j 0) := by
  unfold cost at h
  obtain ⟨a, ha, h⟩ := bind_ok_inv h
  obtain ⟨b, hb, h⟩ := bind_ok_inv h
  obtain ⟨h1, rfl⟩ := get_inv ha
  obtain ⟨h2, rfl⟩ := get_inv hb
  simp only [pure, Except.pure, Except.ok.injEq] at h
  exact ⟨h1, h2, h.symm⟩

/-- the value of `delta(i, j)` -/
def dval (sv : Solver) (i j : Nat) : Int :=
  iabs (sv.u.getD i 0 - sv.v.getD (j + 1) 0) + iabs (sv.u.getD (i + 1) 0 - sv.v.getD j 0)
    - iabs (sv.u.getD (i + 1) 0 - sv.v.getD (j + 1) 0) - iabs (sv.u.getD i 0 - sv.v.getD j 0)

theorem delta_inv {sv : Solver} {i j : Nat} {d : Int} (h : delta sv i j = .ok d) :
    i + 1 < sv.u.length ∧ j + 1 < sv.v.length ∧ d = dval sv i j := by
  unfold delta at h
  obtain ⟨a, ha, h⟩ := bind_ok_inv h
  obtain ⟨b, hb, h⟩ := bind_ok_inv h
  obtain ⟨c, hc, h⟩ := bind_ok_inv h
  obtain ⟨e, he, h⟩ := bind_ok_inv h
  obtain ⟨_, h2, rfl⟩ := cost_inv ha
  obtain ⟨h3, _, rfl⟩ := cost_inv hb
  obtain ⟨_, _, rfl⟩ := cost_inv hc
  obtain ⟨_, _, rfl⟩ := cost_inv he
  simp only [pure, Except.pure, Except.ok.injEq] at h
  exact ⟨h3, h2, h.symm⟩

/-! ### absolute values -/

theorem abs4 (x y a c : Int) (hxy : x ≤ y) (hac : a ≤ c) :
    0 ≤ (iabs (x - c) - iabs (x - a)) - (iabs (y - c) - iabs (y - a)) := by
  rcases iabs_spec (x - c) with h1 | h1 <;> rcases iabs_spec (x - a) with h2 | h2 <;>
  rcases iabs_spec (y - c) with h3 | h3 <;> rcases iabs_spec (y - a) with h4 | h4 <;> omega

theorem abs_snk (x a c : Int) (hac : a ≤ c) : iabs (iabs (x - a) - iabs (x - c)) ≤ c - a := by
  rcases iabs_spec (x - c) with h1 | h1 <;> rcases iabs_spec (x - a) with h2 | h2 <;>
  rcases iabs_spec (iabs (x - a) - iabs (x - c)) with h3 | h3 <;> omega

theorem iabs_le {x B : Int} (h1 : -B ≤ x) (h2 : x ≤ B) : iabs x ≤ B := by
  rcases iabs_spec x with h | h <;> omega

/-! ### total slope magnitude of the queue -/

def sumAbs : List Event → Int
  | [] => 0
  | e :: es => iabs e.2 + sumAbs es

theorem sumAbs_nonneg (ev : List Event) : 0 ≤ sumAbs ev := by
  induction ev with
  | nil => exact Int.le_refl _
  | cons e es ih => have := iabs_nonneg e.2; simp only [sumAbs]; omega

theorem sumAbs_evInsert (x : Event) (ev : List Event) : sumAbs (evInsert x ev) = iabs x.2 + sumAbs ev := by
  induction ev with
  | nil => rfl
  | cons y ys ih =>
    unfold evInsert
    split
    · rfl
    · simp only [sumAbs, ih]; omega

theorem sumAbs_emplacePos (ev : List Event) (pos sl : Int) :
    sumAbs (emplacePos ev pos sl) ≤ sumAbs ev + iabs sl := by
  unfold emplacePos
  split
  · rw [sumAbs_evInsert]; simp only; omega
  · have := iabs_nonneg sl; omega

theorem sumAbs_popAt (L : Int) (ev : List Event) :
    iabs (popAt L ev).1 + sumAbs (popAt L ev).2 ≤ sumAbs ev := by
  induction ev with
  | nil => simp [popAt, sumAbs, iabs]
  | cons e es ih =>
    unfold popAt
    split
    · simp only [sumAbs]
      rcases iabs_spec ((popAt L es).1 + e.2) with h1 | h1 <;>
      rcases iabs_spec (popAt L es).1 with h2 | h2 <;> rcases iabs_spec e.2 with h3 | h3 <;> omega
    · simp only [sumAbs]
      have : iabs (0 : Int) = 0 := rfl
      omega

/-! ### static bounds of a solver instance -/

structure SB (sv : Solver) (P T : Int) : Prop where
  P0 : 0 ≤ P
  T0 : 0 ≤ T
  ub : ∀ i, -P ≤ sv.u.getD i 0 ∧ sv.u.getD i 0 ≤ P
  vb : ∀ j, -P ≤ sv.v.getD j 0 ∧ sv.v.getD j 0 ≤ P
  Sb : ∀ i, 0 ≤ sv.S.getD i 0 ∧ sv.S.getD i 0 ≤ T
  Db : ∀ j, 0 ≤ sv.D.getD j 0 ∧ sv.D.getD j 0 ≤ T
  sb : ∀ i, 0 ≤ sv.s.getD i 0 ∧ sv.s.getD i 0 ≤ T
  us : ∀ a b, a ≤ b → b < sv.u.length → sv.u.getD a 0 ≤ sv.u.getD b 0
  vs : ∀ a b, a ≤ b → b < sv.v.length → sv.v.getD a 0 ≤ sv.v.getD b 0

/-- telescoped slope of the source events of the boundaries `a ≤ j < c` between two consecutive
sources at `x ≤ y` -/
def Hh (sv : Solver) (x y : Int) (a c : Nat) : Int :=
  (iabs (x - sv.v.getD c 0) - iabs (x - sv.v.getD a 0))
    - (iabs (y - sv.v.getD c 0) - iabs (y - sv.v.getD a 0))

/-- what the source events still to come can add -/
def G (sv : Solver) (x : Int) : Int :=
  iabs (x - sv.v.getD (sv.v.length - 1) 0) - iabs (x - sv.v.getD 0 0)
    + (sv.v.getD (sv.v.length - 1) 0 - sv.v.getD 0 0)

def Gb (sv : Solver) : Nat → Int
  | 0 => 2 * (sv.v.getD (sv.v.length - 1) 0 - sv.v.getD 0 0)
  | i + 1 => G sv (sv.u.getD i 0)

theorem v0_le_vm {sv : Solver} {P T : Int} (sb : SB sv P T) (hm : 0 < sv.v.length) :
    sv.v.getD 0 0 ≤ sv.v.getD (sv.v.length - 1) 0 := sb.vs 0 _ (by omega) (by omega)

theorem G_bounds {sv : Solver} {P T : Int} (sb : SB sv P T) (hm : 0 < sv.v.length) (x : Int) :
    0 ≤ G sv x ∧ G sv x ≤ 2 * (sv.v.getD (sv.v.length - 1) 0 - sv.v.getD 0 0) := by
  have h := v0_le_vm sb hm
  unfold G
  rcases iabs_spec (x - sv.v.getD (sv.v.length - 1) 0) with h1 | h1 <;>
  rcases iabs_spec (x - sv.v.getD 0 0) with h2 | h2 <;> omega

theorem Gb_nonneg {sv : Solver} {P T : Int} (sb : SB sv P T) (hm : 0 < sv.v.length) (i : Nat) :
    0 ≤ Gb sv i := by
  cases i with
  | zero => have := v0_le_vm sb hm; simp only [Gb]; omega
  | succ i => exact (G_bounds sb hm _).1

/-- state invariant; `x` is the source budget `Gb sv i` -/
structure SI (sv : Solver) (P T x : Int) (st : St) : Prop where
  occ : st.lastOcc < sv.v.length
  lp : -T ≤ st.lastPosition ∧ st.lastPosition ≤ T
  evp : ∀ e ∈ st.events, -T ≤ e.1 ∧ e.1 ≤ T
  pr : ∀ y ∈ st.pRev, -T ≤ y ∧ y ≤ T
  phi : sumAbs st.events + x + (sv.v.getD (sv.v.length - 1) 0 - sv.v.getD st.lastOcc 0) ≤ 6 * P

theorem SI.slopes {sv : Solver} {P T x : Int} {st : St} (sb : SB sv P T) (h : SI sv P T x st)
    (hx : 0 ≤ x) : sumAbs st.events ≤ 6 * P := by
  have h1 := sb.vs st.lastOcc (sv.v.length - 1) (by have := h.occ; omega) (by have := h.occ; omega)
  have := h.phi
  omega

/-! ### the event loops -/

theorem srcEvLoop_inv {sv : Solver} {P T : Int} (sb : SB sv P T) {i : Nat} (hi0 : 0 < i) :
    ∀ (cnt j : Nat) (ev ev' : List Event), srcEvLoop sv i cnt j ev = .ok ev' →
      (∀ e ∈ ev, -T ≤ e.1 ∧ e.1 ≤ T) →
      (∀ e ∈ ev', -T ≤ e.1 ∧ e.1 ≤ T) ∧ (cnt = 0 ∨ (j + cnt < sv.v.length ∧ i < sv.u.length)) ∧
      sumAbs ev' ≤ sumAbs ev + Hh sv (sv.u.getD (i - 1) 0) (sv.u.getD i 0) j (j + cnt) := by
  intro cnt
  induction cnt with
  | zero =>
    intro j ev ev' h hev
    simp only [srcEvLoop, pure, Except.pure, Except.ok.injEq] at h
    subst h
    refine ⟨hev, Or.inl rfl, ?_⟩
    simp only [Hh, Nat.add_zero]; omega
  | succ cnt ih =>
    intro j ev ev' h hev
    unfold srcEvLoop at h
    obtain ⟨a, ha, h⟩ := bind_ok_inv h
    obtain ⟨b, hb, h⟩ := bind_ok_inv h
    obtain ⟨dl, hd, h⟩ := bind_ok_inv h
    obtain ⟨_, rfl⟩ := get_inv ha
    obtain ⟨_, rfl⟩ := get_inv hb
    obtain ⟨d1, d2, rfl⟩ := delta_inv hd
    have ei : i - 1 + 1 = i := by omega
    rw [ei] at d1
    have hpos : ∀ e ∈ emplacePos ev (sv.D.getD (j + 1) 0 - sv.S.getD i 0) (dval sv (i - 1) j),
        -T ≤ e.1 ∧ e.1 ≤ T := by
      intro e he
      rcases mem_emplacePos _ _ _ _ he with rfl | he
      · have := sb.Db (j + 1); have := sb.Sb i; simp only; omega
      · exact hev e he
    obtain ⟨k1, k2, k3⟩ := ih (j + 1) _ ev' h hpos
    refine ⟨k1, Or.inr ⟨?_, d1⟩, ?_⟩
    · rcases k2 with k2 | k2 <;> omega
    · have hs := sumAbs_emplacePos ev (sv.D.getD (j + 1) 0 - sv.S.getD i 0) (dval sv (i - 1) j)
      have hxy : sv.u.getD (i - 1) 0 ≤ sv.u.getD i 0 := sb.us (i - 1) i (by omega) d1
      have hv : sv.v.getD j 0 ≤ sv.v.getD (j + 1) 0 := sb.vs j (j + 1) (by omega) d2
      have hnn := abs4 _ _ _ _ hxy hv
      have e2 : j + 1 + cnt = j + (cnt + 1) := by omega
      rw [e2] at k3
      have hdv : iabs (dval sv (i - 1) j) = Hh sv (sv.u.getD (i - 1) 0) (sv.u.getD i 0) j (j + 1) := by
        unfold dval Hh
        rw [ei]
        rcases iabs_spec (iabs (sv.u.getD (i - 1) 0 - sv.v.getD (j + 1) 0) + iabs (sv.u.getD i 0 - sv.v.getD j 0)
          - iabs (sv.u.getD i 0 - sv.v.getD (j + 1) 0) - iabs (sv.u.getD (i - 1) 0 - sv.v.getD j 0)) with h1 | h1 <;> omega
      unfold Hh at k3 hdv ⊢
      omega

theorem snkEvLoop_inv {sv : Solver} {P T : Int} (sb : SB sv P T) {i : Nat} {lp : Int}
    (hlp : -T ≤ lp ∧ lp ≤ T) :
    ∀ (cnt l : Nat) (ev ev' : List Event), snkEvLoop sv i lp cnt l ev = .ok ev' →
      (∀ e ∈ ev, -T ≤ e.1 ∧ e.1 ≤ T) →
      (∀ e ∈ ev', -T ≤ e.1 ∧ e.1 ≤ T) ∧ (cnt = 0 ∨ l + cnt < sv.v.length) ∧
      sumAbs ev' ≤ sumAbs ev + (sv.v.getD (l + cnt) 0 - sv.v.getD l 0) := by
  intro cnt
  induction cnt with
  | zero =>
    intro l ev ev' h hev
    simp only [snkEvLoop, pure, Except.pure, Except.ok.injEq] at h
    subst h
    refine ⟨hev, Or.inl rfl, ?_⟩
    simp only [Nat.add_zero]; omega
  | succ cnt ih =>
    intro l ev ev' h hev
    unfold snkEvLoop at h
    obtain ⟨a, ha, h⟩ := bind_ok_inv h
    obtain ⟨b, hb, h⟩ := bind_ok_inv h
    obtain ⟨c0, hc0, h⟩ := bind_ok_inv h
    obtain ⟨c1, hc1, h⟩ := bind_ok_inv h
    obtain ⟨_, rfl⟩ := get_inv ha
    obtain ⟨_, rfl⟩ := get_inv hb
    obtain ⟨_, _, rfl⟩ := cost_inv hc0
    obtain ⟨_, d2, rfl⟩ := cost_inv hc1
    have hpos : ∀ e ∈ emplacePos ev (min (sv.D.getD (l + 1) 0 - sv.S.getD i 0) lp)
        (iabs (sv.u.getD i 0 - sv.v.getD l 0) - iabs (sv.u.getD i 0 - sv.v.getD (l + 1) 0)),
        -T ≤ e.1 ∧ e.1 ≤ T := by
      intro e he
      rcases mem_emplacePos _ _ _ _ he with rfl | he
      · have := sb.Db (l + 1); have := sb.Sb i; simp only; omega
      · exact hev e he
    obtain ⟨k1, k2, k3⟩ := ih (l + 1) _ ev' h hpos
    refine ⟨k1, Or.inr ?_, ?_⟩
    · rcases k2 with k2 | k2 <;> omega
    · have hs := sumAbs_emplacePos ev (min (sv.D.getD (l + 1) 0 - sv.S.getD i 0) lp)
        (iabs (sv.u.getD i 0 - sv.v.getD l 0) - iabs (sv.u.getD i 0 - sv.v.getD (l + 1) 0))
      have hv : sv.v.getD l 0 ≤ sv.v.getD (l + 1) 0 := sb.vs l (l + 1) (by omega) d2
      have hb := abs_snk (sv.u.getD i 0) _ _ hv
      have e2 : l + 1 + cnt = l + (cnt + 1) := by omega
      rw [e2] at k3
      omega

theorem pushNewSinkEvents_inv {sv : Solver} {P T x : Int} (sb : SB sv P T) {i j : Nat} {st st' : St}
    (h : pushNewSinkEvents sv i j st = .ok st') (inv : SI sv P T x st) : SI sv P T x st' := by
  unfold pushNewSinkEvents at h
  split at h
  · simp only [pure, Except.pure, Except.ok.injEq] at h
    subst h; exact inv
  · rename_i hj
    obtain ⟨ev, he, h⟩ := bind_ok_inv h
    simp only [pure, Except.pure, Except.ok.injEq] at h
    subst h
    obtain ⟨k1, k2, k3⟩ := snkEvLoop_inv sb inv.lp _ _ _ _ he inv.evp
    have e1 : st.lastOcc + (j - st.lastOcc) = j := by omega
    rw [e1] at k2 k3
    have hjm : j < sv.v.length := by rcases k2 with k2 | k2 <;> omega
    refine ⟨hjm, inv.lp, k1, inv.pr, ?_⟩
    have := inv.phi
    simp only
    omega

theorem pushNewSourceEvents_inv {sv : Solver} {P T : Int} (sb : SB sv P T) {i : Nat} {st st' : St}
    (h : pushNewSourceEvents sv i st = .ok st') (inv : SI sv P T (Gb sv i) st) (hi : i < sv.u.length) :
    SI sv P T (Gb sv (i + 1)) st' := by
  have hm : 0 < sv.v.length := by have := inv.occ; omega
  have hvm := v0_le_vm sb hm
  unfold pushNewSourceEvents at h
  split at h
  · rename_i h0
    simp only [pure, Except.pure, Except.ok.injEq] at h
    subst h; subst h0
    refine ⟨inv.occ, inv.lp, inv.evp, inv.pr, ?_⟩
    have := inv.phi
    have := (G_bounds sb hm (sv.u.getD 0 0)).2
    simp only [Gb] at *
    omega
  · rename_i h0
    obtain ⟨up, hup, h⟩ := bind_ok_inv h
    obtain ⟨ui, hui, h⟩ := bind_ok_inv h
    obtain ⟨ev, he, h⟩ := bind_ok_inv h
    simp only [pure, Except.pure, Except.ok.injEq] at h
    subst h
    obtain ⟨_, rfl⟩ := get_inv hup
    obtain ⟨_, rfl⟩ := get_inv hui
    obtain ⟨k1, k2, k3⟩ := srcEvLoop_inv sb (by omega) _ _ _ _ he inv.evp
    refine ⟨inv.occ, inv.lp, k1, inv.pr, ?_⟩
    have hphi := inv.phi
    have hxy : sv.u.getD (i - 1) 0 ≤ sv.u.getD i 0 := sb.us (i - 1) i (by omega) hi
    obtain ⟨i', rfl⟩ : ∃ i', i = i' + 1 := ⟨i - 1, by omega⟩
    simp only [Nat.add_sub_cancel] at *
    simp only [Gb] at hphi ⊢
    generalize hb : upperBound sv.v (sv.u.getD i' 0) - 1 = b at *
    generalize hc : min (lowerBound sv.v (sv.u.getD (i' + 1) 0)) st.lastOcc - b = cnt at *
    rcases k2 with k2 | k2
    · subst k2
      have hG := abs4 _ _ _ _ hxy hvm
      simp only [Hh, Nat.add_zero] at k3
      unfold G at hphi ⊢
      omega
    · -- the boundaries b ≤ j < b + cnt lie inside 0 .. m-1
      have h1 := abs4 _ _ _ _ hxy (sb.vs 0 b (by omega) (by omega))
      have h2 := abs4 _ _ _ _ hxy (sb.vs (b + cnt) (sv.v.length - 1) (by omega) (by omega))
      unfold Hh at k3
      unfold G at hphi ⊢
      omega

theorem getSlopeKeep_inv {sv : Solver} {P T x : Int} {st : St} (inv : SI sv P T x st) :
    SI sv P T x (getSlopeKeep st).2 := by
  have hp := sumAbs_popAt st.lastPosition st.events
  refine ⟨inv.occ, inv.lp, ?_, inv.pr, ?_⟩
  · intro e he
    simp only [getSlopeKeep] at he
    split at he
    · rcases (mem_evInsert _ _ _).mp he with rfl | he
      · exact inv.lp
      · exact inv.evp e (mem_popAt _ _ _ he)
    · exact inv.evp e (mem_popAt _ _ _ he)
  · have := inv.phi
    simp only [getSlopeKeep]
    split
    · rw [sumAbs_evInsert]; simp only; omega
    · have := iabs_nonneg (popAt st.lastPosition st.events).1; omega

theorem topOr_bounds {T mp : Int} {ev : List Event} (hmp : -T ≤ mp ∧ mp ≤ T)
    (hev : ∀ e ∈ ev, -T ≤ e.1 ∧ e.1 ≤ T) : -T ≤ topOr mp ev ∧ topOr mp ev ≤ T := by
  rcases topOr_cases mp ev with h | ⟨e, es, rfl, h, _⟩
  · rw [h]; exact hmp
  · rw [h]; exact hev e (List.mem_cons_self ..)

theorem pushToLastSink_inv {sv : Solver} {P T x : Int} (sb : SB sv P T) {i : Nat} {st st' : St}
    (h : pushToLastSink sv i st = .ok st') (inv : SI sv P T x st) : SI sv P T x st' := by
  unfold pushToLastSink at h
  obtain ⟨a, ha, h⟩ := bind_ok_inv h
  obtain ⟨b, hb, h⟩ := bind_ok_inv h
  obtain ⟨_, rfl⟩ := get_inv ha
  obtain ⟨_, rfl⟩ := get_inv hb
  simp only [pure, Except.pure, Except.ok.injEq] at h
  subst h
  have hp := sumAbs_popAt st.lastPosition st.events
  have hr : ∀ e ∈ (popAt st.lastPosition st.events).2, -T ≤ e.1 ∧ e.1 ≤ T :=
    fun e he => inv.evp e (mem_popAt _ _ _ he)
  have hmp : -T ≤ max (sv.D.getD (st.lastOcc + 1) 0 - sv.S.getD (i + 1) 0) 0 ∧
      max (sv.D.getD (st.lastOcc + 1) 0 - sv.S.getD (i + 1) 0) 0 ≤ T := by
    have := sb.Db (st.lastOcc + 1); have := sb.Sb (i + 1); have := sb.T0; omega
  have hlp := topOr_bounds hmp hr
  refine ⟨inv.occ, hlp, ?_, inv.pr, ?_⟩
  · intro e he
    rcases mem_emplacePos _ _ _ _ he with rfl | he
    · exact hlp
    · exact hr e he
  · have := inv.phi
    have := sumAbs_emplacePos (popAt st.lastPosition st.events).2
      (topOr (max (sv.D.getD (st.lastOcc + 1) 0 - sv.S.getD (i + 1) 0) 0) (popAt st.lastPosition st.events).2)
      (popAt st.lastPosition st.events).1
    simp only
    omega

theorem pushOnce_inv {sv : Solver} {P T x : Int} (sb : SB sv P T) {i : Nat} {st st' : St}
    (h : pushOnce sv i st = .ok st') (inv : SI sv P T x st) : SI sv P T x st' := by
  unfold pushOnce at h
  split at h
  · exact pushToLastSink_inv sb h inv
  · split at h
    · exact pushNewSinkEvents_inv sb h inv
    · obtain ⟨r, _, h⟩ := bind_ok_inv h
      obtain ⟨c, _, h⟩ := bind_ok_inv h
      have inv' := getSlopeKeep_inv inv
      split at h
      · exact pushNewSinkEvents_inv sb h inv'
      · exact pushToLastSink_inv sb h inv'

theorem pushLoop_inv {sv : Solver} {P T x : Int} (sb : SB sv P T) {i : Nat} :
    ∀ (fuel : Nat) (st st' : St), pushLoop sv i fuel st = .ok st' → SI sv P T x st → SI sv P T x st' := by
  intro fuel
  induction fuel with
  | zero => intro st st' h _; cases h
  | succ fuel ih =>
    intro st st' h inv
    unfold pushLoop at h
    obtain ⟨a, _, h⟩ := bind_ok_inv h
    obtain ⟨b, _, h⟩ := bind_ok_inv h
    split at h
    · obtain ⟨st1, h1, h⟩ := bind_ok_inv h
      exact ih st1 st' h (pushOnce_inv sb h1 inv)
    · simp only [pure, Except.pure, Except.ok.injEq] at h
      subst h; exact inv

theorem push_inv {sv : Solver} {P T : Int} (sb : SB sv P T) {i : Nat} {st st' : St}
    (h : push sv i st = .ok st') (inv : SI sv P T (Gb sv i) st) (hi : i < sv.u.length) :
    SI sv P T (Gb sv (i + 1)) st' := by
  unfold push at h
  obtain ⟨o, _, h⟩ := bind_ok_inv h
  obtain ⟨st1, h1, h⟩ := bind_ok_inv h
  obtain ⟨a, ha, h⟩ := bind_ok_inv h
  obtain ⟨b, hb, h⟩ := bind_ok_inv h
  obtain ⟨_, rfl⟩ := get_inv ha
  obtain ⟨_, rfl⟩ := get_inv hb
  obtain ⟨st2, h2, h⟩ := bind_ok_inv h
  obtain ⟨st3, h3, h⟩ := bind_ok_inv h
  simp only [pure, Except.pure, Except.ok.injEq] at h
  subst h
  have inv0 : SI sv P T (Gb sv i) { st with optSink := o } := ⟨inv.occ, inv.lp, inv.evp, inv.pr, inv.phi⟩
  have inv1 := pushNewSourceEvents_inv sb h1 inv0 hi
  have inv1' : SI sv P T (Gb sv (i + 1))
      { st1 with lastPosition := max st1.lastPosition (sv.D.getD o 0 - sv.S.getD i 0) } := by
    refine ⟨inv1.occ, ?_, inv1.evp, inv1.pr, inv1.phi⟩
    have := inv1.lp; have := sb.Db o; have := sb.Sb i; simp only; omega
  have inv2 := pushNewSinkEvents_inv sb h2 inv1'
  have inv3 := pushLoop_inv sb _ _ _ h3 inv2
  refine ⟨inv3.occ, inv3.lp, inv3.evp, ?_, inv3.phi⟩
  intro y hy
  simp only [List.mem_cons] at hy
  rcases hy with rfl | hy
  · exact inv3.lp
  · exact inv3.pr y hy

theorem pushAll_inv {sv : Solver} {P T : Int} (sb : SB sv P T) :
    ∀ (cnt i : Nat) (st st' : St), pushAll sv cnt i st = .ok st' → i + cnt ≤ sv.u.length →
      SI sv P T (Gb sv i) st → SI sv P T (Gb sv (i + cnt)) st' := by
  intro cnt
  induction cnt with
  | zero =>
    intro i st st' h _ inv
    simp only [pushAll, pure, Except.pure, Except.ok.injEq] at h
    subst h; exact inv
  | succ cnt ih =>
    intro i st st' h hle inv
    unfold pushAll at h
    obtain ⟨st1, h1, h⟩ := bind_ok_inv h
    have := ih (i + 1) st1 st' h (by omega) (push_inv sb h1 inv (by omega))
    have e : i + 1 + cnt = i + (cnt + 1) := by omega
    rw [e] at this
    exact this

theorem init_inv {sv : Solver} {P T : Int} (sb : SB sv P T) (hm : 0 < sv.v.length) :
    SI sv P T (Gb sv 0) St.init := by
  refine ⟨hm, ?_, ?_, ?_, ?_⟩
  · have := sb.T0; simp only [St.init]; omega
  · intro e he; simp [St.init] at he
  · intro e he; simp [St.init] at he
  · have h1 := sb.vb (sv.v.length - 1)
    have h2 := sb.vb 0
    have := v0_le_vm sb hm
    simp only [St.init, sumAbs, Gb]
    omega

end ColoVerif.Transp1d
