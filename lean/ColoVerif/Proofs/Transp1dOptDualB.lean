import ColoVerif.Proofs.Transp1dOptDualA
/-
Dual certificate from the optimality conditions `Kkt` (C14, slack case), part B:
the source potentials.  `aU` propagates, inside a run of touching sources, the price fixed by the
sink in which the run starts (finite iff the run is not pressed against `0`, i.e. `0 < q k`);
`aV` propagates from the right the price fixed by the sink in which the run ends (finite iff the
run does not end at `D m`, `VFin`); `al` is the minimum of the finite ones.
-/
namespace ColoVerif.Transp1d

/-! ### `sumIcc` -/

theorem sumIcc_self (f : Nat → Int) (a : Nat) : sumIcc f a a = f a := by
  unfold sumIcc; simp only [sumTo]; omega

theorem sumIcc_succ_right (f : Nat → Int) (a k : Nat) :
    sumIcc f a (k + 1) = sumIcc f a k + f (k + 1) := by
  unfold sumIcc; simp only [sumTo]; omega

theorem sumIcc_succ_left (f : Nat → Int) (k b : Nat) :
    sumIcc f k b = f k + sumIcc f (k + 1) b := by
  unfold sumIcc; simp only [sumTo]; omega

/-! ### the potentials -/

/-- potential propagated from the start of the run (meaningful when `0 < q k`) -/
def aU (sv : Solver) (q : List Int) : Nat → Int
  | 0 => cs sv 0 (sigL sv (lo sv q 0))
  | k + 1 =>
    if q.getD k 0 < q.getD (k + 1) 0 then cs sv (k + 1) (sigL sv (lo sv q (k + 1)))
    else aU sv q k + cs sv (k + 1) (sigL sv (lo sv q (k + 1)))
      - cs sv k (sigL sv (lo sv q (k + 1)))

def aVf (sv : Solver) (q : List Int) : Nat → Nat → Int
  | 0, k => cs sv k (sigR sv (hi sv q k))
  | f + 1, k =>
    if k + 1 = sv.u.length ∨ q.getD k 0 < q.getD (k + 1) 0 then cs sv k (sigR sv (hi sv q k))
    else aVf sv q f (k + 1) + cs sv k (sigR sv (hi sv q k)) - cs sv (k + 1) (sigR sv (hi sv q k))

/-- potential propagated from the end of the run (meaningful when the run has room on its right) -/
def aV (sv : Solver) (q : List Int) (k : Nat) : Int := aVf sv q (sv.u.length - k) k

theorem aU_start (sv : Solver) (q : List Int) (k : Nat)
    (h : k = 0 ∨ q.getD (k - 1) 0 < q.getD k 0) : aU sv q k = cs sv k (sigL sv (lo sv q k)) := by
  cases k with
  | zero => rfl
  | succ k =>
    have h' : q.getD k 0 < q.getD (k + 1) 0 := by
      rcases h with h | h
      · omega
      · exact h
    simp only [aU]; rw [if_pos h']

theorem aU_step (sv : Solver) (q : List Int) (k : Nat) (h : q.getD k 0 = q.getD (k + 1) 0) :
    aU sv q (k + 1) = aU sv q k + cs sv (k + 1) (sigL sv (hi sv q k))
      - cs sv k (sigL sv (hi sv q k)) := by
  simp only [aU]; rw [if_neg (by omega), lo_succ_eq sv q k h]

theorem aV_end (sv : Solver) (q : List Int) (k : Nat)
    (h : k + 1 = sv.u.length ∨ q.getD k 0 < q.getD (k + 1) 0) :
    aV sv q k = cs sv k (sigR sv (hi sv q k)) := by
  unfold aV
  cases sv.u.length - k with
  | zero => rfl
  | succ f => simp only [aVf]; rw [if_pos h]

theorem aV_step (sv : Solver) (q : List Int) (k : Nat) (hk : k + 1 < sv.u.length)
    (h : q.getD k 0 = q.getD (k + 1) 0) :
    aV sv q k = aV sv q (k + 1) + cs sv k (sigR sv (hi sv q k))
      - cs sv (k + 1) (sigR sv (hi sv q k)) := by
  unfold aV
  have e : sv.u.length - k = (sv.u.length - (k + 1)) + 1 := by omega
  rw [e]; simp only [aVf]; rw [if_neg (by omega)]

/-! ### runs -/

theorem run_start_exists {sv : Solver} {q : List Int} (dom : PosDom sv q) (k : Nat)
    (hk : k < sv.u.length) :
    ∃ a, a ≤ k ∧ (a = 0 ∨ q.getD (a - 1) 0 < q.getD a 0) ∧ q.getD a 0 = q.getD k 0 := by
  induction k with
  | zero => exact ⟨0, Nat.le_refl _, Or.inl rfl, rfl⟩
  | succ k ih =>
    by_cases h : q.getD k 0 < q.getD (k + 1) 0
    · exact ⟨k + 1, Nat.le_refl _, Or.inr h, rfl⟩
    · obtain ⟨a, h1, h2, h3⟩ := ih (by omega)
      have := dom.mono k hk
      exact ⟨a, by omega, h2, by omega⟩

theorem run_end_exists {sv : Solver} {q : List Int} (dom : PosDom sv q) (j k : Nat)
    (hk : k + j + 1 = sv.u.length) :
    ∃ b, k ≤ b ∧ b < sv.u.length ∧ (b + 1 = sv.u.length ∨ q.getD b 0 < q.getD (b + 1) 0) ∧
      q.getD b 0 = q.getD k 0 := by
  induction j generalizing k with
  | zero => exact ⟨k, Nat.le_refl _, by omega, Or.inl (by omega), rfl⟩
  | succ j ih =>
    by_cases h : q.getD k 0 < q.getD (k + 1) 0
    · exact ⟨k, Nat.le_refl _, by omega, Or.inr h, rfl⟩
    · obtain ⟨b, h1, h2, h3, h4⟩ := ih (k + 1) (by omega)
      have := dom.mono k (by omega)
      exact ⟨b, by omega, h2, h3, by omega⟩

/-- inside a run all positions agree -/
theorem run_const {sv : Solver} {q : List Int} (dom : PosDom sv q) (a b : Nat)
    (hb : b < sv.u.length) (h : q.getD a 0 = q.getD b 0) (k : Nat) (h1 : a ≤ k) (h2 : k ≤ b) :
    q.getD k 0 = q.getD a 0 ∧ q.getD k 0 = q.getD b 0 := by
  have := dom.q_mono a k h1 (by omega)
  have := dom.q_mono k b h2 hb
  omega

/-! ### unfolding the recursions -/

theorem aU_run {sv : Solver} {q : List Int} (dom : PosDom sv q) (a : Nat)
    (ha : a = 0 ∨ q.getD (a - 1) 0 < q.getD a 0) :
    ∀ k, a ≤ k → k < sv.u.length → q.getD k 0 = q.getD a 0 →
      aU sv q k = cs sv k (sigL sv (hi sv q k))
        + sumIcc (fun k' => tL sv k' (q.getD a 0)) a k := by
  intro k hak
  induction k, hak using Nat.le_induction with
  | base =>
    intro _ _
    rw [aU_start sv q a ha, sumIcc_self]
    unfold tL lo hi; omega
  | succ k hak ih =>
    intro hk hq
    have hc := run_const dom a (k + 1) hk hq.symm k hak (by omega)
    have e := ih (by omega) hc.1
    rw [aU_step sv q k (by omega), e, sumIcc_succ_right]
    have e1 : hi sv q k = sv.S.getD (k + 1) 0 + q.getD a 0 := by unfold hi; rw [hc.1]
    have e2 : hi sv q (k + 1) = sv.S.getD (k + 1 + 1) 0 + q.getD a 0 := by unfold hi; rw [hq]
    rw [e1, e2]
    unfold tL; omega

theorem aV_run {sv : Solver} {q : List Int} (dom : PosDom sv q) (b : Nat) (hb : b < sv.u.length)
    (he : b + 1 = sv.u.length ∨ q.getD b 0 < q.getD (b + 1) 0) :
    ∀ j k, k + j = b → q.getD k 0 = q.getD b 0 →
      aV sv q k = cs sv k (sigR sv (lo sv q k))
        + sumIcc (fun k' => tR sv k' (q.getD b 0)) k b := by
  intro j
  induction j with
  | zero =>
    intro k hk _
    have : k = b := by omega
    subst this
    rw [aV_end sv q k he, sumIcc_self]
    unfold tR lo hi; omega
  | succ j ih =>
    intro k hk hq
    have hc := run_const dom k b hb hq (k + 1) (by omega) (by omega)
    have e := ih (k + 1) (by omega) hc.2
    rw [aV_step sv q k (by omega) (by omega), e, sumIcc_succ_left _ k b]
    have e0 : lo sv q (k + 1) = hi sv q k := lo_succ_eq sv q k (by omega)
    have e1 : hi sv q k = sv.S.getD (k + 1) 0 + q.getD b 0 := by unfold hi; rw [hq]
    have e2 : lo sv q k = sv.S.getD k 0 + q.getD b 0 := by unfold lo; rw [hq]
    rw [e0, e1, e2]
    unfold tR; omega

/-! ### finiteness -/

/-- the run of `k` has room on its right -/
def VFin (sv : Solver) (q : List Int) (k : Nat) : Prop :=
  ∃ b, k ≤ b ∧ b < sv.u.length ∧ (b + 1 = sv.u.length ∨ q.getD b 0 < q.getD (b + 1) 0) ∧
    q.getD b 0 = q.getD k 0 ∧ hi sv q b < sv.D.getD sv.v.length 0

theorem VFin.succ {sv : Solver} {q : List Int} {k : Nat} (h : VFin sv q k)
    (hk : k + 1 < sv.u.length) (hq : q.getD k 0 = q.getD (k + 1) 0) : VFin sv q (k + 1) := by
  obtain ⟨b, h1, h2, h3, h4, h5⟩ := h
  have : b ≠ k := by
    intro e; subst e; omega
  exact ⟨b, by omega, h2, h3, by omega, h5⟩

theorem VFin.pred {sv : Solver} {q : List Int} {k : Nat} (h : VFin sv q (k + 1))
    (hq : q.getD k 0 = q.getD (k + 1) 0) : VFin sv q k := by
  obtain ⟨b, h1, h2, h3, h4, h5⟩ := h
  exact ⟨b, by omega, h2, h3, by omega, h5⟩

theorem VFin.of_end {sv : Solver} {q : List Int} {k : Nat} (hk : k < sv.u.length)
    (he : k + 1 = sv.u.length ∨ q.getD k 0 < q.getD (k + 1) 0)
    (h : hi sv q k < sv.D.getD sv.v.length 0) : VFin sv q k :=
  ⟨k, Nat.le_refl _, hk, he, rfl, h⟩

theorem VFin.hi_lt {sv : Solver} {q : List Int} (dom : PosDom sv q) {k : Nat} (h : VFin sv q k) :
    hi sv q k < sv.D.getD sv.v.length 0 := by
  obtain ⟨b, h1, h2, h3, h4, h5⟩ := h
  have := dom.hi_mono k b h1 h2
  omega

theorem fin_or {sv : Solver} {q : List Int} (dom : PosDom sv q) (k : Nat) (hk : k < sv.u.length) :
    0 < q.getD k 0 ∨ VFin sv q k := by
  by_cases h0 : 0 < q.getD k 0
  · exact Or.inl h0
  · right
    obtain ⟨b, h1, h2, h3, h4⟩ := run_end_exists dom (sv.u.length - 1 - k) k (by omega)
    refine ⟨b, h1, h2, h3, h4, ?_⟩
    have := dom.nn k hk
    have := dom.S_mono (b + 1) sv.u.length (by omega) (Nat.le_refl _)
    have := dom.slack
    unfold hi; omega

/-! ### the potentials dominate the costs at both ends of the source -/

theorem aU_ge_hi {sv : Solver} {q : List Int} (dom : PosDom sv q) (kkt : Kkt sv q) (k : Nat)
    (hk : k < sv.u.length) (h0 : 0 < q.getD k 0) : cs sv k (sigL sv (hi sv q k)) ≤ aU sv q k := by
  obtain ⟨a, h1, h2, h3⟩ := run_start_exists dom k hk
  have e := aU_run dom a h2 k h1 hk h3.symm
  have := kkt.s1 a k h1 hk h2
    (fun k' g1 g2 => (run_const dom a k hk h3 k' g1 g2).1) (by omega)
  omega

theorem aU_ge_lo {sv : Solver} {q : List Int} (dom : PosDom sv q) (kkt : Kkt sv q) (k : Nat)
    (hk : k < sv.u.length) (h0 : 0 < q.getD k 0) : cs sv k (sigL sv (lo sv q k)) ≤ aU sv q k := by
  cases k with
  | zero => rw [aU_start sv q 0 (Or.inl rfl)]
  | succ j =>
    by_cases h : q.getD j 0 < q.getD (j + 1) 0
    · rw [aU_start sv q (j + 1) (Or.inr h)]
    · have := dom.mono j hk
      have hq : q.getD j 0 = q.getD (j + 1) 0 := by omega
      have := aU_ge_hi dom kkt j (by omega) (by omega)
      rw [aU_step sv q j hq, lo_succ_eq sv q j hq]
      omega

theorem aV_ge_lo {sv : Solver} {q : List Int} (dom : PosDom sv q) (kkt : Kkt sv q) (k : Nat)
    (hf : VFin sv q k) : cs sv k (sigR sv (lo sv q k)) ≤ aV sv q k := by
  obtain ⟨b, h1, h2, h3, h4, h5⟩ := hf
  have e := aV_run dom b h2 h3 (b - k) k (by omega) h4.symm
  have := kkt.s3 k b h1 h2 h3
    (fun k' g1 g2 => (run_const dom k b h2 h4.symm k' g1 g2).2) h5
  omega

theorem aV_ge_hi {sv : Solver} {q : List Int} (dom : PosDom sv q) (kkt : Kkt sv q) (k : Nat)
    (hk : k < sv.u.length) (hf : VFin sv q k) : cs sv k (sigR sv (hi sv q k)) ≤ aV sv q k := by
  by_cases he : k + 1 = sv.u.length ∨ q.getD k 0 < q.getD (k + 1) 0
  · rw [aV_end sv q k he]
  · have hk1 : k + 1 < sv.u.length := by omega
    have := dom.mono k hk1
    have hq : q.getD k 0 = q.getD (k + 1) 0 := by omega
    have := aV_ge_lo dom kkt (k + 1) (hf.succ hk1 hq)
    rw [lo_succ_eq sv q k hq] at this
    rw [aV_step sv q k hk1 hq]
    omega

/-! ### `al` -/

open Classical in
/-- the source potential: minimum of the finite ones among `aU`, `aV` -/
noncomputable def al (sv : Solver) (q : List Int) (k : Nat) : Int :=
  if 0 < q.getD k 0 then (if VFin sv q k then min (aU sv q k) (aV sv q k) else aU sv q k)
  else aV sv q k

theorem al_le_u (sv : Solver) (q : List Int) (k : Nat) (h : 0 < q.getD k 0) :
    al sv q k ≤ aU sv q k := by
  unfold al; rw [if_pos h]; split
  · omega
  · exact Int.le_refl _

theorem al_le_v (sv : Solver) (q : List Int) (k : Nat) (h : VFin sv q k) :
    al sv q k ≤ aV sv q k := by
  unfold al; rw [if_pos h]; split
  · omega
  · exact Int.le_refl _

theorem al_cases (sv : Solver) (q : List Int) (k : Nat) (h : 0 < q.getD k 0 ∨ VFin sv q k) :
    (0 < q.getD k 0 ∧ al sv q k = aU sv q k) ∨ (VFin sv q k ∧ al sv q k = aV sv q k) := by
  unfold al
  by_cases h1 : 0 < q.getD k 0
  · rw [if_pos h1]
    by_cases h2 : VFin sv q k
    · rw [if_pos h2]
      by_cases h3 : aU sv q k ≤ aV sv q k
      · exact Or.inl ⟨h1, by omega⟩
      · exact Or.inr ⟨h2, by omega⟩
    · rw [if_neg h2]; exact Or.inl ⟨h1, rfl⟩
  · rw [if_neg h1]
    rcases h with h | h
    · exact absurd h h1
    · exact Or.inr ⟨h, rfl⟩

end ColoVerif.Transp1d
