import ColoVerif.Model.F64
import Mathlib.Tactic.Linarith
import Mathlib.Tactic.Ring
import Mathlib.Tactic.NormNum.Pow
import Mathlib.Algebra.Order.Field.Rat
import Mathlib.Algebra.Order.Field.Power
/-
Facts about the generic round-to-nearest-even `fround prec emin : Rat → Rat` of `Model/F64.lean`
(for `1 ≤ prec`): odd, monotone, exact on `m·2^k` with `|m| ≤ 2^prec`, `k ≥ emin`, idempotent,
relative error `≤ 2^(−prec)` in the normal range `x ≥ 2^(emin+prec−1)`, scaling by a power of two is
exact when it does not underflow — instantiated for `f64 = fround 53 (−1074)` (normal range
`2^(−1022)`) and `f32' = fround 24 (−149)` (normal range `2^(−126)`; `f32' = Legalize.f32` by `rfl`).
Then `roundAway` (`std::round`) bounds and monotonicity, `f32sqrt_nonneg`, and evaluation examples.

The relative-error constants are stated as `(2:Rat)^(-53:Int)` and `(2:Rat)^(-24:Int)`;
`two_zpow_neg53` / `two_zpow_neg24` convert them to `1/9007199254740992` / `1/16777216`.
-/
namespace ColoVerif.F64
open ColoVerif.Legalize (pow2 roundHalfEven)

/-! ### powers of two -/

theorem pow2_zpow (e : Int) : pow2 e = (2 : Rat) ^ e := by
  unfold pow2
  split
  · rename_i h
    have he : e = ((e.toNat : Nat) : Int) := (Int.toNat_of_nonneg h).symm
    conv_rhs => rw [he]
    rw [zpow_natCast]
    push_cast
    rfl
  · rename_i h
    have he : e = -(((-e).toNat : Nat) : Int) := by omega
    conv_rhs => rw [he]
    rw [zpow_neg, zpow_natCast]
    push_cast
    rw [one_div]

theorem z2_pos (e : Int) : (0 : Rat) < (2 : Rat) ^ e := zpow_pos (by norm_num) e

theorem z2_ne (e : Int) : (2 : Rat) ^ e ≠ 0 := ne_of_gt (z2_pos e)

theorem z2_le {a b : Int} (h : a ≤ b) : (2 : Rat) ^ a ≤ (2 : Rat) ^ b :=
  zpow_le_zpow_right₀ (by norm_num) h

theorem z2_lt_imp {a b : Int} (h : (2 : Rat) ^ a < (2 : Rat) ^ b) : a < b := by
  by_contra hn
  exact absurd (z2_le (not_lt.mp hn)) (not_le.mpr h)

theorem z2_add (a b : Int) : (2 : Rat) ^ (a + b) = (2 : Rat) ^ a * (2 : Rat) ^ b :=
  zpow_add₀ (by norm_num) a b

/-- `2^n` for a natural exponent is (the cast of) an integer -/
theorem z2_nat (n : Nat) : (2 : Rat) ^ (n : Int) = (((2 : Int) ^ n : Int) : Rat) := by
  rw [zpow_natCast]
  push_cast
  rfl

/-- `2^p` for `p ≥ 0` is (the cast of) an integer -/
theorem z2_int {p : Int} (hp : 0 ≤ p) : (2 : Rat) ^ p = (((2 : Int) ^ p.toNat : Int) : Rat) := by
  have he : p = ((p.toNat : Nat) : Int) := (Int.toNat_of_nonneg hp).symm
  conv_lhs => rw [he]
  exact z2_nat p.toNat

theorem z2_pred (e : Int) : (2 : Rat) ^ (e - 1) = (2 : Rat) ^ e / 2 := by
  have : e = (e - 1) + 1 := by ring
  conv_rhs => rw [this, z2_add]
  norm_num

theorem two_zpow_neg53 : (2 : Rat) ^ (-53 : Int) = 1 / 9007199254740992 := by norm_num

theorem two_zpow_neg24 : (2 : Rat) ^ (-24 : Int) = 1 / 16777216 := by norm_num

/-! ### `roundHalfEven` -/

theorem rne_cases (r : Rat) : roundHalfEven r = r.floor ∨ roundHalfEven r = r.floor + 1 := by
  unfold roundHalfEven
  split_ifs <;> simp

theorem rne_mono {r s : Rat} (h : r ≤ s) : roundHalfEven r ≤ roundHalfEven s := by
  have a1 := Rat.floor_le r
  have a2 := Rat.lt_floor_add_one r
  have b1 := Rat.floor_le s
  have b2 := Rat.lt_floor_add_one s
  push_cast at a2 b2
  rcases lt_or_ge r.floor s.floor with hlt | hge
  · rcases rne_cases r with h1 | h1 <;> rcases rne_cases s with h2 | h2 <;> omega
  · have hfeq : r.floor = s.floor := by
      have h3 : (r.floor : Rat) < (s.floor : Rat) + 1 := by linarith
      have h4 : r.floor < s.floor + 1 := by exact_mod_cast h3
      omega
    unfold roundHalfEven
    rw [hfeq] at a1 a2 ⊢
    split_ifs <;> first | omega | (exfalso; linarith)

theorem rne_int (n : Int) : roundHalfEven (n : Rat) = n := by
  unfold roundHalfEven
  rw [Rat.floor_intCast]
  simp

theorem rne_ge_int {n : Int} {r : Rat} (h : (n : Rat) ≤ r) : n ≤ roundHalfEven r := by
  have := rne_mono h
  rwa [rne_int] at this

theorem rne_le_int {n : Int} {r : Rat} (h : r ≤ (n : Rat)) : roundHalfEven r ≤ n := by
  have := rne_mono h
  rwa [rne_int] at this

/-- the nearest integer is within one half -/
theorem rne_le_add_half (r : Rat) : (roundHalfEven r : Rat) ≤ r + 1 / 2 := by
  have a1 := Rat.floor_le r
  unfold roundHalfEven
  split_ifs with h1 h2 h3
  · linarith
  · push_cast; linarith
  · linarith
  · push_cast; linarith

theorem rne_ge_sub_half (r : Rat) : r - 1 / 2 ≤ (roundHalfEven r : Rat) := by
  have a2 := Rat.lt_floor_add_one r
  push_cast at a2
  unfold roundHalfEven
  split_ifs with h1 h2 h3
  · linarith
  · push_cast; linarith
  · linarith
  · push_cast; linarith

/-! ### `fexp`: the exponent of the unit in the last place -/

theorem nat_log2_bounds (n : Nat) (hn : n ≠ 0) :
    (2 : Rat) ^ (n.log2 : Int) ≤ (n : Rat) ∧ (n : Rat) < (2 : Rat) ^ ((n.log2 : Int) + 1) := by
  constructor
  · rw [zpow_natCast]
    exact_mod_cast Nat.log2_self_le hn
  · have : (n.log2 : Int) + 1 = ((n.log2 + 1 : Nat) : Int) := by push_cast; ring
    rw [this, zpow_natCast]
    exact_mod_cast (Nat.lt_log2_self (n := n))

/-- the first guess of the binade from the bit lengths of numerator and denominator is off by at
most one -/
theorem rat_bracket (a : Rat) (ha : 0 < a) :
    (2 : Rat) ^ ((Nat.log2 a.num.natAbs : Int) - (Nat.log2 a.den : Int) - 1) < a ∧
    a < (2 : Rat) ^ ((Nat.log2 a.num.natAbs : Int) - (Nat.log2 a.den : Int) + 1) := by
  have hnum : 0 < a.num := Rat.num_pos.mpr ha
  have hn0 : a.num.natAbs ≠ 0 := by omega
  have hd0 : a.den ≠ 0 := a.den_nz
  obtain ⟨n1, n2⟩ := nat_log2_bounds a.num.natAbs hn0
  obtain ⟨d1, d2⟩ := nat_log2_bounds a.den hd0
  have hcast : ((a.num.natAbs : Nat) : Rat) = (a.num : Rat) := by
    rw [Nat.cast_natAbs, abs_of_pos hnum]
  have hdpos : (0 : Rat) < (a.den : Rat) := by exact_mod_cast Nat.pos_of_ne_zero hd0
  have hmul : a * (a.den : Rat) = ((a.num.natAbs : Nat) : Rat) := by
    rw [hcast]
    exact ((div_eq_iff (ne_of_gt hdpos)).mp (Rat.num_div_den a)).symm
  generalize (Nat.log2 a.num.natAbs : Int) = ln at *
  generalize (Nat.log2 a.den : Int) = ld at *
  generalize ((a.num.natAbs : Nat) : Rat) = n at *
  generalize (a.den : Rat) = d at *
  constructor
  · have e : (2 : Rat) ^ (ln - ld - 1) * (2 : Rat) ^ (ld + 1) = (2 : Rat) ^ ln := by
      rw [← z2_add]; congr 1; ring
    have h1 : (2 : Rat) ^ (ln - ld - 1) * d < (2 : Rat) ^ (ln - ld - 1) * (2 : Rat) ^ (ld + 1) :=
      mul_lt_mul_of_pos_left d2 (z2_pos _)
    have h2 : (2 : Rat) ^ (ln - ld - 1) * d < a * d := by linarith
    exact lt_of_mul_lt_mul_right h2 (le_of_lt hdpos)
  · have e : (2 : Rat) ^ (ln - ld + 1) * (2 : Rat) ^ ld = (2 : Rat) ^ (ln + 1) := by
      rw [← z2_add]; congr 1; ring
    have h1 : (2 : Rat) ^ (ln - ld + 1) * (2 : Rat) ^ ld ≤ (2 : Rat) ^ (ln - ld + 1) * d :=
      mul_le_mul_of_nonneg_left d1 (le_of_lt (z2_pos _))
    have h2 : a * d < (2 : Rat) ^ (ln - ld + 1) * d := by linarith
    exact lt_of_mul_lt_mul_right h2 (le_of_lt hdpos)

/-- specification of `fexp` for `a > 0`: `E ≥ emin`, `a < 2^(E+prec)`, and `2^(E+prec−1) ≤ a` unless
the exponent was clamped to the subnormal one -/
theorem fexp_spec (prec emin : Int) (a : Rat) (ha : 0 < a) :
    emin ≤ fexp prec emin a ∧ a < (2 : Rat) ^ (fexp prec emin a + prec) ∧
      (fexp prec emin a = emin ∨ (2 : Rat) ^ (fexp prec emin a + prec - 1) ≤ a) := by
  obtain ⟨b1, b2⟩ := rat_bracket a ha
  unfold fexp
  simp only [pow2_zpow]
  generalize (Nat.log2 a.num.natAbs : Int) - (Nat.log2 a.den : Int) = k at *
  have e0 : k - (prec - 1) + (prec - 1) = k := by ring
  rw [e0]
  split_ifs with hlt
  · -- a < 2^k
    have hb : (2 : Rat) ^ (k - (prec - 1) - 1 + prec - 1) ≤ a := by
      have : k - (prec - 1) - 1 + prec - 1 = k - 1 := by ring
      rw [this]; exact le_of_lt b1
    have hu : a < (2 : Rat) ^ (k - (prec - 1) - 1 + prec) := by
      have : k - (prec - 1) - 1 + prec = k := by ring
      rw [this]; exact hlt
    refine ⟨le_max_right _ _, ?_, ?_⟩
    · exact lt_of_lt_of_le hu
        (z2_le (by have := le_max_left (k - (prec - 1) - 1) emin; omega))
    · rcases le_total (k - (prec - 1) - 1) emin with h | h
      · left; exact max_eq_right h
      · right; rw [max_eq_left h]; exact hb
  · have hb : (2 : Rat) ^ (k - (prec - 1) + prec - 1) ≤ a := by
      have : k - (prec - 1) + prec - 1 = k := by ring
      rw [this]; exact not_lt.mp hlt
    have hu : a < (2 : Rat) ^ (k - (prec - 1) + prec) := by
      have : k - (prec - 1) + prec = k + 1 := by ring
      rw [this]; exact b2
    refine ⟨le_max_right _ _, ?_, ?_⟩
    · exact lt_of_lt_of_le hu (z2_le (by have := le_max_left (k - (prec - 1)) emin; omega))
    · rcases le_total (k - (prec - 1)) emin with h | h
      · left; exact max_eq_right h
      · right; rw [max_eq_left h]; exact hb

theorem fexp_mono (prec emin : Int) {x y : Rat} (hx : 0 < x) (hxy : x ≤ y) :
    fexp prec emin x ≤ fexp prec emin y := by
  obtain ⟨x1, x2, x3⟩ := fexp_spec prec emin x hx
  obtain ⟨y1, y2, y3⟩ := fexp_spec prec emin y (lt_of_lt_of_le hx hxy)
  by_contra hn
  have hgt : fexp prec emin y < fexp prec emin x := not_le.mp hn
  rcases x3 with h | h
  · omega
  · have : (2 : Rat) ^ (fexp prec emin x + prec - 1) < (2 : Rat) ^ (fexp prec emin y + prec) := by
      linarith
    have := z2_lt_imp this
    omega

/-! ### `fround`: sign, range, monotonicity -/

variable {prec emin : Int}

theorem fround_zero : fround prec emin 0 = 0 := by simp [fround]

theorem fround_of_pos {a : Rat} (ha : 0 < a) :
    fround prec emin a =
      (roundHalfEven (a / (2 : Rat) ^ fexp prec emin a) : Rat) * (2 : Rat) ^ fexp prec emin a := by
  unfold fround
  rw [if_neg (ne_of_gt ha), if_neg (not_lt.mpr (le_of_lt ha)), pow2_zpow]

theorem fround_of_neg {a : Rat} (ha : a < 0) : fround prec emin a = -fround prec emin (-a) := by
  have hp : 0 < -a := by linarith
  rw [fround_of_pos hp]
  unfold fround
  rw [if_neg (ne_of_lt ha), if_pos ha, pow2_zpow]

/-- `fround` is odd -/
theorem fround_neg (a : Rat) : fround prec emin (-a) = -fround prec emin a := by
  rcases lt_trichotomy a 0 with h | h | h
  · rw [fround_of_neg h, neg_neg]
  · subst h; simp [fround_zero]
  · have : -a < 0 := by linarith
    rw [fround_of_neg this, neg_neg]

theorem fround_nonneg {a : Rat} (ha : 0 ≤ a) : 0 ≤ fround prec emin a := by
  rcases eq_or_lt_of_le ha with h | h
  · rw [← h, fround_zero]
  · rw [fround_of_pos h]
    apply mul_nonneg _ (le_of_lt (z2_pos _))
    have : (0 : Int) ≤ roundHalfEven (a / (2 : Rat) ^ fexp prec emin a) :=
      rne_ge_int (by push_cast; exact div_nonneg ha (le_of_lt (z2_pos _)))
    exact_mod_cast this

theorem fround_nonpos {a : Rat} (ha : a ≤ 0) : fround prec emin a ≤ 0 := by
  have h := fround_nonneg (prec := prec) (emin := emin) (a := -a) (by linarith)
  rw [fround_neg] at h
  linarith

/-- the rounded value of `a > 0` is `M·2^E` with an integer significand `0 ≤ M ≤ 2^prec` and
`E = fexp a ≥ emin` -/
theorem fround_repr (hp : 0 ≤ prec) {a : Rat} (ha : 0 < a) :
    ∃ M : Int, 0 ≤ M ∧ (M : Rat) ≤ (2 : Rat) ^ prec ∧
      fround prec emin a = (M : Rat) * (2 : Rat) ^ fexp prec emin a := by
  obtain ⟨_, h2, _⟩ := fexp_spec prec emin a ha
  refine ⟨roundHalfEven (a / (2 : Rat) ^ fexp prec emin a), ?_, ?_, fround_of_pos ha⟩
  · exact rne_ge_int (by push_cast; exact div_nonneg (le_of_lt ha) (le_of_lt (z2_pos _)))
  · rw [z2_int hp]
    have hq : a / (2 : Rat) ^ fexp prec emin a ≤ (((2 : Int) ^ prec.toNat : Int) : Rat) := by
      rw [div_le_iff₀ (z2_pos _), ← z2_int hp, ← z2_add, add_comm]
      exact le_of_lt h2
    exact_mod_cast rne_le_int hq

/-- a positive value never rounds above the top of its binade -/
theorem fround_le_top (hp : 0 ≤ prec) {a : Rat} (ha : 0 < a) :
    fround prec emin a ≤ (2 : Rat) ^ (fexp prec emin a + prec) := by
  obtain ⟨M, _, hM, hr⟩ := fround_repr (emin := emin) hp ha
  rw [hr, add_comm, z2_add]
  exact mul_le_mul_of_nonneg_right hM (le_of_lt (z2_pos _))

/-- a positive normal value never rounds below the bottom of its binade -/
theorem fround_ge_bottom (hp : 1 ≤ prec) {a : Rat} (ha : 0 < a)
    (hb : (2 : Rat) ^ (fexp prec emin a + prec - 1) ≤ a) :
    (2 : Rat) ^ (fexp prec emin a + prec - 1) ≤ fround prec emin a := by
  have hp1 : 0 ≤ prec - 1 := by omega
  have e1 : (2 : Rat) ^ (fexp prec emin a + prec - 1) =
      (((2 : Int) ^ (prec - 1).toNat : Int) : Rat) * (2 : Rat) ^ fexp prec emin a := by
    rw [← z2_int hp1, ← z2_add]; congr 1; ring
  rw [fround_of_pos ha, e1]
  apply mul_le_mul_of_nonneg_right _ (le_of_lt (z2_pos _))
  have hq : (((2 : Int) ^ (prec - 1).toNat : Int) : Rat) ≤ a / (2 : Rat) ^ fexp prec emin a := by
    rw [le_div_iff₀ (z2_pos _), ← e1]
    exact hb
  exact_mod_cast rne_ge_int hq

theorem fround_mono_pos (hp : 1 ≤ prec) {x y : Rat} (hx : 0 < x) (hxy : x ≤ y) :
    fround prec emin x ≤ fround prec emin y := by
  have hy : 0 < y := lt_of_lt_of_le hx hxy
  have hE := fexp_mono prec emin hx hxy
  rcases eq_or_lt_of_le hE with he | hlt
  · rw [fround_of_pos hx, fround_of_pos hy, he]
    apply mul_le_mul_of_nonneg_right _ (le_of_lt (z2_pos _))
    have : roundHalfEven (x / (2 : Rat) ^ fexp prec emin y) ≤
        roundHalfEven (y / (2 : Rat) ^ fexp prec emin y) :=
      rne_mono (div_le_div_of_nonneg_right hxy (le_of_lt (z2_pos _)))
    exact_mod_cast this
  · obtain ⟨x1, _, _⟩ := fexp_spec prec emin x hx
    obtain ⟨_, _, y3⟩ := fexp_spec prec emin y hy
    have hyb : (2 : Rat) ^ (fexp prec emin y + prec - 1) ≤ y := by
      rcases y3 with h | h
      · omega
      · exact h
    calc fround prec emin x ≤ (2 : Rat) ^ (fexp prec emin x + prec) :=
          fround_le_top (by omega) hx
      _ ≤ (2 : Rat) ^ (fexp prec emin y + prec - 1) := z2_le (by omega)
      _ ≤ fround prec emin y := fround_ge_bottom hp hy hyb

/-- **`fround` is monotone** -/
theorem fround_mono (hp : 1 ≤ prec) {x y : Rat} (hxy : x ≤ y) :
    fround prec emin x ≤ fround prec emin y := by
  rcases lt_trichotomy x 0 with hx | hx | hx
  · rw [fround_of_neg hx]
    rcases lt_or_ge y 0 with hy | hy
    · rw [fround_of_neg hy]
      have : fround prec emin (-y) ≤ fround prec emin (-x) :=
        fround_mono_pos hp (by linarith) (by linarith)
      linarith
    · have h1 : 0 ≤ fround prec emin (-x) := fround_nonneg (by linarith)
      have h2 := fround_nonneg (prec := prec) (emin := emin) hy
      linarith
  · subst hx; rw [fround_zero]; exact fround_nonneg hxy
  · exact fround_mono_pos hp hx hxy

/-! ### exactness -/

/-- `m·2^k` with `0 < m < 2^prec`, `k ≥ emin` is representable -/
theorem fround_exact_pos (m k : Int) (hm0 : 0 < m) (hm : (m : Rat) < (2 : Rat) ^ prec)
    (hk : emin ≤ k) :
    fround prec emin ((m : Rat) * (2 : Rat) ^ k) = (m : Rat) * (2 : Rat) ^ k := by
  have hmq : (0 : Rat) < (m : Rat) := by exact_mod_cast hm0
  have hq : 0 < (m : Rat) * (2 : Rat) ^ k := mul_pos hmq (z2_pos k)
  obtain ⟨s1, s2, s3⟩ := fexp_spec prec emin _ hq
  rw [fround_of_pos hq]
  generalize fexp prec emin ((m : Rat) * (2 : Rat) ^ k) = E at *
  have hEk : E ≤ k := by
    rcases s3 with h | h
    · omega
    · have h5 : (m : Rat) * (2 : Rat) ^ k < (2 : Rat) ^ (prec + k) := by
        rw [z2_add]
        exact mul_lt_mul_of_pos_right hm (z2_pos k)
      have := z2_lt_imp (lt_of_le_of_lt h h5)
      omega
  have hsplit : (2 : Rat) ^ k = (2 : Rat) ^ (((k - E).toNat : Nat) : Int) * (2 : Rat) ^ E := by
    rw [← z2_add]; congr 1; omega
  have hdiv : (m : Rat) * (2 : Rat) ^ k / (2 : Rat) ^ E =
      ((m * (2 : Int) ^ (k - E).toNat : Int) : Rat) := by
    rw [hsplit, z2_nat, ← mul_assoc, mul_div_assoc, div_self (z2_ne E)]
    push_cast
    ring
  rw [hdiv, rne_int, hsplit, z2_nat]
  push_cast
  ring

/-- **`fround` is exact on dyadic rationals with at most `prec` significant bits**, down to the
subnormal exponent: `m·2^k` with `|m| ≤ 2^prec` and `k ≥ emin` (the model has no overflow) -/
theorem fround_exact_dyadic (hp : 1 ≤ prec) (m k : Int)
    (hm : -(2 : Rat) ^ prec ≤ (m : Rat) ∧ (m : Rat) ≤ (2 : Rat) ^ prec) (hk : emin ≤ k) :
    fround prec emin ((m : Rat) * (2 : Rat) ^ k) = (m : Rat) * (2 : Rat) ^ k := by
  have one_lt : ((1 : Int) : Rat) < (2 : Rat) ^ prec := by
    have h := z2_le (a := 1) (b := prec) hp
    norm_num at h ⊢
    linarith
  have pos : ∀ m : Int, 0 < m → (m : Rat) ≤ (2 : Rat) ^ prec →
      fround prec emin ((m : Rat) * (2 : Rat) ^ k) = (m : Rat) * (2 : Rat) ^ k := by
    intro m h0 h1
    rcases eq_or_lt_of_le h1 with h | h
    · have e : (m : Rat) * (2 : Rat) ^ k = ((1 : Int) : Rat) * (2 : Rat) ^ (prec + k) := by
        rw [h, z2_add]; norm_num
      rw [e]
      exact fround_exact_pos 1 (prec + k) (by norm_num) one_lt (by omega)
    · exact fround_exact_pos m k h0 h hk
  rcases lt_trichotomy m 0 with h | h | h
  · have := pos (-m) (by omega) (by push_cast; linarith [hm.1])
    have e : (m : Rat) * (2 : Rat) ^ k = -(((-m : Int) : Rat) * (2 : Rat) ^ k) := by
      push_cast; ring
    rw [e, fround_neg, this]
  · subst h; simp [fround_zero]
  · exact pos m h hm.2

/-- powers of two (from the smallest subnormal up) are representable -/
theorem fround_pow2 (hp : 1 ≤ prec) {k : Int} (hk : emin ≤ k) :
    fround prec emin ((2 : Rat) ^ k) = (2 : Rat) ^ k := by
  have one_le : ((1 : Int) : Rat) ≤ (2 : Rat) ^ prec := by
    have h := z2_le (a := 0) (b := prec) (by omega)
    norm_num at h ⊢
    exact h
  have := fround_exact_dyadic (emin := emin) hp 1 k
    ⟨by have := z2_pos prec; push_cast; linarith, one_le⟩ hk
  simpa using this

/-- a `prec`-bit value is a `prec'`-bit value for `prec ≤ prec'`, `emin' ≤ emin`
(e.g. `float → double` conversion is exact) -/
theorem fround_fround_of_le {prec' emin' : Int} (hp : 0 ≤ prec) (hp' : 1 ≤ prec')
    (hpp : prec ≤ prec') (hee : emin' ≤ emin) (x : Rat) :
    fround prec' emin' (fround prec emin x) = fround prec emin x := by
  have pos : ∀ a : Rat, 0 < a →
      fround prec' emin' (fround prec emin a) = fround prec emin a := by
    intro a ha
    obtain ⟨M, hM0, hM, hr⟩ := fround_repr (emin := emin) hp ha
    obtain ⟨s1, _, _⟩ := fexp_spec prec emin a ha
    rw [hr]
    have hMq : (0 : Rat) ≤ (M : Rat) := by exact_mod_cast hM0
    have hM' : (M : Rat) ≤ (2 : Rat) ^ prec' := le_trans hM (z2_le hpp)
    exact fround_exact_dyadic hp' M _ ⟨by have := z2_pos prec'; linarith, hM'⟩ (by omega)
  rcases lt_trichotomy x 0 with h | h | h
  · have := pos (-x) (by linarith)
    rw [fround_neg, fround_neg, neg_inj] at this
    exact this
  · subst h; rw [fround_zero, fround_zero]
  · exact pos x h

/-- `fround` is idempotent -/
theorem fround_idem (hp : 1 ≤ prec) (x : Rat) :
    fround prec emin (fround prec emin x) = fround prec emin x :=
  fround_fround_of_le (by omega) hp (le_refl _) (le_refl _) x

/-- scaling a rounded value by a power of two is exact when the result does not underflow:
`x ≥ 2^(emin+prec−1−k)`, i.e. `x·2^k` is at least the smallest normal number -/
theorem fround_mul_pow2 (hp : 1 ≤ prec) (k : Int) {x : Rat}
    (hx : (2 : Rat) ^ (emin + prec - 1 - k) ≤ x) :
    fround prec emin (fround prec emin x * (2 : Rat) ^ k) = fround prec emin x * (2 : Rat) ^ k := by
  have hx0 : 0 < x := lt_of_lt_of_le (z2_pos _) hx
  obtain ⟨M, hM0, hM, hr⟩ := fround_repr (emin := emin) (by omega : 0 ≤ prec) hx0
  obtain ⟨s1, s2, _⟩ := fexp_spec prec emin x hx0
  have hlt := z2_lt_imp (lt_of_le_of_lt hx s2)
  have hMq : (0 : Rat) ≤ (M : Rat) := by exact_mod_cast hM0
  have e : fround prec emin x * (2 : Rat) ^ k = (M : Rat) * (2 : Rat) ^ (fexp prec emin x + k) := by
    rw [hr, z2_add]; ring
  rw [e]
  exact fround_exact_dyadic hp M _ ⟨by have := z2_pos prec; linarith, hM⟩ (by omega)

/-! ### error bounds -/

/-- absolute error at most half a unit in the last place -/
theorem fround_le_add_half_ulp {a : Rat} (ha : 0 < a) :
    fround prec emin a ≤ a + (2 : Rat) ^ fexp prec emin a / 2 := by
  rw [fround_of_pos ha]
  have h := rne_le_add_half (a / (2 : Rat) ^ fexp prec emin a)
  have h2 := mul_le_mul_of_nonneg_right h (le_of_lt (z2_pos (fexp prec emin a)))
  have e : (a / (2 : Rat) ^ fexp prec emin a + 1 / 2) * (2 : Rat) ^ fexp prec emin a =
      a + (2 : Rat) ^ fexp prec emin a / 2 := by
    rw [add_mul, div_mul_cancel₀ _ (z2_ne _)]; ring
  rw [e] at h2
  exact h2

theorem fround_ge_sub_half_ulp {a : Rat} (ha : 0 < a) :
    a - (2 : Rat) ^ fexp prec emin a / 2 ≤ fround prec emin a := by
  rw [fround_of_pos ha]
  have h := rne_ge_sub_half (a / (2 : Rat) ^ fexp prec emin a)
  have h2 := mul_le_mul_of_nonneg_right h (le_of_lt (z2_pos (fexp prec emin a)))
  have e : (a / (2 : Rat) ^ fexp prec emin a - 1 / 2) * (2 : Rat) ^ fexp prec emin a =
      a - (2 : Rat) ^ fexp prec emin a / 2 := by
    rw [sub_mul, div_mul_cancel₀ _ (z2_ne _)]; ring
  rw [e] at h2
  exact h2

/-- in the normal range half an ulp is at most `x·2^(−prec)` -/
theorem half_ulp_le {x : Rat} (hx : (2 : Rat) ^ (emin + prec - 1) ≤ x) :
    (2 : Rat) ^ fexp prec emin x / 2 ≤ x * (2 : Rat) ^ (-prec) := by
  have hx0 : 0 < x := lt_of_lt_of_le (z2_pos _) hx
  obtain ⟨_, _, s3⟩ := fexp_spec prec emin x hx0
  have hb : (2 : Rat) ^ (fexp prec emin x + prec - 1) ≤ x := by
    rcases s3 with h | h
    · rw [h]; exact hx
    · exact h
  have e : (2 : Rat) ^ fexp prec emin x / 2 =
      (2 : Rat) ^ (fexp prec emin x + prec - 1) * (2 : Rat) ^ (-prec) := by
    rw [← z2_pred, ← z2_add]; congr 1; ring
  rw [e]
  exact mul_le_mul_of_nonneg_right hb (le_of_lt (z2_pos _))

/-- **relative error `≤ 2^(−prec)` in the normal range** (upper side) -/
theorem fround_rel_le {x : Rat} (hx : (2 : Rat) ^ (emin + prec - 1) ≤ x) :
    fround prec emin x ≤ x * (1 + (2 : Rat) ^ (-prec)) := by
  have hx0 : 0 < x := lt_of_lt_of_le (z2_pos _) hx
  have h1 := fround_le_add_half_ulp (prec := prec) (emin := emin) hx0
  have h2 := half_ulp_le hx
  rw [mul_add, mul_one]
  linarith

/-- **relative error `≤ 2^(−prec)` in the normal range** (lower side) -/
theorem fround_rel_ge {x : Rat} (hx : (2 : Rat) ^ (emin + prec - 1) ≤ x) :
    x * (1 - (2 : Rat) ^ (-prec)) ≤ fround prec emin x := by
  have hx0 : 0 < x := lt_of_lt_of_le (z2_pos _) hx
  have h1 := fround_ge_sub_half_ulp (prec := prec) (emin := emin) hx0
  have h2 := half_ulp_le hx
  rw [mul_sub, mul_one]
  linarith

/-- two-sided form for either sign: `|fround x − x| ≤ |x|·2^(−prec)` when `|x|` is normal -/
theorem fround_abs_rel {x : Rat} (hx : (2 : Rat) ^ (emin + prec - 1) ≤ |x|) :
    |fround prec emin x - x| ≤ |x| * (2 : Rat) ^ (-prec) := by
  rcases le_total 0 x with h | h
  · rw [abs_of_nonneg h] at hx ⊢
    have h1 := fround_rel_le hx
    have h2 := fround_rel_ge hx
    rw [abs_le]
    constructor <;> linarith
  · rw [abs_of_nonpos h] at hx ⊢
    have h1 := fround_rel_le hx
    have h2 := fround_rel_ge hx
    rw [fround_neg] at h1 h2
    rw [abs_le]
    constructor <;> linarith

/-- crude bound valid on the whole non-negative range, subnormals included -/
theorem fround_le_two_mul {x : Rat} (hx : 0 ≤ x) :
    fround prec emin x ≤ 2 * x := by
  rcases eq_or_lt_of_le hx with h | h
  · rw [← h, fround_zero]; norm_num
  · obtain ⟨s1, s2, s3⟩ := fexp_spec prec emin x h
    rcases le_or_gt ((2 : Rat) ^ fexp prec emin x / 2) x with hc | hc
    · have := fround_le_add_half_ulp (prec := prec) (emin := emin) h
      linarith
    · -- x below half an ulp: rounds to 0
      rw [fround_of_pos h]
      have hr : x / (2 : Rat) ^ fexp prec emin x < 1 / 2 := by
        rw [div_lt_iff₀ (z2_pos _)]; linarith
      have hfl : (x / (2 : Rat) ^ fexp prec emin x).floor = 0 := by
        have h0 : (0 : Int) ≤ (x / (2 : Rat) ^ fexp prec emin x).floor :=
          Rat.le_floor_iff.mpr (by push_cast; exact div_nonneg hx (le_of_lt (z2_pos _)))
        have h1 : (x / (2 : Rat) ^ fexp prec emin x).floor < 1 :=
          Rat.floor_lt_iff.mpr (by push_cast; linarith)
        omega
      have hz : roundHalfEven (x / (2 : Rat) ^ fexp prec emin x) = 0 := by
        unfold roundHalfEven
        rw [hfl, if_pos (by push_cast; linarith)]
      rw [hz]
      push_cast
      linarith

/-! ### binary64 -/

theorem f64_zero : f64 0 = 0 := fround_zero

/-- `f64` is odd -/
theorem f64_neg (x : Rat) : f64 (-x) = -f64 x := fround_neg x

theorem f64_nonneg {q : Rat} (h : 0 ≤ q) : 0 ≤ f64 q := fround_nonneg h

theorem f64_nonpos {q : Rat} (h : q ≤ 0) : f64 q ≤ 0 := fround_nonpos h

/-- **`f64` is monotone** -/
theorem f64_mono {x y : Rat} (h : x ≤ y) : f64 x ≤ f64 y := fround_mono (by norm_num) h

theorem f64_idem (x : Rat) : f64 (f64 x) = f64 x := fround_idem (by norm_num) x

/-- **`f64` is exact on `m·2^k`, `|m| ≤ 2^53`, `k ≥ −1074`** -/
theorem f64_exact_dyadic (m k : Int) (hm : |m| ≤ 2 ^ 53) (hk : -1074 ≤ k) :
    f64 ((m : Rat) * (2 : Rat) ^ k) = (m : Rat) * (2 : Rat) ^ k := by
  obtain ⟨h1, h2⟩ := abs_le.mp hm
  have e : (2 : Rat) ^ (53 : Int) = (((2 : Int) ^ 53 : Int) : Rat) := by norm_num
  refine fround_exact_dyadic (by norm_num) m k ?_ hk
  rw [e]
  exact ⟨by exact_mod_cast h1, by exact_mod_cast h2⟩

/-- **`f64` is exact on the integers `|v| ≤ 2^53`** -/
theorem f64_exact_int (v : Int) (hv : |v| ≤ 2 ^ 53) : f64 (v : Rat) = (v : Rat) := by
  have := f64_exact_dyadic v 0 hv (by norm_num)
  simpa using this

theorem f64_pow2 {k : Int} (hk : -1074 ≤ k) : f64 ((2 : Rat) ^ k) = (2 : Rat) ^ k :=
  fround_pow2 (by norm_num) hk

/-- **relative error of `f64` in the normal range**, upper side -/
theorem f64_rel_le {x : Rat} (hx : (2 : Rat) ^ (-1022 : Int) ≤ x) :
    f64 x ≤ x * (1 + (2 : Rat) ^ (-53 : Int)) :=
  fround_rel_le (prec := 53) (emin := -1074) hx

/-- **relative error of `f64` in the normal range**, lower side -/
theorem f64_rel_ge {x : Rat} (hx : (2 : Rat) ^ (-1022 : Int) ≤ x) :
    x * (1 - (2 : Rat) ^ (-53 : Int)) ≤ f64 x :=
  fround_rel_ge (prec := 53) (emin := -1074) hx

theorem f64_abs_rel {x : Rat} (hx : (2 : Rat) ^ (-1022 : Int) ≤ |x|) :
    |f64 x - x| ≤ |x| * (2 : Rat) ^ (-53 : Int) :=
  fround_abs_rel (prec := 53) (emin := -1074) hx

theorem f64_le_two_mul {x : Rat} (hx : 0 ≤ x) : f64 x ≤ 2 * x :=
  fround_le_two_mul hx

/-- a normal argument has a normal result -/
theorem f64_ge_pow2 {k : Int} (hk : -1074 ≤ k) {x : Rat} (hx : (2 : Rat) ^ k ≤ x) :
    (2 : Rat) ^ k ≤ f64 x := by
  have := f64_mono hx
  rwa [f64_pow2 hk] at this

/-- scaling a double by `2^k` is exact when `x·2^k` stays normal -/
theorem f64_mul_pow2 (k : Int) {x : Rat} (hx : (2 : Rat) ^ (-1022 - k) ≤ x) :
    f64 (f64 x * (2 : Rat) ^ k) = f64 x * (2 : Rat) ^ k := by
  refine fround_mul_pow2 (prec := 53) (emin := -1074) (by norm_num) k ?_
  have e : (-1074 : Int) + 53 - 1 - k = -1022 - k := by ring
  rw [e]
  exact hx

/-- **division of a double by 4 is exact in the normal range** -/
theorem f64_quarter {x : Rat} (hx : (2 : Rat) ^ (-1020 : Int) ≤ x) :
    f64 (f64 x / 4) = f64 x / 4 := by
  have h := f64_mul_pow2 (-2) (x := x) (by simpa using hx)
  have e : f64 x * (2 : Rat) ^ (-2 : Int) = f64 x / 4 := by
    rw [div_eq_mul_inv]; norm_num
  rwa [e] at h

/-! ### binary32 -/

/-- the generic instance is the `f32` of `Model/Legalize.lean` -/
theorem f32'_eq_f32 (q : Rat) : f32' q = ColoVerif.Legalize.f32 q := rfl

theorem f32'_zero : f32' 0 = 0 := fround_zero

theorem f32'_neg (x : Rat) : f32' (-x) = -f32' x := fround_neg x

theorem f32'_nonneg {q : Rat} (h : 0 ≤ q) : 0 ≤ f32' q := fround_nonneg h

theorem f32'_mono {x y : Rat} (h : x ≤ y) : f32' x ≤ f32' y := fround_mono (by norm_num) h

theorem f32'_idem (x : Rat) : f32' (f32' x) = f32' x := fround_idem (by norm_num) x

theorem f32'_exact_dyadic (m k : Int) (hm : |m| ≤ 2 ^ 24) (hk : -149 ≤ k) :
    f32' ((m : Rat) * (2 : Rat) ^ k) = (m : Rat) * (2 : Rat) ^ k := by
  obtain ⟨h1, h2⟩ := abs_le.mp hm
  have e : (2 : Rat) ^ (24 : Int) = (((2 : Int) ^ 24 : Int) : Rat) := by norm_num
  refine fround_exact_dyadic (by norm_num) m k ?_ hk
  rw [e]
  exact ⟨by exact_mod_cast h1, by exact_mod_cast h2⟩

theorem f32'_exact_int (v : Int) (hv : |v| ≤ 2 ^ 24) : f32' (v : Rat) = (v : Rat) := by
  have := f32'_exact_dyadic v 0 hv (by norm_num)
  simpa using this

theorem f32'_rel_le {x : Rat} (hx : (2 : Rat) ^ (-126 : Int) ≤ x) :
    f32' x ≤ x * (1 + (2 : Rat) ^ (-24 : Int)) :=
  fround_rel_le (prec := 24) (emin := -149) hx

theorem f32'_rel_ge {x : Rat} (hx : (2 : Rat) ^ (-126 : Int) ≤ x) :
    x * (1 - (2 : Rat) ^ (-24 : Int)) ≤ f32' x :=
  fround_rel_ge (prec := 24) (emin := -149) hx

theorem f32'_le_two_mul {x : Rat} (hx : 0 ≤ x) : f32' x ≤ 2 * x :=
  fround_le_two_mul hx

/-- `float → double` conversion is exact -/
theorem f64_f32' (x : Rat) : f64 (f32' x) = f32' x :=
  fround_fround_of_le (by norm_num) (by norm_num) (by norm_num) (by norm_num) x

/-! ### `roundAway` (`std::round`) -/

theorem roundAway_nonneg {q : Rat} (h : 0 ≤ q) : 0 ≤ roundAway q := by
  unfold roundAway
  rw [if_pos h]
  exact Rat.le_floor_iff.mpr (by push_cast; linarith)

theorem roundAway_nonpos {q : Rat} (h : q ≤ 0) : roundAway q ≤ 0 := by
  unfold roundAway
  split_ifs with h0
  · have : q = 0 := le_antisymm h h0
    subst this
    have : ((0 : Rat) + 1 / 2).floor < 1 := Rat.floor_lt_iff.mpr (by norm_num)
    omega
  · have : (0 : Int) ≤ (-q + 1 / 2).floor := Rat.le_floor_iff.mpr (by push_cast; linarith)
    omega

/-- `std::round(q) ≤ n` whenever `q < n + 1/2` -/
theorem roundAway_le {q : Rat} {n : Int} (h : q < (n : Rat) + 1 / 2) : roundAway q ≤ n := by
  unfold roundAway
  split_ifs with h0
  · have : (q + 1 / 2).floor < n + 1 := Rat.floor_lt_iff.mpr (by push_cast; linarith)
    omega
  · have : -n ≤ (-q + 1 / 2).floor := Rat.le_floor_iff.mpr (by push_cast; linarith)
    omega

/-- `n ≤ std::round(q)` whenever `n − 1/2 < q` -/
theorem le_roundAway {q : Rat} {n : Int} (h : (n : Rat) - 1 / 2 < q) : n ≤ roundAway q := by
  unfold roundAway
  split_ifs with h0
  · exact Rat.le_floor_iff.mpr (by linarith)
  · have : (-q + 1 / 2).floor < -n + 1 := Rat.floor_lt_iff.mpr (by push_cast; linarith)
    omega

theorem roundAway_le_add_half (q : Rat) : (roundAway q : Rat) ≤ q + 1 / 2 := by
  unfold roundAway
  split_ifs with h0
  · exact Rat.floor_le _
  · have := Rat.lt_floor_add_one (-q + 1 / 2)
    push_cast at this ⊢
    linarith

theorem sub_half_le_roundAway (q : Rat) : q - 1 / 2 ≤ (roundAway q : Rat) := by
  unfold roundAway
  split_ifs with h0
  · have := Rat.lt_floor_add_one (q + 1 / 2)
    push_cast at this
    linarith
  · have := Rat.floor_le (-q + 1 / 2)
    push_cast
    linarith

theorem roundAway_int (n : Int) : roundAway (n : Rat) = n := by
  apply le_antisymm
  · exact roundAway_le (by linarith)
  · exact le_roundAway (by linarith)

theorem roundAway_mono {x y : Rat} (h : x ≤ y) : roundAway x ≤ roundAway y := by
  rcases lt_or_ge x 0 with hx | hx
  · rcases lt_or_ge y 0 with hy | hy
    · unfold roundAway
      rw [if_neg (not_le.mpr hx), if_neg (not_le.mpr hy)]
      have : (-y + 1 / 2).floor ≤ (-x + 1 / 2).floor := Rat.floor_monotone (by linarith)
      omega
    · exact le_trans (roundAway_nonpos (le_of_lt hx)) (roundAway_nonneg hy)
  · have hy : 0 ≤ y := le_trans hx h
    unfold roundAway
    rw [if_pos hx, if_pos hy]
    exact Rat.floor_monotone (by linarith)

/-! ### `f32sqrt` -/

theorem pow2_nonneg (e : Int) : 0 ≤ pow2 e := by
  rw [pow2_zpow]; exact le_of_lt (z2_pos e)

theorem f32sqrt_aux (s : Nat) {p : Rat} (hp : 0 ≤ p) :
    0 ≤ f32' ((s : Rat) * p) ∧ 0 ≤ f32' (((s : Rat) + 1 / 2) * p) := by
  have hs : (0 : Rat) ≤ (s : Rat) := Nat.cast_nonneg s
  exact ⟨f32'_nonneg (mul_nonneg hs hp), f32'_nonneg (mul_nonneg (by linarith) hp)⟩

theorem f32sqrt_nonneg (q : Rat) : 0 ≤ f32sqrt q := by
  unfold f32sqrt
  split_ifs
  · exact le_refl _
  · dsimp only
    split_ifs
    · exact (f32sqrt_aux _ (pow2_nonneg _)).1
    · exact (f32sqrt_aux _ (pow2_nonneg _)).2

theorem f32sqrt_of_nonpos {q : Rat} (h : q ≤ 0) : f32sqrt q = 0 := by
  unfold f32sqrt
  rw [if_pos h]

/-! ### evaluation -/

-- 1/3 as a double is 0x3FD5555555555555
example : f64 (1 / 3) = (6004799503160661 : Rat) / 2 ^ 54 := by decide +kernel
example : f32' (1 / 3) = (11184811 : Rat) / 2 ^ 25 := by decide +kernel
-- 0.1 as a double is 0x3FB999999999999A
example : f64 (1 / 10) = (7205759403792794 : Rat) / 2 ^ 56 := by decide +kernel
-- ties to even at the 53-bit boundary, and gradual underflow
example : f64 (2 ^ 53 + 1) = 2 ^ 53 := by decide +kernel
example : f64 (2 ^ 53 + 3) = 2 ^ 53 + 4 := by decide +kernel
example : f64 (3 / 2 ^ 1075) = 2 / 2 ^ 1074 := by decide +kernel
example : f64 (1 / 2 ^ 1075) = 0 := by decide +kernel
-- sqrtf(2) = 0x3FB504F3
example : f32sqrt 2 = (11863283 : Rat) / 2 ^ 23 := by decide +kernel
example : f32sqrt 9 = 3 := by decide +kernel
example : f32sqrt (1 / 4) = 1 / 2 := by decide +kernel
example : f32sqrt 0 = 0 := by decide +kernel
example : roundAway (5 / 2) = 3 := by decide +kernel
example : roundAway (-5 / 2) = -3 := by decide +kernel
example : roundAway (49 / 100) = 0 := by decide +kernel
example : (isqrt 99, isqrt 100, isqrt (2 ^ 60 - 1)) = (9, 10, 2 ^ 30 - 1) := by decide +kernel

-- non-vacuity of the hypotheses of the relative-error and scaling lemmas
example : (2 : Rat) ^ (-1022 : Int) ≤ 1 / 3 :=
  le_trans (z2_le (by norm_num)) (by norm_num : (2 : Rat) ^ (-2 : Int) ≤ 1 / 3)
example : f64 (f64 (1 / 3) / 4) = f64 (1 / 3) / 4 := by decide +kernel

/-! ### an upper bound for `f32sqrt` (no overflow of the L2 cost model) -/

/-- the Newton loop only decreases -/
theorem isqrtLoop_le (n : Nat) : ∀ fuel x, isqrtLoop n fuel x ≤ x
  | 0, x => by unfold isqrtLoop; exact le_refl _
  | fuel + 1, x => by
    unfold isqrtLoop
    split_ifs with h
    · exact le_trans (isqrtLoop_le n fuel _) (le_of_lt h)
    · exact le_refl _

/-- `isqrt n ≤ 2·√n`: the start value `2^(⌊log2 n⌋/2 + 1)` has square `≤ 4·2^⌊log2 n⌋ ≤ 4n` and the
loop only decreases (the sharp `isqrt n ^ 2 ≤ n` is validated by execution only) -/
theorem isqrt_sq_le (n : Nat) : isqrt n * isqrt n ≤ 4 * n := by
  unfold isqrt
  split_ifs with h0
  · omega
  · have h1 := isqrtLoop_le n (n.log2 + 2) (2 ^ (n.log2 / 2 + 1))
    have h2 : 2 ^ (n.log2 / 2 + 1) * 2 ^ (n.log2 / 2 + 1) ≤ 4 * 2 ^ n.log2 := by
      have e : (4 : Nat) * 2 ^ n.log2 = 2 ^ (n.log2 + 2) := by rw [pow_add]; omega
      rw [e, ← pow_add]
      exact Nat.pow_le_pow_right (by norm_num) (by omega)
    have h3 : 2 ^ n.log2 ≤ n := Nat.log2_self_le h0
    calc isqrtLoop n (n.log2 + 2) (2 ^ (n.log2 / 2 + 1)) *
          isqrtLoop n (n.log2 + 2) (2 ^ (n.log2 / 2 + 1))
        ≤ 2 ^ (n.log2 / 2 + 1) * 2 ^ (n.log2 / 2 + 1) := Nat.mul_le_mul h1 h1
      _ ≤ 4 * 2 ^ n.log2 := h2
      _ ≤ 4 * n := Nat.mul_le_mul_left 4 h3

theorem isqrt_floor_sq_le {t : Rat} (ht : 0 ≤ t) :
    ((isqrt t.floor.toNat : Nat) : Rat) * ((isqrt t.floor.toNat : Nat) : Rat) ≤ 4 * t := by
  have h := isqrt_sq_le t.floor.toNat
  have h0 : (0 : Int) ≤ t.floor := Rat.le_floor_iff.mpr (by push_cast; exact ht)
  have h1 : ((t.floor.toNat : Nat) : Int) = t.floor := Int.toNat_of_nonneg h0
  have h2 : ((t.floor.toNat : Nat) : Rat) = ((t.floor : Int) : Rat) := by exact_mod_cast h1
  have h3 : ((t.floor.toNat : Nat) : Rat) ≤ t := by rw [h2]; exact Rat.floor_le t
  have h4 : ((isqrt t.floor.toNat * isqrt t.floor.toNat : Nat) : Rat) ≤
      ((4 * t.floor.toNat : Nat) : Rat) := by exact_mod_cast h
  push_cast at h4
  linarith

theorem sqrt_bound_aux {s u t q B : Rat} (hu : 0 < u) (hB : 0 < B) (hss : s * s ≤ 4 * t)
    (htq : t * (u * u) = q) (huq : u * u ≤ q) (hqB : q ≤ B * B) : s * u ≤ 2 * B ∧ u ≤ B := by
  constructor
  · by_contra hn
    have h1 : 2 * B < s * u := not_le.mp hn
    have h2 : 2 * B * (2 * B) < s * u * (s * u) := mul_self_lt_mul_self (by linarith) h1
    have h3 : s * s * (u * u) ≤ 4 * t * (u * u) :=
      mul_le_mul_of_nonneg_right hss (le_of_lt (mul_pos hu hu))
    have e1 : s * u * (s * u) = s * s * (u * u) := by ring
    have e2 : 4 * t * (u * u) = 4 * q := by rw [← htq]; ring
    have e3 : 2 * B * (2 * B) = 4 * (B * B) := by ring
    rw [e1] at h2
    rw [e2] at h3
    rw [e3] at h2
    linarith
  · by_contra hn
    have h1 : B < u := not_le.mp hn
    have h2 : B * B < u * u := mul_self_lt_mul_self (le_of_lt hB) h1
    linarith

/-- **`sqrtf` of a value `≤ B²` is at most `8·B`** (crude: `isqrt ≤ 2√·`, the half added in the
inexact branch is `≤ B/2` after scaling, and `f32' x ≤ 2x`; in fact the bound proved is `5·B`) -/
theorem f32sqrt_le {q B : Rat} (hq : 0 ≤ q) (hB : 1 ≤ B) (hqB : q ≤ B * B) :
    f32sqrt q ≤ 8 * B := by
  have hB0 : 0 < B := by linarith
  unfold f32sqrt
  split_ifs with h0
  · linarith
  · dsimp only
    have hq0 : 0 < q := not_le.mp h0
    obtain ⟨b1, _⟩ := rat_bracket q hq0
    simp only [pow2_zpow]
    have hk2 : -(2 * sqrtScale q) ≤
        (Nat.log2 q.num.natAbs : Int) - (Nat.log2 q.den : Int) - 1 := by
      unfold sqrtScale; omega
    generalize sqrtScale q = k at *
    have hu : (0 : Rat) < (2 : Rat) ^ (-k) := z2_pos _
    have euu : (2 : Rat) ^ (-k) * (2 : Rat) ^ (-k) = (2 : Rat) ^ (-(2 * k)) := by
      rw [← z2_add]; congr 1; ring
    have huq : (2 : Rat) ^ (-k) * (2 : Rat) ^ (-k) ≤ q := by
      rw [euu]; exact le_trans (z2_le hk2) (le_of_lt b1)
    have htq : q * (2 : Rat) ^ (2 * k) * ((2 : Rat) ^ (-k) * (2 : Rat) ^ (-k)) = q := by
      rw [euu, mul_assoc, ← z2_add]
      have : 2 * k + -(2 * k) = 0 := by ring
      rw [this]; simp
    have ht0 : 0 ≤ q * (2 : Rat) ^ (2 * k) := mul_nonneg hq (le_of_lt (z2_pos _))
    obtain ⟨c1, c2⟩ := sqrt_bound_aux hu hB0 (isqrt_floor_sq_le ht0) htq huq hqB
    have hs : (0 : Rat) ≤ ((isqrt (q * (2 : Rat) ^ (2 * k)).floor.toNat : Nat) : Rat) :=
      Nat.cast_nonneg _
    generalize ((isqrt (q * (2 : Rat) ^ (2 * k)).floor.toNat : Nat) : Rat) = s at *
    have hs1 : 0 ≤ s * (2 : Rat) ^ (-k) := mul_nonneg hs (le_of_lt hu)
    have hs2 : 0 ≤ (s + 1 / 2) * (2 : Rat) ^ (-k) := mul_nonneg (by linarith) (le_of_lt hu)
    split_ifs
    · have := f32'_le_two_mul hs1
      linarith
    · have := f32'_le_two_mul hs2
      have e : 2 * ((s + 1 / 2) * (2 : Rat) ^ (-k)) = 2 * (s * (2 : Rat) ^ (-k)) + (2 : Rat) ^ (-k) := by
        ring
      linarith

-- non-vacuity / sanity
example : f32sqrt 1000000 ≤ 8 * 1000 :=
  f32sqrt_le (by norm_num) (by norm_num) (by norm_num)

end ColoVerif.F64
