import ColoVerif.Proofs.DetPlaceInit
import ColoVerif.Proofs.LegalizeLegalCircuit
/-
Rows of `DetailedPlacement` (helper lemmas for Properties/C02 `fromCircuit_ok_of_legal`, `inv_legal`):
* the constructor's sort of the rows by `(minY, minX)` and the `upper_bound` lookup `findRow`;
* how the free segments of `computeRows(extra obstacles)` sit inside the free segments of
  `computeRows()` (the ones C01's legality speaks about), both ways.
-/
namespace ColoVerif.DetPlace
open ColoVerif

/-! ### the sort -/

theorem mem_insertRow (x y : Row) : ∀ l : List Row, y ∈ insertRow x l ↔ y = x ∨ y ∈ l
  | [] => by simp [insertRow]
  | z :: zs => by
    simp only [insertRow]
    split
    · simp
    · simp only [List.mem_cons, mem_insertRow x y zs]
      constructor
      · rintro (h | h | h) <;> simp [h]
      · rintro (h | h | h) <;> simp [h]

theorem sortRows_cons (x : Row) (xs : List Row) : sortRows (x :: xs) = insertRow x (sortRows xs) := rfl

theorem mem_sortRows (y : Row) : ∀ l : List Row, y ∈ sortRows l ↔ y ∈ l
  | [] => by simp [sortRows]
  | x :: xs => by
    rw [sortRows_cons, mem_insertRow, mem_sortRows y xs]
    simp

theorem pairwise_insertRow (R : Row → Row → Prop) (hs : ∀ a b, R a b → R b a) (x : Row) :
    ∀ l : List Row, l.Pairwise R → (∀ y ∈ l, R x y) → (insertRow x l).Pairwise R
  | [], _, _ => by simp [insertRow]
  | z :: zs, hp, hx => by
    simp only [insertRow]
    rw [List.pairwise_cons] at hp
    split
    · rw [List.pairwise_cons]
      exact ⟨hx, List.pairwise_cons.mpr hp⟩
    · rw [List.pairwise_cons]
      refine ⟨?_, pairwise_insertRow R hs x zs hp.2 (fun y hy => hx y (by simp [hy]))⟩
      intro y hy
      rcases (mem_insertRow x y zs).mp hy with rfl | hy
      · exact hs _ _ (hx z (by simp))
      · exact hp.1 y hy

theorem pairwise_sortRows (R : Row → Row → Prop) (hs : ∀ a b, R a b → R b a) :
    ∀ l : List Row, l.Pairwise R → (sortRows l).Pairwise R
  | [], _ => by simp [sortRows]
  | x :: xs, hp => by
    rw [sortRows_cons]
    rw [List.pairwise_cons] at hp
    exact pairwise_insertRow R hs x _ (pairwise_sortRows R hs xs hp.2)
      (fun y hy => hp.1 y ((mem_sortRows y xs).mp hy))

theorem rowsOK_sort {H : Int} {rows : List Row} (h : Legalize.RowsOK H rows) : Legalize.RowsOK H (sortRows rows) :=
  ⟨fun r hr => h.height r ((mem_sortRows r rows).mp hr),
   fun r hr => h.wide r ((mem_sortRows r rows).mp hr),
   fun r hr => h.unturned r ((mem_sortRows r rows).mp hr),
   pairwise_sortRows _ (fun a b hab => by rw [Legalize.intersects_comm]; exact hab) rows h.disj⟩

theorem rowLe_iff (a b : Row) : rowLe a b = true ↔
    a.rect.minY < b.rect.minY ∨ (a.rect.minY = b.rect.minY ∧ a.rect.minX ≤ b.rect.minX) := by
  simp [rowLe]

theorem rowLe_total (a b : Row) (h : ¬ rowLe a b = true) : rowLe b a = true := by
  rw [rowLe_iff] at *; omega

theorem rowLe_trans (a b c : Row) (h1 : rowLe a b = true) (h2 : rowLe b c = true) : rowLe a c = true := by
  rw [rowLe_iff] at *; omega

theorem rowLe_refl (a : Row) : rowLe a a = true := by rw [rowLe_iff]; omega

theorem sorted_insertRow (x : Row) : ∀ l : List Row, l.Pairwise (fun a b => rowLe a b = true) →
    (insertRow x l).Pairwise (fun a b => rowLe a b = true)
  | [], _ => by simp [insertRow]
  | z :: zs, hp => by
    simp only [insertRow]
    have hp' := List.pairwise_cons.mp hp
    split
    · rename_i hle
      refine List.pairwise_cons.mpr ⟨?_, hp⟩
      intro y hy
      rcases List.mem_cons.mp hy with rfl | hy
      · exact hle
      · exact rowLe_trans _ _ _ hle (hp'.1 y hy)
    · rename_i hnle
      refine List.pairwise_cons.mpr ⟨?_, sorted_insertRow x zs hp'.2⟩
      intro y hy
      rcases (mem_insertRow x y zs).mp hy with rfl | hy
      · exact rowLe_total _ _ hnle
      · exact hp'.1 y hy

theorem sorted_sortRows : ∀ l : List Row, (sortRows l).Pairwise (fun a b => rowLe a b = true)
  | [] => by simp [sortRows]
  | x :: xs => by rw [sortRows_cons]; exact sorted_insertRow x _ (sorted_sortRows xs)

/-! ### `findRow` -/

/-- the probe of `upper_bound`: key of `r` ≤ `(y, x)` -/
def probe (x y : Int) (r : Row) : Bool := r.rect.minY < y || (r.rect.minY == y && r.rect.minX ≤ x)

theorem probe_iff (x y : Int) (r : Row) : probe x y r = true ↔
    r.rect.minY < y ∨ (r.rect.minY = y ∧ r.rect.minX ≤ x) := by
  simp [probe]

theorem probe_mono (x y : Int) (a b : Row) (h : rowLe a b = true) (hb : probe x y b = true) : probe x y a = true := by
  rw [probe_iff] at *; rw [rowLe_iff] at h; omega

/-- every index below the length of the `takeWhile` prefix holds an element that passes the test -/
theorem takeWhile_get (p : Row → Bool) : ∀ (l : List Row) (i : Nat), i < (l.takeWhile p).length →
    ∃ q, l[i]? = some q ∧ p q = true
  | [], i, h => by simp at h
  | a :: l, i, h => by
    by_cases ha : p a = true
    · rw [List.takeWhile_cons_of_pos ha] at h
      cases i with
      | zero => exact ⟨a, rfl, ha⟩
      | succ k =>
        simp only [List.length_cons] at h
        obtain ⟨q, hq, hp⟩ := takeWhile_get p l k (by omega)
        exact ⟨q, by simpa using hq, hp⟩
    · rw [List.takeWhile_cons_of_neg ha] at h
      simp at h

/-- in a sorted list, an element that passes a downward-closed test lies in the `takeWhile` prefix -/
theorem takeWhile_index (x y : Int) : ∀ (l : List Row), l.Pairwise (fun a b => rowLe a b = true) →
    ∀ r ∈ l, probe x y r = true → ∃ i, i < (l.takeWhile (probe x y)).length ∧ l[i]? = some r
  | [], _, r, hr, _ => by simp at hr
  | a :: l, hs, r, hr, hp => by
    have hs' := List.pairwise_cons.mp hs
    have ha : probe x y a = true := by
      rcases List.mem_cons.mp hr with rfl | hr
      · exact hp
      · exact probe_mono x y a r (hs'.1 r hr) hp
    rw [List.takeWhile_cons_of_pos ha]
    rcases List.mem_cons.mp hr with rfl | hr
    · exact ⟨0, by simp, rfl⟩
    · obtain ⟨i, hi, hg⟩ := takeWhile_index x y l hs'.2 r hr hp
      exact ⟨i + 1, by simp; omega, by simpa using hg⟩

theorem pairwise_mem_ne {α : Type} {R : α → α → Prop} (hs : ∀ a b, R a b → R b a) :
    ∀ {l : List α}, l.Pairwise R → ∀ a ∈ l, ∀ b ∈ l, a ≠ b → R a b
  | [], _, a, ha, _, _, _ => by simp at ha
  | z :: zs, hp, a, ha, b, hb, hab => by
    have hp' := List.pairwise_cons.mp hp
    rcases List.mem_cons.mp ha with ea | ha'
    · rcases List.mem_cons.mp hb with eb | hb'
      · exact absurd (ea.trans eb.symm) hab
      · rw [ea]; exact hp'.1 b hb'
    · rcases List.mem_cons.mp hb with eb | hb'
      · rw [eb]; exact hs _ _ (hp'.1 a ha')
      · exact pairwise_mem_ne hs hp'.2 a ha' b hb' hab

/-- On sorted, pairwise disjoint rows of one height: a cell `(x, y, w)` that lies in one of the rows is
found by the constructor's lookup. -/
theorem locate_of_mem {H : Int} (hH : 0 < H) {rows : List Row} (hok : Legalize.RowsOK H rows)
    (hs : rows.Pairwise (fun a b => rowLe a b = true)) (x y w : Int) (hw : 0 < w)
    (r : Row) (hr : r ∈ rows) (h1 : r.rect.minY = y) (h2 : r.rect.minX ≤ x) (h3 : x + w ≤ r.rect.maxX) :
    ∃ k, locate rows x y w = .ok k := by
  have hp : probe x y r = true := by rw [probe_iff]; omega
  obtain ⟨i, hi, hg⟩ := takeWhile_index x y rows hs r hr hp
  have hk : (rows.takeWhile (probe x y)).length ≠ 0 := by omega
  obtain ⟨q, hq, hpq⟩ := takeWhile_get (probe x y) rows ((rows.takeWhile (probe x y)).length - 1) (by omega)
  have hrq : rowLe r q = true := by
    by_cases hii : i = (rows.takeWhile (probe x y)).length - 1
    · rw [hii, hq] at hg
      injection hg with hg
      rw [hg]; exact rowLe_refl r
    · obtain ⟨hi', e1⟩ := List.getElem?_eq_some_iff.mp hg
      obtain ⟨hq', e2⟩ := List.getElem?_eq_some_iff.mp hq
      have := List.pairwise_iff_getElem.mp hs i _ hi' hq' (by omega)
      rw [e1, e2] at this
      exact this
  have hqm : q ∈ rows := List.mem_of_getElem? hq
  have hqr : q.rect = r.rect ∨ q = r := by
    by_cases hqr : q = r
    · exact Or.inr hqr
    · exfalso
      have hd := pairwise_mem_ne (fun a b hab => by rw [Legalize.intersects_comm]; exact hab) hok.disj q hqm r hr hqr
      rw [Legalize.intersects_false_iff] at hd
      have a1 := hok.height q hqm
      have a2 := hok.height r hr
      have a3 := hok.wide q hqm
      rw [probe_iff] at hpq
      rw [rowLe_iff] at hrq
      omega
  have hrect : q.rect.minY = y ∧ q.rect.minX ≤ x ∧ x + w ≤ q.rect.maxX := by
    rcases hqr with e | e
    · rw [e]; exact ⟨h1, h2, h3⟩
    · rw [e]; exact ⟨h1, h2, h3⟩
  refine ⟨(rows.takeWhile (probe x y)).length - 1, ?_⟩
  have hfind : findRow rows x y = some ((rows.takeWhile (probe x y)).length - 1) := by
    unfold findRow
    simp only
    have : (List.takeWhile (fun r : Row => r.rect.minY < y || (r.rect.minY == y && r.rect.minX ≤ x)) rows)
        = rows.takeWhile (probe x y) := rfl
    rw [this, if_neg hk]
  unfold locate
  rw [hfind]
  simp only
  have hget : rows.getD ((rows.takeWhile (probe x y)).length - 1) default = q := by
    rw [List.getD_eq_getElem?_getD, hq]; rfl
  rw [hget]
  have b1 : ¬ q.rect.minY ≠ y := by omega
  have b2 : ¬ q.rect.minX > x := by omega
  have b3 : ¬ q.rect.maxX < x + w := by omega
  simp only [b1, b2, b3, if_false]

/-! ### free segments with and without the extra obstacles -/

open Freespace in
/-- every free interval w.r.t. more obstacles lies inside a free interval w.r.t. fewer -/
theorem freeIntervals_coarsen (row : Rect) (extra obs : List Rect) (iv' : Int × Int)
    (h : iv' ∈ freeIntervals row (extra ++ obs)) :
    ∃ iv ∈ freeIntervals row obs, iv.1 ≤ iv'.1 ∧ iv'.2 ≤ iv.2 := by
  obtain ⟨hy, h1, h2, h3⟩ := freeIntervals_inside row _ iv' h
  obtain ⟨iv, hiv, a1, a2⟩ := freeIntervals_complete row obs iv'.1 hy h1 (by omega)
    (fun o ho => freeIntervals_misses row _ iv' h iv'.1 (Int.le_refl _) h2 o (List.mem_append_right _ ho))
  refine ⟨iv, hiv, a1, ?_⟩
  rcases (freeIntervals_maximal row obs iv hiv).2 with e | ⟨o, ho, hob⟩
  · omega
  · by_cases hlt : iv.2 < iv'.2
    · exact absurd hob (freeIntervals_misses row _ iv' h iv.2 (by omega) hlt o (List.mem_append_right _ ho))
    · omega

open Freespace in
/-- a stretch `[a, b)` of a free interval that no extra obstacle touches lies in a free interval
w.r.t. the larger obstacle list -/
theorem freeIntervals_refine (row : Rect) (extra obs : List Rect) (iv : Int × Int)
    (h : iv ∈ freeIntervals row obs) (a b : Int) (ha : iv.1 ≤ a) (hab : a < b) (hb : b ≤ iv.2)
    (hfree : ∀ o ∈ extra, ∀ x, a ≤ x → x < b → ¬ Obstructs row o x) :
    ∃ iv' ∈ freeIntervals row (extra ++ obs), iv'.1 ≤ a ∧ b ≤ iv'.2 := by
  obtain ⟨hy, h1, h2, h3⟩ := freeIntervals_inside row _ iv h
  obtain ⟨iv', hiv', a1, a2⟩ := freeIntervals_complete row (extra ++ obs) a hy (by omega) (by omega)
    (fun o ho => by
      rcases List.mem_append.mp ho with ho | ho
      · exact hfree o ho a (Int.le_refl _) hab
      · exact freeIntervals_misses row _ iv h a ha (by omega) o ho)
  refine ⟨iv', hiv', a1, ?_⟩
  rcases (freeIntervals_maximal row _ iv' hiv').2 with e | ⟨o, ho, hob⟩
  · omega
  · by_cases hlt : iv'.2 < b
    · exfalso
      rcases List.mem_append.mp ho with ho | ho
      · exact hfree o ho iv'.2 (by omega) hlt hob
      · exact freeIntervals_misses row _ iv h iv'.2 (by omega) (by omega) o ho hob
    · omega

end ColoVerif.DetPlace
