import ColoVerif.Model.RowLegSpec
/-
Helper lemmas for C12, part 1: the sorted-list priority queue, the `scan` loop
(generic invariant rule) and purity of `getCost`.
-/
namespace ColoVerif.RowLeg

/-! ### order on bounds -/

theorem Bound.lt_iff (a b : Bound) :
    Bound.lt a b = true ↔ a.absPos < b.absPos ∨ (a.absPos = b.absPos ∧ a.weight < b.weight) := by
  simp [Bound.lt]

/-- `a` may stand before `b` in the descending queue. -/
def Bound.GE (a b : Bound) : Prop := ¬ (Bound.lt a b = true)

theorem Bound.ge_iff (a b : Bound) :
    Bound.GE a b ↔ b.absPos < a.absPos ∨ (b.absPos = a.absPos ∧ b.weight ≤ a.weight) := by
  unfold Bound.GE
  rw [Bound.lt_iff]
  omega

theorem Bound.ge_trans {a b c : Bound} (h1 : Bound.GE a b) (h2 : Bound.GE b c) : Bound.GE a c := by
  rw [Bound.ge_iff] at *
  omega

theorem Bound.ge_of_lt {a b : Bound} (h : Bound.lt b a = true) : Bound.GE a b := by
  rw [Bound.ge_iff]
  rw [Bound.lt_iff] at h
  omega

theorem Bound.eq_of_ge_ge {a b : Bound} (h1 : Bound.GE a b) (h2 : Bound.GE b a) : a = b := by
  rw [Bound.ge_iff] at *
  cases a; cases b
  simp only [Bound.mk.injEq] at *
  omega

theorem Bound.ge_pos {a b : Bound} (h : Bound.GE a b) : b.absPos ≤ a.absPos := by
  rw [Bound.ge_iff] at h
  omega

/-- The queue is sorted in descending order. -/
def Sorted (l : List Bound) : Prop := l.Pairwise Bound.GE

theorem Sorted.tail {x : Bound} {l : List Bound} (h : Sorted (x :: l)) : Sorted l :=
  (List.pairwise_cons.mp h).2

theorem Sorted.head {x : Bound} {l : List Bound} (h : Sorted (x :: l)) : ∀ a ∈ l, Bound.GE x a :=
  (List.pairwise_cons.mp h).1

theorem sorted_nil : Sorted [] := List.Pairwise.nil

/-! ### `pqInsert` -/

theorem mem_pqInsert (x a : Bound) : ∀ l : List Bound, a ∈ pqInsert x l ↔ a = x ∨ a ∈ l
  | [] => by simp [pqInsert]
  | y :: ys => by
    unfold pqInsert
    split
    · simp
    · simp only [List.mem_cons, mem_pqInsert x a ys]
      constructor
      · rintro (h | h | h) <;> simp [h]
      · rintro (h | h | h) <;> simp [h]

theorem sorted_pqInsert (x : Bound) : ∀ l : List Bound, Sorted l → Sorted (pqInsert x l)
  | [], _ => by simp [pqInsert, Sorted]
  | y :: ys, h => by
    unfold pqInsert
    split
    · rename_i hlt
      refine List.pairwise_cons.mpr ⟨?_, h⟩
      intro a ha
      rcases List.mem_cons.mp ha with rfl | ha
      · exact Bound.ge_of_lt hlt
      · exact Bound.ge_trans (Bound.ge_of_lt hlt) (h.head a ha)
    · rename_i hnlt
      refine List.pairwise_cons.mpr ⟨?_, sorted_pqInsert x ys h.tail⟩
      intro a ha
      rcases (mem_pqInsert x a ys).mp ha with rfl | ha
      · exact hnlt
      · exact h.head a ha

/-- Inserting an element that may stand in front gives the list with it in front
(elements that compare equal are identical). -/
theorem pqInsert_head (x : Bound) : ∀ l : List Bound, Sorted (x :: l) → pqInsert x l = x :: l
  | [], _ => rfl
  | y :: ys, h => by
    unfold pqInsert
    split
    · rfl
    · rename_i hnlt
      have hxy : Bound.GE x y := h.head y (List.mem_cons_self ..)
      have : y = x := Bound.eq_of_ge_ge hnlt hxy
      subst this
      rw [pqInsert_head y ys h.tail]

theorem pqInsert_append (x : Bound) (l : List Bound) :
    ∀ pre : List Bound, (∀ a ∈ pre, Bound.GE a x) → pqInsert x (pre ++ l) = pre ++ pqInsert x l
  | [], _ => rfl
  | y :: ys, h => by
    have hy : ¬ (Bound.lt y x = true) := h y (List.mem_cons_self ..)
    simp only [List.cons_append, pqInsert, hy, if_false, Bool.false_eq_true]
    rw [pqInsert_append x l ys (fun a ha => h a (List.mem_cons_of_mem _ ha))]

/-- Pushing the popped prefix back restores the queue. -/
theorem foldl_pqInsert_restore (R : List Bound) :
    ∀ (P pre : List Bound), Sorted (pre ++ (P ++ R)) →
      P.foldl (fun q x => pqInsert x q) (pre ++ R) = pre ++ (P ++ R)
  | [], _, _ => rfl
  | p :: P, pre, h => by
    have h' : Sorted ((pre ++ [p]) ++ (P ++ R)) := by simpa using h
    have hpre : ∀ a ∈ pre, Bound.GE a p := by
      intro a ha
      have := (List.pairwise_append.mp h).2.2 a ha p (by simp)
      exact this
    have hpR : Sorted (p :: R) := by
      have h2 : Sorted (p :: (P ++ R)) := (List.pairwise_append.mp h).2.1
      refine List.pairwise_cons.mpr ⟨fun a ha => h2.head a (by simp [ha]), ?_⟩
      exact (List.pairwise_append.mp h2.tail).2.1
    simp only [List.foldl_cons]
    rw [pqInsert_append p R pre hpre, pqInsert_head p R hpR]
    have := foldl_pqInsert_restore R P (pre ++ [p]) h'
    simpa using this

/-! ### the `scan` loop -/

/-- Continuation condition of the `while` loop of `getDisplacement`. -/
def popCond (tgt lim slope : Int) (t : Bound) : Prop :=
  (slope < 0 ∧ tgt < t.absPos) ∨ lim < t.absPos

theorem popCond_iff (tgt lim slope : Int) (t : Bound) :
    ((decide (slope < 0) && decide (t.absPos > tgt)) || decide (t.absPos > lim)) = true ↔
      popCond tgt lim slope t := by
  unfold popCond
  simp

theorem scan_pop (width tgt lim climit : Int) (t : Bound) (rest : List Bound)
    (slope curPos curCost : Int) (acc : List Bound) (h : popCond tgt lim slope t) :
    scan width tgt lim climit (t :: rest) slope curPos curCost acc =
      scan width tgt lim climit rest (slope + t.weight) t.absPos
        (curCost + (min curPos climit - min t.absPos climit) * (slope + width)) (t :: acc) := by
  rw [scan, if_pos ((popCond_iff ..).mpr h)]

theorem scan_stop (width tgt lim climit : Int) (t : Bound) (rest : List Bound)
    (slope curPos curCost : Int) (acc : List Bound) (h : ¬ popCond tgt lim slope t) :
    scan width tgt lim climit (t :: rest) slope curPos curCost acc =
      ⟨t :: rest, acc.reverse, slope, curPos, curCost⟩ := by
  rw [scan, if_neg (fun hc => h ((popCond_iff ..).mp hc))]

/-- Loop-invariant rule for `scan`: an invariant of the loop state that holds
initially and is preserved by every pop holds at the exit, where moreover the
loop condition fails on the head of the remaining queue.  `acc` is the list of
popped bounds, most recent first. -/
theorem scan_rule (width tgt lim climit : Int)
    (motive : List Bound → Int → Int → Int → List Bound → Prop)
    (hstep : ∀ t rest slope curPos curCost acc, motive (t :: rest) slope curPos curCost acc →
      popCond tgt lim slope t →
      motive rest (slope + t.weight) t.absPos
        (curCost + (min curPos climit - min t.absPos climit) * (slope + width)) (t :: acc)) :
    ∀ (B : List Bound) (slope curPos curCost : Int) (acc : List Bound),
      motive B slope curPos curCost acc →
      ∃ accF, (scan width tgt lim climit B slope curPos curCost acc).passed = accF.reverse ∧
        motive (scan width tgt lim climit B slope curPos curCost acc).rest
          (scan width tgt lim climit B slope curPos curCost acc).slope
          (scan width tgt lim climit B slope curPos curCost acc).curPos
          (scan width tgt lim climit B slope curPos curCost acc).curCost accF ∧
        (∀ t ∈ (scan width tgt lim climit B slope curPos curCost acc).rest.head?,
          ¬ popCond tgt lim (scan width tgt lim climit B slope curPos curCost acc).slope t)
  | [], slope, curPos, curCost, acc, h => ⟨acc, by simp [scan], by simpa [scan] using h, by simp [scan]⟩
  | t :: rest, slope, curPos, curCost, acc, h => by
    by_cases hc : popCond tgt lim slope t
    · rw [scan_pop _ _ _ _ _ _ _ _ _ _ hc]
      exact scan_rule width tgt lim climit motive hstep rest _ _ _ _ (hstep t rest slope curPos curCost acc h hc)
    · rw [scan_stop _ _ _ _ _ _ _ _ _ _ hc]
      refine ⟨acc, rfl, h, ?_⟩
      simp only [List.head?_cons, Option.mem_def, Option.some.injEq]
      rintro _ rfl
      exact hc

/-- The scan splits the queue into the popped prefix and the rest. -/
theorem scan_split (width tgt lim climit : Int) (B : List Bound) (slope curPos curCost : Int) :
    (scan width tgt lim climit B slope curPos curCost []).passed ++
      (scan width tgt lim climit B slope curPos curCost []).rest = B := by
  obtain ⟨accF, h1, h2, _⟩ := scan_rule width tgt lim climit
    (fun rest _ _ _ acc => acc.reverse ++ rest = B)
    (by intro t rest _ _ _ acc h _; simpa using h) B slope curPos curCost [] (by simp)
  rw [h1, h2]

/-! ### purity of `getCost` -/

theorem getCost_state (s : State) (w t : Int) (h : Sorted s.bounds) : (getCost s w t).2 = s := by
  have hs := scan_split w (t - s.used) (s.e - s.used - w) (s.e - s.used) s.bounds (-w) s.e 0
  have hr := foldl_pqInsert_restore
    (scan w (t - s.used) (s.e - s.used - w) (s.e - s.used) s.bounds (-w) s.e 0 []).rest
    (scan w (t - s.used) (s.e - s.used - w) (s.e - s.used) s.bounds (-w) s.e 0 []).passed []
    (by simpa [hs] using h)
  simp only [List.nil_append] at hr
  cases s
  simp only [getCost, displacement] at *
  rw [hr, hs]

theorem getCost_fst (s : State) (w t : Int) : (getCost s w t).1 = (push s w t).1 := rfl

end ColoVerif.RowLeg
