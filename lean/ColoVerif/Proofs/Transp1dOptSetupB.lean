import ColoVerif.Proofs.Transp1dOptSetupA
/-
Ingredients of `push_setup`, second part: facts about the instance (`SwDom`), the optimal sink
after `updateOptimalSink` (`OptOk`), and the closed forms of the slopes added by the new-source and
the new-sink events.
-/
namespace ColoVerif.Transp1d

/-! ### the instance -/

theorem sw_S0 (sv : Solver) (sd : SwDom sv) : sv.S.getD 0 0 = 0 := by
  rw [sd.si.eS]; exact prefixFrom_zero 0 _

theorem sw_D0 (sv : Solver) (sd : SwDom sv) : sv.D.getD 0 0 = 0 := by
  rw [sd.si.eD]; exact prefixFrom_zero 0 _

theorem sw_Slt (sv : Solver) (sd : SwDom sv) (k : Nat) (hk : k < sv.u.length) :
    sv.S.getD k 0 < sv.S.getD (k + 1) 0 := by
  rw [sd.si.eS]
  exact prefixFrom_lt_succ 0 sv.s sd.spos k (by have := sd.si.wf.hs; omega)

theorem sw_Dlt1 (sv : Solver) (sd : SwDom sv) (k : Nat) (hk : k < sv.v.length) :
    sv.D.getD k 0 < sv.D.getD (k + 1) 0 := by
  rw [sd.si.eD]
  exact prefixFrom_lt_succ 0 sv.d sd.dpos k (by have := sd.si.wf.hd; omega)

theorem sw_Dlt (sv : Solver) (sd : SwDom sv) (a b : Nat) (hab : a < b) (hb : b ≤ sv.v.length) :
    sv.D.getD a 0 < sv.D.getD b 0 := by
  have h1 := sw_Dlt1 sv sd a (by omega)
  have h2 := sd.dom.Dmono (a + 1) b (by omega) hb
  omega

theorem sw_Snn (sv : Solver) (sd : SwDom sv) (k : Nat) (hk : k ≤ sv.u.length) : 0 ≤ sv.S.getD k 0 := by
  have h1 := sd.dom.Smono 0 k (Nat.zero_le _) hk
  have h2 := sw_S0 sv sd
  omega

/-- the sink of `y` is at most `J` when `y ≤ D (J+1)` -/
theorem sigL_le_of (sv : Solver) (sd : SwDom sv) (y : Int) (J : Nat) (hJ : J < sv.v.length)
    (h0 : 0 < y) (h1 : y ≤ sv.D.getD (J + 1) 0) :
    sigL sv y ≤ J ∧ sigL sv y < sv.v.length ∧ sv.D.getD (sigL sv y) 0 < y ∧
      y ≤ sv.D.getD (sigL sv y + 1) 0 := by
  have hm := sd.dom.Dmono (J + 1) sv.v.length (by omega) (Nat.le_refl _)
  obtain ⟨k1, k2, k3⟩ := sigL_spec sv sd.dom.Dmono y (by rw [sw_D0 sv sd]; exact h0) (by omega)
  refine ⟨?_, k1, k2, k3⟩
  by_cases c : sigL sv y ≤ J
  · exact c
  · have := sd.dom.Dmono (J + 1) (sigL sv y) (by omega) (by omega)
    omega

/-- the sink of `y` is at least `J` when `D J < y` -/
theorem le_sigL_of (sv : Solver) (sd : SwDom sv) (y : Int) (J : Nat)
    (h0 : sv.D.getD J 0 < y) (h1 : y ≤ sv.D.getD sv.v.length 0) (hJ : J ≤ sv.v.length) :
    J ≤ sigL sv y := by
  have hJ0 := sd.dom.Dmono 0 J (Nat.zero_le _) hJ
  obtain ⟨k1, k2, k3⟩ := sigL_spec sv sd.dom.Dmono y (by omega) h1
  by_cases c : J ≤ sigL sv y
  · exact c
  · have := sd.dom.Dmono (sigL sv y + 1) J (by omega) hJ
    omega

/-! ### the optimal sink -/

theorem antitone_chain (g : Nat → Int) (a c : Nat) (hac : a ≤ c)
    (h : ∀ j, a ≤ j → j < c → g (j + 1) ≤ g j) : g c ≤ g a := by
  induction c with
  | zero =>
    have : a = 0 := by omega
    subst this; exact Int.le_refl _
  | succ c ih =>
    by_cases hc : a = c + 1
    · subst hc; exact Int.le_refl _
    · have h1 := ih (by omega) (fun j hj hj' => h j hj (by omega))
      have h2 := h c (by omega) (by omega)
      omega

theorem setup_opt (sv : Solver) (sd : SwDom sv) (st : St) (sw : SweepInv sv st)
    (hi : st.pRev.length < sv.u.length) (o : Nat) (ho : o < sv.v.length)
    (hdec : ∀ t, st.optSink ≤ t → t < o → cs sv st.pRev.length (t + 1) ≤ cs sv st.pRev.length t)
    (hstop : o + 1 = sv.v.length ∨ cs sv st.pRev.length o < cs sv st.pRev.length (o + 1)) :
    OptOk sv st.pRev.length o := by
  have hstep : ∀ t, t < o → cs sv st.pRev.length (t + 1) ≤ cs sv st.pRev.length t := by
    intro t ht
    by_cases c : t < st.optSink
    · exact sw.optL st.pRev.length (by omega) hi t (t + 1) (by omega) (by omega)
    · exact hdec t (by omega) ht
  have hleft : ∀ t t', t ≤ t' → t' ≤ o → cs sv st.pRev.length t' ≤ cs sv st.pRev.length t :=
    fun t t' h1 h2 => antitone_chain (fun j => cs sv st.pRev.length j) t t' h1
      (fun j _ hj' => hstep j (by omega))
  refine ⟨ho, ?_, ?_⟩
  · intro k hk hku t t' h1 h2
    have hm := cs_monge sv sd.si st.pRev.length k t t' hk hku h1 (by omega)
    have := hleft t t' h1 h2
    omega
  · intro t t' h1 h2 h3
    rcases hstop with hs | hs
    · have : t = t' := by omega
      subst this; exact Int.le_refl _
    · by_cases c0 : ¬ o + 1 < sv.v.length
      · have : t = t' := by omega
        subst this; exact Int.le_refl _
      have ho1 : o + 1 < sv.v.length := by omega
      have hv := fun a b (hab : a ≤ b) (hb : b < sv.v.length) => sorted_getD sv.v sd.si.vs a b hab hb
      unfold cs at hs ⊢
      by_cases c : t = o
      · subst c
        by_cases c' : t' = t
        · subst c'; exact Int.le_refl _
        · have := iabs_convex (sv.u.getD st.pRev.length 0) (sv.v.getD t 0) (sv.v.getD (t + 1) 0)
            (sv.v.getD (t + 1) 0) (sv.v.getD t' 0) (hv _ _ (by omega) ho1) (Int.le_refl _)
            (hv _ _ (by omega) h3) hs
          omega
      · exact iabs_convex (sv.u.getD st.pRev.length 0) (sv.v.getD o 0) (sv.v.getD (o + 1) 0)
          (sv.v.getD t 0) (sv.v.getD t' 0) (hv _ _ (by omega) ho1) (hv _ _ (by omega) (by omega))
          (hv _ _ h2 h3) hs

/-! ### slopes of the new-source events -/

theorem dl_nonneg (sv : Solver) (sd : SwDom sv) (a j : Nat) (ha : a + 1 < sv.u.length)
    (hj : j + 1 < sv.v.length) : 0 ≤ dl sv a j := by
  have := cs_monge sv sd.si a (a + 1) j (j + 1) (by omega) ha (by omega) hj
  unfold dl; omega

theorem dl_zero_left (sv : Solver) (sd : SwDom sv) (a j : Nat) (ha : a + 1 < sv.u.length)
    (hj : j + 1 < sv.v.length) (h : j + 1 < upperBound sv.v (sv.u.getD a 0)) : dl sv a j = 0 := by
  have h1 := upperBound_lt sv.v _ (j + 1) h
  have h2 := sorted_getD sv.u sd.si.us a (a + 1) (by omega) ha
  have h3 := sorted_getD sv.v sd.si.vs j (j + 1) (by omega) hj
  unfold dl cs
  exact iabs_delta_left _ _ _ _ h2 h3 h1

theorem dl_zero_right (sv : Solver) (sd : SwDom sv) (a j : Nat) (ha : a + 1 < sv.u.length)
    (hj : j + 1 < sv.v.length) (h : lowerBound sv.v (sv.u.getD (a + 1) 0) ≤ j) : dl sv a j = 0 := by
  have h1 := lowerBound_le sv.v sd.si.vs _ j h (by omega)
  have h2 := sorted_getD sv.u sd.si.us a (a + 1) (by omega) ha
  have h3 := sorted_getD sv.v sd.si.vs j (j + 1) (by omega) hj
  unfold dl cs
  exact iabs_delta_right _ _ _ _ h2 h3 h1

/-- slope added at `x` by the new-source events of source `a + 1` -/
def srcS (sv : Solver) (a J0 : Nat) (x : Int) : Int :=
  sumFrom (fun l => if x ≤ sv.D.getD (l + 1) 0 - sv.S.getD (a + 1) 0 then dl sv a l else 0)
    (min (lowerBound sv.v (sv.u.getD (a + 1) 0)) J0 - (upperBound sv.v (sv.u.getD a 0) - 1))
    (upperBound sv.v (sv.u.getD a 0) - 1)

theorem srcS_nonneg (sv : Solver) (sd : SwDom sv) (a J0 : Nat) (ha : a + 1 < sv.u.length)
    (hJ0 : J0 < sv.v.length) (x : Int) : 0 ≤ srcS sv a J0 x := by
  unfold srcS
  apply sumFrom_nonneg
  intro l hl hl'
  have := dl_nonneg sv sd a l ha (by omega)
  split <;> omega

theorem srcS_anti (sv : Solver) (sd : SwDom sv) (a J0 : Nat) (ha : a + 1 < sv.u.length)
    (hJ0 : J0 < sv.v.length) (x x' : Int) (hxx : x ≤ x') : srcS sv a J0 x' ≤ srcS sv a J0 x := by
  unfold srcS
  apply sumFrom_le
  intro l hl hl'
  have := dl_nonneg sv sd a l ha (by omega)
  split <;> split <;> omega

theorem srcS_closed (sv : Solver) (sd : SwDom sv) (a J0 : Nat) (ha : a + 1 < sv.u.length)
    (hJ0 : J0 < sv.v.length) (x : Int) (t : Nat) (htJ : t ≤ J0)
    (hP1 : ∀ l, l < t → sv.D.getD (l + 1) 0 < sv.S.getD (a + 1) 0 + x)
    (hP2 : ∀ l, t ≤ l → l < J0 → sv.S.getD (a + 1) 0 + x ≤ sv.D.getD (l + 1) 0) :
    srcS sv a J0 x = (cs sv (a + 1) t - cs sv a t) - (cs sv (a + 1) J0 - cs sv a J0) := by
  have hd : ∀ l, dl sv a l = (fun j => cs sv (a + 1) j - cs sv a j) l
      - (fun j => cs sv (a + 1) j - cs sv a j) (l + 1) := by
    intro l; simp only [dl]; omega
  unfold srcS
  simp only [hd]
  exact src_sum (fun j => cs sv (a + 1) j - cs sv a j)
    (fun l => x ≤ sv.D.getD (l + 1) 0 - sv.S.getD (a + 1) 0) _ _ t J0
    (fun j hj hj' => by
      have := dl_zero_left sv sd a j ha (by omega) (by omega)
      simp only [dl] at this
      omega)
    (fun j hj hj' => by
      have := dl_zero_right sv sd a j ha (by omega) hj
      simp only [dl] at this
      omega)
    htJ (fun l hl => by have := hP1 l hl; omega)
    (fun l hl hl' => by have := hP2 l hl hl'; omega)

/-- beyond the last occupied sink no new-source event is counted -/
theorem srcS_zero (sv : Solver) (sd : SwDom sv) (a J0 : Nat) (ha : a + 1 < sv.u.length)
    (hJ0 : J0 < sv.v.length) (x : Int) (h : sv.D.getD J0 0 < sv.S.getD (a + 1) 0 + x) :
    srcS sv a J0 x = 0 := by
  rw [srcS_closed sv sd a J0 ha hJ0 x J0 (Nat.le_refl _)
    (fun l hl => by have := sd.dom.Dmono (l + 1) J0 (by omega) (by omega); omega)
    (fun l hl hl' => by omega)]
  omega

/-- up to the last occupied sink the new-source events telescope from the sink of `S (a+1) + x` -/
theorem srcS_le (sv : Solver) (sd : SwDom sv) (a J0 : Nat) (ha : a + 1 < sv.u.length)
    (hJ0 : J0 < sv.v.length) (x : Int) (hx : 0 < x)
    (h : sv.S.getD (a + 1) 0 + x ≤ sv.D.getD (J0 + 1) 0) :
    srcS sv a J0 x = (cs sv (a + 1) (sigL sv (sv.S.getD (a + 1) 0 + x))
        - cs sv a (sigL sv (sv.S.getD (a + 1) 0 + x))) - (cs sv (a + 1) J0 - cs sv a J0) := by
  have hS := sw_Snn sv sd (a + 1) (by omega)
  obtain ⟨k1, k2, k3, k4⟩ := sigL_le_of sv sd (sv.S.getD (a + 1) 0 + x) J0 hJ0 (by omega) h
  exact srcS_closed sv sd a J0 ha hJ0 x _ k1
    (fun l hl => by
      have := sd.dom.Dmono (l + 1) (sigL sv (sv.S.getD (a + 1) 0 + x)) (by omega) (by omega); omega)
    (fun l hl hl' => by
      have := sd.dom.Dmono (sigL sv (sv.S.getD (a + 1) 0 + x) + 1) (l + 1) (by omega) (by omega); omega)

/-! ### slopes of the new-sink events -/

/-- slope added at `x` by the new-sink events of source `i` (sinks `J0 .. o-1`, capped at `L`) -/
def snkS (sv : Solver) (i J0 o : Nat) (L x : Int) : Int :=
  sumFrom (fun l => if x ≤ min (sv.D.getD (l + 1) 0 - sv.S.getD i 0) L
    then cs sv i l - cs sv i (l + 1) else 0) (o - J0) J0

theorem snkS_nonneg (sv : Solver) (i J0 o : Nat) (L x : Int)
    (h : ∀ l, J0 ≤ l → l < o → cs sv i (l + 1) ≤ cs sv i l) : 0 ≤ snkS sv i J0 o L x := by
  unfold snkS
  apply sumFrom_nonneg
  intro l hl hl'
  have := h l hl (by omega)
  split <;> omega

theorem snkS_anti (sv : Solver) (i J0 o : Nat) (L x x' : Int) (hxx : x ≤ x')
    (h : ∀ l, J0 ≤ l → l < o → cs sv i (l + 1) ≤ cs sv i l) :
    snkS sv i J0 o L x' ≤ snkS sv i J0 o L x := by
  unfold snkS
  apply sumFrom_le
  intro l hl hl'
  have := h l hl (by omega)
  split <;> split <;> omega

theorem snkS_closed (sv : Solver) (sd : SwDom sv) (i J0 o : Nat) (ho : o < sv.v.length)
    (L x : Int) (hxL : x ≤ L) (t : Nat) (ht : t < sv.v.length)
    (h1 : sv.D.getD t 0 < sv.S.getD i 0 + x) (h2 : sv.S.getD i 0 + x ≤ sv.D.getD (t + 1) 0)
    (hG : J0 < o → L = sv.D.getD o 0 - sv.S.getD i 0) (hT : o ≤ J0 → t ≤ J0) :
    snkS sv i J0 o L x = cs sv i (max J0 t) - cs sv i (max J0 o) := by
  unfold snkS
  by_cases c : o ≤ J0
  · have e0 : o - J0 = 0 := by omega
    have e1 : max J0 t = J0 := by have := hT c; omega
    have e2 : max J0 o = J0 := by omega
    rw [e0, e1, e2]
    simp only [sumFrom]
    omega
  · have hL := hG (by omega)
    have hto : t < o := by
      by_cases c' : t < o
      · exact c'
      · have := sd.dom.Dmono o t (by omega) (by omega)
        omega
    have e2 : max J0 o = J0 + (o - J0) := by omega
    rw [e2]
    exact sumFrom_thresh (fun l => cs sv i l)
      (fun l => x ≤ min (sv.D.getD (l + 1) 0 - sv.S.getD i 0) L) (o - J0) J0 (max J0 t)
      (by omega) (by omega)
      (fun l hl hl' => by
        have := sd.dom.Dmono (l + 1) t (by omega) (by omega)
        omega)
      (fun l hl hl' => by
        have := sd.dom.Dmono (t + 1) (l + 1) (by omega) (by omega)
        omega)

end ColoVerif.Transp1d
