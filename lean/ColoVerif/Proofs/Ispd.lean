import ColoVerif.Model.Ispd
import Std.Data.String.ToNat
/-
Lemmas for C20: `read (write c)` stage by stage.
-/
namespace ColoVerif.Ispd

theorem ok_bind {ε α β : Type} (a : α) (f : α → Except ε β) : (Except.ok a >>= f) = f a := rfl
theorem pure_eq_ok {ε α : Type} (a : α) : (pure a : Except ε α) = Except.ok a := rfl

theorem cellName_inj {a b : Nat} (h : cellName a = cellName b) : a = b := by
  unfold cellName at h
  have h' := (String.append_right_inj "o").1 h
  exact Nat.repr_injective h'

/-- the names the writer gives to cells `k, k+1, …, k+n-1` -/
def names (k n : Nat) : List String := (List.range' k n).map cellName

theorem names_succ (k n : Nat) : names k (n + 1) = cellName k :: names (k + 1) n := by
  simp [names, List.range'_succ]

theorem lookup_none {s : String} {l : List String} (h : s ∉ l) : lookup s l = none := by
  induction l with
  | nil => rfl
  | cons a l ih =>
    simp only [List.mem_cons, not_or] at h
    have h1 : ¬ a = s := fun e => h.1 e.symm
    simp [lookup, ih h.2, h1]

theorem cellName_not_mem (k m n : Nat) (h : k < m) : cellName k ∉ names m n := by
  intro hm
  simp only [names, List.mem_map, List.mem_range'_1] at hm
  obtain ⟨j, hj, e⟩ := hm
  have := cellName_inj e
  omega

theorem lookup_names (n : Nat) : ∀ (k i : Nat), i < n → lookup (cellName (k + i)) (names k n) = some i := by
  induction n with
  | zero => intro k i h; omega
  | succ n ih =>
    intro k i h
    rw [names_succ]
    cases i with
    | zero =>
      simp [lookup, lookup_none (cellName_not_mem k (k + 1) n (by omega))]
    | succ i =>
      have := ih (k + 1) i (by omega)
      rw [show k + 1 + i = k + (i + 1) by omega] at this
      simp [lookup, this]

/-! ### .nodes -/

theorem nodes_names (cs : List Cell) : ∀ k, (writeNodesFrom k cs).map (·.name) = names k cs.length := by
  induction cs with
  | nil => intro k; rfl
  | cons c cs ih => intro k; simp [writeNodesFrom, names_succ, ih]

theorem nodes_w (cs : List Cell) : ∀ k, (writeNodesFrom k cs).map (·.w) = cs.map (·.w) := by
  induction cs with
  | nil => intro k; rfl
  | cons c cs ih => intro k; simp [writeNodesFrom, ih]

theorem nodes_h (cs : List Cell) : ∀ k, (writeNodesFrom k cs).map (·.h) = cs.map (·.h) := by
  induction cs with
  | nil => intro k; rfl
  | cons c cs ih => intro k; simp [writeNodesFrom, ih]

theorem nodes_fixed (cs : List Cell) : ∀ k, (writeNodesFrom k cs).map (·.terminal) = cs.map (·.fixed) := by
  induction cs with
  | nil => intro k; rfl
  | cons c cs ih => intro k; simp [writeNodesFrom, ih]

theorem nodes_length (cs : List Cell) : ∀ k, (writeNodesFrom k cs).length = cs.length := by
  induction cs with
  | nil => intro k; rfl
  | cons c cs ih => intro k; simp [writeNodesFrom, ih]

theorem nodes_countP (cs : List Cell) : ∀ k, (writeNodesFrom k cs).countP (·.terminal) = cs.countP (·.fixed) := by
  induction cs with
  | nil => intro k; rfl
  | cons c cs ih => intro k; simp [writeNodesFrom, List.countP_cons, ih]

theorem nodes_true (cs : List Cell) : ∀ k, (writeNodesFrom k cs).map (fun _ => true) = cs.map (fun _ => true) := by
  induction cs with
  | nil => intro k; rfl
  | cons c cs ih => intro k; simp [writeNodesFrom, ih]

/-- what `_read_nodes` returns on the written `.nodes` file -/
def nodesOf (c : Circuit) : Nodes :=
  ⟨names 0 c.cells.length, c.cells.map (·.w), c.cells.map (·.h), c.cells.map (·.fixed), c.cells.map (fun _ => true)⟩

theorem readNodes_write (c : Circuit) : readNodes (write c) = .ok (nodesOf c) := by
  simp [readNodes, write, checkCount, nodes_length, nodes_countP, nodes_names, nodes_w, nodes_h, nodes_fixed,
    nodesOf, ok_bind, pure_eq_ok, nodes_true]

/-! ### .nets -/

theorem roundHalfEven_int (n : Int) : roundHalfEven (n : Rat) = n := by
  have h : (n : Rat) - (((n : Rat).floor : Int) : Rat) = 0 := by
    rw [Rat.floor_intCast]; grind
  unfold roundHalfEven
  rw [h, Rat.floor_intCast]
  have hpos : (0 : Rat) < 1 / 2 := by grind
  simp [hpos]

theorem half_add_fmt6 (w xo : Int) (h : (2 * xo - w).natAbs < 200000) :
    (w : Rat) / 2 + fmt6 (2 * xo - w) = (xo : Rat) := by
  unfold fmt6
  rw [if_pos h]
  grind

theorem getD_map_w (cs : List Cell) (i : Nat) : (cs.map (·.w)).getD i 0 = (cs.getD i default).w := by
  rw [List.getD_eq_getElem?_getD, List.getD_eq_getElem?_getD, List.getElem?_map]
  cases cs[i]? <;> rfl

theorem getD_map_h (cs : List Cell) (i : Nat) : (cs.map (·.h)).getD i 0 = (cs.getD i default).h := by
  rw [List.getD_eq_getElem?_getD, List.getD_eq_getElem?_getD, List.getElem?_map]
  cases cs[i]? <;> rfl

theorem mkPin_writePin (c : Circuit) (p : Pin) (h : pinOk c p = true) :
    mkPin (nodesOf c) (p.cell, (writePin c p).dx, (writePin c p).dy) = p := by
  simp only [pinOk, Bool.and_eq_true, decide_eq_true_eq] at h
  obtain ⟨⟨_, hx⟩, hy⟩ := h
  simp only [mkPin, nodesOf, writePin, getD_map_w, getD_map_h, Circuit.cell] at *
  rw [half_add_fmt6 _ _ hx, half_add_fmt6 _ _ hy, roundHalfEven_int, roundHalfEven_int]

theorem resolvePins_write (c : Circuit) (ps : List Pin) (h : ps.all (pinOk c) = true) :
    resolvePins (names 0 c.cells.length) (ps.map (writePin c))
      = .ok (ps.map fun p => (p.cell, (writePin c p).dx, (writePin c p).dy)) := by
  induction ps with
  | nil => rfl
  | cons p ps ih =>
    simp only [List.all_cons, Bool.and_eq_true] at h
    have hp := h.1
    simp only [pinOk, Bool.and_eq_true, decide_eq_true_eq] at hp
    have hl := lookup_names c.cells.length 0 p.cell hp.1.1
    rw [Nat.zero_add] at hl
    simp only [List.map_cons, resolvePins]
    have : (writePin c p).cell = cellName p.cell := rfl
    rw [this, hl]
    simp only [ih h.2, ok_bind, pure_eq_ok]

/-- first pass of `_read_nets` on the written `.nets` file -/
def rawOf (c : Circuit) (ns : List Net) : List (Int × List (Nat × Rat × Rat)) :=
  ns.map fun n => ((n.pins.length : Int), n.pins.map fun p => (p.cell, (writePin c p).dx, (writePin c p).dy))

theorem resolveNets_write (c : Circuit) (ns : List Net) (h : ns.all (fun n => !n.pins.isEmpty && n.pins.all (pinOk c)) = true) :
    ∀ k, resolveNets (names 0 c.cells.length) (writeNetsFrom c k ns) = .ok (rawOf c ns) := by
  induction ns with
  | nil => intro k; rfl
  | cons n ns ih =>
    intro k
    simp only [List.all_cons, Bool.and_eq_true] at h
    simp only [writeNetsFrom, resolveNets, resolvePins_write c n.pins h.1.2, ih h.2, ok_bind, pure_eq_ok, rawOf,
      List.map_cons]

theorem checkDegrees_raw (c : Circuit) (ns : List Net) : checkDegrees (rawOf c ns) = .ok (totalPins ns : Int) := by
  induction ns with
  | nil => rfl
  | cons n ns ih =>
    simp only [rawOf, List.map_cons] at *
    simp [checkDegrees, ih, ok_bind, pure_eq_ok, totalPins]

theorem nets_length (c : Circuit) (ns : List Net) : ∀ k, (writeNetsFrom c k ns).length = ns.length := by
  induction ns with
  | nil => intro k; rfl
  | cons n ns ih => intro k; simp [writeNetsFrom, ih]

theorem mkPins_pins (c : Circuit) (ps : List Pin) (hp : ps.all (pinOk c) = true) :
    (ps.map fun p => (p.cell, (writePin c p).dx, (writePin c p).dy)).map (mkPin (nodesOf c)) = ps := by
  induction ps with
  | nil => rfl
  | cons p ps ihp =>
    simp only [List.all_cons, Bool.and_eq_true] at hp
    simp only [List.map_cons, mkPin_writePin c p hp.1, ihp hp.2]

theorem mkPins_raw (c : Circuit) (ns : List Net) (h : ns.all (fun n => !n.pins.isEmpty && n.pins.all (pinOk c)) = true) :
    (rawOf c ns).map (fun n => n.2.map (mkPin (nodesOf c))) = ns.map (·.pins) := by
  induction ns with
  | nil => rfl
  | cons n ns ih =>
    simp only [List.all_cons, Bool.and_eq_true] at h
    have ih' := ih h.2
    simp only [rawOf] at ih'
    simp only [rawOf, List.map_cons, ih', mkPins_pins c n.pins h.1.2]

theorem readNets_write (c : Circuit) (h : c.nets.all (fun n => !n.pins.isEmpty && n.pins.all (pinOk c)) = true) :
    readNets (write c) (nodesOf c) = .ok (c.nets.map (·.pins)) := by
  have h1 : resolveNets (nodesOf c).names (write c).nets = .ok (rawOf c c.nets) := resolveNets_write c c.nets h 0
  simp only [readNets, h1, ok_bind, checkDegrees_raw, pure_eq_ok, mkPins_raw c c.nets h]
  simp [write, checkCount, rawOf, ok_bind, pure_eq_ok]

/-! ### .pl -/

theorem orientOfName_toString (o : Orient) (h : isProper o = true) : orientOfName (orientToString o) = some o := by
  cases o <;> first | rfl | (simp [isProper] at h)

theorem pl_length (cs : List Cell) : ∀ k, (writePlFrom k cs).length = cs.length := by
  induction cs with
  | nil => intro k; rfl
  | cons c cs ih => intro k; simp [writePlFrom, ih]

/-- `_read_place` after the lines of the cells `pre` have been processed -/
def placeAfter (pre : List Cell) (m : Nat) : Place :=
  ⟨pre.map (·.x) ++ List.replicate m 0, pre.map (·.y) ++ List.replicate m 0,
   pre.map (fun cl => some cl.orient) ++ List.replicate m none⟩

theorem set_mid {α : Type} (l : List α) (a b : α) (m : Nat) :
    (l ++ List.replicate (m + 1) a).set l.length b = (l ++ [b]) ++ List.replicate m a := by
  induction l with
  | nil => simp [List.replicate_succ]
  | cons x l ih => simp [ih]

theorem readPlaceLoop_write (n : Nat) (cs : List Cell) (hc : cs.all (fun cl => isProper cl.orient) = true) :
    ∀ pre : List Cell, pre.length + cs.length = n →
      readPlaceLoop (names 0 n) (placeAfter pre cs.length) (writePlFrom pre.length cs)
        = .ok (placeAfter (pre ++ cs) 0) := by
  induction cs with
  | nil => intro pre _; simp [readPlaceLoop, writePlFrom, pure_eq_ok]
  | cons cl cs ih =>
    intro pre hn
    simp only [List.all_cons, Bool.and_eq_true] at hc
    simp only [List.length_cons] at hn
    have hl := lookup_names n 0 pre.length (by omega)
    rw [Nat.zero_add] at hl
    have hx := set_mid (pre.map (·.x)) 0 cl.x cs.length
    have hy := set_mid (pre.map (·.y)) 0 cl.y cs.length
    have ho := set_mid (pre.map (fun c => some c.orient)) none (some cl.orient) cs.length
    simp only [List.length_map] at hx hy ho
    have ih' := ih hc.2 (pre ++ [cl]) (by simp; omega)
    simp only [List.length_append, List.length_cons, List.length_nil, Nat.zero_add, List.append_assoc,
      List.cons_append, List.nil_append] at ih'
    simp only [writePlFrom, readPlaceLoop, readPlaceStep, hl, orientOfName_toString cl.orient hc.1, ok_bind,
      pure_eq_ok, placeAfter, List.length_cons, hx, hy, ho]
    simpa [placeAfter] using ih'

theorem readPlace_write (c : Circuit) (hc : c.cells.all (fun cl => isProper cl.orient) = true) :
    readPlace (write c) (names 0 c.cells.length)
      = .ok ⟨c.cells.map (·.x), c.cells.map (·.y), c.cells.map (fun cl => some cl.orient)⟩ := by
  have h := readPlaceLoop_write c.cells.length c.cells hc [] (by simp)
  have hlen : (names 0 c.cells.length).length = c.cells.length := by simp [names]
  simp only [readPlace, hlen, write]
  simpa [placeAfter] using h

theorem allSome_map (cs : List Cell) : allSome (cs.map (fun cl => some cl.orient)) = .ok (cs.map (·.orient)) := by
  induction cs with
  | nil => rfl
  | cons c cs ih => simp [allSome, ih, ok_bind, pure_eq_ok]

/-! ### .scl -/

theorem readRow_writeRow (r : Row) (h : isProper r.orient = true) : readRow (writeRow r) = r := by
  obtain ⟨⟨a, b, c, d⟩, o⟩ := r
  simp only [readRow, writeRow, orientOfName_toString o h, Option.getD_some, Rect.width, Rect.height]
  congr 2 <;> omega

theorem readRows_write (rs : List Row) (h : rs.all (fun r => isProper r.orient) = true) :
    (rs.map writeRow).map readRow = rs := by
  induction rs with
  | nil => rfl
  | cons r rs ih =>
    simp only [List.all_cons, Bool.and_eq_true] at h
    simp [readRow_writeRow r h.1, ih h.2]

theorem rowHeightOf_eq (c : Circuit) (rh : Int) (h : c.rowHeight = some rh) : rowHeightOf c.rows = .ok rh := by
  unfold Circuit.rowHeight at h
  unfold rowHeightOf
  cases hr : c.rows with
  | nil => simp [hr] at h
  | cons r rs =>
    simp only [hr] at h
    split at h
    · rename_i hall
      simp only [Option.some.injEq] at h
      subst h
      simp only [hall, ↓reduceIte, pure_eq_ok]
    · simp at h

/-! ### assembling the circuit -/

theorem mkCells_map (rh : Int) (cs : List Cell) :
    mkCells rh (cs.map (·.w)) (cs.map (·.h)) (cs.map (·.fixed)) (cs.map (fun _ => true)) (cs.map (·.x)) (cs.map (·.y))
      (cs.map (·.orient))
      = cs.map (fun cl => ⟨cl.w, cl.h, cl.x, cl.y, cl.orient, cl.fixed, true, polarityOf rh cl.h⟩) := by
  induction cs with
  | nil => rfl
  | cons c cs ih => simp [mkCells, ih]

theorem addNets_pins (ns : List Net) (h : ns.all (fun n => !n.pins.isEmpty) = true) :
    addNets (ns.map (·.pins)) = ns.map (fun n => ⟨1, 0, n.pins⟩) := by
  induction ns with
  | nil => rfl
  | cons n ns ih =>
    simp only [List.all_cons, Bool.and_eq_true] at h
    have ih' := ih h.2
    simp only [addNets] at ih' ⊢
    simp [h.1, ih']

theorem read_write (c : Circuit) (rh : Int) (hc : c.cells.all (fun cl => isProper cl.orient) = true)
    (hr : c.rows.all (fun r => isProper r.orient) = true)
    (hn : c.nets.all (fun n => !n.pins.isEmpty && n.pins.all (pinOk c)) = true)
    (hh : c.rowHeight = some rh) (h0 : rh ≠ 0) :
    read (write c) = .ok (expected c rh) := by
  have hne : c.nets.all (fun n => !n.pins.isEmpty) = true := by
    rw [List.all_eq_true] at hn ⊢
    intro n hm
    have := hn n hm
    simp only [Bool.and_eq_true] at this
    exact this.1
  have hrows : (write c).rows.map readRow = c.rows := readRows_write c.rows hr
  have hnames : (nodesOf c).names = names 0 c.cells.length := rfl
  simp only [read, assemble, readNodes_write, ok_bind, readNets_write c hn, hnames, readPlace_write c hc, allSome_map, hrows,
    rowHeightOf_eq c rh hh, h0, false_and, if_false, pure_eq_ok, addNets_pins c.nets hne]
  simp only [nodesOf, mkCells_map, expected]

/-! ### field-wise agreement and wirelength -/

theorem agree_expected (c : Circuit) (rh : Int) : Agree c (expected c rh) := by
  constructor <;> simp [expected, List.map_map, Function.comp_def]

theorem getD_map_x (cs : List Cell) (i : Nat) : (cs.map (·.x)).getD i 0 = (cs.getD i default).x := by
  rw [List.getD_eq_getElem?_getD, List.getD_eq_getElem?_getD, List.getElem?_map]
  cases cs[i]? <;> rfl

theorem getD_map_y (cs : List Cell) (i : Nat) : (cs.map (·.y)).getD i 0 = (cs.getD i default).y := by
  rw [List.getD_eq_getElem?_getD, List.getD_eq_getElem?_getD, List.getElem?_map]
  cases cs[i]? <;> rfl

theorem getD_map_orient (cs : List Cell) (i : Nat) : (cs.map (·.orient)).getD i .N = (cs.getD i default).orient := by
  rw [List.getD_eq_getElem?_getD, List.getD_eq_getElem?_getD, List.getElem?_map]
  cases cs[i]? <;> rfl

theorem pins_eq_of_parts : ∀ (ps qs : List Pin), ps.map (·.cell) = qs.map (·.cell) →
    ps.map (fun p => (p.xo, p.yo)) = qs.map (fun p => (p.xo, p.yo)) → ps = qs
  | [], [], _, _ => rfl
  | [], _ :: _, h, _ => by simp at h
  | _ :: _, [], h, _ => by simp at h
  | p :: ps, q :: qs, h1, h2 => by
    simp only [List.map_cons, List.cons.injEq, Prod.mk.injEq] at h1 h2
    have := pins_eq_of_parts ps qs h1.2 h2.2
    obtain ⟨a, b, c⟩ := p
    obtain ⟨a', b', c'⟩ := q
    simp_all

theorem netPins_eq_of_parts : ∀ (ns ms : List Net), ns.map (fun n => n.pins.map (·.cell)) = ms.map (fun n => n.pins.map (·.cell)) →
    ns.map (fun n => n.pins.map (fun p => (p.xo, p.yo))) = ms.map (fun n => n.pins.map (fun p => (p.xo, p.yo))) →
    ns.map (·.pins) = ms.map (·.pins)
  | [], [], _, _ => rfl
  | [], _ :: _, h, _ => by simp at h
  | _ :: _, [], h, _ => by simp at h
  | n :: ns, m :: ms, h1, h2 => by
    simp only [List.map_cons, List.cons.injEq] at h1 h2
    simp only [List.map_cons, netPins_eq_of_parts ns ms h1.2 h2.2, pins_eq_of_parts n.pins m.pins h1.1 h2.1]

theorem cell_fields {c c' : Circuit} (a : Agree c c') (i : Nat) :
    (c'.cell i).w = (c.cell i).w ∧ (c'.cell i).h = (c.cell i).h ∧ (c'.cell i).x = (c.cell i).x ∧
    (c'.cell i).y = (c.cell i).y ∧ (c'.cell i).orient = (c.cell i).orient := by
  simp only [Circuit.cell]
  refine ⟨?_, ?_, ?_, ?_, ?_⟩
  · rw [← getD_map_w, ← getD_map_w, a.widths]
  · rw [← getD_map_h, ← getD_map_h, a.heights]
  · rw [← getD_map_x, ← getD_map_x, a.xs]
  · rw [← getD_map_y, ← getD_map_y, a.ys]
  · rw [← getD_map_orient, ← getD_map_orient, a.orientations]

theorem pinX_agree {c c' : Circuit} (a : Agree c c') (p : Pin) : c'.pinX p = c.pinX p := by
  obtain ⟨hw, hh, hx, _, ho⟩ := cell_fields a p.cell
  simp only [Circuit.pinX, Circuit.pinXOffset, Cell.placedWidth, hw, hh, hx, ho]

theorem pinY_agree {c c' : Circuit} (a : Agree c c') (p : Pin) : c'.pinY p = c.pinY p := by
  obtain ⟨hw, hh, _, hy, ho⟩ := cell_fields a p.cell
  simp only [Circuit.pinY, Circuit.pinYOffset, Cell.placedHeight, hw, hh, hy, ho]

/-- the half-perimeter of a net as a function of its pins -/
def pinsHpwl (c : Circuit) (ps : List Pin) : Int :=
  (Circuit.lmax 0 (ps.map c.pinX) - Circuit.lmin 0 (ps.map c.pinX)) +
  (Circuit.lmax 0 (ps.map c.pinY) - Circuit.lmin 0 (ps.map c.pinY))

theorem hpwl_eq_pins (c : Circuit) : c.hpwl = ((c.nets.map (·.pins)).map (pinsHpwl c)).sum := by
  simp only [Circuit.hpwl, List.map_map]
  rfl

theorem hpwl_agree {c c' : Circuit} (a : Agree c c') : c'.hpwl = c.hpwl := by
  have hx : c'.pinX = c.pinX := funext (pinX_agree a)
  have hy : c'.pinY = c.pinY := funext (pinY_agree a)
  have hp : pinsHpwl c' = pinsHpwl c := by
    funext ps
    simp only [pinsHpwl, hx, hy]
  rw [hpwl_eq_pins, hpwl_eq_pins, hp, netPins_eq_of_parts _ _ a.connectivity a.pinOffsets]

end ColoVerif.Ispd
