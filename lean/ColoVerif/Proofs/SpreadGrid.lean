import ColoVerif.Model.Spread
import Mathlib.Tactic.Linarith
import Mathlib.Tactic.Ring
/-
C06 helper lemmas: the bins of the density grid lie inside the bounding box of the regions,
and the regions `fromIspdCircuit` hands over lie inside the rows' bounding box.
-/
namespace ColoVerif.Spread

/-- `r` is a well-formed rectangle inside `box` -/
def Rect.Within (box r : Rect) : Prop :=
  box.minX ≤ r.minX ∧ r.minX ≤ r.maxX ∧ r.maxX ≤ box.maxX ∧
  box.minY ≤ r.minY ∧ r.minY ≤ r.maxY ∧ r.maxY ≤ box.maxY

/-- coordinates of `box` are C++ `int`s -/
def Rect.IsInt (box : Rect) : Prop :=
  box.minX ≤ intMax ∧ intMin ≤ box.maxX ∧ box.minY ≤ intMax ∧ intMin ≤ box.maxY

theorem subdiv_bounds (mn mx : Int) (n : Nat) (h : mn ≤ mx) :
    ∀ l ∈ computeSubdivisions mn mx n, mn ≤ l ∧ l ≤ mx := by
  intro l hl
  unfold computeSubdivisions at hl
  obtain ⟨i, hi, rfl⟩ := List.mem_map.mp hl
  have hin : i ≤ n := by
    have := List.mem_range.mp hi
    omega
  have hd : 0 ≤ mx - mn := by omega
  have hnum : 0 ≤ (i : Int) * (mx - mn) := Int.mul_nonneg (Int.natCast_nonneg i) hd
  have h0 : 0 ≤ Int.tdiv ((i : Int) * (mx - mn)) (n : Int) :=
    Int.tdiv_nonneg hnum (Int.natCast_nonneg n)
  have h1 : Int.tdiv ((i : Int) * (mx - mn)) (n : Int) ≤ mx - mn := by
    rw [Int.tdiv_eq_ediv_of_nonneg hnum]
    by_cases hn : n = 0
    · subst hn; simp; omega
    · have hnpos : (0 : Int) < (n : Int) := by exact_mod_cast Nat.pos_of_ne_zero hn
      apply Int.ediv_le_of_le_mul hnpos
      have : (i : Int) ≤ (n : Int) := by exact_mod_cast hin
      calc (i : Int) * (mx - mn) ≤ (n : Int) * (mx - mn) := Int.mul_le_mul_of_nonneg_right this hd
        _ = (mx - mn) * (n : Int) := Int.mul_comm _ _
  constructor <;> omega

theorem areaStep_minX (a r : Rect) : (areaStep a r).minX = min r.minX a.minX := rfl
theorem areaStep_maxX (a r : Rect) : (areaStep a r).maxX = max r.maxX a.maxX := rfl
theorem areaStep_minY (a r : Rect) : (areaStep a r).minY = min r.minY a.minY := rfl
theorem areaStep_maxY (a r : Rect) : (areaStep a r).maxY = max r.maxY a.maxY := rfl

/-- fold of `areaStep`: bounds that hold for the start value and for every region hold for the
result, and the result encloses every region -/
theorem areaFold (regions : List Rect) (init : Rect) (box : Rect)
    (hi : box.minX ≤ init.minX ∧ init.maxX ≤ box.maxX ∧ box.minY ≤ init.minY ∧ init.maxY ≤ box.maxY)
    (hr : ∀ r ∈ regions, Rect.Within box r) :
    (box.minX ≤ (regions.foldl areaStep init).minX ∧ (regions.foldl areaStep init).maxX ≤ box.maxX ∧
     box.minY ≤ (regions.foldl areaStep init).minY ∧ (regions.foldl areaStep init).maxY ≤ box.maxY) ∧
    ((regions.foldl areaStep init).minX ≤ init.minX ∧ init.maxX ≤ (regions.foldl areaStep init).maxX ∧
     (regions.foldl areaStep init).minY ≤ init.minY ∧ init.maxY ≤ (regions.foldl areaStep init).maxY) ∧
    (∀ r ∈ regions, (regions.foldl areaStep init).minX ≤ r.minX ∧ r.maxX ≤ (regions.foldl areaStep init).maxX ∧
      (regions.foldl areaStep init).minY ≤ r.minY ∧ r.maxY ≤ (regions.foldl areaStep init).maxY) := by
  induction regions generalizing init with
  | nil => simp; exact hi
  | cons r rs ih =>
    have hw := hr r (by simp)
    unfold Rect.Within at hw
    have hi' : box.minX ≤ (areaStep init r).minX ∧ (areaStep init r).maxX ≤ box.maxX ∧
        box.minY ≤ (areaStep init r).minY ∧ (areaStep init r).maxY ≤ box.maxY := by
      rw [areaStep_minX, areaStep_maxX, areaStep_minY, areaStep_maxY]
      omega
    obtain ⟨a, b, c⟩ := ih (areaStep init r) hi' (fun r' hr' => hr r' (List.mem_cons_of_mem _ hr'))
    simp only [List.foldl_cons]
    refine ⟨a, ?_, ?_⟩
    · rw [areaStep_minX, areaStep_maxX, areaStep_minY, areaStep_maxY] at b
      omega
    · intro r' hr'
      rcases List.mem_cons.mp hr' with rfl | hmem
      · rw [areaStep_minX, areaStep_maxX, areaStep_minY, areaStep_maxY] at b
        omega
      · exact c r' hmem

/-- the placement area of non-empty well-formed regions inside `box` is a well-formed rectangle
inside `box` -/
theorem area_within (regions : List Rect) (box : Rect) (hne : regions ≠ []) (hb : Rect.IsInt box)
    (hr : ∀ r ∈ regions, Rect.Within box r) :
    Rect.Within box (computePlacementArea regions) := by
  unfold computePlacementArea
  have hemp : regions.isEmpty = false := by
    cases regions with
    | nil => exact absurd rfl hne
    | cons _ _ => rfl
  rw [hemp]
  simp only [Bool.false_eq_true, if_false]
  obtain ⟨h1, h2, h3, h4⟩ := hb
  obtain ⟨a, _, c⟩ := areaFold regions ⟨intMax, intMin, intMax, intMin⟩ box ⟨h1, h2, h3, h4⟩ hr
  cases regions with
  | nil => exact absurd rfl hne
  | cons r rs =>
    have hc := c r (by simp)
    have hw := hr r (by simp)
    unfold Rect.Within at hw ⊢
    omega

theorem clipRows_within (margin : Int) (hm : 0 ≤ margin) (rows : List Rect) (box : Rect)
    (hr : ∀ r ∈ rows, Rect.Within box r) : ∀ r ∈ clipRows margin rows, Rect.Within box r := by
  intro r' hr'
  unfold clipRows at hr'
  obtain ⟨r, hmem, hclip⟩ := List.mem_filterMap.mp hr'
  have hw := hr r hmem
  unfold clipRow at hclip
  split at hclip
  · simp at hclip
  · rename_i hwide
    simp only [Option.some.injEq] at hclip
    subst hclip
    unfold Rect.Within at hw ⊢
    simp only [Rect.width] at hwide
    simp only
    omega

theorem isEmpty_false_ne_nil {α : Type} (l : List α) (h : l.isEmpty = false) : l ≠ [] := by
  cases l with
  | nil => simp at h
  | cons _ _ => simp

/-- the regions of `fromIspdCircuit` are well-formed rectangles inside the rows' bounding box -/
theorem gridRegions_within (margin : Int) (hm : 0 ≤ margin) (freeRows rows : List Rect) (box : Rect)
    (hbox : computePlacementArea rows = box) (hwf : box.minX ≤ box.maxX ∧ box.minY ≤ box.maxY)
    (hfree : ∀ r ∈ freeRows, Rect.Within box r) :
    ∀ r ∈ gridRegions margin freeRows rows, Rect.Within box r := by
  unfold gridRegions
  split
  · split
    · split
      · intro r hr; simp at hr
      · intro r hr
        simp only [List.mem_singleton] at hr
        subst hr
        rw [hbox]
        unfold Rect.Within
        omega
    · exact hfree
  · exact clipRows_within margin hm freeRows box hfree

theorem mem_limX_within (binSize : Int) (regions : List Rect) (box : Rect)
    (hw : Rect.Within box (computePlacementArea regions)) :
    (∀ l ∈ (mkGrid binSize regions).limX, box.minX ≤ l ∧ l ≤ box.maxX) ∧
    (∀ l ∈ (mkGrid binSize regions).limY, box.minY ≤ l ∧ l ≤ box.maxY) := by
  unfold Rect.Within at hw
  constructor
  · intro l hl
    have := subdiv_bounds _ _ _ hw.2.1 l hl
    omega
  · intro l hl
    have := subdiv_bounds _ _ _ hw.2.2.2.2.1 l hl
    omega

end ColoVerif.Spread
