import ColoVerif.Proofs.DetSearch
import ColoVerif.Proofs.DetOptHpwlHist
/-
`runSwaps` as a whole never returns an error on an in-sync placement that satisfies `Inv`
(`runSwaps_no_error`): the windowed one-row pass (Proofs/DetSearch.lean) and the amplified two-row
pass, whose two model-only fuels are shown to suffice:

* inner `while (bestSwapUpdate(...))`: on a synchronised placer `value()` is the position-only
  objective, which is a sum of spans (≥ 0), and every successful round strictly decreases it
  (the value after the swap is the one `valueOnSwap` read): `value().toNat + 1` rounds suffice;
* outer walk over the cells of `r1`: the number of cells of `r1` strictly left of the current cell
  (`rank`) never decreases in the inner loop (the swapped-in cell of `r2` lands between the
  neighbours of the cell it replaces) and grows at every `c = cellNext(c)`: `nbCells + 1` rounds suffice;
* the rows `RowNeighbourhood` returns for row `i` are valid rows different from `i`.
-/
namespace ColoVerif.DetPlace
open ColoVerif State

/-! ### `value()` is non-negative on a synchronised placer -/

theorem span_nonneg (l : List Int) : 0 ≤ C09.span l := by
  rcases C09.span_isSpan l with ⟨_, h⟩ | ⟨lo, hi, hlo, _, hb, h⟩
  · omega
  · have := (hb lo hlo).2
    omega

theorem sum_nonneg : ∀ (l : List Int), (∀ x ∈ l, 0 ≤ x) → 0 ≤ l.sum
  | [], _ => by simp
  | x :: xs, h => by
    rw [List.sum_cons]
    have := h x List.mem_cons_self
    have := sum_nonneg xs (fun y hy => h y (List.mem_cons_of_mem _ hy))
    omega

theorem scratchValue_nonneg (m : IncrNet.Model) : 0 ≤ IncrNet.scratchValue m := by
  unfold IncrNet.scratchValue
  apply sum_nonneg
  intro x hx
  obtain ⟨n, _, rfl⟩ := List.mem_map.1 hx
  exact span_nonneg _

theorem Sync.value_nonneg {c : Circuit} {p : Placer} (h : Sync c p) : 0 ≤ p.value := by
  unfold Placer.value
  rw [IncrNet.good_value _ h.x.good, IncrNet.good_value _ h.y.good]
  have := scratchValue_nonneg p.xt
  have := scratchValue_nonneg p.yt
  omega

/-! ### a chosen swap strictly decreases `value()` -/

/-- the state after a swap is exactly the one `valueOnSwap` evaluated (copy of Properties/C05
`swap_value_eq`) -/
theorem swap_value_eq' (V : Value) {s t : State} (h : Inv s) {c1 c2 : Int}
    (hc1 : s.validCell c1) (hc2 : s.validCell c2) (e : s.swap c1 c2 = .ok t) :
    s.valueOnSwap V c1 c2 = some (t.value V) := by
  have hpos := swap_positions e
  have hcan : s.canSwap c1 c2 = .ok true := by
    unfold State.swap at e
    split at e
    · cases e
    · cases e
    · assumption
  have hpl : s.row c1 ≠ -1 ∧ s.row c2 ≠ -1 ∧ c1 ≠ c2 := by
    obtain ⟨a, b, c, _⟩ := canSwap_true hcan
    exact ⟨a, b, c⟩
  have y1 : s.y c1 = s.rowY (s.row c1) := by
    have := h.cell hc1; unfold CellOk at this; exact (this.2 hpl.1).2.2.2
  have y2 : s.y c2 = s.rowY (s.row c2) := by
    have := h.cell hc2; unfold CellOk at this; exact (this.2 hpl.2.1).2.2.2
  have ex : t.x = upd (upd s.x c1 (s.positionsOnSwap c1 c2).1.1) c2 (s.positionsOnSwap c1 c2).2.1 := by
    funext d
    rw [(hpos d).1]
    by_cases hd2 : d = c2
    · subst hd2; simp [upd, Ne.symm hpl.2.2]
    · by_cases hd1 : d = c1
      · subst hd1; simp [upd, hd2]
      · simp [upd, hd1, hd2]
  have py : (s.positionsOnSwap c1 c2).1.2 = s.y c2 ∧ (s.positionsOnSwap c1 c2).2.2 = s.y c1 := by
    unfold positionsOnSwap; split
    · exact ⟨rfl, rfl⟩
    · split <;> exact ⟨rfl, rfl⟩
  have ey : t.y = upd (upd s.y c1 (s.positionsOnSwap c1 c2).1.2) c2 (s.positionsOnSwap c1 c2).2.2 := by
    funext d
    rw [(hpos d).2, py.1, py.2, y1, y2]
    by_cases hd2 : d = c2
    · subst hd2; simp [upd, Ne.symm hpl.2.2]
    · by_cases hd1 : d = c1
      · subst hd1; simp [upd, hd2]
      · simp [upd, hd1, hd2]
  unfold valueOnSwap State.value
  rw [hcan, ex, ey]

/-- everything the search needs to know about a swap chosen by the scan between two live cells of an
in-sync `Inv` placer -/
theorem chosen_swap_ok {c : Circuit} {p : Placer} (hs : Sync c p) (h : Inv p.pl) {k b : Int}
    {cands : List Int} (hk : p.pl.liveCell k = true) (hb : p.pl.liveCell b = true)
    (hch : p.bestSwapChoice k cands = some b) :
    ∃ q, p.step (.swap k b) = .ok q ∧ p.pl.swap k b = .ok q.pl ∧ Inv q.pl ∧ Sync c q ∧
      q.pl.rows = p.pl.rows ∧ q.pl.nCells = p.pl.nCells ∧ (∀ d, q.pl.liveCell d = p.pl.liveCell d) ∧
      q.value < p.value := by
  obtain ⟨q, e, hi, hrows, hl⟩ := Placer.step_swap_ok h hk hb (bestSwapChoice_canSwap hch)
  obtain ⟨hsq, e'⟩ := step_sync hs e
  have esw : p.pl.swap k b = .ok q.pl := by
    simp only [State.step, hk, hb, Bool.and_self, if_true] at e'
    exact e'
  refine ⟨q, e, esw, hi, hsq, hrows, swap_nCells esw, hl, ?_⟩
  obtain ⟨v, hv, hlt⟩ := bestSwapChoice_improves hch
  have vk := ((liveCell_iff _ _).1 hk).1
  have vb := ((liveCell_iff _ _).1 hb).1
  rw [(valueOnSwap_eq hs vk vb).1, swap_value_eq' (circuitValue c) h vk vb esw] at hv
  injection hv with hv
  rw [hsq.value, hv]
  exact hlt

/-! ### the immediate left neighbour -/

/-- every cell of the row left of `k` ends before `boundaryBefore(k)`: `cellPred(k)` is the immediate
left neighbour -/
theorem left_le_boundaryBefore {s : State} (h : Inv s) {k d : Int} (vk : s.validCell k) (hp : s.row k ≠ -1)
    (vd : s.validCell d) (hr : s.row d = s.row k) (hx : s.x d < s.x k) :
    s.x d + s.width d ≤ s.boundaryBefore k := by
  have L := h.link vk
  unfold LinkOk at L
  have wk := h.placed_width vk hp
  have hpd : s.row d ≠ -1 := by rw [hr]; exact hp
  have wd := h.placed_width vd hpd
  have rd := (reach_first h vd hpd).2
  rw [hr] at rd
  unfold boundaryBefore
  by_cases hpr : s.pred k = -1
  · exfalso
    have hf := ((L.2.2 hp).2.1 hpr).1
    rw [hf] at rd
    rcases (rd.order h vk hp).2.2 with e | e
    · rw [e] at hx; omega
    · omega
  · rw [if_neg hpr]
    obtain ⟨vp, rp, xp, np⟩ := (L.2.2 hp).1 hpr
    have hpp : s.row (s.pred k) ≠ -1 := by rw [rp]; exact hp
    have wp := h.placed_width vp hpp
    by_cases hdp : d = s.pred k
    · rw [hdp]
    · rcases row_order h vp vd hpp (hr.trans rp.symm) (Ne.symm hdp) with o | o
      · exfalso
        have rpk := (reach_first h vp hpp).2
        rw [rp] at rpk
        rcases rpk.total rd with r | r
        · rcases r.head_cases with e | ⟨_, r'⟩
          · exact hdp e
          · rw [np] at r'
            rcases (r'.order h vk hp).2.2 with e | e
            · rw [e] at hx; omega
            · omega
        · rcases (r.order h vd hpd).2.2 with e | e
          · exact hdp e.symm
          · omega
      · omega

/-- a swap with a cell of another row does not decrease the number of cells of the row left of the
current cell: the swapped-in cell lands between the old neighbours -/
theorem swap_rank_le {s t : State} (h : Inv s) {k b r1 : Int} (vk : s.validCell k) (vb : s.validCell b)
    (hk : s.row k = r1) (hb : s.row b ≠ r1) (e : s.swap k b = .ok t) :
    rank s r1 (s.x k) ≤ rank t r1 (t.x b) := by
  have hcan : s.canSwap k b = .ok true := by
    unfold State.swap at e
    split at e
    · cases e
    · cases e
    · assumption
  obtain ⟨pk, pb, hkb, _, _, hfit⟩ := canSwap_true hcan
  obtain ⟨_, _, _, hrows⟩ := Lg.swap_rows e
  have hpos := swap_positions e
  have Lk := h.link vk
  have Lb := h.link vb
  unfold LinkOk at Lk Lb
  have n1 : s.pred k ≠ b := by
    intro hh
    have hne : s.pred k ≠ -1 := by rw [hh]; unfold validCell at vb; omega
    have := ((Lk.2.2 pk).1 hne).2.1
    rw [hh] at this
    exact hb (this.trans hk)
  have n2 : s.pred b ≠ k := by
    intro hh
    have hne : s.pred b ≠ -1 := by rw [hh]; unfold validCell at vk; omega
    have := ((Lb.2.2 pb).1 hne).2.1
    rw [hh] at this
    exact hb (this.symm.trans hk)
  have hfit' : s.boundaryAfter k - s.boundaryBefore k ≥ s.width b := by
    rcases hfit with hh | hh | hh
    · exact absurd hh n1
    · exact absurd hh n2
    · exact hh.2
  have xb : t.x b = (s.boundaryBefore k + s.boundaryAfter k - s.width b).tdiv 2 := by
    rw [(hpos b).1, if_neg (Ne.symm hkb), if_pos rfl]
    unfold positionsOnSwap
    rw [if_neg n1, if_neg n2]
  have hmid := (midpoint_ok (s.boundaryBefore k) (s.boundaryAfter k) (s.width b) (by omega)).1
  unfold rank
  rw [swap_nCells e]
  apply List.countP_mono_left
  intro d hd hP
  simp only [decide_eq_true_eq] at hP ⊢
  have vd : s.validCell (d : Int) := by
    unfold validCell; rw [List.mem_range] at hd; omega
  have dk : (d : Int) ≠ k := by intro hh; rw [hh] at hP; omega
  have db : (d : Int) ≠ b := by intro hh; rw [hh] at hP; exact hb hP.1
  have hle := left_le_boundaryBefore h vk pk vd (hP.1.trans hk.symm) hP.2
  have wd := h.placed_width vd (by rw [hP.1, ← hk]; exact pk)
  refine ⟨by rw [hrows, if_neg dk, if_neg db]; exact hP.1, ?_⟩
  rw [(hpos d).1, if_neg dk, if_neg db, xb]
  omega

/-! ### the amplified two-row pass -/

/-- `k` is `-1` or a valid cell of row `r` -/
def InRowOrNeg (s : State) (r k : Int) : Prop := k = -1 ∨ (s.validCell k ∧ s.row k = r)

theorem next_inRow {s : State} (h : Inv s) {r k : Int} (hr : r ≠ -1) (vk : s.validCell k) (rk : s.row k = r) :
    InRowOrNeg s r (s.next k) := by
  by_cases hn : s.next k = -1
  · exact .inl hn
  · have L := h.link vk
    unfold LinkOk at L
    obtain ⟨vn, rn, _, _⟩ := (L.2.2 (by rw [rk]; exact hr)).2.2.1 hn
    exact .inr ⟨vn, rn.trans rk⟩

theorem pred_inRow {s : State} (h : Inv s) {r k : Int} (hr : r ≠ -1) (vk : s.validCell k) (rk : s.row k = r) :
    InRowOrNeg s r (s.pred k) := by
  by_cases hn : s.pred k = -1
  · exact .inl hn
  · have L := h.link vk
    unfold LinkOk at L
    obtain ⟨vn, rn, _, _⟩ := (L.2.2 (by rw [rk]; exact hr)).1 hn
    exact .inr ⟨vn, rn.trans rk⟩

/-- the candidates of `bestSwapUpdate` are valid cells of the row of `from` -/
theorem walk_inRow {s : State} {lnk : Int → Int} {r : Int}
    (hl : ∀ k, s.validCell k → s.row k = r → InRowOrNeg s r (lnk k)) :
    ∀ (n : Nat) (f : Int), InRowOrNeg s r f → ∀ b ∈ Placer.walk lnk n f, s.validCell b ∧ s.row b = r
  | 0, _, _, b, hb => by simp [Placer.walk] at hb
  | n + 1, f, hf, b, hb => by
    unfold Placer.walk at hb
    split at hb
    · cases hb
    · rename_i hne
      rcases hf with e | hf
      · exact absurd e hne
      · rcases List.mem_cons.1 hb with e | hb'
        · rw [e]; exact hf
        · exact walk_inRow hl n (lnk f) (hl f hf.1 hf.2) b hb'

theorem swapUpdateCands_inRow {p : Placer} (h : Inv p.pl) {r f : Int} (hr : r ≠ -1) (hf : InRowOrNeg p.pl r f)
    (nb : Int) : ∀ b ∈ p.swapUpdateCands f nb, p.pl.validCell b ∧ p.pl.row b = r := by
  intro b hb
  unfold Placer.swapUpdateCands at hb
  rcases List.mem_append.1 hb with hb | hb
  · exact walk_inRow (fun k vk rk => next_inRow h hr vk rk) _ _ hf b hb
  · exact walk_inRow (fun k vk rk => pred_inRow h hr vk rk) _ _ hf b hb

/-- a valid cell placed in a row is live -/
theorem live_of_inRow {s : State} (h : Inv s) {r k : Int} (hr : r ≠ -1) (vk : s.validCell k) (rk : s.row k = r) :
    s.liveCell k = true := by
  rw [liveCell_iff]
  have C := h.cell vk
  unfold CellOk at C
  exact ⟨vk, (C.2 (by rw [rk]; exact hr)).1⟩

/-- the state of the amplified pass between two rounds: in sync, `Inv`, the rows are `R`, the current
cell is in `r1`, `from` is `-1` or in `r2` -/
structure AmpInv (c : Circuit) (R : List Row) (r1 r2 : Int) (p : Placer) (k f : Int) : Prop where
  sync : Sync c p
  inv : Inv p.pl
  rows : p.pl.rows = R
  cur : p.pl.validCell k ∧ p.pl.row k = r1
  frm : InRowOrNeg p.pl r2 f

/-- one round of `bestSwapUpdate` never fails; a successful round keeps the invariant, strictly
decreases `value()` and does not decrease the rank of the current cell -/
theorem bestSwapUpdate_ok {c : Circuit} {R : List Row} {r1 r2 : Int} (hne : r1 ≠ r2) (h1 : r1 ≠ -1) (h2 : r2 ≠ -1)
    {p : Placer} {k f : Int} (nb : Int) (a : AmpInv c R r1 r2 p k f) :
    p.bestSwapUpdate k f nb = .ok none ∨
    ∃ r, p.bestSwapUpdate k f nb = .ok (some r) ∧ AmpInv c R r1 r2 r.1 r.2.1 r.2.2.1 ∧
      r.1.value < p.value ∧ r.1.pl.nCells = p.pl.nCells ∧
      rank p.pl r1 (p.pl.x k) ≤ rank r.1.pl r1 (r.1.pl.x r.2.1) := by
  unfold Placer.bestSwapUpdate
  split
  · exact .inl rfl
  · rename_i b hch
    right
    obtain ⟨vb, rb⟩ := swapUpdateCands_inRow a.inv h2 a.frm nb b (bestSwapChoice_mem hch)
    obtain ⟨q, e, esw, hi, hsq, hrows, hn, hl, hval⟩ := chosen_swap_ok a.sync a.inv
      (live_of_inRow a.inv h1 a.cur.1 a.cur.2) (live_of_inRow a.inv h2 vb rb) hch
    rw [e]
    obtain ⟨_, _, hkb, hrow⟩ := Lg.swap_rows esw
    have valid_q : ∀ d, p.pl.validCell d → q.pl.validCell d := by
      intro d vd; unfold validCell at vd ⊢; rw [hn]; exact vd
    refine ⟨_, rfl, ⟨hsq, hi, hrows.trans a.rows, ⟨valid_q b vb, ?_⟩, ?_⟩, hval, hn, ?_⟩
    · show q.pl.row b = r1
      rw [hrow, if_neg (Ne.symm hkb), if_pos rfl]; exact a.cur.2
    · show InRowOrNeg q.pl r2 (if b = f then k else f)
      split
      · right
        refine ⟨valid_q k a.cur.1, ?_⟩
        rw [hrow, if_pos rfl]; exact rb
      · rename_i hbf
        rcases a.frm with e1 | ⟨vf, rf⟩
        · exact .inl e1
        · right
          refine ⟨valid_q f vf, ?_⟩
          have fk : f ≠ k := by intro hh; rw [hh] at rf; exact hne (a.cur.2.symm.trans rf)
          rw [hrow, if_neg fk, if_neg (Ne.symm hbf)]; exact rf
    · show rank p.pl r1 (p.pl.x k) ≤ rank q.pl r1 (q.pl.x b)
      exact swap_rank_le a.inv a.cur.1 vb a.cur.2 (by rw [rb]; exact Ne.symm hne) esw

/-- the `while (bestSwapUpdate(...));` loop never runs out of its fuel `value().toNat + 1` -/
theorem amplifyInner_ok {c : Circuit} {R : List Row} {r1 r2 : Int} (hne : r1 ≠ r2) (h1 : r1 ≠ -1) (h2 : r2 ≠ -1)
    (nb : Int) : ∀ (fuel : Nat) (p : Placer) (k f : Int), AmpInv c R r1 r2 p k f → p.value.toNat < fuel →
    ∃ r, Placer.amplifyInner fuel p k f nb = .ok r ∧ AmpInv c R r1 r2 r.1 r.2.1 r.2.2.1 ∧
      r.1.pl.nCells = p.pl.nCells ∧ rank p.pl r1 (p.pl.x k) ≤ rank r.1.pl r1 (r.1.pl.x r.2.1)
  | 0, _, _, _, _, hf => by omega
  | fuel + 1, p, k, f, a, hf => by
    unfold Placer.amplifyInner
    rcases bestSwapUpdate_ok hne h1 h2 nb a with e | ⟨r, e, a', hv, hn, hr⟩
    · rw [e]
      exact ⟨_, rfl, a, rfl, Nat.le_refl _⟩
    · rw [e]
      have h0 := a'.sync.value_nonneg
      obtain ⟨r', e', a'', hn', hr'⟩ := amplifyInner_ok hne h1 h2 nb fuel r.1 r.2.1 r.2.2.1 a' (by omega)
      simp only [e']
      exact ⟨_, rfl, a'', hn'.trans hn, Nat.le_trans hr hr'⟩

/-- `findCellAfter` stays in the row of `from` -/
theorem findAfterGo_inRow {s : State} (h : Inv s) {r : Int} (hr : r ≠ -1) (tx : Int) :
    ∀ (n : Nat) (k : Int), s.validCell k → s.row k = r → s.validCell (s.findAfterGo tx n k) ∧ s.row (s.findAfterGo tx n k) = r
  | 0, k, vk, rk => ⟨vk, rk⟩
  | n + 1, k, vk, rk => by
    unfold findAfterGo
    split
    · exact ⟨vk, rk⟩
    · rename_i hn
      split
      · exact ⟨vk, rk⟩
      · rcases next_inRow h hr vk rk with e | ⟨vn, rn⟩
        · exact absurd e hn
        · exact findAfterGo_inRow h hr tx n _ vn rn

theorem findCellAfter_inRow {s : State} (h : Inv s) {r : Int} (hr : r ≠ -1) (target : Int) {f : Int}
    (hf : InRowOrNeg s r f) : InRowOrNeg s r (s.findCellAfter target f) := by
  unfold State.findCellAfter
  split
  · exact .inl rfl
  · rename_i hne
    rcases hf with e | ⟨vf, rf⟩
    · exact absurd e hne
    · exact .inr (findAfterGo_inRow h hr _ _ _ vf rf)

/-- the walk over the cells of `r1` never runs out of its fuel: the rank of the current cell grows at
every step -/
theorem amplifyOuter_ok {c : Circuit} {R : List Row} {r1 r2 : Int} (hne : r1 ≠ r2) (h1 : r1 ≠ -1) (h2 : r2 ≠ -1)
    (nb : Int) : ∀ (fuel : Nat) (p : Placer) (k f : Int), Sync c p → Inv p.pl → p.pl.rows = R →
    InRowOrNeg p.pl r1 k → InRowOrNeg p.pl r2 f → 1 ≤ fuel →
    (k ≠ -1 → p.pl.nCells + 1 ≤ fuel + rank p.pl r1 (p.pl.x k)) →
    ∃ r, Placer.amplifyOuter fuel p k f nb = .ok r ∧ Sync c r.1 ∧ Inv r.1.pl ∧ r.1.pl.rows = R
  | 0, _, _, _, _, _, _, _, _, hf, _ => by omega
  | fuel + 1, p, k, f, hs, hi, hR, hk, hf, _, hm => by
    unfold Placer.amplifyOuter
    split
    · exact ⟨_, rfl, hs, hi, hR⟩
    · rename_i hk1
      rcases hk with e | hk
      · exact absurd e hk1
      · have a : AmpInv c R r1 r2 p k f := ⟨hs, hi, hR, hk, hf⟩
        obtain ⟨r, e, a', hn, hr⟩ := amplifyInner_ok hne h1 h2 nb (p.value.toNat + 1) p k f a (Nat.lt_succ_self _)
        rw [e]
        have hrank := rank_lt_nCells (s := r.1.pl) a'.cur.1
        rw [a'.cur.2] at hrank
        have hm' := hm hk1
        have hnext := next_inRow a'.inv h1 a'.cur.1 a'.cur.2
        obtain ⟨r', e', h'⟩ := amplifyOuter_ok hne h1 h2 nb fuel r.1 (r.1.pl.next r.2.1)
          (r.1.findCellAfter r.2.1 r.2.2.1) a'.sync a'.inv a'.rows hnext
          (findCellAfter_inRow a'.inv h2 _ a'.frm) (by omega)
          (by
            intro hne'
            rcases hnext with e1 | ⟨vn, rn⟩
            · exact absurd e1 hne'
            · have L := a'.inv.link a'.cur.1
              unfold LinkOk at L
              obtain ⟨_, rn', xn, _⟩ := (L.2.2 (by rw [a'.cur.2]; exact h1)).2.2.1 hne'
              have w := a'.inv.placed_width a'.cur.1 (by rw [a'.cur.2]; exact h1)
              have := rank_lt (s := r.1.pl) (p := r.2.1) (c := r.1.pl.next r.2.1) a'.cur.1 rn'.symm (by omega)
              rw [a'.cur.2, rn] at this
              omega)
        simp only [e']
        exact ⟨_, rfl, h'⟩

/-- **`runSwapsTwoRowsAmplify` never fails** on an in-sync `Inv` placer for two different valid rows -/
theorem runSwapsTwoRowsAmplify_ok {c : Circuit} {p : Placer} (hs : Sync c p) (h : Inv p.pl) {r1 r2 : Int}
    (v1 : p.pl.validRow r1) (v2 : p.pl.validRow r2) (hne : r1 ≠ r2) (nb : Int) :
    ∃ r, p.runSwapsTwoRowsAmplify r1 r2 nb = .ok r ∧ Sync c r.1 ∧ Inv r.1.pl ∧ r.1.pl.rows = p.pl.rows := by
  have first : ∀ r, p.pl.validRow r → InRowOrNeg p.pl r (p.pl.rowFirst r) := by
    intro r vr
    by_cases hf : p.pl.rowFirst r = -1
    · exact .inl hf
    · have R := h.rowok vr
      unfold RowOk at R
      obtain ⟨vf, _, rf, _⟩ := R.2 hf
      exact .inr ⟨vf, rf⟩
  have h1 : r1 ≠ -1 := by unfold validRow at v1; omega
  have h2 : r2 ≠ -1 := by unfold validRow at v2; omega
  unfold Placer.runSwapsTwoRowsAmplify
  exact amplifyOuter_ok hne h1 h2 nb _ p _ _ hs h rfl (first r1 v1) (first r2 v2) (by omega) (fun _ => by omega)

/-! ### the rows `RowNeighbourhood` returns are valid rows different from the queried one -/

namespace RowNbh

/-- an entry of `sortedRows` names a row of `rs` with its rectangle -/
def EntOk (rs : List Rect) (e : Entry) : Prop :=
  0 ≤ e.1 ∧ e.1 < (rs.length : Int) ∧ e.2 = rectAt rs e.1

/-- different entries have different row indices -/
def Distinct (a b : Entry) : Prop := a.1 ≠ b.1

theorem entries_ok (rs : List Rect) : ∀ e ∈ entries rs, EntOk rs e := by
  intro e he
  unfold entries at he
  obtain ⟨ri, hri, rfl⟩ := List.mem_map.1 he
  obtain ⟨_, h2, h3⟩ := List.mem_zipIdx (x := ri.1) (i := ri.2) hri
  have hlt : ri.2 < rs.length := by omega
  refine ⟨by simp, by simp only [Int.ofNat_eq_natCast]; omega, ?_⟩
  simp only [rectAt, Int.ofNat_eq_natCast, Int.toNat_natCast]
  rw [if_neg (by omega), h3]
  simp [List.getD_eq_getElem?_getD, hlt]

theorem zipIdx_distinct (f : Rect × Nat → Entry) (hf : ∀ x, (f x).1 = Int.ofNat x.2) :
    ∀ (l : List Rect) (k : Nat), ((l.zipIdx k).map f).Pairwise Distinct
  | [], _ => by simp
  | a :: l, k => by
    rw [List.zipIdx_cons, List.map_cons, List.pairwise_cons]
    refine ⟨?_, zipIdx_distinct f hf l (k + 1)⟩
    intro b hb
    obtain ⟨x, hx, rfl⟩ := List.mem_map.1 hb
    obtain ⟨h1, _, _⟩ := List.mem_zipIdx (x := x.1) (i := x.2) hx
    unfold Distinct
    rw [hf, hf]
    simp only [Int.ofNat_eq_natCast]
    omega

theorem entries_distinct (rs : List Rect) : (entries rs).Pairwise Distinct :=
  zipIdx_distinct _ (fun _ => rfl) rs 0

theorem mem_insertBy (lt : Entry → Entry → Bool) (a : Entry) : ∀ (l : List Entry) (e : Entry),
    e ∈ insertBy lt a l → e = a ∨ e ∈ l
  | [], e, h => by simp [insertBy] at h; exact .inl h
  | b :: bs, e, h => by
    unfold insertBy at h
    split at h
    · rcases List.mem_cons.1 h with h | h
      · exact .inr (h ▸ List.mem_cons_self)
      · rcases mem_insertBy lt a bs e h with h | h
        · exact .inl h
        · exact .inr (List.mem_cons_of_mem _ h)
    · rcases List.mem_cons.1 h with h | h
      · exact .inl h
      · exact .inr h

theorem mem_sortBy (lt : Entry → Entry → Bool) : ∀ (l : List Entry) (e : Entry), e ∈ sortBy lt l → e ∈ l
  | [], e, h => by simp [sortBy] at h
  | a :: l, e, h => by
    have h' : e ∈ insertBy lt a (sortBy lt l) := h
    rcases mem_insertBy lt a _ e h' with h | h
    · exact h ▸ List.mem_cons_self
    · exact List.mem_cons_of_mem _ (mem_sortBy lt l e h)

theorem distinct_insertBy (lt : Entry → Entry → Bool) (a : Entry) : ∀ (l : List Entry),
    (∀ b ∈ l, Distinct a b) → l.Pairwise Distinct → (insertBy lt a l).Pairwise Distinct
  | [], _, _ => by simp [insertBy]
  | b :: bs, ha, hl => by
    unfold insertBy
    obtain ⟨hb, hbs⟩ := List.pairwise_cons.1 hl
    split
    · refine List.pairwise_cons.2 ⟨?_, distinct_insertBy lt a bs (fun x hx => ha x (List.mem_cons_of_mem _ hx)) hbs⟩
      intro x hx
      rcases mem_insertBy lt a bs x hx with e | hx
      · rw [e]; exact fun hh => ha b List.mem_cons_self hh.symm
      · exact hb x hx
    · exact List.pairwise_cons.2 ⟨ha, hl⟩

theorem distinct_sortBy (lt : Entry → Entry → Bool) : ∀ (l : List Entry), l.Pairwise Distinct →
    (sortBy lt l).Pairwise Distinct
  | [], _ => by simp [sortBy]
  | a :: l, h => by
    obtain ⟨ha, hl⟩ := List.pairwise_cons.1 h
    exact distinct_insertBy lt a (sortBy lt l) (fun b hb => ha b (mem_sortBy lt l b hb)) (distinct_sortBy lt l hl)

theorem scanFound_spec (test : Rect → Bool) (nb : Int) : ∀ (rest : List Entry) (found : Int) (j : Int),
    j ∈ scanFound test nb found rest → ∃ e ∈ rest, e.1 = j ∧ test e.2 = true
  | [], _, _, h => by simp [scanFound] at h
  | e :: rest, found, j, h => by
    unfold scanFound at h
    split at h
    · rename_i ht
      split at h
      · simp only [List.mem_singleton] at h
        exact ⟨e, List.mem_cons_self, h.symm, ht⟩
      · rcases List.mem_cons.1 h with h | h
        · exact ⟨e, List.mem_cons_self, h.symm, ht⟩
        · obtain ⟨e', he', h'⟩ := scanFound_spec test nb rest _ j h
          exact ⟨e', List.mem_cons_of_mem _ he', h'⟩
    · split at h
      · cases h
      · obtain ⟨e', he', h'⟩ := scanFound_spec test nb rest _ j h
        exact ⟨e', List.mem_cons_of_mem _ he', h'⟩

theorem scanAll_spec (rel : Rect → Rect → Bool) (nb : Int) : ∀ (l : List Entry) (kv : Int × List Int),
    kv ∈ scanAll rel nb l → ∃ e ∈ l, e.1 = kv.1 ∧ ∀ j ∈ kv.2, ∃ e' ∈ l, e'.1 = j ∧ rel e'.2 e.2 = true
  | [], _, h => by simp [scanAll] at h
  | e :: rest, kv, h => by
    unfold scanAll at h
    rcases List.mem_cons.1 h with h | h
    · refine ⟨e, List.mem_cons_self, by rw [h], fun j hj => ?_⟩
      rw [h] at hj
      obtain ⟨e', he', h1, h2⟩ := scanFound_spec _ nb rest 0 j hj
      exact ⟨e', List.mem_cons_of_mem _ he', h1, h2⟩
    · obtain ⟨e0, he0, h1, h2⟩ := scanAll_spec rel nb rest kv h
      refine ⟨e0, List.mem_cons_of_mem _ he0, h1, fun j hj => ?_⟩
      obtain ⟨e', he', h'⟩ := h2 j hj
      exact ⟨e', List.mem_cons_of_mem _ he', h'⟩

/-- an element of `ret[r]` comes from an assignment `ret[r] = v` -/
theorem collect_spec (n : Nat) (assoc : List (Int × List Int)) (r j : Int) (h : j ∈ at_ (collect n assoc) r) :
    ∃ kv ∈ assoc, kv.1 = r ∧ j ∈ kv.2 := by
  unfold at_ at h
  split at h
  · cases h
  · rename_i hr
    unfold collect at h
    rw [List.getD_eq_getElem?_getD, List.getElem?_map] at h
    cases hg : (State.intsUpTo n)[r.toNat]? with
    | none => rw [hg] at h; simp at h
    | some i =>
      rw [hg] at h
      simp only [Option.map_some, Option.getD_some] at h
      have hi : i = r := by
        unfold State.intsUpTo at hg
        rw [List.getElem?_map] at hg
        cases hg2 : (List.range n)[r.toNat]? with
        | none => rw [hg2] at hg; cases hg
        | some k =>
          rw [hg2] at hg
          simp only [Option.map_some, Option.some.injEq] at hg
          have := List.getElem?_range (n := n) (i := r.toNat)
          have hk : k = r.toNat := by
            rw [List.getElem?_eq_some_iff] at hg2
            obtain ⟨hlt, hk⟩ := hg2
            simp at hk
            exact hk.symm
          rw [← hg, hk]
          simp only [Int.ofNat_eq_natCast]
          omega
      cases hf : assoc.find? (fun kv => kv.1 == i) with
      | none => rw [hf] at h; simp at h
      | some kv =>
        rw [hf] at h
        simp only [Option.map_some, Option.getD_some] at h
        have h1 := List.find?_some hf
        simp only [beq_iff_eq] at h1
        exact ⟨kv, List.mem_of_find?_eq_some hf, h1.trans hi, h⟩

theorem isAbove_overlap {r1 r2 : Rect} (h : isAbove r1 r2 = true) :
    r2.minY < r1.minY ∧ r2.minX < r1.maxX ∧ r1.minX < r2.maxX := by
  unfold isAbove at h
  split at h
  · cases h
  · split at h
    · cases h
    · split at h
      · cases h
      · omega

theorem isBelow_overlap {r1 r2 : Rect} (h : isBelow r1 r2 = true) :
    r1.minY < r2.minY ∧ r2.minX < r1.maxX ∧ r1.minX < r2.maxX := by
  unfold isBelow at h
  split at h
  · cases h
  · split at h
    · cases h
    · split at h
      · cases h
      · omega

/-- what a list `ret` of neighbour lists built by `scanAll` with relation `rel` satisfies -/
def ScanSpec (rs : List Rect) (rel : Rect → Rect → Bool) (v : List (List Int)) : Prop :=
  ∀ i j, j ∈ at_ v i → (0 ≤ i ∧ i < (rs.length : Int)) ∧ (0 ≤ j ∧ j < (rs.length : Int)) ∧
    rel (rectAt rs j) (rectAt rs i) = true

theorem scan_collect_spec (rs : List Rect) (rel : Rect → Rect → Bool) (lt : Entry → Entry → Bool) (nb : Int) :
    ScanSpec rs rel (collect rs.length (scanAll rel nb (sortBy lt (entries rs)))) := by
  intro i j hj
  obtain ⟨kv, hkv, hk1, hk2⟩ := collect_spec _ _ i j hj
  obtain ⟨e, he, h1, h2⟩ := scanAll_spec rel nb _ kv hkv
  obtain ⟨e', he', h1', h2'⟩ := h2 j hk2
  have ok := entries_ok rs e (mem_sortBy lt _ e he)
  have ok' := entries_ok rs e' (mem_sortBy lt _ e' he')
  unfold EntOk at ok ok'
  rw [h1, hk1] at ok
  rw [h1'] at ok'
  rw [ok.2.2, ok'.2.2] at h2'
  exact ⟨⟨ok.1, ok.2.1⟩, ⟨ok'.1, ok'.2.1⟩, h2'⟩

theorem buildAbove_spec (rs : List Rect) (nb : Int) : ScanSpec rs isAbove (buildAbove rs nb) :=
  scan_collect_spec rs isAbove orderAbove nb

theorem buildBelow_spec (rs : List Rect) (nb : Int) : ScanSpec rs isBelow (buildBelow rs nb) :=
  scan_collect_spec rs isBelow orderBelow nb

theorem mem_keepFirstK {inds : List Int} {nb j : Int} (h : j ∈ keepFirstK inds nb) : j ∈ inds := by
  unfold keepFirstK at h
  split at h
  · exact h
  · exact List.mem_of_mem_take h

theorem mem_buildLeftFrom {below above : List (List Int)} {row : Rect} {rs : List Rect} {ind j : Int}
    (h : j ∈ buildLeftFrom below above row rs ind) : j ∈ sideCandidates below above ind := by
  unfold buildLeftFrom at h
  obtain ⟨e, he, rfl⟩ := List.mem_map.1 h
  obtain ⟨c, hc, rfl⟩ := List.mem_map.1 (mem_sortBy _ _ e he)
  exact (List.mem_filter.1 hc).1

theorem mem_buildRightFrom {below above : List (List Int)} {row : Rect} {rs : List Rect} {ind j : Int}
    (h : j ∈ buildRightFrom below above row rs ind) : j ∈ sideCandidates below above ind := by
  unfold buildRightFrom at h
  obtain ⟨e, he, rfl⟩ := List.mem_map.1 h
  obtain ⟨c, hc, rfl⟩ := List.mem_map.1 (mem_sortBy _ _ e he)
  exact (List.mem_filter.1 hc).1

/-- a side candidate from `ind` is a valid row; it is `ind` or a row above/below `ind` that shares
part of its x range -/
theorem sideCandidates_spec {rs : List Rect} {below above : List (List Int)} (hb : ScanSpec rs isBelow below)
    (ha : ScanSpec rs isAbove above) {ind j : Int} (hind : 0 ≤ ind ∧ ind < (rs.length : Int))
    (h : j ∈ sideCandidates below above ind) :
    (0 ≤ j ∧ j < (rs.length : Int)) ∧
    (j = ind ∨ ((rectAt rs ind).minX < (rectAt rs j).maxX ∧ (rectAt rs j).minX < (rectAt rs ind).maxX)) := by
  unfold sideCandidates at h
  rcases List.mem_cons.1 h with h | h
  · rw [h]; exact ⟨hind, .inl rfl⟩
  · rcases List.mem_append.1 h with h | h
    · obtain ⟨_, hj, hrel⟩ := ha ind j h
      exact ⟨hj, .inr ⟨(isAbove_overlap hrel).2.1, (isAbove_overlap hrel).2.2⟩⟩
    · obtain ⟨_, hj, hrel⟩ := hb ind j h
      exact ⟨hj, .inr ⟨(isBelow_overlap hrel).2.1, (isBelow_overlap hrel).2.2⟩⟩

/-- what `rowsLeft_` / `rowsRight_` satisfy -/
def SideSpec (rs : List Rect) (v : List (List Int)) : Prop :=
  ∀ i j, j ∈ at_ v i → (0 ≤ j ∧ j < (rs.length : Int)) ∧ j ≠ i

theorem leftAssoc_spec {rs : List Rect} {below above : List (List Int)} (hb : ScanSpec rs isBelow below)
    (ha : ScanSpec rs isAbove above) (nb : Int) : ∀ (l : List Entry), (∀ e ∈ l, EntOk rs e) → l.Pairwise Distinct →
    ∀ kv ∈ leftAssoc below above rs nb l, ∀ j ∈ kv.2, (0 ≤ j ∧ j < (rs.length : Int)) ∧ j ≠ kv.1
  | [], _, _, kv, h => by simp [leftAssoc] at h
  | [_], _, _, kv, h => by simp [leftAssoc] at h
  | e1 :: e2 :: rest, hok, hd, kv, h => by
    have ih := leftAssoc_spec hb ha nb (e2 :: rest) (fun e he => hok e (List.mem_cons_of_mem _ he))
      (List.pairwise_cons.1 hd).2
    unfold leftAssoc at h
    split at h
    · rename_i hleft
      rcases List.mem_cons.1 h with h | h
      · intro j hj
        rw [h] at hj ⊢
        have ok1 := hok e1 List.mem_cons_self
        have ok2 := hok e2 (List.mem_cons_of_mem _ List.mem_cons_self)
        have hdist : e1.1 ≠ e2.1 := (List.pairwise_cons.1 hd).1 e2 List.mem_cons_self
        unfold EntOk at ok1 ok2
        obtain ⟨hv, hc⟩ := sideCandidates_spec hb ha ⟨ok1.1, ok1.2.1⟩ (mem_buildLeftFrom (mem_keepFirstK hj))
        refine ⟨hv, ?_⟩
        rcases hc with e | hc
        · rw [e]; exact hdist
        · intro hh
          rw [hh, ← ok1.2.2, ← ok2.2.2] at hc
          unfold isLeft at hleft
          simp only [decide_eq_true_eq] at hleft
          omega
      · exact ih kv h
    · exact ih kv h

theorem rightAssoc_spec {rs : List Rect} {below above : List (List Int)} (hb : ScanSpec rs isBelow below)
    (ha : ScanSpec rs isAbove above) (nb : Int) : ∀ (l : List Entry), (∀ e ∈ l, EntOk rs e) → l.Pairwise Distinct →
    ∀ kv ∈ rightAssoc below above rs nb l, ∀ j ∈ kv.2, (0 ≤ j ∧ j < (rs.length : Int)) ∧ j ≠ kv.1
  | [], _, _, kv, h => by simp [rightAssoc] at h
  | [_], _, _, kv, h => by simp [rightAssoc] at h
  | e1 :: e2 :: rest, hok, hd, kv, h => by
    have ih := rightAssoc_spec hb ha nb (e2 :: rest) (fun e he => hok e (List.mem_cons_of_mem _ he))
      (List.pairwise_cons.1 hd).2
    unfold rightAssoc at h
    split at h
    · rename_i hright
      rcases List.mem_cons.1 h with h | h
      · intro j hj
        rw [h] at hj ⊢
        have ok1 := hok e1 List.mem_cons_self
        have ok2 := hok e2 (List.mem_cons_of_mem _ List.mem_cons_self)
        have hdist : e1.1 ≠ e2.1 := (List.pairwise_cons.1 hd).1 e2 List.mem_cons_self
        unfold EntOk at ok1 ok2
        obtain ⟨hv, hc⟩ := sideCandidates_spec hb ha ⟨ok2.1, ok2.2.1⟩ (mem_buildRightFrom (mem_keepFirstK hj))
        refine ⟨hv, ?_⟩
        rcases hc with e | hc
        · rw [e]; exact Ne.symm hdist
        · intro hh
          rw [hh, ← ok1.2.2, ← ok2.2.2] at hc
          unfold isRight at hright
          simp only [decide_eq_true_eq] at hright
          omega
      · exact ih kv h
    · exact ih kv h

theorem side_collect_spec {rs : List Rect} {assoc : List (Int × List Int)}
    (h : ∀ kv ∈ assoc, ∀ j ∈ kv.2, (0 ≤ j ∧ j < (rs.length : Int)) ∧ j ≠ kv.1) :
    SideSpec rs (collect rs.length assoc) := by
  intro i j hj
  obtain ⟨kv, hkv, h1, h2⟩ := collect_spec _ _ i j hj
  have := h kv hkv j h2
  rw [h1] at this
  exact this

/-- **every row `RowNeighbourhood` lists for row `i` is a valid row different from `i`** -/
theorem build_spec (rs : List Rect) (nb : Int) (i j : Int)
    (h : j ∈ (build rs nb).rowsAbove i ∨ j ∈ (build rs nb).rowsBelow i ∨ j ∈ (build rs nb).rowsLeft i ∨
      j ∈ (build rs nb).rowsRight i) : (0 ≤ j ∧ j < (rs.length : Int)) ∧ j ≠ i := by
  have hb := buildBelow_spec rs nb
  have ha := buildAbove_spec rs nb
  have hok : ∀ e ∈ sortBy orderSide (entries rs), EntOk rs e := fun e he => entries_ok rs e (mem_sortBy _ _ e he)
  have hd := distinct_sortBy orderSide _ (entries_distinct rs)
  rcases h with h | h | h | h
  · obtain ⟨_, hj, hrel⟩ := ha i j h
    refine ⟨hj, fun hh => ?_⟩
    rw [hh] at hrel
    have := (isAbove_overlap hrel).1
    omega
  · obtain ⟨_, hj, hrel⟩ := hb i j h
    refine ⟨hj, fun hh => ?_⟩
    rw [hh] at hrel
    have := (isBelow_overlap hrel).1
    omega
  · exact side_collect_spec (leftAssoc_spec hb ha nb _ hok hd) i j h
  · exact side_collect_spec (rightAssoc_spec hb ha nb _ hok hd) i j h

end RowNbh

/-! ### the whole pass -/

/-- a search trace keeps the object in sync -/
theorem SearchTrace.sync {c : Circuit} {p q : Placer} {ops : List Op} (t : SearchTrace p ops q) (hs : Sync c p) :
    Sync c q := by
  induction t with
  | nil _ => exact hs
  | swap k b cands _ _ e _ ih => exact ih (step_sync hs e).1
  | insert k r b cands _ _ e _ ih => exact ih (step_sync hs e).1

/-- the invariant between the calls of a pass: in sync, `Inv`, the rows are `R` -/
def TotalInv (c : Circuit) (R : List Row) (p : Placer) : Prop := Sync c p ∧ Inv p.pl ∧ p.pl.rows = R

theorem mem_swapPairs {nbh : RowNbh} {n : Nat} {ij : Int × Int}
    (h : ij ∈ Placer.swapPairsUp nbh n ++ Placer.swapPairsDown nbh n) :
    (0 ≤ ij.1 ∧ ij.1 < (n : Int)) ∧
    (ij.2 ∈ nbh.rowsAbove ij.1 ∨ ij.2 ∈ nbh.rowsBelow ij.1 ∨ ij.2 ∈ nbh.rowsLeft ij.1 ∨ ij.2 ∈ nbh.rowsRight ij.1) := by
  rcases List.mem_append.1 h with h | h
  · unfold Placer.swapPairsUp at h
    obtain ⟨i, hi, h⟩ := List.mem_flatMap.1 h
    obtain ⟨j, hj, rfl⟩ := List.mem_map.1 h
    rw [mem_intsUpTo] at hi
    refine ⟨hi, ?_⟩
    rcases List.mem_append.1 hj with hj | hj
    · exact .inl hj
    · exact .inr (.inr (.inr hj))
  · unfold Placer.swapPairsDown at h
    obtain ⟨i, hi, h⟩ := List.mem_flatMap.1 h
    obtain ⟨j, hj, rfl⟩ := List.mem_map.1 h
    have hi' := List.mem_of_mem_drop (List.mem_reverse.1 hi)
    rw [mem_intsUpTo] at hi'
    refine ⟨hi', ?_⟩
    rcases List.mem_append.1 hj with hj | hj
    · exact .inr (.inl hj)
    · exact .inr (.inr (.inl hj))

/-- the two two-row sweeps of `runSwaps` never fail -/
theorem runSwapsTwoRowSweeps_ok {c : Circuit} {p : Placer} (hs : Sync c p) (h : Inv p.pl) (nbRows nb : Int) :
    ∃ r, p.runSwapsTwoRowSweeps nbRows nb = .ok r ∧ TotalInv c p.pl.rows r.1 := by
  unfold Placer.runSwapsTwoRowSweeps RowNbh.ofRows
  refine loopOps_ok (I := TotalInv c p.pl.rows)
    (body := fun q ij => q.runSwapsTwoRowsAmplify ij.1 ij.2 nb)
    (as := Placer.swapPairsUp (RowNbh.build (p.pl.rows.map (·.rect)) nbRows) p.pl.nRows ++
      Placer.swapPairsDown (RowNbh.build (p.pl.rows.map (·.rect)) nbRows) p.pl.nRows)
    (fun q ij hij hq => ?_) ⟨hs, h, rfl⟩
  obtain ⟨hi, hj⟩ := mem_swapPairs hij
  have hspec := RowNbh.build_spec _ _ _ _ hj
  rw [List.length_map] at hspec
  have v1 : q.pl.validRow ij.1 := validRow_of_rows hq.2.2 hi
  have v2 : q.pl.validRow ij.2 := validRow_of_rows hq.2.2 hspec.1
  obtain ⟨r, e, hs', hi', hrows⟩ := runSwapsTwoRowsAmplify_ok hq.1 hq.2.1 v1 v2 (Ne.symm hspec.2) nb
  exact ⟨r, e, hs', hi', hrows.trans hq.2.2⟩

/-- **`runSwaps` never returns an error** on an in-sync placement that satisfies `Inv`, for any `nbRows`
and any `nbNeighbours ≥ 0`: neither a refused move nor an ill-formed slice nor an exhausted fuel; the
result is again in sync and satisfies `Inv`, and the moves form a search trace -/
theorem runSwaps_no_error (c : Circuit) {p : Placer} (hs : Sync c p) (h : Inv p.pl) (nbRows : Int) {nb : Int}
    (hnb : 0 ≤ nb) :
    ∃ q ops, p.runSwaps nbRows nb = .ok (q, ops) ∧ Inv q.pl ∧ Sync c q ∧ SearchTrace p ops q := by
  have h1 : ∃ r, loopOps (fun q i => q.runSwapsOneRow i nb) p (intsUpTo p.pl.nRows) = .ok r ∧
      TotalInv c p.pl.rows r.1 := by
    obtain ⟨r, e, hi⟩ := runSwaps_oneRowSweep_no_error h hnb
    have t := loopOps_traced (fun q i => runSwapsOneRow_traced q i nb) p _ r e
    exact ⟨r, e, t.sync hs, hi.1, hi.2⟩
  obtain ⟨r, e, hi⟩ := andThen_ok (J := TotalInv c p.pl.rows)
    (f := fun q => q.runSwapsTwoRowSweeps nbRows nb) h1 (fun q hq => by
      obtain ⟨r, e, hr⟩ := runSwapsTwoRowSweeps_ok hq.1 hq.2.1 nbRows nb
      rw [hq.2.2] at hr
      exact ⟨r, e, hr⟩)
  have e' : p.runSwaps nbRows nb = .ok (r.1, r.2) := e
  exact ⟨r.1, r.2, e', hi.2.1, hi.1, runSwaps_trace e'⟩

/-- from the constructor on: `runSwaps` on the freshly built `DetailedPlacer` of any circuit whose
construction succeeds with `Inv` never fails (the hypotheses of `runSwaps_no_error` are satisfiable:
`init_sync`, and `Inv` is what `check()` establishes — C02 `inv_init`) -/
theorem runSwaps_no_error_init (c : Circuit) {p : Placer} (e : Placer.init c = .ok p) (h : Inv p.pl) (nbRows : Int)
    {nb : Int} (hnb : 0 ≤ nb) :
    ∃ q ops, p.runSwaps nbRows nb = .ok (q, ops) ∧ Inv q.pl ∧ Sync c q ∧ SearchTrace p ops q :=
  runSwaps_no_error c (init_sync e).1 h nbRows hnb

/-- non-vacuity: the two-row instance of Proofs/DetSearch.lean satisfies the hypotheses, and the pass
it is guaranteed to complete does perform a cross-row swap -/
example : ∃ p q ops, Placer.init exSearch2 = .ok p ∧ Inv p.pl ∧ Sync exSearch2 p ∧
    p.runSwaps 1 1 = .ok (q, ops) ∧ Inv q.pl ∧ Sync exSearch2 q ∧ ops ≠ [] := by
  obtain ⟨p, e, hi⟩ := ok_of_check (x := Placer.init exSearch2) (P := fun p => Inv p.pl) (by decide)
  obtain ⟨q, ops, er, hq, hs, _⟩ := runSwaps_no_error_init exSearch2 e hi 1 (nb := 1) (by omega)
  refine ⟨p, q, ops, e, hi, (init_sync e).1, er, hq, hs, ?_⟩
  have h : passIs exSearch2 (·.runSwaps 1 1) [.swap 0 1] 14 = true := by decide
  unfold passIs at h
  rw [e] at h
  simp only [er, Bool.and_eq_true, beq_iff_eq] at h
  intro hh
  rw [hh] at h
  exact absurd h.1 (by decide)

end ColoVerif.DetPlace
