import ColoVerif.Model.SpreadF
import ColoVerif.Proofs.F64
import ColoVerif.Proofs.SpreadExport
import Mathlib.Tactic.Linarith
import Mathlib.Tactic.Ring
import Mathlib.Tactic.NormNum.Pow
import Mathlib.Tactic.Positivity
/-
C06 helper lemmas for the binary32 model `Model/SpreadF.lean`:

* `fl_err` : one rounding moves any rational `x` by at most `|x|·2^-24 + 2^-150` (relative error in the
  normal range, half the smallest subnormal below it) — no side condition;
* `coordAtF_le` / `coordAtF_ge` : the coordinate expression `dem*hi + (1-dem)*lo` evaluated in binary32 stays
  within `epsF δ lo hi` of `[lo, hi]` whenever the running share satisfies `0 ≤ dem ≤ 1 + δ`;
* `share_nonneg` : the running share is never negative;
* `exposed_within_half` : the integrality argument behind "the excursion disappears in the export rounding".
-/
namespace ColoVerif.SpreadF
open ColoVerif.F64 ColoVerif.Spread

/-- unit roundoff of binary32 -/
def u32 : Rat := 1 / 16777216
/-- half the smallest subnormal, `2^-150` -/
def eta32 : Rat := 1 / 1427247692705959881058285969449495136382746624

theorem u32_eq : u32 = (2 : Rat) ^ (-24 : Int) := by unfold u32; norm_num
theorem eta32_eq : eta32 = (2 : Rat) ^ (-149 : Int) / 2 := by unfold eta32; norm_num

theorem fl_zero : fl 0 = 0 := f32'_zero
theorem fl_nonneg {q : Rat} (h : 0 ≤ q) : 0 ≤ fl q := f32'_nonneg h
theorem fl_mono {x y : Rat} (h : x ≤ y) : fl x ≤ fl y := f32'_mono h
theorem fl_neg (x : Rat) : fl (-x) = -fl x := f32'_neg x

/-- half an ulp is at most `x·2^-24 + 2^-150`, for every positive `x` -/
theorem half_ulp_le_gen {x : Rat} (hx : 0 < x) :
    (2 : Rat) ^ fexp 24 (-149) x / 2 ≤ x * u32 + eta32 := by
  obtain ⟨_, _, s3⟩ := fexp_spec 24 (-149) x hx
  have hu : (0 : Rat) ≤ x * u32 := by unfold u32; positivity
  have he : (0 : Rat) ≤ eta32 := by unfold eta32; norm_num
  rcases s3 with h | h
  · rw [h, eta32_eq]; linarith
  · have e : (2 : Rat) ^ fexp 24 (-149) x / 2 =
        (2 : Rat) ^ (fexp 24 (-149) x + 24 - 1) * (2 : Rat) ^ (-24 : Int) := by
      rw [← z2_pred, ← z2_add]; congr 1; ring
    rw [e, u32_eq]
    have := mul_le_mul_of_nonneg_right h (le_of_lt (z2_pos (-24)))
    linarith

theorem fl_err_pos {x : Rat} (hx : 0 < x) : x - (x * u32 + eta32) ≤ fl x ∧ fl x ≤ x + (x * u32 + eta32) := by
  have h1 := fround_le_add_half_ulp (prec := 24) (emin := -149) hx
  have h2 := fround_ge_sub_half_ulp (prec := 24) (emin := -149) hx
  have h3 := half_ulp_le_gen hx
  unfold fl f32'
  constructor <;> linarith

/-- **one rounding**: `|fl x − x| ≤ |x|·2^-24 + 2^-150` for every rational `x` -/
theorem fl_err (x : Rat) : |fl x - x| ≤ |x| * u32 + eta32 := by
  rcases lt_trichotomy x 0 with h | h | h
  · obtain ⟨a, b⟩ := fl_err_pos (x := -x) (by linarith)
    rw [fl_neg] at a b
    rw [abs_of_neg h, abs_le]
    constructor <;> linarith
  · subst h
    rw [fl_zero]
    unfold u32 eta32; norm_num
  · obtain ⟨a, b⟩ := fl_err_pos h
    rw [abs_of_pos h, abs_le]
    constructor <;> linarith

/-! ### the running share is non-negative -/

theorem halfShareF_nonneg (demands : List Rat) (inv : Rat) (hinv : 0 ≤ inv) (c : Nat)
    (hd : 0 ≤ demands.getD c 0) : 0 ≤ halfShareF demands inv c := by
  unfold halfShareF
  exact fl_nonneg (mul_nonneg (fl_nonneg (by linarith)) hinv)

theorem spreadStepF_share_nonneg (demands : List Rat) (inv lo hi : Rat) (hinv : 0 ≤ inv)
    (st : Rat × List Rat) (e : Rat × Nat) (h : 0 ≤ st.1) :
    0 ≤ (spreadStepF demands inv lo hi st e).1 := by
  unfold spreadStepF
  split
  · exact h
  · rename_i hd
    have hd' : 0 ≤ demands.getD e.2 0 := le_of_lt (not_le.mp hd)
    have hh := halfShareF_nonneg demands inv hinv e.2 hd'
    exact fl_nonneg (add_nonneg (fl_nonneg (add_nonneg h hh)) hh)

theorem spreadLoopF_share_nonneg (demands : List Rat) (inv lo hi : Rat) (hinv : 0 ≤ inv) :
    ∀ (order : List (Rat × Nat)) (st : Rat × List Rat), 0 ≤ st.1 →
      0 ≤ (spreadLoopF demands inv lo hi order st).1
  | [], st, h => h
  | e :: es, st, h => by
    unfold spreadLoopF
    rw [List.foldl_cons]
    exact spreadLoopF_share_nonneg demands inv lo hi hinv es _
      (spreadStepF_share_nonneg demands inv lo hi hinv st e h)

theorem sumF_nonneg : ∀ (l : List Rat) (a : Rat), 0 ≤ a → (∀ d ∈ l, 0 ≤ d) → 0 ≤ l.foldl addF a
  | [], a, h, _ => h
  | d :: ds, a, h, hd => by
    rw [List.foldl_cons]
    exact sumF_nonneg ds _ (fl_nonneg (add_nonneg h (hd d (by simp)))) (fun x hx => hd x (by simp [hx]))

theorem invF_nonneg (demands : List Rat) (hd : ∀ d ∈ demands, 0 ≤ d) : 0 ≤ invF demands := by
  unfold invF
  have := sumF_nonneg demands 0 (le_refl 0) hd
  exact fl_nonneg (div_nonneg (by norm_num) this)

/-! ### the coordinate expression -/

/-- the enclosure radius for a running share in `[0, 1 + δ]`: the exact excursion `δ·(hi − lo)` plus the
four roundings of `dem*hi + (1-dem)*lo` -/
def epsF (δ lo hi : Rat) : Rat :=
  δ * (hi - lo) + (1 + δ) * (|lo| + |hi|) * (4 * u32) + 8 * eta32

/-- exact arithmetic: with `0 ≤ dem ≤ 1 + δ` and `lo ≤ hi` the interpolation lies in `[lo, hi + δ(hi−lo)]` -/
theorem interp_bounds {dem δ lo hi : Rat} (h0 : 0 ≤ dem) (h1 : dem ≤ 1 + δ) (hlh : lo ≤ hi) :
    lo ≤ dem * hi + (1 - dem) * lo ∧ dem * hi + (1 - dem) * lo ≤ hi + δ * (hi - lo) := by
  have e : dem * hi + (1 - dem) * lo = lo + dem * (hi - lo) := by ring
  rw [e]
  have hw : 0 ≤ hi - lo := by linarith
  constructor
  · have := mul_nonneg h0 hw; linarith
  · have := mul_le_mul_of_nonneg_right h1 hw; linarith

/-- the four roundings of the coordinate expression move it by at most
`(1+δ)(|lo|+|hi|)·4u + 8η` -/
theorem coordAtF_err {dem δ lo hi : Rat} (h0 : 0 ≤ dem) (h1 : dem ≤ 1 + δ) (hδ0 : 0 ≤ δ) :
    |coordAtF dem lo hi - (dem * hi + (1 - dem) * lo)| ≤ (1 + δ) * (|lo| + |hi|) * (4 * u32) + 8 * eta32 := by
  -- the four roundings
  have r1 := fl_err (dem * hi)
  have r2 := fl_err (1 - dem)
  have r3 := fl_err (fl (1 - dem) * lo)
  have r4 := fl_err (fl (dem * hi) + fl (fl (1 - dem) * lo))
  have hc : coordAtF dem lo hi = fl (fl (dem * hi) + fl (fl (1 - dem) * lo)) := rfl
  rw [hc]
  generalize fl (fl (dem * hi) + fl (fl (1 - dem) * lo)) = c at r4 ⊢
  generalize fl (fl (1 - dem) * lo) = r at r3 r4 ⊢
  generalize fl (1 - dem) = q at r2 r3 ⊢
  generalize fl (dem * hi) = p at r1 r4 ⊢
  -- magnitudes
  have hL0 : 0 ≤ |lo| := abs_nonneg _
  have hH0 : 0 ≤ |hi| := abs_nonneg _
  have a1 : |dem * hi| ≤ (1 + δ) * |hi| := by
    rw [abs_mul, abs_of_nonneg h0]; exact mul_le_mul_of_nonneg_right h1 hH0
  have a2 : |1 - dem| ≤ 1 + δ := by
    rw [abs_le]; constructor <;> linarith
  have hDL : |lo| ≤ (1 + δ) * |lo| := by
    have := mul_le_mul_of_nonneg_right (show (1 : Rat) ≤ 1 + δ by linarith) hL0; linarith
  have hDH : |hi| ≤ (1 + δ) * |hi| := by
    have := mul_le_mul_of_nonneg_right (show (1 : Rat) ≤ 1 + δ by linarith) hH0; linarith
  simp only [u32, eta32] at *
  have tq := abs_sub_abs_le_abs_sub q (1 - dem)
  have aq : |q| ≤ (1 + δ) + (1 + δ) * (1 / 16777216) + 1 / 1427247692705959881058285969449495136382746624 := by
    linarith
  have aql : |q * lo| ≤ ((1 + δ) + (1 + δ) * (1 / 16777216) +
      1 / 1427247692705959881058285969449495136382746624) * |lo| := by
    rw [abs_mul]; exact mul_le_mul_of_nonneg_right aq hL0
  have eq2 : |q - (1 - dem)| ≤ (1 + δ) * (1 / 16777216) + 1 / 1427247692705959881058285969449495136382746624 := by
    linarith
  have eq3' : |q * lo - (1 - dem) * lo| ≤ ((1 + δ) * (1 / 16777216) +
      1 / 1427247692705959881058285969449495136382746624) * |lo| := by
    have e : q * lo - (1 - dem) * lo = (q - (1 - dem)) * lo := by ring
    rw [e, abs_mul]; exact mul_le_mul_of_nonneg_right eq2 hL0
  have tp := abs_sub_abs_le_abs_sub p (dem * hi)
  have tr := abs_sub_abs_le_abs_sub r (q * lo)
  have apr : |p + r| ≤ |p| + |r| := abs_add_le p r
  have tot : c - (dem * hi + (1 - dem) * lo) =
      (c - (p + r)) + (p - dem * hi) + (r - q * lo) + (q * lo - (1 - dem) * lo) := by ring
  rw [tot]
  have t1 := abs_add_le ((c - (p + r)) + (p - dem * hi) + (r - q * lo)) (q * lo - (1 - dem) * lo)
  have t2 := abs_add_le ((c - (p + r)) + (p - dem * hi)) (r - q * lo)
  have t3 := abs_add_le (c - (p + r)) (p - dem * hi)
  have hDL0 : 0 ≤ (1 + δ) * |lo| := by linarith
  have hDH0 : 0 ≤ (1 + δ) * |hi| := by linarith
  linarith

/-- **enclosure of one coordinate**: running share in `[0, 1+δ]`, `lo ≤ hi` ⇒ the binary32 coordinate is
within `epsF δ lo hi` of the closed bin -/
theorem coordAtF_enclosure {dem δ lo hi : Rat} (h0 : 0 ≤ dem) (h1 : dem ≤ 1 + δ) (hδ0 : 0 ≤ δ)
    (hlh : lo ≤ hi) :
    lo - epsF δ lo hi ≤ coordAtF dem lo hi ∧ coordAtF dem lo hi ≤ hi + epsF δ lo hi := by
  obtain ⟨b1, b2⟩ := interp_bounds h0 h1 hlh
  have e := abs_le.mp (coordAtF_err (lo := lo) (hi := hi) h0 h1 hδ0)
  have hw : 0 ≤ δ * (hi - lo) := mul_nonneg hδ0 (by linarith)
  unfold epsF
  constructor <;> linarith [e.1, e.2]

/-! ### the export rounding -/

/-- integrality: if `A − ε ≤ x ≤ B + ε` with `ε < 1/2`, the exported lower-left corner
`p = round(x − w/2)` has its centre `p + w/2` in `[A − 1/2, B + 1/2]` -/
theorem exposed_within_half (x ε : Rat) (w A B : Int) (hε : ε < 1 / 2)
    (hA : (A : Rat) - ε ≤ x) (hB : x ≤ (B : Rat) + ε) :
    (A : Rat) - 1 / 2 ≤ (exportCoord x w : Rat) + (1 / 2) * (w : Rat) ∧
    (exportCoord x w : Rat) + (1 / 2) * (w : Rat) ≤ (B : Rat) + 1 / 2 := by
  obtain ⟨h1, h2⟩ := round_err (x - (1 / 2) * (w : Rat))
  unfold exportCoord
  set p := roundHalfAway (x - (1 / 2) * (w : Rat)) with hp
  -- 2p + w is an integer strictly between 2A − 2 and 2B + 2
  have u1 : ((2 * p + w : Int) : Rat) < ((2 * B + 2 : Int) : Rat) := by push_cast; linarith
  have l1 : ((2 * A - 2 : Int) : Rat) < ((2 * p + w : Int) : Rat) := by push_cast; linarith
  have u2 : 2 * p + w < 2 * B + 2 := by exact_mod_cast u1
  have l2 : 2 * A - 2 < 2 * p + w := by exact_mod_cast l1
  have u3 : 2 * p + w ≤ 2 * B + 1 := by omega
  have l3 : 2 * A - 1 ≤ 2 * p + w := by omega
  have u4 : ((2 * p + w : Int) : Rat) ≤ ((2 * B + 1 : Int) : Rat) := by exact_mod_cast u3
  have l4 : ((2 * A - 1 : Int) : Rat) ≤ ((2 * p + w : Int) : Rat) := by exact_mod_cast l3
  push_cast at u4 l4
  constructor <;> linarith

end ColoVerif.SpreadF
