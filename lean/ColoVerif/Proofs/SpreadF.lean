import ColoVerif.Model.SpreadF
import ColoVerif.Proofs.F64
import ColoVerif.Proofs.SpreadExport
import Mathlib.Tactic.Linarith
import Mathlib.Tactic.Ring
/-
C06 helper lemmas for the binary32 model `Model/SpreadF.lean`:

* `clampBin_bounds` / `coordAtF_bounds` : the clamp of `spreadCells` keeps the written coordinate in the closed
  bin whatever the roundings did (only `lo ≤ hi` is needed);
* `fl_int` / `fl_pos_of_int` : `(float) n` is exact for `|n| ≤ 2^24` and positive for a positive `int`;
* `exposed_within_half` : the integrality argument behind "an excursion below one half disappears in the
  export rounding".
-/
namespace ColoVerif.SpreadF
open ColoVerif.F64 ColoVerif.Spread

theorem fl_zero : fl 0 = 0 := f32'_zero
theorem fl_mono {x y : Rat} (h : x ≤ y) : fl x ≤ fl y := f32'_mono h

/-- `(float) n` is exact up to `2^24` -/
theorem fl_int (n : Int) (h : |n| ≤ 2 ^ 24) : fl (n : Rat) = (n : Rat) := f32'_exact_int n h

/-- `(float) n > 0` for a positive `int` (of any magnitude) -/
theorem fl_pos_of_int (n : Int) (h : 0 < n) : 0 < fl (n : Rat) := by
  have h1 : (1 : Rat) ≤ (n : Rat) := by exact_mod_cast h
  have := fl_mono h1
  have e : fl (1 : Rat) = 1 := by
    have := fl_int 1 (by norm_num)
    simpa using this
  rw [e] at this
  linarith

theorem clampBin_bounds (lo hi v : Rat) (h : lo ≤ hi) : lo ≤ clampBin lo hi v ∧ clampBin lo hi v ≤ hi := by
  unfold clampBin
  split <;> split <;> constructor <;> linarith

/-- the coordinate written by `spreadCells` is in the closed bin, for every share and every rounding -/
theorem coordAtF_bounds (dem lo hi : Rat) (h : lo ≤ hi) :
    lo ≤ coordAtF dem lo hi ∧ coordAtF dem lo hi ≤ hi :=
  clampBin_bounds lo hi _ h

/-! ### the export rounding -/

/-- integrality: if `A − ε ≤ x ≤ B + ε` with `ε < 1/2`, the exported lower-left corner
`p = round(x − w/2)` has its centre `p + w/2` in `[A − 1/2, B + 1/2]` -/
theorem exposed_within_half (x ε : Rat) (w A B : Int) (hε : ε < 1 / 2)
    (hA : (A : Rat) - ε ≤ x) (hB : x ≤ (B : Rat) + ε) :
    (A : Rat) - 1 / 2 ≤ (exportCoord x w : Rat) + (1 / 2) * (w : Rat) ∧
    (exportCoord x w : Rat) + (1 / 2) * (w : Rat) ≤ (B : Rat) + 1 / 2 := by
  obtain ⟨h1, h2⟩ := round_err (x - (1 / 2) * (w : Rat))
  unfold exportCoord
  set p := roundHalfAway (x - (1 / 2) * (w : Rat)) with hp
  -- 2p + w is an integer strictly between 2A − 2 and 2B + 2
  have u1 : ((2 * p + w : Int) : Rat) < ((2 * B + 2 : Int) : Rat) := by push_cast; linarith
  have l1 : ((2 * A - 2 : Int) : Rat) < ((2 * p + w : Int) : Rat) := by push_cast; linarith
  have u2 : 2 * p + w < 2 * B + 2 := by exact_mod_cast u1
  have l2 : 2 * A - 2 < 2 * p + w := by exact_mod_cast l1
  have u3 : 2 * p + w ≤ 2 * B + 1 := by omega
  have l3 : 2 * A - 1 ≤ 2 * p + w := by omega
  have u4 : ((2 * p + w : Int) : Rat) ≤ ((2 * B + 1 : Int) : Rat) := by exact_mod_cast u3
  have l4 : ((2 * A - 1 : Int) : Rat) ≤ ((2 * p + w : Int) : Rat) := by exact_mod_cast l3
  push_cast at u4 l4
  constructor <;> linarith

end ColoVerif.SpreadF
