import ColoVerif.Proofs.DetOptHpwlNets
import ColoVerif.Proofs.DetOpt
/-
C05 ← C09, part 2 (glue): every primitive move of `DetailedPlacer` (`Placer.step`) leaves the two
incremental models *in sync* with the placement — good (C09's invariant), with the net CSR they were
built with, and with `cellPos_` equal to the placement's abscissas / ordinates — and its `placement_`
component is exactly `State.step`.
-/
namespace ColoVerif.DetPlace
open ColoVerif State

/-- same cell → pins CSR -/
def CellCsrEq (m m' : IncrNet.Model) : Prop :=
  m.cellLimits = m'.cellLimits ∧ m.cellNets = m'.cellNets ∧ m.cellPinOffsets = m'.cellPinOffsets

/-- one incremental model `m`, built as `m0`, is in sync with the coordinate vector `f` of `n` cells -/
structure Sync1 (m0 : IncrNet.Model) (n : Nat) (m : IncrNet.Model) (f : Int → Int) : Prop where
  good : IncrNet.Good m
  nets : NetsEq m m0
  csr : CellCsrEq m m0
  pos : m.cellPos = posList n f

theorem Sync1.update {m0 m : IncrNet.Model} {n : Nat} {f : Int → Int} (h : Sync1 m0 n m f) (k v : Int)
    (h0 : 0 ≤ k) (hk : k < n) : Sync1 m0 n (m.updateCellPos k.toNat v) (upd f k v) := by
  refine ⟨update_good h.good _ _, (update_netsEq m _ _).trans h.nets, ?_, ?_⟩
  · have := update_cellCsr m k.toNat v
    exact ⟨this.1.trans h.csr.1, this.2.1.trans h.csr.2.1, this.2.2.trans h.csr.2.2⟩
  · rw [update_cellPos, h.pos, posList_set n f k v h0 hk]

theorem Sync1.congr {m0 m : IncrNet.Model} {n : Nat} {f g : Int → Int} (h : Sync1 m0 n m f)
    (hfg : ∀ d : Int, f d = g d) : Sync1 m0 n m g :=
  ⟨h.good, h.nets, h.csr, by rw [h.pos]; exact posList_congr n f g (fun i _ => hfg i)⟩

/-- the model is determined by the coordinate vector it is in sync with -/
theorem Sync1.unique {m0 m m' : IncrNet.Model} {n : Nat} {f : Int → Int} (h : Sync1 m0 n m f) (h' : Sync1 m0 n m' f) :
    m = m' :=
  good_ext h.good h'.good (h.nets.trans h'.nets.symm)
    ⟨h.csr.1.trans h'.csr.1.symm, h.csr.2.1.trans h'.csr.2.1.symm, h.csr.2.2.trans h'.csr.2.2.symm⟩
    (h.pos.trans h'.pos.symm)

theorem Sync1.value {m0 m : IncrNet.Model} {n : Nat} {f : Int → Int} (h : Sync1 m0 n m f) :
    m.value = posValue m0 (posList n f) := by
  rw [good_posValue h.good, h.pos, posValue_congr h.nets]

/-- the whole `DetailedPlacer` is in sync: both models with the placement's x and y -/
structure Sync (c : Circuit) (p : Placer) : Prop where
  x : Sync1 (IncrNet.xTopologyAll c) c.cells.length p.xt p.pl.x
  y : Sync1 (IncrNet.yTopologyAll c) c.cells.length p.yt p.pl.y
  nc : p.pl.nCells = c.cells.length

/-- the position-only objective `DetailedPlacer::value()` computes: the from-scratch 1-D wirelengths
of the nets of the two topologies of `c` (pin offsets of `c`'s orientations) at the given positions -/
def circuitValue (c : Circuit) : Value := fun x y =>
  posValue (IncrNet.xTopologyAll c) (posList c.cells.length x) + posValue (IncrNet.yTopologyAll c) (posList c.cells.length y)

theorem Sync.value {c : Circuit} {p : Placer} (h : Sync c p) : p.value = p.pl.value (circuitValue c) := by
  unfold Placer.value State.value circuitValue
  rw [h.x.value, h.y.value]

theorem Sync.valid {c : Circuit} {p : Placer} (h : Sync c p) {k : Int} (hk : p.pl.validCell k) :
    0 ≤ k ∧ k < (c.cells.length : Int) := by
  unfold validCell at hk
  rw [h.nc] at hk; exact hk

theorem Sync.updateCellTo {c : Circuit} {p : Placer} {fx fy : Int → Int}
    (hx : Sync1 (IncrNet.xTopologyAll c) c.cells.length p.xt fx) (hy : Sync1 (IncrNet.yTopologyAll c) c.cells.length p.yt fy)
    (k vx vy : Int) (h0 : 0 ≤ k) (hk : k < (c.cells.length : Int)) :
    Sync1 (IncrNet.xTopologyAll c) c.cells.length (p.updateCellTo k vx vy).xt (upd fx k vx) ∧
    Sync1 (IncrNet.yTopologyAll c) c.cells.length (p.updateCellTo k vx vy).yt (upd fy k vy) :=
  ⟨hx.update k vx h0 hk, hy.update k vy h0 hk⟩

theorem upd1_eq {f g : Int → Int} {a : Int} (h : ∀ d, d ≠ a → g d = f d) : ∀ d, upd f a (g a) d = g d := by
  intro d
  by_cases hd : d = a
  · subst hd; simp [upd]
  · simp [upd, hd, h d hd]

theorem upd2_eq {f g : Int → Int} {a b : Int} (h : ∀ d, d ≠ a → d ≠ b → g d = f d) :
    ∀ d, upd (upd f a (g a)) b (g b) d = g d := by
  intro d
  by_cases hb : d = b
  · subst hb; simp [upd]
  · by_cases ha : d = a
    · subst ha; simp [upd, hb]
    · simp [upd, ha, hb, h d ha hb]

/-- the placement moved one cell and the models were told -/
theorem Sync.move1 {c : Circuit} {p : Placer} (h : Sync c p) (t : State) (hn : t.nCells = p.pl.nCells) {k : Int}
    (hv : p.pl.validCell k) (hx : ∀ d, d ≠ k → t.x d = p.pl.x d) (hy : ∀ d, d ≠ k → t.y d = p.pl.y d) :
    Sync c ((p.withPl t).updateCell k) := by
  obtain ⟨h0, hk⟩ := h.valid hv
  have := Sync.updateCellTo (p := p.withPl t) h.x h.y k (t.x k) (t.y k) h0 hk
  exact ⟨this.1.congr (upd1_eq hx), this.2.congr (upd1_eq hy), hn.trans h.nc⟩

/-- the placement moved two cells and the models were told -/
theorem Sync.move2 {c : Circuit} {p : Placer} (h : Sync c p) (t : State) (hn : t.nCells = p.pl.nCells) {a b : Int}
    (ha : p.pl.validCell a) (hb : p.pl.validCell b) (hx : ∀ d, d ≠ a → d ≠ b → t.x d = p.pl.x d)
    (hy : ∀ d, d ≠ a → d ≠ b → t.y d = p.pl.y d) :
    Sync c (((p.withPl t).updateCell a).updateCell b) := by
  obtain ⟨a0, ak⟩ := h.valid ha
  obtain ⟨b0, bk⟩ := h.valid hb
  have h1 := Sync.updateCellTo (p := p.withPl t) h.x h.y a (t.x a) (t.y a) a0 ak
  have h2 := Sync.updateCellTo (p := (p.withPl t).updateCell a) h1.1 h1.2 b (t.x b) (t.y b) b0 bk
  exact ⟨h2.1.congr (upd2_eq hx), h2.2.congr (upd2_eq hy), hn.trans h.nc⟩

/-! ### `nbCells` never changes -/

theorem place_nCells {s t : State} {c r p x : Int} (e : s.place c r p x = .ok t) : t.nCells = s.nCells := by
  obtain ⟨rfl, -⟩ := place_ok e; rfl

theorem insert_nCells {s t : State} {c r p : Int} (e : s.insert c r p = .ok t) : t.nCells = s.nCells := by
  unfold State.insert at e
  split at e
  · cases e
  · cases e
  · exact place_nCells (s := s.unplace c) e

theorem place2_nCells {s t : State} {a b ra pa xa rb pb xb : Int}
    (e : (s.place a ra pa xa).bind (fun u => u.place b rb pb xb) = .ok t) : t.nCells = s.nCells := by
  obtain ⟨u, e1, e2⟩ := bind_ok e
  exact (place_nCells e2).trans (place_nCells e1)

theorem swap_nCells {s t : State} {c1 c2 : Int} (e : s.swap c1 c2 = .ok t) : t.nCells = s.nCells := by
  unfold State.swap at e
  split at e
  · cases e
  · cases e
  · split at e
    · exact place2_nCells (s := (s.unplace c1).unplace c2) e
    · split at e
      · exact place2_nCells (s := (s.unplace c1).unplace c2) e
      · exact place2_nCells (s := (s.unplace c1).unplace c2) e

/-- `setXs` as a fold of writes -/
theorem setXs_fold (s : State) (mv : List (Int × Int)) :
    s.setXs mv = { s with x := mv.foldl (fun f m => upd f m.1 m.2) s.x } := by
  induction mv generalizing s with
  | nil => rfl
  | cons m rest ih =>
    obtain ⟨c, v⟩ := m
    simp only [setXs, List.foldl_cons]
    rw [ih]

theorem unplaceAll_static {s t : State} {cs : List Int} (e : s.unplaceAll cs = .ok t) :
    t.nCells = s.nCells ∧ t.x = s.x ∧ t.y = s.y := by
  induction cs generalizing s with
  | nil => simp [unplaceAll] at e; subst e; exact ⟨rfl, rfl, rfl⟩
  | cons c cs ih =>
    unfold unplaceAll at e
    split at e
    · exact ih (s := s.unplace c) e
    · cases e

/-! ### the primitive moves -/

theorem doSwap_sync {c : Circuit} {p q : Placer} {c1 c2 : Int} (h : Sync c p) (l1 : p.pl.liveCell c1 = true)
    (l2 : p.pl.liveCell c2 = true) (e : p.doSwap c1 c2 = .ok q) : Sync c q ∧ p.pl.swap c1 c2 = .ok q.pl := by
  unfold Placer.doSwap at e
  split at e
  · cases e
  · rename_i t et
    injection e with e; subst e
    have hp := swap_positions et
    refine ⟨h.move2 t (swap_nCells et) ((liveCell_iff _ _).1 l1).1 ((liveCell_iff _ _).1 l2).1 ?_ ?_, et⟩
    · intro d h1 h2; rw [(hp d).1]; simp [h1, h2]
    · intro d h1 h2; rw [(hp d).2]; simp [h1, h2]

theorem doInsert_sync {c : Circuit} {p q : Placer} {k r pr : Int} (h : Sync c p) (l1 : p.pl.liveCell k = true)
    (e : p.doInsert k r pr = .ok q) : Sync c q ∧ p.pl.insert k r pr = .ok q.pl := by
  unfold Placer.doInsert at e
  split at e
  · cases e
  · rename_i t et
    injection e with e; subst e
    have hp := insert_positions et
    refine ⟨h.move1 t (insert_nCells et) ((liveCell_iff _ _).1 l1).1 ?_ ?_, et⟩
    · intro d h1; rw [(hp d).1]; simp [h1]
    · intro d h1; rw [(hp d).2]; simp [h1]

theorem shiftUpdates_sync {m0 : IncrNet.Model} {n : Nat} : ∀ (mv : List (Int × Int)) (m : IncrNet.Model) (f : Int → Int),
    Sync1 m0 n m f → (∀ q ∈ mv, 0 ≤ q.1 ∧ q.1 < (n : Int)) →
    Sync1 m0 n (Placer.shiftUpdates m mv) (mv.foldl (fun f q => upd f q.1 q.2) f)
  | [], _, _, h, _ => h
  | (k, v) :: rest, m, f, h, hv => by
    have hk := hv (k, v) (List.mem_cons_self ..)
    exact shiftUpdates_sync rest _ _ (h.update k v hk.1 hk.2) (fun q hq => hv q (List.mem_cons_of_mem _ hq))

theorem doShift_sync {c : Circuit} {p q : Placer} {mv : List (Int × Int)} (h : Sync c p)
    (e : p.doShift mv = .ok q) : Sync c q ∧ p.pl.shift mv = .ok q.pl := by
  unfold Placer.doShift at e
  split at e
  · cases e
  · rename_i t et
    injection e with e; subst e
    refine ⟨?_, et⟩
    unfold shift at et
    split at et
    · rename_i hcond
      injection et with et
      simp only [Bool.and_eq_true, List.all_eq_true, decide_eq_true_eq] at hcond
      obtain ⟨⟨hcells, -⟩, -⟩ := hcond
      rw [setXs_fold] at et
      subst et
      refine ⟨?_, h.y, h.nc⟩
      apply shiftUpdates_sync mv p.xt p.pl.x h.x
      intro m hm
      have := hcells m hm
      simp only [shiftCellOk, Bool.and_eq_true, decide_eq_true_eq] at this
      exact h.valid this.1.1
    · cases et

theorem placeChain_sync {c : Circuit} : ∀ (l : List (Int × Int)) (p q : Placer) (r pr : Int), Sync c p →
    p.placeChain r pr l = .ok q → Sync c q ∧ p.pl.placeChain r pr l = .ok q.pl
  | [], p, q, r, pr, h, e => by
    simp only [Placer.placeChain] at e
    injection e with e; subst e
    exact ⟨h, rfl⟩
  | (k, v) :: rest, p, q, r, pr, h, e => by
    unfold Placer.placeChain at e
    unfold State.placeChain
    split at e
    · rename_i hg
      rw [if_pos hg]
      simp only [Bool.and_eq_true, Bool.not_eq_true'] at hg
      split at e
      · cases e
      · rename_i t et
        rw [et]
        have hv := ((liveCell_iff _ _).1 hg.1.1).1
        obtain ⟨ht, -⟩ := place_ok et
        have hs : Sync c ((p.withPl t).updateCell k) := by
          apply h.move1 t (place_nCells et) hv
          · intro d hd; rw [ht, (placeRaw_xy p.pl k r pr v d).1]; simp [hd]
          · intro d hd; rw [ht, (placeRaw_xy p.pl k r pr v d).2]; simp [hd]
        exact placeChain_sync rest _ q r k hs e
    · cases e

theorem placeRegions_sync {c : Circuit} : ∀ (gs : List Region) (p q : Placer), Sync c p →
    p.placeRegions gs = .ok q → Sync c q ∧ p.pl.placeRegions gs = .ok q.pl
  | [], p, q, h, e => by
    simp only [Placer.placeRegions] at e
    injection e with e; subst e
    exact ⟨h, rfl⟩
  | g :: gs, p, q, h, e => by
    unfold Placer.placeRegions at e
    unfold State.placeRegions
    split at e
    · cases e
    · rename_i u eu
      obtain ⟨hu, eu'⟩ := placeChain_sync g.cells p u g.row g.pred h eu
      rw [eu']
      exact placeRegions_sync gs u q hu e

theorem reorderWriteback_sync {c : Circuit} {p q : Placer} {cells : List Int} {regions : List Region} (h : Sync c p)
    (e : p.reorderWriteback cells regions = .ok q) : Sync c q ∧ p.pl.reorderWriteback cells regions = .ok q.pl := by
  unfold Placer.reorderWriteback at e
  unfold State.reorderWriteback
  split at e
  · cases e
  · rename_i t et
    rw [et]
    obtain ⟨hn, hx, hy⟩ := unplaceAll_static et
    have hs : Sync c (p.withPl t) := ⟨by show Sync1 _ _ p.xt t.x; rw [hx]; exact h.x,
                                      by show Sync1 _ _ p.yt t.y; rw [hy]; exact h.y, hn.trans h.nc⟩
    split at e
    · cases e
    · rename_i u eu
      obtain ⟨hu, eu'⟩ := placeRegions_sync regions _ u hs eu
      have eu'' : t.placeRegions regions = .ok u.pl := eu'
      dsimp only
      rw [eu'']
      dsimp only
      split at e
      · rename_i hall
        injection e with e; subst e
        simp only [hall, if_true]
        exact ⟨hu, trivial⟩
      · cases e

theorem step_sync {c : Circuit} {p q : Placer} {op : Op} (h : Sync c p) (e : p.step op = .ok q) :
    Sync c q ∧ p.pl.step op = .ok q.pl := by
  cases op with
  | swap c1 c2 =>
    simp only [Placer.step] at e
    simp only [State.step]
    split at e
    · rename_i hg
      rw [if_pos hg]
      simp only [Bool.and_eq_true] at hg
      exact doSwap_sync h hg.1 hg.2 e
    · cases e
  | insert k r pr =>
    simp only [Placer.step] at e
    simp only [State.step]
    split at e
    · rename_i hg
      rw [if_pos hg]
      simp only [Bool.and_eq_true] at hg
      exact doInsert_sync h hg.1 e
    · cases e
  | shift mv => exact doShift_sync h e
  | reorder cells regions => exact reorderWriteback_sync h e

theorem run_sync {c : Circuit} : ∀ (ops : List Op) (p q : Placer), Sync c p → p.run ops = .ok q →
    Sync c q ∧ p.pl.run ops = .ok q.pl
  | [], p, q, h, e => by
    simp only [Placer.run] at e
    injection e with e; subst e
    exact ⟨h, rfl⟩
  | op :: ops, p, q, h, e => by
    unfold Placer.run at e
    unfold State.run
    split at e
    · cases e
    · rename_i u eu
      obtain ⟨hu, eu'⟩ := step_sync h eu
      rw [eu']
      exact run_sync ops u q hu e

end ColoVerif.DetPlace
