import ColoVerif.Proofs.Transp1dTerm
/-
`run` (sweep + `flushPositions`) and `computeAssignment` stay in range: the flushed positions are
at most `D.back() - S[n]`, so the middle of every (non-empty) source lies strictly below `D.back()`
and the walk over `D` stops before the end.
-/
namespace ColoVerif.Transp1d

theorem prefixFrom_length (acc : Int) (l : List Int) : (prefixFrom acc l).length = l.length + 1 := by
  induction l generalizing acc with
  | nil => rfl
  | cons c cs ih => simp [prefixFrom, ih]

theorem prefixFrom_zero (acc : Int) (l : List Int) : (prefixFrom acc l).getD 0 0 = acc := by
  cases l <;> simp [prefixFrom]

theorem prefixFrom_succ (acc : Int) (l : List Int) (i : Nat) (h : i < l.length) :
    (prefixFrom acc l).getD (i + 1) 0 = (prefixFrom acc l).getD i 0 + l.getD i 0 := by
  induction l generalizing acc i with
  | nil => simp at h
  | cons c cs ih =>
    cases i with
    | zero => simp only [prefixFrom, List.getD_cons_succ, List.getD_cons_zero, prefixFrom_zero]
    | succ i =>
      have := ih (acc + c) i (by simpa using h)
      simpa [prefixFrom] using this

theorem prefixFrom_le_last (acc : Int) (l : List Int) (hnn : ∀ x ∈ l, 0 ≤ x) (i : Nat)
    (h : i ≤ l.length) : (prefixFrom acc l).getD i 0 ≤ (prefixFrom acc l).getD l.length 0 := by
  induction l generalizing acc i with
  | nil =>
    have : i = 0 := by simpa using h
    subst this; exact Int.le_refl _
  | cons c cs ih =>
    have hc : 0 ≤ c := hnn c (List.mem_cons_self ..)
    have hcs : ∀ x ∈ cs, 0 ≤ x := fun x hx => hnn x (List.mem_cons_of_mem _ hx)
    cases i with
    | zero =>
      have := ih (acc + c) hcs 0 (Nat.zero_le _)
      rw [prefixFrom_zero] at this
      simp only [prefixFrom, List.length_cons, List.getD_cons_succ, List.getD_cons_zero]
      omega
    | succ i =>
      have := ih (acc + c) hcs i (by simpa using h)
      simpa [prefixFrom] using this

theorem prefixFrom_last (acc : Int) (l : List Int) :
    (prefixFrom acc l).getD l.length 0 = acc + l.sum := by
  induction l generalizing acc with
  | nil => simp [prefixFrom]
  | cons c cs ih =>
    simp only [prefixFrom, List.length_cons, List.getD_cons_succ, List.sum_cons, ih]; omega

theorem runMin_le_mx (mx : Int) (l : List Int) : runMin mx l ≤ mx := by
  induction l with
  | nil => exact Int.le_refl _
  | cons x xs ih => exact Int.le_trans (Int.min_le_right _ _) ih

theorem runMin_nonneg (mx : Int) (l : List Int) (hm : 0 ≤ mx) (h : ∀ x ∈ l, 0 ≤ x) :
    0 ≤ runMin mx l := by
  induction l with
  | nil => exact hm
  | cons x xs ih =>
    exact Int.le_min.mpr ⟨h x (List.mem_cons_self ..), ih (fun y hy => h y (List.mem_cons_of_mem _ hy))⟩

theorem flush_length (mx : Int) (l : List Int) : (flush mx l).length = l.length := by
  induction l with
  | nil => rfl
  | cons x xs ih => simp [flush, ih]

theorem flush_le (mx : Int) (l : List Int) : ∀ x ∈ flush mx l, x ≤ mx := by
  induction l with
  | nil => intro x hx; simp [flush] at hx
  | cons y ys ih =>
    intro x hx
    simp only [flush, List.mem_cons] at hx
    rcases hx with h | h
    · rw [h]; exact runMin_le_mx mx (y :: ys)
    · exact ih x h

theorem flush_nonneg (mx : Int) (l : List Int) (hm : 0 ≤ mx) (h : ∀ x ∈ l, 0 ≤ x) :
    ∀ x ∈ flush mx l, 0 ≤ x := by
  induction l with
  | nil => intro x hx; simp [flush] at hx
  | cons y ys ih =>
    intro x hx
    simp only [flush, List.mem_cons] at hx
    rcases hx with h' | h'
    · rw [h']; exact runMin_nonneg mx (y :: ys) hm h
    · exact ih (fun z hz => h z (List.mem_cons_of_mem _ hz)) x h'

theorem flush_mono (mx : Int) (l : List Int) (i : Nat) (h : i + 1 < l.length) :
    (flush mx l).getD i 0 ≤ (flush mx l).getD (i + 1) 0 := by
  induction l generalizing i with
  | nil => simp at h
  | cons x xs ih =>
    cases i with
    | zero =>
      cases xs with
      | nil => simp at h
      | cons y ys =>
        simp only [flush, List.getD_cons_zero, List.getD_cons_succ]
        exact Int.min_le_right _ _
    | succ i =>
      have := ih i (by simpa using h)
      simpa only [flush, List.getD_cons_succ] using this

/-- what `run` guarantees about the final positions -/
structure RunPost (sv : Solver) (p : List Int) : Prop where
  mono : ∀ i, i + 1 < p.length → p.getD i 0 ≤ p.getD (i + 1) 0
  len : p.length = sv.u.length
  le : ∀ x ∈ p, x ≤ sv.D.getD sv.v.length 0 - sv.S.getD sv.u.length 0
  nn : 0 ≤ sv.D.getD sv.v.length 0 - sv.S.getD sv.u.length 0 → ∀ x ∈ p, 0 ≤ x

theorem run_safe (sv : Solver) (wf : sv.WF) (hm : sv.u.length = 0 ∨ 0 < sv.v.length) :
    Safe (RunPost sv) (run sv) := by
  unfold run
  have hinit : Safe (fun st' => (∀ x ∈ st'.pRev, 0 ≤ x) ∧ st'.pRev.length = sv.u.length)
      (pushAll sv sv.nbSources 0 St.init) := by
    rcases hm with h | h
    · have : sv.nbSources = 0 := h
      rw [this]
      exact ⟨by simp [St.init], by simp [St.init, h]⟩
    · have inv : Inv sv St.init := ⟨h, h, Int.le_refl _, by simp [St.init]⟩
      exact (pushAll_safe sv wf sv.nbSources 0 (by simp [Solver.nbSources]) St.init inv).mono
        (fun a ⟨ia, la⟩ => ⟨ia.pnn, by simpa [St.init, Solver.nbSources] using la⟩)
  refine hinit.bind ?_
  intro st ⟨hnn, hlen⟩
  have hD : lastD sv = .ok (sv.D.getD sv.v.length 0) := by
    unfold lastD
    rw [get_ok' sv.D _ (by have := wf.hD; omega)]
    have : sv.D.length - 1 = sv.v.length := by have := wf.hD; omega
    rw [this]
  simp only [hD, List.length_reverse, hlen, get_ok' sv.S sv.u.length (by have := wf.hS; omega),
    bind, Except.bind, pure, Except.pure]
  refine Safe.ok ⟨fun i hi => flush_mono _ _ i (by simpa [flush_length] using hi),
    by simp [flush_length, hlen], flush_le _ _, fun h0 => flush_nonneg _ _ h0 ?_⟩
  intro x hx
  exact hnn x (by simpa using hx)

/-- `run` never fails and its result satisfies `RunPost` -/
theorem run_ok (sv : Solver) (dom : sv.Dom) (hm : sv.u.length = 0 ∨ 0 < sv.v.length) :
    ∃ p, run sv = .ok p ∧ RunPost sv p := by
  obtain ⟨p, e⟩ := run_total sv dom hm
  exact ⟨p, e, (run_safe sv dom.wf hm).of_ok e⟩

theorem walk_ok (pos : Int) (rest : List Int) (cs : Nat) (L : Int)
    (hl : rest.getLast? = some L) (hp : pos < L) :
    ∃ cs' rest', walk pos rest cs = .ok (cs', rest') ∧ rest'.getLast? = some L ∧
      cs' + rest'.length = cs + rest.length ∧ cs ≤ cs' := by
  induction rest generalizing cs with
  | nil => simp at hl
  | cons x xs ih =>
    unfold walk
    by_cases hx : x ≤ pos
    · simp only [hx, if_true]
      cases xs with
      | nil =>
        simp at hl
        omega
      | cons y ys =>
        rw [List.getLast?_cons_cons] at hl
        obtain ⟨cs', rest', e, h1, h2, h3⟩ := ih (cs + 1) hl
        exact ⟨cs', rest', e, h1, by simp at h2 ⊢; omega, by omega⟩
    · simp only [hx, if_false]
      exact ⟨cs, x :: xs, rfl, hl, rfl, Nat.le_refl _⟩

theorem getD_mem_of_lt (l : List Int) (i : Nat) (h : i < l.length) : l.getD i 0 ∈ l := by
  have : l.getD i 0 = l[i] := by simp [List.getD_eq_getElem?_getD, List.getElem?_eq_getElem h]
  rw [this]; exact List.getElem_mem h

theorem prefixFrom_lt_succ (acc : Int) (l : List Int) (hpos : ∀ x ∈ l, 0 < x) (i : Nat)
    (h : i < l.length) : (prefixFrom acc l).getD i 0 < (prefixFrom acc l).getD (i + 1) 0 := by
  rw [prefixFrom_succ acc l i h]
  have := hpos _ (getD_mem_of_lt l i h)
  omega

theorem prefixFrom_mono (acc : Int) (l : List Int) (hpos : ∀ x ∈ l, 0 < x) (i k : Nat)
    (hik : i ≤ k) (hk : k ≤ l.length) :
    (prefixFrom acc l).getD i 0 ≤ (prefixFrom acc l).getD k 0 := by
  induction k with
  | zero =>
    have : i = 0 := by omega
    subst this; exact Int.le_refl _
  | succ k ih =>
    by_cases h : i = k + 1
    · subst h; exact Int.le_refl _
    · have h1 := ih (by omega) (by omega)
      have h2 := prefixFrom_lt_succ acc l hpos k (by omega)
      omega

theorem assignLoop_ok (sv : Solver) (wf : sv.WF) (hspos : ∀ x ∈ sv.s, 0 < x)
    (hS : sv.S = prefixFrom 0 sv.s) (L : Int) (ps : List Int) (i cs : Nat) (rest : List Int)
    (hi : i + ps.length = sv.u.length)
    (hp : ∀ x ∈ ps, x ≤ L - sv.S.getD sv.u.length 0)
    (hl : rest.getLast? = some L) (hc : cs + rest.length = sv.v.length) :
    ∃ a, assignLoop sv ps i cs rest = .ok a ∧ a.length = ps.length ∧ ∀ k ∈ a, k < sv.v.length := by
  induction ps generalizing i cs rest with
  | nil => exact ⟨[], rfl, rfl, by simp⟩
  | cons pi ps ih =>
    have hlen : i < sv.u.length := by simp at hi; omega
    have hi' : i < sv.s.length := by rw [wf.hs]; exact hlen
    have hsi : 0 < sv.s.getD i 0 := hspos _ (getD_mem_of_lt sv.s i hi')
    have h1 : sv.S.getD (i + 1) 0 = sv.S.getD i 0 + sv.s.getD i 0 := by
      rw [hS]; exact prefixFrom_succ 0 sv.s i hi'
    have h2 : sv.S.getD (i + 1) 0 ≤ sv.S.getD sv.u.length 0 := by
      rw [hS, ← wf.hs]
      exact prefixFrom_le_last 0 sv.s (fun x hx => Int.le_of_lt (hspos x hx)) (i + 1) (by omega)
    have h3 : Int.tdiv (sv.s.getD i 0) 2 = sv.s.getD i 0 / 2 :=
      Int.tdiv_eq_ediv_of_nonneg (Int.le_of_lt hsi)
    have hpi := hp pi (List.mem_cons_self ..)
    have hpos : pi + sv.S.getD i 0 + Int.tdiv (sv.s.getD i 0) 2 < L := by
      rw [h3]; omega
    obtain ⟨cs', rest', e, k1, k2, _⟩ := walk_ok _ rest cs L hl hpos
    have hne : 0 < rest'.length := by
      cases rest' with
      | nil => simp at k1
      | cons _ _ => simp
    obtain ⟨a, e2, l1, l2⟩ := ih (i + 1) cs' rest' (by simp at hi ⊢; omega)
      (fun x hx => hp x (List.mem_cons_of_mem _ hx)) k1 (by omega)
    unfold assignLoop
    simp only [get_ok' sv.S i (by have := wf.hS; omega), get_ok' sv.s i hi', e, e2,
      bind, Except.bind, pure, Except.pure]
    refine ⟨cs' :: a, rfl, by simp [l1], ?_⟩
    intro k hk
    simp only [List.mem_cons] at hk
    rcases hk with h | h
    · omega
    · exact l2 k h

theorem computeAssignment_ok (sv : Solver) (wf : sv.WF) (hspos : ∀ x ∈ sv.s, 0 < x)
    (hS : sv.S = prefixFrom 0 sv.s) (p : List Int) (hp : RunPost sv p)
    (hm : sv.u.length = 0 ∨ 0 < sv.v.length) :
    ∃ a, computeAssignment sv p = .ok a ∧ a.length = sv.u.length ∧ ∀ k ∈ a, k < sv.v.length := by
  unfold computeAssignment
  rcases hm with h | h
  · have : p = [] := List.eq_nil_of_length_eq_zero (by rw [hp.len, h])
    subst this
    exact ⟨[], rfl, by simp [h], by simp⟩
  · have hl : (sv.D.drop 1).getLast? = some (sv.D.getD sv.v.length 0) := by
      have hD := wf.hD
      rw [List.getLast?_drop]
      have : ¬ sv.D.length ≤ 1 := by omega
      simp only [this, if_false]
      rw [List.getLast?_eq_getElem?, List.getD_eq_getElem?_getD]
      have h1 : sv.D.length - 1 = sv.v.length := by omega
      rw [h1]
      have : sv.v.length < sv.D.length := by omega
      simp [List.getElem?_eq_getElem this]
    obtain ⟨a, e, l1, l2⟩ := assignLoop_ok sv wf hspos hS _ p 0 0 (sv.D.drop 1)
      (by simp [hp.len]) hp.le hl (by simp [wf.hD])
    exact ⟨a, e, by rw [l1, hp.len], l2⟩

end ColoVerif.Transp1d
