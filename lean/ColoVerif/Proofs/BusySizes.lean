import ColoVerif.Model.BusySizes
/-
Helper lemmas for the size theorems of C10 (`Model/BusySizes.lean`): rewriting of the IR conditions into
propositions, and preservation of an invariant of the sizes by `execS` on write-free bodies, by stage
traces and by histories — generic in the tables.
-/
namespace ColoVerif.BusySizes
open ColoVerif.ApiIR ColoVerif.Busy

/-! ### conditions as propositions (to be used *before* `Expr.eval` is unfolded) -/
section
variable (env : Env) (x : Int)
theorem cond_eq (a b : Expr) : (Cond.eval env x (.eq a b) = true) = (Expr.eval env x a = Expr.eval env x b) := by
  simp [Cond.eval]
theorem cond_lt (a b : Expr) : (Cond.eval env x (.lt a b) = true) = (Expr.eval env x a < Expr.eval env x b) := by
  simp [Cond.eval]
theorem cond_le (a b : Expr) : (Cond.eval env x (.le a b) = true) = (Expr.eval env x a ≤ Expr.eval env x b) := by
  simp [Cond.eval]
theorem cond_or (a b : Cond) :
    (Cond.eval env x (.or a b) = true) = (Cond.eval env x a = true ∨ Cond.eval env x b = true) := by simp [Cond.eval]
theorem cond_and (a b : Cond) :
    (Cond.eval env x (.and a b) = true) = (Cond.eval env x a = true ∧ Cond.eval env x b = true) := by simp [Cond.eval]
theorem cond_not (a : Cond) : (Cond.eval env x (.not a) = true) = ¬ (Cond.eval env x a = true) := by simp [Cond.eval]
theorem cond_empty (i : Nat) : (Cond.eval env x (.empty i) = true) = ((env.arg i).len = 0) := by simp [Cond.eval]
end

theorem envOf_arg (s : Sz) (args : List Arg) (i : Nat) : (envOf s args).arg i = argAt args i := rfl
theorem envOf_nbCells (s : Sz) (args : List Arg) : (envOf s args).nbCells = s.len "cellWidth_" := rfl
theorem envOf_nbNets (s : Sz) (args : List Arg) : (envOf s args).nbNets = s.len "netLimits_" - 1 := rfl

theorem argLen_nonneg {args : List Arg} (h : ArgsOk args) (i : Nat) : 0 ≤ (argAt args i).len := by
  unfold argAt
  simp only [List.getD_eq_getElem?_getD]
  cases hi : args[i]? with
  | none => simp
  | some a => simp; exact h a (List.mem_of_getElem? hi)

theorem argsOk_nil : ArgsOk [] := by intro a ha; cases ha

/-- case split on an `if` under any predicate of results -/
theorem res_ite {P : SRes → Prop} {c : Prop} [Decidable c] {a b : SRes} (ha : c → P a) (hb : ¬c → P b) :
    P (if c then a else b) := by
  by_cases h : c
  · rw [if_pos h]; exact ha h
  · rw [if_neg h]; exact hb h

/-! ### write-free bodies (the placement calls) -/

theorem andThen_preserves (P : Sz → Prop) (r : SRes) (k : SSt → SRes) (hr : P r.st.sz)
    (hk : ∀ s, P s.sz → P (k s).st.sz) : P (r.andThen k).st.sz := by
  unfold SRes.andThen
  split
  · exact hk _ hr
  · exact hr

theorem absorbThen_preserves (P : Sz → Prop) (r : SRes) (k : SSt → SRes) (hr : P r.st.sz)
    (hk : ∀ s, P s.sz → P (k s).st.sz) : P (r.absorbThen k).st.sz := by
  unfold SRes.absorbThen
  split
  · exact hr
  · exact hr
  · exact hk _ hr

/-- A body without writes changes the sizes only through its calls. -/
theorem execS_ctl_preserves (P : Sz → Prop) (onCall : String → SSt → SRes)
    (hcall : ∀ f s, P s.sz → P (onCall f s).st.sz) (args : List Arg) (free : Int) :
    ∀ (body : List Stmt) (st : SSt), P st.sz → P (execS onCall args free (body.map SStmt.ctl) st).st.sz := by
  intro body
  induction body with
  | nil => intro st h; simpa [execS] using h
  | cons s rest ih =>
    intro st h
    cases s with
    | throwIf c => simp only [List.map, execS]; split; exact h; exact ih st h
    | returnIf c => simp only [List.map, execS]; split; exact h; exact ih st h
    | checkNotInUse => simp only [List.map, execS]; split; exact h; exact ih st h
    | assign m => simpa [execS] using h
    | setInUse b => simp only [List.map, execS]; exact ih _ h
    | call f =>
      simp only [List.map, execS]
      exact andThen_preserves P _ _ (hcall f st h) (fun s hs => ih s hs)
    | scopeGuard => simp only [List.map, execS, SRes.restore]; exact ih _ h
    | restoreGuard => simp only [List.map, execS, SRes.restore]; exact ih _ h
    | ret => simpa [execS] using h
    | assertC c => simp only [List.map, execS]; split; exact ih st h; exact h
    | paramsCheck => simp only [List.map, execS]; exact ih st h
    | pure w => simp only [List.map, execS]; exact ih st h

theorem runCallS_preserves (P : Sz → Prop) (pcs : List FnDef) (name : String) (stage : SSt → SRes)
    (hstage : ∀ s, P s.sz → P (stage s).st.sz) (st : SSt) (h : P st.sz) : P (runCallS pcs name stage st).st.sz := by
  unfold runCallS
  split
  · exact execS_ctl_preserves P _ (fun _ s hs => hstage s hs) [] 0 _ st h
  · exact h

/-- the flag after a write-free body that starts with a re-entrant guard is the flag before -/
theorem execS_restore_flag (onCall : String → SSt → SRes) (args : List Arg) (free : Int) (rest : List SStmt) (st : SSt) :
    (execS onCall args free (.ctl .restoreGuard :: rest) st).st.inUse = st.inUse := by
  simp [execS, SRes.restore]

/-! ### traces and histories -/

theorem applyW_preserves (P : Sz → Prop) (ws : List (String × WKind))
    (hws : ∀ m n s, (m, WKind.whole) ∈ ws → P s → P (s.set m n))
    (m : String) (kind : WKind) (n : Int) (s : Sz) (hm : (m, kind) ∈ ws) (h : P s) : P (applyW s m kind n) := by
  cases kind with
  | element => exact h
  | whole => exact hws m n s hm h

theorem runSTr_preserves (P : Sz → Prop) (tbl : List SFn) (pcs : List FnDef) (ws : List (String × WKind))
    (hset : ∀ sc st, ArgsOk sc.args → P st.sz → P (runFnS tbl sc st).st.sz)
    (hws : ∀ m n s, (m, WKind.whole) ∈ ws → P s → P (s.set m n)) :
    ∀ (t : STr) (st : SSt), t.argsOk → P st.sz → P (runSTr tbl pcs ws t st).st.sz := by
  intro t
  induction t with
  | done thr => intro st _ h; simpa [runSTr] using h
  | setter sc k ih =>
    intro st ha h
    simp only [runSTr]
    exact absorbThen_preserves P _ _ (hset sc st ha.1 h) (fun s hs => ih s ha.2 hs)
  | nested name inner k ihi ihk =>
    intro st ha h
    simp only [runSTr]
    exact absorbThen_preserves P _ _ (runCallS_preserves P pcs name _ (fun s hs => ihi s ha.1 hs) st h)
      (fun s hs => ihk s ha.2 hs)
  | cbEnd thr k ih =>
    intro st ha h
    simp only [runSTr]
    split
    · exact h
    · exact ih st ha h
  | write m kind n k ih =>
    intro st ha h
    simp only [runSTr]
    split
    · rename_i hm
      exact ih _ ha (applyW_preserves P ws hws m kind n st.sz (by simpa using hm) h)
    · exact h

theorem runApi_preserves (P : Sz → Prop) (T : Tables)
    (hset : ∀ sc st, ArgsOk sc.args → P st.sz → P (runFnS T.setters sc st).st.sz)
    (hexp : ∀ sc st, ArgsOk sc.args → P st.sz → P (runFnS T.expansion sc st).st.sz)
    (hws : ∀ m n s, (m, WKind.whole) ∈ T.placerWrites → P s → P (s.set m n))
    (c : ApiCall) (st : SSt) (ha : c.argsOk) (h : P st.sz) : P (runApi T c st).st.sz := by
  cases c with
  | setter sc => exact hset sc st ha h
  | expansion sc => exact hexp sc st ha h
  | placement name t =>
    exact runCallS_preserves P _ name _ (fun s hs => runSTr_preserves P _ _ _ hset hws t s ha hs) st h

theorem runHistory_preserves (P : Sz → Prop) (T : Tables)
    (hset : ∀ sc st, ArgsOk sc.args → P st.sz → P (runFnS T.setters sc st).st.sz)
    (hexp : ∀ sc st, ArgsOk sc.args → P st.sz → P (runFnS T.expansion sc st).st.sz)
    (hws : ∀ m n s, (m, WKind.whole) ∈ T.placerWrites → P s → P (s.set m n)) :
    ∀ (cs : List ApiCall) (st : SSt), (∀ c ∈ cs, c.argsOk) → P st.sz → P (runHistory T cs st).sz := by
  intro cs
  induction cs with
  | nil => intro st _ h; exact h
  | cons c rest ih =>
    intro st ha h
    simp only [runHistory]
    exact ih _ (fun c' hc' => ha c' (List.mem_cons_of_mem _ hc'))
      (runApi_preserves P T hset hexp hws c st (ha c List.mem_cons_self) h)

/-- from a table-wide statement about bodies to `runFnS` -/
theorem runFnS_preserves (P : Sz → Prop) (tbl : List SFn)
    (h : ∀ f ∈ tbl, ∀ (args : List Arg) (free : Int) (st : SSt), ArgsOk args → P st.sz →
      P (execS noCallS args free f.body st).st.sz)
    (sc : SCall) (st : SSt) (ha : ArgsOk sc.args) (hp : P st.sz) : P (runFnS tbl sc st).st.sz := by
  unfold runFnS lookupS
  cases hf : tbl.find? (fun f => f.name == sc.name) with
  | none => exact hp
  | some f => exact h f (List.mem_of_find?_eq_some hf) sc.args sc.free st ha hp

/-! ### the invariant -/

theorem consistent_set_untracked {s : Sz} {m : String} (n : Int) (hm : m ∉ trackedMembers)
    (h : SizesConsistent s) : SizesConsistent (s.set m n) := by
  simp only [trackedMembers, perCellMembers, perPinMembers, List.cons_append, List.nil_append, List.mem_cons,
    List.not_mem_nil, or_false, not_or] at hm
  obtain ⟨m1, m2, m3, m4, m5, m6, m7, m8, m9, m10, m11, m12, m13⟩ := hm
  obtain ⟨h1, h2, h3, h4, h5, h6, h7, h8, h9, h10, h11, h12⟩ := h
  have e : ∀ k, k ≠ m → (s.set m n).len k = s.len k := by
    intro k hk; simp [Sz.set, hk]
  constructor <;>
    simp only [Sz.nbCells, Sz.nbNets, Sz.nbPins, e _ (Ne.symm m1), e _ (Ne.symm m2), e _ (Ne.symm m3), e _ (Ne.symm m4),
      e _ (Ne.symm m5), e _ (Ne.symm m6), e _ (Ne.symm m7), e _ (Ne.symm m8), e _ (Ne.symm m9), e _ (Ne.symm m10),
      e _ (Ne.symm m11), e _ (Ne.symm m12), e _ (Ne.symm m13)] at * <;> assumption

/-- the executable form agrees with the invariant -/
theorem consistent_iff (s : Sz) : s.consistent = true ↔ SizesConsistent s := by
  constructor
  · intro h
    simp [Sz.consistent, perCellMembers, perPinMembers] at h
    obtain ⟨⟨⟨⟨h1, h2, h3, h4, h5, h6, h7⟩, h8⟩, h9⟩, h10, h11, h12⟩ := h
    exact ⟨h1, h2, h3, h4, h5, h6, h7, h8, h9, h10, h11, h12⟩
  · intro ⟨h1, h2, h3, h4, h5, h6, h7, h8, h9, h10, h11, h12⟩
    simp [Sz.consistent, perCellMembers, perPinMembers]
    exact ⟨⟨⟨⟨h1, h2, h3, h4, h5, h6, h7⟩, h8⟩, h9⟩, h10, h11, h12⟩

/-- every size clause of `Circuit::check()` is false on consistent sizes -/
theorem checkSizeClauses_pass {s : Sz} (h : SizesConsistent s) : checkPasses (checkSizeClauses s) = true := by
  obtain ⟨h1, h2, h3, h4, h5, h6, h7, h8, h9, h10, h11, h12⟩ := h
  simp only [Sz.nbCells, Sz.nbNets, Sz.nbPins] at *
  simp [checkPasses, checkSizeClauses, Sz.nbCells, Sz.nbNets, Sz.nbPins, h1, h2, h3, h5, h6, h7, h9, h10, h11, h12]
  omega

/-- … and conversely: `check()`'s size clauses say everything `SizesConsistent` says except for `cellRowPolarity_`,
which `check()` does not look at. -/
theorem checkSizeClauses_pass_iff (s : Sz) :
    checkPasses (checkSizeClauses s) = true ∧ s.len "cellRowPolarity_" = s.nbCells ∧ 0 ≤ s.len "netLimits_" ↔
      SizesConsistent s := by
  constructor
  · intro ⟨h, hp, hn⟩
    simp [checkPasses, checkSizeClauses, Sz.nbCells, Sz.nbNets, Sz.nbPins] at h
    obtain ⟨h2, h3, h4, h5, h6, h7, h8, h9, h10, h11, h12⟩ := h
    exact ⟨h2, h3, h4, hp, h5, h6, h7, by omega, h9, h10, h11, h12⟩
  · intro h
    exact ⟨checkSizeClauses_pass h, h.polarity, by have := h.limits; omega⟩

end ColoVerif.BusySizes
