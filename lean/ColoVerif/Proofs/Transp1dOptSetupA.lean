import ColoVerif.Proofs.Transp1dOptLib
import ColoVerif.Proofs.Transp1dOptLocal
/-
Ingredients of `push_setup` (the prelude of `push i`): sums over an index range with a threshold
(telescoping), `upperBound`/`lowerBound` on the sorted sinks, the strengthened spec of
`updateOptimalSink`, and the effect of the two event loops (`pushNewSourceEvents`,
`pushNewSinkEvents`) on the cumulated slope `evS`.
-/
namespace ColoVerif.Transp1d

/-! ### sums over `[b, b + cnt)` -/

/-- `Σ_{b ≤ l < b + cnt} f l`, in the order of the `for` loops of the model -/
def sumFrom (f : Nat → Int) : Nat → Nat → Int
  | 0, _ => 0
  | cnt + 1, j => f j + sumFrom f cnt (j + 1)

theorem sumFrom_nonneg (f : Nat → Int) (cnt b : Nat) (h : ∀ l, b ≤ l → l < b + cnt → 0 ≤ f l) :
    0 ≤ sumFrom f cnt b := by
  induction cnt generalizing b with
  | zero => exact Int.le_refl _
  | succ cnt ih =>
    simp only [sumFrom]
    have h1 := h b (Nat.le_refl _) (by omega)
    have h2 := ih (b + 1) (fun l hl hl' => h l (by omega) (by omega))
    omega

theorem sumFrom_le (f g : Nat → Int) (cnt b : Nat) (h : ∀ l, b ≤ l → l < b + cnt → f l ≤ g l) :
    sumFrom f cnt b ≤ sumFrom g cnt b := by
  induction cnt generalizing b with
  | zero => exact Int.le_refl _
  | succ cnt ih =>
    simp only [sumFrom]
    have h1 := h b (Nat.le_refl _) (by omega)
    have h2 := ih (b + 1) (fun l hl hl' => h l (by omega) (by omega))
    omega

/-- telescoping with a threshold: the terms `g l - g (l+1)` are counted from `T` on -/
theorem sumFrom_thresh (g : Nat → Int) (P : Nat → Prop) [DecidablePred P] (cnt b T : Nat)
    (hbT : b ≤ T) (hT : T ≤ b + cnt) (h1 : ∀ l, b ≤ l → l < T → ¬ P l)
    (h2 : ∀ l, T ≤ l → l < b + cnt → P l) :
    sumFrom (fun l => if P l then g l - g (l + 1) else 0) cnt b = g T - g (b + cnt) := by
  induction cnt generalizing b T with
  | zero =>
    have : T = b := by omega
    subst this
    simp only [sumFrom, Nat.add_zero]
    omega
  | succ cnt ih =>
    simp only [sumFrom]
    by_cases hb : T = b
    · subst hb
      rw [if_pos (h2 T (Nat.le_refl _) (by omega)),
        ih (T + 1) (T + 1) (Nat.le_refl _) (by omega) (fun l hl hl' => by omega)
          (fun l hl hl' => h2 l (by omega) (by omega))]
      have : T + 1 + cnt = T + (cnt + 1) := by omega
      rw [this]
      omega
    · rw [if_neg (h1 b (Nat.le_refl _) (by omega)),
        ih (b + 1) T (by omega) (by omega) (fun l hl hl' => h1 l (by omega) hl')
          (fun l hl hl' => h2 l hl (by omega))]
      have : b + 1 + cnt = b + (cnt + 1) := by omega
      rw [this]
      omega

/-- a function that is flat at every step of `[a, c)` takes the same value at `a` and `c` -/
theorem flat_eq (g : Nat → Int) (a c : Nat) (hac : a ≤ c) (h : ∀ j, a ≤ j → j < c → g j = g (j + 1)) :
    g a = g c := by
  induction c with
  | zero =>
    have : a = 0 := by omega
    subst this; rfl
  | succ c ih =>
    by_cases hc : a = c + 1
    · subst hc; rfl
    · have h1 := ih (by omega) (fun j hj hj' => h j hj (by omega))
      have h2 := h c (by omega) (by omega)
      omega

/-- the sum of the new-source events: the loop runs over `[b, min lb J)` only, but `g` is flat
below `b` and from `lb` on, so the result is the full telescoping sum from the threshold `t` to `J` -/
theorem src_sum (g : Nat → Int) (P : Nat → Prop) [DecidablePred P] (b lb t J : Nat)
    (hf1 : ∀ j, j < b → j < J → g j = g (j + 1))
    (hf2 : ∀ j, lb ≤ j → j < J → g j = g (j + 1))
    (htJ : t ≤ J) (hP1 : ∀ l, l < t → ¬ P l) (hP2 : ∀ l, t ≤ l → l < J → P l) :
    sumFrom (fun l => if P l then g l - g (l + 1) else 0) (min lb J - b) b = g t - g J := by
  by_cases hbe : b ≤ min lb J
  · have hT := sumFrom_thresh g P (min lb J - b) b (max b (min t (min lb J))) (by omega) (by omega)
      (fun l hl hl' => hP1 l (by omega)) (fun l hl hl' => hP2 l (by omega) (by omega))
    rw [hT]
    have e1 : b + (min lb J - b) = min lb J := by omega
    rw [e1]
    have e2 : g (min lb J) = g J :=
      flat_eq g (min lb J) J (by omega) (fun j hj hj' => hf2 j (by omega) hj')
    have e3 : g (max b (min t (min lb J))) = g t := by
      by_cases c1 : t ≤ b
      · have : max b (min t (min lb J)) = b := by omega
        rw [this]
        exact (flat_eq g t b c1 (fun j hj hj' => hf1 j hj' (by omega))).symm
      · by_cases c2 : t ≤ min lb J
        · have : max b (min t (min lb J)) = t := by omega
          rw [this]
        · have : max b (min t (min lb J)) = min lb J := by omega
          rw [this]
          exact flat_eq g (min lb J) t (by omega) (fun j hj hj' => hf2 j (by omega) (by omega))
    omega
  · have e0 : min lb J - b = 0 := by omega
    rw [e0]
    simp only [sumFrom]
    have : g t = g J := flat_eq g t J htJ (fun j hj hj' => by
      by_cases c : j < b
      · exact hf1 j c hj'
      · exact hf2 j (by omega) hj')
    omega

/-! ### `upperBound`, `lowerBound` -/

theorem upperBound_lt (v : List Int) (x : Int) (j : Nat) (h : j < upperBound v x) : v.getD j 0 ≤ x := by
  induction v generalizing j with
  | nil => simp [upperBound] at h
  | cons y ys ih =>
    unfold upperBound at h
    rw [List.takeWhile_cons] at h
    by_cases hy : y ≤ x
    · simp only [hy, decide_true, if_true, List.length_cons] at h
      cases j with
      | zero => rw [List.getD_cons_zero]; exact hy
      | succ j => rw [List.getD_cons_succ]; exact ih j (by unfold upperBound; omega)
    · simp [hy] at h

theorem lowerBound_le (v : List Int) (hs : List.Pairwise (fun a b => a ≤ b) v) (x : Int) (j : Nat)
    (h : lowerBound v x ≤ j) (hj : j < v.length) : x ≤ v.getD j 0 := by
  induction v generalizing j with
  | nil => simp at hj
  | cons y ys ih =>
    unfold lowerBound at h
    rw [List.takeWhile_cons] at h
    by_cases hy : y < x
    · simp only [hy, decide_true, if_true, List.length_cons] at h
      cases j with
      | zero => omega
      | succ j =>
        rw [List.getD_cons_succ]
        exact ih (List.Pairwise.of_cons hs) j (by unfold lowerBound; omega) (by simpa using hj)
    · have h0 := sorted_getD (y :: ys) hs 0 j (Nat.zero_le _) hj
      rw [List.getD_cons_zero] at h0
      omega

/-! ### pure facts about `iabs` -/

theorem iabs_delta_left (a b x y : Int) (hab : a ≤ b) (hxy : x ≤ y) (h : y ≤ a) :
    iabs (a - y) + iabs (b - x) - iabs (b - y) - iabs (a - x) = 0 := by
  unfold iabs
  repeat' split
  all_goals omega

theorem iabs_delta_right (a b x y : Int) (hab : a ≤ b) (hxy : x ≤ y) (h : b ≤ x) :
    iabs (a - y) + iabs (b - x) - iabs (b - y) - iabs (a - x) = 0 := by
  unfold iabs
  repeat' split
  all_goals omega

/-- convexity of `|a - ·|`: once it strictly increases it keeps increasing -/
theorem iabs_convex (a x y z w : Int) (hxy : x ≤ y) (hyz : y ≤ z) (hzw : z ≤ w)
    (h : iabs (a - x) < iabs (a - y)) : iabs (a - z) ≤ iabs (a - w) := by
  unfold iabs at *
  repeat' split at h
  all_goals (repeat' split)
  all_goals omega

/-! ### `updateOptimalSink` -/

theorem updOpt_spec (sv : Solver) (i : Nat) (hi : i < sv.u.length) (k j : Nat)
    (hj : j < sv.v.length) (hk : sv.v.length ≤ j + k) :
    ∃ o, updOpt sv i k j = .ok o ∧ o < sv.v.length ∧ j ≤ o ∧
      (∀ t, j ≤ t → t < o → cs sv i (t + 1) ≤ cs sv i t) ∧
      (o + 1 = sv.v.length ∨ cs sv i o < cs sv i (o + 1)) := by
  induction k generalizing j with
  | zero => omega
  | succ k ih =>
    unfold updOpt
    by_cases h : j + 1 < sv.nbSinks
    · have h' : j + 1 < sv.v.length := h
      simp only [h, if_true, cost_ok sv i j hi hj, cost_ok sv i (j + 1) hi h', bind, Except.bind]
      split
      · rename_i hc
        obtain ⟨o, e, k1, k2, k3, k4⟩ := ih (j + 1) h' (by omega)
        refine ⟨o, e, k1, by omega, ?_, k4⟩
        intro t ht ht'
        by_cases htj : t = j
        · subst htj; exact hc
        · exact k3 t (by omega) ht'
      · rename_i hc
        refine ⟨j, rfl, hj, Nat.le_refl _, fun t ht ht' => by omega, Or.inr ?_⟩
        have : ¬ cs sv i (j + 1) ≤ cs sv i j := hc
        omega
    · simp only [h, if_false]
      have h' : ¬ j + 1 < sv.v.length := h
      exact ⟨j, rfl, hj, Nat.le_refl _, fun t ht ht' => by omega, Or.inl (by omega)⟩

/-! ### the event loops and `evS` -/

/-- `delta(a, j)` on the total cost -/
def dl (sv : Solver) (a j : Nat) : Int :=
  cs sv a (j + 1) + cs sv (a + 1) j - cs sv (a + 1) (j + 1) - cs sv a j

theorem delta_eq (sv : Solver) (a j : Nat) (ha : a + 1 < sv.u.length) (hj : j + 1 < sv.v.length) :
    delta sv a j = .ok (dl sv a j) := by
  simp only [delta, cost_ok sv a (j + 1) (by omega) hj, cost_ok sv (a + 1) j ha (by omega),
    cost_ok sv (a + 1) (j + 1) ha hj, cost_ok sv a j (by omega) (by omega),
    bind, Except.bind, pure, Except.pure, dl, cs]

theorem srcEvLoop_evS (sv : Solver) (wf : sv.WF) (a : Nat) (ha : a + 1 < sv.u.length)
    (cnt j : Nat) (ev ev' : List Event) (h : cnt = 0 ∨ j + cnt < sv.v.length)
    (e : srcEvLoop sv (a + 1) cnt j ev = .ok ev') (x : Int) (hx : 0 < x) :
    evS ev' x = evS ev x + sumFrom (fun l =>
      if x ≤ sv.D.getD (l + 1) 0 - sv.S.getD (a + 1) 0 then dl sv a l else 0) cnt j := by
  induction cnt generalizing j ev with
  | zero =>
    unfold srcEvLoop at e
    injection e with e
    subst e
    simp only [sumFrom]
    omega
  | succ cnt ih =>
    have hj : j + (cnt + 1) < sv.v.length := by omega
    unfold srcEvLoop at e
    simp only [get_ok' sv.D (j + 1) (by have := wf.hD; omega),
      get_ok' sv.S (a + 1) (by have := wf.hS; omega), Nat.add_sub_cancel,
      delta_eq sv a j ha (by omega), bind, Except.bind] at e
    rw [ih (j + 1) _ (by omega) e, evS_emplacePos _ _ _ _ hx]
    simp only [sumFrom]
    omega

theorem snkEvLoop_evS (sv : Solver) (wf : sv.WF) (i : Nat) (hi : i < sv.u.length) (lp : Int)
    (cnt l : Nat) (ev ev' : List Event) (h : l + cnt < sv.v.length)
    (e : snkEvLoop sv i lp cnt l ev = .ok ev') (x : Int) (hx : 0 < x) :
    evS ev' x = evS ev x + sumFrom (fun l =>
      if x ≤ min (sv.D.getD (l + 1) 0 - sv.S.getD i 0) lp then cs sv i l - cs sv i (l + 1) else 0)
      cnt l := by
  induction cnt generalizing l ev with
  | zero =>
    unfold snkEvLoop at e
    injection e with e
    subst e
    simp only [sumFrom]
    omega
  | succ cnt ih =>
    unfold snkEvLoop at e
    simp only [get_ok' sv.D (l + 1) (by have := wf.hD; omega), get_ok' sv.S i (by have := wf.hS; omega),
      cost_ok sv i l hi (by omega), cost_ok sv i (l + 1) hi (by omega), bind, Except.bind] at e
    rw [ih (l + 1) _ (by omega) e, evS_emplacePos _ _ _ _ hx]
    simp only [sumFrom, cs]
    omega

/-- `pushNewSourceEvents` for the first source does nothing -/
theorem pushNewSourceEvents_zero (sv : Solver) (st : St) : pushNewSourceEvents sv 0 st = .ok st := by
  simp [pushNewSourceEvents, pure, Except.pure]

/-- `pushNewSourceEvents` for source `a + 1` adds the `delta` slopes of the sinks in
`[upperBound v u_a - 1, min (lowerBound v u_(a+1)) lastOcc)` -/
theorem pushNewSourceEvents_evS (sv : Solver) (wf : sv.WF) (a : Nat) (ha : a + 1 < sv.u.length)
    (st st' : St) (hocc : st.lastOcc < sv.v.length)
    (e : pushNewSourceEvents sv (a + 1) st = .ok st') (x : Int) (hx : 0 < x) :
    evS st'.events x = evS st.events x + sumFrom (fun l =>
      if x ≤ sv.D.getD (l + 1) 0 - sv.S.getD (a + 1) 0 then dl sv a l else 0)
      (min (lowerBound sv.v (sv.u.getD (a + 1) 0)) st.lastOcc - (upperBound sv.v (sv.u.getD a 0) - 1))
      (upperBound sv.v (sv.u.getD a 0) - 1) := by
  unfold pushNewSourceEvents at e
  simp only [Nat.add_one_ne_zero, if_false, Nat.add_sub_cancel, get_ok' sv.u a (by omega),
    get_ok' sv.u (a + 1) ha, bind, Except.bind] at e
  cases hl : srcEvLoop sv (a + 1)
      (min (lowerBound sv.v (sv.u.getD (a + 1) 0)) st.lastOcc - (upperBound sv.v (sv.u.getD a 0) - 1))
      (upperBound sv.v (sv.u.getD a 0) - 1) st.events with
  | error err => rw [hl] at e; simp at e
  | ok ev' =>
    rw [hl] at e
    simp only [pure, Except.pure] at e
    injection e with e
    subst e
    exact srcEvLoop_evS sv wf a ha _ _ _ _ (by omega) hl x hx

theorem pushNewSinkEvents_evS (sv : Solver) (wf : sv.WF) (i j : Nat) (hi : i < sv.u.length)
    (hj : j < sv.v.length) (st st' : St)
    (e : pushNewSinkEvents sv i j st = .ok st') (x : Int) (hx : 0 < x) :
    evS st'.events x = evS st.events x + sumFrom (fun l =>
      if x ≤ min (sv.D.getD (l + 1) 0 - sv.S.getD i 0) st.lastPosition
      then cs sv i l - cs sv i (l + 1) else 0) (j - st.lastOcc) st.lastOcc := by
  unfold pushNewSinkEvents at e
  by_cases h0 : j ≤ st.lastOcc
  · simp only [h0, if_true, pure, Except.pure] at e
    injection e with e
    subst e
    have : j - st.lastOcc = 0 := by omega
    rw [this]
    simp only [sumFrom]
    omega
  · simp only [h0, if_false, bind, Except.bind] at e
    cases hl : snkEvLoop sv i st.lastPosition (j - st.lastOcc) st.lastOcc st.events with
    | error err => rw [hl] at e; simp at e
    | ok ev' =>
      rw [hl] at e
      simp only [pure, Except.pure] at e
      injection e with e
      subst e
      exact snkEvLoop_evS sv wf i hi _ _ _ _ _ (by omega) hl x hx

end ColoVerif.Transp1d
