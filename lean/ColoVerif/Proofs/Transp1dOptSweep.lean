import ColoVerif.Proofs.Transp1dOptRight
import ColoVerif.Proofs.Transp1dOptSetup
import ColoVerif.Proofs.Transp1dOptExit
import ColoVerif.Proofs.Transp1dOptFlush
/-
Assembly of the sweep invariants: `pushOnce` keeps `LoopInv`, the `while` loop of `push` ends with
`LoopInv` and its condition false, `push` keeps `SweepInv`, `pushAll` from the initial state
records `Facts` about every source, and `run` returns positions that satisfy `Kkt`.
-/
namespace ColoVerif.Transp1d

theorem pushOnce_loopInv (sv : Solver) (sd : SwDom sv) (i : Nat) (st st' : St)
    (inv : LoopInv sv i st) (hc : Overflow sv i st) (e : pushOnce sv i st = .ok st') :
    LoopInv sv i st' := by
  obtain ⟨hr, ht⟩ := pushOnce_right sv sd i st st' inv hc e
  exact pushOnce_loopInv_of_right sv sd i st st' inv hc e hr ht

/-- the loop keeps the invariant and ends with its condition false -/
theorem pushLoop_loopInv (sv : Solver) (sd : SwDom sv) (i : Nat) (fuel : Nat) (st st3 : St)
    (inv : LoopInv sv i st) (e : pushLoop sv i fuel st = .ok st3) :
    LoopInv sv i st3 ∧ ¬ Overflow sv i st3 := by
  have wf := sd.dom.wf
  induction fuel generalizing st with
  | zero => simp [pushLoop] at e
  | succ fuel ih =>
    unfold pushLoop at e
    simp only [get_ok' sv.D (st.lastOcc + 1) (by have := wf.hD; have := inv.occ; omega),
      get_ok' sv.S (i + 1) (by have := wf.hS; have := inv.ilt; omega), bind, Except.bind] at e
    split at e
    · rename_i hc
      cases h1 : pushOnce sv i st with
      | error err => rw [h1] at e; simp at e
      | ok st1 =>
        rw [h1] at e
        exact ih st1 (pushOnce_loopInv sv sd i st st1 inv hc h1) e
    · rename_i hc
      have : st3 = st := by
        simp only [pure, Except.pure] at e
        exact (Except.ok.inj e).symm
      subst this
      exact ⟨inv, hc⟩

/-- `push` keeps the between-pushes invariant -/
theorem push_sweep (sv : Solver) (sd : SwDom sv) (st st' : St) (sw : SweepInv sv st)
    (hi : st.pRev.length < sv.u.length) (e : push sv st.pRev.length st = .ok st') :
    SweepInv sv st' := by
  obtain ⟨st2, inv2, hpush⟩ := push_setup sv sd st sw hi
  rw [hpush] at e
  cases h1 : pushLoop sv st.pRev.length (loopFuel sv st2) st2 with
  | error err => rw [h1] at e; simp [Except.bind] at e
  | ok st3 =>
    rw [h1] at e
    simp only [Except.bind] at e
    have := Except.ok.inj e
    subst this
    obtain ⟨inv3, hc⟩ := pushLoop_loopInv sv sd _ _ st2 st3 inv2 h1
    exact loop_exit sv sd _ st3 inv3 hc

theorem push_len (sv : Solver) (sd : SwDom sv) (st st' : St) (sw : SweepInv sv st)
    (hi : st.pRev.length < sv.u.length) (e : push sv st.pRev.length st = .ok st') :
    st'.pRev.length = st.pRev.length + 1 := by
  obtain ⟨st2, inv2, hpush⟩ := push_setup sv sd st sw hi
  rw [hpush] at e
  cases h1 : pushLoop sv st.pRev.length (loopFuel sv st2) st2 with
  | error err => rw [h1] at e; simp [Except.bind] at e
  | ok st3 =>
    rw [h1] at e
    simp only [Except.bind] at e
    have := Except.ok.inj e
    subst this
    obtain ⟨inv3, _⟩ := pushLoop_loopInv sv sd _ _ st2 st3 inv2 h1
    simp [inv3.len]

theorem pushAll_sweep (sv : Solver) (sd : SwDom sv) (cnt : Nat) (st st' : St) (sw : SweepInv sv st)
    (h : st.pRev.length + cnt ≤ sv.u.length) (e : pushAll sv cnt st.pRev.length st = .ok st') :
    SweepInv sv st' ∧ st'.pRev.length = st.pRev.length + cnt := by
  induction cnt generalizing st with
  | zero =>
    simp only [pushAll, pure, Except.pure] at e
    have := Except.ok.inj e
    subst this
    exact ⟨sw, rfl⟩
  | succ cnt ih =>
    unfold pushAll at e
    cases h1 : push sv st.pRev.length st with
    | error err => rw [h1] at e; simp [bind, Except.bind] at e
    | ok st1 =>
      rw [h1] at e
      simp only [bind, Except.bind] at e
      have sw1 := push_sweep sv sd st st1 sw (by omega) h1
      have l1 := push_len sv sd st st1 sw (by omega) h1
      rw [← l1] at e
      obtain ⟨sw2, l2⟩ := ih st1 sw1 (by omega) e
      exact ⟨sw2, by omega⟩

theorem sweepInv_init (sv : Solver) (hm : 0 < sv.v.length) (sd : SwDom sv) : SweepInv sv St.init := by
  have hD0 : sv.D.getD 0 0 = 0 := by rw [sd.si.eD]; exact prefixFrom_zero 0 _
  have hS0 : sv.S.getD 0 0 = 0 := by rw [sd.si.eS]; exact prefixFrom_zero 0 _
  have hD1 := sd.dom.Dmono 0 1 (by omega) (by omega)
  refine ⟨⟨hm, hm, Int.le_refl _, by simp [St.init]⟩, ⟨by simp [St.init, SortedEv], by simp [St.init]⟩,
    ?_, ?_, by simp [St.init], fun _ => ⟨rfl, rfl, rfl⟩, ?_, ⟨?_, ?_⟩, ?_, trivial⟩
  · simp only [St.init, List.length_nil]; omega
  · simp only [St.init, List.length_nil, Nat.zero_add]; omega
  · intro pk rest h; simp [St.init] at h
  · intro x x' _ _ _; simp [St.init, evS]
  · intro _; simp [St.init, evS]
  · intro k _ _ t t' h1 h2
    simp only [St.init] at h2
    have : t = t' := by omega
    subst this; exact Int.le_refl _

/-- the positions returned by `run` satisfy the optimality conditions -/
theorem run_kkt (sv : Solver) (sd : SwDom sv) (hm : 0 < sv.v.length)
    (hslack : sv.S.getD sv.u.length 0 < sv.D.getD sv.v.length 0) (p : List Int)
    (e : run sv = .ok p) : PosDom sv p ∧ Kkt sv p := by
  have wf := sd.dom.wf
  unfold run at e
  cases h1 : pushAll sv sv.nbSources 0 St.init with
  | error err => rw [h1] at e; simp [bind, Except.bind] at e
  | ok st =>
    have sw0 := sweepInv_init sv hm sd
    have h1' : pushAll sv sv.u.length (St.init).pRev.length St.init = .ok st := h1
    obtain ⟨sw, hl⟩ := pushAll_sweep sv sd sv.u.length St.init st sw0 (by simp [St.init]) h1'
    have hl' : st.pRev.length = sv.u.length := by simpa [St.init] using hl
    have hD : lastD sv = .ok (sv.D.getD sv.v.length 0) := by
      unfold lastD
      have : sv.D.length - 1 = sv.v.length := by have := wf.hD; omega
      rw [this, get_ok' sv.D _ (by have := wf.hD; omega)]
    rw [h1] at e
    simp only [hD, List.length_reverse, hl', get_ok' sv.S sv.u.length (by have := wf.hS; omega),
      bind, Except.bind, pure, Except.pure] at e
    have := Except.ok.inj e
    subst this
    have hf : Facts sv st.pRev.reverse.reverse := by rw [List.reverse_reverse]; exact sw.facts
    have hlen : st.pRev.reverse.length = sv.u.length := by rw [List.length_reverse]; exact hl'
    exact ⟨facts_posDom sv sd _ hlen hf hslack, facts_kkt sv sd _ hlen hf⟩

end ColoVerif.Transp1d
