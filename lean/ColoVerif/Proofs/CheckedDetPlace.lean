import ColoVerif.Model.DetPlaceChecked
import ColoVerif.Proofs.CheckedArith
import ColoVerif.Proofs.DetPlaceCan
/-
No-fault theorems for the integer arithmetic of `DetailedPlacement` (C07): on the domain `DomC`
(all coordinates of optimised cells and rows within ±2^22, widths ≥ 0, links pointing to optimised
cells) every checked twin of `Model/DetPlaceChecked.lean` returns `.ok` of the unbounded function
of `Model/DetPlace.lean` — no `int` overflow, no failed `assert`, no index out of range — and the
domain is preserved by every successful `place` / `unplace` / `insert` / `swap`.

Core Lean only (`omega`, `simp`, hand lemmas).
-/
namespace ColoVerif.DetPlace
open ColoVerif.Checked
open State

local notation "M22" => (4194304 : Int)

/-! ### the domain -/

namespace State

/-- a cell the optimiser handles: valid index, not ignored -/
def LiveC (s : State) (c : Int) : Prop := s.validCell c ∧ s.width c ≠ -1

/-- a link value: the null link or an optimised cell -/
def LinkC (s : State) (c : Int) : Prop := c = -1 ∨ s.LiveC c

/-- The C07 domain of a `DetailedPlacement`: every optimised cell lies within ±2^22 with a width
≥ 0 (hence ≤ 2^23), every row lies within ±2^22, the links of optimised cells and the row heads are
−1 or optimised cells, the row of an optimised cell is −1 or a valid row.  Nothing is required of
the order of the cells in a row. -/
structure DomC (s : State) : Prop where
  xLo : ∀ c, s.LiveC c → -M22 ≤ s.x c
  xHi : ∀ c, s.LiveC c → s.x c + s.width c ≤ M22
  wLo : ∀ c, s.LiveC c → 0 ≤ s.width c
  rowMin : ∀ r, s.validRow r → -M22 ≤ s.rowMinX r ∧ s.rowMinX r ≤ M22
  rowMax : ∀ r, s.validRow r → -M22 ≤ s.rowMaxX r ∧ s.rowMaxX r ≤ M22
  predOk : ∀ c, s.LiveC c → s.LinkC (s.pred c)
  nextOk : ∀ c, s.LiveC c → s.LinkC (s.next c)
  firstOk : ∀ r, s.validRow r → s.LinkC (s.rowFirst r)
  rowOk : ∀ c, s.LiveC c → s.row c = -1 ∨ s.validRow (s.row c)

theorem DomC.wHi {s : State} (h : s.DomC) {c : Int} (hc : s.LiveC c) : s.width c ≤ 8388608 := by
  have := h.xLo c hc
  have := h.xHi c hc
  omega

theorem DomC.xHi' {s : State} (h : s.DomC) {c : Int} (hc : s.LiveC c) : s.x c ≤ M22 := by
  have := h.xHi c hc
  have := h.wLo c hc
  omega

/-- the row of a placed optimised cell is a valid row -/
theorem DomC.placedRow {s : State} (h : s.DomC) {c : Int} (hc : s.LiveC c) (hp : s.row c ≠ -1) :
    s.validRow (s.row c) := by
  cases h.rowOk c hc with
  | inl e => exact absurd e hp
  | inr e => exact e

end State

/-- the structural part of `DomC` follows from the invariant of `check()`; the numeric part is the
C07 magnitude hypothesis -/
theorem DomC_of_Inv {s : State} (h : Inv s)
    (hx : ∀ c, s.LiveC c → -M22 ≤ s.x c ∧ s.x c + s.width c ≤ M22)
    (hr : ∀ r, s.validRow r → (-M22 ≤ s.rowMinX r ∧ s.rowMinX r ≤ M22) ∧ (-M22 ≤ s.rowMaxX r ∧ s.rowMaxX r ≤ M22))
    (hpl : ∀ c, s.LiveC c → s.row c ≠ -1) : s.DomC := by
  have live_of_placed : ∀ d, s.validCell d → s.row d ≠ -1 → s.LiveC d :=
    fun d hd hp => ⟨hd, ((h.cell hd).2 hp).1⟩
  refine ⟨fun c hc => (hx c hc).1, fun c hc => (hx c hc).2, ?_, fun r hr' => (hr r hr').1,
    fun r hr' => (hr r hr').2, ?_, ?_, ?_, ?_⟩
  · intro c hc
    have := ((h.cell hc.1).1 hc.2).2
    omega
  · intro c hc
    have L := h.link hc.1
    have hp := hpl c hc
    by_cases e : s.pred c = -1
    · exact Or.inl e
    · have := (L.2.2 hp).1 e
      exact Or.inr (live_of_placed _ this.1 (by rw [this.2.1]; exact hp))
  · intro c hc
    have L := h.link hc.1
    have hp := hpl c hc
    by_cases e : s.next c = -1
    · exact Or.inl e
    · have := (L.2.2 hp).2.2.1 e
      exact Or.inr (live_of_placed _ this.1 (by rw [this.2.1]; exact hp))
  · intro r hr'
    have R := h.rowok hr'
    by_cases e : s.rowFirst r = -1
    · exact Or.inl e
    · have := R.2 e
      refine Or.inr (live_of_placed _ this.1 ?_)
      rw [this.2.2.1]
      unfold validRow at hr'
      omega
  · intro c hc
    exact Or.inr (h.placed_row hc.1 (hpl c hc))

/-! ### primitives -/

theorem cellIdxC_ok {s : State} {site : String} {c : Int} (h : s.validCell c) :
    s.cellIdxC site c = .ok () := by
  simp [cellIdxC, h]

theorem rowIdxC_ok {s : State} {site : String} {r : Int} (h : s.validRow r) :
    s.rowIdxC site r = .ok () := by
  simp [rowIdxC, h]

/-- `v / 2` (truncating) halves the magnitude -/
theorem tdiv2_bounds {v A : Int} (h1 : -(2 * A) ≤ v) (h2 : v ≤ 2 * A) :
    -A ≤ v.tdiv 2 ∧ v.tdiv 2 ≤ A := by
  rcases Int.le_total 0 v with hs | hs
  · rw [Int.tdiv_eq_ediv_of_nonneg hs]; omega
  · have e1 : v.tdiv 2 = -((-v) / 2) := by
      have := Int.neg_tdiv (-v) 2
      rw [Int.neg_neg] at this
      rw [this, Int.tdiv_eq_ediv_of_nonneg (by omega)]
    rw [e1]; omega

theorem divI32_two_ok {site : String} {v : Int} (h1 : -2147483648 ≤ v) (h2 : v ≤ 2147483647) :
    divI32 site v 2 = .ok (v.tdiv 2) := by
  have hb := tdiv2_bounds (v := v) (A := 1073741824) (by omega) (by omega)
  have hne : ¬ (2 : Int) = 0 := by decide
  simp only [divI32, hne, if_false]
  exact chk32_ok' (by omega) (by omega)

/-! ### magnitudes of the site / boundary values -/

section bounds
variable {s : State} (h : s.DomC)
include h

theorem siteNext_link {r p : Int} (hr : s.validRow r) (hp : s.LinkC p) : s.LinkC (s.siteNext r p) := by
  unfold siteNext
  by_cases e : p = -1
  · rw [if_pos e]; exact h.firstOk r hr
  · rw [if_neg e]
    cases hp with
    | inl e' => exact absurd e' e
    | inr hl => exact h.nextOk p hl

theorem siteBegin_bounds {r p : Int} (hr : s.validRow r) (hp : s.LinkC p) :
    -M22 ≤ s.siteBegin r p ∧ s.siteBegin r p ≤ M22 := by
  unfold siteBegin
  by_cases e : p = -1
  · rw [if_pos e]; exact h.rowMin r hr
  · rw [if_neg e]
    cases hp with
    | inl e' => exact absurd e' e
    | inr hl =>
      have := h.xLo p hl
      have := h.xHi p hl
      have := h.wLo p hl
      exact ⟨by omega, by omega⟩

theorem siteEnd_bounds {r p : Int} (hr : s.validRow r) (hp : s.LinkC p) :
    -M22 ≤ s.siteEnd r p ∧ s.siteEnd r p ≤ M22 := by
  have hn := siteNext_link h hr hp
  unfold siteEnd
  by_cases e : s.siteNext r p = -1
  · rw [if_pos e]; exact h.rowMax r hr
  · rw [if_neg e]
    cases hn with
    | inl e' => exact absurd e' e
    | inr hl => exact ⟨h.xLo _ hl, h.xHi' hl⟩

end bounds

section bounds2
variable {s : State} (h : s.DomC)
include h

theorem boundaryBefore_bounds {c : Int} (hc : s.LiveC c) (hp : s.row c ≠ -1) :
    -M22 ≤ s.boundaryBefore c ∧ s.boundaryBefore c ≤ M22 := by
  unfold boundaryBefore
  by_cases e : s.pred c = -1
  · rw [if_pos e]; exact h.rowMin _ (h.placedRow hc hp)
  · rw [if_neg e]
    have hl : s.LiveC (s.pred c) := (h.predOk c hc).resolve_left e
    have := h.xLo _ hl
    have := h.xHi _ hl
    have := h.wLo _ hl
    exact ⟨by omega, by omega⟩

theorem boundaryAfter_bounds {c : Int} (hc : s.LiveC c) (hp : s.row c ≠ -1) :
    -M22 ≤ s.boundaryAfter c ∧ s.boundaryAfter c ≤ M22 := by
  unfold boundaryAfter
  by_cases e : s.next c = -1
  · rw [if_pos e]; exact h.rowMax _ (h.placedRow hc hp)
  · rw [if_neg e]
    have hl : s.LiveC (s.next c) := (h.nextOk c hc).resolve_left e
    exact ⟨h.xLo _ hl, h.xHi' hl⟩

end bounds2

/-! ### checked = unchecked: the read-only functions -/

theorem siteNextC_ok {s : State} {site : String} {r p : Int} (hr : s.validRow r) (hp : s.LinkC p) :
    s.siteNextC site r p = .ok (s.siteNext r p) := by
  unfold siteNextC siteNext
  by_cases e : p = -1
  · simp only [if_pos e, rowIdxC_ok hr, bind, Except.bind, pure, Except.pure]
  · have hl : s.LiveC p := hp.resolve_left e
    simp only [if_neg e, cellIdxC_ok hl.1, bind, Except.bind, pure, Except.pure]

/-- **`siteBegin` never overflows** on the domain -/
theorem siteBeginC_ok {s : State} (h : s.DomC) {r p : Int} (hr : s.validRow r) (hp : s.LinkC p) :
    s.siteBeginC r p = .ok (s.siteBegin r p) := by
  unfold siteBeginC siteBegin
  by_cases e : p = -1
  · simp only [if_pos e, rowIdxC_ok hr, bind, Except.bind, pure, Except.pure]
  · have hl : s.LiveC p := hp.resolve_left e
    have := h.xLo p hl
    have := h.xHi p hl
    have := h.wLo p hl
    have e1 : addI32 "siteBegin: cellX(pred) + cellWidth(pred)" (s.x p) (s.width p) = .ok (s.x p + s.width p) :=
      chk32_ok' (by omega) (by omega)
    simp only [if_neg e, cellIdxC_ok hl.1, e1, bind, Except.bind]

/-- **`siteEnd` reads valid cells only** on the domain -/
theorem siteEndC_ok {s : State} (h : s.DomC) {r p : Int} (hr : s.validRow r) (hp : s.LinkC p) :
    s.siteEndC r p = .ok (s.siteEnd r p) := by
  have hn := siteNext_link h hr hp
  unfold siteEndC siteEnd
  simp only [siteNextC_ok hr hp, bind, Except.bind]
  by_cases e : s.siteNext r p = -1
  · simp only [if_pos e, rowIdxC_ok hr, pure, Except.pure]
  · have hl : s.LiveC (s.siteNext r p) := hn.resolve_left e
    simp only [if_neg e, cellIdxC_ok hl.1, pure, Except.pure]

theorem boundaryBeforeC_ok {s : State} (h : s.DomC) (asr : Bool) {c : Int} (hc : s.LiveC c) (hp : s.row c ≠ -1) :
    s.boundaryBeforeC asr c = .ok (s.boundaryBefore c) := by
  have hpl : s.isPlaced c = true := (isPlaced_iff s c).2 hp
  have hrow := h.placedRow hc hp
  have a1 : assertC asr "boundaryBefore: assert(isPlaced(c))" (s.isPlaced c) = .ok () := assertC_true _ _ hpl
  unfold boundaryBeforeC boundaryBefore
  by_cases e : s.pred c = -1
  · simp only [cellIdxC_ok hc.1, a1, if_pos e, rowIdxC_ok hrow, bind, Except.bind, pure, Except.pure]
  · have hl : s.LiveC (s.pred c) := (h.predOk c hc).resolve_left e
    have := h.xLo _ hl
    have := h.xHi _ hl
    have := h.wLo _ hl
    have e1 : addI32 "boundaryBefore: cellX(pred) + cellWidth(pred)" (s.x (s.pred c)) (s.width (s.pred c)) =
        .ok (s.x (s.pred c) + s.width (s.pred c)) := chk32_ok' (by omega) (by omega)
    simp only [cellIdxC_ok hc.1, a1, if_neg e, cellIdxC_ok hl.1, e1, bind, Except.bind]

theorem boundaryAfterC_ok {s : State} (h : s.DomC) (asr : Bool) {c : Int} (hc : s.LiveC c) (hp : s.row c ≠ -1) :
    s.boundaryAfterC asr c = .ok (s.boundaryAfter c) := by
  have hpl : s.isPlaced c = true := (isPlaced_iff s c).2 hp
  have hrow := h.placedRow hc hp
  have a1 : assertC asr "boundaryAfter: assert(isPlaced(c))" (s.isPlaced c) = .ok () := assertC_true _ _ hpl
  unfold boundaryAfterC boundaryAfter
  by_cases e : s.next c = -1
  · simp only [cellIdxC_ok hc.1, a1, if_pos e, rowIdxC_ok hrow, bind, Except.bind, pure, Except.pure]
  · have hl : s.LiveC (s.next c) := (h.nextOk c hc).resolve_left e
    simp only [cellIdxC_ok hc.1, a1, if_neg e, cellIdxC_ok hl.1, bind, Except.bind, pure, Except.pure]

theorem boundaryBeforeInC_ok {s : State} (h : s.DomC) (asr : Bool) {r c : Int} (hr : s.validRow r)
    (hc : c = -1 ∨ (s.LiveC c ∧ s.row c ≠ -1)) :
    s.boundaryBeforeInC asr r c = .ok (s.boundaryBeforeIn r c) := by
  unfold boundaryBeforeInC boundaryBeforeIn
  by_cases e : c = -1
  · simp only [if_pos e, rowIdxC_ok hr, bind, Except.bind, pure, Except.pure]
  · have hl := hc.resolve_left e
    simp only [if_neg e]
    exact boundaryBeforeC_ok h asr hl.1 hl.2

theorem boundaryAfterInC_ok {s : State} (h : s.DomC) (asr : Bool) {r c : Int} (hr : s.validRow r)
    (hc : c = -1 ∨ (s.LiveC c ∧ s.row c ≠ -1)) :
    s.boundaryAfterInC asr r c = .ok (s.boundaryAfterIn r c) := by
  unfold boundaryAfterInC boundaryAfterIn
  by_cases e : c = -1
  · simp only [if_pos e, rowIdxC_ok hr, bind, Except.bind, pure, Except.pure]
  · have hl := hc.resolve_left e
    simp only [if_neg e]
    exact boundaryAfterC_ok h asr hl.1 hl.2

/-- **`canPlace` never overflows** on the domain, for every abscissa `x` up to `INT_MAX - 2^23`
(in particular for `|x| ≤ 2^23`) -/
theorem canPlaceC_ok {s : State} (h : s.DomC) {c r p x : Int} (hc : s.LiveC c) (hr : s.validRow r)
    (hp : s.LinkC p) (hx1 : -2147483648 ≤ x) (hx2 : x ≤ 2139095039) :
    s.canPlaceC c r p x = .ok (s.canPlace c r p x) := by
  have hb := siteBeginC_ok h hr hp
  have he := siteEndC_ok h hr hp
  have := h.wLo c hc
  have := h.wHi hc
  have e1 : addI32 "canPlace: x + cellWidth(c)" x (s.width c) = .ok (x + s.width c) :=
    chk32_ok' (by omega) (by omega)
  unfold canPlaceC canPlace
  simp only [cellIdxC_ok hc.1, rowIdxC_ok hr, hb, he, e1, bind, Except.bind, pure, Except.pure]
  by_cases p1 : s.isPlaced c = true
  · simp only [if_pos p1]
  · simp only [if_neg p1]
    by_cases p2 : (!s.isRowAllowed c r) = true
    · simp only [if_pos p2]
    · simp only [if_neg p2]
      by_cases p3 : x ≥ s.siteBegin r p
      · simp [p3]
      · simp [p3]

/-- **`canInsert` never overflows** on the domain -/
theorem canInsertC_ok {s : State} (h : s.DomC) {c r p : Int} (hc : s.LiveC c) (hr : s.validRow r)
    (hp : s.LinkC p) : s.canInsertC c r p = .ok (s.canInsert c r p) := by
  have hb := siteBeginC_ok h hr hp
  have he := siteEndC_ok h hr hp
  have := siteBegin_bounds h hr hp
  have := siteEnd_bounds h hr hp
  have e1 : subI32 "canInsert: siteEnd(row, pred) - siteBegin(row, pred)" (s.siteEnd r p) (s.siteBegin r p) =
      .ok (s.siteEnd r p - s.siteBegin r p) := chk32_ok' (by omega) (by omega)
  unfold canInsertC canInsert
  simp only [cellIdxC_ok hc.1, rowIdxC_ok hr, hb, he, e1, bind, Except.bind, pure, Except.pure]
  by_cases p1 : (!s.isPlaced c) = true
  · simp only [if_pos p1]
  · simp only [if_neg p1]
    by_cases p2 : c = p
    · simp only [if_pos p2]
    · simp only [if_neg p2]
      by_cases p3 : s.row c = r ∧ s.pred c = p
      · simp only [if_pos p3]
      · simp only [if_neg p3]
        by_cases p4 : (!s.isRowAllowed c r) = true
        · simp only [if_pos p4]
        · simp only [if_neg p4]


theorem canSwapTailC_ok {s : State} (h : s.DomC) (asr : Bool) {c1 c2 : Int} (h1 : s.LiveC c1) (h2 : s.LiveC c2)
    (r1 : s.row c1 ≠ -1) (r2 : s.row c2 ≠ -1) :
    s.canSwapTailC asr c1 c2 =
      .ok (if !s.isRowAllowed c1 (s.row c2) || !s.isRowAllowed c2 (s.row c1) then .ok false
           else if s.pred c1 = c2 ∨ s.pred c2 = c1 then .ok true
           else .ok (decide (s.boundaryAfter c2 - s.boundaryBefore c2 ≥ s.width c1) &&
                     decide (s.boundaryAfter c1 - s.boundaryBefore c1 ≥ s.width c2))) := by
  have hb1 := boundaryBeforeC_ok h asr h1 r1
  have hb2 := boundaryBeforeC_ok h asr h2 r2
  have ha1 := boundaryAfterC_ok h asr h1 r1
  have ha2 := boundaryAfterC_ok h asr h2 r2
  have := boundaryBefore_bounds h h1 r1
  have := boundaryBefore_bounds h h2 r2
  have := boundaryAfter_bounds h h1 r1
  have := boundaryAfter_bounds h h2 r2
  have e2 : subI32 "canSwap: e2 - b2" (s.boundaryAfter c2) (s.boundaryBefore c2) =
      .ok (s.boundaryAfter c2 - s.boundaryBefore c2) := chk32_ok' (by omega) (by omega)
  have e1 : subI32 "canSwap: e1 - b1" (s.boundaryAfter c1) (s.boundaryBefore c1) =
      .ok (s.boundaryAfter c1 - s.boundaryBefore c1) := chk32_ok' (by omega) (by omega)
  unfold canSwapTailC
  simp only [rowIdxC_ok (h.placedRow h1 r1), rowIdxC_ok (h.placedRow h2 r2), hb1, hb2, ha1, ha2, e1, e2,
    bind, Except.bind, pure, Except.pure]
  by_cases p1 : (!s.isRowAllowed c1 (s.row c2)) = true
  · simp [p1]
  · by_cases p2 : (!s.isRowAllowed c2 (s.row c1)) = true
    · simp [p1, p2]
    · simp only [if_neg p1, if_neg p2]
      have p12 : ¬ ((!s.isRowAllowed c1 (s.row c2) || !s.isRowAllowed c2 (s.row c1)) = true) := by
        simp only [Bool.or_eq_true]; exact fun hh => hh.elim p1 p2
      simp only [if_neg p12]
      by_cases p3 : s.pred c1 = c2 ∨ s.pred c2 = c1
      · simp only [if_pos p3]
      · simp only [if_neg p3]
        by_cases p4 : s.boundaryAfter c2 - s.boundaryBefore c2 ≥ s.width c1
        · simp [p4]
        · simp [p4]

/-- **`canSwap` never overflows, never trips `assert(isPlaced(c))`** on the domain -/
theorem canSwapC_ok {s : State} (h : s.DomC) (asr : Bool) {c1 c2 : Int} (h1 : s.LiveC c1) (h2 : s.LiveC c2) :
    s.canSwapC asr c1 c2 = .ok (s.canSwap c1 c2) := by
  unfold canSwapC canSwap
  simp only [cellIdxC_ok h1.1, cellIdxC_ok h2.1, bind, Except.bind, pure, Except.pure]
  by_cases p1 : (!s.isPlaced c1) = true
  · simp [p1]
  · by_cases p2 : (!s.isPlaced c2) = true
    · simp [p1, p2]
    · have p12 : ¬ ((!s.isPlaced c1 || !s.isPlaced c2) = true) := by
        simp only [Bool.or_eq_true]; exact fun hh => hh.elim p1 p2
      simp only [if_neg p1, if_neg p2, if_neg p12]
      by_cases p3 : c1 = c2
      · simp only [if_pos p3]
      · simp only [if_neg p3]
        have r1 : s.row c1 ≠ -1 := (isPlaced_iff s c1).1 (by simpa using p1)
        have r2 : s.row c2 ≠ -1 := (isPlaced_iff s c2).1 (by simpa using p2)
        exact canSwapTailC_ok h asr h1 h2 r1 r2

/-- **`positionOnInsert` never overflows** on the domain -/
theorem positionOnInsertC_ok {s : State} (h : s.DomC) {c r p : Int} (hc : s.LiveC c) (hr : s.validRow r)
    (hp : s.LinkC p) : s.positionOnInsertC c r p = .ok (s.positionOnInsert c r p) := by
  have hb := siteBeginC_ok h hr hp
  have he := siteEndC_ok h hr hp
  have := siteBegin_bounds h hr hp
  have := siteEnd_bounds h hr hp
  have := h.wLo c hc
  have := h.wHi hc
  have e1 : subI32 "positionOnInsert: siteEnd(row, pred) - cellWidth(c)" (s.siteEnd r p) (s.width c) =
      .ok (s.siteEnd r p - s.width c) := chk32_ok' (by omega) (by omega)
  have e2 : addI32 "positionOnInsert: (siteEnd(row, pred) - cellWidth(c)) + siteBegin(row, pred)"
      (s.siteEnd r p - s.width c) (s.siteBegin r p) = .ok (s.siteEnd r p - s.width c + s.siteBegin r p) :=
    chk32_ok' (by omega) (by omega)
  have e3 : divI32 "positionOnInsert: (…) / 2" (s.siteEnd r p - s.width c + s.siteBegin r p) 2 =
      .ok ((s.siteEnd r p - s.width c + s.siteBegin r p).tdiv 2) := divI32_two_ok (by omega) (by omega)
  simp only [positionOnInsertC, hb, he, cellIdxC_ok hc.1, rowIdxC_ok hr, e1, e2, e3, bind, Except.bind, pure,
    Except.pure, positionOnInsert]

/-- the abscissa `positionOnInsert` returns is within `[-2^23, 2^22]` -/
theorem positionOnInsert_bounds {s : State} (h : s.DomC) {c r p : Int} (hc : s.LiveC c) (hr : s.validRow r)
    (hp : s.LinkC p) :
    -8388608 ≤ (s.positionOnInsert c r p).1 ∧ (s.positionOnInsert c r p).1 ≤ 8388608 := by
  have := siteBegin_bounds h hr hp
  have := siteEnd_bounds h hr hp
  have := h.wLo c hc
  have := h.wHi hc
  have := tdiv2_bounds (v := s.siteEnd r p - s.width c + s.siteBegin r p) (A := 8388608) (by omega) (by omega)
  simpa [positionOnInsert] using this

theorem swapMidC_ok {s : State} (h : s.DomC) (asr : Bool) {c d : Int} (hc : s.LiveC c) (hd : s.LiveC d)
    (rc : s.row c ≠ -1) :
    s.swapMidC asr c d = .ok ((s.boundaryBefore c + s.boundaryAfter c - s.width d).tdiv 2) := by
  have hb := boundaryBeforeC_ok h asr hc rc
  have ha := boundaryAfterC_ok h asr hc rc
  have := boundaryBefore_bounds h hc rc
  have := boundaryAfter_bounds h hc rc
  have := h.wLo d hd
  have := h.wHi hd
  have e1 : addI32 "positionsOnSwap: boundaryBefore(c) + boundaryAfter(c)" (s.boundaryBefore c) (s.boundaryAfter c) =
      .ok (s.boundaryBefore c + s.boundaryAfter c) := chk32_ok' (by omega) (by omega)
  have e2 : subI32 "positionsOnSwap: (boundaryBefore(c) + boundaryAfter(c)) - cellWidth(c')"
      (s.boundaryBefore c + s.boundaryAfter c) (s.width d) = .ok (s.boundaryBefore c + s.boundaryAfter c - s.width d) :=
    chk32_ok' (by omega) (by omega)
  have e3 : divI32 "positionsOnSwap: (…) / 2" (s.boundaryBefore c + s.boundaryAfter c - s.width d) 2 =
      .ok ((s.boundaryBefore c + s.boundaryAfter c - s.width d).tdiv 2) := divI32_two_ok (by omega) (by omega)
  simp only [swapMidC, hb, ha, e1, e2, e3, bind, Except.bind]

theorem swapMid_bounds {s : State} (h : s.DomC) {c d : Int} (hc : s.LiveC c) (hd : s.LiveC d)
    (rc : s.row c ≠ -1) :
    -8388608 ≤ (s.boundaryBefore c + s.boundaryAfter c - s.width d).tdiv 2 ∧
    (s.boundaryBefore c + s.boundaryAfter c - s.width d).tdiv 2 ≤ 8388608 := by
  have := boundaryBefore_bounds h hc rc
  have := boundaryAfter_bounds h hc rc
  have := h.wLo d hd
  have := h.wHi hd
  exact tdiv2_bounds (by omega) (by omega)

/-- **`positionsOnSwap` never overflows, never trips `assert(isPlaced(c))`** on the domain -/
theorem positionsOnSwapC_ok {s : State} (h : s.DomC) (asr : Bool) {c1 c2 : Int} (h1 : s.LiveC c1) (h2 : s.LiveC c2)
    (r1 : s.row c1 ≠ -1) (r2 : s.row c2 ≠ -1) :
    s.positionsOnSwapC asr c1 c2 = .ok (s.positionsOnSwap c1 c2) := by
  have := h.xLo c1 h1
  have := h.xHi' h1
  have := h.wLo c1 h1
  have := h.wHi h1
  have := h.xLo c2 h2
  have := h.xHi' h2
  have := h.wLo c2 h2
  have := h.wHi h2
  have e1 : addI32 "positionsOnSwap: p2.x + cellWidth(c1)" (s.x c2) (s.width c1) = .ok (s.x c2 + s.width c1) :=
    chk32_ok' (by omega) (by omega)
  have e2 : addI32 "positionsOnSwap: p1.x + cellWidth(c2)" (s.x c1) (s.width c2) = .ok (s.x c1 + s.width c2) :=
    chk32_ok' (by omega) (by omega)
  unfold positionsOnSwapC positionsOnSwap
  simp only [cellIdxC_ok h1.1, cellIdxC_ok h2.1, e1, e2, swapMidC_ok h asr h2 h1 r2, swapMidC_ok h asr h1 h2 r1,
    bind, Except.bind, pure, Except.pure]
  by_cases p1 : s.pred c1 = c2
  · simp only [if_pos p1]
  · simp only [if_neg p1]
    by_cases p2 : s.pred c2 = c1
    · simp only [if_pos p2]
    · simp only [if_neg p2]

/-- the abscissas `positionsOnSwap` returns are within `[-2^23, 3·2^22]`, inside the domain of
`canPlaceC_ok` (`x2 = x(c2) + width(c1)` of the neighbour branch can exceed `2^23` only when the
cells overlap) -/
theorem positionsOnSwap_bounds {s : State} (h : s.DomC) {c1 c2 : Int} (h1 : s.LiveC c1) (h2 : s.LiveC c2)
    (r1 : s.row c1 ≠ -1) (r2 : s.row c2 ≠ -1) :
    (-8388608 ≤ (s.positionsOnSwap c1 c2).1.1 ∧ (s.positionsOnSwap c1 c2).1.1 ≤ 12582912) ∧
    (-8388608 ≤ (s.positionsOnSwap c1 c2).2.1 ∧ (s.positionsOnSwap c1 c2).2.1 ≤ 12582912) := by
  have := h.xLo c1 h1
  have := h.xHi' h1
  have := h.wLo c1 h1
  have := h.wHi h1
  have := h.xLo c2 h2
  have := h.xHi' h2
  have := h.wLo c2 h2
  have := h.wHi h2
  have m1 := swapMid_bounds h h2 h1 r2
  have m2 := swapMid_bounds h h1 h2 r1
  unfold positionsOnSwap
  by_cases p1 : s.pred c1 = c2
  · simp only [if_pos p1]; omega
  · simp only [if_neg p1]
    by_cases p2 : s.pred c2 = c1
    · simp only [if_pos p2]; omega
    · simp only [if_neg p2]; omega

/-- the shift acceptance test never overflows on the domain -/
theorem fitsInSiteC_ok {s : State} (h : s.DomC) (asr : Bool) {c : Int} (hc : s.LiveC c) (rc : s.row c ≠ -1) :
    s.fitsInSiteC asr c = .ok (s.fitsInSite c) := by
  have hb := boundaryBeforeC_ok h asr hc rc
  have ha := boundaryAfterC_ok h asr hc rc
  have := h.xLo c hc
  have := h.xHi c hc
  have := h.wLo c hc
  have e1 : addI32 "fitsInSite: cellX(c) + cellWidth(c)" (s.x c) (s.width c) = .ok (s.x c + s.width c) :=
    chk32_ok' (by omega) (by omega)
  unfold fitsInSiteC fitsInSite
  simp only [hb, ha, e1, bind, Except.bind, pure, Except.pure]
  by_cases p : s.boundaryBefore c ≤ s.x c
  · simp [p]
  · simp [p]


/-! ### the domain is preserved by the writes -/

theorem upd_prop {α : Type} {P : α → Prop} {f : Int → α} {i : Int} {a : α} {j : Int} (ha : P a) (hf : P (f j)) :
    P (upd f i a j) := by
  unfold upd; split <;> assumption

theorem updIf_prop {α : Type} {P : α → Prop} {b : Prop} [Decidable b] {f : Int → α} {i : Int} {a : α} {j : Int}
    (ha : P a) (hf : P (f j)) : P (updIf b f i a j) := by
  unfold updIf; split <;> assumption

/-- `unplace` keeps the domain (it only rewires links to values that were links already) -/
theorem unplace_DomC {s : State} (h : s.DomC) {c : Int} (hc : s.LiveC c) : (s.unplace c).DomC := by
  have hpc : s.LinkC (s.pred c) := h.predOk c hc
  have hnc : s.LinkC (s.next c) := h.nextOk c hc
  refine ⟨h.xLo, h.xHi, h.wLo, h.rowMin, h.rowMax, ?_, ?_, ?_, ?_⟩
  · intro d hd
    have hdp : s.LinkC (s.pred d) := h.predOk d hd
    show s.LinkC (updIf (s.next c ≠ -1) (upd s.pred c (-1)) (s.next c) (s.pred c) d)
    exact updIf_prop (P := s.LinkC) hpc (upd_prop (P := s.LinkC) (Or.inl rfl) hdp)
  · intro d hd
    have hdn : s.LinkC (s.next d) := h.nextOk d hd
    show s.LinkC (upd (updIf (s.pred c ≠ -1) s.next (s.pred c) (s.next c)) c (-1) d)
    exact upd_prop (P := s.LinkC) (Or.inl rfl) (updIf_prop (P := s.LinkC) hnc hdn)
  · intro r hr
    have hf : s.LinkC (s.rowFirst r) := h.firstOk r hr
    show s.LinkC (updIf (s.pred c = -1) s.rowFirst (s.row c) (s.next c) r)
    exact updIf_prop (P := s.LinkC) hnc hf
  · intro d hd
    have hrd : s.row d = -1 ∨ s.validRow (s.row d) := h.rowOk d hd
    show upd s.row c (-1) d = -1 ∨ s.validRow (upd s.row c (-1) d)
    exact upd_prop (P := fun v => v = -1 ∨ s.validRow v) (Or.inl rfl) hrd

/-- the writes of `place` keep the domain when the abscissa lies in the site:
`x ≥ siteBegin ≥ -2^22` and `x + w ≤ siteEnd ≤ 2^22` -/
theorem placeRaw_DomC {s : State} (h : s.DomC) {c r p x : Int} (hc : s.LiveC c) (hr : s.validRow r)
    (hp : s.LinkC p) (hx1 : s.siteBegin r p ≤ x) (hx2 : x + s.width c ≤ s.siteEnd r p) :
    (s.placeRaw c r p x).DomC := by
  have hb := siteBegin_bounds h hr hp
  have he := siteEnd_bounds h hr hp
  have hn : s.LinkC (s.siteNext r p) := siteNext_link h hr hp
  have hcl : s.LinkC c := Or.inr hc
  refine ⟨?_, ?_, h.wLo, h.rowMin, h.rowMax, ?_, ?_, ?_, ?_⟩
  · intro d hd
    have hdx : -M22 ≤ s.x d := h.xLo d hd
    show -M22 ≤ upd s.x c x d
    exact upd_prop (P := fun v => -M22 ≤ v) (by omega) hdx
  · intro d hd
    have hdx : s.x d + s.width d ≤ M22 := h.xHi d hd
    show upd s.x c x d + s.width d ≤ M22
    unfold upd
    split
    · rename_i e; subst e; omega
    · exact hdx
  · intro d hd
    have hdp : s.LinkC (s.pred d) := h.predOk d hd
    show s.LinkC (updIf (s.siteNext r p ≠ -1) (upd s.pred c p) (s.siteNext r p) c d)
    exact updIf_prop (P := s.LinkC) hcl (upd_prop (P := s.LinkC) hp hdp)
  · intro d hd
    have hdn : s.LinkC (s.next d) := h.nextOk d hd
    show s.LinkC (upd (updIf (p ≠ -1) s.next p c) c (s.siteNext r p) d)
    exact upd_prop (P := s.LinkC) hn (updIf_prop (P := s.LinkC) hcl hdn)
  · intro q hq
    have hf : s.LinkC (s.rowFirst q) := h.firstOk q hq
    show s.LinkC (updIf (p = -1) s.rowFirst r c q)
    exact updIf_prop (P := s.LinkC) hcl hf
  · intro d hd
    have hrd : s.row d = -1 ∨ s.validRow (s.row d) := h.rowOk d hd
    show upd s.row c r d = -1 ∨ s.validRow (upd s.row c r d)
    exact upd_prop (P := fun v => v = -1 ∨ s.validRow v) (Or.inr hr) hrd

/-- **a successful `place` keeps the domain** -/
theorem place_DomC {s t : State} (h : s.DomC) {c r p x : Int} (hc : s.LiveC c) (hr : s.validRow r)
    (hp : s.LinkC p) (e : s.place c r p x = .ok t) : t.DomC := by
  obtain ⟨rfl, -, h1, h2⟩ := place_ok e
  exact placeRaw_DomC h hc hr hp h1 h2

theorem place2_DomC {s t : State} (h : s.DomC) {a ra pa xa b rb pb xb : Int}
    (ha : s.LiveC a) (hra : s.validRow ra) (hpa : s.LinkC pa)
    (hb : s.LiveC b) (hrb : s.validRow rb) (hpb : s.LinkC pb)
    (e : (s.place a ra pa xa).bind (fun u => u.place b rb pb xb) = .ok t) : t.DomC := by
  obtain ⟨u, e1, e2⟩ := bind_ok e
  have hu := place_DomC h ha hra hpa e1
  obtain ⟨rfl, -⟩ := place_ok e1
  exact place_DomC hu hb hrb hpb e2

/-- **a successful `insert` keeps the domain** -/
theorem insert_DomC {s t : State} (h : s.DomC) {c r p : Int} (hc : s.LiveC c) (hr : s.validRow r)
    (hp : s.LinkC p) (e : s.insert c r p = .ok t) : t.DomC := by
  unfold State.insert at e
  split at e
  · cases e
  · cases e
  · exact place_DomC (unplace_DomC h hc) hc hr hp e

/-- **a successful `swap` keeps the domain** -/
theorem swap_DomC {s t : State} (h : s.DomC) {c1 c2 : Int} (h1 : s.LiveC c1) (h2 : s.LiveC c2)
    (e : s.swap c1 c2 = .ok t) : t.DomC := by
  unfold State.swap at e
  split at e
  · cases e
  · cases e
  · rename_i hcan
    obtain ⟨r1, r2, -⟩ := canSwap_true hcan
    have hu : ((s.unplace c1).unplace c2).DomC := unplace_DomC (unplace_DomC h h1) h2
    have hr1 : s.validRow (s.row c1) := h.placedRow h1 r1
    have hr2 : s.validRow (s.row c2) := h.placedRow h2 r2
    have hp1 : s.LinkC (s.pred c1) := h.predOk c1 h1
    have hp2 : s.LinkC (s.pred c2) := h.predOk c2 h2
    by_cases q1 : s.pred c1 = c2
    · rw [if_pos q1] at e
      exact place2_DomC hu h1 hr2 hp2 h2 hr1 (Or.inr h1) e
    · rw [if_neg q1] at e
      by_cases q2 : s.pred c2 = c1
      · rw [if_pos q2] at e
        exact place2_DomC hu h2 hr1 hp1 h1 hr2 (Or.inr h2) e
      · rw [if_neg q2] at e
        exact place2_DomC hu h1 hr2 hp2 h2 hr1 hp1 e

/-! ### checked = unchecked: the moves -/

theorem place_eq_placeK (s : State) (c r p x : Int) :
    s.place c r p x = s.placeK c r p x (s.canPlace c r p x) := by
  unfold place
  cases s.canPlace c r p x with
  | error e => rfl
  | ok b => cases b <;> rfl

/-- **`place` never faults** on the domain (`x` up to `INT_MAX - 2^23`) -/
theorem placeC_ok {s : State} (h : s.DomC) {c r p x : Int} (hc : s.LiveC c) (hr : s.validRow r)
    (hp : s.LinkC p) (hx1 : -2147483648 ≤ x) (hx2 : x ≤ 2139095039) :
    s.placeC c r p x = .ok (s.place c r p x) := by
  simp only [placeC, canPlaceC_ok h hc hr hp hx1 hx2, bind, Except.bind, pure, Except.pure, place_eq_placeK]

/-- **`unplace` of a placed optimised cell writes inside its vectors** -/
theorem unplaceC_ok {s : State} (h : s.DomC) {c : Int} (hc : s.LiveC c) (hp : s.row c ≠ -1) :
    s.unplaceC c = .ok (s.unplace c) := by
  have hrow := h.placedRow hc hp
  unfold unplaceC
  have e1 : (if s.pred c = -1 then s.rowIdxC "unplace: rowFirstCell_[row]" (s.row c)
      else s.cellIdxC "unplace: cellNext_[pred]" (s.pred c)) = .ok () := by
    by_cases e : s.pred c = -1
    · rw [if_pos e]; exact rowIdxC_ok hrow
    · rw [if_neg e]; exact cellIdxC_ok ((h.predOk c hc).resolve_left e).1
  have e2 : (if s.next c = -1 then s.rowIdxC "unplace: rowLastCell_[row]" (s.row c)
      else s.cellIdxC "unplace: cellPred_[next]" (s.next c)) = .ok () := by
    by_cases e : s.next c = -1
    · rw [if_pos e]; exact rowIdxC_ok hrow
    · rw [if_neg e]; exact cellIdxC_ok ((h.nextOk c hc).resolve_left e).1
  simp only [cellIdxC_ok hc.1, e1, e2, bind, Except.bind, pure, Except.pure]

theorem place2C_ok {s : State} (h : s.DomC) {a ra pa xa b rb pb xb : Int}
    (ha : s.LiveC a) (hra : s.validRow ra) (hpa : s.LinkC pa) (hxa1 : -2147483648 ≤ xa) (hxa2 : xa ≤ 2139095039)
    (hb : s.LiveC b) (hrb : s.validRow rb) (hpb : s.LinkC pb) (hxb1 : -2147483648 ≤ xb) (hxb2 : xb ≤ 2139095039) :
    s.place2C a ra pa xa b rb pb xb = .ok ((s.place a ra pa xa).bind fun u => u.place b rb pb xb) := by
  unfold place2C
  rw [placeC_ok h ha hra hpa hxa1 hxa2]
  cases e1 : s.place a ra pa xa with
  | error e => rfl
  | ok u =>
    have hu := place_DomC h ha hra hpa e1
    obtain ⟨rfl, -⟩ := place_ok e1
    exact placeC_ok hu hb hrb hpb hxb1 hxb2

/-- **`insert` never faults** on the domain: checked `insert` = the unbounded `insert` -/
theorem insertC_ok {s : State} (h : s.DomC) {c r p : Int} (hc : s.LiveC c) (hr : s.validRow r)
    (hp : s.LinkC p) : s.insertC c r p = .ok (s.insert c r p) := by
  unfold insertC State.insert
  rw [canInsertC_ok h hc hr hp]
  cases e : s.canInsert c r p with
  | error er => rfl
  | ok b =>
    cases b with
    | false => rfl
    | true =>
      obtain ⟨hpl, -⟩ := canInsert_true e
      have hx := positionOnInsert_bounds h hc hr hp
      have hu : (s.unplace c).DomC := unplace_DomC h hc
      have e3 : (s.unplace c).placeC c r p (s.positionOnInsert c r p).1 =
          .ok ((s.unplace c).place c r p (s.positionOnInsert c r p).1) :=
        placeC_ok hu hc hr hp (by omega) (by omega)
      simp only [insertBodyC, positionOnInsertC_ok h hc hr hp, unplaceC_ok h hc hpl, e3, bind, Except.bind]

/-- **`swap` never faults** on the domain: checked `swap` = the unbounded `swap` -/
theorem swapC_ok {s : State} (h : s.DomC) (asr : Bool) {c1 c2 : Int} (h1 : s.LiveC c1) (h2 : s.LiveC c2) :
    s.swapC asr c1 c2 = .ok (s.swap c1 c2) := by
  unfold swapC State.swap
  rw [canSwapC_ok h asr h1 h2]
  cases e : s.canSwap c1 c2 with
  | error er => rfl
  | ok b =>
    cases b with
    | false => rfl
    | true =>
      obtain ⟨r1, r2, h12, -⟩ := canSwap_true e
      obtain ⟨⟨x1a, x1b⟩, ⟨x2a, x2b⟩⟩ := positionsOnSwap_bounds h h1 h2 r1 r2
      have hu1 : (s.unplace c1).DomC := unplace_DomC h h1
      have hu : ((s.unplace c1).unplace c2).DomC := unplace_DomC hu1 h2
      have r2' : (s.unplace c1).row c2 ≠ -1 := by
        rw [unplace_row, if_neg (Ne.symm h12)]; exact r2
      have hr1 : s.validRow (s.row c1) := h.placedRow h1 r1
      have hr2 : s.validRow (s.row c2) := h.placedRow h2 r2
      have hp1 : s.LinkC (s.pred c1) := h.predOk c1 h1
      have hp2 : s.LinkC (s.pred c2) := h.predOk c2 h2
      have eu2 : (s.unplace c1).unplaceC c2 = .ok ((s.unplace c1).unplace c2) := unplaceC_ok hu1 h2 r2'
      simp only [swapBodyC, positionsOnSwapC_ok h asr h1 h2 r1 r2, unplaceC_ok h h1 r1, eu2, bind, Except.bind]
      by_cases q1 : s.pred c1 = c2
      · simp only [if_pos q1]
        exact place2C_ok hu h1 hr2 hp2 (by omega) (by omega) h2 hr1 (Or.inr h1) (by omega) (by omega)
      · simp only [if_neg q1]
        by_cases q2 : s.pred c2 = c1
        · simp only [if_pos q2]
          exact place2C_ok hu h2 hr1 hp1 (by omega) (by omega) h1 hr2 (Or.inr h2) (by omega) (by omega)
        · simp only [if_neg q2]
          exact place2C_ok hu h1 hr2 hp2 (by omega) (by omega) h2 hr1 hp1 (by omega) (by omega)


/-! ### `check()` and the constructor -/

namespace State
/-- the predecessor tests of `checkCell` -/
def checkPred (s : State) (c : Int) : Bool :=
  if s.pred c ≠ -1 then s.row (s.pred c) == s.row c && decide (s.x (s.pred c) + s.width (s.pred c) ≤ s.x c)
  else s.rowFirst (s.row c) == c && decide (s.rowMinX (s.row c) ≤ s.x c)
/-- the successor tests of `checkCell` -/
def checkNext (s : State) (c : Int) : Bool :=
  if s.next c ≠ -1 then s.row (s.next c) == s.row c && decide (s.x c + s.width c ≤ s.x (s.next c))
  else s.rowLast (s.row c) == c && decide (s.x c + s.width c ≤ s.rowMaxX (s.row c))
end State

theorem checkCell_eq (s : State) (c : Int) :
    s.checkCell c = (decide (-1 ≤ s.row c ∧ s.row c < s.nRows) &&
      (if s.row c = -1 then s.pred c == -1 && s.next c == -1 else s.checkPred c && s.checkNext c)) := rfl

theorem checkPredC_ok {s : State} (h : s.DomC) {c : Int} (hc : s.LiveC c) (hp : s.row c ≠ -1) :
    s.checkPredC c = .ok (s.checkPred c) := by
  unfold checkPredC checkPred
  by_cases e : s.pred c ≠ -1
  · have hl : s.LiveC (s.pred c) := (h.predOk c hc).resolve_left e
    have := h.xLo _ hl
    have := h.xHi _ hl
    have := h.wLo _ hl
    have e1 : addI32 "check: cellX(pc) + cellWidth(pc)" (s.x (s.pred c)) (s.width (s.pred c)) =
        .ok (s.x (s.pred c) + s.width (s.pred c)) := chk32_ok' (by omega) (by omega)
    simp only [if_pos e, cellIdxC_ok hl.1, e1, bind, Except.bind, pure, Except.pure]
    by_cases q : (s.row (s.pred c) == s.row c) = true
    · simp [q]
    · simp [q]
  · simp only [if_neg e, rowIdxC_ok (h.placedRow hc hp), bind, Except.bind, pure, Except.pure]

theorem checkNextC_ok {s : State} (h : s.DomC) {c : Int} (hc : s.LiveC c) (hp : s.row c ≠ -1) :
    s.checkNextC c = .ok (s.checkNext c) := by
  have := h.xLo c hc
  have := h.xHi c hc
  have := h.wLo c hc
  have e1 : addI32 "check: cellX(i) + cellWidth(i) [successor]" (s.x c) (s.width c) = .ok (s.x c + s.width c) :=
    chk32_ok' (by omega) (by omega)
  have e2 : addI32 "check: cellX(i) + cellWidth(i) [row end]" (s.x c) (s.width c) = .ok (s.x c + s.width c) :=
    chk32_ok' (by omega) (by omega)
  unfold checkNextC checkNext
  by_cases e : s.next c ≠ -1
  · have hl : s.LiveC (s.next c) := (h.nextOk c hc).resolve_left e
    simp only [if_pos e, cellIdxC_ok hl.1, e1, bind, Except.bind, pure, Except.pure]
    by_cases q : (s.row (s.next c) == s.row c) = true
    · simp [q]
    · simp [q]
  · simp only [if_neg e, rowIdxC_ok (h.placedRow hc hp), e2, bind, Except.bind, pure, Except.pure]
    by_cases q : (s.rowLast (s.row c) == c) = true
    · simp [q]
    · simp [q]

/-- **the second loop of `check()` never overflows** on the domain (every cell: an ignored cell is
never placed, so no arithmetic is evaluated for it) -/
theorem checkCellC_ok {s : State} (h : s.DomC) {c : Int} (hc : s.validCell c)
    (hl : s.width c ≠ -1 ∨ s.row c = -1) : s.checkCellC c = .ok (s.checkCell c) := by
  rw [checkCell_eq]
  unfold checkCellC
  simp only [cellIdxC_ok hc, bind, Except.bind, pure, Except.pure]
  by_cases p0 : -1 ≤ s.row c ∧ s.row c < s.nRows
  · by_cases p1 : s.row c = -1
    · simp only [if_pos p0, if_pos p1, decide_eq_true p0, Bool.true_and]
    · have hlc : s.LiveC c := ⟨hc, hl.resolve_right p1⟩
      simp only [if_pos p0, if_neg p1, checkPredC_ok h hlc p1, checkNextC_ok h hlc p1]
      cases s.checkPred c <;> simp [p0]
  · simp [p0]

/-- **the row tests of the constructor never overflow** for `|x| ≤ 2^22`, `|w| ≤ 2^23` -/
theorem locateC_ok (rows : List Row) {x y w : Int} (hx1 : -M22 ≤ x) (hx2 : x ≤ M22)
    (hw1 : -8388608 ≤ w) (hw2 : w ≤ 8388608) : locateC rows x y w = .ok (locate rows x y w) := by
  have e1 : addI32 "DetailedPlacement: x + width[i]" x w = .ok (x + w) := chk32_ok' (by omega) (by omega)
  unfold locateC locate
  cases findRow rows x y with
  | none => rfl
  | some r =>
    simp only [e1, bind, Except.bind, pure, Except.pure]
    by_cases q1 : (rows.getD r default).rect.minY ≠ y
    · simp only [if_pos q1]
    · simp only [if_neg q1]
      by_cases q2 : (rows.getD r default).rect.minX > x
      · simp only [if_pos q2]
      · simp only [if_neg q2]

/-- **the overlap test of the constructor never overflows** when every cell of the row list has
`|x| ≤ 2^22`, `|w| ≤ 2^23` -/
theorem linkRowC_ok : ∀ (l : List Int) (s : State) (r : Int),
    (∀ c ∈ l, -M22 ≤ s.x c ∧ s.x c ≤ M22 ∧ -8388608 ≤ s.width c ∧ s.width c ≤ 8388608) →
    linkRowC s r l = .ok (linkRow s r l) := by
  intro l
  induction l with
  | nil => intro s r _; rfl
  | cons c1 t ih =>
    intro s r hl
    cases t with
    | nil => rfl
    | cons c2 rest =>
      have hb := hl c1 (by simp)
      have e1 : addI32 "DetailedPlacement: cellX_[c1] + cellWidth_[c1]" (s.x c1) (s.width c1) =
          .ok (s.x c1 + s.width c1) := chk32_ok' (by omega) (by omega)
      simp only [linkRowC, linkRow, e1]
      by_cases q : s.x c1 + s.width c1 > s.x c2
      · simp only [if_pos q]
      · simp only [if_neg q]
        exact ih _ r (fun c hc => hl c (List.mem_cons_of_mem _ hc))

/-! ### beyond the domain the checked model faults (`decide`d witnesses) -/

/-- two cells in one row, cell 0 at `INT_MAX` with width 1 (outside the C07 domain) -/
def farState : State :=
  { rows := [⟨⟨0, 100, 0, 10⟩, Orient.N⟩], nCells := 2,
    rowFirst := fun _ => 0, rowLast := fun _ => 1, width := fun _ => 1,
    pred := fun c => if c = 1 then 0 else -1, next := fun c => if c = 0 then 1 else -1,
    row := fun _ => 0, x := fun c => if c = 0 then 2147483647 else 0, y := fun _ => 0,
    orient := fun _ => Orient.N, pol := fun _ => Polarity.ANY, index := fun c => c }

/-- `siteBegin(0, 0)` = `cellX(0) + cellWidth(0)` = `INT_MAX + 1` overflows -/
theorem siteBeginC_far :
    farState.siteBeginC 0 0 = .error (.intOverflow "siteBegin: cellX(pred) + cellWidth(pred)") := by decide

theorem boundaryBeforeC_far :
    farState.boundaryBeforeC true 1 = .error (.intOverflow "boundaryBefore: cellX(pred) + cellWidth(pred)") := by
  decide

theorem positionOnInsertC_far :
    farState.positionOnInsertC 1 0 0 = .error (.intOverflow "siteBegin: cellX(pred) + cellWidth(pred)") := by decide

/-- two rows `[-2·10^9, 2·10^9]` (outside the domain), cell 0 alone in row 0, cell 1 unplaced -/
def wideState : State :=
  { rows := [⟨⟨-2000000000, 2000000000, 0, 10⟩, Orient.N⟩, ⟨⟨-2000000000, 2000000000, 10, 20⟩, Orient.N⟩],
    nCells := 2,
    rowFirst := fun r => if r = 0 then 0 else -1, rowLast := fun r => if r = 0 then 0 else -1,
    width := fun _ => 1, pred := fun _ => -1, next := fun _ => -1,
    row := fun c => if c = 0 then 0 else -1, x := fun _ => 0, y := fun _ => 0,
    orient := fun _ => Orient.N, pol := fun _ => Polarity.ANY, index := fun c => c }

/-- `siteEnd - siteBegin` = `2·10^9 - (-2·10^9)` overflows in `canInsert` into the empty row 1 -/
theorem canInsertC_wide :
    wideState.canInsertC 0 1 (-1) =
      .error (.intOverflow "canInsert: siteEnd(row, pred) - siteBegin(row, pred)") := by
  decide

/-- an out-of-range cell index is a fault, an unplaced argument of `boundaryBefore` an assertion
failure (only in a build with assertions) -/
theorem siteBeginC_badIndex :
    farState.siteBeginC 0 7 = .error (.indexOutOfRange "siteBegin: cellX(pred)") := by decide

theorem boundaryBeforeC_unplaced :
    wideState.boundaryBeforeC true 1 = .error (.assertFailed "boundaryBefore: assert(isPlaced(c))") ∧
    wideState.boundaryBeforeC false 1 = .error (.indexOutOfRange "boundaryBefore: rows_[cellRow(c)]") := by
  decide

/-! ### non-vacuity -/

/-- two abutting cells of width 10 in the row `[0, 100]` -/
def smallState : State :=
  { rows := [⟨⟨0, 100, 0, 10⟩, Orient.N⟩], nCells := 2,
    rowFirst := fun _ => 0, rowLast := fun _ => 1, width := fun _ => 10,
    pred := fun c => if c = 1 then 0 else -1, next := fun c => if c = 0 then 1 else -1,
    row := fun _ => 0, x := fun c => if c = 0 then 0 else 10, y := fun _ => 0,
    orient := fun _ => Orient.N, pol := fun _ => Polarity.ANY, index := fun c => c }

theorem smallState_cells {c : Int} (hc : smallState.LiveC c) : c = 0 ∨ c = 1 := by
  have := hc.1
  unfold validCell smallState at this
  simp only at this
  omega

theorem smallState_rows {r : Int} (hr : smallState.validRow r) : r = 0 := by
  unfold validRow nRows smallState at hr
  simp only [List.length_cons, List.length_nil] at hr
  omega

theorem smallState_live0 : smallState.LiveC 0 := by
  refine ⟨?_, ?_⟩ <;> decide
theorem smallState_live1 : smallState.LiveC 1 := by
  refine ⟨?_, ?_⟩ <;> decide

theorem smallState_DomC : smallState.DomC := by
  refine ⟨?_, ?_, ?_, ?_, ?_, ?_, ?_, ?_, ?_⟩
  · intro c hc; rcases smallState_cells hc with rfl | rfl <;> decide
  · intro c hc; rcases smallState_cells hc with rfl | rfl <;> decide
  · intro c hc; rcases smallState_cells hc with rfl | rfl <;> decide
  · intro r hr; rw [smallState_rows hr]; decide
  · intro r hr; rw [smallState_rows hr]; decide
  · intro c hc
    rcases smallState_cells hc with rfl | rfl
    · exact Or.inl (by decide)
    · exact Or.inr smallState_live0
  · intro c hc
    rcases smallState_cells hc with rfl | rfl
    · exact Or.inr smallState_live1
    · exact Or.inl (by decide)
  · intro r hr; exact Or.inr smallState_live0
  · intro c hc; rcases smallState_cells hc with rfl | rfl <;> exact Or.inr (by decide)

/-- the hypotheses of `swapC_ok` / `insertC_ok` are satisfiable and the moves are carried out -/
example : ∃ t, smallState.swapC true 0 1 = .ok (.ok t) ∧ t.x 0 = 10 ∧ t.x 1 = 0 := by
  rw [swapC_ok smallState_DomC true smallState_live0 smallState_live1]
  exact ⟨_, rfl, by decide, by decide⟩


end ColoVerif.DetPlace
