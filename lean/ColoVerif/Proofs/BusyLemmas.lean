import ColoVerif.Model.Busy
/-
Generic lemmas about the IR semantics of `Model/Busy.lean`: each turns a decidable syntactic
condition on a statement list (checked by `decide` on the generated tables in `Properties/`) into
a statement about every execution.
-/
namespace ColoVerif.Busy
open ColoVerif.ApiIR

/-- If only `throwIf`s precede `checkNotInUse`, a busy circuit makes the function throw with the
state untouched, whatever the arguments. -/
theorem exec_guardFirst (oc : String → St → Res) (env : Env) :
    ∀ (body : List Stmt) (st : St), guardFirst body = true → st.inUse = true →
      exec oc env body st = ⟨.thrown, st, []⟩ := by
  intro body
  induction body with
  | nil => intro st h; simp [guardFirst] at h
  | cons s rest ih =>
    intro st h hu
    cases s with
    | checkNotInUse => simp [exec, hu]
    | throwIf c =>
      simp only [guardFirst] at h
      by_cases hc : Cond.eval env 0 c = true
      · simp [exec, hc]
      · simp [exec, hc, ih st h hu]
    | _ => simp [guardFirst] at h

/-- the body starts by taking the re-entrant guard -/
def restoringFirst : List Stmt → Bool
  | .restoreGuard :: _ => true
  | _ => false

/-- A body that starts by taking a scope guard of either kind ends with the flag cleared if it was
clear on entry, whatever happens inside. -/
theorem exec_guardedFirst (oc : String → St → Res) (env : Env) (body : List Stmt) (st : St)
    (h : guardedFirst body = true) (h0 : st.inUse = false) : (exec oc env body st).st.inUse = false := by
  cases body with
  | nil => simp [guardedFirst] at h
  | cons s rest =>
    cases s with
    | scopeGuard => simp [exec, Res.release]
    | restoreGuard => simp [exec, Res.restore, h0]
    | _ => simp [guardedFirst] at h

/-- A body that starts by taking the re-entrant guard ends with the flag as it was on entry,
whatever happens inside. -/
theorem exec_restoringFirst (oc : String → St → Res) (env : Env) (body : List Stmt) (st : St)
    (h : restoringFirst body = true) : (exec oc env body st).st.inUse = st.inUse := by
  cases body with
  | nil => simp [restoringFirst] at h
  | cons s rest =>
    cases s with
    | restoreGuard => simp [exec, Res.restore]
    | _ => simp [restoringFirst] at h

/-- If one of the conditions tested before the first write/return/call holds, the function throws
with the state untouched. -/
theorem exec_preConds (oc : String → St → Res) (env : Env) :
    ∀ (body : List Stmt) (st : St), (∃ c ∈ preConds body, Cond.eval env 0 c = true) →
      exec oc env body st = ⟨.thrown, st, []⟩ := by
  intro body
  induction body with
  | nil => intro st h; simp [preConds] at h
  | cons s rest ih =>
    intro st h
    cases s with
    | throwIf c =>
      by_cases hc : Cond.eval env 0 c = true
      · simp [exec, hc]
      · obtain ⟨c', hm, he⟩ := h
        simp only [preConds, List.mem_cons] at hm
        rcases hm with rfl | hm
        · exact absurd he hc
        · simp [exec, hc, ih st ⟨c', hm, he⟩]
    | checkNotInUse =>
      by_cases hu : st.inUse = true
      · simp [exec, hu]
      · obtain ⟨c', hm, he⟩ := h
        simp only [preConds] at hm
        simp [exec, hu, ih st ⟨c', hm, he⟩]
    | _ => simp [preConds] at h

/-! ### the in-use flag is not touched by flag-free bodies -/

/-- no statement of the body sets or guards the flag, calls out, or asserts -/
def flagFree : List Stmt → Bool
  | [] => true
  | .setInUse _ :: _ => false
  | .scopeGuard :: _ => false
  | .restoreGuard :: _ => false
  | .call _ :: _ => false
  | _ :: rest => flagFree rest

theorem exec_flagFree (oc : String → St → Res) (env : Env) :
    ∀ (body : List Stmt) (st : St), flagFree body = true → (exec oc env body st).st.inUse = st.inUse := by
  intro body
  induction body with
  | nil => intro st _; simp [exec]
  | cons s rest ih =>
    intro st h
    cases s with
    | throwIf c => simp only [flagFree] at h; by_cases hc : Cond.eval env 0 c = true <;> simp [exec, hc, ih st h]
    | returnIf c => simp only [flagFree] at h; by_cases hc : Cond.eval env 0 c = true <;> simp [exec, hc, ih st h]
    | checkNotInUse => simp only [flagFree] at h; by_cases hu : st.inUse = true <;> simp [exec, hu, ih st h]
    | assign m => simp only [flagFree] at h; simp [exec, ih _ h]
    | setInUse b => simp [flagFree] at h
    | call f => simp [flagFree] at h
    | scopeGuard => simp [flagFree] at h
    | restoreGuard => simp [flagFree] at h
    | ret => simp [exec]
    | assertC c => simp only [flagFree] at h; by_cases hc : Cond.eval env 0 c = true <;> simp [exec, hc, ih st h]
    | paramsCheck => simp only [flagFree] at h; simp [exec, ih st h]
    | pure w => simp only [flagFree] at h; simp [exec, ih st h]

theorem runSetter_flag (tbl : List FnDef) (hff : ∀ f ∈ tbl, flagFree f.body = true) (sc : SetterCall) (st : St) :
    (runSetter tbl sc st).st.inUse = st.inUse := by
  unfold runSetter
  cases hl : lookup tbl sc.name with
  | none => simp
  | some f =>
    have hm : f ∈ tbl := by
      unfold lookup at hl
      exact List.mem_of_find?_eq_some hl
    simpa using exec_flagFree noCall sc.env f.body st (hff f hm)

theorem andThen_flag (r : Res) (k : St → Res) (b : Bool) (h1 : r.st.inUse = b)
    (h2 : ∀ s, s.inUse = b → (k s).st.inUse = b) : (r.andThen k).st.inUse = b := by
  unfold Res.andThen
  split
  · simpa using h2 r.st h1
  · exact h1

theorem absorbThen_flag (r : Res) (line : String) (k : St → Res) (b : Bool) (h1 : r.st.inUse = b)
    (h2 : ∀ s, s.inUse = b → (k s).st.inUse = b) : (r.absorbThen line k).st.inUse = b := by
  unfold Res.absorbThen
  split
  · exact h1
  · exact h1
  · simpa using h2 r.st h1

theorem lookup_mem (tbl : List FnDef) (n : String) (f : FnDef) (h : lookup tbl n = some f) : f ∈ tbl := by
  unfold lookup at h
  exact List.mem_of_find?_eq_some h

/-- A call of a function that takes the re-entrant guard first leaves the flag as it was, whatever
its stage does. -/
theorem runCall_flag (pcs : List FnDef) (hpc : ∀ f ∈ pcs, restoringFirst f.body = true) (name : String)
    (stage : St → Res) (st : St) : (runCall pcs name stage st).st.inUse = st.inUse := by
  unfold runCall
  cases hl : lookup pcs name with
  | none => simp
  | some f => simpa using exec_restoringFirst _ emptyEnv f.body st (hpc f (lookup_mem pcs name f hl))

/-- The flag is the same after any trace of callbacks, setters and nested placement calls (to any
depth) as before it. -/
theorem runTr_flag (tbl pcs : List FnDef) (hff : ∀ f ∈ tbl, flagFree f.body = true)
    (hpc : ∀ f ∈ pcs, restoringFirst f.body = true) :
    ∀ (t : Tr) (st : St), (runTr tbl pcs t st).st.inUse = st.inUse := by
  intro t
  induction t with
  | done thr => intro st; simp [runTr]
  | setter sc k ih =>
    intro st
    simp only [runTr]
    exact absorbThen_flag _ _ _ _ (runSetter_flag tbl hff sc st) (fun s hs => by rw [ih s, hs])
  | nested name inner k _ ih =>
    intro st
    simp only [runTr]
    exact absorbThen_flag _ _ _ _ (runCall_flag pcs hpc name _ st) (fun s hs => by rw [ih s, hs])
  | cbEnd thr k ih =>
    intro st
    by_cases ht : thr = true
    · simp [runTr, ht]
    · simp [runTr, ht, ih st]

/-! ### a guarded placement call propagates the exception of its stage -/

/-- the body is exactly `guard; call stage` (a guard of either kind) -/
def guardedCall : List Stmt → Bool
  | [.scopeGuard, .call _] => true
  | [.restoreGuard, .call _] => true
  | _ => false

/-- the body is exactly `re-entrant guard; call stage` -/
def restoringCall : List Stmt → Bool
  | [.restoreGuard, .call _] => true
  | _ => false

theorem guardedCall_shape (b : List Stmt) (h : guardedCall b = true) :
    ∃ n, b = [.scopeGuard, .call n] ∨ b = [.restoreGuard, .call n] := by
  unfold guardedCall at h
  split at h
  · exact ⟨_, Or.inl rfl⟩
  · exact ⟨_, Or.inr rfl⟩
  · simp at h

theorem restoringCall_shape (b : List Stmt) (h : restoringCall b = true) : ∃ n, b = [.restoreGuard, .call n] := by
  unfold restoringCall at h
  split at h
  · exact ⟨_, rfl⟩
  · simp at h

theorem restoringCall_first (b : List Stmt) (h : restoringCall b = true) : restoringFirst b = true := by
  obtain ⟨n, rfl⟩ := restoringCall_shape b h
  rfl

theorem restoringCall_guarded (b : List Stmt) (h : restoringCall b = true) : guardedCall b = true := by
  obtain ⟨n, rfl⟩ := restoringCall_shape b h
  rfl

theorem andThen_out_ne_normal (r : Res) (k : St → Res) (hk : ∀ s, (k s).out ≠ .normal) :
    (r.andThen k).out ≠ .normal := by
  unfold Res.andThen
  split
  · simpa using hk r.st
  · rename_i h
    intro h'
    exact h h'

theorem andThen_of_ne_normal (r : Res) (k : St → Res) (h : r.out ≠ .normal) : r.andThen k = r := by
  unfold Res.andThen
  split
  · rename_i h'; exact absurd h' h
  · rfl

theorem andThen_out_of_normal (r : Res) (k : St → Res) (h : r.out = .normal) : (r.andThen k).out = (k r.st).out := by
  unfold Res.andThen
  simp [h]

/-- a call statement at the end of a body: the result is the callee's -/
theorem andThen_done (r : Res) : r.andThen (fun s => (⟨.normal, s, []⟩ : Res)) = r := by
  unfold Res.andThen
  split
  · rename_i h
    cases r
    simp_all
  · rfl

/-- The stage of a `guard; call` body runs with the flag set and the call ends as the stage does. -/
theorem exec_guardedCall_out (oc : String → St → Res) (env : Env) (b : List Stmt) (h : guardedCall b = true) (st : St) :
    ∃ n, (exec oc env b st).out = (oc n { st with inUse := true }).out := by
  obtain ⟨n, hb | hb⟩ := guardedCall_shape b h <;> subst hb
  · exact ⟨n, by simp [exec, Res.release, andThen_done]⟩
  · exact ⟨n, by simp [exec, Res.restore, andThen_done]⟩

/-- A re-entrant placement call = run the stage with the flag set, then put the flag back. -/
theorem exec_restoringCall (oc : String → St → Res) (env : Env) (b : List Stmt) (h : restoringCall b = true) (st : St) :
    ∃ n, exec oc env b st = (oc n { st with inUse := true }).restore st.inUse := by
  obtain ⟨n, rfl⟩ := restoringCall_shape b h
  exact ⟨n, by simp [exec, andThen_done]⟩

/-- every way through the trace that reaches the end of the stage finds it throwing -/
def Tr.endsThrowing : Tr → Bool
  | .done thr => thr
  | .setter _ k => k.endsThrowing
  | .nested _ _ k => k.endsThrowing
  | .cbEnd thr k => thr || k.endsThrowing

theorem absorbThen_out_ne_normal (r : Res) (line : String) (k : St → Res) (hk : ∀ s, (k s).out ≠ .normal) :
    (r.absorbThen line k).out ≠ .normal := by
  unfold Res.absorbThen
  split
  · simp
  · simp
  · simpa using hk r.st

theorem runTr_throws (tbl pcs : List FnDef) :
    ∀ (t : Tr) (st : St), t.endsThrowing = true → (runTr tbl pcs t st).out ≠ .normal := by
  intro t
  induction t with
  | done thr => intro st h; simp only [Tr.endsThrowing] at h; simp [runTr, h]
  | setter sc k ih =>
    intro st h
    simp only [runTr]
    exact absorbThen_out_ne_normal _ _ _ (fun s => ih s h)
  | nested name inner k _ ih =>
    intro st h
    simp only [runTr]
    exact absorbThen_out_ne_normal _ _ _ (fun s => ih s h)
  | cbEnd thr k ih =>
    intro st h
    by_cases ht : thr = true
    · simp [runTr, ht]
    · have hf : thr = false := by simpa using ht
      subst hf
      simp only [Tr.endsThrowing, Bool.false_or] at h
      simpa [runTr] using ih st h

theorem execPlacement_propagates (tbl pcs : List FnDef) (b : List Stmt) (h : guardedCall b = true)
    (t : Tr) (ht : t.endsThrowing = true) (st : St) : (execPlacement tbl pcs b t st).out ≠ .normal := by
  obtain ⟨n, hn⟩ := exec_guardedCall_out (fun _ s => runTr tbl pcs t s) emptyEnv b h st
  unfold execPlacement
  rw [hn]
  exact runTr_throws tbl pcs t _ ht

/-! ### a placement call ends by return or by an exception -/

def Outcome.good (o : Outcome) : Prop := o = .normal ∨ o = .returned ∨ o = .thrown

theorem exec_assertFree (oc : String → St → Res) (env : Env) :
    ∀ (body : List Stmt) (st : St), assertFree body = true → (exec oc env body st).out.good := by
  intro body
  induction body with
  | nil => intro st _; simp [exec, Outcome.good]
  | cons s rest ih =>
    intro st h
    cases s with
    | throwIf c =>
      simp only [assertFree] at h
      by_cases hc : Cond.eval env 0 c = true
      · simp [exec, hc, Outcome.good]
      · simpa [exec, hc] using ih st h
    | returnIf c =>
      simp only [assertFree] at h
      by_cases hc : Cond.eval env 0 c = true
      · simp [exec, hc, Outcome.good]
      · simpa [exec, hc] using ih st h
    | checkNotInUse =>
      simp only [assertFree] at h
      by_cases hu : st.inUse = true
      · simp [exec, hu, Outcome.good]
      · simpa [exec, hu] using ih st h
    | assign m => simp only [assertFree] at h; simpa [exec] using ih _ h
    | setInUse b => simp only [assertFree] at h; simpa [exec] using ih _ h
    | call f => simp [assertFree] at h
    | scopeGuard => simp only [assertFree] at h; simpa [exec, Res.release] using ih _ h
    | restoreGuard => simp only [assertFree] at h; simpa [exec, Res.restore] using ih _ h
    | ret => simp [exec, Outcome.good]
    | assertC c => simp [assertFree] at h
    | paramsCheck => simp only [assertFree] at h; simpa [exec] using ih _ h
    | pure w => simp only [assertFree] at h; simpa [exec] using ih _ h

theorem runSetter_good (tbl : List FnDef) (haf : ∀ f ∈ tbl, assertFree f.body = true) (sc : SetterCall) (st : St)
    (hk : (lookup tbl sc.name).isSome = true) : (runSetter tbl sc st).out.good := by
  unfold runSetter
  cases hl : lookup tbl sc.name with
  | none => simp [hl] at hk
  | some f => simpa using exec_assertFree noCall sc.env f.body st (haf f (lookup_mem tbl sc.name f hl))

/-- every setter and every nested placement call named in the trace (at any depth) exists -/
def Tr.known (tbl pcs : List FnDef) : Tr → Bool
  | .done _ => true
  | .setter sc k => (lookup tbl sc.name).isSome && k.known tbl pcs
  | .nested name inner k => (lookup pcs name).isSome && inner.known tbl pcs && k.known tbl pcs
  | .cbEnd _ k => k.known tbl pcs

def Outcome.ended (o : Outcome) : Prop := o = .normal ∨ o = .thrown

theorem absorbThen_ended (r : Res) (line : String) (k : St → Res) (hr : r.out.good)
    (hk : ∀ s, (k s).out.ended) : (r.absorbThen line k).out.ended := by
  unfold Res.absorbThen
  split
  · rename_i h; simp [Outcome.good, h] at hr
  · rename_i h; simp [Outcome.good, h] at hr
  · simpa using hk r.st

theorem runCall_ended (pcs : List FnDef) (hpc : ∀ f ∈ pcs, guardedCall f.body = true) (name : String)
    (stage : St → Res) (st : St) (hk : (lookup pcs name).isSome = true) (hs : ∀ s, (stage s).out.ended) :
    (runCall pcs name stage st).out.ended := by
  unfold runCall
  cases hl : lookup pcs name with
  | none => simp [hl] at hk
  | some f =>
    obtain ⟨n, hn⟩ := exec_guardedCall_out (fun _ s => stage s) emptyEnv f.body (hpc f (lookup_mem pcs name f hl)) st
    simp only [hn]
    exact hs _

theorem runTr_ended (tbl pcs : List FnDef) (haf : ∀ f ∈ tbl, assertFree f.body = true)
    (hpc : ∀ f ∈ pcs, guardedCall f.body = true) :
    ∀ (t : Tr) (st : St), t.known tbl pcs = true → (runTr tbl pcs t st).out.ended := by
  intro t
  induction t with
  | done thr => intro st _; by_cases ht : thr = true <;> simp [runTr, ht, Outcome.ended]
  | setter sc k ih =>
    intro st h
    simp only [Tr.known, Bool.and_eq_true] at h
    simp only [runTr]
    exact absorbThen_ended _ _ _ (runSetter_good tbl haf sc st h.1) (fun s => ih s h.2)
  | nested name inner k ihi ih =>
    intro st h
    simp only [Tr.known, Bool.and_eq_true] at h
    simp only [runTr]
    refine absorbThen_ended _ _ _ ?_ (fun s => ih s h.2)
    rcases runCall_ended pcs hpc name _ st h.1.1 (fun s => ihi s h.1.2) with h' | h'
    · exact Or.inl h'
    · exact Or.inr (Or.inr h')
  | cbEnd thr k ih =>
    intro st h
    simp only [Tr.known] at h
    by_cases ht : thr = true
    · simp [runTr, ht, Outcome.ended]
    · simpa [runTr, ht] using ih st h

theorem execPlacement_out (tbl pcs : List FnDef) (haf : ∀ f ∈ tbl, assertFree f.body = true)
    (hpc : ∀ f ∈ pcs, guardedCall f.body = true) (b : List Stmt)
    (hb : guardedCall b = true) (t : Tr) (st : St) (hk : t.known tbl pcs = true) :
    (execPlacement tbl pcs b t st).out = .normal ∨ (execPlacement tbl pcs b t st).out = .thrown := by
  obtain ⟨n, hn⟩ := exec_guardedCall_out (fun _ s => runTr tbl pcs t s) emptyEnv b hb st
  unfold execPlacement
  rw [hn]
  exact runTr_ended tbl pcs haf hpc t _ hk

/-! ### pin validation condition -/

/-- some pin cell of argument `i` is outside `[0, nbCells)` -/
def pinOutOfRange (i : Nat) : Cond := .anyElem i (.or (.lt .elem (.lit 0)) (.le .nbCells .elem))

theorem pinOutOfRange_eval (env : Env) (i : Nat) :
    Cond.eval env 0 (pinOutOfRange i) = true ↔ ∃ c ∈ (env.arg i).vals, c < 0 ∨ env.nbCells ≤ c := by
  simp only [pinOutOfRange, Cond.eval, Expr.eval, List.any_eq_true, Bool.or_eq_true]
  constructor
  · rintro ⟨c, hc, h⟩
    refine ⟨c, hc, ?_⟩
    rcases h with h | h
    · exact Or.inl (of_decide_eq_true h)
    · exact Or.inr (of_decide_eq_true h)
  · rintro ⟨c, hc, h⟩
    refine ⟨c, hc, ?_⟩
    rcases h with h | h
    · exact Or.inl (decide_eq_true h)
    · exact Or.inr (decide_eq_true h)

/-! ### constructors -/

theorem runCtor_safeFrom (e : Int) :
    ∀ (evs : List CtorEv) (k : Option (Int × Int)), safeFrom k evs = true →
      (∀ a b, k = some (a, b) → a ≤ e ∧ e ≤ b) → runCtor e evs = .ok ∨ runCtor e evs = .threw := by
  intro evs
  induction evs with
  | nil => intro k _ _; simp [runCtor]
  | cons ev rest ih =>
    intro k hs hk
    cases ev with
    | effortCheck lo hi =>
      by_cases hc : e < lo ∨ e > hi
      · simp [runCtor, hc]
      · have hlo : lo ≤ e := by omega
        have hhi : e ≤ hi := by omega
        simp only [runCtor, hc, if_false]
        cases k with
        | none =>
          simp only [safeFrom] at hs
          exact ih _ hs (by intro a b hab; cases hab; exact ⟨hlo, hhi⟩)
        | some ab =>
          obtain ⟨a, b⟩ := ab
          simp only [safeFrom] at hs
          have := hk a b rfl
          exact ih _ hs (by intro a' b' hab; cases hab; constructor <;> omega)
    | arrayIndex n size off =>
      cases k with
      | none => simp [safeFrom] at hs
      | some ab =>
        obtain ⟨a, b⟩ := ab
        simp only [safeFrom, Bool.and_eq_true, decide_eq_true_eq] at hs
        have := hk a b rfl
        have hin : 0 ≤ e + off ∧ e + off < size := by omega
        simp only [runCtor, hin, and_self, if_true]
        exact ih _ hs.2 hk
    | assertRange lo hi =>
      cases k with
      | none => simp [safeFrom] at hs
      | some ab =>
        obtain ⟨a, b⟩ := ab
        simp only [safeFrom, Bool.and_eq_true, decide_eq_true_eq] at hs
        have := hk a b rfl
        have hin : lo ≤ e ∧ e ≤ hi := by omega
        simp only [runCtor, hin, and_self, if_true]
        exact ih _ hs.2 hk
    | enter r => simp only [safeFrom] at hs; simpa [runCtor] using ih k hs hk
    | leave r => simp only [safeFrom] at hs; simpa [runCtor] using ih k hs hk

theorem runCtor_checksFirst (e lo hi : Int) (he : e < lo ∨ e > hi) :
    ∀ (evs : List CtorEv), checksFirst lo hi evs = true → runCtor e evs = .threw := by
  intro evs
  induction evs with
  | nil => intro h; simp [checksFirst] at h
  | cons ev rest ih =>
    intro h
    cases ev with
    | effortCheck a b =>
      simp only [checksFirst, Bool.and_eq_true, decide_eq_true_eq] at h
      obtain ⟨rfl, rfl⟩ := h
      simp [runCtor, he]
    | enter r => simp only [checksFirst] at h; simpa [runCtor] using ih h
    | leave r => simp only [checksFirst] at h; simpa [runCtor] using ih h
    | _ => simp [checksFirst] at h

end ColoVerif.Busy
