import ColoVerif.Model.Busy
/-
Generic lemmas about the IR semantics of `Model/Busy.lean`: each turns a decidable syntactic
condition on a statement list (checked by `decide` on the generated tables in `Properties/`) into
a statement about every execution.
-/
namespace ColoVerif.Busy
open ColoVerif.ApiIR

/-- If only `throwIf`s precede `checkNotInUse`, a busy circuit makes the function throw with the
state untouched, whatever the arguments. -/
theorem exec_guardFirst (oc : String → St → Res) (env : Env) :
    ∀ (body : List Stmt) (st : St), guardFirst body = true → st.inUse = true →
      exec oc env body st = ⟨.thrown, st, []⟩ := by
  intro body
  induction body with
  | nil => intro st h; simp [guardFirst] at h
  | cons s rest ih =>
    intro st h hu
    cases s with
    | checkNotInUse => simp [exec, hu]
    | throwIf c =>
      simp only [guardFirst] at h
      by_cases hc : Cond.eval env 0 c = true
      · simp [exec, hc]
      · simp [exec, hc, ih st h hu]
    | _ => simp [guardFirst] at h

/-- A body that starts by taking the scope guard ends with the flag cleared, whatever happens inside. -/
theorem exec_guardedFirst (oc : String → St → Res) (env : Env) (body : List Stmt) (st : St)
    (h : guardedFirst body = true) : (exec oc env body st).st.inUse = false := by
  cases body with
  | nil => simp [guardedFirst] at h
  | cons s rest =>
    cases s with
    | scopeGuard => simp [exec, Res.release]
    | _ => simp [guardedFirst] at h

/-- If one of the conditions tested before the first write/return/call holds, the function throws
with the state untouched. -/
theorem exec_preConds (oc : String → St → Res) (env : Env) :
    ∀ (body : List Stmt) (st : St), (∃ c ∈ preConds body, Cond.eval env 0 c = true) →
      exec oc env body st = ⟨.thrown, st, []⟩ := by
  intro body
  induction body with
  | nil => intro st h; simp [preConds] at h
  | cons s rest ih =>
    intro st h
    cases s with
    | throwIf c =>
      by_cases hc : Cond.eval env 0 c = true
      · simp [exec, hc]
      · obtain ⟨c', hm, he⟩ := h
        simp only [preConds, List.mem_cons] at hm
        rcases hm with rfl | hm
        · exact absurd he hc
        · simp [exec, hc, ih st ⟨c', hm, he⟩]
    | checkNotInUse =>
      by_cases hu : st.inUse = true
      · simp [exec, hu]
      · obtain ⟨c', hm, he⟩ := h
        simp only [preConds] at hm
        simp [exec, hu, ih st ⟨c', hm, he⟩]
    | _ => simp [preConds] at h

/-! ### the in-use flag is not touched by flag-free bodies -/

/-- no statement of the body sets or guards the flag, calls out, or asserts -/
def flagFree : List Stmt → Bool
  | [] => true
  | .setInUse _ :: _ => false
  | .scopeGuard :: _ => false
  | .call _ :: _ => false
  | _ :: rest => flagFree rest

theorem exec_flagFree (oc : String → St → Res) (env : Env) :
    ∀ (body : List Stmt) (st : St), flagFree body = true → (exec oc env body st).st.inUse = st.inUse := by
  intro body
  induction body with
  | nil => intro st _; simp [exec]
  | cons s rest ih =>
    intro st h
    cases s with
    | throwIf c => simp only [flagFree] at h; by_cases hc : Cond.eval env 0 c = true <;> simp [exec, hc, ih st h]
    | returnIf c => simp only [flagFree] at h; by_cases hc : Cond.eval env 0 c = true <;> simp [exec, hc, ih st h]
    | checkNotInUse => simp only [flagFree] at h; by_cases hu : st.inUse = true <;> simp [exec, hu, ih st h]
    | assign m => simp only [flagFree] at h; simp [exec, ih _ h]
    | setInUse b => simp [flagFree] at h
    | call f => simp [flagFree] at h
    | scopeGuard => simp [flagFree] at h
    | ret => simp [exec]
    | assertC c => simp only [flagFree] at h; by_cases hc : Cond.eval env 0 c = true <;> simp [exec, hc, ih st h]
    | paramsCheck => simp only [flagFree] at h; simp [exec, ih st h]
    | pure w => simp only [flagFree] at h; simp [exec, ih st h]

theorem runSetter_flag (tbl : List FnDef) (hff : ∀ f ∈ tbl, flagFree f.body = true) (sc : SetterCall) (st : St) :
    (runSetter tbl sc st).st.inUse = st.inUse := by
  unfold runSetter
  cases hl : lookup tbl sc.name with
  | none => simp
  | some f =>
    have hm : f ∈ tbl := by
      unfold lookup at hl
      exact List.mem_of_find?_eq_some hl
    simpa using exec_flagFree noCall sc.env f.body st (hff f hm)

theorem runActs_flag (tbl : List FnDef) (hff : ∀ f ∈ tbl, flagFree f.body = true) :
    ∀ (acts : List SetterCall) (st : St), (runActs tbl acts st).st.inUse = st.inUse := by
  intro acts
  induction acts with
  | nil => intro st; simp [runActs]
  | cons a rest ih =>
    intro st
    have h1 := runSetter_flag tbl hff a st
    simp only [runActs]
    split
    · simpa using h1
    · simpa using h1
    · simp [ih, h1]

theorem andThen_flag (r : Res) (k : St → Res) (b : Bool) (h1 : r.st.inUse = b)
    (h2 : ∀ s, s.inUse = b → (k s).st.inUse = b) : (r.andThen k).st.inUse = b := by
  unfold Res.andThen
  split
  · simpa using h2 r.st h1
  · exact h1

theorem runCallbacks_flag (tbl : List FnDef) (hff : ∀ f ∈ tbl, flagFree f.body = true) :
    ∀ (cbs : List Callback) (st : St), (runCallbacks tbl cbs st).st.inUse = st.inUse := by
  intro cbs
  induction cbs with
  | nil => intro st; simp [runCallbacks]
  | cons cb rest ih =>
    intro st
    simp only [runCallbacks]
    apply andThen_flag
    · exact runActs_flag tbl hff cb.acts st
    · intro s hs
      by_cases ht : cb.throws = true
      · simp [ht, hs]
      · simp [ht, ih s, hs]

theorem runStage_flag (tbl : List FnDef) (hff : ∀ f ∈ tbl, flagFree f.body = true) (sg : Stage) (st : St) :
    (runStage tbl sg st).st.inUse = st.inUse := by
  unfold runStage
  apply andThen_flag
  · exact runCallbacks_flag tbl hff sg.cbs st
  · intro s hs
    by_cases ht : sg.throws = true <;> simp [ht, hs]

/-! ### a guarded placement call propagates the exception of its stage -/

/-- the body is exactly `guard; call stage` -/
def guardedCall : List Stmt → Bool
  | [.scopeGuard, .call _] => true
  | _ => false

theorem guardedCall_shape (b : List Stmt) (h : guardedCall b = true) : ∃ n, b = [.scopeGuard, .call n] := by
  unfold guardedCall at h
  split at h
  · exact ⟨_, rfl⟩
  · simp at h

theorem andThen_out_ne_normal (r : Res) (k : St → Res) (hk : ∀ s, (k s).out ≠ .normal) :
    (r.andThen k).out ≠ .normal := by
  unfold Res.andThen
  split
  · simpa using hk r.st
  · rename_i h
    intro h'
    exact h h'

theorem andThen_of_ne_normal (r : Res) (k : St → Res) (h : r.out ≠ .normal) : r.andThen k = r := by
  unfold Res.andThen
  split
  · rename_i h'; exact absurd h' h
  · rfl

theorem runStage_throws (tbl : List FnDef) (cbs : List Callback) (st : St) :
    (runStage tbl ⟨cbs, true⟩ st).out ≠ .normal := by
  unfold runStage
  apply andThen_out_ne_normal
  intro s
  simp

theorem execPlacement_propagates (tbl : List FnDef) (b : List Stmt) (h : guardedCall b = true)
    (cbs : List Callback) (st : St) : (execPlacement tbl b ⟨cbs, true⟩ st).out ≠ .normal := by
  obtain ⟨n, rfl⟩ := guardedCall_shape b h
  simp only [execPlacement, exec, Res.release]
  rw [andThen_of_ne_normal _ _ (runStage_throws tbl cbs _)]
  exact runStage_throws tbl cbs _

/-! ### a placement call ends by return or by an exception -/

def Outcome.good (o : Outcome) : Prop := o = .normal ∨ o = .returned ∨ o = .thrown

theorem exec_assertFree (oc : String → St → Res) (env : Env) :
    ∀ (body : List Stmt) (st : St), assertFree body = true → (exec oc env body st).out.good := by
  intro body
  induction body with
  | nil => intro st _; simp [exec, Outcome.good]
  | cons s rest ih =>
    intro st h
    cases s with
    | throwIf c =>
      simp only [assertFree] at h
      by_cases hc : Cond.eval env 0 c = true
      · simp [exec, hc, Outcome.good]
      · simpa [exec, hc] using ih st h
    | returnIf c =>
      simp only [assertFree] at h
      by_cases hc : Cond.eval env 0 c = true
      · simp [exec, hc, Outcome.good]
      · simpa [exec, hc] using ih st h
    | checkNotInUse =>
      simp only [assertFree] at h
      by_cases hu : st.inUse = true
      · simp [exec, hu, Outcome.good]
      · simpa [exec, hu] using ih st h
    | assign m => simp only [assertFree] at h; simpa [exec] using ih _ h
    | setInUse b => simp only [assertFree] at h; simpa [exec] using ih _ h
    | call f => simp [assertFree] at h
    | scopeGuard => simp only [assertFree] at h; simpa [exec, Res.release] using ih _ h
    | ret => simp [exec, Outcome.good]
    | assertC c => simp [assertFree] at h
    | paramsCheck => simp only [assertFree] at h; simpa [exec] using ih _ h
    | pure w => simp only [assertFree] at h; simpa [exec] using ih _ h

theorem runSetter_good (tbl : List FnDef) (haf : ∀ f ∈ tbl, assertFree f.body = true) (sc : SetterCall) (st : St)
    (hk : (lookup tbl sc.name).isSome = true) : (runSetter tbl sc st).out.good := by
  unfold runSetter
  cases hl : lookup tbl sc.name with
  | none => simp [hl] at hk
  | some f =>
    have hm : f ∈ tbl := by
      unfold lookup at hl
      exact List.mem_of_find?_eq_some hl
    simpa using exec_assertFree noCall sc.env f.body st (haf f hm)

theorem runActs_normal (tbl : List FnDef) (haf : ∀ f ∈ tbl, assertFree f.body = true) :
    ∀ (acts : List SetterCall) (st : St), (∀ a ∈ acts, (lookup tbl a.name).isSome = true) →
      (runActs tbl acts st).out = .normal := by
  intro acts
  induction acts with
  | nil => intro st _; simp [runActs]
  | cons a rest ih =>
    intro st hk
    have hg := runSetter_good tbl haf a st (hk a (by simp))
    simp only [runActs]
    split
    · rename_i h; simp [Outcome.good, h] at hg
    · rename_i h; simp [Outcome.good, h] at hg
    · simpa using ih _ (fun b hb => hk b (by simp [hb]))

theorem andThen_out_of_normal (r : Res) (k : St → Res) (h : r.out = .normal) : (r.andThen k).out = (k r.st).out := by
  unfold Res.andThen
  simp [h]

def Callback.known (tbl : List FnDef) (cb : Callback) : Prop := ∀ a ∈ cb.acts, (lookup tbl a.name).isSome = true

theorem runCallbacks_out (tbl : List FnDef) (haf : ∀ f ∈ tbl, assertFree f.body = true) :
    ∀ (cbs : List Callback) (st : St), (∀ cb ∈ cbs, cb.known tbl) →
      (runCallbacks tbl cbs st).out = .normal ∨ (runCallbacks tbl cbs st).out = .thrown := by
  intro cbs
  induction cbs with
  | nil => intro st _; simp [runCallbacks]
  | cons cb rest ih =>
    intro st hk
    simp only [runCallbacks]
    rw [andThen_out_of_normal _ _ (runActs_normal tbl haf cb.acts st (hk cb (by simp)))]
    by_cases ht : cb.throws = true
    · simp [ht]
    · simpa [ht] using ih _ (fun c hc => hk c (by simp [hc]))

theorem runStage_out (tbl : List FnDef) (haf : ∀ f ∈ tbl, assertFree f.body = true) (sg : Stage) (st : St)
    (hk : ∀ cb ∈ sg.cbs, cb.known tbl) :
    (runStage tbl sg st).out = .normal ∨ (runStage tbl sg st).out = .thrown := by
  unfold runStage
  rcases runCallbacks_out tbl haf sg.cbs st hk with h | h
  · rw [andThen_out_of_normal _ _ h]
    by_cases ht : sg.throws = true <;> simp [ht]
  · rw [andThen_of_ne_normal _ _ (by simp [h])]
    exact Or.inr h

theorem execPlacement_out (tbl : List FnDef) (haf : ∀ f ∈ tbl, assertFree f.body = true) (b : List Stmt)
    (hb : guardedCall b = true) (sg : Stage) (st : St) (hk : ∀ cb ∈ sg.cbs, cb.known tbl) :
    (execPlacement tbl b sg st).out = .normal ∨ (execPlacement tbl b sg st).out = .thrown := by
  obtain ⟨n, rfl⟩ := guardedCall_shape b hb
  simp only [execPlacement, exec, Res.release]
  rcases runStage_out tbl haf sg _ hk with h | h
  · rw [andThen_out_of_normal _ _ h]; simp
  · rw [andThen_of_ne_normal _ _ (by simp [h])]
    exact Or.inr h

/-! ### pin validation condition -/

/-- some pin cell of argument `i` is outside `[0, nbCells)` -/
def pinOutOfRange (i : Nat) : Cond := .anyElem i (.or (.lt .elem (.lit 0)) (.le .nbCells .elem))

theorem pinOutOfRange_eval (env : Env) (i : Nat) :
    Cond.eval env 0 (pinOutOfRange i) = true ↔ ∃ c ∈ (env.arg i).vals, c < 0 ∨ env.nbCells ≤ c := by
  simp only [pinOutOfRange, Cond.eval, Expr.eval, List.any_eq_true, Bool.or_eq_true]
  constructor
  · rintro ⟨c, hc, h⟩
    refine ⟨c, hc, ?_⟩
    rcases h with h | h
    · exact Or.inl (of_decide_eq_true h)
    · exact Or.inr (of_decide_eq_true h)
  · rintro ⟨c, hc, h⟩
    refine ⟨c, hc, ?_⟩
    rcases h with h | h
    · exact Or.inl (decide_eq_true h)
    · exact Or.inr (decide_eq_true h)

/-! ### constructors -/

theorem runCtor_safeFrom (e : Int) :
    ∀ (evs : List CtorEv) (k : Option (Int × Int)), safeFrom k evs = true →
      (∀ a b, k = some (a, b) → a ≤ e ∧ e ≤ b) → runCtor e evs = .ok ∨ runCtor e evs = .threw := by
  intro evs
  induction evs with
  | nil => intro k _ _; simp [runCtor]
  | cons ev rest ih =>
    intro k hs hk
    cases ev with
    | effortCheck lo hi =>
      by_cases hc : e < lo ∨ e > hi
      · simp [runCtor, hc]
      · have hlo : lo ≤ e := by omega
        have hhi : e ≤ hi := by omega
        simp only [runCtor, hc, if_false]
        cases k with
        | none =>
          simp only [safeFrom] at hs
          exact ih _ hs (by intro a b hab; cases hab; exact ⟨hlo, hhi⟩)
        | some ab =>
          obtain ⟨a, b⟩ := ab
          simp only [safeFrom] at hs
          have := hk a b rfl
          exact ih _ hs (by intro a' b' hab; cases hab; constructor <;> omega)
    | arrayIndex n size off =>
      cases k with
      | none => simp [safeFrom] at hs
      | some ab =>
        obtain ⟨a, b⟩ := ab
        simp only [safeFrom, Bool.and_eq_true, decide_eq_true_eq] at hs
        have := hk a b rfl
        have hin : 0 ≤ e + off ∧ e + off < size := by omega
        simp only [runCtor, hin, and_self, if_true]
        exact ih _ hs.2 hk
    | assertRange lo hi =>
      cases k with
      | none => simp [safeFrom] at hs
      | some ab =>
        obtain ⟨a, b⟩ := ab
        simp only [safeFrom, Bool.and_eq_true, decide_eq_true_eq] at hs
        have := hk a b rfl
        have hin : lo ≤ e ∧ e ≤ hi := by omega
        simp only [runCtor, hin, and_self, if_true]
        exact ih _ hs.2 hk
    | enter r => simp only [safeFrom] at hs; simpa [runCtor] using ih k hs hk
    | leave r => simp only [safeFrom] at hs; simpa [runCtor] using ih k hs hk

theorem runCtor_checksFirst (e lo hi : Int) (he : e < lo ∨ e > hi) :
    ∀ (evs : List CtorEv), checksFirst lo hi evs = true → runCtor e evs = .threw := by
  intro evs
  induction evs with
  | nil => intro h; simp [checksFirst] at h
  | cons ev rest ih =>
    intro h
    cases ev with
    | effortCheck a b =>
      simp only [checksFirst, Bool.and_eq_true, decide_eq_true_eq] at h
      obtain ⟨rfl, rfl⟩ := h
      simp [runCtor, he]
    | enter r => simp only [checksFirst] at h; simpa [runCtor] using ih h
    | leave r => simp only [checksFirst] at h; simpa [runCtor] using ih h
    | _ => simp [checksFirst] at h

end ColoVerif.Busy
