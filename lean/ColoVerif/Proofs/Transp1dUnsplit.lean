import ColoVerif.Proofs.Transp1dRound
/-
`computeAssignment` on the solver's instance: a source whose interval lies inside one sink's
interval is assigned that sink (cross-source invariant `D[currentSink] ≤ assignPos`).
-/
namespace ColoVerif.Transp1d

theorem interval_unique (d : List Int) (hpos : ∀ x ∈ d, 0 < x) (a b : Nat) (pos : Int)
    (ha : a < d.length) (hb : b < d.length)
    (a1 : (prefixFrom 0 d).getD a 0 ≤ pos) (a2 : pos < (prefixFrom 0 d).getD (a + 1) 0)
    (b1 : (prefixFrom 0 d).getD b 0 ≤ pos) (b2 : pos < (prefixFrom 0 d).getD (b + 1) 0) : a = b := by
  by_cases hlt : a < b
  · have := prefixFrom_mono 0 d hpos (a + 1) b (by omega) (by omega)
    omega
  · by_cases hgt : b < a
    · have := prefixFrom_mono 0 d hpos (b + 1) a (by omega) (by omega)
      omega
    · omega

theorem half_bounds (x : Int) (h : 0 < x) : 0 ≤ Int.tdiv x 2 ∧ Int.tdiv x 2 < x := by
  rw [Int.tdiv_eq_ediv_of_nonneg (Int.le_of_lt h)]
  omega

theorem assignLoop_unsplit (sv : Solver) (wf : sv.WF) (hdpos : ∀ x ∈ sv.d, 0 < x)
    (hspos : ∀ x ∈ sv.s, 0 < x) (hD : sv.D = prefixFrom 0 sv.d) (hS : sv.S = prefixFrom 0 sv.s)
    (ps : List Int) (i cs : Nat) (rest : List Int) (a : List Nat)
    (e : assignLoop sv ps i cs rest = .ok a) (hr : rest = sv.D.drop (cs + 1))
    (hi : i + ps.length = sv.u.length)
    (hstart : 0 < ps.length →
      sv.D.getD cs 0 ≤ ps.getD 0 0 + sv.S.getD i 0 + Int.tdiv (sv.s.getD i 0) 2)
    (hmono : ∀ k, k + 1 < ps.length → ps.getD k 0 ≤ ps.getD (k + 1) 0)
    (k j : Nat) (hk : k < ps.length) (hj : j < sv.v.length)
    (h1 : sv.D.getD j 0 ≤ sv.S.getD (i + k) 0 + ps.getD k 0)
    (h2 : sv.S.getD (i + k + 1) 0 + ps.getD k 0 ≤ sv.D.getD (j + 1) 0) :
    a.getD k 0 = j := by
  induction ps generalizing i cs rest a k with
  | nil => simp at hk
  | cons pi ps ih =>
    have hlen : i < sv.u.length := by simp at hi; omega
    have hi' : i < sv.s.length := by rw [wf.hs]; exact hlen
    have hsi := half_bounds _ (hspos _ (getD_mem_of_lt sv.s i hi'))
    have hS1 : sv.S.getD (i + 1) 0 = sv.S.getD i 0 + sv.s.getD i 0 := by
      rw [hS]; exact prefixFrom_succ 0 sv.s i hi'
    unfold assignLoop at e
    simp only [get_ok' sv.S i (by have := wf.hS; omega), get_ok' sv.s i hi', bind, Except.bind] at e
    cases hw : walk (pi + sv.S.getD i 0 + Int.tdiv (sv.s.getD i 0) 2) rest cs with
    | error err => rw [hw] at e; simp at e
    | ok r =>
      obtain ⟨cs', rest'⟩ := r
      rw [hw] at e
      simp only at e
      cases ht : assignLoop sv ps (i + 1) cs' rest' with
      | error err => rw [ht] at e; simp at e
      | ok tl =>
        rw [ht] at e
        simp only [pure, Except.pure] at e
        have ea : a = cs' :: tl := (Except.ok.inj e).symm
        subst ea
        obtain ⟨w1, w2, w3, w4, w5⟩ := walk_spec sv.D _ rest cs hr cs' rest' hw
        have hst := hstart (by simp)
        simp only [List.getD_cons_zero] at hst
        have hDcs' : sv.D.getD cs' 0 ≤ pi + sv.S.getD i 0 + Int.tdiv (sv.s.getD i 0) 2 := by
          by_cases hc : cs < cs'
          · exact w5 hc
          · have : cs = cs' := by omega
            rw [← this]; exact hst
        cases k with
        | zero =>
          simp only [List.getD_cons_zero, Nat.add_zero] at h1 h2 ⊢
          have hdl : sv.d.length = sv.v.length := wf.hd
          have hcs' : cs' < sv.d.length := by have := wf.hD; omega
          rw [hD] at hDcs' w4 h1 h2
          exact interval_unique sv.d hdpos cs' j _ hcs' (by omega) hDcs' w4 (by omega) (by omega)
        | succ k =>
          simp only [List.getD_cons_succ] at h1 h2 ⊢
          have hk' : k < ps.length := by simpa using hk
          have hi1 : i + 1 < sv.s.length := by have := wf.hs; simp at hi; omega
          have hsi1 := half_bounds _ (hspos _ (getD_mem_of_lt sv.s (i + 1) hi1))
          have e1 : i + (k + 1) = i + 1 + k := by omega
          rw [e1] at h1 h2
          refine ih (i + 1) cs' rest' tl ht w1 (by simp at hi ⊢; omega) ?_ ?_ k hk' h1 h2
          · intro _
            have hm := hmono 0 (by simp; omega)
            simp only [List.getD_cons_zero, List.getD_cons_succ] at hm
            omega
          · intro q hq
            have hm := hmono (q + 1) (by simp; omega)
            simpa only [List.getD_cons_succ] using hm

theorem computeAssignment_unsplit (pb : Problem) (hv : checkOk pb = true)
    (p : List Int) (a : List Nat) (hrun : run (sortedSolver pb) = .ok p)
    (ha : computeAssignment (sortedSolver pb) p = .ok a) (k j : Nat)
    (hk : k < (sortedSolver pb).u.length) (hj : j < (sortedSolver pb).v.length)
    (h1 : (sortedSolver pb).D.getD j 0 ≤ (sortedSolver pb).S.getD k 0 + p.getD k 0)
    (h2 : (sortedSolver pb).S.getD (k + 1) 0 + p.getD k 0 ≤ (sortedSolver pb).D.getD (j + 1) 0) :
    a.getD k 0 = j := by
  have wf := sortedSolver_wf pb
  have hp : RunPost (sortedSolver pb) p :=
    (run_safe (sortedSolver pb) wf (sortedSolver_sinks pb hv)).of_ok hrun
  have hsl := sortedSolver_slack pb hv
  unfold computeAssignment at ha
  have hklen : k < p.length := by rw [hp.len]; exact hk
  refine assignLoop_unsplit (sortedSolver pb) wf (sortedSolver_dpos pb) (sortedSolver_spos pb) rfl rfl
    p 0 0 _ a ha rfl (by simp [hp.len]) ?_ hp.mono k j hklen hj (by simpa using h1) (by simpa using h2)
  intro h0
  have hp0 : 0 ≤ p.getD 0 0 := hp.nn hsl _ (getD_mem_of_lt p 0 h0)
  have hs0 : 0 < (sortedSolver pb).s.length := by rw [wf.hs]; omega
  have hh := half_bounds _ (sortedSolver_spos pb _ (getD_mem_of_lt (sortedSolver pb).s 0 hs0))
  have eD : (sortedSolver pb).D.getD 0 0 = 0 := prefixFrom_zero 0 _
  have eS : (sortedSolver pb).S.getD 0 0 = 0 := prefixFrom_zero 0 _
  omega

end ColoVerif.Transp1d
