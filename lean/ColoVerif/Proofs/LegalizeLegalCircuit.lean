import ColoVerif.Proofs.LegalizeLegalBase
import Mathlib.Tactic.Ring
import Mathlib.Tactic.Linarith
/-
Helper lemmas for C01 (`legalize_legal`), part 5: from `Legalizer::run` to `Circuit::legalize`.

`fromIspdCircuit` hands the legalizer the free row space (`computeRows`) and the movable cells with
their placed sizes; `exportPlacement` writes position and orientation of every placed cell back, in
the order of the movable cells.  Because only movable cells change, `computeRows` of the result is
`computeRows` of the input.  `DomL`/`LegalL` are verbatim copies of `C01.Dom`/`C01.Legal`
(Properties/C01.lean ties them by `rfl`).
-/
namespace ColoVerif.Legalize
open ColoVerif

/-- the C01 domain (verbatim `C01.Dom`) -/
def DomL (c : Circuit) : Prop :=
  0 < (Circuit.rowHeight c).getD 0 ∧
  (∀ cl ∈ c.cells, cl.fixed = false →
    0 < cl.placedWidth ∧ 0 < cl.placedHeight ∧ cl.placedHeight % (Circuit.rowHeight c).getD 0 = 0 ∧
    (cl.pol ≠ Polarity.ANY → cl.orient.isTurn = false)) ∧
  c.rows.Pairwise (fun r s => r.rect.intersects s.rect = false) ∧
  (∀ r ∈ c.rows, r.rect.minX < r.rect.maxX ∧ r.orient.isTurn = false)

/-- the statement's legality (verbatim `C01.Legal`) -/
def LegalL (c : Circuit) : Prop :=
  (∀ H, Circuit.rowHeight c = some H → ∀ cl ∈ c.cells, cl.fixed = false →
    ∀ k : Int, 0 ≤ k → k * H < cl.placedHeight →
      ∃ r ∈ c.computeRows, r.rect.minY = cl.y + k * H ∧ r.rect.minX ≤ cl.x ∧ cl.x + cl.placedWidth ≤ r.rect.maxX) ∧
  (c.cells.filter fun cl => !cl.fixed).Pairwise fun a b => a.placement.intersects b.placement = false

/-! ### arithmetic of levels -/

theorem hk_eq_mul (H : Int) : ∀ k : Nat, hk H k = (k : Int) * H
  | 0 => by simp [hk]
  | k + 1 => by
    simp only [hk, hk_eq_mul H k]
    push_cast
    ring

theorem levels_mem (H : Int) : ∀ (k : Nat) (y : Int) (j : Nat), j < k → y + (j : Int) * H ∈ levels H k y
  | 0, _, _, h => by omega
  | k + 1, y, 0, _ => by simp [levels]
  | k + 1, y, j + 1, h => by
    have := levels_mem H k (y + H) j (by omega)
    have e : y + ((j + 1 : Nat) : Int) * H = y + H + (j : Int) * H := by push_cast; ring
    rw [e]
    simp [levels, this]

/-- a positive multiple of `H` is `k ≥ 1` row heights -/
theorem exists_hk (H h : Int) (hH : 0 < H) (hh : 0 < h) (hm : h % H = 0) : ∃ k : Nat, 1 ≤ k ∧ h = hk H k := by
  have e := Int.mul_ediv_add_emod h H
  rw [hm] at e
  have hq : 0 < h / H := by nlinarith
  refine ⟨(h / H).toNat, by omega, ?_⟩
  rw [hk_eq_mul, Int.toNat_of_nonneg (by omega)]
  linarith [Int.mul_comm H (h / H)]

/-! ### the rows of the circuit -/

theorem rowHeight_rows (c : Circuit) (H : Int) (h : Circuit.rowHeight c = some H) :
    ∀ r ∈ c.rows, r.rect.maxY = r.rect.minY + H := by
  unfold Circuit.rowHeight at h
  cases hr : c.rows with
  | nil => simp
  | cons r0 rs =>
    rw [hr] at h
    simp only at h
    split at h
    · rename_i hall
      simp only [Option.some.injEq] at h
      intro r hr'
      simp only [Rect.height] at h
      rcases List.mem_cons.mp hr' with rfl | hr'
      · omega
      · rw [List.all_eq_true] at hall
        have := hall r hr'
        simp only [beq_iff_eq, Rect.height] at this
        omega
    · simp at h

theorem dom_rowHeight (c : Circuit) (hd : DomL c) :
    Circuit.rowHeight c = some ((Circuit.rowHeight c).getD 0) := by
  have h := hd.1
  cases hr : Circuit.rowHeight c with
  | none => rw [hr] at h; simp at h
  | some H => rfl

theorem dom_rowsOK (c : Circuit) (hd : DomL c) : RowsOK ((Circuit.rowHeight c).getD 0) c.computeRows := by
  have hR : RowsOK ((Circuit.rowHeight c).getD 0) c.rows :=
    ⟨rowHeight_rows c _ (dom_rowHeight c hd), fun r hr => (hd.2.2.2 r hr).1, fun r hr => (hd.2.2.2 r hr).2, hd.2.2.1⟩
  exact hR.freespace _

/-- the domain read as in the property's quantifier: a uniform positive row height `H`, movable
cells of positive placed width whose placed height is `k·H` with `k > 0`, pairwise disjoint
non-empty rows, polarised cells unturned (this is the former existential form of `C01.Dom`) -/
theorem domL_spelled (c : Circuit) (hd : DomL c) :
    (∃ H, 0 < H ∧ Circuit.rowHeight c = some H ∧
      ∀ cl ∈ c.cells, cl.fixed = false → 0 < cl.placedWidth ∧ ∃ k : Int, 0 < k ∧ cl.placedHeight = k * H) ∧
    c.rows.Pairwise (fun r s => r.rect.intersects s.rect = false) ∧
    (∀ r ∈ c.rows, r.rect.minX < r.rect.maxX) ∧
    (∀ cl ∈ c.cells, cl.fixed = false → cl.pol ≠ Polarity.ANY → cl.orient.isTurn = false) := by
  refine ⟨⟨_, hd.1, dom_rowHeight c hd, ?_⟩, hd.2.2.1, fun r hr => (hd.2.2.2 r hr).1,
    fun cl hcl hf => (hd.2.1 cl hcl hf).2.2.2⟩
  intro cl hcl hf
  obtain ⟨h1, h2, h3, _⟩ := hd.2.1 cl hcl hf
  obtain ⟨k, hk1, hhk⟩ := exists_hk _ _ hd.1 h2 h3
  refine ⟨h1, (k : Int), by omega, ?_⟩
  rw [hhk, hk_eq_mul]

/-- the movable cells in index order (`fromIspdCircuit`) -/
def toLCell (cl : Cell) : LCell := ⟨cl.placedWidth, cl.placedHeight, cl.pol, cl.x, cl.y, cl.orient⟩

theorem movable_eq (c : Circuit) : movable c = (c.cells.filter fun cl => !cl.fixed).map toLCell := rfl

theorem dom_cellsOK (c : Circuit) (hd : DomL c) : CellsOK ((Circuit.rowHeight c).getD 0) (movable c) := by
  intro c0 hc0
  rw [movable_eq] at hc0
  obtain ⟨cl, hcl, rfl⟩ := List.mem_map.mp hc0
  simp only [List.mem_filter, Bool.not_eq_true'] at hcl
  obtain ⟨h1, h2, h3, h4⟩ := hd.2.1 cl hcl.1 hcl.2
  exact ⟨h1, exists_hk _ _ hd.1 h2 h3, h4⟩

/-! ### `exportPlacement` -/

/-- what `exportPlacement` does to one movable cell -/
def updCell (cl : Cell) (p : Pos) : Cell :=
  if p.placed then { cl with x := p.x, y := p.y, orient := p.orient } else cl

theorem updCell_fixed (cl : Cell) (p : Pos) : (updCell cl p).fixed = cl.fixed := by
  unfold updCell; split <;> rfl

theorem exportCells_filter : ∀ (cells : List Cell) (P : List Pos),
    P.length = (cells.filter fun cl => !cl.fixed).length →
    (exportCells cells P).filter (fun cl => !cl.fixed) = List.zipWith updCell (cells.filter fun cl => !cl.fixed) P
  | [], P, _ => by simp [exportCells]
  | cl :: cls, P, hlen => by
    unfold exportCells
    by_cases hf : cl.fixed = true
    · rw [if_pos hf]
      have hlen' : P.length = (cls.filter fun cl => !cl.fixed).length := by
        simpa [List.filter_cons, hf] using hlen
      simp only [List.filter_cons, hf, Bool.not_true, Bool.false_eq_true, if_false]
      exact exportCells_filter cls P hlen'
    · rw [if_neg hf]
      have hf' : cl.fixed = false := by simpa using hf
      cases P with
      | nil => simp [hf'] at hlen
      | cons p ps =>
        have hlen' : ps.length = (cls.filter fun cl => !cl.fixed).length := by
          simpa [List.filter_cons, hf'] using hlen
        have hu : (updCell cl p).fixed = false := by rw [updCell_fixed]; exact hf'
        show List.filter (fun cl => !cl.fixed) (updCell cl p :: exportCells cls ps) = _
        rw [List.filter_cons]
        simp only [hu, Bool.not_false, if_true]
        rw [exportCells_filter cls ps hlen', List.filter_cons]
        simp only [hf', Bool.not_false, if_true, List.zipWith_cons_cons]

theorem exportCells_sameUpTo : ∀ (cells : List Cell) (P : List Pos), SameUpToIgnored cells (exportCells cells P)
  | [], _ => by simp [exportCells]; exact SameUpToIgnored.nil
  | cl :: cls, P => by
    unfold exportCells
    by_cases hf : cl.fixed = true
    · rw [if_pos hf]
      exact SameUpToIgnored.keep cl (exportCells_sameUpTo cls P)
    · rw [if_neg hf]
      have hf' : cl.fixed = false := by simpa using hf
      cases P with
      | nil => exact SameUpToIgnored.keep cl (exportCells_sameUpTo cls [])
      | cons p ps =>
        refine SameUpToIgnored.dropLeft (by simp [Cell.ignored, hf'])
          (SameUpToIgnored.dropRight ?_ (exportCells_sameUpTo cls ps))
        have e : (if p.placed = true then { cl with x := p.x, y := p.y, orient := p.orient } else cl) = updCell cl p := rfl
        rw [e]
        simp [Cell.ignored, updCell_fixed, hf']

theorem export_computeRows (b : Base) (c : Circuit) : (exportPlacement b c).computeRows = c.computeRows := by
  have h := Circuit.obstacles_congr c (exportPlacement b c) (exportCells_sameUpTo c.cells b.pos)
  simp only [Circuit.computeRows, ← h]
  rfl

/-! ### the circuit-level theorem -/

theorem legalizeWith_legal (rnd : Rat → Rat) (p : Params) (c c' : Circuit) (hd : DomL c)
    (h : legalizeWith rnd p c = .ok c') : LegalL c' := by
  obtain ⟨_, b1, b2, h1, h2, hall, rfl⟩ := legalizeWith_ok rnd p c c' h
  generalize hH0 : (Circuit.rowHeight c).getD 0 = H0
  have hH : 0 < H0 := by rw [← hH0]; exact hd.1
  have hrh : Circuit.rowHeight c = some H0 := by rw [← hH0]; exact dom_rowHeight c hd
  have hRc : RowsOK H0 c.computeRows := by rw [← hH0]; exact dom_rowsOK c hd
  have hL : CellsOK H0 (movable c) := by rw [← hH0]; exact dom_cellsOK c hd
  obtain ⟨hlen, hcl, hdis⟩ := run_legal H0 hH c.computeRows hRc (movable c) hL _ b1 b2 h1 h2
  have hplaced : ∀ m, m < b2.pos.length → (posAt b2.pos m).placed = true := by
    intro m hm
    rw [List.all_eq_true] at hall
    have hp : b2.pos[m]? = some b2.pos[m] := List.getElem?_eq_getElem hm
    rw [posAt_of_getElem? _ _ _ hp]
    exact hall _ (List.getElem_mem hm)
  have hmlen : (movable c).length = (c.cells.filter fun cl => !cl.fixed).length := by
    rw [movable_eq]; simp
  have hF := exportCells_filter c.cells b2.pos (by rw [hlen, hmlen])
  -- the `m`-th movable cell of the result
  have key : ∀ (m : Nat) (cl' : Cell), ((exportCells c.cells b2.pos).filter fun cl => !cl.fixed)[m]? = some cl' →
      (posAt b2.pos m).placed = true ∧ cl'.x = (posAt b2.pos m).x ∧ cl'.y = (posAt b2.pos m).y ∧
      cl'.placedWidth = (cellAt (movable c) m).w ∧ cl'.placedHeight = (cellAt (movable c) m).h ∧
      cl'.placement = cellRect (movable c) b2.pos m := by
    intro m cl' hm
    rw [hF, List.getElem?_zipWith] at hm
    cases hcm : (c.cells.filter fun cl => !cl.fixed)[m]? with
    | none => rw [hcm] at hm; simp at hm
    | some cl =>
      cases hpm : b2.pos[m]? with
      | none => rw [hcm, hpm] at hm; simp at hm
      | some q =>
        rw [hcm, hpm] at hm
        simp only [Option.some.injEq] at hm
        have hmP : m < b2.pos.length := (List.getElem?_eq_some_iff.mp hpm).1
        have hq := posAt_of_getElem? _ _ _ hpm
        have hpl := hplaced m hmP
        have hcell : cellAt (movable c) m = toLCell cl := by
          apply cellAt_of_getElem?
          rw [movable_eq, List.getElem?_map, hcm]
          rfl
        have hturn := (hcl m hpl).2.1
        rw [hcell, hq] at hturn
        simp only [toLCell] at hturn
        rw [hq] at hpl
        have hcl' : cl' = { cl with x := q.x, y := q.y, orient := q.orient } := by
          rw [← hm]; simp [updCell, hpl]
        have hw : cl'.placedWidth = cl.placedWidth := by
          rw [hcl']; simp only [Cell.placedWidth, hturn]
        have hh : cl'.placedHeight = cl.placedHeight := by
          rw [hcl']; simp only [Cell.placedHeight, hturn]
        refine ⟨by rw [hq]; exact hpl, by rw [hcl', hq], by rw [hcl', hq], by rw [hw, hcell]; rfl,
          by rw [hh, hcell]; rfl, ?_⟩
        simp only [Cell.placement, cellRect, hw, hh, hcell, hq, toLCell]
        rw [hcl']
  constructor
  · intro H hrh' cl' hmem hfix kk hk0 hlt
    have hrows : Circuit.rowHeight (exportPlacement b2 c) = Circuit.rowHeight c := rfl
    rw [hrows, hrh] at hrh'
    injection hrh' with hrh'
    subst hrh'
    rw [export_computeRows]
    have hmemF : cl' ∈ (exportCells c.cells b2.pos).filter fun cl => !cl.fixed := by
      rw [List.mem_filter]
      exact ⟨hmem, by simp [hfix]⟩
    obtain ⟨m, hm⟩ := List.mem_iff_getElem?.mp hmemF
    obtain ⟨hpl, hx, hy, hw, hh, _⟩ := key m cl' hm
    obtain ⟨hmL, _, hlev⟩ := hcl m hpl
    have hcm : cellAt (movable c) m ∈ movable c := by
      simp [cellAt, List.getD_eq_getElem?_getD, List.getElem?_eq_getElem hmL]
    obtain ⟨_, ⟨k, hk1, hhk⟩, _⟩ := hL _ hcm
    have hkk : kk < (k : Int) := by
      rw [hh, hhk, hk_eq_mul] at hlt
      exact Int.lt_of_mul_lt_mul_right hlt (by omega)
    have hj : ((kk.toNat : Nat) : Int) = kk := Int.toNat_of_nonneg hk0
    have hyj := levels_mem H0 k (posAt b2.pos m).y kk.toNat (by omega)
    rw [hj] at hyj
    obtain ⟨r, hr, a1, a2, a3⟩ := hlev k hhk hk1 _ hyj
    exact ⟨r, hr, by rw [a1, hy], by rw [hx]; exact a2, by rw [hx, hw]; exact a3⟩
  · show ((exportCells c.cells b2.pos).filter fun cl => !cl.fixed).Pairwise _
    rw [List.pairwise_iff_getElem]
    intro i j hi hj hij
    obtain ⟨hp1, _, _, _, _, e1⟩ := key i _ (List.getElem?_eq_getElem hi)
    obtain ⟨hp2, _, _, _, _, e2⟩ := key j _ (List.getElem?_eq_getElem hj)
    rw [e1, e2]
    exact hdis i j (by omega) hp1 hp2

end ColoVerif.Legalize
