import ColoVerif.Proofs.GridAlloc
import ColoVerif.Proofs.GridCap
/-
C16 — group capacities at the level of the hierarchical placement: the capacity of a bin of the coarser
view is the sum of its children's; every view's capacities add up to the whole grid's.
-/
namespace ColoVerif.Grid

theorem map_getD_range {α : Type} (l : List α) (d : α) : (List.range l.length).map (fun i => l.getD i d) = l := by
  apply List.ext_getElem
  · simp
  · intro i h1 h2
    simp [List.getD_eq_getElem?_getD] at *
    simp [h2]

/-- the group made of all bins is the total capacity, for a capacity table of the grid's shape -/
theorem groupCapacity_whole (g : DGrid) (hx : g.cap.length = g.nbX) (hy : ∀ col ∈ g.cap, col.length = g.nbY) :
    g.groupCapacity 0 g.nbX 0 g.nbY = g.totalCapacity := by
  unfold DGrid.groupCapacity DGrid.totalCapacity DGrid.binCapacity
  simp only [Nat.sub_zero, Nat.zero_add]
  rw [← hx]
  conv => rhs; rw [← map_getD_range g.cap []]
  rw [List.map_map]
  congr 1
  apply List.map_congr_left
  intro i hi
  simp only [Function.comp]
  have hi' : i < g.cap.length := List.mem_range.mp hi
  have hcol : (g.cap.getD i []).length = g.nbY := by
    apply hy
    simp only [List.getD_eq_getElem?_getD, List.getElem?_eq_getElem hi', Option.getD_some]
    exact List.getElem_mem hi'
  rw [← hcol, map_getD_range]

theorem ofRegions_shape (binSize : Int) (regions : List Rect) :
    (DGrid.ofRegions binSize regions).cap.length = (DGrid.ofRegions binSize regions).nbX ∧
    ∀ col ∈ (DGrid.ofRegions binSize regions).cap, col.length = (DGrid.ofRegions binSize regions).nbY := by
  unfold DGrid.ofRegions DGrid.nbX DGrid.nbY capacities
  simp only
  refine ⟨by simp, ?_⟩
  intro col hcol
  simp only [List.mem_map] at hcol
  obtain ⟨i, _, rfl⟩ := hcol
  simp

theorem coarsenX_fields (s : HState) (hl : s.levelX + 1 < s.hx.nbLevels) :
    s.coarsenX.levelX = s.levelX + 1 ∧ s.coarsenX.levelY = s.levelY ∧ s.coarsenX.grid = s.grid ∧
    s.coarsenX.hx = s.hx ∧ s.coarsenX.hy = s.hy := by
  unfold HState.coarsenX
  simp only [hl, if_true]
  exact ⟨rfl, rfl, rfl, rfl, rfl⟩

theorem coarsenY_fields (s : HState) (hl : s.levelY + 1 < s.hy.nbLevels) :
    s.coarsenY.levelY = s.levelY + 1 ∧ s.coarsenY.levelX = s.levelX ∧ s.coarsenY.grid = s.grid ∧
    s.coarsenY.hx = s.hx ∧ s.coarsenY.hy = s.hy := by
  unfold HState.coarsenY
  simp only [hl, if_true]
  exact ⟨rfl, rfl, rfl, rfl, rfl⟩

/-- after `coarsenX`, the capacity of bin `(p, j)` is the sum of the capacities of the bins `(x, j)` of the
previous view whose parent is `p` -/
theorem coarsenX_capacity (s : HState) (n : Nat) (hok : HierOk s.hx n) (hl : s.levelX + 1 < s.hx.nbLevels)
    (p j : Nat) (hp : p < s.coarsenX.nbX) :
    s.coarsenX.binCapacity p j =
      (((List.range s.nbX).filter fun x => s.parentX x == p).map fun x => s.binCapacity x j).sum := by
  obtain ⟨e1, e2, e3, e4, e5⟩ := coarsenX_fields s hl
  have hp' : p < s.hx.nbBins (s.levelX + 1) := by
    unfold HState.nbX at hp; rw [e4, e1] at hp; exact hp
  unfold HState.binCapacity
  rw [e1, e2, e3, e4, e5]
  exact group_capacity_children_x s.grid s.hx n hok s.levelX p hl hp' _ _

theorem coarsenY_capacity (s : HState) (n : Nat) (hok : HierOk s.hy n) (hl : s.levelY + 1 < s.hy.nbLevels)
    (i p : Nat) (hp : p < s.coarsenY.nbY) :
    s.coarsenY.binCapacity i p =
      (((List.range s.nbY).filter fun y => s.parentY y == p).map fun y => s.binCapacity i y).sum := by
  obtain ⟨e1, e2, e3, e4, e5⟩ := coarsenY_fields s hl
  have hp' : p < s.hy.nbBins (s.levelY + 1) := by
    unfold HState.nbY at hp; rw [e5, e1] at hp; exact hp
  unfold HState.binCapacity
  rw [e1, e2, e3, e4, e5]
  exact group_capacity_children_y s.grid s.hy n hok s.levelY p hl hp' _ _

/-- the capacities of any view add up to the capacity of the whole grid -/
theorem view_total (s : HState) (nX nY : Nat) (hx : HierOk s.hx nX) (hy : HierOk s.hy nY)
    (hlx : s.levelX < s.hx.nbLevels) (hly : s.levelY < s.hy.nbLevels) :
    ((List.range s.nbX).map fun x => ((List.range s.nbY).map fun y => s.binCapacity x y).sum).sum =
      s.grid.groupCapacity 0 nX 0 nY := by
  unfold HState.binCapacity
  have inner : ∀ x, ((List.range s.nbY).map fun y =>
      s.grid.groupCapacity ((s.hx.lim s.levelX).getD x 0) ((s.hx.lim s.levelX).getD (x + 1) 0)
        ((s.hy.lim s.levelY).getD y 0) ((s.hy.lim s.levelY).getD (y + 1) 0)).sum =
      s.grid.groupCapacity ((s.hx.lim s.levelX).getD x 0) ((s.hx.lim s.levelX).getD (x + 1) 0) 0 nY :=
    fun x => level_total_y s.grid s.hy nY hy s.levelY hly _ _
  simp only [inner]
  exact level_total_x s.grid s.hx nX hx s.levelX hlx 0 nY

end ColoVerif.Grid

namespace ColoVerif.Grid

/-! ### the grid and the demands never change -/

theorem updateCellToBin_gd (s : HState) : s.updateCellToBin.grid = s.grid ∧ s.updateCellToBin.demand = s.demand :=
  ⟨rfl, rfl⟩

theorem foldl_gd {α : Type} (f : HState → α → HState)
    (hf : ∀ s a, (f s a).grid = s.grid ∧ (f s a).demand = s.demand) (l : List α) :
    ∀ s, (l.foldl f s).grid = s.grid ∧ (l.foldl f s).demand = s.demand := by
  induction l with
  | nil => intro s; exact ⟨rfl, rfl⟩
  | cons a rest ih =>
    intro s
    obtain ⟨h1, h2⟩ := ih (f s a)
    obtain ⟨h3, h4⟩ := hf s a
    exact ⟨by simp only [List.foldl_cons]; rw [h1, h3], by simp only [List.foldl_cons]; rw [h2, h4]⟩

theorem redistribute_gd (s : HState) (G : List (Nat × Nat)) (c : List (List Nat)) :
    (s.redistribute G c).grid = s.grid ∧ (s.redistribute G c).demand = s.demand := by
  obtain ⟨_, _, h3, h4⟩ := redistribute_static s G c
  exact ⟨h4, h3⟩

theorem apply_gd (s : HState) (op : Op) : (s.apply op).grid = s.grid ∧ (s.apply op).demand = s.demand := by
  cases op with
  | refineX => show s.refineX.grid = _ ∧ s.refineX.demand = _; unfold HState.refineX; split <;> exact ⟨rfl, rfl⟩
  | refineY => show s.refineY.grid = _ ∧ s.refineY.demand = _; unfold HState.refineY; split <;> exact ⟨rfl, rfl⟩
  | coarsenX => show s.coarsenX.grid = _ ∧ s.coarsenX.demand = _; unfold HState.coarsenX; split <;> exact ⟨rfl, rfl⟩
  | coarsenY => show s.coarsenY.grid = _ ∧ s.coarsenY.demand = _; unfold HState.coarsenY; split <;> exact ⟨rfl, rfl⟩
  | rebisect x1 y1 x2 y2 o k =>
    show (s.rebisectSk x1 y1 x2 y2 o k).grid = _ ∧ (s.rebisectSk x1 y1 x2 y2 o k).demand = _
    unfold HState.rebisectSk
    split
    · exact ⟨rfl, rfl⟩
    · exact redistribute_gd s _ _
  | reoptimize c o k a =>
    show (s.reoptimizeSk c o k a).grid = _ ∧ (s.reoptimizeSk c o k a).demand = _
    unfold HState.reoptimizeSk
    split
    · unfold HState.rebisectSk
      split
      · exact ⟨rfl, rfl⟩
      · exact redistribute_gd s _ _
    · simp only
      split
      · exact ⟨rfl, rfl⟩
      · exact redistribute_gd s _ _
  | xTransport a =>
    show (s.improveXTransportSk a).grid = _ ∧ (s.improveXTransportSk a).demand = _
    unfold HState.improveXTransportSk
    exact foldl_gd _ (fun st j => by unfold HState.xTransportRow; exact redistribute_gd st _ _) _ s
  | yTransport a =>
    show (s.improveYTransportSk a).grid = _ ∧ (s.improveYTransportSk a).demand = _
    unfold HState.improveYTransportSk
    exact foldl_gd _ (fun st j => by unfold HState.yTransportCol; exact redistribute_gd st _ _) _ s
  | redistribute G c => exact redistribute_gd s G c

theorem run_gd (ops : List Op) (s : HState) : (s.run ops).grid = s.grid ∧ (s.run ops).demand = s.demand := by
  unfold HState.run
  exact foldl_gd HState.apply apply_gd ops s

theorem ofRegions_nb_pos (binSize : Int) (regions : List Rect) :
    1 ≤ (DGrid.ofRegions binSize regions).nbX ∧ 1 ≤ (DGrid.ofRegions binSize regions).nbY := by
  unfold DGrid.ofRegions DGrid.nbX DGrid.nbY computeSubdivisions
  simp only [List.length_map, List.length_range, Nat.add_sub_cancel]
  exact ⟨nbBinsFor_pos _ _, nbBinsFor_pos _ _⟩

/-- the invariant in plain words, for one cell -/
theorem allocInv_explicit (s : HState) (h : AllocInv s) (c : Nat) :
    ((c < s.nbCells ∧ s.cellDemand c > 0) →
      ∃ i j, i < s.nbX ∧ j < s.nbY ∧ (s.cells i j).count c = 1 ∧
        (∀ i' j', c ∈ s.cells i' j' → i' = i ∧ j' = j) ∧
        s.cbx.getD c (-1) = (i : Int) ∧ s.cby.getD c (-1) = (j : Int)) ∧
    (¬ (c < s.nbCells ∧ s.cellDemand c > 0) →
      (∀ i j, c ∉ s.cells i j) ∧ s.cbx.getD c (-1) = -1 ∧ s.cby.getD c (-1) = -1) := by
  constructor
  · intro hc
    obtain ⟨i, j, hm⟩ := (h.covers c).mp hc
    have hr := h.in_range hm
    have ha := h.agree i j c hm
    refine ⟨i, j, hr.1, hr.2, List.count_eq_one_of_mem (h.nodup i j) hm, ?_, ha.1, ha.2⟩
    intro i' j' hm'
    exact h.disjoint _ _ _ _ c hm' hm
  · intro hc
    have hn : ∀ i j, c ∉ s.cells i j := fun i j hm => hc ((h.covers c).mpr ⟨i, j, hm⟩)
    exact ⟨hn, h.none c hn⟩

end ColoVerif.Grid
