import ColoVerif.Proofs.CheckedCores
import ColoVerif.Proofs.CheckedIncrNet
import ColoVerif.Model.PinOffsetChecked
/-
From the circuit-level C07 domain (cells within ±2^22 with sizes in [0, 2^22], pin offsets within
±2^22) to the hypotheses of the per-core no-fault theorems.
-/
namespace ColoVerif.Checked
open ColoVerif

local notation "M22" => (4194304 : Int)

/-- a pin of the C07 domain: raw offsets within ±2^22 -/
def PinOk (p : Pin) : Prop := -M22 ≤ p.xo ∧ p.xo ≤ M22 ∧ -M22 ≤ p.yo ∧ p.yo ≤ M22

theorem cellOk_default : CellOk (default : Cell) := by
  unfold CellOk; decide

theorem pinXOffsetC_ok {cl : Cell} {p : Pin} (hc : CellOk cl) (hp : PinOk p) :
    pinXOffsetC cl p = .ok (Circuit.pinXOffset cl p) ∧
    -8388608 ≤ Circuit.pinXOffset cl p ∧ Circuit.pinXOffset cl p ≤ 8388608 := by
  obtain ⟨_, _, _, _, w0, w1, h0, h1⟩ := hc
  obtain ⟨p1, p2, p3, p4⟩ := hp
  have hpw : 0 ≤ cl.placedWidth ∧ cl.placedWidth ≤ M22 := by unfold Cell.placedWidth; split <;> omega
  have ho : -M22 ≤ (if cl.orient.isTurn then p.yo else p.xo) ∧ (if cl.orient.isTurn then p.yo else p.xo) ≤ M22 := by
    split <;> omega
  unfold pinXOffsetC Circuit.pinXOffset
  by_cases hf : Circuit.xFlipped cl.orient = true
  · simp only [hf, if_true]
    exact ⟨chk32_ok' (by omega) (by omega), by omega, by omega⟩
  · simp only [hf, Bool.false_eq_true, if_false]
    exact ⟨trivial, by omega, by omega⟩

theorem pinYOffsetC_ok {cl : Cell} {p : Pin} (hc : CellOk cl) (hp : PinOk p) :
    pinYOffsetC cl p = .ok (Circuit.pinYOffset cl p) ∧
    -8388608 ≤ Circuit.pinYOffset cl p ∧ Circuit.pinYOffset cl p ≤ 8388608 := by
  obtain ⟨_, _, _, _, w0, w1, h0, h1⟩ := hc
  obtain ⟨p1, p2, p3, p4⟩ := hp
  have hph : 0 ≤ cl.placedHeight ∧ cl.placedHeight ≤ M22 := by unfold Cell.placedHeight; split <;> omega
  have ho : -M22 ≤ (if cl.orient.isTurn then p.xo else p.yo) ∧ (if cl.orient.isTurn then p.xo else p.yo) ≤ M22 := by
    split <;> omega
  unfold pinYOffsetC Circuit.pinYOffset
  by_cases hf : Circuit.yFlipped cl.orient = true
  · simp only [hf, if_true]
    exact ⟨chk32_ok' (by omega) (by omega), by omega, by omega⟩
  · simp only [hf, Bool.false_eq_true, if_false]
    exact ⟨trivial, by omega, by omega⟩

/-- a circuit of the C07 domain, as far as the wirelength models are concerned -/
structure CircuitOk (c : Circuit) : Prop where
  cells : ∀ cl ∈ c.cells, CellOk cl
  pins : ∀ n ∈ c.nets, ∀ p ∈ n.pins, PinOk p
  nets : c.nets.length ≤ 2147483648

theorem CircuitOk.cell {c : Circuit} (h : CircuitOk c) (i : Nat) : CellOk (c.cell i) :=
  IncrNet.cell_forall c CellOk cellOk_default h.cells i

end ColoVerif.Checked
