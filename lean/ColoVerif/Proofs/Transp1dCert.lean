import ColoVerif.Model.Transp1d
import Mathlib.Tactic.Ring
import Mathlib.Tactic.Linarith
/-
Weak duality for the 1-D transportation problem
   min Σ a_ij |u_i - v_j|   s.t.  Σ_j a_ij = s_i,  Σ_i a_ij ≤ d_j,  a ≥ 0
with potentials `al i` (sources) and `be j ≥ 0` (sinks):  al i - be j ≤ |u_i - v_j|.
Every feasible plan costs at least  Σ al_i s_i - Σ be_j d_j, and a plan that satisfies
complementary slackness costs exactly that.  (Own proof for C14; independent of C13's.)
-/
namespace ColoVerif.Transp1d

theorem allBelow_iff (n : Nat) (f : Nat → Bool) :
    allBelow n f = true ↔ ∀ k, k < n → f k = true := by
  induction n with
  | zero => simp [allBelow]
  | succ n ih =>
    simp only [allBelow, Bool.and_eq_true, ih]
    constructor
    · rintro ⟨h1, h2⟩ k hk
      rcases Nat.lt_succ_iff_lt_or_eq.mp hk with h | h
      · exact h2 k h
      · subst h; exact h1
    · intro h
      exact ⟨h n (Nat.lt_succ_self n), fun k hk => h k (Nat.lt_succ_of_lt hk)⟩

/-- `Σ_{k<n} f k` -/
def sumTo : Nat → (Nat → Int) → Int
  | 0, _ => 0
  | n + 1, f => sumTo n f + f n

theorem sumTo_congr (n : Nat) (f g : Nat → Int) (h : ∀ k, k < n → f k = g k) :
    sumTo n f = sumTo n g := by
  induction n with
  | zero => rfl
  | succ n ih =>
    simp only [sumTo]
    rw [ih (fun k hk => h k (Nat.lt_succ_of_lt hk)), h n (Nat.lt_succ_self n)]

theorem sumTo_le (n : Nat) (f g : Nat → Int) (h : ∀ k, k < n → f k ≤ g k) :
    sumTo n f ≤ sumTo n g := by
  induction n with
  | zero => exact Int.le_refl _
  | succ n ih =>
    simp only [sumTo]
    have h1 := ih (fun k hk => h k (Nat.lt_succ_of_lt hk))
    have h2 := h n (Nat.lt_succ_self n)
    omega

theorem sumTo_zero (n : Nat) : sumTo n (fun _ => 0) = 0 := by
  induction n with
  | zero => rfl
  | succ n ih => simp only [sumTo, ih]; rfl

theorem sumTo_single (n i0 : Nat) (g r : Nat → Int) (a : Int) :
    sumTo n (fun i => g i * ((if i0 = i then a else 0) + r i))
      = (if i0 < n then g i0 * a else 0) + sumTo n (fun i => g i * r i) := by
  induction n with
  | zero => simp [sumTo]
  | succ n ih =>
    simp only [sumTo, ih]
    by_cases h1 : i0 = n
    · subst h1
      simp
      ring
    · by_cases h2 : i0 < n
      · have h3 : i0 < n + 1 := Nat.lt_succ_of_lt h2
        simp [h1, h2, h3]
        ring
      · have h3 : ¬ i0 < n + 1 := by omega
        simp [h1, h2, h3]

/-- `Σ_e a_e (al i_e - be j_e)` -/
def dualVal (al be : Nat → Int) : Plan → Int
  | [] => 0
  | (i, j, a) :: es => a * (al i - be j) + dualVal al be es

theorem dualVal_eq (n m : Nat) (al be : Nat → Int) (plan : Plan)
    (h : entriesOk n m plan = true) :
    dualVal al be plan
      = sumTo n (fun i => al i * rowSum plan i) - sumTo m (fun j => be j * colSum plan j) := by
  induction plan with
  | nil => simp [dualVal, rowSum, colSum, sumTo_zero]
  | cons e es ih =>
    obtain ⟨i, j, a⟩ := e
    simp only [entriesOk, List.all_cons, Bool.and_eq_true, decide_eq_true_eq] at h
    obtain ⟨⟨⟨hi, hj⟩, _⟩, hes⟩ := h
    have ih' := ih (by simpa [entriesOk] using hes)
    simp only [dualVal, rowSum, colSum, sumTo_single, ih', if_pos hi, if_pos hj]
    ring

theorem planCost_ge_dualVal (pb : Problem) (al be : Nat → Int) (plan : Plan)
    (hok : entriesOk pb.u.length pb.v.length plan = true)
    (hf : ∀ i j, i < pb.u.length → j < pb.v.length → al i - be j ≤ cst pb i j) :
    dualVal al be plan ≤ planCost pb plan := by
  induction plan with
  | nil => simp [dualVal, planCost]
  | cons e es ih =>
    obtain ⟨i, j, a⟩ := e
    simp only [entriesOk, List.all_cons, Bool.and_eq_true, decide_eq_true_eq] at hok
    obtain ⟨⟨⟨hi, hj⟩, ha⟩, hes⟩ := hok
    have ih' := ih (by simpa [entriesOk] using hes)
    have h1 := hf i j hi hj
    have h2 : a * (al i - be j) ≤ a * cst pb i j :=
      Int.mul_le_mul_of_nonneg_left h1 (Int.le_of_lt ha)
    simp only [dualVal, planCost]
    simp only [cst] at h2
    omega

theorem planCost_eq_dualVal (pb : Problem) (al be : Nat → Int) (plan : Plan)
    (hcs : ∀ e ∈ plan, al e.1 - be e.2.1 = cst pb e.1 e.2.1) :
    planCost pb plan = dualVal al be plan := by
  induction plan with
  | nil => simp [dualVal, planCost]
  | cons e es ih =>
    obtain ⟨i, j, a⟩ := e
    have h1 := hcs (i, j, a) (List.mem_cons_self ..)
    have ih' := ih (fun e he => hcs e (List.mem_cons_of_mem _ he))
    simp only [dualVal, planCost, ih']
    simp only [cst] at h1
    rw [h1]

theorem validPlan_iff (pb : Problem) (plan : Plan) :
    validPlan pb plan = true ↔
      entriesOk pb.u.length pb.v.length plan = true ∧
      (∀ i, i < pb.u.length → rowSum plan i = pb.s.getD i 0) ∧
      (∀ j, j < pb.v.length → colSum plan j ≤ pb.d.getD j 0) := by
  simp only [validPlan, Bool.and_eq_true, allBelow_iff, decide_eq_true_eq]
  constructor
  · rintro ⟨⟨h1, h2⟩, h3⟩; exact ⟨h1, h2, h3⟩
  · rintro ⟨h1, h2, h3⟩; exact ⟨⟨h1, h2⟩, h3⟩

/-- Weak duality + complementary slackness: a plan that passes `certOk` with some potentials
costs no more than any valid plan. -/
theorem cert_optimal_core (pb : Problem) (plan plan' : Plan) (al be : List Int)
    (hc : certOk pb plan al be = true) (hv : validPlan pb plan' = true) :
    planCost pb plan ≤ planCost pb plan' := by
  simp only [certOk, Bool.and_eq_true, allBelow_iff, decide_eq_true_eq, List.all_eq_true] at hc
  obtain ⟨⟨⟨⟨hval, hbe⟩, hfeas⟩, hcs⟩, hsat⟩ := hc
  obtain ⟨hok, hrow, hcol⟩ := (validPlan_iff pb plan).mp hval
  obtain ⟨hok', hrow', hcol'⟩ := (validPlan_iff pb plan').mp hv
  let alf : Nat → Int := fun i => al.getD i 0
  let bef : Nat → Int := fun j => be.getD j 0
  have hf : ∀ i j, i < pb.u.length → j < pb.v.length → alf i - bef j ≤ cst pb i j :=
    fun i j hi hj => hfeas i hi j hj
  -- lower bound for plan'
  have h1 := planCost_ge_dualVal pb alf bef plan' hok' hf
  rw [dualVal_eq pb.u.length pb.v.length alf bef plan' hok'] at h1
  -- exact value for plan
  have h2 := planCost_eq_dualVal pb alf bef plan hcs
  rw [dualVal_eq pb.u.length pb.v.length alf bef plan hok] at h2
  have r1 : sumTo pb.u.length (fun i => alf i * rowSum plan i)
      = sumTo pb.u.length (fun i => alf i * rowSum plan' i) :=
    sumTo_congr _ _ _ (fun k hk => by show alf k * rowSum plan k = alf k * rowSum plan' k; rw [hrow k hk, hrow' k hk])
  have c1 : sumTo pb.v.length (fun j => bef j * colSum plan j)
      = sumTo pb.v.length (fun j => bef j * pb.d.getD j 0) :=
    sumTo_congr _ _ _ (fun k hk => by
      show bef k * colSum plan k = bef k * pb.d.getD k 0
      by_cases hp : 0 < bef k
      · rw [hsat k hk hp]
      · have h0 : bef k = 0 := by have := hbe k hk; simp only [bef] at hp ⊢; omega
        rw [h0]; simp)
  have c2 : sumTo pb.v.length (fun j => bef j * colSum plan' j)
      ≤ sumTo pb.v.length (fun j => bef j * pb.d.getD j 0) :=
    sumTo_le _ _ _ (fun k hk => Int.mul_le_mul_of_nonneg_left (hcol' k hk) (hbe k hk))
  omega

end ColoVerif.Transp1d
