import ColoVerif.Proofs.DetAccepted
import ColoVerif.Proofs.DetReorderReg
/-
`DetailedPlacer::runReordering` as modelled (Model/DetReorderPass.lean) is a history of accepted moves:
on an object in sync whose placement satisfies `Inv`, every window of every group of rows registers
distinct valid placed cells (Proofs/DetReorderReg.lean), so every window is the modelled `RowReordering`
pass of `reorder_window_on_object`; `Inv`, the rows and "placed cells stay placed" carry over from one
window to the next.
-/
namespace ColoVerif.DetPlace
open State

theorem reorderWindow_info_cells {p q : Placer} {ops : List Op} {info : WindowInfo} {w : List Int}
    (e : p.reorderWindow w = .ok (q, ops, info)) :
    ∃ rr0, addCells p.pl (RowReord.new (p.xt, p.yt)) w = .ok rr0 ∧ info.cells = sortDesc rr0.cells := by
  unfold Placer.reorderWindow at e
  split at e
  · cases e
  · rename_i rr0 e0
    split at e
    · cases e
    · injection e with e
      have e3 := congrArg (·.2.2) e
      simp only [] at e3
      refine ⟨rr0, e0, ?_⟩
      rw [← e3]
      show (rr0.run modelStore p.pl).cells = _
      unfold RowReord.run; rw [runRegionChoice_cells]

/-- a window of distinct valid placed cells is well-formed on a placement satisfying `Inv` -/
theorem windowOk_of_inv {p : Placer} (h : Inv p.pl) {w : List Int} (hn : w.Nodup)
    (hw : ∀ c ∈ w, p.pl.validCell c ∧ p.pl.row c ≠ -1) : WindowOk p w := by
  intro q ops info e
  obtain ⟨rr0, e0, hc⟩ := reorderWindow_info_cells e
  obtain ⟨h1, h2⟩ := addCells_registered p.pl h w _ rr0 hn hw e0
  rw [hc]
  have hp := sortDesc_perm rr0.cells
  exact ⟨hp.symm.nodup h1, fun k hk => (hw k (h2 k (hp.mem_iff.1 hk))).1⟩

/-- what one window keeps -/
theorem window_keeps {c : Circuit} {p q : Placer} {w : List Int} {ops : List Op} {info : WindowInfo} (hs : Sync c p)
    (hi : Inv p.pl) (ha : Lg.AllPlaced p.pl) (hw : WindowOk p w) (e : p.reorderWindow w = .ok (q, ops, info)) :
    Sync c q ∧ Inv q.pl ∧ q.pl.rows = p.pl.rows ∧ q.pl.nCells = p.pl.nCells ∧ q.pl.width = p.pl.width ∧
    Lg.AllPlaced q.pl := by
  obtain ⟨hr, hrun⟩ := window_reaches hs hw e
  obtain ⟨_, e'⟩ := run_sync ops p q hs hrun
  have hk := Lg.run_keep e'
  exact ⟨hr.1, run_inv hi e', hk.1, hk.2.1, (run_frame e').1, Lg.run_allPlaced ha e'⟩

/-- one group of rows -/
theorem reorderingOnRows_reaches {c : Circuit} {p : Placer} {rows : List Int} {m : Int}
    {r : Placer × List Op × List WindowInfo} (hs : Sync c p) (hi : Inv p.pl) (ha : Lg.AllPlaced p.pl) (hn : rows.Nodup)
    (hr : ∀ x ∈ rows, p.pl.validRow x) (e : p.runReorderingOnRows rows m = .ok r) :
    Reaches c p r.1 ∧ p.run r.2.1 = .ok r.1 ∧ Inv r.1.pl ∧ r.1.pl.rows = p.pl.rows ∧ Lg.AllPlaced r.1.pl := by
  unfold Placer.runReorderingOnRows at e
  have hok := reorderWindows_ok p.pl hi rows hn hr m
  -- invariant of the loop: in sync, `Inv`, same rows, cell count and widths, every optimised cell placed
  let J : Placer → Prop := fun p' => Sync c p' ∧ Inv p'.pl ∧ p'.pl.rows = p.pl.rows ∧ p'.pl.nCells = p.pl.nCells ∧
    p'.pl.width = p.pl.width ∧ Lg.AllPlaced p'.pl
  have hJw : ∀ w ∈ reorderWindows (p.pl.rowCellsSorted rows) m, ∀ p', J p' → WindowOk p' w := by
    intro w hw p' hj
    obtain ⟨_, hi', _, hn', hw', ha'⟩ := hj
    apply windowOk_of_inv hi' (hok w hw).1
    intro k hk
    obtain ⟨v1, v2, _⟩ := (hok w hw).2 k hk
    have v1' : p'.pl.validCell k := by unfold validCell at v1 ⊢; rw [hn']; exact v1
    exact ⟨v1', ha' k v1' (by rw [hw']; have := hi.placed_width v1 v2; omega)⟩
  have := windowsLoop_reaches (c := c) J (reorderWindows (p.pl.rowCellsSorted rows) m) p r hs
    ⟨hs, hi, rfl, rfl, rfl, ha⟩ hJw
    (by
      intro w hw p' q ops info hj e'
      obtain ⟨hs', hi', hr', hn', hw', ha'⟩ := hj
      obtain ⟨k1, k2, k3, k4, k5, k6⟩ := window_keeps hs' hi' ha' (hJw w hw p' ⟨hs', hi', hr', hn', hw', ha'⟩) e'
      exact ⟨k1, k2, k3.trans hr', k4.trans hn', k5.trans hw', k6⟩)
    e
  exact ⟨this.1, this.2.1, this.2.2.2.1, this.2.2.2.2.1, this.2.2.2.2.2.2.2⟩

/-- the loop over the rows -/
theorem reorderRowsLoop_reaches {c : Circuit} (nbh : RowNbh) (m : Int) (R : List Row)
    (hnb : ∀ r : Int, 0 ≤ r ∧ r < R.length → (r :: nbh.rowsAbove r).Nodup ∧ ∀ j ∈ nbh.rowsAbove r, 0 ≤ j ∧ j < (R.length : Int)) :
    ∀ (rs : List Int) (p : Placer) (x : Placer × List Op × List WindowInfo), Sync c p → Inv p.pl → Lg.AllPlaced p.pl →
      p.pl.rows = R → (∀ r ∈ rs, 0 ≤ r ∧ r < (R.length : Int)) → Placer.reorderRowsLoop nbh m p rs = .ok x →
      Reaches c p x.1 ∧ p.run x.2.1 = .ok x.1 ∧ Inv x.1.pl ∧ Lg.AllPlaced x.1.pl
  | [], p, x, hs, hi, ha, _, _, e => by
    simp only [Placer.reorderRowsLoop] at e
    injection e with e; subst e
    exact ⟨Reaches.refl hs, rfl, hi, ha⟩
  | r :: rs, p, x, hs, hi, ha, hR, hrs, e => by
    unfold Placer.reorderRowsLoop at e
    split at e
    · cases e
    · rename_i y ey
      split at e
      · cases e
      · rename_i z ez
        injection e with e; subst e
        have hr := hrs r (List.mem_cons_self ..)
        obtain ⟨n1, n2⟩ := hnb r hr
        have hvalid : ∀ x ∈ r :: nbh.rowsAbove r, p.pl.validRow x := by
          intro x hx
          unfold validRow nRows; rw [hR]
          rcases List.mem_cons.1 hx with rfl | hx
          · exact hr
          · exact n2 x hx
        obtain ⟨g1, g2, g3, g4, g5⟩ := reorderingOnRows_reaches hs hi ha n1 hvalid ey
        obtain ⟨k1, k2, k3, k4⟩ := reorderRowsLoop_reaches nbh m R hnb rs y.1 z g1.1 g3 g5 (g4.trans hR)
          (fun r' hr' => hrs r' (List.mem_cons_of_mem _ hr')) ez
        exact ⟨g1.trans k1, run_append g2 k2, k3, k4⟩

/-- **`runReordering(maxNbRows, maxNbCells)` is a history of accepted moves.** -/
theorem runReordering_reaches {c : Circuit} {p q : Placer} {a b : Int} {ops : List Op} {infos : List WindowInfo}
    (hs : Sync c p) (hi : Inv p.pl) (ha : Lg.AllPlaced p.pl) (e : p.runReordering a b = .ok (q, ops, infos)) :
    Reaches c p q ∧ p.run ops = .ok q ∧ Inv q.pl ∧ Lg.AllPlaced q.pl := by
  unfold Placer.runReordering at e
  split at e
  · injection e with e
    have e1 : p = q := congrArg (·.1) e
    have e2 : [] = ops := congrArg (·.2.1) e
    subst e1; subst e2
    exact ⟨Reaches.refl hs, rfl, hi, ha⟩
  · have := reorderRowsLoop_reaches (c := c) (RowNbh.ofRows p.pl.rows (a - 1)) b p.pl.rows
      (fun r hr => rowsAbove_ok p.pl.rows (a - 1) r hr) (State.intsUpTo p.pl.nRows) p (q, ops, infos) hs hi ha rfl
      (by
        intro r hr
        unfold State.intsUpTo at hr
        obtain ⟨n, hn, rfl⟩ := List.mem_map.1 hr
        have := List.mem_range.1 hn
        unfold nRows at this
        exact ⟨Int.natCast_nonneg n, by show (n : Int) < _; omega⟩) e
    exact this

end ColoVerif.DetPlace
