import ColoVerif.Proofs.DetReorderPlacer
import ColoVerif.Proofs.DetSearch
import ColoVerif.Model.DetReorderPass
/-
The moves the optimiser makes, as a relation on placements (`Accepted`, `History`: used by
Properties/C05.lean), and the bridge from the modelled loops to it:
* a search pass of the whole-object model (`SearchTrace`, Proofs/DetSearch.lean: the moves
  `runSwaps` / `runInserts` perform) is a `History` for the real objective (`trace_history`);
* a reordering pass (`Placer.reorderWindowsLoop`, `reorderRowsLoop`, `runReordering`) is a `History`
  as soon as every window registers distinct valid cells (`WindowsOk`, discharged from `Inv` in
  Proofs/DetReorderReg.lean).
-/
namespace ColoVerif.DetPlace
open State

/-- a leaf of `RowReordering` whose recorded value is the objective with every registered cell at the
leaf's position on its region's row — i.e. (`reorderWriteback_value`) the objective of the placement its
write-back produces -/
def FaithfulLeaf (V : Value) (s : State) (l : Leaf) : Prop := l.value = s.leafValue V l.regions

/-- one move the optimiser makes: a swap / insert chosen by the acceptance rule (`bestSwap`,
`bestSwapUpdate`, `bestInsert`), a shift write-back that does not increase the value (optimality of
lemon's NetworkSimplex: **assumed**, checked on every logged shift), or a `RowReordering` pass over a
window of cells — the modelled enumeration itself (Model/DetReorder.lean), no assumption on its leaves -/
inductive Accepted (V : Value) : State → State → Prop
  | swap {s t : State} (k b : Int) (cands : List Int) :
      s.bestSwapChoice V k cands = some b → s.step (.swap k b) = .ok t → Accepted V s t
  | insert {s t : State} (k r b : Int) (cands : List Int) :
      s.bestInsertChoice V k r cands = some b → s.step (.insert k r b) = .ok t → Accepted V s t
  | shift {s t : State} (mv : List (Int × Int)) :
      s.step (.shift mv) = .ok t → t.value V ≤ s.value V → Accepted V s t
  | reorder {s t : State} (window : List Int) :
      s.reorderWindow V window = .ok t → Accepted V s t

/-- `s`, then the successive states of a history of accepted moves -/
inductive History (V : Value) : State → List State → Prop
  | nil (s : State) : History V s []
  | cons {s t : State} {rest : List State} : Accepted V s t → History V t rest → History V s (t :: rest)

theorem History.append {V : Value} {s t : State} {l1 l2 : List State} (h1 : History V s l1)
    (hl : (s :: l1).getLast? = some t) (h2 : History V t l2) : History V s (l1 ++ l2) := by
  induction h1 with
  | nil s => simp at hl; subst hl; exact h2
  | cons a _ ih =>
    refine .cons a (ih ?_)
    simpa [List.getLast?_cons_cons] using hl

theorem getLast_append_hist {s t u : State} {l1 l2 : List State} (hl : (s :: l1).getLast? = some t)
    (hl2 : (t :: l2).getLast? = some u) : (s :: (l1 ++ l2)).getLast? = some u := by
  cases l2 with
  | nil => simp at hl2; subst hl2; simpa using hl
  | cons x xs =>
    have : (s :: (l1 ++ x :: xs)) = (s :: l1) ++ (x :: xs) := rfl
    rw [this, List.getLast?_append]
    simp only [List.getLast?_cons_cons] at hl2
    rw [hl2]; rfl

/-- `q` is reached from `p` by a history of accepted moves for the real objective, and the object is
in sync again -/
def Reaches (c : Circuit) (p q : Placer) : Prop :=
  Sync c q ∧ ∃ states, History (circuitValue c) p.pl states ∧ (p.pl :: states).getLast? = some q.pl

theorem Reaches.refl {c : Circuit} {p : Placer} (h : Sync c p) : Reaches c p p := ⟨h, [], .nil _, rfl⟩

theorem Reaches.trans {c : Circuit} {p q r : Placer} (h1 : Reaches c p q) (h2 : Reaches c q r) : Reaches c p r := by
  obtain ⟨_, l1, a1, b1⟩ := h1
  obtain ⟨s2, l2, a2, b2⟩ := h2
  exact ⟨s2, l1 ++ l2, a1.append b1 a2, getLast_append_hist b1 b2⟩

/-- a move the whole-object scan chose is a move the acceptance rule on the coordinate vectors chooses
(among the candidate list reduced to the chosen cell) -/
theorem swap_accepted {c : Circuit} {p q : Placer} {k b : Int} {cands : List Int} (hs : Sync c p)
    (hch : p.bestSwapChoice k cands = some b) (e : p.step (.swap k b) = .ok q) :
    Sync c q ∧ Accepted (circuitValue c) p.pl q.pl := by
  obtain ⟨hsq, e'⟩ := step_sync hs e
  refine ⟨hsq, .swap k b [b] ?_ e'⟩
  have hg : p.pl.liveCell k = true ∧ p.pl.liveCell b = true := by
    simp only [Placer.step] at e
    split at e
    · rename_i hg; simpa using hg
    · cases e
  obtain ⟨v, hv, hlt⟩ := bestSwapChoice_improves hch
  have heq := (valueOnSwap_eq hs ((liveCell_iff _ _).1 hg.1).1 ((liveCell_iff _ _).1 hg.2).1).1
  rw [heq] at hv
  unfold State.bestSwapChoice
  simp only [scan, hv]
  rw [← hs.value]
  simp [hlt]

theorem insert_accepted {c : Circuit} {p q : Placer} {k r b : Int} {cands : List Int} (hs : Sync c p)
    (hch : p.bestInsertChoice k r cands = some b) (e : p.step (.insert k r b) = .ok q) :
    Sync c q ∧ Accepted (circuitValue c) p.pl q.pl := by
  obtain ⟨hsq, e'⟩ := step_sync hs e
  refine ⟨hsq, .insert k r b [b] ?_ e'⟩
  have hg : p.pl.liveCell k = true := by
    simp only [Placer.step] at e
    split at e
    · rename_i hg; simp only [Bool.and_eq_true] at hg; exact hg.1
    · cases e
  obtain ⟨v, hv, hlt⟩ := bestInsertChoice_improves hch
  have heq := (valueOnInsert_eq hs (k := k) (r := r) (q := b) ((liveCell_iff _ _).1 hg).1).1
  rw [heq] at hv
  unfold State.bestInsertChoice
  simp only [scan, hv]
  rw [← hs.value]
  simp [hlt]

/-- **A search pass is a history of accepted moves.** -/
theorem trace_history {c : Circuit} {p q : Placer} {ops : List Op} (t : SearchTrace p ops q) (hs : Sync c p) :
    Reaches c p q := by
  induction t with
  | nil p => exact Reaches.refl hs
  | swap k b cands hch _ e _ ih =>
    obtain ⟨hs', a⟩ := swap_accepted hs hch e
    exact Reaches.trans ⟨hs', [_], .cons a (.nil _), rfl⟩ (ih hs')
  | insert k r b cands hch _ e _ ih =>
    obtain ⟨hs', a⟩ := insert_accepted hs hch e
    exact Reaches.trans ⟨hs', [_], .cons a (.nil _), rfl⟩ (ih hs')

/-! ### reordering passes -/

/-- every window the loop hands to `RowReordering` registers distinct valid cells, in the object the
window is applied to -/
def WindowOk (p : Placer) (w : List Int) : Prop :=
  ∀ q ops info, p.reorderWindow w = .ok (q, ops, info) → info.cells.Nodup ∧ ∀ k ∈ info.cells, p.pl.validCell k

theorem window_reaches {c : Circuit} {p q : Placer} {w : List Int} {ops : List Op} {info : WindowInfo} (hs : Sync c p)
    (hw : WindowOk p w) (e : p.reorderWindow w = .ok (q, ops, info)) : Reaches c p q ∧ p.run ops = .ok q := by
  obtain ⟨e1, hsq, hrun, _⟩ := reorderWindow_placer c p q w ops info hs e (hw q ops info e)
  exact ⟨⟨hsq, [q.pl], .cons (.reorder w e1) (.nil _), rfl⟩, hrun⟩

theorem run_append {p q r : Placer} : ∀ {ops ops' : List Op}, p.run ops = .ok q → q.run ops' = .ok r → p.run (ops ++ ops') = .ok r
  | [], _, h1, h2 => by simp only [Placer.run] at h1; injection h1 with h1; subst h1; exact h2
  | op :: ops, ops', h1, h2 => by
    simp only [List.cons_append, Placer.run] at h1 ⊢
    split at h1
    · cases h1
    · exact run_append h1 h2

/-- the loop over the windows of one group of rows, under an invariant `J` of the object that makes every
window well-formed and that every window keeps -/
theorem windowsLoop_reaches {c : Circuit} (J : Placer → Prop) : ∀ (ws : List (List Int)) (p : Placer)
    (r : Placer × List Op × List WindowInfo), Sync c p → J p →
    (∀ w ∈ ws, ∀ p', J p' → WindowOk p' w) →
    (∀ w ∈ ws, ∀ p' q ops info, J p' → p'.reorderWindow w = .ok (q, ops, info) → J q) →
    p.reorderWindowsLoop ws = .ok r → Reaches c p r.1 ∧ p.run r.2.1 = .ok r.1 ∧ J r.1
  | [], p, r, hs, hj, _, _, e => by
    simp only [Placer.reorderWindowsLoop] at e
    injection e with e; subst e
    exact ⟨Reaches.refl hs, rfl, hj⟩
  | w :: ws, p, r, hs, hj, hok, hst, e => by
    unfold Placer.reorderWindowsLoop at e
    split at e
    · cases e
    · rename_i x ex
      split at e
      · cases e
      · rename_i y ey
        injection e with e; subst e
        obtain ⟨q, ops, info⟩ := x
        obtain ⟨h1, h2⟩ := window_reaches hs (hok w (List.mem_cons_self ..) p hj) ex
        have hjq := hst w (List.mem_cons_self ..) p q ops info hj ex
        obtain ⟨g1, g2, g3⟩ := windowsLoop_reaches J ws q y h1.1 hjq
          (fun w' hw' => hok w' (List.mem_cons_of_mem _ hw')) (fun w' hw' => hst w' (List.mem_cons_of_mem _ hw')) ey
        exact ⟨h1.trans g1, run_append h2 g2, g3⟩

end ColoVerif.DetPlace
