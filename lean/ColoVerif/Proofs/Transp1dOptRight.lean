import ColoVerif.Proofs.Transp1dOptStep
/-
The "right side" of the loop invariant of `push`: pushing any suffix of the run that ends with the
source being pushed to the right does not decrease the cost (`LoopInv.rinv`, `LoopInv.rtop`).
-/
namespace ColoVerif.Transp1d

/-- the recorded facts make the left marginal cost of the top run non-negative at `x + 1` -/
theorem right_lamU_succ_nonneg (sv : Solver) (l : List Int) (hf : Facts sv l) (x : Int)
    (hx : 0 ≤ x) : 0 ≤ lamU sv l (x + 1) := by
  cases l with
  | nil => simp only [lamU]; exact Int.le_refl _
  | cons pk rest =>
    have hf' : FactsTop sv pk rest ∧ Facts sv rest := hf
    by_cases h : x + 1 ≤ pk
    · exact hf'.1.f1 (x + 1) (by omega) h
    · simp only [lamU, if_neg h]; exact Int.le_refl _

/-- pushing the last `j` sources of the run sitting at `x` to the right costs at least what
pushing the run sitting at `x + 1` to the left gains -/
theorem right_lamRj_add_lamU_nonneg (sv : Solver)
    (Smono : ∀ a b, a ≤ b → b ≤ sv.u.length → sv.S.getD a 0 ≤ sv.S.getD b 0)
    (x : Int) (hx0 : 0 ≤ x) (l : List Int) :
    Facts sv l → l.length ≤ sv.u.length →
    sv.S.getD l.length 0 + x < sv.D.getD sv.v.length 0 →
    ∀ j, 0 ≤ lamRj sv l x j + lamU sv l (x + 1) := by
  induction l with
  | nil =>
    intro _ _ _ j
    simp only [lamRj, lamU]
    omega
  | cons pk rest ih =>
    intro hf hlen hx j
    have hf' : FactsTop sv pk rest ∧ Facts sv rest := hf
    obtain ⟨ft, fr⟩ := hf'
    simp only [List.length_cons] at hlen hx
    cases j with
    | zero =>
      have := right_lamU_succ_nonneg sv (pk :: rest) hf x hx0
      simp only [lamRj]
      omega
    | succ j =>
      by_cases h1 : x + 1 ≤ pk
      · have h2 : x ≤ pk := by omega
        have hS := Smono rest.length (rest.length + 1) (by omega) hlen
        have := ih fr (by omega) (by omega) j
        simp only [lamRj, lamU, if_pos h1, if_pos h2, tR_eq]
        omega
      · by_cases h2 : x = pk
        · subst h2
          have := ft.f3 hx (j + 1)
          simp only [lamU, if_neg h1]
          omega
        · have h3 : ¬ x ≤ pk := by omega
          simp only [lamRj, lamU, if_neg h1, if_neg h3]
          omega

theorem pushOnce_right (sv : Solver) (sd : SwDom sv) (i : Nat) (st st' : St)
    (inv : LoopInv sv i st) (hc : Overflow sv i st) (e : pushOnce sv i st = .ok st') :
    (st'.lastOcc + 1 < sv.v.length →
      sv.D.getD (st'.lastOcc + 1) 0 ≤ sv.S.getD (i + 1) 0 + st'.lastPosition →
      ∀ j, 0 ≤ cs sv i (st'.lastOcc + 1) - cs sv i (sigR sv (sv.S.getD i 0 + st'.lastPosition))
        + lamRj sv st'.pRev st'.lastPosition j) ∧
    (sv.S.getD (i + 1) 0 + st'.lastPosition < sv.D.getD (st'.lastOcc + 1) 0 →
      ∀ j, 0 ≤ cs sv i st'.lastOcc - cs sv i (sigR sv (sv.S.getD i 0 + st'.lastPosition))
        + lamRj sv st'.pRev st'.lastPosition j) := by
  have Dm := sd.dom.Dmono
  have Sm := sd.dom.Smono
  have hc' : sv.D.getD (st.lastOcc + 1) 0 - sv.S.getD (i + 1) 0 < st.lastPosition := hc
  rcases pushOnce_cases sv sd i st st' inv hc e with ns | tl
  · rw [ns.occ, ns.pos, ns.pRev]
    refine ⟨fun hroom _ j => ?_, fun _ j => ?_⟩
    · have h1 := inv.rinv ns.room (by omega) j
      have h2 := inv.opt.right (st.lastOcc + 1) (st.lastOcc + 1 + 1)
        (by have := inv.oJ; omega) (by omega) hroom
      omega
    · exact inv.rinv ns.room (by omega) j
  · rw [tl.occ, tl.pRev]
    refine ⟨fun hroom _ j => ?_, fun h j => ?_⟩
    · rcases tl.dec with hd | ⟨_, hlt⟩
      · omega
      · have hge := tl.ge
        have hlt' := tl.lt
        have hx0 : 0 ≤ st'.lastPosition := by omega
        have hiev := inv.iev (st'.lastPosition + 1) (by omega) (by omega)
        have hflat := tl.flat (st'.lastPosition + 1) (by omega) (by omega)
        have hsig : sigR sv (sv.S.getD i 0 + st'.lastPosition)
            = sigL sv (sv.S.getD i 0 + (st'.lastPosition + 1)) := by
          rw [sigR_eq_sigL]
          congr 1
          omega
        have hB := inv.hB
        have hDm := Dm (st.lastOcc + 1) sv.v.length (by omega) (Nat.le_refl _)
        have hlem := right_lamRj_add_lamU_nonneg sv Sm st'.lastPosition hx0 st.pRev inv.facts
          (by rw [inv.len]; exact Nat.le_of_lt inv.ilt) (by rw [inv.len]; omega) j
        rw [hsig]
        omega
    · exfalso
      have := tl.ge
      omega

end ColoVerif.Transp1d
