import ColoVerif.Model.NetAsm
import ColoVerif.Proofs.NetAsmLsq
import Mathlib.Tactic.Ring
import Mathlib.Tactic.Linarith
/-
C17 helper lemmas: the system assembled by *each* of the five variants (initial star, B2B, star,
clique, light star), with or without penalty, is the normal-equation system of the documented
quadratic `QModel … + penQ …` (stiffnesses frozen at the placement `pl`), with a positive
semidefinite matrix.  Pattern: `addPin_inv` (one `ring` identity per contribution), a generic
loop lemma (`loopIdx_st`), one step lemma per loop body, induction over the nets.
-/
namespace ColoVerif.NetAsm

/-! ### bookkeeping -/

theorem Inv.congr {s : Sys} {Q Q' : (Nat → Rat) → Rat} (h : Inv s Q) (e : ∀ x, Q x = Q' x) : Inv s Q' := by
  have : Q = Q' := funext e
  rw [← this]; exact h

/-- What is carried through the loops: the invariant, the number of unknowns and of cells. -/
def St (M N : Nat) (s : Sys) (Q : (Nat → Rat) → Rat) : Prop :=
  Inv s Q ∧ s.matSize = M ∧ s.nbCells = N

theorem St.congr {M N : Nat} {s : Sys} {Q Q' : (Nat → Rat) → Rat} (h : St M N s Q) (e : ∀ x, Q x = Q' x) :
    St M N s Q' := ⟨h.1.congr e, h.2⟩

theorem addPin_st (M N : Nat) (s : Sys) (Q : (Nat → Rat) → Rat) (c1 c2 : Int) (o1 o2 w : Rat)
    (h1 : CellOk M c1) (h2 : CellOk M c2) (hw : 0 ≤ w) (h : St M N s Q) :
    St M N (addPin s c1 c2 o1 o2 w) (fun x => Q x + w * sq (pinVal x (c1, o1) - pinVal x (c2, o2))) := by
  obtain ⟨hi, hm, hn⟩ := h
  subst hm
  exact ⟨addPin_inv s Q c1 c2 o1 o2 w h1 h2 hw hi, addPin_matSize .., by rw [addPin_nbCells]; exact hn⟩

theorem loopIdx_st (M N : Nat) (G : Pin → Prop) (f : Sys → Nat → Pin → Sys)
    (g : (Nat → Rat) → Nat → Pin → Rat)
    (hf : ∀ s Q i p, G p → St M N s Q → St M N (f s i p) (fun x => Q x + g x i p))
    (pins : List Pin) :
    ∀ (s : Sys) (Q : (Nat → Rat) → Rat) (i : Nat), (∀ p ∈ pins, G p) → St M N s Q →
      St M N (loopIdx f s i pins) (fun x => Q x + sumIdx (g x) i pins) := by
  induction pins with
  | nil =>
    intro s Q i _ h
    exact h.congr (fun x => by simp [sumIdx])
  | cons p ps ih =>
    intro s Q i hg h
    have h1 := hf s Q i p (hg p (List.mem_cons_self ..)) h
    have h2 := ih (f s i p) _ (i + 1) (fun q hq => hg q (List.mem_cons_of_mem _ hq)) h1
    simp only [loopIdx]
    exact h2.congr (fun x => by simp only [sumIdx]; ring)

theorem rmax_ge_left (a b : Rat) : a ≤ rmax a b := by
  unfold rmax; split <;> linarith

theorem div_rmax_nonneg (w ε a : Rat) (hw : 0 ≤ w) (hε : 0 ≤ ε) : 0 ≤ w / rmax ε a :=
  div_nonneg hw (le_trans hε (rmax_ge_left ε a))

theorem pinVal_aux (x : Nat → Rat) (sc : Nat) (o : Rat) : pinVal x ((sc : Int), o) = x sc + o := by
  have : ¬ ((sc : Int) = -1) := by omega
  simp [pinVal, this]

theorem cellOk_nat (M sc : Nat) (h : sc < M) : CellOk M (sc : Int) := Or.inr ⟨by omega, by omega⟩

/-! ### extreme pins -/

theorem extGo_cellOk (M : Nat) (step : Ext → Nat → Pin → Ext)
    (hstep : ∀ b i p, (step b i p).c = b.c ∨ (step b i p).c = p.1) (ps : List Pin) :
    ∀ (b : Ext) (i : Nat), CellOk M b.c → (∀ p ∈ ps, CellOk M p.1) → CellOk M (extGo step b i ps).c := by
  induction ps with
  | nil => intro b i hb _; exact hb
  | cons p ps ih =>
    intro b i hb hp
    simp only [extGo]
    apply ih
    · rcases hstep b i p with e | e
      · rw [e]; exact hb
      · rw [e]; exact hp p (List.mem_cons_self ..)
    · exact fun q hq => hp q (List.mem_cons_of_mem _ hq)

theorem minPin_cellOk (M : Nat) (pl : List Rat) (pins : List Pin) (hp : ∀ p ∈ pins, CellOk M p.1) :
    CellOk M (minPin pl pins).c := by
  cases pins with
  | nil => exact Or.inl rfl
  | cons p ps =>
    simp only [minPin]
    apply extGo_cellOk
    · intro b i q; unfold minStep; split
      · exact Or.inr rfl
      · exact Or.inl rfl
    · exact hp p (List.mem_cons_self ..)
    · exact fun q hq => hp q (List.mem_cons_of_mem _ hq)

theorem maxPin_cellOk (M : Nat) (pl : List Rat) (pins : List Pin) (hp : ∀ p ∈ pins, CellOk M p.1) :
    CellOk M (maxPin pl pins).c := by
  cases pins with
  | nil => exact Or.inl rfl
  | cons p ps =>
    simp only [maxPin]
    apply extGo_cellOk
    · intro b i q; unfold maxStep; split
      · exact Or.inr rfl
      · exact Or.inl rfl
    · exact hp p (List.mem_cons_self ..)
    · exact fun q hq => hp q (List.mem_cons_of_mem _ hq)

/-! ### weights -/

theorem cliqueW_nonneg (n : Net) (hw : 0 ≤ n.weight) : 0 ≤ cliqueW n := by
  unfold cliqueW
  apply div_nonneg
  · linarith
  · exact_mod_cast Nat.zero_le _

theorem b2bW_nonneg (n : Net) (hw : 0 ≤ n.weight) (hl : 1 ≤ n.pins.length) : 0 ≤ b2bW n := by
  unfold b2bW
  apply div_nonneg hw
  have : (0 : Int) ≤ (n.pins.length : Int) - 1 := by omega
  exact_mod_cast this

/-! ### clique -/

theorem sumIdx_cliqueInner (pl : List Rat) (ε w : Rat) (x : Nat → Rat) (pi : Pin) (ps : List Pin) (i : Nat) :
    sumIdx (fun _ pj => (w / rmax ε (rabs (pinPos pl pi - pinPos pl pj))) * sq (pinVal x pi - pinVal x pj)) i ps
      = cliqueInnerQ pl ε w x pi ps := by
  induction ps generalizing i with
  | nil => rfl
  | cons q qs ih => simp only [sumIdx, cliqueInnerQ, ih]

theorem cliqueInner_st (M N : Nat) (pl : List Rat) (ε w : Rat) (hw : 0 ≤ w) (pi : Pin) (hpi : CellOk M pi.1)
    (s : Sys) (Q : (Nat → Rat) → Rat) (ps : List Pin) (hps : ∀ p ∈ ps, CellOk M p.1) (h : St M N s Q) :
    St M N (loopIdx (cliqueInner pl ε w pi) s 0 ps) (fun x => Q x + cliqueInnerQ pl ε w x pi ps) := by
  have := loopIdx_st M N (fun p => CellOk M p.1) (cliqueInner pl ε w pi)
    (fun x _ pj => (w / rmax ε (rabs (pinPos pl pi - pinPos pl pj))) * sq (pinVal x pi - pinVal x pj))
    (by
      intro s Q i pj hpj hs
      exact addPin_st M N s Q pi.1 pj.1 pi.2 pj.2 _ hpi hpj (bipW_nonneg _ ε _ hw) hs)
    ps s Q 0 hps h
  exact this.congr (fun x => by rw [sumIdx_cliqueInner])

theorem cliqueGo_st (M N : Nat) (pl : List Rat) (ε w : Rat) (hw : 0 ≤ w) (ps : List Pin) :
    ∀ (s : Sys) (Q : (Nat → Rat) → Rat), (∀ p ∈ ps, CellOk M p.1) → St M N s Q →
      St M N (cliqueGo pl ε w s ps) (fun x => Q x + cliqueGoQ pl ε w x ps) := by
  induction ps with
  | nil => intro s Q _ h; exact h.congr (fun x => by simp [cliqueGoQ])
  | cons p ps ih =>
    intro s Q hp h
    have hps : ∀ q ∈ ps, CellOk M q.1 := fun q hq => hp q (List.mem_cons_of_mem _ hq)
    have h1 := cliqueInner_st M N pl ε w hw p (hp p (List.mem_cons_self ..)) s Q ps hps h
    have h2 := ih _ _ hps h1
    simp only [cliqueGo]
    exact h2.congr (fun x => by simp only [cliqueGoQ]; ring)

theorem addClique_st (M N : Nat) (pl : List Rat) (ε : Rat) (s : Sys) (Q : (Nat → Rat) → Rat) (n : Net)
    (hw : 0 ≤ n.weight) (hp : ∀ p ∈ n.pins, CellOk M p.1) (h : St M N s Q) :
    St M N (addClique pl ε s n) (fun x => Q x + cliqueQ pl ε x n) :=
  cliqueGo_st M N pl ε (cliqueW n) (cliqueW_nonneg n hw) n.pins s Q hp h

/-! ### bound to bound -/

theorem b2bBody_st (M N : Nat) (pl : List Rat) (ε w : Rat) (hw : 0 ≤ w) (mn mx : Ext)
    (hmn : CellOk M mn.c) (hmx : CellOk M mx.c) (s : Sys) (Q : (Nat → Rat) → Rat) (i : Nat) (p : Pin)
    (hp : CellOk M p.1) (h : St M N s Q) :
    St M N (b2bBody pl ε w mn mx s i p) (fun x => Q x + b2bTermQ pl ε w mn mx x i p) := by
  unfold b2bBody b2bTermQ
  by_cases h1 : i = mn.i
  · simp only [h1, if_true]
    exact h.congr (fun x => by ring)
  · simp only [h1, if_false]
    have a := addPin_st M N s Q p.1 mn.c p.2 mn.o _ hp hmn (bipW_nonneg w ε (pinPos pl p - mn.pos) hw) h
    unfold b2bMax
    by_cases h2 : i = mx.i
    · simp only [h2, if_true]
      exact a.congr (fun x => by ring)
    · simp only [h2, if_false]
      have b := addPin_st M N _ _ p.1 mx.c p.2 mx.o _ hp hmx (bipW_nonneg w ε (pinPos pl p - mx.pos) hw) a
      exact b.congr (fun x => by ring)

theorem addB2B_st (M N : Nat) (pl : List Rat) (ε : Rat) (s : Sys) (Q : (Nat → Rat) → Rat) (n : Net)
    (hw : 0 ≤ n.weight) (hp : ∀ p ∈ n.pins, CellOk M p.1) (h : St M N s Q) :
    St M N (addB2B pl ε s n) (fun x => Q x + b2bQ pl ε x n) := by
  unfold addB2B b2bQ
  rcases hpins : n.pins with _ | ⟨p0, rest⟩
  · exact h.congr (fun x => by simp [sumIdx])
  · rw [← hpins]
    have hl : 1 ≤ n.pins.length := by rw [hpins]; simp
    exact loopIdx_st M N (fun p => CellOk M p.1) _
      (fun x => b2bTermQ pl ε (b2bW n) (minPin pl n.pins) (maxPin pl n.pins) x)
      (fun s Q i p hp' hs => b2bBody_st M N pl ε (b2bW n) (b2bW_nonneg n hw hl) _ _
        (minPin_cellOk M pl n.pins hp) (maxPin_cellOk M pl n.pins hp) s Q i p hp' hs)
      n.pins s Q 0 hp h

/-! ### star and light star -/

theorem addCell_st (M N : Nat) (s : Sys) (Q : (Nat → Rat) → Rat) (init : Rat) (h : St M N s Q) :
    St (M + 1) N (addCell s init) Q := by
  obtain ⟨hi, hm, hn⟩ := h
  refine ⟨addCell_inv s Q init hi, ?_, hn⟩
  simp only [addCell, Sys.matSize] at hm ⊢
  omega

theorem starBody_st (M N : Nat) (pl : List Rat) (ε wt : Rat) (hw : 0 ≤ wt) (hε : 0 ≤ ε) (mn mx : Ext)
    (sc : Nat) (hsc : sc < M) (s : Sys) (Q : (Nat → Rat) → Rat) (i : Nat) (p : Pin)
    (hp : CellOk M p.1) (h : St M N s Q) :
    St M N (starBody pl ε wt mn mx sc s i p) (fun x => Q x + starTermQ pl ε wt mn mx sc x i p) := by
  unfold starBody starTermQ
  by_cases h1 : i = mn.i ∨ i = mx.i
  · simp only [h1, if_true]
    have a := addPin_st M N s Q p.1 (sc : Int) p.2 0 _ hp (cellOk_nat M sc hsc)
      (bipW_nonneg wt ε (pinPos pl p - starPos mn mx) hw) h
    exact a.congr (fun x => by rw [pinVal_aux]; simp)
  · simp only [h1, if_false]
    have a := addPin_st M N s Q p.1 (sc : Int) p.2 (pinPos pl p - starPos mn mx) _ hp (cellOk_nat M sc hsc)
      (div_rmax_nonneg wt ε (rmin (mx.pos - pinPos pl p) (pinPos pl p - mn.pos)) hw hε) h
    exact a.congr (fun x => by rw [pinVal_aux])

theorem lightStarBody_st (M N : Nat) (pl : List Rat) (ε wt wb : Rat) (hw : 0 ≤ wt) (hwb : 0 ≤ wb) (hε : 0 ≤ ε)
    (mn mx : Ext) (sc : Nat) (hsc : sc < M) (s : Sys) (Q : (Nat → Rat) → Rat) (i : Nat) (p : Pin)
    (hp : CellOk M p.1) (h : St M N s Q) :
    St M N (lightStarBody pl ε wt wb mn mx sc s i p)
      (fun x => Q x + lightStarTermQ pl ε wt wb mn mx sc x i p) := by
  unfold lightStarBody lightStarTermQ
  by_cases h1 : i = mn.i ∨ i = mx.i
  · simp only [h1, if_true]
    have a := addPin_st M N s Q p.1 (sc : Int) p.2 0 _ hp (cellOk_nat M sc hsc)
      (bipW_nonneg wt ε (pinPos pl p - starPos mn mx) hw) h
    exact a.congr (fun x => by rw [pinVal_aux]; simp)
  · simp only [h1, if_false]
    have a := addPin_st M N s Q p.1 (sc : Int) p.2 (pinPos pl p - starPos mn mx) _ hp (cellOk_nat M sc hsc)
      (add_nonneg (div_rmax_nonneg wb ε (mx.pos - pinPos pl p) hwb hε)
        (div_rmax_nonneg wb ε (pinPos pl p - mn.pos) hwb hε)) h
    exact a.congr (fun x => by rw [pinVal_aux])

theorem addBipoint_st (M N : Nat) (pl : List Rat) (ε : Rat) (s : Sys) (Q : (Nat → Rat) → Rat) (n : Net)
    (hw : 0 ≤ n.weight) (hp : ∀ p ∈ n.pins, CellOk M p.1) (h : St M N s Q) :
    St M N (addBipoint pl ε s n) (fun x => Q x + bipTerm pl ε x n) := by
  obtain ⟨hi, hm, hn⟩ := h
  subst hm
  obtain ⟨a, b, c⟩ := addBipoint_inv pl ε s Q n hw hp hi
  exact ⟨a, b, by rw [c]; exact hn⟩

theorem addStar_st (M N : Nat) (pl : List Rat) (ε : Rat) (hε : 0 ≤ ε) (s : Sys) (Q : (Nat → Rat) → Rat) (n : Net)
    (hw : 0 ≤ n.weight) (hp : ∀ p ∈ n.pins, CellOk M p.1) (h : St M N s Q) :
    St (if usesAux .star n then M + 1 else M) N (addStar pl ε s n) (fun x => Q x + starNetQ pl ε x M n) := by
  have hM : s.matSize = M := h.2.1
  unfold addStar starNetQ usesAux
  by_cases hl : n.pins.length ≤ 2
  · have : ¬ 2 < n.pins.length := by omega
    simp only [hl, if_true, this, decide_false, Bool.false_eq_true, if_false]
    exact addBipoint_st M N pl ε s Q n hw hp h
  · have : 2 < n.pins.length := by omega
    simp only [hl, if_false, this, decide_true, if_true]
    rw [hM]
    exact loopIdx_st (M + 1) N (fun p => CellOk (M + 1) p.1) _
      (fun x => starTermQ pl ε n.weight (minPin pl n.pins) (maxPin pl n.pins) M x)
      (fun s Q i p hp' hs => starBody_st (M + 1) N pl ε n.weight hw hε _ _ M (by omega) s Q i p hp' hs)
      n.pins _ Q 0 (fun p hq => cellOk_mono (by omega) (hp p hq)) (addCell_st M N s Q _ h)

theorem addLightStar_st (M N : Nat) (pl : List Rat) (ε : Rat) (hε : 0 ≤ ε) (s : Sys) (Q : (Nat → Rat) → Rat)
    (n : Net) (hw : 0 ≤ n.weight) (hp : ∀ p ∈ n.pins, CellOk M p.1) (h : St M N s Q) :
    St (if usesAux .lightStar n then M + 1 else M) N (addLightStar pl ε s n)
      (fun x => Q x + lightStarNetQ pl ε x M n) := by
  have hM : s.matSize = M := h.2.1
  unfold addLightStar lightStarNetQ usesAux
  by_cases hl : n.pins.length ≤ 2
  · have : ¬ 2 < n.pins.length := by omega
    simp only [hl, if_true, this, decide_false, Bool.false_eq_true, if_false]
    exact addBipoint_st M N pl ε s Q n hw hp h
  · have : 2 < n.pins.length := by omega
    simp only [hl, if_false, this, decide_true, if_true]
    rw [hM]
    exact loopIdx_st (M + 1) N (fun p => CellOk (M + 1) p.1) _
      (fun x => lightStarTermQ pl ε n.weight (b2bW n) (minPin pl n.pins) (maxPin pl n.pins) M x)
      (fun s Q i p hp' hs => lightStarBody_st (M + 1) N pl ε n.weight (b2bW n) hw
        (b2bW_nonneg n hw (by omega)) hε _ _ M (by omega) s Q i p hp' hs)
      n.pins _ Q 0 (fun p hq => cellOk_mono (by omega) (hp p hq)) (addCell_st M N s Q _ h)

theorem addStar0_st (M N : Nat) (s : Sys) (Q : (Nat → Rat) → Rat) (n : Net)
    (hw : 0 ≤ n.weight) (hp : ∀ p ∈ n.pins, CellOk M p.1) (h : St M N s Q) :
    St (if usesAux .star0 n then M + 1 else M) N (addStar0 s n) (fun x => Q x + netQ0 x M n) := by
  obtain ⟨hi, hm, hn⟩ := h
  subst hm
  obtain ⟨a, b, c⟩ := addStar0_inv s Q n hw hp hi
  refine ⟨a, ?_, by rw [c]; exact hn⟩
  rw [b]
  unfold usesAux
  by_cases hl : n.pins.length ≤ 2
  · have : ¬ 2 < n.pins.length := by omega
    simp [hl, this]
  · have : 2 < n.pins.length := by omega
    simp [hl, this]

/-! ### all five variants, the net list, the penalty -/

theorem addNetModel_st (m : Mode) (M N : Nat) (pl : List Rat) (ε : Rat) (hε : 0 ≤ ε) (s : Sys)
    (Q : (Nat → Rat) → Rat) (n : Net) (hw : 0 ≤ n.weight) (hp : ∀ p ∈ n.pins, CellOk M p.1) (h : St M N s Q) :
    St (if usesAux m n then M + 1 else M) N (addNetModel m pl ε s n) (fun x => Q x + netQ m pl ε x M n) := by
  cases m with
  | star0 => exact addStar0_st M N s Q n hw hp h
  | b2b => exact addB2B_st M N pl ε s Q n hw hp h
  | star => exact addStar_st M N pl ε hε s Q n hw hp h
  | clique => exact addClique_st M N pl ε s Q n hw hp h
  | lightStar => exact addLightStar_st M N pl ε hε s Q n hw hp h

theorem foldl_model_st (m : Mode) (N : Nat) (pl : List Rat) (ε : Rat) (hε : 0 ≤ ε) (nets : List Net) :
    ∀ (M : Nat) (s : Sys) (Q : (Nat → Rat) → Rat), N ≤ M →
      (∀ n ∈ nets, NetOk N n ∧ 0 ≤ n.weight) → St M N s Q →
      ∃ M', N ≤ M' ∧ St M' N (nets.foldl (addNetModel m pl ε) s) (fun x => Q x + QModel m pl ε x M nets) := by
  induction nets with
  | nil => intro M s Q hle _ h; exact ⟨M, hle, h.congr (fun x => by simp [QModel])⟩
  | cons n ns ih =>
    intro M s Q hle hn h
    have hn0 := hn n (List.mem_cons_self ..)
    have h1 := addNetModel_st m M N pl ε hε s Q n hn0.2 (netOk_cellOk hle hn0.1) h
    obtain ⟨M', hle', h2⟩ := ih (if usesAux m n then M + 1 else M) _ _ (by split <;> omega)
      (fun k hk => hn k (List.mem_cons_of_mem _ hk)) h1
    exact ⟨M', hle', by
      simp only [List.foldl_cons]
      exact h2.congr (fun x => by simp only [QModel]; ring)⟩

theorem create_model_st (m : Mode) (nb : Nat) (nets : List Net) (pl : List Rat) (ε : Rat) (hε : 0 ≤ ε)
    (hn : ∀ n ∈ nets, NetOk nb n ∧ 0 ≤ n.weight) :
    ∃ M', nb ≤ M' ∧ St M' nb (create m nb nets pl ε) (fun x => QModel m pl ε x nb nets) := by
  have h0 : St nb nb (Sys.init nb) (fun _ => 0) := ⟨init_inv nb, by simp [Sys.init, Sys.matSize], rfl⟩
  obtain ⟨M', hle, h⟩ := foldl_model_st m nb pl ε hε nets nb (Sys.init nb) _ (Nat.le_refl _) hn h0
  exact ⟨M', hle, by unfold create; exact h.congr (fun x => by simp)⟩

theorem penaltyBody_st (M N : Nat) (pl : List Rat) (pen : Penalty) (hpen : ∀ i, 0 ≤ pen.strength.getD i 0)
    (s : Sys) (Q : (Nat → Rat) → Rat) (i : Nat) (hi : i < M) (h : St M N s Q) :
    St M N (penaltyBody pl pen s i)
      (fun x => Q x + (pen.strength.getD i 0 / rmax (rabs (pl.getD i 0 - pen.target.getD i 0)) pen.cutoff)
        * sq (x i - pen.target.getD i 0)) := by
  obtain ⟨hinv, hm, hn⟩ := h
  subst hm
  have hw : 0 ≤ pen.strength.getD i 0 / rmax (rabs (pl.getD i 0 - pen.target.getD i 0)) pen.cutoff :=
    div_nonneg (hpen i) (le_trans (rabs_nonneg _) (rmax_ge_left _ _))
  have a := addFixedPin_inv s Q i 0 (pen.target.getD i 0) _ hi hw hinv
  refine ⟨?_, rfl, hn⟩
  unfold penaltyBody
  exact a.congr (fun x => by simp)

theorem foldl_penalty_st (M N : Nat) (pl : List Rat) (pen : Penalty) (hpen : ∀ i, 0 ≤ pen.strength.getD i 0)
    (k : Nat) (hk : k ≤ M) (s : Sys) (Q : (Nat → Rat) → Rat) (h : St M N s Q) :
    St M N ((List.range k).foldl (penaltyBody pl pen) s) (fun x => Q x + penSum pl pen x k) := by
  induction k with
  | zero => exact h.congr (fun x => by simp [penSum])
  | succ j ih =>
    have h1 := ih (by omega)
    rw [List.range_succ, List.foldl_append]
    simp only [List.foldl_cons, List.foldl_nil]
    have h2 := penaltyBody_st M N pl pen hpen _ _ j (by omega) h1
    exact h2.congr (fun x => by simp only [penSum]; ring)

/-- **All five variants, with or without penalty**: the assembled system is the normal-equation
system of `QModel + penQ`, positive semidefinite, all rows inside the vectors. -/
theorem assembleNets_inv (m : Mode) (nb : Nat) (nets : List Net) (pl : List Rat) (ε : Rat) (hε : 0 ≤ ε)
    (pen : Option Penalty) (hpen : PenaltyOk pen)
    (hn : ∀ n ∈ nets, NetOk nb n ∧ 0 ≤ n.weight) :
    Inv (assembleNets m nb nets pl ε pen) (fun x => QModel m pl ε x nb nets + penQ pl pen nb x) := by
  obtain ⟨M', hle, h⟩ := create_model_st m nb nets pl ε hε hn
  unfold assembleNets
  cases pen with
  | none => exact h.1.congr (fun x => by simp [penQ])
  | some p =>
    have hN : (create m nb nets pl ε).nbCells = nb := h.2.2
    have := foldl_penalty_st M' nb pl p (hpen p rfl) nb hle _ _ h
    simp only [addPenaltyOpt, addPenalty, hN, penQ]
    exact this.1

/-! ### what the models say about a two-pin net -/

theorem clique_two_pin (pl : List Rat) (ε : Rat) (x : Nat → Rat) (w : Rat) (p0 p1 : Pin) :
    cliqueQ pl ε x ⟨w, [p0, p1]⟩ = bipTerm pl ε x ⟨w, [p0, p1]⟩ := by
  simp only [cliqueQ, cliqueGoQ, cliqueInnerQ, bipTerm, bipointQ, cliqueW, List.length_cons, List.length_nil]
  norm_num

theorem star_two_pin (pl : List Rat) (ε : Rat) (x : Nat → Rat) (sv : Nat) (w : Rat) (p0 p1 : Pin) :
    starNetQ pl ε x sv ⟨w, [p0, p1]⟩ = bipTerm pl ε x ⟨w, [p0, p1]⟩ := by
  simp [starNetQ]

theorem lightStar_two_pin (pl : List Rat) (ε : Rat) (x : Nat → Rat) (sv : Nat) (w : Rat) (p0 p1 : Pin) :
    lightStarNetQ pl ε x sv ⟨w, [p0, p1]⟩ = bipTerm pl ε x ⟨w, [p0, p1]⟩ := by
  simp [lightStarNetQ]

theorem rabs_neg_sub (a b : Rat) : rabs (a - b) = rabs (b - a) := by
  unfold rabs
  by_cases h1 : a - b < 0 <;> by_cases h2 : b - a < 0 <;> simp only [h1, h2, if_true, if_false]
  · linarith
  · ring
  · ring
  · linarith

theorem sq_neg_sub (a b : Rat) : sq (a - b) = sq (b - a) := by unfold sq; ring

/-- B2B on a two-pin net whose pins are at different positions in `pl`: one spring, as in the
other models. -/
theorem b2b_two_pin_distinct (pl : List Rat) (ε : Rat) (x : Nat → Rat) (w : Rat) (p0 p1 : Pin)
    (hne : pinPos pl p0 ≠ pinPos pl p1) :
    b2bQ pl ε x ⟨w, [p0, p1]⟩ = bipTerm pl ε x ⟨w, [p0, p1]⟩ := by
  have hw : b2bW ⟨w, [p0, p1]⟩ = w := by simp [b2bW]
  simp only [b2bQ, hw, sumIdx, minPin, maxPin, extGo, minStep, maxStep, bipTerm, bipointQ]
  rcases lt_or_gt_of_ne hne with hlt | hgt
  · -- p0 is the minimum, p1 the maximum
    have h1 : ¬ pinPos pl p1 < pinPos pl p0 := by linarith
    simp only [h1, hlt, if_true, if_false, b2bTermQ]
    simp only [Nat.zero_add]
    have e10 : ¬ (1 : Nat) = 0 := by omega
    simp only [e10, if_false]
    rw [rabs_neg_sub, sq_neg_sub]
    ring
  · -- p1 is the minimum, p0 the maximum
    have h1 : ¬ pinPos pl p0 < pinPos pl p1 := by linarith
    have hgt' : pinPos pl p1 < pinPos pl p0 := hgt
    simp only [h1, hgt', if_true, if_false, b2bTermQ]
    have e01 : ¬ (0 : Nat) = 1 := by omega
    simp only [e01, if_false]
    ring

/-- B2B on a two-pin net whose pins *coincide* in `pl`: minimum and maximum pin are both pin 0, and
pin 1 is tied to it twice — the net pulls with twice the stiffness of the other models (still
proportional to its weight). -/
theorem b2b_two_pin_coincident (pl : List Rat) (ε : Rat) (x : Nat → Rat) (w : Rat) (p0 p1 : Pin)
    (heq : pinPos pl p0 = pinPos pl p1) :
    b2bQ pl ε x ⟨w, [p0, p1]⟩ = 2 * bipTerm pl ε x ⟨w, [p0, p1]⟩ := by
  have hw : b2bW ⟨w, [p0, p1]⟩ = w := by simp [b2bW]
  have h1 : ¬ pinPos pl p1 < pinPos pl p0 := by rw [heq]; exact lt_irrefl _
  have h2 : ¬ pinPos pl p0 < pinPos pl p1 := by rw [heq]; exact lt_irrefl _
  simp only [b2bQ, hw, sumIdx, minPin, maxPin, extGo, minStep, maxStep, bipTerm, bipointQ, h1, h2, if_false,
    b2bTermQ]
  simp only [Nat.zero_add, if_true]
  have e10 : ¬ (1 : Nat) = 0 := by omega
  simp only [e10, if_false]
  rw [rabs_neg_sub, sq_neg_sub]
  ring

end ColoVerif.NetAsm
