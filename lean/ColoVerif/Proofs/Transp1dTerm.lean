import ColoVerif.Proofs.Transp1dSweep
/-
Termination of the `while` loop of `Transportation1dSolver::push`.

Invariant (`EvInv`): the event queue is sorted by decreasing position and no event lies above
`lastPosition`; moreover `D[lastOccupiedSink] - S[i+1] ≤ lastPosition` (the current source reaches
the last occupied sink).  Measure (`mu`):

    2 * (nbSinks - 1 - lastOccupiedSink) + #{events strictly below lastPosition}
      + [0 < lastPosition] + [loop condition]

`pushToNewSink` lowers the first term by 2 and adds at most one event; `pushToLastSink` moves
`lastPosition` down onto the next event (one event fewer strictly below), or onto its lower bound
(`D[j+1] - S[i+1]`: the condition becomes false; `0`: the third term drops).  Hence
`loopFuel = 2 * nbSinks + events.size() + 3` iterations always suffice and `outOfFuel` is impossible.
-/
namespace ColoVerif.Transp1d

/-! ### the event list -/

def SortedEv (ev : List Event) : Prop := List.Pairwise (fun a b => b.1 ≤ a.1) ev

/-- number of events strictly below `L` -/
def below (L : Int) (ev : List Event) : Nat := (ev.filter fun e => decide (e.1 < L)).length

def ind (p : Prop) [Decidable p] : Nat := if p then 1 else 0

theorem ind_le (p : Prop) [Decidable p] : ind p ≤ 1 := by unfold ind; split <;> omega
theorem ind_pos {p : Prop} [Decidable p] (h : p) : ind p = 1 := by simp [ind, h]
theorem ind_neg {p : Prop} [Decidable p] (h : ¬ p) : ind p = 0 := by simp [ind, h]

theorem below_nil (L : Int) : below L [] = 0 := rfl

theorem below_cons (L : Int) (e : Event) (es : List Event) :
    below L (e :: es) = ind (e.1 < L) + below L es := by
  unfold below ind
  by_cases h : e.1 < L
  · simp [h]; omega
  · simp [h]

theorem below_le_length (L : Int) (ev : List Event) : below L ev ≤ ev.length :=
  List.length_filter_le _ _

theorem below_mono (L L' : Int) (h : L' ≤ L) (ev : List Event) : below L' ev ≤ below L ev := by
  induction ev with
  | nil => exact Nat.le_refl _
  | cons e es ih =>
    rw [below_cons, below_cons]
    by_cases h1 : e.1 < L'
    · have h2 : e.1 < L := by omega
      rw [ind_pos h1, ind_pos h2]; omega
    · rw [ind_neg h1]; omega

theorem below_head_lt (L : Int) (e : Event) (es : List Event) (h : e.1 < L) :
    below e.1 (e :: es) < below L (e :: es) := by
  rw [below_cons, below_cons, ind_pos h, ind_neg (Int.lt_irrefl _)]
  have := below_mono L e.1 (Int.le_of_lt h) es
  omega

theorem mem_evInsert (x y : Event) (l : List Event) : y ∈ evInsert x l ↔ y = x ∨ y ∈ l := by
  induction l with
  | nil => simp [evInsert]
  | cons z zs ih =>
    unfold evInsert
    split
    · simp
    · simp only [List.mem_cons, ih]
      constructor
      · rintro (h | h | h)
        · exact Or.inr (Or.inl h)
        · exact Or.inl h
        · exact Or.inr (Or.inr h)
      · rintro (h | h | h)
        · exact Or.inr (Or.inl h)
        · exact Or.inl h
        · exact Or.inr (Or.inr h)

theorem sorted_evInsert (x : Event) (l : List Event) (h : SortedEv l) : SortedEv (evInsert x l) := by
  induction l with
  | nil => simp [evInsert, SortedEv]
  | cons z zs ih =>
    unfold SortedEv at h
    rw [List.pairwise_cons] at h
    unfold evInsert
    split
    · rename_i hlt
      have hz : z.1 ≤ x.1 := by
        simp only [evLt, Bool.or_eq_true, Bool.and_eq_true, decide_eq_true_eq] at hlt
        omega
      unfold SortedEv
      rw [List.pairwise_cons, List.pairwise_cons]
      refine ⟨?_, h⟩
      intro a ha
      simp only [List.mem_cons] at ha
      rcases ha with rfl | ha
      · exact hz
      · exact Int.le_trans (h.1 a ha) hz
    · rename_i hlt
      have hz : x.1 ≤ z.1 := by
        simp only [evLt, Bool.or_eq_true, Bool.and_eq_true, decide_eq_true_eq, not_or, not_and] at hlt
        omega
      unfold SortedEv
      rw [List.pairwise_cons]
      refine ⟨?_, ih h.2⟩
      intro a ha
      rcases (mem_evInsert x a zs).mp ha with rfl | ha
      · exact hz
      · exact h.1 a ha

theorem below_evInsert (L : Int) (x : Event) (l : List Event) :
    below L (evInsert x l) = below L l + ind (x.1 < L) := by
  induction l with
  | nil => simp [evInsert, below_cons, below_nil]
  | cons z zs ih =>
    unfold evInsert
    split
    · rw [below_cons]; omega
    · rw [below_cons, below_cons, ih]; omega

theorem length_evInsert (x : Event) (l : List Event) : (evInsert x l).length = l.length + 1 := by
  induction l with
  | nil => rfl
  | cons z zs ih =>
    unfold evInsert
    split
    · rfl
    · simp [ih]

theorem mem_emplacePos (ev : List Event) (pos sl : Int) (y : Event) :
    y ∈ emplacePos ev pos sl → y = (pos, sl) ∨ y ∈ ev := by
  unfold emplacePos
  split
  · exact (mem_evInsert _ _ _).mp
  · exact Or.inr

theorem sorted_emplacePos (ev : List Event) (pos sl : Int) (h : SortedEv ev) :
    SortedEv (emplacePos ev pos sl) := by
  unfold emplacePos
  split
  · exact sorted_evInsert _ _ h
  · exact h

theorem below_emplacePos_le (L : Int) (ev : List Event) (pos sl : Int) :
    below L (emplacePos ev pos sl) ≤ below L ev + ind (pos < L) := by
  unfold emplacePos
  split
  · rw [below_evInsert]; exact Nat.le_refl _
  · omega

theorem length_emplacePos_le (ev : List Event) (pos sl : Int) :
    (emplacePos ev pos sl).length ≤ ev.length + 1 := by
  unfold emplacePos
  split
  · rw [length_evInsert]; exact Nat.le_refl _
  · omega

/-! ### `popAt` -/

theorem mem_popAt (L : Int) (ev : List Event) (y : Event) : y ∈ (popAt L ev).2 → y ∈ ev := by
  induction ev with
  | nil => simp [popAt]
  | cons e es ih =>
    unfold popAt
    split
    · intro h; exact List.mem_cons_of_mem _ (ih h)
    · exact id

theorem sorted_popAt (L : Int) (ev : List Event) (h : SortedEv ev) : SortedEv (popAt L ev).2 := by
  induction ev with
  | nil => simpa [popAt] using h
  | cons e es ih =>
    unfold popAt
    split
    · unfold SortedEv at h; rw [List.pairwise_cons] at h; exact ih h.2
    · exact h

theorem below_popAt (L : Int) (ev : List Event) : below L (popAt L ev).2 = below L ev := by
  induction ev with
  | nil => rfl
  | cons e es ih =>
    unfold popAt
    split
    · rename_i he
      rw [below_cons, ih, ind_neg (by omega)]; omega
    · rfl

theorem lt_popAt (L : Int) (ev : List Event) (hs : SortedEv ev) (hle : ∀ e ∈ ev, e.1 ≤ L) :
    ∀ e ∈ (popAt L ev).2, e.1 < L := by
  induction ev with
  | nil => simp [popAt]
  | cons e es ih =>
    unfold SortedEv at hs; rw [List.pairwise_cons] at hs
    unfold popAt
    split
    · exact ih hs.2 (fun y hy => hle y (List.mem_cons_of_mem _ hy))
    · rename_i hne
      intro y hy
      simp only [List.mem_cons] at hy
      have h1 := hle e (List.mem_cons_self ..)
      rcases hy with rfl | hy
      · omega
      · have := hs.1 y hy
        omega

theorem topOr_ge (mp : Int) (ev : List Event) : mp ≤ topOr mp ev := by
  unfold topOr; split
  · exact Int.le_refl _
  · exact Int.le_max_left _ _

theorem topOr_ge_mem (mp : Int) (ev : List Event) (hs : SortedEv ev) : ∀ e ∈ ev, e.1 ≤ topOr mp ev := by
  cases ev with
  | nil => simp
  | cons x xs =>
    unfold SortedEv at hs; rw [List.pairwise_cons] at hs
    intro e he
    simp only [topOr]
    simp only [List.mem_cons] at he
    rcases he with rfl | he
    · exact Int.le_max_right _ _
    · exact Int.le_trans (hs.1 e he) (Int.le_max_right _ _)

theorem topOr_cases (mp : Int) (ev : List Event) :
    topOr mp ev = mp ∨ ∃ e es, ev = e :: es ∧ topOr mp ev = e.1 ∧ mp < e.1 := by
  cases ev with
  | nil => exact Or.inl rfl
  | cons x xs =>
    simp only [topOr]
    by_cases h : mp < x.1
    · right; exact ⟨x, xs, rfl, by omega, h⟩
    · left; omega

/-! ### the loop -/

/-- what the termination argument needs from the instance: prefix sums are monotone and the total
supply does not exceed the total demand -/
structure Solver.Dom (sv : Solver) : Prop where
  wf : sv.WF
  Dmono : ∀ a b, a ≤ b → b ≤ sv.v.length → sv.D.getD a 0 ≤ sv.D.getD b 0
  Smono : ∀ a b, a ≤ b → b ≤ sv.u.length → sv.S.getD a 0 ≤ sv.S.getD b 0
  slack : sv.S.getD sv.u.length 0 ≤ sv.D.getD sv.v.length 0
  base : sv.D.getD 0 0 - sv.S.getD 0 0 ≤ 0

structure EvInv (st : St) : Prop where
  sorted : SortedEv st.events
  le : ∀ e ∈ st.events, e.1 ≤ st.lastPosition

def mu (sv : Solver) (i : Nat) (st : St) : Nat :=
  2 * (sv.v.length - 1 - st.lastOcc) + below st.lastPosition st.events + ind (0 < st.lastPosition)
    + ind (sv.D.getD (st.lastOcc + 1) 0 - sv.S.getD (i + 1) 0 < st.lastPosition)

theorem pushToLastSink_dec (sv : Solver) (dom : sv.Dom) (i : Nat) (hi : i < sv.u.length) (st : St)
    (hocc : st.lastOcc < sv.v.length) (hpos : 0 ≤ st.lastPosition) (ei : EvInv st)
    (hc : sv.D.getD (st.lastOcc + 1) 0 - sv.S.getD (i + 1) 0 < st.lastPosition)
    (hl : st.lastOcc + 1 = sv.v.length ∨ 0 < st.lastPosition) :
    ∃ st', pushToLastSink sv i st = .ok st' ∧ Keeps sv st st' ∧ EvInv st' ∧
      mu sv i st' < mu sv i st ∧
      sv.D.getD st'.lastOcc 0 - sv.S.getD (i + 1) 0 ≤ st'.lastPosition := by
  have wf := dom.wf
  have hr_sorted := sorted_popAt st.lastPosition st.events ei.sorted
  have hr_lt := lt_popAt st.lastPosition st.events ei.sorted ei.le
  have hr_below := below_popAt st.lastPosition st.events
  have hD1 := dom.Dmono st.lastOcc (st.lastOcc + 1) (by omega) (by omega)
  have hslack : st.lastOcc + 1 = sv.v.length →
      0 ≤ sv.D.getD (st.lastOcc + 1) 0 - sv.S.getD (i + 1) 0 := by
    intro h
    have := dom.Smono (i + 1) sv.u.length (by omega) (Nat.le_refl _)
    have := dom.slack
    rw [h]; omega
  unfold pushToLastSink
  simp only [get_ok' sv.D (st.lastOcc + 1) (by have := wf.hD; omega),
    get_ok' sv.S (i + 1) (by have := wf.hS; omega), bind, Except.bind, pure, Except.pure]
  generalize popAt st.lastPosition st.events = r at *
  generalize hab : sv.D.getD (st.lastOcc + 1) 0 - sv.S.getD (i + 1) 0 = ab at *
  generalize hmp : max ab 0 = mp at *
  have hmp0 : 0 ≤ mp := by omega
  have hmpL : mp ≤ st.lastPosition := by omega
  have hge := topOr_ge mp r.2
  have hgm := topOr_ge_mem mp r.2 hr_sorted
  refine ⟨_, rfl, ⟨rfl, hocc, rfl, by simp only; omega⟩, ⟨?_, ?_⟩, ?_, by simp only; omega⟩
  · exact sorted_emplacePos _ _ _ hr_sorted
  · intro e he
    rcases mem_emplacePos _ _ _ _ he with rfl | he
    · exact Int.le_refl _
    · exact hgm e he
  · unfold mu
    simp only [hab]
    have hb := below_emplacePos_le (topOr mp r.2) r.2 (topOr mp r.2) r.1
    rw [ind_neg (Int.lt_irrefl _)] at hb
    rw [ind_pos hc]
    have i1 := ind_le (0 < topOr mp r.2)
    have i2 := ind_le (ab < topOr mp r.2)
    rcases topOr_cases mp r.2 with h | ⟨e, es, h1, h2, h3⟩
    · rw [h] at hb i1 i2 ⊢
      have hm := below_mono st.lastPosition mp hmpL r.2
      by_cases hab0 : 0 ≤ ab
      · have : mp = ab := by omega
        rw [ind_neg (by omega : ¬ ab < mp), ind_pos (by omega : 0 < st.lastPosition)]
        omega
      · have hL : 0 < st.lastPosition := by
          rcases hl with h' | h'
          · have := hslack h'; omega
          · exact h'
        have : mp = 0 := by omega
        rw [ind_pos hL, ind_neg (by omega : ¬ 0 < mp)]
        omega
    · rw [h2] at hb i1 i2 ⊢
      have hlt : e.1 < st.lastPosition := hr_lt e (by rw [h1]; exact List.mem_cons_self ..)
      have hm := below_head_lt st.lastPosition e es hlt
      rw [← h1] at hm
      rw [ind_pos (by omega : 0 < st.lastPosition)]
      omega

theorem snkEvLoop_spec (sv : Solver) (wf : sv.WF) (i : Nat) (hi : i < sv.u.length) (lp : Int)
    (cnt l : Nat) (ev : List Event) (h : l + cnt < sv.v.length) :
    ∃ ev', snkEvLoop sv i lp cnt l ev = .ok ev' ∧ (SortedEv ev → SortedEv ev') ∧
      (∀ e ∈ ev', e ∈ ev ∨ e.1 ≤ lp) ∧ (∀ L, below L ev' ≤ below L ev + cnt) ∧
      ev'.length ≤ ev.length + cnt := by
  induction cnt generalizing l ev with
  | zero => exact ⟨ev, rfl, id, fun e he => Or.inl he, fun L => Nat.le_refl _, Nat.le_refl _⟩
  | succ cnt ih =>
    unfold snkEvLoop
    simp only [get_ok' sv.D (l + 1) (by have := wf.hD; omega), get_ok' sv.S i (by have := wf.hS; omega),
      cost_ok sv i l hi (by omega), cost_ok sv i (l + 1) hi (by omega), bind, Except.bind]
    obtain ⟨ev', e, k1, k2, k3, k4⟩ := ih (l + 1) (emplacePos ev
      (min (sv.D.getD (l + 1) 0 - sv.S.getD i 0) lp)
      (iabs (sv.u.getD i 0 - sv.v.getD l 0) - iabs (sv.u.getD i 0 - sv.v.getD (l + 1) 0))) (by omega)
    refine ⟨ev', e, fun hs => k1 (sorted_emplacePos _ _ _ hs), ?_, ?_, ?_⟩
    · intro x hx
      rcases k2 x hx with h' | h'
      · rcases mem_emplacePos _ _ _ _ h' with rfl | h''
        · right; exact Int.min_le_right _ _
        · exact Or.inl h''
      · exact Or.inr h'
    · intro L
      have h1 := k3 L
      have h2 := below_emplacePos_le L ev (min (sv.D.getD (l + 1) 0 - sv.S.getD i 0) lp)
        (iabs (sv.u.getD i 0 - sv.v.getD l 0) - iabs (sv.u.getD i 0 - sv.v.getD (l + 1) 0))
      have h3 := ind_le (min (sv.D.getD (l + 1) 0 - sv.S.getD i 0) lp < L)
      omega
    · have h2 := length_emplacePos_le ev (min (sv.D.getD (l + 1) 0 - sv.S.getD i 0) lp)
        (iabs (sv.u.getD i 0 - sv.v.getD l 0) - iabs (sv.u.getD i 0 - sv.v.getD (l + 1) 0))
      omega

/-- `pushNewSinkEvents` keeps the event invariant (events are emplaced at most at `lastPosition`) -/
theorem pushNewSinkEvents_spec (sv : Solver) (wf : sv.WF) (i j : Nat) (hi : i < sv.u.length)
    (hj : j < sv.v.length) (st : St) (_hocc : st.lastOcc < sv.v.length) (ei : EvInv st) :
    ∃ st', pushNewSinkEvents sv i j st = .ok st' ∧ EvInv st' ∧
      st'.lastPosition = st.lastPosition ∧ st'.pRev = st.pRev ∧ st'.optSink = st.optSink ∧
      st'.lastOcc = max st.lastOcc j ∧
      (∀ L, below L st'.events ≤ below L st.events + (j - st.lastOcc)) ∧
      st'.events.length ≤ st.events.length + (j - st.lastOcc) := by
  unfold pushNewSinkEvents
  by_cases h0 : j ≤ st.lastOcc
  · simp only [h0, if_true]
    exact ⟨st, rfl, ei, rfl, rfl, rfl, by omega, fun L => by omega, by omega⟩
  · obtain ⟨ev', h, k1, k2, k3, k4⟩ := snkEvLoop_spec sv wf i hi st.lastPosition (j - st.lastOcc)
      st.lastOcc st.events (by omega)
    simp only [h0, if_false, h, bind, Except.bind]
    refine ⟨_, rfl, ⟨k1 ei.sorted, ?_⟩, rfl, rfl, rfl, by simp only; omega, k3, k4⟩
    intro e he
    rcases k2 e he with h' | h'
    · exact ei.le e h'
    · exact h'

theorem pushToNewSink_dec (sv : Solver) (dom : sv.Dom) (i : Nat) (hi : i < sv.u.length) (st : St)
    (hocc : st.lastOcc + 1 < sv.v.length) (hpos : 0 ≤ st.lastPosition) (ei : EvInv st)
    (hc : sv.D.getD (st.lastOcc + 1) 0 - sv.S.getD (i + 1) 0 < st.lastPosition) :
    ∃ st', pushToNewSink sv i st = .ok st' ∧ Keeps sv st st' ∧ EvInv st' ∧
      mu sv i st' < mu sv i st ∧
      sv.D.getD st'.lastOcc 0 - sv.S.getD (i + 1) 0 ≤ st'.lastPosition := by
  unfold pushToNewSink
  obtain ⟨st', e, k1, k2, k3, k4, k5, k6, _⟩ :=
    pushNewSinkEvents_spec sv dom.wf i (st.lastOcc + 1) hi hocc st (by omega) ei
  have hocc' : st'.lastOcc = st.lastOcc + 1 := by omega
  refine ⟨st', e, ⟨k3, by omega, k4, by omega⟩, k1, ?_, by rw [hocc', k2]; omega⟩
  unfold mu
  rw [hocc', k2, ind_pos hc]
  have h1 := k6 st.lastPosition
  have h2 := ind_le (sv.D.getD (st.lastOcc + 1 + 1) 0 - sv.S.getD (i + 1) 0 < st.lastPosition)
  omega

theorem getSlopeKeep_spec (st : St) (_hpos : 0 ≤ st.lastPosition) (ei : EvInv st) :
    EvInv (getSlopeKeep st).2 ∧ (getSlopeKeep st).2.lastPosition = st.lastPosition ∧
      (getSlopeKeep st).2.lastOcc = st.lastOcc ∧ (getSlopeKeep st).2.pRev = st.pRev ∧
      (getSlopeKeep st).2.optSink = st.optSink ∧
      below st.lastPosition (getSlopeKeep st).2.events = below st.lastPosition st.events := by
  have hr_sorted := sorted_popAt st.lastPosition st.events ei.sorted
  have hr_lt := lt_popAt st.lastPosition st.events ei.sorted ei.le
  have hr_below := below_popAt st.lastPosition st.events
  unfold getSlopeKeep
  refine ⟨⟨?_, ?_⟩, rfl, rfl, rfl, rfl, ?_⟩ <;> simp only
  · split
    · exact sorted_evInsert _ _ hr_sorted
    · exact hr_sorted
  · intro e he
    split at he
    · rcases (mem_evInsert _ _ _).mp he with rfl | he
      · exact Int.le_refl _
      · exact Int.le_of_lt (hr_lt e he)
    · exact Int.le_of_lt (hr_lt e he)
  · split
    · rw [below_evInsert, ind_neg (Int.lt_irrefl _), hr_below]; rfl
    · exact hr_below

theorem mu_congr (sv : Solver) (i : Nat) (st st' : St) (h1 : st'.lastPosition = st.lastPosition)
    (h2 : st'.lastOcc = st.lastOcc)
    (h3 : below st.lastPosition st'.events = below st.lastPosition st.events) :
    mu sv i st' = mu sv i st := by
  unfold mu; rw [h1, h2, h3]

theorem pushOnce_dec (sv : Solver) (dom : sv.Dom) (i : Nat) (hi : i < sv.u.length) (st : St)
    (hocc : st.lastOcc < sv.v.length) (hpos : 0 ≤ st.lastPosition) (ei : EvInv st)
    (hc : sv.D.getD (st.lastOcc + 1) 0 - sv.S.getD (i + 1) 0 < st.lastPosition) :
    ∃ st', pushOnce sv i st = .ok st' ∧ Keeps sv st st' ∧ EvInv st' ∧
      mu sv i st' < mu sv i st ∧
      sv.D.getD st'.lastOcc 0 - sv.S.getD (i + 1) 0 ≤ st'.lastPosition := by
  unfold pushOnce
  by_cases h1 : st.lastOcc + 1 = sv.nbSinks
  · simp only [h1, if_true]
    exact pushToLastSink_dec sv dom i hi st hocc hpos ei hc (Or.inl h1)
  · have h1' : st.lastOcc + 1 < sv.v.length := by
      have : ¬ st.lastOcc + 1 = sv.v.length := h1
      omega
    simp only [h1, if_false]
    by_cases h2 : st.lastPosition = 0
    · simp only [h2, if_true]
      exact pushToNewSink_dec sv dom i hi st h1' hpos ei hc
    · simp only [h2, if_false, cost_ok sv i (st.lastOcc + 1) hi h1', cost_ok sv i st.lastOcc hi hocc,
        bind, Except.bind]
      obtain ⟨g1, g2, g3, g4, g5, g6⟩ := getSlopeKeep_spec st hpos ei
      have hmu := mu_congr sv i st (getSlopeKeep st).2 g2 g3 g6
      split
      · obtain ⟨st', e, k, k1, k2, k3⟩ := pushToNewSink_dec sv dom i hi (getSlopeKeep st).2
          (by rw [g3]; exact h1') (by rw [g2]; exact hpos) g1 (by rw [g2, g3]; exact hc)
        exact ⟨st', e, ⟨k.pRev.trans g4, k.occ, k.opt.trans g5, k.pos⟩, k1, by omega, k3⟩
      · obtain ⟨st', e, k, k1, k2, k3⟩ := pushToLastSink_dec sv dom i hi (getSlopeKeep st).2
          (by rw [g3]; exact hocc) (by rw [g2]; exact hpos) g1 (by rw [g2, g3]; exact hc)
          (Or.inr (by rw [g2]; omega))
        exact ⟨st', e, ⟨k.pRev.trans g4, k.occ, k.opt.trans g5, k.pos⟩, k1, by omega, k3⟩

/-- with more fuel than the measure the loop ends normally, at a state where its condition fails -/
theorem pushLoop_total (sv : Solver) (dom : sv.Dom) (i : Nat) (hi : i < sv.u.length) (fuel : Nat)
    (st : St) (hocc : st.lastOcc < sv.v.length) (hpos : 0 ≤ st.lastPosition) (ei : EvInv st)
    (hJ : sv.D.getD st.lastOcc 0 - sv.S.getD (i + 1) 0 ≤ st.lastPosition)
    (hf : mu sv i st < fuel) :
    ∃ st', pushLoop sv i fuel st = .ok st' ∧ Keeps sv st st' ∧ EvInv st' ∧
      sv.D.getD st'.lastOcc 0 - sv.S.getD (i + 1) 0 ≤ st'.lastPosition ∧
      st'.lastPosition ≤ sv.D.getD (st'.lastOcc + 1) 0 - sv.S.getD (i + 1) 0 := by
  have wf := dom.wf
  induction fuel generalizing st with
  | zero => omega
  | succ fuel ih =>
    unfold pushLoop
    simp only [get_ok' sv.D (st.lastOcc + 1) (by have := wf.hD; omega),
      get_ok' sv.S (i + 1) (by have := wf.hS; omega), bind, Except.bind]
    split
    · rename_i hc
      obtain ⟨st1, e, k, k1, k2, k3⟩ := pushOnce_dec sv dom i hi st hocc hpos ei hc
      simp only [e]
      obtain ⟨st2, e2, l, l1, l2, l3⟩ := ih st1 k.occ k.pos k1 k3 (by omega)
      exact ⟨st2, e2, ⟨l.pRev.trans k.pRev, l.occ, l.opt.trans k.opt, l.pos⟩, l1, l2, l3⟩
    · rename_i hc
      exact ⟨st, rfl, ⟨rfl, hocc, rfl, hpos⟩, ei, hJ, by omega⟩

/-! ### `push`, `pushAll`, `run` never fail -/

theorem srcEvLoop_spec (sv : Solver) (wf : sv.WF) (i : Nat) (hi0 : 0 < i) (hi : i < sv.u.length)
    (cnt j : Nat) (ev : List Event) (h : cnt = 0 ∨ j + cnt < sv.v.length) :
    ∃ ev', srcEvLoop sv i cnt j ev = .ok ev' ∧ (SortedEv ev → SortedEv ev') ∧
      (∀ e ∈ ev', e ∈ ev ∨ ∃ j', j ≤ j' ∧ j' < j + cnt ∧
        e.1 = sv.D.getD (j' + 1) 0 - sv.S.getD i 0) := by
  induction cnt generalizing j ev with
  | zero => exact ⟨ev, rfl, id, fun e he => Or.inl he⟩
  | succ cnt ih =>
    have hj : j + (cnt + 1) < sv.v.length := by omega
    obtain ⟨x, hx⟩ := delta_ok sv (i - 1) j (by omega) (by omega)
    unfold srcEvLoop
    simp only [get_ok' sv.D (j + 1) (by have := wf.hD; omega), get_ok' sv.S i (by have := wf.hS; omega),
      hx, bind, Except.bind]
    obtain ⟨ev', e, k1, k2⟩ := ih (j + 1)
      (emplacePos ev (sv.D.getD (j + 1) 0 - sv.S.getD i 0) x) (by omega)
    refine ⟨ev', e, fun hs => k1 (sorted_emplacePos _ _ _ hs), ?_⟩
    intro y hy
    rcases k2 y hy with h' | ⟨j', h1, h2, h3⟩
    · rcases mem_emplacePos _ _ _ _ h' with rfl | h''
      · right; exact ⟨j, Nat.le_refl _, by omega, rfl⟩
      · exact Or.inl h''
    · right; exact ⟨j', by omega, by omega, h3⟩

theorem pushNewSourceEvents_spec (sv : Solver) (dom : sv.Dom) (i : Nat) (hi : i < sv.u.length)
    (st : St) (hocc : st.lastOcc < sv.v.length) (ei : EvInv st)
    (hJ : sv.D.getD st.lastOcc 0 - sv.S.getD i 0 ≤ st.lastPosition) :
    ∃ st', pushNewSourceEvents sv i st = .ok st' ∧ EvInv st' ∧ st'.pRev = st.pRev ∧
      st'.lastOcc = st.lastOcc ∧ st'.optSink = st.optSink ∧ st'.lastPosition = st.lastPosition := by
  have wf := dom.wf
  unfold pushNewSourceEvents
  by_cases h0 : i = 0
  · simp only [h0, if_true]; exact ⟨st, rfl, ei, rfl, rfl, rfl, rfl⟩
  · simp only [h0, if_false, get_ok' sv.u (i - 1) (by omega), get_ok' sv.u i hi, bind, Except.bind]
    obtain ⟨ev', h, k1, k2⟩ := srcEvLoop_spec sv wf i (by omega) hi
      (min (lowerBound sv.v (sv.u.getD i 0)) st.lastOcc - (upperBound sv.v (sv.u.getD (i - 1) 0) - 1))
      (upperBound sv.v (sv.u.getD (i - 1) 0) - 1) st.events (by omega)
    simp only [h]
    refine ⟨_, rfl, ⟨k1 ei.sorted, ?_⟩, rfl, rfl, rfl, rfl⟩
    intro e he
    rcases k2 e he with h' | ⟨j', h1, h2, h3⟩
    · exact ei.le e h'
    · have := dom.Dmono (j' + 1) st.lastOcc (by omega) (by omega)
      simp only
      omega

theorem mu_lt_loopFuel (sv : Solver) (i : Nat) (st : St) : mu sv i st < loopFuel sv st := by
  unfold mu loopFuel Solver.nbSinks
  have h1 := below_le_length st.lastPosition st.events
  have h2 := ind_le (0 < st.lastPosition)
  have h3 := ind_le (sv.D.getD (st.lastOcc + 1) 0 - sv.S.getD (i + 1) 0 < st.lastPosition)
  omega

theorem push_total (sv : Solver) (dom : sv.Dom) (i : Nat) (hi : i < sv.u.length) (st : St)
    (inv : Inv sv st) (ei : EvInv st)
    (hJ : sv.D.getD st.lastOcc 0 - sv.S.getD i 0 ≤ st.lastPosition) :
    ∃ st', push sv i st = .ok st' ∧ Inv sv st' ∧ st'.pRev.length = st.pRev.length + 1 ∧ EvInv st' ∧
      sv.D.getD st'.lastOcc 0 - sv.S.getD (i + 1) 0 ≤ st'.lastPosition ∧
      st'.lastPosition ≤ sv.D.getD (st'.lastOcc + 1) 0 - sv.S.getD (i + 1) 0 := by
  have wf := dom.wf
  have hsafe := push_safe sv wf i hi st inv
  suffices h : ∃ st', push sv i st = .ok st' ∧ EvInv st' ∧
      sv.D.getD st'.lastOcc 0 - sv.S.getD (i + 1) 0 ≤ st'.lastPosition ∧
      st'.lastPosition ≤ sv.D.getD (st'.lastOcc + 1) 0 - sv.S.getD (i + 1) 0 by
    obtain ⟨st', e, k1, k2, k3⟩ := h
    rw [e] at hsafe
    exact ⟨st', e, hsafe.1, hsafe.2, k1, k2, k3⟩
  unfold push
  obtain ⟨o, e1, ho⟩ := updOpt_ok sv i hi sv.nbSinks st.optSink inv.opt
  obtain ⟨st1, e2, ei1, _, k2, _, k4⟩ :=
    pushNewSourceEvents_spec sv dom i hi { st with optSink := o } inv.occ ⟨ei.sorted, ei.le⟩ hJ
  have hpos1 : 0 ≤ max st1.lastPosition (sv.D.getD o 0 - sv.S.getD i 0) := by
    have : 0 ≤ st1.lastPosition := by rw [k4]; exact inv.pos
    omega
  have ei1' : EvInv { st1 with lastPosition := max st1.lastPosition (sv.D.getD o 0 - sv.S.getD i 0) } :=
    ⟨ei1.sorted, fun e he => Int.le_trans (ei1.le e he) (Int.le_max_left _ _)⟩
  obtain ⟨st2, e3, ei2, l1, _, _, l4, _, _⟩ := pushNewSinkEvents_spec sv wf i o hi ho
    { st1 with lastPosition := max st1.lastPosition (sv.D.getD o 0 - sv.S.getD i 0) }
    (by simpa [k2] using inv.occ) ei1'
  simp only [e1, e2, get_ok' sv.D o (by have := wf.hD; omega), get_ok' sv.S i (by have := wf.hS; omega),
    e3, bind, Except.bind]
  have hocc2 : st2.lastOcc < sv.v.length := by
    rw [l4]; simp only [k2]; have := inv.occ; omega
  have hS := dom.Smono i (i + 1) (by omega) (by omega)
  have hJ2 : sv.D.getD st2.lastOcc 0 - sv.S.getD (i + 1) 0 ≤ st2.lastPosition := by
    rw [l1, l4]
    simp only [k2, k4]
    by_cases hc : st.lastOcc ≤ o
    · rw [Nat.max_eq_right hc]; omega
    · rw [Nat.max_eq_left (by omega)]; omega
  obtain ⟨st3, e4, _, ei3, m1, m2⟩ := pushLoop_total sv dom i hi (loopFuel sv st2) st2 hocc2
    (by rw [l1]; exact hpos1) ei2 hJ2 (mu_lt_loopFuel sv i st2)
  simp only [e4, pure, Except.pure]
  exact ⟨_, rfl, ⟨ei3.sorted, ei3.le⟩, m1, m2⟩

theorem pushAll_total (sv : Solver) (dom : sv.Dom) (cnt i : Nat) (h : i + cnt ≤ sv.u.length)
    (st : St) (inv : Inv sv st) (ei : EvInv st)
    (hJ : sv.D.getD st.lastOcc 0 - sv.S.getD i 0 ≤ st.lastPosition) :
    ∃ st', pushAll sv cnt i st = .ok st' ∧ Inv sv st' ∧ st'.pRev.length = st.pRev.length + cnt := by
  induction cnt generalizing i st with
  | zero => exact ⟨st, rfl, inv, rfl⟩
  | succ cnt ih =>
    unfold pushAll
    obtain ⟨st1, e, inv1, hl, ei1, hJ1, _⟩ := push_total sv dom i (by omega) st inv ei hJ
    obtain ⟨st2, e2, inv2, hl2⟩ := ih (i + 1) (by omega) st1 inv1 ei1 hJ1
    simp only [e, bind, Except.bind]
    exact ⟨st2, e2, inv2, by omega⟩

/-- `run` (sweep + `flushPositions`) never fails on an instance of the domain -/
theorem run_total (sv : Solver) (dom : sv.Dom) (hm : sv.u.length = 0 ∨ 0 < sv.v.length) :
    ∃ p, run sv = .ok p := by
  have wf := dom.wf
  have hall : ∃ st', pushAll sv sv.nbSources 0 St.init = .ok st' ∧ st'.pRev.length = sv.u.length := by
    rcases hm with h | h
    · have : sv.nbSources = 0 := h
      rw [this]
      exact ⟨St.init, rfl, by simp [St.init, h]⟩
    · have inv : Inv sv St.init := ⟨h, h, Int.le_refl _, by simp [St.init]⟩
      obtain ⟨st', e, _, hl⟩ := pushAll_total sv dom sv.nbSources 0 (by simp [Solver.nbSources])
        St.init inv ⟨by simp [St.init, SortedEv], by simp [St.init]⟩ dom.base
      exact ⟨st', e, by simpa [St.init, Solver.nbSources] using hl⟩
  obtain ⟨st', e, hl⟩ := hall
  have hD : lastD sv = .ok (sv.D.getD (sv.D.length - 1) 0) := by
    unfold lastD
    rw [get_ok' sv.D _ (by have := wf.hD; omega)]
  unfold run
  simp only [e, hD, List.length_reverse, hl, get_ok' sv.S sv.u.length (by have := wf.hS; omega),
    bind, Except.bind, pure, Except.pure]
  exact ⟨_, rfl⟩

/-- a `Safe` computation that does not fail satisfies its postcondition -/
theorem Safe.of_ok {α : Type} {P : α → Prop} {x : M α} {a : α} (h : Safe P x) (e : x = .ok a) : P a := by
  rw [e] at h; exact h

end ColoVerif.Transp1d
