import ColoVerif.Model.DetReorder
/-
`std::next_permutation` as modelled in Model/DetReorder.lean (`nextPerm`):
* the range afterwards is a permutation of the range before (`nextPerm_perm`);
* when it returns false the range is sorted (`nextPerm_false_sorted`);
* when it returns true the number read off the range in base `B` (all elements in `[0, B)`) strictly
  increases (`nextPerm_rank_lt`), hence at most `B ^ n` calls on a range of `n` elements: the fuel
  `permFuel` of the `while (next_permutation(..))` loop is never exhausted (`permLoop_ind`).
-/
namespace ColoVerif.DetPlace

/-! ### permutation -/

theorem swapRightmost_perm (a : Int) : ∀ (suf : List Int) (r : Int × List Int),
    swapRightmost a suf = some r → (r.1 :: r.2).Perm (a :: suf)
  | [], r, e => by simp [swapRightmost] at e
  | h :: t, r, e => by
    unfold swapRightmost at e
    split at e
    · rename_i r' e'
      injection e with e; subst e
      have ih := swapRightmost_perm a t r' e'
      -- r'.1 :: h :: r'.2 ~ a :: h :: t
      exact ((List.Perm.swap h r'.1 r'.2).trans (ih.cons h)).trans (List.Perm.swap a h t)
    · split at e
      · injection e with e; subst e
        exact List.Perm.swap a h t
      · cases e

theorem swapRightmost_length (a : Int) : ∀ (suf : List Int) (r : Int × List Int),
    swapRightmost a suf = some r → r.2.length = suf.length ∧ a < r.1
  | [], r, e => by simp [swapRightmost] at e
  | h :: t, r, e => by
    unfold swapRightmost at e
    split at e
    · rename_i r' e'
      injection e with e; subst e
      have ih := swapRightmost_length a t r' e'
      exact ⟨by simp [ih.1], ih.2⟩
    · split at e
      · rename_i hlt
        injection e with e; subst e
        exact ⟨by simp, hlt⟩
      · cases e

theorem swapRightmost_some (a h : Int) (suf : List Int) (hlt : a < h) : ∃ r, swapRightmost a (h :: suf) = some r := by
  unfold swapRightmost
  split
  · exact ⟨_, rfl⟩
  · simp [hlt]

/-- the shape of a successful call: a common prefix, the pivot `a` replaced by a larger `b`, a suffix
of the same length -/
theorem nextPermGo_shape : ∀ (rest suf : List Int) (l' : List Int), nextPermGo suf rest = some l' →
    l'.Perm (rest.reverse ++ suf) ∧
    ∃ pre a S b S', rest.reverse ++ suf = pre ++ a :: S ∧ l' = pre ++ b :: S' ∧ a < b ∧ S'.length = S.length
  | [], suf, l', e => by simp [nextPermGo] at e
  | a :: rest, [], l', e => by simp [nextPermGo] at e
  | a :: rest, h :: suf, l', e => by
    unfold nextPermGo at e
    split at e
    · rename_i hlt
      split at e
      · rename_i r er
        injection e with e; subst e
        have hp := swapRightmost_perm a (h :: suf) r er
        have hl := swapRightmost_length a (h :: suf) r er
        refine ⟨?_, rest.reverse, a, h :: suf, r.1, r.2.reverse, by simp, rfl, hl.2, by simp [hl.1]⟩
        simp only [List.reverse_cons, List.append_assoc, List.singleton_append]
        apply List.Perm.append_left
        exact ((List.reverse_perm r.2).cons r.1).trans hp
      · cases e
    · have ih := nextPermGo_shape rest (a :: h :: suf) l' e
      simp only [List.reverse_cons, List.append_assoc, List.singleton_append]
      exact ih

theorem nextPerm_perm (l : List Int) : (nextPerm l).2.Perm l := by
  unfold nextPerm
  split
  · exact List.Perm.refl _
  · rename_i x rest hr
    split
    · rename_i l' e
      have := (nextPermGo_shape rest [x] l' e).1
      have h2 : rest.reverse ++ [x] = l := by
        have : l = (x :: rest).reverse := by rw [← hr, List.reverse_reverse]
        rw [this]; simp
      rw [h2] at this
      exact this
    · exact List.reverse_perm l

theorem nextPerm_mem {l : List Int} {c : Int} : c ∈ (nextPerm l).2 ↔ c ∈ l := (nextPerm_perm l).mem_iff

theorem nextPerm_length (l : List Int) : (nextPerm l).2.length = l.length := (nextPerm_perm l).length_eq

/-! ### a false return leaves the range sorted -/

theorem nextPermGo_none : ∀ (rest suf : List Int), suf ≠ [] → suf.Pairwise (· ≥ ·) → nextPermGo suf rest = none →
    (rest.reverse ++ suf).Pairwise (· ≥ ·)
  | [], suf, _, hs, _ => by simpa using hs
  | a :: rest, [], hne, _, _ => absurd rfl hne
  | a :: rest, h :: suf, _, hs, e => by
    unfold nextPermGo at e
    split at e
    · rename_i hlt
      obtain ⟨r, er⟩ := swapRightmost_some a h suf hlt
      rw [er] at e
      cases e
    · rename_i hge
      have hs' : (a :: h :: suf).Pairwise (· ≥ ·) := by
        rw [List.pairwise_cons]
        refine ⟨?_, hs⟩
        intro b hb
        rcases List.mem_cons.1 hb with rfl | hb
        · omega
        · have := (List.pairwise_cons.1 hs).1 b hb
          omega
      have := nextPermGo_none rest (a :: h :: suf) (by simp) hs' e
      simpa using this

theorem nextPerm_false_sorted (l : List Int) (h : (nextPerm l).1 = false) : (nextPerm l).2.Pairwise (· ≤ ·) := by
  unfold nextPerm at h ⊢
  split
  · rename_i hr
    have : l = [] := by simpa using hr
    subst this; exact List.Pairwise.nil
  · rename_i x rest hr
    split
    · rename_i l' e
      simp [hr, e] at h
    · rename_i e
      have hp := nextPermGo_none rest [x] (by simp) (List.pairwise_singleton _ _) e
      have h2 : rest.reverse ++ [x] = l := by
        have : l = (x :: rest).reverse := by rw [← hr, List.reverse_reverse]
        rw [this]; simp
      rw [h2] at hp
      rw [List.pairwise_reverse]
      exact hp.imp (fun h => h)

/-- on a strictly increasing range the loop ends where it started -/
theorem nextPerm_false_restores {l0 l : List Int} (h0 : l0.Pairwise (· < ·)) (hp : l.Perm l0)
    (h : (nextPerm l).1 = false) : (nextPerm l).2 = l0 := by
  apply List.Perm.eq_of_pairwise (le := (· ≤ ·))
  · intro a b _ _ h1 h2; omega
  · exact nextPerm_false_sorted l h
  · exact h0.imp (fun h => Int.le_of_lt h)
  · exact (nextPerm_perm l).trans hp

/-! ### the base-`B` number of a range -/

def permRank (B : Nat) (l : List Int) : Nat := l.foldl (fun acc c => acc * B + c.toNat) 0

theorem permRank_foldl (B : Nat) : ∀ (l : List Int) (acc : Nat),
    l.foldl (fun acc c => acc * B + c.toNat) acc = acc * B ^ l.length + permRank B l
  | [], acc => by simp [permRank]
  | c :: cs, acc => by
    unfold permRank
    simp only [List.foldl_cons, List.length_cons, Nat.zero_mul, Nat.zero_add]
    rw [permRank_foldl B cs (acc * B + c.toNat), permRank_foldl B cs c.toNat]
    unfold permRank
    rw [Nat.pow_succ, Nat.add_mul, Nat.mul_assoc, Nat.mul_comm (B ^ cs.length) B, Nat.add_assoc]

theorem permRank_cons (B : Nat) (c : Int) (cs : List Int) : permRank B (c :: cs) = c.toNat * B ^ cs.length + permRank B cs := by
  unfold permRank
  simp only [List.foldl_cons, Nat.zero_mul, Nat.zero_add]
  exact permRank_foldl B cs c.toNat

theorem permRank_lt (B : Nat) : ∀ (l : List Int), (∀ c ∈ l, c.toNat < B) → permRank B l < B ^ l.length
  | [], _ => by simp [permRank]
  | c :: cs, h => by
    rw [permRank_cons, List.length_cons, Nat.pow_succ]
    have h1 := h c (List.mem_cons_self ..)
    have h2 := permRank_lt B cs (fun d hd => h d (List.mem_cons_of_mem _ hd))
    -- c * P + r < P * B with c + 1 ≤ B and r < P
    have : (c.toNat + 1) * B ^ cs.length ≤ B * B ^ cs.length := Nat.mul_le_mul_right _ h1
    rw [Nat.add_mul, Nat.one_mul] at this
    rw [Nat.mul_comm (B ^ cs.length) B]
    omega

theorem permRank_append (B : Nat) : ∀ (pre l : List Int), permRank B (pre ++ l) = permRank B pre * B ^ l.length + permRank B l
  | pre, l => by
    unfold permRank
    rw [List.foldl_append]
    exact permRank_foldl B l _

/-- replacing the head of the tail by a larger digit increases the number, whatever follows -/
theorem permRank_pivot_lt (B : Nat) (pre S S' : List Int) (a b : Int) (hab : a < b) (ha : 0 ≤ a)
    (hlen : S'.length = S.length) (hS : ∀ c ∈ S, c.toNat < B) :
    permRank B (pre ++ a :: S) < permRank B (pre ++ b :: S') := by
  rw [permRank_append, permRank_append, List.length_cons, List.length_cons, hlen]
  have h1 : permRank B (a :: S) < permRank B (b :: S') := by
    rw [permRank_cons, permRank_cons, hlen]
    have hs := permRank_lt B S hS
    have hab' : a.toNat + 1 ≤ b.toNat := by omega
    have := Nat.mul_le_mul_right (B ^ S.length) hab'
    rw [Nat.add_mul, Nat.one_mul] at this
    omega
  omega

theorem nextPerm_rank_lt (B : Nat) (l : List Int) (hl : ∀ c ∈ l, 0 ≤ c ∧ c.toNat < B) (h : (nextPerm l).1 = true) :
    permRank B l < permRank B (nextPerm l).2 := by
  unfold nextPerm at h ⊢
  split
  · rename_i hr
    simp [hr] at h
  · rename_i x rest hr
    have h2 : rest.reverse ++ [x] = l := by
      have : l = (x :: rest).reverse := by rw [← hr, List.reverse_reverse]
      rw [this]; simp
    split
    · rename_i l' e
      obtain ⟨_, pre, a, S, b, S', e1, e2, hab, hlen⟩ := nextPermGo_shape rest [x] l' e
      rw [h2] at e1
      show permRank B l < permRank B l'
      rw [e1, e2]
      have ha := hl a (by rw [e1]; simp)
      exact permRank_pivot_lt B pre S S' a b hab ha.1 hlen (fun c hc => (hl c (by rw [e1]; simp [hc])).2)
    · rename_i e
      simp [hr, e] at h

/-! ### the `while (next_permutation(order_[j]))` loop never runs out of fuel -/

theorem permFuel_bound (l : List Int) : ∀ c ∈ l, c.toNat < l.foldl (fun m c => max m c.toNat) 0 + 1 := by
  have key : ∀ (l : List Int) (m : Nat), m ≤ l.foldl (fun m c => max m c.toNat) m ∧
      ∀ c ∈ l, c.toNat ≤ l.foldl (fun m c => max m c.toNat) m := by
    intro l
    induction l with
    | nil => intro m; exact ⟨Nat.le_refl _, by simp⟩
    | cons d ds ih =>
      intro m
      simp only [List.foldl_cons]
      have := ih (max m d.toNat)
      refine ⟨by omega, ?_⟩
      intro c hc
      rcases List.mem_cons.1 hc with rfl | hc
      · omega
      · exact this.2 c hc
  intro c hc
  have := (key l 0).2 c hc
  omega

/-- **Induction principle for the loop.**  `I` is an invariant of the states at the head of the loop
(it fixes the length `n` of `order_[j]` and bounds its elements by `B`); the body — set-up and the
recursive call — re-establishes it and hands `order_[j]` back as `next_permutation` left it.  Then,
started with enough fuel, the loop ends on a state satisfying `I` where `next_permutation` returned
false — never by running out of fuel. -/
theorem permLoop_ind {σ : Type} (S : Store σ) (s : State) (rec : RowReord σ → RowReord σ) (j : Nat)
    (I : RowReord σ → Prop) (B n : Nat)
    (hdig : ∀ rr, I rr → (rr.order.getD j []).length = n ∧ ∀ c ∈ rr.order.getD j [], 0 ≤ c ∧ c.toNat < B)
    (hstep : ∀ rr, I rr → (nextPerm (rr.order.getD j [])).1 = true →
      I (rec (setupRow S s j (nextPerm (rr.order.getD j [])).2 rr)) ∧
      (rec (setupRow S s j (nextPerm (rr.order.getD j [])).2 rr)).order.getD j [] = (nextPerm (rr.order.getD j [])).2) :
    ∀ (fuel : Nat) (rr : RowReord σ), I rr → B ^ n ≤ permRank B (rr.order.getD j []) + fuel →
      ∃ rr1, I rr1 ∧ (nextPerm (rr1.order.getD j [])).1 = false ∧
        permLoop S s rec j fuel rr = { rr1 with order := rr1.order.set j (nextPerm (rr1.order.getD j [])).2 }
  | 0, rr, hI, hf => by
    obtain ⟨hn, hd⟩ := hdig rr hI
    have := permRank_lt B (rr.order.getD j []) (fun c hc => (hd c hc).2)
    rw [hn] at this
    omega
  | fuel + 1, rr, hI, hf => by
    unfold permLoop
    by_cases hnp : (nextPerm (rr.order.getD j [])).1 = true
    · rw [if_pos hnp]
      obtain ⟨hI', ho⟩ := hstep rr hI hnp
      apply permLoop_ind S s rec j I B n hdig hstep fuel _ hI'
      rw [ho]
      have := nextPerm_rank_lt B (rr.order.getD j []) (hdig rr hI).2 hnp
      omega
    · rw [if_neg hnp]
      exact ⟨rr, hI, by simpa using hnp, rfl⟩

end ColoVerif.DetPlace
