import ColoVerif.Proofs.LegalizeIdem2Sort
import ColoVerif.Proofs.LegalizeIdem2Cost
/-
Helper lemmas for C11, part 3 (`abacus_keeps_own_row`): `AbacusLegalizer::placeCell` puts a cell
that already sits legally in a segment, to the right of everything pushed there so far, back into
that segment at cost 0 — the own segment costs 0 and is visited before any segment at non-zero y
distance, every other segment of the same y costs > 0 or has no room (first strict minimum wins),
later rows never beat cost 0, and the cost queries leave the row legalizers unchanged.
-/
namespace ColoVerif.Legalize
open ColoVerif ColoVerif.RowLeg

/-! ### `lower_bound` / `closestRow` -/

theorem lowerBound_spec : ∀ (rows : List Row) (y : Int),
    lowerBound rows y ≤ rows.length ∧ (∀ i, i < lowerBound rows y → (rowAt rows i).rect.minY < y) ∧
    (lowerBound rows y < rows.length → y ≤ (rowAt rows (lowerBound rows y)).rect.minY)
  | [], y => by simp [lowerBound]
  | r :: rs, y => by
    have ih := lowerBound_spec rs y
    unfold lowerBound at ih ⊢
    rw [List.findIdx_cons]
    by_cases h : r.rect.minY < y
    · simp only [h, decide_true, Bool.not_true, cond_false]
      refine ⟨by simp only [List.length_cons]; omega, ?_, ?_⟩
      · intro i hi
        cases i with
        | zero => simpa [rowAt] using h
        | succ i => have := ih.2.1 i (by omega); simpa [rowAt] using this
      · intro hl
        have := ih.2.2 (by simp only [List.length_cons] at hl; omega)
        simpa [rowAt] using this
    · simp only [h, decide_false, Bool.not_false, cond_true]
      refine ⟨by simp, by intro i hi; omega, ?_⟩
      intro _
      simp only [rowAt, List.getD_cons_zero]
      omega

/-- on sorted rows, when some row `k0` has `minY = y`: `closestRow` is the first row with that
`minY`, it is at or before `k0`, and all rows in between have `minY = y` -/
theorem startRow_own (S : List Row) (hs : SortedBy rowLt S) (y : Int) (k0 : Nat) (hk0 : k0 < S.length)
    (hy : (rowAt S k0).rect.minY = y) :
    startRow S y = lowerBound S y ∧ lowerBound S y ≤ k0 ∧
    ∀ r, lowerBound S y ≤ r → r ≤ k0 → (rowAt S r).rect.minY = y := by
  obtain ⟨h1, h2, h3⟩ := lowerBound_spec S y
  have hle : lowerBound S y ≤ k0 := by
    rcases Nat.lt_or_ge k0 (lowerBound S y) with h | h
    · have := h2 k0 h; omega
    · exact h
  have hlb := h3 (by omega)
  have hmid : ∀ r, lowerBound S y ≤ r → r ≤ k0 → (rowAt S r).rect.minY = y := by
    intro r hr1 hr2
    have a1 := sortedRows_minY S hs (lowerBound S y) r hr1 (by omega)
    have a2 := sortedRows_minY S hs r k0 hr2 hk0
    omega
  refine ⟨?_, hle, hmid⟩
  unfold startRow closestRow
  have hne : lowerBound S y ≠ S.length := by omega
  rw [if_neg hne]
  by_cases h0 : lowerBound S y = 0
  · rw [if_pos h0, h0]; rfl
  · rw [if_neg h0]
    have hprev := h2 (lowerBound S y - 1) (by omega)
    have hcur := hmid (lowerBound S y) (Nat.le_refl _) hle
    have : ¬ ((rowAt S (lowerBound S y)).rect.minY - y > y - (rowAt S (lowerBound S y - 1)).rect.minY) := by
      omega
    rw [if_neg this]
    simp

/-! ### one call of `tryPlace` -/

theorem set_legAt_self (legs : List State) (k : Nat) (hk : k < legs.length) : legs.set k (legAt legs k) = legs := by
  have : legAt legs k = legs[k] := by
    simp [legAt, List.getD_eq_getElem?_getD, List.getElem?_eq_getElem hk]
  rw [this]
  exact List.set_getElem_self hk

theorem iabs_nonneg (v : Int) : 0 ≤ iabs v := by unfold iabs; split <;> omega

/-- `tryPlace` on a row of the right height whose row legalizer has a sorted queue: the cost query
leaves the legalizers unchanged -/
theorem abacusTry_eq (S : List Row) (legs : List State) (c : LCell) (row : Nat) (b : Option ABest)
    (hh : (rowAt S row).rect.height = c.h) (hrow : row < legs.length)
    (hsorted : Sorted (legAt legs row).bounds) :
    abacusTry S c row (legs, b) =
      if abacusStop b (c.w * iabs ((rowAt S row).rect.minY - c.ty)) = true then ((legs, b), true)
      else if canEval S legs c row = true then
        ((legs, abacusBetter b row ((push (legAt legs row) c.w c.tx).1
            + c.w * iabs ((rowAt S row).rect.minY - c.ty))), false)
      else ((legs, b), false) := by
  unfold abacusTry
  rw [if_neg (by simp [hh])]
  by_cases h1 : abacusStop b (c.w * iabs ((rowAt S row).rect.minY - c.ty)) = true
  · simp only [h1, if_true]
  · simp only [h1]
    by_cases h2 : canEval S legs c row = true
    · have hg : getCost (legAt legs row) c.w c.tx = ((push (legAt legs row) c.w c.tx).1, legAt legs row) :=
        Prod.ext rfl (getCost_state _ _ _ hsorted)
      simp only [h2, Bool.not_true, hg, set_legAt_self legs row hrow]
      simp
    · simp only [h2]
      simp

/-- what the search needs to know about the state of the Abacus legalizer and the cell -/
structure SearchCtx (S : List Row) (legs : List State) (c : LCell) (k0 : Nat) : Prop where
  hk0 : k0 < S.length
  hlen : legs.length = S.length
  sorted : SortedBy rowLt S
  heights : ∀ k, k < S.length → (rowAt S k).rect.height = c.h
  reach : ∀ k, k < S.length → ∃ h C, Reach (rowAt S k).rect.minX (rowAt S k).rect.maxX h C (legAt legs k)
  wpos : 0 < c.w
  own_y : (rowAt S k0).rect.minY = c.ty
  own_nc : ∃ lo ts, NC (legAt legs k0) lo ts ∧ lo ≤ c.tx
  own_e : c.tx + c.w ≤ (rowAt S k0).rect.maxX
  own_orient : getOrientation S c k0 ≠ Orient.INVALID
  others : ∀ k, k < S.length → k ≠ k0 → (rowAt S k).rect.minY = c.ty →
    (rowAt S k).rect.maxX ≤ c.tx ∨ c.tx + c.w ≤ (rowAt S k).rect.minX

/-- before the own segment was seen: no candidate yet, or one with positive cost -/
def PhaseA (b : Option ABest) : Prop := ∀ bb, b = some bb → 0 < bb.dist

theorem SearchCtx.sortedAt {S legs c k0} (x : SearchCtx S legs c k0) (k : Nat) (hk : k < S.length) :
    Sorted (legAt legs k).bounds := by
  obtain ⟨h, C, hr⟩ := x.reach k hk
  exact (reach_inv hr).sorted

theorem SearchCtx.fits {S legs c k0} (_x : SearchCtx S legs c k0) (k : Nat)
    (hce : canEval S legs c k = true) : c.w ≤ (legAt legs k).remaining := by
  unfold canEval at hce
  simp only [Bool.and_eq_true, Bool.not_eq_true', decide_eq_false_iff_not] at hce
  omega

theorem SearchCtx.stepA {S legs c k0} (x : SearchCtx S legs c k0) (row : Nat) (hrow : row < S.length)
    (hne : row ≠ k0) (hy : (rowAt S row).rect.minY = c.ty) (b : Option ABest) (hA : PhaseA b) :
    ∃ b', PhaseA b' ∧ abacusTry S c row (legs, b) = ((legs, b'), false) := by
  rw [abacusTry_eq S legs c row b (x.heights row hrow) (by rw [x.hlen]; exact hrow) (x.sortedAt row hrow)]
  have hz : (rowAt S row).rect.minY - c.ty = 0 := by omega
  have hz2 : c.w * iabs 0 = 0 := by simp [iabs]
  rw [hz, hz2]
  have hstop : ¬ abacusStop b 0 = true := by
    cases b with
    | none => simp [abacusStop]
    | some bb => have := hA bb rfl; simp only [abacusStop, decide_eq_true_eq]; omega
  rw [if_neg hstop]
  by_cases hce : canEval S legs c row = true
  · rw [if_pos hce]
    obtain ⟨h, C, hr⟩ := x.reach row hrow
    have hpos := push_cost_pos hr c.w c.tx x.wpos (x.fits row hce) (x.others row hrow hne hy)
    refine ⟨_, ?_, rfl⟩
    intro bb hbb
    cases b with
    | none =>
      simp only [abacusBetter, Option.some.injEq] at hbb
      rw [← hbb]; simp only; omega
    | some b0 =>
      simp only [abacusBetter] at hbb
      split at hbb
      · simp only [Option.some.injEq] at hbb
        rw [← hbb]; simp only; omega
      · simp only [Option.some.injEq] at hbb
        rw [← hbb]; exact hA b0 rfl
  · rw [if_neg hce]
    exact ⟨b, hA, rfl⟩

theorem SearchCtx.stepK0 {S legs c k0} (x : SearchCtx S legs c k0) (b : Option ABest) (hA : PhaseA b) :
    abacusTry S c k0 (legs, b) = ((legs, some ⟨k0, 0⟩), false) := by
  rw [abacusTry_eq S legs c k0 b (x.heights k0 x.hk0) (by rw [x.hlen]; exact x.hk0) (x.sortedAt k0 x.hk0)]
  have hz : (rowAt S k0).rect.minY - c.ty = 0 := by have := x.own_y; omega
  have hz2 : c.w * iabs 0 = 0 := by simp [iabs]
  rw [hz, hz2]
  have hstop : ¬ abacusStop b 0 = true := by
    cases b with
    | none => simp [abacusStop]
    | some bb => have := hA bb rfl; simp only [abacusStop, decide_eq_true_eq]; omega
  rw [if_neg hstop]
  obtain ⟨lo, ts, hnc, hlo⟩ := x.own_nc
  obtain ⟨h, C, hr⟩ := x.reach k0 x.hk0
  have hinv := reach_inv hr
  have he : c.tx + c.w ≤ (legAt legs k0).e := by rw [hinv.he]; exact x.own_e
  obtain ⟨hcost, _, _⟩ := push_no_conflict (legAt legs k0) lo ts c.w c.tx hnc x.wpos hlo he
  have hce : canEval S legs c k0 = true := by
    unfold canEval
    have hb := hnc.begin_
    have : ¬ ((legAt legs k0).remaining < c.w) := by
      simp only [State.remaining]; omega
    simp only [this, decide_false, Bool.not_false, Bool.true_and, bne_iff_ne, ne_eq]
    exact x.own_orient
  rw [if_pos hce, hcost]
  cases b with
  | none => simp [abacusBetter]
  | some bb =>
    have := hA bb rfl
    simp only [abacusBetter, Int.add_zero]
    rw [if_pos this]

theorem SearchCtx.stepB {S legs c k0} (x : SearchCtx S legs c k0) (row : Nat) (hrow : row < S.length) :
    ∃ fl, abacusTry S c row (legs, some ⟨k0, 0⟩) = ((legs, some ⟨k0, 0⟩), fl) := by
  rw [abacusTry_eq S legs c row _ (x.heights row hrow) (by rw [x.hlen]; exact hrow) (x.sortedAt row hrow)]
  split
  · exact ⟨true, rfl⟩
  · split
    · rename_i hce
      obtain ⟨h, C, hr⟩ := x.reach row hrow
      have h1 := push_cost_nonneg hr c.w c.tx x.wpos (x.fits row hce)
      have h2 : 0 ≤ c.w * iabs ((rowAt S row).rect.minY - c.ty) :=
        Int.mul_nonneg (by have := x.wpos; omega) (iabs_nonneg _)
      refine ⟨false, ?_⟩
      simp only [abacusBetter]
      rw [if_neg (by omega)]
    · exact ⟨false, rfl⟩

/-! ### the two `for` loops -/

theorem scanRows_cons_false {σ : Type} (f : Nat → σ → σ × Bool) (r : Nat) (rs : List Nat) (s s' : σ)
    (h : f r s = (s', false)) : scanRows f (r :: rs) s = scanRows f rs s' := by
  simp only [scanRows, h]

theorem scanRows_cons_true {σ : Type} (f : Nat → σ → σ × Bool) (r : Nat) (rs : List Nat) (s s' : σ)
    (h : f r s = (s', true)) : scanRows f (r :: rs) s = s' := by
  simp only [scanRows, h]

theorem SearchCtx.scanA {S legs c k0} (x : SearchCtx S legs c k0) : ∀ (l : List Nat),
    (∀ r ∈ l, r < S.length ∧ r ≠ k0 ∧ (rowAt S r).rect.minY = c.ty) → ∀ b, PhaseA b →
    ∃ b', PhaseA b' ∧ ∀ rest, scanRows (abacusTry S c) (l ++ rest) (legs, b)
      = scanRows (abacusTry S c) rest (legs, b')
  | [], _, b, hA => ⟨b, hA, fun _ => rfl⟩
  | r :: l, hl, b, hA => by
    obtain ⟨h1, h2, h3⟩ := hl r (by simp)
    obtain ⟨b1, hA1, e1⟩ := x.stepA r h1 h2 h3 b hA
    obtain ⟨b2, hA2, e2⟩ := x.scanA l (fun r' hr' => hl r' (by simp [hr'])) b1 hA1
    refine ⟨b2, hA2, fun rest => ?_⟩
    rw [List.cons_append, scanRows_cons_false _ _ _ _ _ e1]
    exact e2 rest

theorem SearchCtx.scanB {S legs c k0} (x : SearchCtx S legs c k0) : ∀ (l : List Nat),
    (∀ r ∈ l, r < S.length) →
    scanRows (abacusTry S c) l (legs, some ⟨k0, 0⟩) = (legs, some ⟨k0, 0⟩)
  | [], _ => rfl
  | r :: l, hl => by
    obtain ⟨fl, e⟩ := x.stepB r (hl r (by simp))
    cases fl with
    | true => exact scanRows_cons_true _ _ _ _ _ e
    | false =>
      rw [scanRows_cons_false _ _ _ _ _ e]
      exact x.scanB l (fun r' hr' => hl r' (by simp [hr']))

/-- **`abacus_keeps_own_row`**: the search of `placeCell` ends with the own segment at cost 0 and
unchanged row legalizers -/
theorem SearchCtx.search {S legs c k0} (x : SearchCtx S legs c k0) :
    searchRows (abacusTry S c) S.length (startRow S c.ty) (legs, none) = (legs, some ⟨k0, 0⟩) := by
  obtain ⟨hst, hle, hmid⟩ := startRow_own S x.sorted c.ty k0 x.hk0 x.own_y
  have hk0 := x.hk0
  rw [hst]
  generalize lowerBound S c.ty = lb at hle hmid
  unfold searchRows upRows downRows
  have hsplit : List.range' lb (S.length - lb) =
      List.range' lb (k0 - lb) ++ (k0 :: List.range' (k0 + 1) (S.length - k0 - 1)) := by
    have h1 := @List.range'_append lb (k0 - lb) (S.length - k0) 1
    have e1 : lb + 1 * (k0 - lb) = k0 := by omega
    have e2 : k0 - lb + (S.length - k0) = S.length - lb := by omega
    rw [e1, e2] at h1
    rw [← h1]
    have e3 : S.length - k0 = (S.length - k0 - 1) + 1 := by omega
    rw [e3, List.range'_succ]
    simp
  rw [hsplit]
  obtain ⟨b', hA', e⟩ := x.scanA (List.range' lb (k0 - lb)) (by
    intro r hr
    have := List.mem_range'_1.mp hr
    exact ⟨by omega, by omega, hmid r (by omega) (by omega)⟩) none (by intro bb hbb; simp at hbb)
  rw [e, scanRows_cons_false _ _ _ _ _ (x.stepK0 b' hA'), x.scanB _ (by
    intro r hr
    have := List.mem_range'_1.mp hr
    omega)]
  exact x.scanB _ (by
    intro r hr
    have := List.mem_range.mp (List.mem_reverse.mp hr)
    omega)

/-- `placeCell` for such a cell: pushed into its own segment, nothing else changes -/
theorem SearchCtx.place {a : Abacus} {c : LCell} {k0 : Nat} (x : SearchCtx a.rows a.legs c k0) (i : Nat) :
    abacusPlace a i c =
      ({ a with legs := a.legs.set k0 (push (legAt a.legs k0) c.w c.tx).2,
                rowCells := a.rowCells.set k0 (a.rowCells.getD k0 [] ++ [i]) }, true) := by
  unfold abacusPlace
  rw [x.search]

end ColoVerif.Legalize
