import ColoVerif.Model.Freespace
import ColoVerif.Proofs.SpreadGrid
/-
C06 helper lemmas: the free rows of `Circuit::computeRows` (shared Freespace model) are
well-formed rectangles inside the row they come from, hence inside the rows' bounding box.
-/
namespace ColoVerif.Spread
open ColoVerif ColoVerif.Freespace

theorem mem_insertIv (iv x : Int × Int) (l : List (Int × Int)) (h : x ∈ insertIv iv l) : x = iv ∨ x ∈ l := by
  induction l with
  | nil => simp [insertIv] at h; exact Or.inl h
  | cons j js ih =>
    unfold insertIv at h
    split at h
    · rcases List.mem_cons.mp h with rfl | h'
      · exact Or.inl rfl
      · exact Or.inr h'
    · rcases List.mem_cons.mp h with rfl | h'
      · exact Or.inr (by simp)
      · rcases ih h' with rfl | h''
        · exact Or.inl rfl
        · exact Or.inr (List.mem_cons_of_mem _ h'')

theorem mem_sortIvs (x : Int × Int) (l : List (Int × Int)) (h : x ∈ sortIvs l) : x ∈ l := by
  induction l with
  | nil => simp [sortIvs] at h
  | cons a as ih =>
    have h' : x ∈ insertIv a (sortIvs as) := by simpa [sortIvs] using h
    rcases mem_insertIv a x _ h' with rfl | h''
    · simp
    · exact List.mem_cons_of_mem _ (ih h'')

theorem sweep_bounds (hi : Int) (cuts : List (Int × Int)) (cur : Int) (hc : ∀ iv ∈ cuts, iv.1 ≤ hi) :
    ∀ iv ∈ sweep hi cur cuts, cur ≤ iv.1 ∧ iv.1 < iv.2 ∧ iv.2 ≤ hi := by
  induction cuts generalizing cur with
  | nil =>
    intro iv h
    unfold sweep at h
    split at h
    · simp at h; subst h; simp; omega
    · simp at h
  | cons ab rest ih =>
    obtain ⟨a, b⟩ := ab
    have ha : a ≤ hi := hc (a, b) (by simp)
    have hrest : ∀ iv ∈ rest, iv.1 ≤ hi := fun iv h => hc iv (List.mem_cons_of_mem _ h)
    intro iv h
    unfold sweep at h
    split at h
    · rcases List.mem_cons.mp h with rfl | h'
      · simp; omega
      · have := ih (max cur b) hrest iv h'
        omega
    · have := ih (max cur b) hrest iv h
      omega

theorem cut_le (row o : Rect) (iv : Int × Int) (h : cut row o = some iv) (hw : row.minX ≤ row.maxX) :
    iv.1 ≤ row.maxX := by
  unfold cut at h
  split at h
  · rename_i hc
    simp only [Option.some.injEq] at h
    subst h
    show max (min o.minX o.maxX) row.minX ≤ row.maxX
    omega
  · simp at h

theorem freeIntervals_bounds (row : Rect) (obstacles : List Rect) (hw : row.minX ≤ row.maxX) :
    ∀ iv ∈ freeIntervals row obstacles, row.minX ≤ iv.1 ∧ iv.1 < iv.2 ∧ iv.2 ≤ row.maxX := by
  intro iv h
  unfold freeIntervals at h
  split at h
  · have hn : row.normalize.minX ≤ row.normalize.maxX := by
      show min row.minX row.maxX ≤ max row.minX row.maxX
      omega
    have hcuts : ∀ c ∈ sortIvs (obstacles.filterMap (cut row.normalize)), c.1 ≤ max row.minX row.maxX := by
      intro c hc
      have hc' := mem_sortIvs c _ hc
      obtain ⟨o, _, ho⟩ := List.mem_filterMap.mp hc'
      exact cut_le row.normalize o c ho hn
    have := sweep_bounds _ _ _ hcuts iv h
    omega
  · simp at h

theorem freespace_within (r : Row) (obstacles : List Rect) (box : Rect) (hr : Rect.Within box r.rect) :
    ∀ fr ∈ r.freespace obstacles, Rect.Within box fr.rect := by
  intro fr h
  unfold Row.freespace at h
  obtain ⟨iv, hiv, rfl⟩ := List.mem_map.mp h
  unfold Rect.Within at hr ⊢
  have := freeIntervals_bounds r.rect obstacles hr.2.1 iv hiv
  simp only
  omega

theorem computeRows_within (c : Circuit) (extra : List Rect) (box : Rect)
    (hr : ∀ r ∈ c.rows, Rect.Within box r.rect) :
    ∀ fr ∈ c.computeRows extra, Rect.Within box fr.rect := by
  intro fr h
  unfold Circuit.computeRows at h
  obtain ⟨r, hrm, hfr⟩ := List.mem_flatMap.mp h
  exact freespace_within r _ box (hr r hrm) fr hfr

/-- well-formed rectangles with C++ `int` coordinates lie inside their bounding box -/
theorem rows_within_bbox (rows : List Rect) (hne : rows ≠ [])
    (hwf : ∀ r ∈ rows, Rect.Within ⟨intMin, intMax, intMin, intMax⟩ r) :
    ∀ r ∈ rows, Rect.Within (computePlacementArea rows) r := by
  intro r hr
  have hw := hwf r hr
  unfold computePlacementArea
  have hemp : rows.isEmpty = false := by
    cases rows with
    | nil => exact absurd rfl hne
    | cons _ _ => rfl
  rw [hemp]
  simp only [Bool.false_eq_true, if_false]
  obtain ⟨_, _, c⟩ := areaFold rows ⟨intMax, intMin, intMax, intMin⟩ ⟨intMin, intMax, intMin, intMax⟩
    (by unfold intMin intMax; decide) hwf
  have := c r hr
  unfold Rect.Within at hw ⊢
  omega

end ColoVerif.Spread
