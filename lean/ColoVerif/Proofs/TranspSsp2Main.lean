/-
C13: `sendSource(src, sink, quantity)` on a good state does not fail and yields a good state; hence
`solve` returns a plan whenever demand fits in capacity and `3·|cost| < INT_MAX`, and that plan is
feasible and of minimum cost.
-/
import ColoVerif.Proofs.TranspSsp2Update

namespace ColoVerif.Transp

lemma getD_setIfInBounds_ne (qs : Queues) (r : Nat) (x : Array Heap) (i : Nat) (h : i ≠ r) :
    (qs.setIfInBounds r x).getD i #[] = qs.getD i #[] := by
  simp only [Array.getD_eq_getD_getElem?, Array.getElem?_setIfInBounds]
  have : ¬ r = i := fun e => h e.symm
  simp [this]

/-- the state after the augmentation (before `updateTree`) -/
lemma mid_after (p : Problem) (s : St) (d : Nat → Int) (w : Walk) (m : Int)
    (alloc' : Mat) (rem' : List Int) (qs' : Queues)
    (ha : alloc' = add2 w.alloc w.root w.src m)
    (hr : rem' = s.remCapa.set w.root (s.remCapa.getD w.root 0 - m))
    (hq : qs' = if rem'.getD w.root 0 == 0 then w.queues.setIfInBounds w.root (initQueues p alloc' w.root)
                else w.queues)
    (hg : Mid p s.alloc s.queues s.remCapa) (hpot : Pot p s.alloc s.remCapa d)
    (hw : WInv p s d w.alloc w.queues w.needUpdate) (hroot : w.root < p.nbSinks) (hsrc : w.src < p.nbSources)
    (hm : 0 < m) (hmle : m ≤ s.remCapa.getD w.root 0)
    (hP2 : ∀ k', k' < p.nbSinks → p.cost w.root w.src + d w.root ≤ p.cost k' w.src + d k') :
    Mid p alloc' qs' rem' ∧ Pot p alloc' rem' d := by
  have hl : w.src < (w.alloc.getD w.root []).length := by rw [hw.rows w.root hroot]; exact hsrc
  have hrl : w.root < s.remCapa.length := by rw [hg.shape.rlen]; exact hroot
  have hrem : ∀ i, rem'.getD i 0 = if i = w.root then s.remCapa.getD w.root 0 - m else s.remCapa.getD i 0 := by
    intro i
    rw [hr, getD_set_int]
    by_cases e : i = w.root
    · simp [e, hrl]
    · simp [e]
  have hal : ∀ i j, get2 alloc' i j = get2 w.alloc i j + (if i = w.root ∧ j = w.src then m else 0) := by
    intro i j; rw [ha, get2_add2 _ _ _ _ hl]
  have hrowne : ∀ i, i ≠ w.root → alloc'.getD i [] = w.alloc.getD i [] := by
    intro i hi; rw [ha]; exact add2_row_ne _ _ _ _ _ hi
  have hqne : ∀ i, i ≠ w.root → qs'.getD i #[] = w.queues.getD i #[] := by
    intro i hi
    rw [hq]
    split
    · exact getD_setIfInBounds_ne _ _ _ _ hi
    · rfl
  refine ⟨⟨⟨fun i hi => ?_, ?_, ?_⟩, fun i j => ?_, fun i hi hf => ?_, fun i => ?_, fun i => ?_⟩,
    ⟨hpot.nn, fun i hi hf => ?_, fun i j k hi hj hk hpos => ?_⟩⟩
  · rw [ha, add2_row_len]; exact hw.rows i hi
  · rw [hq]
    split
    · rw [Array.size_setIfInBounds]; exact hw.qsize
    · exact hw.qsize
  · rw [hr, List.length_set]; exact hg.shape.rlen
  · rw [hal]
    have := hw.nn i j
    split <;> omega
  · by_cases e : i = w.root
    · subst e
      have hc : (rem'.getD w.root 0 == 0) = true := by rw [hf]; rfl
      rw [hq, if_pos hc]
      exact initQueues_row p alloc' w.queues w.root (by rw [hw.qsize]; exact hroot)
    · rw [hrem, if_neg e] at hf
      exact (hw.qrow i hi hf).congr (hrowne i e) (hqne i e)
  · rw [hrem]
    have := hg.rnn i
    split <;> omega
  · have e1 := (add2?_sums p.nbSinks p.nbSources _ _ _ _ _
      (add2?_ok p.nbSinks p.nbSources w.alloc w.root w.src m hroot hsrc hl)).2 i
    rw [ha, e1, hw.rsum i, hrem]
    have := hg.row i
    by_cases e : i = w.root
    · rw [if_pos e, if_pos e]; rw [e] at this ⊢; omega
    · rw [if_neg e, if_neg e]; omega
  · refine hpot.free i hi ?_
    rw [hrem] at hf
    by_cases e : i = w.root
    · rw [if_pos e] at hf; rw [e]; omega
    · rw [if_neg e] at hf; exact hf
  · rw [hal] at hpos
    by_cases e : i = w.root ∧ j = w.src
    · rw [e.1, e.2]; exact hP2 k hk
    · rw [if_neg e] at hpos
      exact hw.red i j k hi hj hk (by omega)

/-- tail of `sendSource`: `initQueues` / `updateTree` do not fail and restore the tree invariant -/
lemma finishSend_total (p : Problem) (s : St) (queues : Queues) (root : Nat) (nu : Bool) (alloc' : Mat)
    (rem' : List Int) (m : Int) (qs' : Queues) (d : Nat → Int)
    (hq : qs' = if rem'.getD root 0 == 0 then queues.setIfInBounds root (initQueues p alloc' root) else queues)
    (hmid : Mid p alloc' qs' rem') (hpot : Pot p alloc' rem' d) (hdle : ∀ i, i < p.nbSinks → d i ≤ Wmax)
    (hcb : CostBound p) (hcap : ∀ i, i < p.nbSinks → 0 < p.capacity i)
    (hlazy : nu = false → ¬ rem'.getD root 0 = 0 → (∃ f, f < p.nbSinks ∧ rem'.getD f 0 > 0) →
      TreeOK p alloc' queues rem' s.sendCost s.parent) :
    ∃ s', finishSend p s queues root nu alloc' rem' m = .ok (s', m) ∧
      s'.alloc = alloc' ∧ s'.queues = qs' ∧ s'.remCapa = rem' ∧
      ((∃ f, f < p.nbSinks ∧ rem'.getD f 0 > 0) → TreeOK p alloc' qs' rem' s'.sendCost s'.parent) := by
  unfold finishSend
  simp only []
  rw [← hq]
  by_cases hc : (nu || rem'.getD root 0 == 0) = true
  · rw [if_pos hc]
    obtain ⟨t, ht, htree⟩ := update_total p alloc' qs' rem' d hmid hpot hdle hcb hcap
    rw [ht]
    exact ⟨_, rfl, rfl, rfl, rfl, htree⟩
  · rw [if_neg hc]
    have hc' : (nu || rem'.getD root 0 == 0) = false := by simpa using hc
    obtain ⟨h1, h2⟩ := Bool.or_eq_false_iff.mp hc'
    have h3 : ¬ rem'.getD root 0 = 0 := by simpa using h2
    have hqq : qs' = queues := by rw [hq, h2]; rfl
    refine ⟨_, rfl, rfl, rfl, rfl, fun hfree => ?_⟩
    rw [hqq]
    exact hlazy h1 h3 hfree

lemma sumTo_set (n : Nat) (l : List Int) (r : Nat) (v : Int) (hr : r < n) (hl : r < l.length) :
    sumTo n (fun i => (l.set r v).getD i 0) = sumTo n (fun i => l.getD i 0) + (v - l.getD r 0) := by
  have : (fun i => (l.set r v).getD i 0) = (fun i => l.getD i 0 + (if i = r then v - l.getD r 0 else 0)) := by
    funext i
    rw [getD_set_int]
    by_cases e : i = r
    · simp [e, hl]
    · simp [e]
  rw [this, sumTo_add_ite, if_pos hr]

/-- **one call `sendSource(src, bestSink(src), quantity)`** on a good state with some free capacity -/
lemma sendSource3_total (p : Problem) (hcb : CostBound p) (hcap : ∀ i, i < p.nbSinks → 0 < p.capacity i)
    (s : St) (sent : Nat → Int) (src : Nat) (q : Int) (hg : Good p s sent) (hsrc : src < p.nbSources)
    (hq : 0 < q) (hfree : ∃ f, f < p.nbSinks ∧ s.remCapa.getD f 0 > 0) :
    ∃ s' m, sendSource3 p s src (bestSink p s.sendCost src) q = .ok (s', m) ∧
      Good p s' (fun j => sent j + (if j = src then m else 0)) ∧ 0 < m ∧ m ≤ q ∧
      sumTo p.nbSinks (fun i => s'.remCapa.getD i 0) = sumTo p.nbSinks (fun i => s.remCapa.getD i 0) - m := by
  have tr := hg.tree hfree
  have hn : 0 < p.nbSinks := by obtain ⟨f, hf, _⟩ := hfree; omega
  obtain ⟨hsink, hP2⟩ := bestSink_spec p s.sendCost src hn
    (fun i hi => hcb.sum i src hi hsrc _ (tr.le i hi))
  have hcapfull := hg.mid.rowpos hcap
  obtain ⟨k, hk, hdep⟩ := tr.depth _ hsink
  have hedgeM : ∀ i k, i < p.nbSinks → s.parent.getD i none = some k →
      k < p.nbSinks ∧ 0 < (qget s.queues i k).size ∧ 0 < get2 s.alloc i (hget (qget s.queues i k) 0).elt := by
    intro i k hi hpar
    obtain ⟨hf, hk, hne, _⟩ := tr.edge i k hi hpar
    exact ⟨hk, hg.mid.qnonempty hcap i k hi hk hne hf, (hg.mid.top hcap i k hi hk hne hf).2.2⟩
  obtain ⟨ms, root, hms, hmspos, hrootn, hrootpar⟩ :=
    maxSentLoop_total s.alloc s.queues s.parent p.nbSinks hedgeM k (p.nbSinks + 1) _ q hdep (by omega) hsink hq
  have hrootfree := tr.root root hrootn hrootpar
  have hm : min ms (s.remCapa.getD root 0) > 0 := by
    show 0 < min ms (s.remCapa.getD root 0)
    rw [lt_min_iff]; exact ⟨hmspos, hrootfree⟩
  have hw0 : WInv p s (fun i => s.sendCost.getD i 0) s.alloc s.queues false :=
    ⟨hg.mid.shape.rows, hg.mid.shape.qsize, hg.mid.nn, hg.mid.qrow, tr.pot.red, fun _ => rfl,
      fun i k hi hpar _ => (tr.edge i k hi hpar).2.2.2⟩
  obtain ⟨w, hwok, hw, hwroot, hwsrc, hwrootn, hP2f⟩ :=
    sendLoop_total p s (fun i => s.sendCost.getD i 0) _ hm hcapfull tr.edge (p.nbSinks + 1) k _ q ms root
      s.alloc s.queues src false hms (min_le_left _ _) hdep hsink hsrc (fun _ _ _ _ => ⟨rfl, rfl⟩) hw0
      (fun k' hk' => hP2 k' hk')
  have hl : w.src < (w.alloc.getD w.root []).length := by rw [hw.rows w.root hwrootn]; exact hwsrc
  have hrl : w.root < s.remCapa.length := by rw [hg.mid.shape.rlen]; exact hwrootn
  have hmle : min ms (s.remCapa.getD root 0) ≤ s.remCapa.getD w.root 0 := by rw [hwroot]; exact min_le_right _ _
  obtain ⟨hmid', hpot'⟩ := mid_after p s (fun i => s.sendCost.getD i 0) w (min ms (s.remCapa.getD root 0))
    _ _ _ rfl rfl rfl hg.mid tr.pot hw hwrootn hwsrc hm hmle hP2f
  obtain ⟨s', hfin, e1, e2, e3, htree'⟩ := finishSend_total p s w.queues w.root w.needUpdate _ _
    (min ms (s.remCapa.getD root 0)) _ (fun i => s.sendCost.getD i 0) rfl hmid' hpot' tr.le hcb hcap
    (by
      intro hnu hnz hfree'
      refine ⟨hpot', tr.le, fun i hi hpar => ?_, fun i k hi hpar => ?_, tr.depth⟩
      · have h0 := tr.root i hi hpar
        rw [getD_set_int]
        by_cases e : i = w.root
        · subst e
          rw [getD_set_int] at hnz
          simp only [true_and, hrl, if_true] at hnz ⊢
          omega
        · simp only [e, false_and, if_false]; exact h0
      · obtain ⟨hf, hk, hne, _⟩ := tr.edge i k hi hpar
        have e : i ≠ w.root := by
          intro e; rw [e, hwroot] at hf; omega
        refine ⟨?_, hk, hne, hw.tight i k hi hpar hnu⟩
        rw [getD_set_int]
        simp only [e, false_and, if_false]; exact hf)
  have hok : sendSource3 p s src (bestSink p s.sendCost src) q
      = .ok (s', min ms (s.remCapa.getD root 0)) := by
    simp only [sendSource3, hms, hm, if_true, hwok,
      add2?_ok p.nbSinks p.nbSources w.alloc w.root w.src _ hwrootn hwsrc hl, hrl]
    exact hfin
  obtain ⟨hinv', hm0, hmq⟩ := sendSource3_inv p s sent src _ q s' _ hg.inv hok
  refine ⟨s', _, hok, ⟨?_, hinv'.col, ?_, ?_⟩, hm0, hmq, ?_⟩
  · rw [e1, e2, e3]; exact hmid'
  · rw [e1, e3]; exact ⟨_, hpot'⟩
  · rw [e1, e2, e3]; exact htree'
  · rw [e3, sumTo_set _ _ _ _ hwrootn hrl]; omega

end ColoVerif.Transp
