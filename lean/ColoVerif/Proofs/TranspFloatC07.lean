import ColoVerif.Model.TranspCostsChecked
import ColoVerif.Model.TranspFloat
/-
One scaling, two users: the fault-checked model `costsFromIntegersC` of C07 (Model/TranspCostsChecked.lean,
which reports the undefined `double → int` conversion as a fault) and C13's total model `costsFromFloats`
(Model/TranspFloat.lean) compute the same matrix whenever the former reports no fault.  So C07's
`costsFromIntegersC_ok` and C13's `costsFromFloats_bound` speak about the same numbers.  (Core Lean only.)
-/
namespace ColoVerif.Transp
open ColoVerif.Checked ColoVerif.F64

theorem mapC_eq_map {α β : Type} (f : α → Except Fault β) (g : α → β) (hfg : ∀ a b, f a = .ok b → b = g a) :
    ∀ (l : List α) (bs : List β), mapC f l = .ok bs → bs = l.map g := by
  intro l
  induction l with
  | nil => intro bs h; simp only [mapC] at h; injection h with h; subst h; rfl
  | cons a as ih =>
    intro bs h
    simp only [mapC] at h
    split at h
    · exact absurd h (by simp)
    · rename_i b hb
      split at h
      · exact absurd h (by simp)
      · rename_i bs' hbs
        injection h with h; subst h
        rw [List.map_cons, hfg a b hb, ih bs' hbs]

theorem maxValOf_eq (fc : List (List Rat)) : maxValOf fc = fcMaxVal fc := rfl

theorem convFactor_eq (M : Rat) (n : Nat) : convFactor M n = fcFactor M n := rfl

theorem toFixedC_eq (cf c : Rat) (v : Int) (h : toFixedC cf c = .ok v) : v = fcFixed cf c := by
  unfold toFixedC chk32 at h
  split at h
  · injection h with h; exact h.symm
  · exact absurd h (by simp)

/-- whenever C07's checked scaling reports no fault, it returns C13's `costsFromFloats` -/
theorem costsFromIntegersC_eq (fc : List (List Rat)) (m : Mat) (h : costsFromIntegersC fc = .ok m) :
    m = costsFromFloats fc := by
  unfold costsFromIntegersC at h
  rw [maxValOf_eq, convFactor_eq] at h
  have := mapC_eq_map (fun r => mapC (toFixedC (fcFactor (fcMaxVal fc) fc.length)) r)
    (fun r => r.map (fcFixed (fcFactor (fcMaxVal fc) fc.length)))
    (fun r bs hr => mapC_eq_map _ _ (fun c v hv => toFixedC_eq _ c v hv) r bs hr) fc m h
  rw [this]; rfl

end ColoVerif.Transp
