/-
C13: the two walks along `sinkParent_` in `sendSource(src, sink, quantity)` do not fail on a good
state, and the second one keeps the queue invariant and the non-negativity of the reduced costs.
-/
import ColoVerif.Proofs.TranspSsp2Step

namespace ColoVerif.Transp

/-- invariant of the second walk, relative to the state `s` before the call and the potentials `d` -/
structure WInv (p : Problem) (s : St) (d : Nat → Int) (alloc : Mat) (qs : Queues) (nu : Bool) : Prop where
  rows : ∀ i, i < p.nbSinks → (alloc.getD i []).length = p.nbSources
  qsize : qs.size = p.nbSinks
  nn : ∀ i j, 0 ≤ get2 alloc i j
  qrow : ∀ i, i < p.nbSinks → s.remCapa.getD i 0 = 0 → QRow p alloc qs i
  red : ∀ i j k, i < p.nbSinks → j < p.nbSources → k < p.nbSinks → 0 < get2 alloc i j →
    p.cost i j + d i ≤ p.cost k j + d k
  rsum : ∀ i, rowSum alloc p.nbSources i = rowSum s.alloc p.nbSources i
  tight : ∀ i k, i < p.nbSinks → s.parent.getD i none = some k → nu = false →
    d i = (hget (qget qs i k) 0).cost + d k

/-- the first walk does not fail -/
lemma maxSentLoop_total (alloc : Mat) (qs : Queues) (parent : List (Option Nat)) (n : Nat)
    (hedge : ∀ i k, i < n → parent.getD i none = some k →
      k < n ∧ 0 < (qget qs i k).size ∧ 0 < get2 alloc i (hget (qget qs i k) 0).elt) :
    ∀ (k fuel snk1 : Nat) (q : Int), depthIs parent k snk1 → k < fuel → snk1 < n → 0 < q →
      ∃ ms root, maxSentLoop alloc qs parent fuel snk1 q = .ok (ms, root) ∧ 0 < ms ∧ root < n ∧
        parent.getD root none = none := by
  intro k
  induction k with
  | zero =>
    intro fuel snk1 q hd hf hs hq
    cases fuel with
    | zero => omega
    | succ fuel =>
      simp only [depthIs] at hd
      exact ⟨q, snk1, by simp only [maxSentLoop, hd], hq, hs, hd⟩
  | succ k ih =>
    intro fuel snk1 q hd hf hs hq
    cases fuel with
    | zero => omega
    | succ fuel =>
      obtain ⟨y, hy, hdy⟩ := hd
      obtain ⟨hyn, hpos, hal⟩ := hedge snk1 y hs hy
      have hq' : 0 < min q (get2 alloc snk1 (hget (qget qs snk1 y) 0).elt) := by
        rw [lt_min_iff]; exact ⟨hq, hal⟩
      obtain ⟨ms, root, e, h1, h2, h3⟩ := ih fuel y _ hdy (by omega) hyn hq'
      refine ⟨ms, root, ?_, h1, h2, h3⟩
      unfold maxSentLoop
      simp only [hy, sentSourceQ_ok qs snk1 y hpos]
      have : min q (get2 alloc snk1 (hget (qget qs snk1 y) 0).elt) > 0 := hq'
      rw [if_pos this]
      exact e

/-- one round of the second walk: does not fail, keeps the walk invariant -/
lemma sendStep_winv (p : Problem) (s : St) (d : Nat → Int) (m : Int) (hm : 0 < m)
    (alloc : Mat) (qs : Queues) (snk1 snk2 sentSrc : Nat) (nu : Bool)
    (hw : WInv p s d alloc qs nu) (hs1 : snk1 < p.nbSinks) (hs2 : snk2 < p.nbSinks) (hne : snk1 ≠ snk2)
    (hss : sentSrc < p.nbSources) (hfull : s.remCapa.getD snk1 0 = 0)
    (hpar : s.parent.getD snk1 none = some snk2)
    (hsum : 0 < rowSum s.alloc p.nbSources snk1)
    (hbound : m ≤ get2 alloc snk1 (hget (qget qs snk1 snk2) 0).elt)
    (hP2 : ∀ k', k' < p.nbSinks → p.cost snk1 sentSrc + d snk1 ≤ p.cost k' sentSrc + d k')
    (hP3 : d snk1 = (hget (qget qs snk1 snk2) 0).cost + d snk2) :
    ∃ st, sendStep p m alloc qs snk1 snk2 sentSrc = .ok st ∧
      WInv p s d st.alloc st.queues (nu || st.costUp) ∧ st.newSrc < p.nbSources ∧
      (∀ a, a ≠ snk1 → st.alloc.getD a [] = alloc.getD a []) ∧
      (∀ a, a ≠ snk1 → st.queues.getD a #[] = qs.getD a #[]) ∧
      (∀ k', k' < p.nbSinks → p.cost snk2 st.newSrc + d snk2 ≤ p.cost k' st.newSrc + d k') := by
  have hsum' : 0 < rowSum alloc p.nbSources snk1 := by rw [hw.rsum]; exact hsum
  obtain ⟨st, hst, hqsz, hqrow, hnsM, hns, hmc, hpos', hcu, hnn', hlen'⟩ :=
    sendStep_total p m alloc qs snk1 snk2 sentSrc hs1 hs2 hne hss (hw.rows snk1 hs1)
      (by rw [hw.qsize]; exact hs1) (hw.qrow snk1 hs1 hfull) (hw.nn snk1) hsum' hm hbound
  obtain ⟨hI2, hP2', hup⟩ := sendStep_potentials p m alloc qs snk1 snk2 sentSrc d st hs2 hne hm hbound
    hst hqrow hns hmc hpos' hnn'
    (fun j hj hpos k hk => hw.red snk1 j k hs1 hj hk hpos) hP2 hP3 hnsM
  obtain ⟨_, hra, hrq, _⟩ := sendStep_alloc p m alloc qs snk1 snk2 sentSrc st hst
  obtain ⟨_, hrs⟩ := sendStep_sums p m alloc qs snk1 snk2 sentSrc st hst
  refine ⟨st, hst, ?_, hnsM, hra, hrq, hP2'⟩
  refine ⟨fun i hi => ?_, by rw [hqsz]; exact hw.qsize, fun i j => ?_, fun i hi hf => ?_,
    fun i j k' hi hj hk' hpos => ?_, fun i => by rw [hrs i]; exact hw.rsum i,
    fun i k' hi hpar' hnu => ?_⟩
  · by_cases e : i = snk1
    · rw [e]; exact hlen'
    · rw [hra i e]; exact hw.rows i hi
  · by_cases e : i = snk1
    · rw [e]; exact hnn' j
    · rw [get2_row _ _ i j (hra i e)]; exact hw.nn i j
  · by_cases e : i = snk1
    · rw [e]; exact hqrow
    · exact (hw.qrow i hi hf).congr (hra i e) (hrq i e)
  · by_cases e : i = snk1
    · rw [e] at hpos ⊢; exact hI2 j hj hpos k' hk'
    · rw [get2_row _ _ i j (hra i e)] at hpos; exact hw.red i j k' hi hj hk' hpos
  · obtain ⟨hnu1, hnu2⟩ := Bool.or_eq_false_iff.mp hnu
    by_cases e : i = snk1
    · subst e
      rw [hpar] at hpar'
      injection hpar' with hpar'
      subst hpar'
      have : ¬ ((hget (qget st.queues i snk2) 0).cost > (hget (qget qs i snk2) 0).cost) := by
        rw [hcu] at hnu2
        simpa using hnu2
      omega
    · rw [qget_row st.queues qs i k' (hrq i e)]
      exact hw.tight i k' hi hpar' hnu1

/-- the second walk does not fail and keeps its invariant -/
lemma sendLoop_total (p : Problem) (s : St) (d : Nat → Int) (m : Int) (hm : 0 < m)
    (hcap : ∀ i, i < p.nbSinks → s.remCapa.getD i 0 = 0 → 0 < rowSum s.alloc p.nbSources i)
    (hedge : ∀ i k, i < p.nbSinks → s.parent.getD i none = some k →
      s.remCapa.getD i 0 = 0 ∧ k < p.nbSinks ∧ k ≠ i ∧
      d i = (hget (qget s.queues i k) 0).cost + d k) :
    ∀ (fuel k snk1 : Nat) (q ms : Int) (root : Nat) (alloc : Mat) (qs : Queues) (sentSrc : Nat) (nu : Bool),
      maxSentLoop s.alloc s.queues s.parent fuel snk1 q = .ok (ms, root) → m ≤ ms →
      depthIs s.parent k snk1 → snk1 < p.nbSinks → sentSrc < p.nbSources →
      (∀ y k', k' ≤ k → depthIs s.parent k' y →
        alloc.getD y [] = s.alloc.getD y [] ∧ qs.getD y #[] = s.queues.getD y #[]) →
      WInv p s d alloc qs nu →
      (∀ k', k' < p.nbSinks → p.cost snk1 sentSrc + d snk1 ≤ p.cost k' sentSrc + d k') →
      ∃ w, sendLoop p s.remCapa s.parent m fuel alloc qs snk1 sentSrc nu = .ok w ∧
        WInv p s d w.alloc w.queues w.needUpdate ∧ w.root = root ∧ w.src < p.nbSources ∧
        w.root < p.nbSinks ∧
        (∀ k', k' < p.nbSinks → p.cost w.root w.src + d w.root ≤ p.cost k' w.src + d k') := by
  intro fuel
  induction fuel with
  | zero => intro k snk1 q ms root alloc qs sentSrc nu h; simp [maxSentLoop] at h
  | succ fuel ih =>
    intro k snk1 q ms root alloc qs sentSrc nu h1 hle hdep hs1 hss hrows hw hP2
    unfold maxSentLoop at h1
    unfold sendLoop
    split at h1
    · rename_i hp
      simp only [Except.ok.injEq, Prod.mk.injEq] at h1
      exact ⟨_, rfl, hw, h1.2, hss, hs1, hP2⟩
    · rename_i snk2 hp
      split at h1; · exact absurd h1 (by simp)
      rename_i src0 hsrc0
      split at h1
      · cases k with
        | zero =>
          simp only [depthIs] at hdep
          rw [hdep] at hp; exact absurd hp (by simp)
        | succ k =>
          obtain ⟨y, hy, hdy⟩ := hdep
          rw [hp] at hy
          injection hy with hy
          subst hy
          obtain ⟨hfull, hs2, hne21, hP3s⟩ := hedge snk1 snk2 hs1 hp
          have hne : snk1 ≠ snk2 := fun e => hne21 e.symm
          have hc : (s.remCapa.getD snk1 0 != 0) = false := by rw [hfull]; rfl
          simp only [hc, Bool.false_eq_true, if_false]
          obtain ⟨hrow1a, hrow1q⟩ := hrows snk1 (k + 1) (Nat.le_refl _) ⟨snk2, hp, hdy⟩
          have hms := maxSentLoop_le _ _ _ _ _ _ _ _ h1
          have hsrc0' : (hget (qget qs snk1 snk2) 0).elt = src0 := by
            rw [qget_row qs s.queues snk1 snk2 hrow1q]
            unfold sentSourceQ qtop at hsrc0
            split at hsrc0
            · exact absurd hsrc0 (by simp [Except.map])
            · simp only [Except.map, Except.ok.injEq] at hsrc0
              exact hsrc0
          have hbound : m ≤ get2 alloc snk1 (hget (qget qs snk1 snk2) 0).elt := by
            rw [hsrc0', get2_row alloc s.alloc snk1 src0 hrow1a]
            have := min_le_right q (get2 s.alloc snk1 src0)
            omega
          have hP3 : d snk1 = (hget (qget qs snk1 snk2) 0).cost + d snk2 := by
            rw [qget_row qs s.queues snk1 snk2 hrow1q]; exact hP3s
          obtain ⟨st, hst, hw', hnsM, hra, hrq, hP2'⟩ := sendStep_winv p s d m hm alloc qs snk1 snk2 sentSrc nu
            hw hs1 hs2 hne hss hfull hp (hcap snk1 hs1 hfull) hbound hP2 hP3
          rw [hst]
          simp only []
          refine ih k snk2 _ ms root st.alloc st.queues st.newSrc _ h1 hle hdy hs2 hnsM ?_ hw' hP2'
          intro y k' hk' hdy'
          have hney : y ≠ snk1 := by
            intro e
            subst e
            have := depthIs_unique s.parent _ _ _ hdy' (show depthIs s.parent (k + 1) y from ⟨snk2, hp, hdy⟩)
            omega
          obtain ⟨e1, e2⟩ := hrows y k' (by omega) hdy'
          exact ⟨(hra y hney).trans e1, (hrq y hney).trans e2⟩
      · exact absurd h1 (by simp)

end ColoVerif.Transp
