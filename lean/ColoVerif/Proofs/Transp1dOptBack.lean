import ColoVerif.Proofs.Transp1dOptDefs
/-
From a global dual certificate on the sorted instance (`GlobCert`, sink prices `be`) to the
`certOk` certificate of the ORIGINAL problem (C14, slack case).

The prices induce a potential on the integer line

    ψ(x) = min_{j < m} (be j + |x - v j|)            (`psi`; `0` when there is no sink)

which is non-negative, 1-Lipschitz, satisfies `ψ(v j) ≤ be j`, and `ψ(u i) = be j + |u i - v j|`
whenever source `i` overlaps sink `j` (`GlobCert.opt`).  The potentials of the original problem
are `al = pb.u.map ψ`, `be' = pb.v.map ψ`; a sink with `be' > 0` has a positive price, hence is
saturated (`GlobCert.sat` + `colSum = fillP`).
-/
namespace ColoVerif.Transp1d

/-! ### minimum of `f 0 .. f k` -/

def minOver (f : Nat → Int) : Nat → Int
  | 0 => f 0
  | k + 1 => min (minOver f k) (f (k + 1))

theorem minOver_le (f : Nat → Int) (k j : Nat) (h : j ≤ k) : minOver f k ≤ f j := by
  induction k with
  | zero =>
    have : j = 0 := by omega
    subst this; exact Int.le_refl _
  | succ k ih =>
    simp only [minOver]
    by_cases hj : j = k + 1
    · subst hj; omega
    · have := ih (by omega); omega

theorem le_minOver (f : Nat → Int) (k : Nat) (c : Int) (h : ∀ j, j ≤ k → c ≤ f j) :
    c ≤ minOver f k := by
  induction k with
  | zero => exact h 0 (Nat.le_refl _)
  | succ k ih =>
    simp only [minOver]
    have := ih (fun j hj => h j (by omega))
    have := h (k + 1) (Nat.le_refl _)
    omega

/-! ### the potential induced by sink prices -/

/-- `min_{j < m} (be j + |x - v j|)`, and `0` when `m = 0` -/
def psi (be : Nat → Int) (v : List Int) (m : Nat) (x : Int) : Int :=
  if m = 0 then 0 else minOver (fun j => be j + iabs (x - v.getD j 0)) (m - 1)

theorem psi_le (be : Nat → Int) (v : List Int) (m : Nat) (x : Int) (j : Nat) (hj : j < m) :
    psi be v m x ≤ be j + iabs (x - v.getD j 0) := by
  unfold psi
  rw [if_neg (by omega)]
  exact minOver_le (fun j => be j + iabs (x - v.getD j 0)) (m - 1) j (by omega)

theorem le_psi (be : Nat → Int) (v : List Int) (m : Nat) (x c : Int) (hm : 0 < m)
    (h : ∀ j, j < m → c ≤ be j + iabs (x - v.getD j 0)) : c ≤ psi be v m x := by
  unfold psi
  rw [if_neg (by omega)]
  exact le_minOver (fun j => be j + iabs (x - v.getD j 0)) (m - 1) c (fun j hj => h j (by omega))

theorem psi_nonneg (be : Nat → Int) (v : List Int) (m : Nat) (x : Int)
    (hnn : ∀ j, j < m → 0 ≤ be j) : 0 ≤ psi be v m x := by
  by_cases hm : m = 0
  · unfold psi; rw [if_pos hm]
  · apply le_psi _ _ _ _ _ (by omega)
    intro j hj
    have := hnn j hj
    have := iabs_nonneg (x - v.getD j 0)
    omega

theorem iabs_tri (x y z : Int) : iabs (x - z) ≤ iabs (y - z) + iabs (x - y) := by
  unfold iabs
  split <;> split <;> split <;> omega

theorem psi_lip (be : Nat → Int) (v : List Int) (m : Nat) (x y : Int) :
    psi be v m x - psi be v m y ≤ iabs (x - y) := by
  by_cases hm : m = 0
  · unfold psi; rw [if_pos hm]
    have := iabs_nonneg (x - y)
    omega
  · have : psi be v m x - iabs (x - y) ≤ psi be v m y := by
      apply le_psi _ _ _ _ _ (by omega)
      intro j hj
      have := psi_le be v m x j hj
      have := iabs_tri x y (v.getD j 0)
      omega
    omega

theorem psi_at (be : Nat → Int) (v : List Int) (m : Nat) (j : Nat) (hj : j < m) :
    psi be v m (v.getD j 0) ≤ be j := by
  have h := psi_le be v m (v.getD j 0) j hj
  have e : iabs (v.getD j 0 - v.getD j 0) = 0 := by unfold iabs; split <;> omega
  omega

/-- a source is tight against every sink it overlaps -/
theorem psi_tight (sv : Solver) (p : List Int) (be : Nat → Int) (gc : GlobCert sv p be)
    (i j : Nat) (hi : i < sv.u.length) (hj : j < sv.v.length) (hov : 0 < ov sv p i j) :
    psi be sv.v sv.v.length (sv.u.getD i 0) = be j + cs sv i j := by
  have h1 := psi_le be sv.v sv.v.length (sv.u.getD i 0) j hj
  have h2 : be j + cs sv i j ≤ psi be sv.v sv.v.length (sv.u.getD i 0) := by
    apply le_psi _ _ _ _ _ (by omega)
    intro j' hj'
    have := gc.opt i j j' hi hj hj' hov
    unfold cs at this ⊢
    omega
  unfold cs at h2 ⊢
  omega

/-! ### what a sink receives: `colSum = fillP` -/

theorem sumTo_cellSum_cons (i j0 : Nat) (a : Int) (es : Plan) (j n : Nat) :
    sumTo n (fun k => cellSum ((i, j0, a) :: es) k j)
      = (if i < n ∧ j0 = j then a else 0) + sumTo n (fun k => cellSum es k j) := by
  induction n with
  | zero => simp [sumTo]
  | succ n ih =>
    simp only [sumTo]
    rw [ih]
    simp only [cellSum]
    split <;> split <;> split <;> omega

theorem colSum_eq_sumTo (plan : Plan) (n : Nat) (h : ∀ e ∈ plan, e.1 < n) (j : Nat) :
    colSum plan j = sumTo n (fun k => cellSum plan k j) := by
  induction plan with
  | nil => simp only [cellSum, colSum, sumTo_zero]
  | cons e es ih =>
    obtain ⟨i, j0, a⟩ := e
    have h1 : i < n := h (i, j0, a) (List.mem_cons_self ..)
    have ih' := ih (fun e he => h e (List.mem_cons_of_mem _ he))
    rw [sumTo_cellSum_cons]
    simp only [colSum, ← ih']
    split <;> split <;> omega

theorem fillP_eq_sumTo (sv : Solver) (p : List Int) (j n : Nat) :
    fillP sv p j n = sumTo n (fun i => ovP sv p i j) := by
  induction n with
  | zero => rfl
  | succ n ih => simp only [fillP, sumTo, ih]

theorem colSum_eq_fillP (sv : Solver) (p : List Int) (plan : Plan) (post : SolPost sv p plan)
    (j : Nat) (hj : j < sv.v.length) : colSum plan j = fillP sv p j sv.u.length := by
  rw [colSum_eq_sumTo plan sv.u.length (fun e he => (post.ent e he).1), fillP_eq_sumTo]
  apply sumTo_congr
  intro k hk
  show cellSum plan k j = ovP sv p k j
  rw [ovP_eq]
  exact post.cell k j hk hj

/-! ### assembly -/

/-- a global certificate for the positions returned by `run` on the sorted instance yields a
`certOk` certificate for the plan returned by `solve` on the original problem -/
theorem solve_cert_of_glob (pb : Problem) (hv : checkOk pb = true)
    (hglob : ∀ p, run (sortedSolver pb) = .ok p →
      ∃ be : Nat → Int, GlobCert (sortedSolver pb) p be) :
    ∃ plan al be, solve pb = .ok plan ∧ certOk pb plan al be = true := by
  obtain ⟨hs, hd, hsn, hdn, hle⟩ := (checkOk_iff pb).mp hv
  obtain ⟨p, plan0, erun, hp, ecs, post, es⟩ := solve_eq pb hv
  obtain ⟨plan', es', hvalid⟩ := solve_valid pb hv
  have hpl : plan' = plan0.map (ren (fun i => (ord pb.u pb.s).getD i 0)
      (fun j => (ord pb.v pb.d).getD j 0)) := by
    rw [es'] at es; exact Except.ok.inj es
  rw [hpl] at hvalid
  obtain ⟨be, gc⟩ := hglob p erun
  have wf := sortedSolver_wf pb
  have hsrcLen : (ord pb.u pb.s).length = (sortedSolver pb).u.length := by simp [sortedSolver, mkSolver]
  have hsnkLen : (ord pb.v pb.d).length = (sortedSolver pb).v.length := by simp [sortedSolver, mkSolver]
  have eu : (sortedSolver pb).u = (ord pb.u pb.s).map fun i => pb.u.getD i 0 := rfl
  have ev : (sortedSolver pb).v = (ord pb.v pb.d).map fun i => pb.v.getD i 0 := rfl
  have es_d : (sortedSolver pb).d = (ord pb.v pb.d).map fun i => pb.d.getD i 0 := rfl
  have eD : (sortedSolver pb).D = prefixFrom 0 (sortedSolver pb).d := rfl
  refine ⟨_, pb.u.map (psi be (sortedSolver pb).v (sortedSolver pb).v.length),
    pb.v.map (psi be (sortedSolver pb).v (sortedSolver pb).v.length), es, ?_⟩
  simp only [certOk, Bool.and_eq_true, allBelow_iff, decide_eq_true_eq, List.all_eq_true]
  refine ⟨⟨⟨⟨hvalid, ?_⟩, ?_⟩, ?_⟩, ?_⟩
  · intro j hj
    rw [getD_map_ii _ _ j hj]
    exact psi_nonneg _ _ _ _ gc.nn
  · intro i hi j hj
    rw [getD_map_ii _ _ i hi, getD_map_ii _ _ j hj]
    unfold cst
    exact psi_lip _ _ _ _ _
  · intro x hx
    obtain ⟨e0, he0, rfl⟩ := List.mem_map.mp hx
    have hent := post.ent e0 he0
    have ha : e0.1 < (ord pb.u pb.s).length := by omega
    have hb : e0.2.1 < (ord pb.v pb.d).length := by omega
    have hia := ((mem_ord pb.u pb.s _).mp (getD_mem_of_ltN _ _ ha)).1
    have hjb := ((mem_ord pb.v pb.d _).mp (getD_mem_of_ltN _ _ hb)).1
    have hcell := post.cell e0.1 e0.2.1 hent.1 hent.2.1
    have hpos := cellSum_pos plan0 (fun e he => (post.ent e he).2.2) e0 he0
    rw [hcell] at hpos
    have hu : (sortedSolver pb).u.getD e0.1 0 = pb.u.getD ((ord pb.u pb.s).getD e0.1 0) 0 := by
      rw [eu, getD_map_int _ _ _ ha]
    have hv' : (sortedSolver pb).v.getD e0.2.1 0 = pb.v.getD ((ord pb.v pb.d).getD e0.2.1 0) 0 := by
      rw [ev, getD_map_int _ _ _ hb]
    have h4 := psi_tight (sortedSolver pb) p be gc e0.1 e0.2.1 hent.1 hent.2.1 hpos
    have h3 := psi_at be (sortedSolver pb).v (sortedSolver pb).v.length e0.2.1 hent.2.1
    have h2 := psi_lip be (sortedSolver pb).v (sortedSolver pb).v.length
      ((sortedSolver pb).u.getD e0.1 0) ((sortedSolver pb).v.getD e0.2.1 0)
    unfold cs at h4
    rw [hu, hv'] at h4 h2
    rw [hv'] at h3
    simp only [ren]
    rw [getD_map_ii _ _ _ hia, getD_map_ii _ _ _ hjb]
    unfold cst
    omega
  · intro l hl hpos
    rw [getD_map_ii _ _ l hl] at hpos
    by_cases hm : l ∈ ord pb.v pb.d
    · obtain ⟨j, hj, rfl⟩ := mem_getD _ l hm
      have hj' : j < (sortedSolver pb).v.length := by omega
      have hjd : j < (sortedSolver pb).d.length := by rw [wf.hd]; exact hj'
      rw [colSum_ren _ _ (ord pb.v pb.d).length plan0
        (fun e he => by have := post.ent e he; omega)
        (nodup_getD_inj _ (ord_nodup pb.v pb.d)) j hj]
      have hv' : (sortedSolver pb).v.getD j 0 = pb.v.getD ((ord pb.v pb.d).getD j 0) 0 := by
        rw [ev, getD_map_int _ _ _ hj]
      have h3 := psi_at be (sortedSolver pb).v (sortedSolver pb).v.length j hj'
      rw [hv'] at h3
      have hsat := gc.sat j hj' (by omega)
      have h1 : (sortedSolver pb).D.getD (j + 1) 0
          = (sortedSolver pb).D.getD j 0 + (sortedSolver pb).d.getD j 0 := by
        rw [eD]; exact prefixFrom_succ 0 _ j hjd
      have h5 : (sortedSolver pb).d.getD j 0 = pb.d.getD ((ord pb.v pb.d).getD j 0) 0 := by
        rw [es_d, getD_map_int _ _ _ hj]
      rw [colSum_eq_fillP (sortedSolver pb) p plan0 post j hj', hsat]
      omega
    · have h1 : ¬ 0 < pb.d.getD l 0 := fun h => hm ((mem_ord pb.v pb.d l).mpr ⟨hl, h⟩)
      have h2 := hdn _ (getD_mem_of_lt pb.d l (by omega))
      have : colSum (plan0.map (ren (fun i => (ord pb.u pb.s).getD i 0)
          (fun j => (ord pb.v pb.d).getD j 0))) l = 0 := by
        apply colSum_zero
        intro x hx
        obtain ⟨e, he, rfl⟩ := List.mem_map.mp hx
        have h1 := post.ent e he
        intro hk'
        exact hm (hk' ▸ getD_mem_of_ltN (ord pb.v pb.d) e.2.1 (by omega))
      rw [this]; omega

/-- with a global certificate on the sorted instance, `solve` returns a plan of minimum cost -/
theorem solve_optimal_of_glob (pb : Problem) (hv : checkOk pb = true)
    (hglob : ∀ p, run (sortedSolver pb) = .ok p →
      ∃ be : Nat → Int, GlobCert (sortedSolver pb) p be) :
    ∃ plan, solve pb = .ok plan ∧ validPlan pb plan = true ∧
      ∀ plan', validPlan pb plan' = true → planCost pb plan ≤ planCost pb plan' := by
  obtain ⟨plan, al, be, e, hc⟩ := solve_cert_of_glob pb hv hglob
  refine ⟨plan, e, ?_, fun plan' hv' => cert_optimal_core pb plan plan' al be hc hv'⟩
  simp only [certOk, Bool.and_eq_true] at hc
  exact hc.1.1.1.1

end ColoVerif.Transp1d
