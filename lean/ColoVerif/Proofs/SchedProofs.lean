import ColoVerif.Model.Sched
/-
Helper lemmas for C08: every schedule's run is found by the exhaustive walk `explore`; a run over
an arbitrary value domain is the image of the symbolic run (so a fact checked on symbolic values
holds for every meaning of the computation).
-/
namespace ColoVerif.Sched
open ColoVerif.Gen.Async

/-! ### schedules are covered by `explore` -/

theorem mem_explore_self (F : Facts) (n : Nat) (c : Cfg Val) : c ∈ explore F n c := by
  cases n <;> simp [explore]

theorem run_mem_explore (F : Facts) : ∀ (s : List Tid) (n : Nat) (c c' : Cfg Val),
    runSched F symF s c = some c' → s.length ≤ n → c' ∈ explore F n c := by
  intro s
  induction s with
  | nil =>
    intro n c c' h _
    simp [runSched] at h
    subst h
    exact mem_explore_self F n c
  | cons t ts ih =>
    intro n c c' h hn
    cases n with
    | zero => simp at hn
    | succ m =>
      simp only [runSched] at h
      cases hs : stepCfg F symF c t with
      | none => rw [hs] at h; cases h
      | some c1 =>
        rw [hs] at h
        have hm : ts.length ≤ m := by simpa using hn
        have h1 := ih m c1 c' h hm
        simp only [explore, List.mem_cons, List.mem_flatMap]
        right
        refine ⟨t, ?_, ?_⟩
        · cases t with
          | main => simp [tids]
          | task t => cases t <;> simp [tids]
        · rw [hs]; exact h1

/-! ### a complete run has exactly `totalSteps` steps -/

def Pcs.sum (p : Pcs) : Nat := p.m + p.x + p.y

theorem nextStep_sum (F : Facts) (p : Pcs) (t : Tid) (sp : Step × Pcs) (h : nextStep F p t = some sp) :
    sp.2.sum = p.sum + 1 := by
  cases t with
  | main =>
    simp only [nextStep] at h
    cases hm : (mainProg F)[p.m]? with
    | none => rw [hm] at h; cases h
    | some s =>
      rw [hm] at h
      simp only [] at h
      by_cases hj : joinOk p s = true
      · rw [if_pos hj] at h; cases h; simp [Pcs.sum]; omega
      · rw [if_neg hj] at h; cases h
  | task t =>
    simp only [nextStep] at h
    by_cases hl : launched F p t = true
    · rw [if_pos hl] at h
      cases ht : (taskProg t)[p.task t]? with
      | none => rw [ht] at h; cases h
      | some s =>
        rw [ht] at h
        simp only [] at h
        cases h
        cases t <;> simp [Pcs.sum, Pcs.bump] <;> omega
    · rw [if_neg hl] at h; cases h

theorem runSched_sum {V : Type} [Inhabited V] (F : Facts) (f : Step → Loc → List V → V) :
    ∀ (s : List Tid) (c c' : Cfg V), runSched F f s c = some c' → c'.p.sum = c.p.sum + s.length := by
  intro s
  induction s with
  | nil => intro c c' h; simp [runSched] at h; subst h; simp
  | cons t ts ih =>
    intro c c' h
    simp only [runSched] at h
    cases hs : stepCfg F f c t with
    | none => rw [hs] at h; cases h
    | some c1 =>
      rw [hs] at h
      have h1 := ih c1 c' h
      unfold stepCfg at hs
      cases hn : nextStep F c.p t with
      | none => rw [hn] at hs; cases hs
      | some sp =>
        rw [hn] at hs
        have h2 := nextStep_sum F c.p t sp hn
        cases hs
        simp only [List.length_cons] at *
        omega

theorem terminated_sum (F : Facts) (p : Pcs) (h : terminated F p = true) : p.sum = totalSteps F := by
  simp [terminated] at h
  obtain ⟨⟨h1, h2⟩, h3⟩ := h
  simp [Pcs.sum, totalSteps, h1, h2, h3]

/-! ### interpretation of symbolic values -/

section eval
variable {V : Type} [Inhabited V] (f : Step → Loc → List V → V) (σ : Loc → V)

mutual
def Val.eval : Val → V
  | .init l => σ l
  | .out s l a => f s l (Val.evalList a)
  | .nil => default
  | .cons _ _ => default
def Val.evalList : Val → List V
  | .cons a r => Val.eval a :: Val.evalList r
  | _ => []
end

theorem evalList_enc (xs : List Val) : Val.evalList f σ (Val.enc xs) = xs.map (Val.eval f σ) := by
  induction xs with
  | nil => simp [Val.enc, Val.evalList]
  | cons a r ih => simp [Val.enc, Val.evalList, ih]

theorem eval_symF (s : Step) (l : Loc) (xs : List Val) :
    Val.eval f σ (symF s l xs) = f s l (xs.map (Val.eval f σ)) := by
  simp [symF, Val.eval, evalList_enc]

theorem eval_default : Val.eval f σ (default : Val) = (default : V) := by
  show Val.eval f σ Val.nil = default
  simp [Val.eval]

theorem rd_map (locs : List Loc) (st : List Val) (l : Loc) :
    rd locs (st.map (Val.eval f σ)) l = Val.eval f σ (rd locs st l) := by
  unfold rd
  rw [← eval_default f σ]
  simp only [List.getD_eq_getElem?_getD, List.getElem?_map]
  cases st[List.idxOf l locs]? <;> simp

theorem applyStep_map (locs : List Loc) (A : Access) (s : Step) (st : List Val) :
    applyStep f locs A s (st.map (Val.eval f σ)) = (applyStep symF locs A s st).map (Val.eval f σ) := by
  unfold applyStep
  rw [List.zip_map_right, List.map_map, List.map_map]
  apply List.map_congr_left
  intro lv _
  simp only [Function.comp, Prod.map, id]
  by_cases h : A.writes.contains lv.1 = true
  · rw [if_pos h, if_pos h, eval_symF, List.map_map]
    congr 1
    apply List.map_congr_left
    intro l _
    simp [Function.comp, rd_map]
  · rw [if_neg h, if_neg h]

/-- image of a symbolic configuration -/
def Cfg.image (c : Cfg Val) : Cfg V := ⟨c.p, c.st.map (Val.eval f σ), c.tr⟩

theorem stepCfg_image (F : Facts) (c : Cfg Val) (t : Tid) :
    stepCfg F f (Cfg.image f σ c) t = (stepCfg F symF c t).map (Cfg.image f σ) := by
  unfold stepCfg
  simp only [Cfg.image]
  cases nextStep F c.p t with
  | none => rfl
  | some sp => simp [Cfg.image, applyStep_map]

theorem runSched_image (F : Facts) : ∀ (s : List Tid) (c : Cfg Val),
    runSched F f s (Cfg.image f σ c) = (runSched F symF s c).map (Cfg.image f σ) := by
  intro s
  induction s with
  | nil => intro c; simp [runSched]
  | cons t ts ih =>
    intro c
    simp only [runSched]
    rw [stepCfg_image]
    cases stepCfg F symF c t with
    | none => rfl
    | some c1 => simpa using ih c1

theorem initCfg_image (F : Facts) : Cfg.image f σ (symInit F) = initCfg F σ := by
  simp [Cfg.image, symInit, initCfg, List.map_map, Function.comp, Val.eval]

end eval

end ColoVerif.Sched
