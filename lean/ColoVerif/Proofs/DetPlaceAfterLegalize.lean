import ColoVerif.Proofs.DetPlaceInitOk
import ColoVerif.Proofs.OrientLegalize
/-
What legalization's result brings to the constructor of detailed placement (helper lemmas for
Properties/C02 `constructor_ok_after_legalize`): the result of a successful `legalizeWith` on a
circuit of C01's domain is again in the domain (`legalize_dom`) and its one-row cells have the
orientation their row demands (`legalize_orientLegal`, from C04's `legalizeWith_orient`).
-/
namespace ColoVerif.DetPlace
open ColoVerif

theorem pointwise_and {α β : Type} {R S : α → β → Prop} {as : List α} {bs : List β}
    (h1 : Legalize.Pointwise R as bs) (h2 : Legalize.Pointwise S as bs) :
    Legalize.Pointwise (fun a b => R a b ∧ S a b) as bs := by
  induction h1 with
  | nil => exact Legalize.Pointwise.nil
  | cons hab _ ih =>
    cases h2 with
    | cons hab' h2' => exact Legalize.Pointwise.cons ⟨hab, hab'⟩ (ih h2')

/-- rows kept, free segments kept, and cell by cell: frame kept and orientation as `getOrientation` -/
theorem legalize_facts (rnd : Rat → Rat) (p : Legalize.Params) (c c' : Circuit) (hd : Legalize.DomL c)
    (h : Legalize.legalizeWith rnd p c = .ok c') :
    c'.rows = c.rows ∧ c'.computeRows = c.computeRows ∧
    Legalize.Pointwise (fun a b => Legalize.SameFrame a b ∧ Legalize.CellOrient c.computeRows a b) c.cells c'.cells := by
  obtain ⟨hrows, hpw⟩ := Legalize.legalizeWith_orient rnd p c c' hd h
  obtain ⟨_, b1, b2, _, _, _, rfl⟩ := Legalize.legalizeWith_ok rnd p c c' h
  exact ⟨rfl, hrows, pointwise_and (Legalize.exportCells_frame _ _) hpw⟩

/-- what a movable cell of the result inherits from the input cell -/
theorem legalize_cell (rnd : Rat → Rat) (p : Legalize.Params) (c c' : Circuit) (hd : Legalize.DomL c)
    (h : Legalize.legalizeWith rnd p c = .ok c') (b : Cell) (hb : b ∈ c'.cells) (hf : b.fixed = false) :
    ∃ a ∈ c.cells, a.fixed = false ∧ b.pol = a.pol ∧ b.placedWidth = a.placedWidth ∧ b.placedHeight = a.placedHeight ∧
      ∃ r ∈ c.computeRows, r.rect.minY = b.y ∧ r.rect.minX ≤ b.x ∧ b.x + b.placedWidth ≤ r.rect.maxX ∧
        b.orient = (if cellOrientationInRow a.pol r.orient = Orient.UNKNOWN then a.orient
                    else cellOrientationInRow a.pol r.orient) ∧
        b.orient ≠ Orient.INVALID := by
  obtain ⟨_, _, hpw⟩ := legalize_facts rnd p c c' hd h
  obtain ⟨a, ha, hfr, hor⟩ := Legalize.pointwise_mem_right hpw b hb
  have haf : a.fixed = false := by rw [hfr.2.2.1]; exact hf
  obtain ⟨_, hp, hw, _, r, hr, g1, g2, g3, g4, g5⟩ := hor.2 haf
  refine ⟨a, ha, haf, hp, hw, ?_, r, hr, g1, g2, g3, g4, g5⟩
  obtain ⟨e1, e2, _⟩ := hfr
  simp only [Cell.placedWidth, Cell.placedHeight] at hw ⊢
  cases hbt : b.orient.isTurn <;> cases hat : a.orient.isTurn <;> simp [hbt, hat] at hw ⊢ <;> omega

/-- the result of a successful legalization is again in C01's domain -/
theorem legalize_dom (rnd : Rat → Rat) (p : Legalize.Params) (c c' : Circuit) (hd : Legalize.DomL c)
    (h : Legalize.legalizeWith rnd p c = .ok c') : Legalize.DomL c' := by
  obtain ⟨hrows, _, _⟩ := legalize_facts rnd p c c' hd h
  have hrh : Circuit.rowHeight c' = Circuit.rowHeight c := by unfold Circuit.rowHeight; rw [hrows]
  have hRc := Legalize.dom_rowsOK c hd
  refine ⟨by rw [hrh]; exact hd.1, ?_, by rw [hrows]; exact hd.2.2.1, by rw [hrows]; exact hd.2.2.2⟩
  intro b hb hf
  obtain ⟨a, ha, haf, hp, hw, hh, r, hr, _, _, _, g4, _⟩ := legalize_cell rnd p c c' hd h b hb hf
  obtain ⟨d1, d2, d3, d4⟩ := hd.2.1 a ha haf
  refine ⟨by rw [hw]; exact d1, by rw [hh]; exact d2, by rw [hh, hrh]; exact d3, ?_⟩
  intro hpol
  rw [hp] at hpol
  rw [g4]
  split
  · exact d4 hpol
  · have hru : r.orient.isTurn = false := hRc.unturned r hr
    revert hru
    generalize r.orient = o
    generalize a.pol = q
    cases q <;> cases o <;> simp [cellOrientationInRow, Orient.isTurn, Orient.opposite]

/-- the one-row cells of legalization's result have the orientation their row demands -/
theorem legalize_orientLegal (rnd : Rat → Rat) (p : Legalize.Params) (c c' : Circuit) (hd : Legalize.DomL c)
    (h : Legalize.legalizeWith rnd p c = .ok c') : OrientLegal c' := by
  obtain ⟨hrows, _, _⟩ := legalize_facts rnd p c c' hd h
  have hH : 0 < (Circuit.rowHeight c).getD 0 := hd.1
  have hR := rowsOK_rows c hd
  intro b hb hf _ R hRm r1 r2 r3
  rw [hrows] at hRm
  obtain ⟨a, ha, haf, hp, hw, _, r, hr, g1, g2, g3, g4, g5⟩ := legalize_cell rnd p c c' hd h b hb hf
  have hwpos : 0 < b.placedWidth := by rw [hw]; exact (hd.2.1 a ha haf).1
  -- the segment `r` is a piece of the row `R`
  obtain ⟨⟨R0, hR0, s1, s2, s3, _, s5⟩, _⟩ := Legalize.flatMap_freespace_seg hR _ r hr
  have hRR : R = R0 := Legalize.seg_unique _ hH _ hR R0 R hR0 hRm b.x b.placedWidth b.y hwpos
    ⟨by omega, by omega, by omega⟩ ⟨r1, r2, r3⟩
  rw [hRR, ← s5, hp]
  by_cases hu : cellOrientationInRow a.pol r.orient = Orient.UNKNOWN
  · rw [hu]
    exact ⟨by decide, fun hh => absurd rfl hh⟩
  · rw [if_neg hu] at g4
    exact ⟨by rw [← g4]; exact g5, fun _ => g4⟩

/-- no movable cell of legalization's result carries the orientation INVALID -/
theorem legalize_noInvalid (rnd : Rat → Rat) (p : Legalize.Params) (c c' : Circuit) (hd : Legalize.DomL c)
    (h : Legalize.legalizeWith rnd p c = .ok c') : ∀ cl ∈ c'.cells, ¬ cl.fixed → cl.orient ≠ Orient.INVALID := by
  intro b hb hf
  obtain ⟨_, _, _, _, _, _, _, _, _, _, _, _, g5⟩ := legalize_cell rnd p c c' hd h b hb (by simpa using hf)
  exact g5

end ColoVerif.DetPlace
