import ColoVerif.Proofs.LegalizeIdem2Loop
/-
Helper lemmas for C01 (trivial success), part 1: the Abacus pass places every cell when the total
width is at most the total segment width less one maximum width per segment.

* pigeonhole on `remainingSpace`: at every step some segment has room for the next cell;
* `placeCell`: the early exit needs `bestRow != -1`, so as long as nothing was found every row is
  visited; hence a row is found, and the row found was accepted by `evaluatePlacement`;
* `RowLegalizer` keeps every pushed cell inside the segment, in order (C12 feasibility), the
  indices in `rowToCells_` are distinct, so `check()` passes and every cell is reported placed.
-/
namespace ColoVerif.Legalize
open ColoVerif ColoVerif.RowLeg

/-! ### the row search finds a row when one has room -/

structure TSCtx (S : List Row) (legs : List State) (c : LCell) : Prop where
  hlen : legs.length = S.length
  heights : ∀ k, k < S.length → (rowAt S k).rect.height = c.h
  reach : ∀ k, k < S.length → ∃ h C, Reach (rowAt S k).rect.minX (rowAt S k).rect.maxX h C (legAt legs k)
  wpos : 0 < c.w
  room : ∃ k, k < S.length ∧ canEval S legs c k = true

/-- the best row so far, if any, is a valid row that `evaluatePlacement` accepted -/
def QB (S : List Row) (legs : List State) (c : LCell) (b : Option ABest) : Prop :=
  ∀ bb, b = some bb → bb.row < S.length ∧ canEval S legs c bb.row = true

theorem TSCtx.scan {S legs c} (x : TSCtx S legs c) : ∀ (l : List Nat) (b : Option ABest),
    (∀ r ∈ l, r < S.length) → QB S legs c b →
    ∃ b', scanRows (abacusTry S c) l (legs, b) = (legs, b') ∧ QB S legs c b' ∧
      (b' = none → b = none ∧ ∀ r ∈ l, canEval S legs c r = false)
  | [], b, _, hq => ⟨b, rfl, hq, fun h => ⟨h, by simp⟩⟩
  | r :: l, b, hl, hq => by
    have hr := hl r (by simp)
    obtain ⟨h, C, hreach⟩ := x.reach r hr
    have e := abacusTry_eq S legs c r b (x.heights r hr) (by rw [x.hlen]; exact hr) (reach_inv hreach).sorted
    by_cases h1 : abacusStop b (c.w * iabs ((rowAt S r).rect.minY - c.ty)) = true
    · rw [if_pos h1] at e
      refine ⟨b, scanRows_cons_true _ _ _ _ _ e, hq, ?_⟩
      intro hb
      rw [hb] at h1
      simp [abacusStop] at h1
    · rw [if_neg h1] at e
      by_cases h2 : canEval S legs c r = true
      · rw [if_pos h2] at e
        have hq' : QB S legs c (abacusBetter b r ((push (legAt legs r) c.w c.tx).1
            + c.w * iabs ((rowAt S r).rect.minY - c.ty))) := by
          intro bb hbb
          cases b with
          | none =>
            simp only [abacusBetter, Option.some.injEq] at hbb
            rw [← hbb]; exact ⟨hr, h2⟩
          | some b0 =>
            simp only [abacusBetter] at hbb
            split at hbb
            · simp only [Option.some.injEq] at hbb
              rw [← hbb]; exact ⟨hr, h2⟩
            · simp only [Option.some.injEq] at hbb
              rw [← hbb]; exact hq b0 rfl
        obtain ⟨b', e', hq'', hn⟩ := x.scan l _ (fun r' hr' => hl r' (by simp [hr'])) hq'
        refine ⟨b', by rw [scanRows_cons_false _ _ _ _ _ e]; exact e', hq'', ?_⟩
        intro hb'
        have := (hn hb').1
        cases b with
        | none => simp [abacusBetter] at this
        | some b0 =>
          simp only [abacusBetter] at this
          split at this <;> simp at this
      · rw [if_neg h2] at e
        obtain ⟨b', e', hq'', hn⟩ := x.scan l b (fun r' hr' => hl r' (by simp [hr'])) hq
        refine ⟨b', by rw [scanRows_cons_false _ _ _ _ _ e]; exact e', hq'', ?_⟩
        intro hb'
        obtain ⟨n1, n2⟩ := hn hb'
        refine ⟨n1, ?_⟩
        intro r' hr'
        rcases List.mem_cons.mp hr' with rfl | hr'
        · simpa using h2
        · exact n2 r' hr'

theorem startRow_le (S : List Row) (y : Int) : startRow S y ≤ S.length := by
  unfold startRow closestRow
  have := (lowerBound_spec S y).1
  split
  · omega
  · split
    · simp
    · split <;> omega

theorem TSCtx.search {S legs c} (x : TSCtx S legs c) :
    ∃ bb, searchRows (abacusTry S c) S.length (startRow S c.ty) (legs, none) = (legs, some bb) ∧
      bb.row < S.length ∧ canEval S legs c bb.row = true := by
  have hinit := startRow_le S c.ty
  generalize startRow S c.ty = init at hinit
  unfold searchRows upRows downRows
  obtain ⟨b1, e1, q1, n1⟩ := x.scan (List.range' init (S.length - init)) none (by
    intro r hr
    have := List.mem_range'_1.mp hr
    omega) (by intro bb hbb; simp at hbb)
  rw [e1]
  obtain ⟨b2, e2, q2, n2⟩ := x.scan (List.range init).reverse b1 (by
    intro r hr
    have := List.mem_range.mp (List.mem_reverse.mp hr)
    omega) q1
  rw [e2]
  cases hb2 : b2 with
  | some bb => exact ⟨bb, rfl, q2 bb hb2⟩
  | none =>
    exfalso
    obtain ⟨hb1, hdown⟩ := n2 hb2
    obtain ⟨_, hup⟩ := n1 hb1
    obtain ⟨k, hk, hce⟩ := x.room
    rcases Nat.lt_or_ge k init with h | h
    · have := hdown k (List.mem_reverse.mpr (List.mem_range.mpr h))
      rw [hce] at this; exact Bool.noConfusion this
    · have := hup k (List.mem_range'_1.mpr ⟨h, by omega⟩)
      rw [hce] at this; exact Bool.noConfusion this

theorem TSCtx.place {a : Abacus} {c : LCell} (x : TSCtx a.rows a.legs c) (i : Nat) :
    ∃ k0, k0 < a.rows.length ∧ canEval a.rows a.legs c k0 = true ∧
      abacusPlace a i c =
        ({ a with legs := a.legs.set k0 (push (legAt a.legs k0) c.w c.tx).2,
                  rowCells := a.rowCells.set k0 (a.rowCells.getD k0 [] ++ [i]) }, true) := by
  obtain ⟨bb, e, h1, h2⟩ := x.search
  refine ⟨bb.row, h1, h2, ?_⟩
  unfold abacusPlace
  rw [e]

/-! ### arithmetic: remaining space and pigeonhole -/

def doneW (cells : List LCell) (i : Nat) : Int := ((cells.take i).map (·.w)).sum

theorem take_sum_succ : ∀ (l : List LCell) (i : Nat), i < l.length →
    ((l.take (i + 1)).map (·.w)).sum = ((l.take i).map (·.w)).sum + (l.getD i default).w
  | [], _, h => by simp at h
  | c :: l, 0, _ => by simp
  | c :: l, i + 1, h => by
    have := take_sum_succ l i (by simpa using h)
    simp only [List.take_succ_cons, List.map_cons, List.sum_cons, List.getD_cons_succ, this]
    omega

theorem doneW_succ (cells : List LCell) (i : Nat) (hi : i < cells.length) :
    doneW cells (i + 1) = doneW cells i + (cellAt cells i).w :=
  take_sum_succ cells i hi

theorem doneW_le (cells : List LCell) (hw : ∀ c ∈ cells, 0 < c.w) : ∀ (m i : Nat), i + m = cells.length →
    doneW cells i ≤ doneW cells cells.length
  | 0, i, h => by
    have : i = cells.length := by omega
    subst this; exact Int.le_refl _
  | m + 1, i, h => by
    have hi : i < cells.length := by omega
    have := doneW_le cells hw m (i + 1) (by omega)
    rw [doneW_succ cells i hi] at this
    have := hw _ (cellAt_mem cells i hi)
    omega

theorem sum_le_length_mul (B : Int) : ∀ (l : List Int), (∀ x ∈ l, x ≤ B) → l.sum ≤ (l.length : Int) * B
  | [], _ => by simp
  | x :: l, h => by
    have := sum_le_length_mul B l (fun y hy => h y (by simp [hy]))
    have hx := h x (by simp)
    simp only [List.sum_cons, List.length_cons, Int.natCast_succ]
    rw [Int.add_mul]
    omega

theorem sum_map_set {α : Type} (f : α → Int) : ∀ (l : List α) (k : Nat) (v d : α), k < l.length →
    ((l.set k v).map f).sum = (l.map f).sum - f (l.getD k d) + f v
  | [], _, _, _, h => by simp at h
  | x :: l, 0, v, d, _ => by simp; omega
  | x :: l, k + 1, v, d, h => by
    have := sum_map_set f l k v d (by simpa using h)
    simp only [List.set_cons_succ, List.map_cons, List.sum_cons, List.getD_cons_succ, this]
    omega

theorem push_remaining (s : State) (w t : Int) : (push s w t).2.remaining = s.remaining - w := by
  simp only [State.remaining, push_used, push_b, push_e]; omega

/-! ### the loop invariant -/

structure TSInv (S : List Row) (cells : List LCell) (i : Nat) (a : Abacus) : Prop where
  rows : a.rows = S
  llen : a.legs.length = S.length
  clen : a.rowCells.length = S.length
  reach : ∀ k, k < S.length → ∃ C,
    Reach (rowAt S k).rect.minX (rowAt S k).rect.maxX
      (((a.rowCells.getD k []).map fun j => ((cellAt cells j).w, (cellAt cells j).tx)).reverse) C (legAt a.legs k)
  mem : ∀ k, k < S.length → ∀ j ∈ a.rowCells.getD k [], j < i
  nodup : ∀ k, k < S.length → (a.rowCells.getD k []).Nodup
  uniq : ∀ k k' j, k < S.length → k' < S.length → j ∈ a.rowCells.getD k [] → j ∈ a.rowCells.getD k' [] → k = k'
  cover : ∀ j, j < i → ∃ k, k < S.length ∧ j ∈ a.rowCells.getD k []
  space : (a.legs.map State.remaining).sum = (S.map fun r => r.rect.width).sum - doneW cells i

/-- the input of the Abacus pass in the trivial-success argument -/
structure TrivOK (S : List Row) (H W : Int) (cells : List LCell) : Prop where
  heights : ∀ r ∈ S, r.rect.height = H
  cell : ∀ c ∈ cells, c.h = H ∧ 0 < c.w ∧ c.w ≤ W ∧ c.pol = Polarity.ANY ∧ c.torient ≠ Orient.INVALID
  total : doneW cells cells.length ≤ (S.map fun r => r.rect.width).sum - (S.length : Int) * W

theorem tsInv_init (R : List Row) (cells : List LCell) : TSInv (sortRows R) cells 0 (Abacus.init R) := by
  have hleg : ∀ k, k < (sortRows R).length →
      legAt (Abacus.init R).legs k = State.new (rowAt (sortRows R) k).rect.minX (rowAt (sortRows R) k).rect.maxX := by
    intro k hk
    simp [legAt, Abacus.init, rowAt, List.getD_eq_getElem?_getD, List.getElem?_eq_getElem hk]
  have hrc : ∀ k, (Abacus.init R).rowCells.getD k [] = [] := by
    intro k
    simp only [Abacus.init, List.getD_eq_getElem?_getD, List.getElem?_map]
    cases (sortRows R)[k]? <;> rfl
  refine ⟨rfl, by simp [Abacus.init], by simp [Abacus.init], ?_, ?_, ?_, ?_, ?_, ?_⟩
  · intro k hk
    rw [hleg k hk, hrc k]
    exact ⟨0, Reach.new⟩
  · intro k _ j hj; rw [hrc k] at hj; simp at hj
  · intro k _; rw [hrc k]; exact List.nodup_nil
  · intro k k' j _ _ hj; rw [hrc k] at hj; simp at hj
  · intro j hj; omega
  · simp only [Abacus.init, List.map_map, doneW, List.take_zero, List.map_nil, List.sum_nil, Int.sub_zero]
    congr 1
    apply List.map_congr_left
    intro r _
    simp [State.remaining, State.new, State.used, Rect.width]

theorem canEval_any (S : List Row) (legs : List State) (c : LCell) (k : Nat) (hp : c.pol = Polarity.ANY)
    (ho : c.torient ≠ Orient.INVALID) : canEval S legs c k = true ↔ c.w ≤ (legAt legs k).remaining := by
  simp only [canEval, getOrientation, hp, cellOrientationInRow, if_true, Bool.and_eq_true, Bool.not_eq_true',
    decide_eq_false_iff_not, bne_iff_ne, ne_eq]
  constructor
  · intro h; omega
  · intro h; exact ⟨by omega, ho⟩

theorem tsInv_step (S : List Row) (H W : Int) (cells : List LCell) (ok : TrivOK S H W cells) (i : Nat)
    (a : Abacus) (inv : TSInv S cells i a) (hi : i < cells.length) :
    (abacusPlace a i (cellAt cells i)).2 = true ∧ TSInv S cells (i + 1) (abacusPlace a i (cellAt cells i)).1 := by
  have hrows := inv.rows
  subst hrows
  obtain ⟨hH, hw, hwW, hpol, hor⟩ := ok.cell _ (cellAt_mem cells i hi)
  -- pigeonhole: some segment has room
  have hroom : ∃ k, k < a.rows.length ∧ canEval a.rows a.legs (cellAt cells i) k = true := by
    apply Classical.byContradiction
    intro hno
    have hall : ∀ x ∈ a.legs.map State.remaining, x ≤ (cellAt cells i).w - 1 := by
      intro x hx
      obtain ⟨s, hs, rfl⟩ := List.mem_map.mp hx
      obtain ⟨k, hk, hget⟩ := List.getElem_of_mem hs
      have hk' : k < a.rows.length := by rw [← inv.llen]; exact hk
      have e : legAt a.legs k = s := by simp [legAt, List.getD_eq_getElem?_getD, List.getElem?_eq_getElem hk, hget]
      have := (canEval_any a.rows a.legs (cellAt cells i) k hpol hor).not.mp (fun h => hno ⟨k, hk', h⟩)
      rw [e] at this
      omega
    have h1 := sum_le_length_mul _ _ hall
    rw [inv.space, List.length_map, inv.llen] at h1
    have h2 := doneW_le cells (fun c hc => (ok.cell c hc).2.1) (cells.length - (i + 1)) (i + 1) (by omega)
    rw [doneW_succ cells i hi] at h2
    have h3 := ok.total
    have h4 : (a.rows.length : Int) * ((cellAt cells i).w - 1) ≤ (a.rows.length : Int) * W :=
      Int.mul_le_mul_of_nonneg_left (by omega) (by omega)
    omega
  have ctx : TSCtx a.rows a.legs (cellAt cells i) := by
    refine ⟨inv.llen, ?_, ?_, hw, hroom⟩
    · intro k hk; rw [hH]; exact ok.heights _ (rowAt_mem _ k hk)
    · intro k hk
      obtain ⟨C, hr⟩ := inv.reach k hk
      exact ⟨_, C, hr⟩
  obtain ⟨k0, hk0, hce, hplace⟩ := ctx.place i
  rw [hplace]
  have hfit : (cellAt cells i).w ≤ (legAt a.legs k0).remaining :=
    (canEval_any a.rows a.legs _ k0 hpol hor).mp hce
  refine ⟨rfl, ⟨rfl, ?_, ?_, ?_, ?_, ?_, ?_, ?_, ?_⟩⟩
  · simp [inv.llen]
  · simp [inv.clen]
  · intro k hk
    by_cases hkk : k = k0
    · subst hkk
      obtain ⟨C, hr⟩ := inv.reach k hk
      refine ⟨C + (push (legAt a.legs k) (cellAt cells i).w (cellAt cells i).tx).1, ?_⟩
      show Reach _ _ (((a.rowCells.set k _).getD k []).map _).reverse _ (legAt (a.legs.set k _) k)
      rw [show legAt (a.legs.set k (push (legAt a.legs k) (cellAt cells i).w (cellAt cells i).tx).2) k
          = (push (legAt a.legs k) (cellAt cells i).w (cellAt cells i).tx).2 from
        getD_set_eq _ _ _ _ (by rw [inv.llen]; exact hk)]
      rw [getD_set_eq _ _ _ _ (by rw [inv.clen]; exact hk)]
      have := Reach.push (cellAt cells i).w (cellAt cells i).tx hr hw hfit
      simpa [List.map_append, List.reverse_append] using this
    · obtain ⟨C, hr⟩ := inv.reach k hk
      refine ⟨C, ?_⟩
      show Reach _ _ (((a.rowCells.set k0 _).getD k []).map _).reverse _ (legAt (a.legs.set k0 _) k)
      rw [show legAt (a.legs.set k0 (push (legAt a.legs k0) (cellAt cells i).w (cellAt cells i).tx).2) k
          = legAt a.legs k from getD_set_ne _ _ _ _ _ (Ne.symm hkk)]
      rw [getD_set_ne _ _ _ _ _ (Ne.symm hkk)]
      exact hr
  · intro k hk j hj
    change j ∈ (a.rowCells.set k0 _).getD k [] at hj
    by_cases hkk : k = k0
    · subst hkk
      rw [getD_set_eq _ _ _ _ (by rw [inv.clen]; exact hk)] at hj
      rcases List.mem_append.mp hj with hj | hj
      · have := inv.mem k hk j hj; omega
      · have : j = i := by simpa using hj
        omega
    · rw [getD_set_ne _ _ _ _ _ (Ne.symm hkk)] at hj
      have := inv.mem k hk j hj; omega
  · intro k hk
    show ((a.rowCells.set k0 _).getD k []).Nodup
    by_cases hkk : k = k0
    · subst hkk
      rw [getD_set_eq _ _ _ _ (by rw [inv.clen]; exact hk)]
      rw [List.nodup_append]
      refine ⟨inv.nodup k hk, by simp, ?_⟩
      intro j hj j' hj'
      have : j' = i := by simpa using hj'
      have := inv.mem k hk j hj
      omega
    · rw [getD_set_ne _ _ _ _ _ (Ne.symm hkk)]
      exact inv.nodup k hk
  · intro k k' j hk hk' hj hj'
    change j ∈ (a.rowCells.set k0 _).getD k [] at hj
    change j ∈ (a.rowCells.set k0 _).getD k' [] at hj'
    have old : ∀ q, q < a.rows.length → j ∈ (a.rowCells.set k0 (a.rowCells.getD k0 [] ++ [i])).getD q [] →
        (j ∈ a.rowCells.getD q [] ∧ j < i) ∨ (q = k0 ∧ j = i) := by
      intro q hq hjq
      by_cases hqq : q = k0
      · subst hqq
        rw [getD_set_eq _ _ _ _ (by rw [inv.clen]; exact hq)] at hjq
        rcases List.mem_append.mp hjq with h | h
        · exact Or.inl ⟨h, inv.mem q hq j h⟩
        · exact Or.inr ⟨rfl, by simpa using h⟩
      · rw [getD_set_ne _ _ _ _ _ (Ne.symm hqq)] at hjq
        exact Or.inl ⟨hjq, inv.mem q hq j hjq⟩
    rcases old k hk hj with ⟨h1, h1'⟩ | ⟨h1, h1'⟩ <;> rcases old k' hk' hj' with ⟨h2, h2'⟩ | ⟨h2, h2'⟩
    · exact inv.uniq k k' j hk hk' h1 h2
    · omega
    · omega
    · omega
  · intro j hj
    by_cases hji : j = i
    · subst hji
      refine ⟨k0, hk0, ?_⟩
      show j ∈ (a.rowCells.set k0 _).getD k0 []
      rw [getD_set_eq _ _ _ _ (by rw [inv.clen]; exact hk0)]
      simp
    · obtain ⟨k, hk, hjk⟩ := inv.cover j (by omega)
      refine ⟨k, hk, ?_⟩
      show j ∈ (a.rowCells.set k0 _).getD k []
      by_cases hkk : k = k0
      · subst hkk
        rw [getD_set_eq _ _ _ _ (by rw [inv.clen]; exact hk)]
        exact List.mem_append_left _ hjk
      · rw [getD_set_ne _ _ _ _ _ (Ne.symm hkk)]
        exact hjk
  · show ((a.legs.set k0 _).map State.remaining).sum = _
    rw [sum_map_set State.remaining a.legs k0 _ default (by rw [inv.llen]; exact hk0), inv.space,
      doneW_succ cells i hi]
    have : State.remaining (a.legs.getD k0 default) = (legAt a.legs k0).remaining := rfl
    rw [this, push_remaining]
    omega

theorem tsInv_run (S : List Row) (H W : Int) (cells : List LCell) (ok : TrivOK S H W cells) :
    ∀ (m i : Nat) (a : Abacus), i + m = cells.length → TSInv S cells i a →
      TSInv S cells cells.length (abacusLoop a i (cells.drop i)).1
  | 0, i, a, him, inv => by
    have : i = cells.length := by omega
    subst this
    simp only [List.drop_length, abacusLoop]
    exact inv
  | m + 1, i, a, him, inv => by
    have hi : i < cells.length := by omega
    rw [drop_cellAt cells i hi, abacusLoop_cons]
    obtain ⟨_, h2⟩ := tsInv_step S H W cells ok i a inv hi
    exact tsInv_run S H W cells ok m (i + 1) _ (by omega) h2

end ColoVerif.Legalize
