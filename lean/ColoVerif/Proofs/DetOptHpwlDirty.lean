import ColoVerif.Proofs.DetOptHpwlHist
/-
C05 ← C09, part 5: `RowReordering` leaves the two incremental models at the positions of the last
enumerated leaf (`Placer.dirty`: arbitrary `updateCellPos` calls on registered cells).  `writeback`
repairs that: without improvement it tells the models the placement's positions of every registered
cell again and the object is *equal* to the one before the pass; with improvement every registered
cell is placed again and the result is the one obtained from clean models.
-/
namespace ColoVerif.DetPlace
open ColoVerif State

/-- the models are in sync with the coordinate vectors `fx`, `fy`, which are the placement's except on `D` -/
structure SyncF (c : Circuit) (p : Placer) (fx fy : Int → Int) (D : Int → Prop) : Prop where
  x : Sync1 (IncrNet.xTopologyAll c) c.cells.length p.xt fx
  y : Sync1 (IncrNet.yTopologyAll c) c.cells.length p.yt fy
  nc : p.pl.nCells = c.cells.length
  agree : ∀ d, ¬ D d → fx d = p.pl.x d ∧ fy d = p.pl.y d

/-- in sync except on the cells of `D` -/
def SyncX (c : Circuit) (p : Placer) (D : Int → Prop) : Prop := ∃ fx fy, SyncF c p fx fy D

theorem Sync.toX {c : Circuit} {p : Placer} (h : Sync c p) (D : Int → Prop) : SyncX c p D :=
  ⟨p.pl.x, p.pl.y, h.x, h.y, h.nc, fun _ _ => ⟨rfl, rfl⟩⟩

theorem SyncX.toSync {c : Circuit} {p : Placer} {D : Int → Prop} (h : SyncX c p D) (hD : ∀ d, ¬ D d) : Sync c p := by
  obtain ⟨fx, fy, h⟩ := h
  exact ⟨h.x.congr (fun d => (h.agree d (hD d)).1), h.y.congr (fun d => (h.agree d (hD d)).2), h.nc⟩

theorem SyncF.valid {c : Circuit} {p : Placer} {fx fy : Int → Int} {D : Int → Prop} (h : SyncF c p fx fy D) {k : Int}
    (hk : p.pl.validCell k) : 0 ≤ k ∧ k < (c.cells.length : Int) := by
  unfold validCell at hk
  rw [h.nc] at hk; exact hk

/-- the enumeration's updates only touch registered cells -/
theorem dirty_syncX {c : Circuit} {D : Int → Prop} : ∀ (dirt : List (Int × Int × Int)) (p : Placer), SyncX c p D →
    (∀ m ∈ dirt, D m.1 ∧ p.pl.validCell m.1) → SyncX c (p.dirty dirt) D ∧ (p.dirty dirt).pl = p.pl
  | [], p, h, _ => ⟨h, rfl⟩
  | (k, vx, vy) :: rest, p, h, hd => by
    obtain ⟨fx, fy, h⟩ := h
    obtain ⟨hDk, hvk⟩ := hd (k, vx, vy) (List.mem_cons_self ..)
    obtain ⟨k0, kn⟩ := h.valid hvk
    have s1 := Sync.updateCellTo (p := p) h.x h.y k vx vy k0 kn
    have h' : SyncX c (p.updateCellTo k vx vy) D :=
      ⟨_, _, s1.1, s1.2, h.nc, fun d hd' => by
        have hne : d ≠ k := fun e => hd' (e ▸ hDk)
        simp only [upd, hne, if_false]
        exact h.agree d hd'⟩
    have := dirty_syncX rest (p.updateCellTo k vx vy) h' (fun m hm => hd m (List.mem_cons_of_mem _ hm))
    exact ⟨this.1, this.2⟩

/-- telling the models where a cell is removes it from the dirty set -/
theorem SyncX.updateCell {c : Circuit} {p : Placer} {D : Int → Prop} (h : SyncX c p D) {k : Int} (hk : p.pl.validCell k) :
    SyncX c (p.updateCell k) (fun d => D d ∧ d ≠ k) := by
  obtain ⟨fx, fy, h⟩ := h
  obtain ⟨k0, kn⟩ := h.valid hk
  have s1 := Sync.updateCellTo (p := p) h.x h.y k (p.pl.x k) (p.pl.y k) k0 kn
  refine ⟨_, _, s1.1, s1.2, h.nc, ?_⟩
  intro d hd
  by_cases hdk : d = k
  · subst hdk; simp [upd]; exact ⟨rfl, rfl⟩
  · have : ¬ D d := fun hDd => hd ⟨hDd, hdk⟩
    simp only [upd, hdk, if_false]
    exact h.agree d this

theorem restore_syncX {c : Circuit} : ∀ (cs : List Int) (p : Placer) (D : Int → Prop), SyncX c p D →
    (∀ k ∈ cs, p.pl.validCell k) → SyncX c (p.restore cs) (fun d => D d ∧ d ∉ cs) ∧ (p.restore cs).pl = p.pl
  | [], p, D, h, _ => by
    obtain ⟨fx, fy, h⟩ := h
    exact ⟨⟨fx, fy, h.x, h.y, h.nc, fun d hd => h.agree d (fun hDd => hd ⟨hDd, by simp⟩)⟩, rfl⟩
  | k :: rest, p, D, h, hv => by
    have h1 := h.updateCell (hv k (List.mem_cons_self ..))
    obtain ⟨⟨fx, fy, hr⟩, epl⟩ := restore_syncX rest (p.updateCell k) _ h1 (fun j hj => hv j (List.mem_cons_of_mem _ hj))
    refine ⟨⟨fx, fy, hr.x, hr.y, hr.nc, ?_⟩, epl⟩
    intro d hd
    apply hr.agree d
    intro ⟨⟨hDd, hdk⟩, hdr⟩
    exact hd ⟨hDd, by simp [hdk, hdr]⟩

/-- **No improvement: the pass is the identity on the whole object.** -/
theorem dirty_restore_eq {c : Circuit} {p : Placer} (h : Sync c p) (dirt : List (Int × Int × Int)) (cells : List Int)
    (hd : ∀ m ∈ dirt, m.1 ∈ cells) (hv : ∀ k ∈ cells, p.pl.validCell k) :
    (p.dirty dirt).restore cells = p := by
  obtain ⟨h1, e1⟩ := dirty_syncX (D := fun d => d ∈ cells) dirt p (h.toX _) (fun m hm => ⟨hd m hm, hv _ (hd m hm)⟩)
  obtain ⟨h2, e2⟩ := restore_syncX cells (p.dirty dirt) _ h1 (fun k hk => by rw [e1]; exact hv k hk)
  have hs : Sync c ((p.dirty dirt).restore cells) := h2.toSync (fun d hd' => hd'.2 hd'.1)
  have epl : ((p.dirty dirt).restore cells).pl = p.pl := e2.trans e1
  refine placer_ext epl ?_ ?_
  · have hx := hs.x; rw [epl] at hx; exact hx.unique h.x
  · have hy := hs.y; rw [epl] at hy; exact hy.unique h.y

/-! ### improvement: every registered cell is placed again -/

theorem unplaceAll_row {s t : State} {cs : List Int} (e : s.unplaceAll cs = .ok t) :
    ∀ d, (d ∈ cs ∨ s.row d = -1) → t.row d = -1 := by
  induction cs generalizing s with
  | nil => simp [unplaceAll] at e; subst e; intro d hd; simpa using hd
  | cons k cs ih =>
    unfold unplaceAll at e
    split at e
    · intro d hd
      apply ih (s := s.unplace k) e d
      rw [unplace_row]
      by_cases hdk : d = k
      · right; simp [hdk]
      · rcases hd with hd | hd
        · left; simpa [hdk] using hd
        · right; simp [hdk, hd]
    · cases e

theorem placeChainX {c : Circuit} : ∀ (l : List (Int × Int)) (p q : Placer) (r pr : Int) (D : Int → Prop), SyncX c p D →
    (∀ d, D d → p.pl.row d = -1) → p.placeChain r pr l = .ok q →
    ∃ D' : Int → Prop, SyncX c q D' ∧ (∀ d, D' d → D d ∧ q.pl.row d = -1)
  | [], p, q, r, pr, D, h, hu, e => by
    simp only [Placer.placeChain] at e
    injection e with e; subst e
    exact ⟨D, h, fun d hd => ⟨hd, hu d hd⟩⟩
  | (k, v) :: rest, p, q, r, pr, D, h, hu, e => by
    unfold Placer.placeChain at e
    split at e
    · rename_i hg
      simp only [Bool.and_eq_true, Bool.not_eq_true'] at hg
      split at e
      · cases e
      · rename_i t et
        obtain ⟨fx, fy, h⟩ := h
        have hv := ((liveCell_iff _ _).1 hg.1.1).1
        obtain ⟨ht, -⟩ := place_ok et
        -- the placement moved k only; the models still disagree on D
        have hX : SyncX c (p.withPl t) (fun d => D d ∨ d = k) :=
          ⟨fx, fy, h.x, h.y, (place_nCells et).trans h.nc, fun d hd => by
            have hdk : d ≠ k := fun e' => hd (Or.inr e')
            have hDd : ¬ D d := fun e' => hd (Or.inl e')
            have := h.agree d hDd
            show fx d = t.x d ∧ fy d = t.y d
            rw [ht, (placeRaw_xy p.pl k r pr v d).1, (placeRaw_xy p.pl k r pr v d).2]
            simpa [hdk] using this⟩
        have hvk : (p.withPl t).pl.validCell k := by
          show t.validCell k
          unfold validCell; rw [place_nCells et]; exact hv
        have h1 := hX.updateCell hvk
        obtain ⟨D', hq, hD'⟩ := placeChainX rest _ q r k _ h1 (by
          intro d ⟨hd, hdk⟩
          rcases hd with hd | hd
          · show t.row d = -1
            rw [ht, placeRaw_row]; simp [hdk]; exact hu d hd
          · exact absurd hd hdk) e
        exact ⟨D', hq, fun d hd => by
          obtain ⟨⟨hd1, hdk⟩, hrow⟩ := hD' d hd
          rcases hd1 with hd1 | hd1
          · exact ⟨hd1, hrow⟩
          · exact absurd hd1 hdk⟩
    · cases e

theorem placeRegionsX {c : Circuit} : ∀ (gs : List Region) (p q : Placer) (D : Int → Prop), SyncX c p D →
    (∀ d, D d → p.pl.row d = -1) → p.placeRegions gs = .ok q →
    ∃ D' : Int → Prop, SyncX c q D' ∧ (∀ d, D' d → D d ∧ q.pl.row d = -1)
  | [], p, q, D, h, hu, e => by
    simp only [Placer.placeRegions] at e
    injection e with e; subst e
    exact ⟨D, h, fun d hd => ⟨hd, hu d hd⟩⟩
  | g :: gs, p, q, D, h, hu, e => by
    unfold Placer.placeRegions at e
    split at e
    · cases e
    · rename_i u eu
      obtain ⟨D1, h1, hD1⟩ := placeChainX g.cells p u g.row g.pred D h hu eu
      obtain ⟨D2, h2, hD2⟩ := placeRegionsX gs u q D1 h1 (fun d hd => (hD1 d hd).2) e
      exact ⟨D2, h2, fun d hd => ⟨(hD1 d (hD2 d hd).1).1, (hD2 d hd).2⟩⟩

/-- the placement component of a `Placer` computation does not depend on the two models -/
theorem placeChain_pl_indep : ∀ (l : List (Int × Int)) (p p' q : Placer) (r pr : Int), p'.pl = p.pl →
    p.placeChain r pr l = .ok q → ∃ q', p'.placeChain r pr l = .ok q' ∧ q'.pl = q.pl
  | [], p, p', q, r, pr, hp, e => by
    simp only [Placer.placeChain] at e
    injection e with e; subst e
    exact ⟨p', rfl, hp⟩
  | (k, v) :: rest, p, p', q, r, pr, hp, e => by
    unfold Placer.placeChain at e ⊢
    rw [hp]
    split at e
    · rename_i hg
      rw [if_pos hg]
      split at e
      · cases e
      · rename_i t et
        exact placeChain_pl_indep rest ((p.withPl t).updateCell k) ((p'.withPl t).updateCell k) q r k rfl e
    · cases e

theorem placeRegions_pl_indep : ∀ (gs : List Region) (p p' q : Placer), p'.pl = p.pl →
    p.placeRegions gs = .ok q → ∃ q', p'.placeRegions gs = .ok q' ∧ q'.pl = q.pl
  | [], p, p', q, hp, e => by
    simp only [Placer.placeRegions] at e
    injection e with e; subst e
    exact ⟨p', rfl, hp⟩
  | g :: gs, p, p', q, hp, e => by
    unfold Placer.placeRegions at e ⊢
    split at e
    · cases e
    · rename_i u eu
      obtain ⟨u', eu', hu'⟩ := placeChain_pl_indep g.cells p p' u g.row g.pred hp eu
      simp only [eu']
      exact placeRegions_pl_indep gs u u' q hu' e

/-- **Improvement: `writeback` from the mid-enumeration models gives the object that `writeback`
from clean models gives.** -/
theorem dirty_writeback_eq {c : Circuit} {p q : Placer} (h : Sync c p) (dirt : List (Int × Int × Int)) (cells : List Int)
    (regions : List Region) (hd : ∀ m ∈ dirt, m.1 ∈ cells) (hv : ∀ k ∈ cells, p.pl.validCell k)
    (e : (p.dirty dirt).reorderWriteback cells regions = .ok q) :
    p.reorderWriteback cells regions = .ok q ∧ Sync c q := by
  obtain ⟨h1, e1⟩ := dirty_syncX (D := fun d => d ∈ cells) dirt p (h.toX _) (fun m hm => ⟨hd m hm, hv _ (hd m hm)⟩)
  unfold Placer.reorderWriteback at e
  rw [e1] at e
  split at e
  · cases e
  · rename_i t et
    obtain ⟨hn, hx, hy⟩ := unplaceAll_static et
    obtain ⟨fx, fy, h1⟩ := h1
    have hX : SyncX c ((p.dirty dirt).withPl t) (fun d => d ∈ cells) :=
      ⟨fx, fy, h1.x, h1.y, hn.trans h.nc, fun d hd' => by
        have := h1.agree d hd'
        rw [e1] at this
        show fx d = t.x d ∧ fy d = t.y d
        rw [hx, hy]; exact this⟩
    split at e
    · cases e
    · rename_i u eu
      split at e
      · rename_i hall
        injection e with e; subst e
        obtain ⟨D', hq, hD'⟩ := placeRegionsX regions _ u _ hX (fun d hd' => unplaceAll_row et d (Or.inl hd')) eu
        have hs : Sync c u := hq.toSync (fun d hd' => by
          obtain ⟨hmem, hrow⟩ := hD' d hd'
          rw [List.all_eq_true] at hall
          have := (isPlaced_iff _ _).1 (hall d hmem)
          exact this hrow)
        -- the clean run
        obtain ⟨u', eu', hu'⟩ := placeRegions_pl_indep regions ((p.dirty dirt).withPl t) (p.withPl t) u rfl eu
        have hs' : Sync c u' := by
          have hclean : Sync c (p.withPl t) :=
            ⟨by show Sync1 _ _ p.xt t.x; rw [hx]; exact h.x, by show Sync1 _ _ p.yt t.y; rw [hy]; exact h.y, hn.trans h.nc⟩
          exact (placeRegions_sync regions _ u' hclean eu').1
        have euu : u' = u := by
          refine placer_ext hu' ?_ ?_
          · have := hs'.x; rw [hu'] at this; exact this.unique hs.x
          · have := hs'.y; rw [hu'] at this; exact this.unique hs.y
        refine ⟨?_, hs⟩
        unfold Placer.reorderWriteback
        simp only [et, eu', euu, hall, if_true]
      · cases e

end ColoVerif.DetPlace
