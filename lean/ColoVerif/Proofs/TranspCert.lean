/-
Weak duality for the transportation LP, over finite sums `sumTo` (helper lemmas for C13/C14).
-/
import ColoVerif.Model.TranspCert
import Mathlib.Tactic.Linarith
import Mathlib.Tactic.Ring

namespace ColoVerif.Transp

/-! ### finite sums -/

@[simp] lemma sumTo_zero (f : Nat → Int) : sumTo 0 f = 0 := rfl
@[simp] lemma sumTo_succ (n : Nat) (f : Nat → Int) : sumTo (n + 1) f = sumTo n f + f n := rfl

lemma sumTo_le {n : Nat} {f g : Nat → Int} (h : ∀ i, i < n → f i ≤ g i) : sumTo n f ≤ sumTo n g := by
  induction n with
  | zero => simp
  | succ n ih =>
    have h1 := ih (fun i hi => h i (Nat.lt_succ_of_lt hi))
    have h2 := h n (Nat.lt_succ_self n)
    simp only [sumTo_succ]; linarith

lemma sumTo_congr {n : Nat} {f g : Nat → Int} (h : ∀ i, i < n → f i = g i) : sumTo n f = sumTo n g := by
  induction n with
  | zero => simp
  | succ n ih =>
    have h1 := ih (fun i hi => h i (Nat.lt_succ_of_lt hi))
    have h2 := h n (Nat.lt_succ_self n)
    simp only [sumTo_succ]; rw [h1, h2]

lemma sumTo_add (n : Nat) (f g : Nat → Int) : sumTo n (fun i => f i + g i) = sumTo n f + sumTo n g := by
  induction n with
  | zero => simp
  | succ n ih => simp only [sumTo_succ, ih]; ring

lemma sumTo_sub (n : Nat) (f g : Nat → Int) : sumTo n (fun i => f i - g i) = sumTo n f - sumTo n g := by
  induction n with
  | zero => simp
  | succ n ih => simp only [sumTo_succ, ih]; ring

lemma sumTo_mul_left (n : Nat) (c : Int) (f : Nat → Int) : sumTo n (fun i => c * f i) = c * sumTo n f := by
  induction n with
  | zero => simp
  | succ n ih => simp only [sumTo_succ, ih]; ring

lemma sumTo_const_zero (n : Nat) : sumTo n (fun _ => 0) = 0 := by
  induction n with
  | zero => simp
  | succ n ih => simp only [sumTo_succ, ih]; ring

/-- exchange of the order of summation -/
lemma sumTo_comm (n m : Nat) (f : Nat → Nat → Int) :
    sumTo n (fun i => sumTo m (fun j => f i j)) = sumTo m (fun j => sumTo n (fun i => f i j)) := by
  induction n with
  | zero => simp [sumTo_const_zero]
  | succ n ih =>
    simp only [sumTo_succ, ih]
    rw [← sumTo_add]

lemma allTo_iff (n : Nat) (f : Nat → Bool) : allTo n f = true ↔ ∀ i, i < n → f i = true := by
  induction n with
  | zero => simp [allTo]
  | succ n ih =>
    simp only [allTo, Bool.and_eq_true, ih]
    constructor
    · rintro ⟨h1, h2⟩ i hi
      rcases Nat.lt_succ_iff_lt_or_eq.mp hi with h | h
      · exact h1 i h
      · rw [h]; exact h2
    · intro h
      exact ⟨fun i hi => h i (Nat.lt_succ_of_lt hi), h n (Nat.lt_succ_self n)⟩

/-! ### the LP -/

/-- Primal feasibility as a proposition (what C13 states about the plan). -/
structure Feasible (p : Problem) (y : Mat) : Prop where
  nonneg : ∀ i j, i < p.nbSinks → j < p.nbSources → 0 ≤ get2 y i j
  demand : ∀ j, j < p.nbSources → colSum y p.nbSinks j = p.demand j
  capacity : ∀ i, i < p.nbSinks → rowSum y p.nbSources i ≤ p.capacity i

lemma primalOk_iff (p : Problem) (x : Mat) : primalOk p x = true ↔ Feasible p x := by
  simp only [primalOk, Bool.and_eq_true, allTo_iff, decide_eq_true_eq]
  constructor
  · rintro ⟨⟨h1, h2⟩, h3⟩
    exact ⟨fun i j hi hj => h1 i hi j hj, h2, h3⟩
  · rintro ⟨h1, h2, h3⟩
    exact ⟨⟨fun i hi j hj => h1 i j hi hj, h2⟩, h3⟩

/-- value of the dual solution -/
def dualVal (p : Problem) (u v : List Int) : Int :=
  sumTo p.nbSources (fun j => u.getD j 0 * p.demand j) - sumTo p.nbSinks (fun i => v.getD i 0 * p.capacity i)

/-- the Lagrangian rearrangement: Σ_i Σ_j (u_j − v_i)·y_ij = Σ_j u_j·colSum_j − Σ_i v_i·rowSum_i -/
lemma lagrange (n m : Nat) (y : Mat) (u v : List Int) :
    sumTo n (fun i => sumTo m (fun j => (u.getD j 0 - v.getD i 0) * get2 y i j))
      = sumTo m (fun j => u.getD j 0 * colSum y n j) - sumTo n (fun i => v.getD i 0 * rowSum y m i) := by
  have h1 : sumTo n (fun i => sumTo m (fun j => (u.getD j 0 - v.getD i 0) * get2 y i j))
      = sumTo n (fun i => sumTo m (fun j => u.getD j 0 * get2 y i j))
        - sumTo n (fun i => sumTo m (fun j => v.getD i 0 * get2 y i j)) := by
    rw [← sumTo_sub]
    apply sumTo_congr; intro i _
    rw [← sumTo_sub]
    apply sumTo_congr; intro j _
    ring
  rw [h1, sumTo_comm n m (fun i j => u.getD j 0 * get2 y i j)]
  congr 1
  · apply sumTo_congr; intro j _
    rw [sumTo_mul_left]; rfl
  · apply sumTo_congr; intro i _
    rw [sumTo_mul_left]; rfl

/-- weak duality: every feasible plan costs at least the value of every feasible dual -/
lemma weak_duality (p : Problem) (y : Mat) (u v : List Int) (hy : Feasible p y) (hd : dualOk p u v = true) :
    dualVal p u v ≤ costOf p y := by
  simp only [dualOk, Bool.and_eq_true, allTo_iff, decide_eq_true_eq] at hd
  obtain ⟨hv, huv⟩ := hd
  have h1 : sumTo p.nbSinks (fun i => sumTo p.nbSources (fun j => (u.getD j 0 - v.getD i 0) * get2 y i j))
      ≤ costOf p y := by
    unfold costOf
    apply sumTo_le; intro i hi
    apply sumTo_le; intro j hj
    have a := huv i hi j hj
    have b := hy.nonneg i j hi hj
    nlinarith [mul_nonneg (sub_nonneg.mpr a) b]
  rw [lagrange] at h1
  have h2 : sumTo p.nbSources (fun j => u.getD j 0 * colSum y p.nbSinks j)
      = sumTo p.nbSources (fun j => u.getD j 0 * p.demand j) := by
    apply sumTo_congr; intro j hj; rw [hy.demand j hj]
  have h3 : sumTo p.nbSinks (fun i => v.getD i 0 * rowSum y p.nbSources i)
      ≤ sumTo p.nbSinks (fun i => v.getD i 0 * p.capacity i) := by
    apply sumTo_le; intro i hi
    exact mul_le_mul_of_nonneg_left (hy.capacity i hi) (hv i hi)
  unfold dualVal
  linarith

/-- complementary slackness: the certified plan attains the dual value -/
lemma slack_tight (p : Problem) (x : Mat) (u v : List Int) (hx : Feasible p x) (hs : slackOk p x u v = true) :
    costOf p x = dualVal p u v := by
  simp only [slackOk, Bool.and_eq_true, allTo_iff, decide_eq_true_eq] at hs
  obtain ⟨hxs, hvs⟩ := hs
  have h1 : costOf p x
      = sumTo p.nbSinks (fun i => sumTo p.nbSources (fun j => (u.getD j 0 - v.getD i 0) * get2 x i j)) := by
    unfold costOf
    apply sumTo_congr; intro i hi
    apply sumTo_congr; intro j hj
    rcases hxs i hi j hj with h | h
    · rw [h]; ring
    · rw [h]
  rw [h1, lagrange]
  have h2 : sumTo p.nbSources (fun j => u.getD j 0 * colSum x p.nbSinks j)
      = sumTo p.nbSources (fun j => u.getD j 0 * p.demand j) := by
    apply sumTo_congr; intro j hj; rw [hx.demand j hj]
  have h3 : sumTo p.nbSinks (fun i => v.getD i 0 * rowSum x p.nbSources i)
      = sumTo p.nbSinks (fun i => v.getD i 0 * p.capacity i) := by
    apply sumTo_congr; intro i hi
    rcases hvs i hi with h | h
    · rw [h]; ring
    · rw [h]
  unfold dualVal
  rw [h2, h3]

end ColoVerif.Transp
