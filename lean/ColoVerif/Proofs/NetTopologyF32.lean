import ColoVerif.Model.NetTopology
import Mathlib.Tactic.Linarith
import Mathlib.Tactic.Ring
import Mathlib.Tactic.NormNum.Pow
import Mathlib.Algebra.Order.Field.Rat
import Mathlib.Algebra.Order.Field.Power
/-
C17 helper lemmas: the binary32 rounding `Legalize.f32` used by `NetTopology` (int → float
conversions of `xTopology`/`yTopology`) is exact on the integers `|v| ≤ 2^24` and on half-integers
`m/2` with `|m| ≤ 2^24`, so that below 2^24 the stored pins are the exact rational values.

The first part (up to `f32_one`) is a verbatim copy of the `f32` lemmas of
`Proofs/LegalizeF32.lean` (C11; written there for the ordering keys), restated in this namespace so
that C17 does not depend on the import closure of the C11 idempotence proofs.  They are about the
same definition `ColoVerif.Legalize.f32` of `Model/Legalize.lean`.
-/
namespace ColoVerif.NetTopology.F32
open ColoVerif.Legalize

/-! ### `pow2` is `2 ^ e` -/

theorem pow2_eq (e : Int) : pow2 e = (2 : Rat) ^ e := by
  unfold pow2
  split
  · rename_i h
    have he : e = ((e.toNat : Nat) : Int) := (Int.toNat_of_nonneg h).symm
    conv_rhs => rw [he]
    rw [zpow_natCast]
    push_cast
    rfl
  · rename_i h
    have he : e = -(((-e).toNat : Nat) : Int) := by omega
    conv_rhs => rw [he]
    rw [zpow_neg, zpow_natCast]
    push_cast
    rw [one_div]

theorem two_zpow_pos (e : Int) : (0 : Rat) < (2 : Rat) ^ e := zpow_pos (by norm_num) e

theorem two_zpow_le {a b : Int} (h : a ≤ b) : (2 : Rat) ^ a ≤ (2 : Rat) ^ b :=
  zpow_le_zpow_right₀ (by norm_num) h

theorem two_zpow_lt_imp {a b : Int} (h : (2 : Rat) ^ a < (2 : Rat) ^ b) : a < b := by
  by_contra hn
  exact absurd (two_zpow_le (not_lt.mp hn)) (not_le.mpr h)

theorem two_zpow_add (a b : Int) : (2 : Rat) ^ (a + b) = (2 : Rat) ^ a * (2 : Rat) ^ b :=
  zpow_add₀ (by norm_num) a b

/-- `2^n` for a natural exponent is (the cast of) an integer -/
theorem two_zpow_nat (n : Nat) : (2 : Rat) ^ (n : Int) = (((2 : Int) ^ n : Int) : Rat) := by
  rw [zpow_natCast]
  push_cast
  rfl

/-! ### `roundHalfEven` -/

theorem rhe_cases (r : Rat) : roundHalfEven r = r.floor ∨ roundHalfEven r = r.floor + 1 := by
  unfold roundHalfEven
  split_ifs <;> simp

theorem rhe_mono {r s : Rat} (h : r ≤ s) : roundHalfEven r ≤ roundHalfEven s := by
  have a1 := Rat.floor_le r
  have a2 := Rat.lt_floor_add_one r
  have b1 := Rat.floor_le s
  have b2 := Rat.lt_floor_add_one s
  push_cast at a2 b2
  rcases lt_or_ge r.floor s.floor with hlt | hge
  · rcases rhe_cases r with h1 | h1 <;> rcases rhe_cases s with h2 | h2 <;> omega
  · have hfeq : r.floor = s.floor := by
      have h3 : (r.floor : Rat) < (s.floor : Rat) + 1 := by linarith
      have h4 : r.floor < s.floor + 1 := by exact_mod_cast h3
      omega
    unfold roundHalfEven
    rw [hfeq] at a1 a2 ⊢
    split_ifs <;> first | omega | (exfalso; linarith)

theorem rhe_int (n : Int) : roundHalfEven (n : Rat) = n := by
  unfold roundHalfEven
  rw [Rat.floor_intCast]
  simp

theorem rhe_ge_int {n : Int} {r : Rat} (h : (n : Rat) ≤ r) : n ≤ roundHalfEven r := by
  have := rhe_mono h
  rwa [rhe_int] at this

theorem rhe_le_int {n : Int} {r : Rat} (h : r ≤ (n : Rat)) : roundHalfEven r ≤ n := by
  have := rhe_mono h
  rwa [rhe_int] at this

/-! ### `f32Exp`: the exponent of the unit in the last place -/

theorem log2_bounds (n : Nat) (hn : n ≠ 0) :
    (2 : Rat) ^ (n.log2 : Int) ≤ (n : Rat) ∧ (n : Rat) < (2 : Rat) ^ ((n.log2 : Int) + 1) := by
  constructor
  · rw [zpow_natCast]
    exact_mod_cast Nat.log2_self_le hn
  · have : (n.log2 : Int) + 1 = ((n.log2 + 1 : Nat) : Int) := by push_cast; ring
    rw [this, zpow_natCast]
    exact_mod_cast (Nat.lt_log2_self (n := n))

/-- the first guess of the binade from the bit lengths of numerator and denominator is off by at
most one -/
theorem bracket (a : Rat) (ha : 0 < a) :
    (2 : Rat) ^ ((Nat.log2 a.num.natAbs : Int) - (Nat.log2 a.den : Int) - 1) < a ∧
    a < (2 : Rat) ^ ((Nat.log2 a.num.natAbs : Int) - (Nat.log2 a.den : Int) + 1) := by
  have hnum : 0 < a.num := Rat.num_pos.mpr ha
  have hn0 : a.num.natAbs ≠ 0 := by omega
  have hd0 : a.den ≠ 0 := a.den_nz
  obtain ⟨n1, n2⟩ := log2_bounds a.num.natAbs hn0
  obtain ⟨d1, d2⟩ := log2_bounds a.den hd0
  have hcast : ((a.num.natAbs : Nat) : Rat) = (a.num : Rat) := by
    rw [Nat.cast_natAbs, abs_of_pos hnum]
  have hdpos : (0 : Rat) < (a.den : Rat) := by exact_mod_cast Nat.pos_of_ne_zero hd0
  have hmul : a * (a.den : Rat) = ((a.num.natAbs : Nat) : Rat) := by
    rw [hcast]
    exact ((div_eq_iff (ne_of_gt hdpos)).mp (Rat.num_div_den a)).symm
  generalize (Nat.log2 a.num.natAbs : Int) = ln at *
  generalize (Nat.log2 a.den : Int) = ld at *
  generalize ((a.num.natAbs : Nat) : Rat) = n at *
  generalize (a.den : Rat) = d at *
  constructor
  · have e : (2 : Rat) ^ (ln - ld - 1) * (2 : Rat) ^ (ld + 1) = (2 : Rat) ^ ln := by
      rw [← two_zpow_add]; congr 1; ring
    have h1 : (2 : Rat) ^ (ln - ld - 1) * d < (2 : Rat) ^ (ln - ld - 1) * (2 : Rat) ^ (ld + 1) :=
      mul_lt_mul_of_pos_left d2 (two_zpow_pos _)
    have h2 : (2 : Rat) ^ (ln - ld - 1) * d < a * d := by linarith
    exact lt_of_mul_lt_mul_right h2 (le_of_lt hdpos)
  · have e : (2 : Rat) ^ (ln - ld + 1) * (2 : Rat) ^ ld = (2 : Rat) ^ (ln + 1) := by
      rw [← two_zpow_add]; congr 1; ring
    have h1 : (2 : Rat) ^ (ln - ld + 1) * (2 : Rat) ^ ld ≤ (2 : Rat) ^ (ln - ld + 1) * d :=
      mul_le_mul_of_nonneg_left d1 (le_of_lt (two_zpow_pos _))
    have h2 : a * d < (2 : Rat) ^ (ln - ld + 1) * d := by linarith
    exact lt_of_mul_lt_mul_right h2 (le_of_lt hdpos)

/-- specification of `f32Exp` for `a > 0`: `E ≥ −149`, `a < 2^(E+24)`, and `2^(E+23) ≤ a` unless
the exponent was clamped to the subnormal one -/
theorem f32Exp_spec (a : Rat) (ha : 0 < a) :
    -149 ≤ f32Exp a ∧ a < (2 : Rat) ^ (f32Exp a + 24) ∧ (f32Exp a = -149 ∨ (2 : Rat) ^ (f32Exp a + 23) ≤ a) := by
  obtain ⟨b1, b2⟩ := bracket a ha
  unfold f32Exp
  simp only [pow2_eq]
  generalize (Nat.log2 a.num.natAbs : Int) - (Nat.log2 a.den : Int) = k at *
  have e23 : k - 23 + 23 = k := by ring
  rw [e23]
  split_ifs with hlt
  · -- a < 2^k
    have hb : (2 : Rat) ^ (k - 23 - 1 + 23) ≤ a := by
      have : k - 23 - 1 + 23 = k - 1 := by ring
      rw [this]; exact le_of_lt b1
    have hu : a < (2 : Rat) ^ (k - 23 - 1 + 24) := by
      have : k - 23 - 1 + 24 = k := by ring
      rw [this]; exact hlt
    refine ⟨le_max_right _ _, ?_, ?_⟩
    · exact lt_of_lt_of_le hu (two_zpow_le (by have := le_max_left (k - 23 - 1) (-149); omega))
    · rcases le_total (k - 23 - 1) (-149) with h | h
      · left; exact max_eq_right h
      · right; rw [max_eq_left h]; exact hb
  · have hb : (2 : Rat) ^ (k - 23 + 23) ≤ a := by
      rw [e23]; exact not_lt.mp hlt
    have hu : a < (2 : Rat) ^ (k - 23 + 24) := by
      have : k - 23 + 24 = k + 1 := by ring
      rw [this]; exact b2
    refine ⟨le_max_right _ _, ?_, ?_⟩
    · exact lt_of_lt_of_le hu (two_zpow_le (by have := le_max_left (k - 23) (-149); omega))
    · rcases le_total (k - 23) (-149) with h | h
      · left; exact max_eq_right h
      · right; rw [max_eq_left h]; exact hb

theorem f32Exp_mono {x y : Rat} (hx : 0 < x) (hxy : x ≤ y) : f32Exp x ≤ f32Exp y := by
  obtain ⟨x1, x2, x3⟩ := f32Exp_spec x hx
  obtain ⟨y1, y2, y3⟩ := f32Exp_spec y (lt_of_lt_of_le hx hxy)
  by_contra hn
  have hgt : f32Exp y < f32Exp x := not_le.mp hn
  rcases x3 with h | h
  · omega
  · have : (2 : Rat) ^ (f32Exp x + 23) < (2 : Rat) ^ (f32Exp y + 24) := by linarith
    have := two_zpow_lt_imp this
    omega

/-! ### `f32` -/

theorem f32_zero : f32 0 = 0 := by simp [f32]

theorem f32_of_pos {a : Rat} (ha : 0 < a) :
    f32 a = (roundHalfEven (a / (2 : Rat) ^ f32Exp a) : Rat) * (2 : Rat) ^ f32Exp a := by
  unfold f32
  rw [if_neg (ne_of_gt ha), if_neg (not_lt.mpr (le_of_lt ha)), pow2_eq]

theorem f32_of_neg {a : Rat} (ha : a < 0) : f32 a = -f32 (-a) := by
  have hp : 0 < -a := by linarith
  rw [f32_of_pos hp]
  unfold f32
  rw [if_neg (ne_of_lt ha), if_pos ha, pow2_eq]

/-- `f32` is odd -/
theorem f32_neg (a : Rat) : f32 (-a) = -f32 a := by
  rcases lt_trichotomy a 0 with h | h | h
  · rw [f32_of_neg h, neg_neg]
  · subst h; simp [f32_zero]
  · have : -a < 0 := by linarith
    rw [f32_of_neg this, neg_neg]

theorem f32_nonneg {a : Rat} (ha : 0 ≤ a) : 0 ≤ f32 a := by
  rcases eq_or_lt_of_le ha with h | h
  · rw [← h, f32_zero]
  · rw [f32_of_pos h]
    apply mul_nonneg _ (le_of_lt (two_zpow_pos _))
    have : (0 : Int) ≤ roundHalfEven (a / (2 : Rat) ^ f32Exp a) :=
      rhe_ge_int (by push_cast; exact div_nonneg ha (le_of_lt (two_zpow_pos _)))
    exact_mod_cast this

/-- a positive value never rounds above the top of its binade -/
theorem f32_le_top {a : Rat} (ha : 0 < a) : f32 a ≤ (2 : Rat) ^ (f32Exp a + 24) := by
  obtain ⟨_, h2, _⟩ := f32Exp_spec a ha
  have e24 : (2 : Rat) ^ (f32Exp a + 24) = 16777216 * (2 : Rat) ^ f32Exp a := by
    rw [two_zpow_add]; norm_num; ring
  rw [f32_of_pos ha, e24]
  apply mul_le_mul_of_nonneg_right _ (le_of_lt (two_zpow_pos _))
  have hq : a / (2 : Rat) ^ f32Exp a ≤ ((16777216 : Int) : Rat) := by
    rw [div_le_iff₀ (two_zpow_pos _)]
    push_cast
    rw [← e24]
    exact le_of_lt h2
  have := rhe_le_int hq
  exact_mod_cast this

/-- a positive normal value never rounds below the bottom of its binade -/
theorem f32_ge_bottom {a : Rat} (ha : 0 < a) (hb : (2 : Rat) ^ (f32Exp a + 23) ≤ a) :
    (2 : Rat) ^ (f32Exp a + 23) ≤ f32 a := by
  have e23 : (2 : Rat) ^ (f32Exp a + 23) = 8388608 * (2 : Rat) ^ f32Exp a := by
    rw [two_zpow_add]; norm_num; ring
  rw [f32_of_pos ha, e23]
  apply mul_le_mul_of_nonneg_right _ (le_of_lt (two_zpow_pos _))
  have hq : ((8388608 : Int) : Rat) ≤ a / (2 : Rat) ^ f32Exp a := by
    rw [le_div_iff₀ (two_zpow_pos _)]
    push_cast
    rw [← e23]
    exact hb
  have := rhe_ge_int hq
  exact_mod_cast this

theorem f32_mono_pos {x y : Rat} (hx : 0 < x) (hxy : x ≤ y) : f32 x ≤ f32 y := by
  have hy : 0 < y := lt_of_lt_of_le hx hxy
  have hE := f32Exp_mono hx hxy
  rcases eq_or_lt_of_le hE with he | hlt
  · rw [f32_of_pos hx, f32_of_pos hy, he]
    apply mul_le_mul_of_nonneg_right _ (le_of_lt (two_zpow_pos _))
    have : roundHalfEven (x / (2 : Rat) ^ f32Exp y) ≤ roundHalfEven (y / (2 : Rat) ^ f32Exp y) :=
      rhe_mono (div_le_div_of_nonneg_right hxy (le_of_lt (two_zpow_pos _)))
    exact_mod_cast this
  · obtain ⟨x1, _, _⟩ := f32Exp_spec x hx
    obtain ⟨_, _, y3⟩ := f32Exp_spec y hy
    have hyb : (2 : Rat) ^ (f32Exp y + 23) ≤ y := by
      rcases y3 with h | h
      · omega
      · exact h
    calc f32 x ≤ (2 : Rat) ^ (f32Exp x + 24) := f32_le_top hx
      _ ≤ (2 : Rat) ^ (f32Exp y + 23) := two_zpow_le (by omega)
      _ ≤ f32 y := f32_ge_bottom hy hyb

/-- **`f32` is monotone** -/
theorem f32_mono {x y : Rat} (hxy : x ≤ y) : f32 x ≤ f32 y := by
  rcases lt_trichotomy x 0 with hx | hx | hx
  · rw [f32_of_neg hx]
    rcases lt_or_ge y 0 with hy | hy
    · rw [f32_of_neg hy]
      have : f32 (-y) ≤ f32 (-x) := f32_mono_pos (by linarith) (by linarith)
      linarith
    · have h1 : 0 ≤ f32 (-x) := f32_nonneg (by linarith)
      have h2 := f32_nonneg hy
      linarith
  · subst hx; rw [f32_zero]; exact f32_nonneg hxy
  · exact f32_mono_pos hx hxy

/-! ### exactness -/

/-- `m·2^k` with `0 < m < 2^24`, `k ≥ −149` is a binary32 value -/
theorem f32_exact_pos (m k : Int) (hm0 : 0 < m) (hm : m < 16777216) (hk : -149 ≤ k) :
    f32 ((m : Rat) * (2 : Rat) ^ k) = (m : Rat) * (2 : Rat) ^ k := by
  have hmq : (0 : Rat) < (m : Rat) := by exact_mod_cast hm0
  have hq : 0 < (m : Rat) * (2 : Rat) ^ k := mul_pos hmq (two_zpow_pos k)
  obtain ⟨s1, s2, s3⟩ := f32Exp_spec _ hq
  rw [f32_of_pos hq]
  generalize f32Exp ((m : Rat) * (2 : Rat) ^ k) = E at *
  have hEk : E ≤ k := by
    rcases s3 with h | h
    · omega
    · have hm' : (m : Rat) < (2 : Rat) ^ (24 : Int) := by
        have : (m : Rat) < 16777216 := by exact_mod_cast hm
        norm_num; exact this
      have h5 : (m : Rat) * (2 : Rat) ^ k < (2 : Rat) ^ (24 + k) := by
        rw [two_zpow_add]
        exact mul_lt_mul_of_pos_right hm' (two_zpow_pos k)
      have := two_zpow_lt_imp (lt_of_le_of_lt h h5)
      omega
  have hsplit : (2 : Rat) ^ k = (2 : Rat) ^ (((k - E).toNat : Nat) : Int) * (2 : Rat) ^ E := by
    rw [← two_zpow_add]; congr 1; omega
  have hEne : (2 : Rat) ^ E ≠ 0 := ne_of_gt (two_zpow_pos E)
  have hdiv : (m : Rat) * (2 : Rat) ^ k / (2 : Rat) ^ E = ((m * (2 : Int) ^ (k - E).toNat : Int) : Rat) := by
    rw [hsplit, two_zpow_nat, ← mul_assoc, mul_div_assoc, div_self hEne]
    push_cast
    ring
  rw [hdiv, rhe_int, hsplit, two_zpow_nat]
  push_cast
  ring

/-- **`f32` is exact on dyadic rationals with at most 24 significant bits**, down to the subnormal
exponent: `m·2^k` with `|m| ≤ 2^24` and `k ≥ −149` (the model has no overflow) -/
theorem f32_exact_dyadic' (m k : Int) (hm : -16777216 ≤ m ∧ m ≤ 16777216) (hk : -149 ≤ k) :
    f32 ((m : Rat) * (2 : Rat) ^ k) = (m : Rat) * (2 : Rat) ^ k := by
  have top : f32 (((16777216 : Int) : Rat) * (2 : Rat) ^ k) = ((16777216 : Int) : Rat) * (2 : Rat) ^ k := by
    have e : ((16777216 : Int) : Rat) * (2 : Rat) ^ k = ((1 : Int) : Rat) * (2 : Rat) ^ (24 + k) := by
      rw [two_zpow_add]; norm_num
    rw [e]
    exact f32_exact_pos 1 (24 + k) (by norm_num) (by norm_num) (by omega)
  have pos : ∀ m : Int, 0 < m → m ≤ 16777216 → f32 ((m : Rat) * (2 : Rat) ^ k) = (m : Rat) * (2 : Rat) ^ k := by
    intro m h0 h1
    rcases eq_or_lt_of_le h1 with h | h
    · rw [h]; exact top
    · exact f32_exact_pos m k h0 h hk
  rcases lt_trichotomy m 0 with h | h | h
  · have := pos (-m) (by omega) (by omega)
    have e : (m : Rat) * (2 : Rat) ^ k = -(((-m : Int) : Rat) * (2 : Rat) ^ k) := by push_cast; ring
    rw [e, f32_neg, this]
  · subst h; simp [f32_zero]
  · exact pos m h hm.2

theorem f32_exact_dyadic (m k : Int) (hm : -16777216 ≤ m ∧ m ≤ 16777216) (hk : -149 ≤ k) :
    f32 ((m : Rat) * pow2 k) = (m : Rat) * pow2 k := by
  rw [pow2_eq]
  exact f32_exact_dyadic' m k hm hk

/-- **`f32` is exact on the integers `|v| ≤ 2^24`** -/
theorem f32_exact_int (v : Int) (hv : -16777216 ≤ v ∧ v ≤ 16777216) : f32 (v : Rat) = (v : Rat) := by
  have := f32_exact_dyadic' v 0 hv (by norm_num)
  simpa using this

theorem f32_one : f32 1 = 1 := by
  have := f32_exact_int 1 (by norm_num)
  simpa using this

end ColoVerif.NetTopology.F32

namespace ColoVerif.NetTopology
open ColoVerif.Legalize

theorem toFloat_exact (v : Int) (h : SmallInt v) : toFloat v = (v : Rat) :=
  F32.f32_exact_int v h

theorem f32_half_exact (m : Int) (h : SmallInt m) :
    f32 ((1 / 2 : Rat) * (m : Rat)) = (1 / 2 : Rat) * (m : Rat) := by
  have := F32.f32_exact_dyadic' m (-1) h (by norm_num)
  have e : (m : Rat) * (2 : Rat) ^ (-1 : Int) = (1 / 2 : Rat) * (m : Rat) := by
    rw [zpow_neg, zpow_one]; ring
  rw [e] at this
  exact this

/-- Below 2^24 the offset to the cell centre is the exact `offset − ½ size`. -/
theorem movablePin_exact (a : Axis) (c : Circuit) (p : ColoVerif.Pin)
    (ho : SmallInt (pinOffset a (c.cell p.cell) p)) (hs : SmallInt (placedSize a (c.cell p.cell)))
    (hd : SmallInt (2 * pinOffset a (c.cell p.cell) p - placedSize a (c.cell p.cell))) :
    movablePin a c p = ((p.cell : Int),
        ((pinOffset a (c.cell p.cell) p : Int) : Rat) - (1 / 2 : Rat) * ((placedSize a (c.cell p.cell) : Int) : Rat)) := by
  unfold movablePin
  rw [toFloat_exact _ ho, toFloat_exact _ hs, f32_half_exact _ hs]
  have e : ((pinOffset a (c.cell p.cell) p : Int) : Rat) - (1 / 2 : Rat) * ((placedSize a (c.cell p.cell) : Int) : Rat)
      = (1 / 2 : Rat) * ((2 * pinOffset a (c.cell p.cell) p - placedSize a (c.cell p.cell) : Int) : Rat) := by
    push_cast; ring
  rw [e, f32_half_exact _ hd]

theorem fixedPos_exact (a : Axis) (c : Circuit) (p : ColoVerif.Pin)
    (hp : SmallInt (cellPos a (c.cell p.cell) + pinOffset a (c.cell p.cell) p)) :
    fixedPos a c p = ((cellPos a (c.cell p.cell) + pinOffset a (c.cell p.cell) p : Int) : Rat) :=
  toFloat_exact _ hp

end ColoVerif.NetTopology
