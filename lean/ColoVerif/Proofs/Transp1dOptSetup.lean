import ColoVerif.Proofs.Transp1dOptSetupB
/-
The prelude of `push i` (`updateOptimalSink`, `pushNewSourceEvents`, the `max` on `lastPosition`,
`pushNewSinkEvents`) turns the between-pushes invariant `SweepInv` into the loop invariant `LoopInv`.
-/
namespace ColoVerif.Transp1d

theorem list_cases (l : List Int) : l = [] ∨ ∃ p rest, l = p :: rest := by
  cases l with
  | nil => exact Or.inl rfl
  | cons p rest => exact Or.inr ⟨p, rest, rfl⟩

theorem lamU_zero_of_head (sv : Solver) (pRev : List Int) (x : Int)
    (h : ∀ y, pRev.head? = some y → y < x) : lamU sv pRev x = 0 := by
  cases pRev with
  | nil => rfl
  | cons p rest =>
    have := h p rfl
    simp only [lamU]
    rw [if_neg (by omega)]

theorem lamRj_zero_of_head (sv : Solver) (pRev : List Int) (x : Int) (j : Nat)
    (h : ∀ y, pRev.head? = some y → y < x) : lamRj sv pRev x j = 0 := by
  cases pRev with
  | nil => rfl
  | cons p rest =>
    have := h p rfl
    cases j with
    | zero => rfl
    | succ j =>
      simp only [lamRj]
      rw [if_neg (by omega)]

/-- what is known about the state at the entry of the `while` loop of `push` (`L`, `J`, `o`, `ev2`
are its `lastPosition`, `lastOcc`, `optSink`, `events`); `src x` is the slope added at `x` by the
new-source events -/
structure SetupHyp (sv : Solver) (st : St) (o : Nat) (ev2 : List Event) (src : Int → Int)
    (L : Int) (J : Nat) : Prop where
  sd : SwDom sv
  sw : SweepInv sv st
  hi : st.pRev.length < sv.u.length
  opt : OptOk sv st.pRev.length o
  eL : L = max st.lastPosition (sv.D.getD o 0 - sv.S.getD st.pRev.length 0)
  eJ : J = max st.lastOcc o
  sorted : SortedEv ev2
  le : ∀ e ∈ ev2, e.1 ≤ L
  src0 : ∀ x, 0 < x → 0 ≤ src x
  srcA : ∀ x x', 0 < x → x ≤ x' → src x' ≤ src x
  srcZ : ∀ x, 0 < x → st.lastPosition < x → src x = 0
  srcL : ∀ p rest, st.pRev = p :: rest → ∀ x, 0 < x → x ≤ st.lastPosition →
    src x = (cs sv st.pRev.length (sigL sv (sv.S.getD st.pRev.length 0 + x))
        - cs sv rest.length (sigL sv (sv.S.getD st.pRev.length 0 + x)))
      - (cs sv st.pRev.length st.lastOcc - cs sv rest.length st.lastOcc)
  ev : ∀ x, 0 < x → evS ev2 x = evS st.events x + src x + snkS sv st.pRev.length st.lastOcc o L x

section
variable {sv : Solver} {st : St} {o : Nat} {ev2 : List Event} {src : Int → Int} {L : Int} {J : Nat}

/-- the two cases: (G) the optimal sink is beyond the last occupied one, (T) it is not -/
theorem SetupHyp.cases (h : SetupHyp sv st o ev2 src L J) :
    (st.lastOcc < o ∧ J = o ∧ L = sv.D.getD o 0 - sv.S.getD st.pRev.length 0 ∧ st.lastPosition ≤ L) ∨
    (o ≤ st.lastOcc ∧ J = st.lastOcc ∧ L = st.lastPosition ∧
      sv.D.getD o 0 ≤ sv.S.getD st.pRev.length 0 + st.lastPosition) := by
  have eL := h.eL
  have eJ := h.eJ
  have h1 := h.sw.hJ
  have h2 := h.sw.fit
  have ho := h.opt.lt
  by_cases c : st.lastOcc < o
  · left
    have := h.sd.dom.Dmono (st.lastOcc + 1) o (by omega) (by omega)
    omega
  · right
    have := h.sd.dom.Dmono o st.lastOcc (by omega) (by have := h.sw.inv.occ; omega)
    omega

/-- the geometry of the entry state -/
theorem SetupHyp.geo (h : SetupHyp sv st o ev2 src L J) :
    0 ≤ st.lastPosition ∧ st.lastPosition ≤ L ∧ st.lastOcc ≤ J ∧ o ≤ J ∧ J < sv.v.length ∧
    sv.S.getD st.pRev.length 0 + L ≤ sv.D.getD (J + 1) 0 ∧
    sv.D.getD J 0 - sv.S.getD (st.pRev.length + 1) 0 ≤ L ∧
    sv.D.getD o 0 ≤ sv.S.getD st.pRev.length 0 + L ∧ 0 ≤ sv.S.getD st.pRev.length 0 := by
  have h0 := h.sw.inv.pos
  have h1 := h.sw.hJ
  have h2 := h.sw.fit
  have ho := h.opt.lt
  have hocc := h.sw.inv.occ
  have hS := sw_Slt sv h.sd st.pRev.length h.hi
  have hS0 := sw_Snn sv h.sd st.pRev.length (by have := h.hi; omega)
  have hD := h.sd.dom.Dmono o (o + 1) (by omega) (by omega)
  rcases h.cases with ⟨c1, c2, c3, c4⟩ | ⟨c1, c2, c3, c4⟩
  · subst c2; refine ⟨h0, c4, by omega, by omega, ho, by omega, by omega, by omega, hS0⟩
  · subst c2; refine ⟨h0, by omega, by omega, by omega, hocc, by omega, by omega, by omega, hS0⟩

theorem SetupHyp.old_zero (h : SetupHyp sv st o ev2 src L J) (x : Int) (hx : st.lastPosition < x) :
    evS st.events x = 0 :=
  evS_zero _ _ (fun e he => by have := h.sw.ei.le e he; omega)

theorem SetupHyp.old_nonneg (h : SetupHyp sv st o ev2 src L J) (x : Int) (hx : 0 < x) :
    0 ≤ evS st.events x := by
  by_cases c : st.lastPosition < x
  · rw [h.old_zero x c]
  · have h1 := h.sw.mono.mono x st.lastPosition hx (by omega) (Int.le_refl _)
    have h2 := h.sw.mono.nn (by omega)
    omega

theorem SetupHyp.old_anti (h : SetupHyp sv st o ev2 src L J) (x x' : Int) (hx : 0 < x) (hxx : x ≤ x') :
    evS st.events x' ≤ evS st.events x := by
  by_cases c : st.lastPosition < x'
  · rw [h.old_zero x' c]; exact h.old_nonneg x hx
  · exact h.sw.mono.mono x x' hx hxx (by omega)

theorem SetupHyp.snk_step (h : SetupHyp sv st o ev2 src L J) :
    ∀ l, st.lastOcc ≤ l → l < o → cs sv st.pRev.length (l + 1) ≤ cs sv st.pRev.length l :=
  fun l _ hl => h.opt.left st.pRev.length (Nat.le_refl _) h.hi l (l + 1) (by omega) (by omega)

theorem SetupHyp.new_nonneg (h : SetupHyp sv st o ev2 src L J) (x : Int) (hx : 0 < x) :
    0 ≤ evS ev2 x := by
  rw [h.ev x hx]
  have h1 := h.old_nonneg x hx
  have h2 := h.src0 x hx
  have h3 := snkS_nonneg sv st.pRev.length st.lastOcc o L x h.snk_step
  omega

theorem SetupHyp.new_anti (h : SetupHyp sv st o ev2 src L J) (x x' : Int) (hx : 0 < x) (hxx : x ≤ x') :
    evS ev2 x' ≤ evS ev2 x := by
  rw [h.ev x hx, h.ev x' (by omega)]
  have h1 := h.old_anti x x' hx hxx
  have h2 := h.srcA x x' hx hxx
  have h3 := snkS_anti sv st.pRev.length st.lastOcc o L x x' hxx h.snk_step
  omega

/-- the head of the recorded positions is `lastPosition`; without recorded positions it is `0` -/
theorem SetupHyp.head_lt (h : SetupHyp sv st o ev2 src L J) (x : Int) (hx : 0 < x)
    (hh : ∀ y, st.pRev.head? = some y → y < x) : st.lastPosition < x := by
  cases hp : st.pRev with
  | nil => have := (h.sw.init hp).1; omega
  | cons p rest =>
    have h1 := hh p (by rw [hp]; rfl)
    have h2 := h.sw.head p (by rw [hp]; rfl)
    omega

theorem SetupHyp.lt_head (h : SetupHyp sv st o ev2 src L J) (x : Int) (hx : st.lastPosition < x) :
    ∀ y, st.pRev.head? = some y → y < x := by
  intro y hy
  have := h.sw.head y hy
  omega

theorem SetupHyp.iev (h : SetupHyp sv st o ev2 src L J) (x : Int) (hx : 0 < x) (hxL : x ≤ L) :
    evS ev2 x = cs sv st.pRev.length (sigL sv (sv.S.getD st.pRev.length 0 + x))
      - cs sv st.pRev.length J + lamU sv st.pRev x := by
  obtain ⟨g1, g2, g3, g4, g5, g6, g7, g8, g9⟩ := h.geo
  have hocc := h.sw.inv.occ
  have hfit := h.sw.fit
  have hJ0 := h.sw.hJ
  have eJ := h.eJ
  obtain ⟨k1, k2, k3, k4⟩ := sigL_le_of sv h.sd (sv.S.getD st.pRev.length 0 + x) J g5 (by omega) (by omega)
  rw [h.ev x hx]
  by_cases c : x ≤ st.lastPosition
  · obtain ⟨m1, _, _, _⟩ := sigL_le_of sv h.sd (sv.S.getD st.pRev.length 0 + x) st.lastOcc hocc
      (by omega) (by omega)
    have hsnk := snkS_closed sv h.sd st.pRev.length st.lastOcc o h.opt.lt L x hxL _ k2 k3 k4
      (fun hc => by rcases h.cases with ⟨_, _, c3, _⟩ | ⟨c1, _, _, _⟩ <;> omega) (fun _ => m1)
    have e1 : max st.lastOcc (sigL sv (sv.S.getD st.pRev.length 0 + x)) = st.lastOcc := by omega
    rw [e1, ← eJ] at hsnk
    rcases list_cases st.pRev with hp | ⟨p, rest, hp⟩
    · have := (h.sw.init hp).1; omega
    · have hlen : st.pRev.length = rest.length + 1 := by rw [hp]; rfl
      have hp' : p = st.lastPosition := h.sw.head p (by rw [hp]; rfl)
      have hold := h.sw.iev p rest hp x hx c
      have hsrc := h.srcL p rest hp x hx c
      have hlam : lamU sv st.pRev x = tL sv rest.length x + lamU sv rest x := by
        rw [hp]
        simp only [lamU]
        rw [if_pos (by omega)]
      rw [hsnk, hold, hsrc, hlam]
      simp only [tL]
      rw [← hlen]
      omega
  · have m1 := le_sigL_of sv h.sd (sv.S.getD st.pRev.length 0 + x) st.lastOcc (by omega)
      (by have := h.sd.dom.Dmono (J + 1) sv.v.length (by omega) (Nat.le_refl _); omega) (by omega)
    have hsnk := snkS_closed sv h.sd st.pRev.length st.lastOcc o h.opt.lt L x hxL _ k2 k3 k4
      (fun hc => by rcases h.cases with ⟨_, _, c3, _⟩ | ⟨c1, _, _, _⟩ <;> omega)
      (fun hc => by rcases h.cases with ⟨c1, _, _, _⟩ | ⟨_, _, c3, _⟩ <;> omega)
    have e1 : max st.lastOcc (sigL sv (sv.S.getD st.pRev.length 0 + x))
        = sigL sv (sv.S.getD st.pRev.length 0 + x) := by omega
    rw [e1, ← eJ] at hsnk
    rw [hsnk, h.old_zero x (by omega), h.srcZ x hx (by omega),
      lamU_zero_of_head sv st.pRev x (h.lt_head x (by omega))]
    omega

/-- `o ≤ sigR lo ≤ T` gives the "right side" of the invariant at the entry of the loop -/
theorem SetupHyp.right_start (h : SetupHyp sv st o ev2 src L J) (T : Nat) (hT : T < sv.v.length)
    (hlt : sv.S.getD st.pRev.length 0 + L < sv.D.getD sv.v.length 0)
    (hr : sigR sv (sv.S.getD st.pRev.length 0 + L) ≤ T) (j : Nat) :
    0 ≤ cs sv st.pRev.length T - cs sv st.pRev.length (sigR sv (sv.S.getD st.pRev.length 0 + L))
      + lamRj sv st.pRev L j := by
  obtain ⟨g1, g2, g3, g4, g5, g6, g7, g8, g9⟩ := h.geo
  obtain ⟨k1, k2, k3⟩ := sigR_spec sv h.sd.dom.Dmono (sv.S.getD st.pRev.length 0 + L)
    (by rw [sw_D0 sv h.sd]; omega) hlt
  have hor : o ≤ sigR sv (sv.S.getD st.pRev.length 0 + L) := by
    by_cases c : o ≤ sigR sv (sv.S.getD st.pRev.length 0 + L)
    · exact c
    · have := h.sd.dom.Dmono (sigR sv (sv.S.getD st.pRev.length 0 + L) + 1) o (by omega)
        (by have := h.opt.lt; omega)
      omega
  have hc := h.opt.right _ T hor hr hT
  have hlam : 0 ≤ lamRj sv st.pRev L j := by
    by_cases c : st.lastPosition < L
    · rw [lamRj_zero_of_head sv st.pRev L j (h.lt_head L c)]
    · have eLL : L = st.lastPosition := by omega
      rcases list_cases st.pRev with hp | ⟨p, rest, hp⟩
      · rw [hp]; exact Int.le_refl _
      · have hlen : st.pRev.length = rest.length + 1 := by rw [hp]; rfl
        have hp' : p = st.lastPosition := h.sw.head p (by rw [hp]; rfl)
        have hf : Facts sv (p :: rest) := hp ▸ h.sw.facts
        have := hf.1.f3 (by rw [← hlen]; omega) j
        rw [hp, eLL, ← hp']
        exact this
  omega

theorem SetupHyp.loopInv (h : SetupHyp sv st o ev2 src L J) :
    LoopInv sv st.pRev.length ⟨st.pRev, ev2, L, J, o⟩ := by
  obtain ⟨g1, g2, g3, g4, g5, g6, g7, g8, g9⟩ := h.geo
  have hS := sw_Slt sv h.sd st.pRev.length h.hi
  refine ⟨rfl, h.hi, g5, by simp only; omega, ⟨h.sorted, h.le⟩, g7, g6, h.opt, g4, ?_, ?_, ?_, ?_, ?_,
    ?_, h.sw.facts⟩
  · exact fun x hx hxL => h.iev x hx hxL
  · exact ⟨fun x x' hx hxx _ => h.new_anti x x' hx hxx, fun hL => h.new_nonneg L hL⟩
  · intro t ht ht' x hx hxL
    have h1 := h.new_nonneg x hx
    have h2 := h.opt.right t J ht ht' g5
    simp only
    omega
  · intro hJ1 hge j
    simp only at hJ1 hge ⊢
    have hlt := sw_Dlt sv h.sd (J + 1) sv.v.length hJ1 (Nat.le_refl _)
    have hlt' : sv.S.getD st.pRev.length 0 + L < sv.D.getD sv.v.length 0 := by omega
    obtain ⟨k1, k2, k3⟩ := sigR_spec sv h.sd.dom.Dmono (sv.S.getD st.pRev.length 0 + L)
      (by rw [sw_D0 sv h.sd]; omega) hlt'
    refine h.right_start (J + 1) hJ1 hlt' ?_ j
    by_cases c : sigR sv (sv.S.getD st.pRev.length 0 + L) ≤ J + 1
    · exact c
    · have h1 := sw_Dlt sv h.sd (J + 1) (J + 2) (by omega) (by omega)
      have h2 := h.sd.dom.Dmono (J + 2) (sigR sv (sv.S.getD st.pRev.length 0 + L)) (by omega) (by omega)
      omega
  · intro hlt0 j
    simp only at hlt0 ⊢
    have hm := h.sd.dom.Dmono (J + 1) sv.v.length (by omega) (Nat.le_refl _)
    have hlt' : sv.S.getD st.pRev.length 0 + L < sv.D.getD sv.v.length 0 := by omega
    obtain ⟨k1, k2, k3⟩ := sigR_spec sv h.sd.dom.Dmono (sv.S.getD st.pRev.length 0 + L)
      (by rw [sw_D0 sv h.sd]; omega) hlt'
    refine h.right_start J g5 hlt' ?_ j
    by_cases c : sigR sv (sv.S.getD st.pRev.length 0 + L) ≤ J
    · exact c
    · have h2 := h.sd.dom.Dmono (J + 1) (sigR sv (sv.S.getD st.pRev.length 0 + L)) (by omega) (by omega)
      omega
  · intro x hx hxL hh
    simp only at hxL hh ⊢
    have := h.head_lt x hx hh
    rcases h.cases with ⟨_, _, c3, _⟩ | ⟨_, _, c3, _⟩ <;> omega

end

/-- the slopes added by `pushNewSourceEvents` satisfy what `SetupHyp` asks of `src` -/
theorem setup_src (sv : Solver) (sd : SwDom sv) (st : St) (sw : SweepInv sv st)
    (hi : st.pRev.length < sv.u.length) (o : Nat) (st1 : St)
    (e2 : pushNewSourceEvents sv st.pRev.length { st with optSink := o } = .ok st1)
    (src : Int → Int) (hsrc : ∀ x, src x = evS st1.events x - evS st.events x) :
    (∀ x, 0 < x → 0 ≤ src x) ∧ (∀ x x', 0 < x → x ≤ x' → src x' ≤ src x) ∧
    (∀ x, 0 < x → st.lastPosition < x → src x = 0) ∧
    (∀ p rest, st.pRev = p :: rest → ∀ x, 0 < x → x ≤ st.lastPosition →
      src x = (cs sv st.pRev.length (sigL sv (sv.S.getD st.pRev.length 0 + x))
          - cs sv rest.length (sigL sv (sv.S.getD st.pRev.length 0 + x)))
        - (cs sv st.pRev.length st.lastOcc - cs sv rest.length st.lastOcc)) := by
  have wf := sd.dom.wf
  have hocc := sw.inv.occ
  rcases list_cases st.pRev with hp | ⟨p, rest, hp⟩
  · have hlen : st.pRev.length = 0 := by rw [hp]; rfl
    rw [hlen, pushNewSourceEvents_zero] at e2
    injection e2 with e2
    have hev : st1.events = st.events := by rw [← e2]
    have hz : ∀ x, src x = 0 := by
      intro x
      rw [hsrc x, hev]
      omega
    refine ⟨fun x _ => by rw [hz x], fun x x' _ _ => by rw [hz x, hz x'],
      fun x _ _ => hz x, fun p rest hp' => by rw [hp] at hp'; cases hp'⟩
  · have hlen : st.pRev.length = rest.length + 1 := by rw [hp]; rfl
    have ha : rest.length + 1 < sv.u.length := by omega
    rw [hlen] at e2
    have hS : ∀ x, 0 < x → src x = srcS sv rest.length st.lastOcc x := by
      intro x hx
      have h1 : evS st1.events x = evS st.events x + srcS sv rest.length st.lastOcc x :=
        pushNewSourceEvents_evS sv wf rest.length ha { st with optSink := o } st1 hocc e2 x hx
      rw [hsrc x]
      omega
    have hJ := sw.hJ
    have hfit := sw.fit
    rw [hlen] at hJ hfit
    refine ⟨fun x hx => by rw [hS x hx]; exact srcS_nonneg sv sd _ _ ha hocc x,
      fun x x' hx hxx => by
        rw [hS x hx, hS x' (by omega)]; exact srcS_anti sv sd _ _ ha hocc x x' hxx,
      fun x hx hL => by
        rw [hS x hx]; exact srcS_zero sv sd _ _ ha hocc x (by omega), ?_⟩
    intro p' rest' hp' x hx hL
    rw [hp] at hp'
    injection hp' with _ hr
    subst hr
    rw [hS x hx, hlen]
    exact srcS_le sv sd _ _ ha hocc x hx (by omega)

theorem push_setup (sv : Solver) (sd : SwDom sv) (st : St) (sw : SweepInv sv st)
    (hi : st.pRev.length < sv.u.length) :
    ∃ st2, LoopInv sv st.pRev.length st2 ∧
      push sv st.pRev.length st = (pushLoop sv st.pRev.length (loopFuel sv st2) st2).bind
        (fun st3 => .ok { st3 with pRev := st3.lastPosition :: st3.pRev }) := by
  have wf := sd.dom.wf
  have inv := sw.inv
  obtain ⟨o, e1, ho, _, hdec, hstop⟩ := updOpt_spec sv st.pRev.length hi sv.nbSinks st.optSink inv.opt
    (by unfold Solver.nbSinks; omega)
  have opt := setup_opt sv sd st sw hi o ho hdec hstop
  obtain ⟨st1, e2, ei1, k1, k2, k3, k4⟩ :=
    pushNewSourceEvents_spec sv sd.dom st.pRev.length hi { st with optSink := o } inv.occ
      ⟨sw.ei.sorted, sw.ei.le⟩ sw.hJ
  have k1' : st1.pRev = st.pRev := k1
  have k2' : st1.lastOcc = st.lastOcc := k2
  have k4' : st1.lastPosition = st.lastPosition := k4
  have ei1' : EvInv { st1 with lastPosition := max st1.lastPosition (sv.D.getD o 0 - sv.S.getD st.pRev.length 0) } :=
    ⟨ei1.sorted, fun e he => Int.le_trans (ei1.le e he) (Int.le_max_left _ _)⟩
  obtain ⟨st2, e3, ei2, l1, l2, l3, l4, _, _⟩ := pushNewSinkEvents_spec sv wf st.pRev.length o hi ho
    { st1 with lastPosition := max st1.lastPosition (sv.D.getD o 0 - sv.S.getD st.pRev.length 0) }
    (by show st1.lastOcc < sv.v.length; rw [k2']; exact inv.occ) ei1'
  have l1' : st2.lastPosition = max st.lastPosition (sv.D.getD o 0 - sv.S.getD st.pRev.length 0) := by
    rw [← k4']; exact l1
  have l2' : st2.pRev = st.pRev := l2.trans k1'
  have l3' : st2.optSink = o := l3.trans k3
  have l4' : st2.lastOcc = max st.lastOcc o := by rw [← k2']; exact l4
  refine ⟨st2, ?_, ?_⟩
  · obtain ⟨src, hsrc⟩ : ∃ src : Int → Int, ∀ x, src x = evS st1.events x - evS st.events x :=
      ⟨_, fun x => rfl⟩
    obtain ⟨s1, s2, s3, s4⟩ := setup_src sv sd st sw hi o st1 e2 src hsrc
    have hyp : SetupHyp sv st o st2.events src st2.lastPosition st2.lastOcc := by
      refine ⟨sd, sw, hi, opt, l1', l4', ei2.sorted, ei2.le, s1, s2, s3, s4, ?_⟩
      intro x hx
      have hs : evS st2.events x = evS st1.events x + snkS sv st.pRev.length st1.lastOcc o
          (max st1.lastPosition (sv.D.getD o 0 - sv.S.getD st.pRev.length 0)) x :=
        pushNewSinkEvents_evS sv wf st.pRev.length o hi ho _ st2 e3 x hx
      rw [k2', k4', ← l1'] at hs
      rw [hs, hsrc x]
      omega
    have e : st2 = ⟨st.pRev, st2.events, st2.lastPosition, st2.lastOcc, o⟩ := by
      rw [← l2', ← l3']
    rw [e]
    exact hyp.loopInv
  · unfold push
    simp only [e1, e2, get_ok' sv.D o (by have := wf.hD; omega),
      get_ok' sv.S st.pRev.length (by have := wf.hS; omega), e3, bind, Except.bind]
    cases pushLoop sv st.pRev.length (loopFuel sv st2) st2 <;> rfl

end ColoVerif.Transp1d
