import ColoVerif.Model.Grid
/-
Specification vocabulary for the C16 theorems (predicates only, core Lean).
-/
namespace ColoVerif.Grid

/-- a rectangle with `min ≤ max` on both axes -/
def RectValid (r : Rect) : Prop := r.minX ≤ r.maxX ∧ r.minY ≤ r.maxY

/-- geometric area of the intersection of two rectangles (0 when they do not meet) -/
def overlap (a b : Rect) : Int :=
  max 0 (min a.maxX b.maxX - max a.minX b.minX) * max 0 (min a.maxY b.maxY - max a.minY b.minY)

/-- `r` lies inside the area spanned by the limit vectors -/
def InsideLimits (limX limY : List Int) (r : Rect) : Prop :=
  limX.headD 0 ≤ r.minX ∧ r.maxX ≤ limX.getLastD 0 ∧ limY.headD 0 ≤ r.minY ∧ r.maxY ≤ limY.getLastD 0

/-- What `refineX`/`coarsenX` rely on for the parent vector of one level (`m` = number of bins of the
coarser level): children are listed parent after parent, every parent has at least one child. -/
structure ParOk (par : List Nat) (m : Nat) : Prop where
  pos : 0 < par.length
  first : par.getD 0 0 = 0
  last : par.getD (par.length - 1) 0 + 1 = m
  step : ∀ i, i + 1 < par.length →
    par.getD (i + 1) 0 = par.getD i 0 ∨ par.getD (i + 1) 0 = par.getD i 0 + 1

/-- Well-formedness of a hierarchy over `n` fine bins (`HierarchicalDensityPlacement::check()`, first
part, plus the parent/limit consistency the code relies on). -/
structure HierOk (h : Hier) (n : Nat) : Prop where
  len : h.parents.length = h.limits.length
  pos : 0 < h.limits.length
  /-- every level: limits strictly increase from 0 to `n` -/
  head : ∀ lvl, lvl < h.nbLevels → (h.lim lvl).head? = some 0
  last : ∀ lvl, lvl < h.nbLevels → (h.lim lvl).getLast? = some n
  incr : ∀ lvl, lvl < h.nbLevels → (h.lim lvl).Pairwise (· < ·)
  sizes : ∀ lvl, lvl < h.nbLevels → (h.par lvl).length + 1 = (h.lim lvl).length
  /-- the coarsest level is the single bin, the finest level is the grid itself -/
  top : h.lim (h.nbLevels - 1) = [0, n]
  finest : h.lim 0 = List.range (n + 1)
  /-- parents are consistent -/
  parOk : ∀ lvl, lvl + 1 < h.nbLevels → ParOk (h.par lvl) (h.nbBins (lvl + 1))
  /-- each level refines the next: a bin lies inside its parent -/
  nested : ∀ lvl x, lvl + 1 < h.nbLevels → x < h.nbBins lvl →
    (h.lim (lvl + 1)).getD (h.parent lvl x) 0 ≤ (h.lim lvl).getD x 0 ∧
    (h.lim lvl).getD (x + 1) 0 ≤ (h.lim (lvl + 1)).getD (h.parent lvl x + 1) 0
  /-- the children of a bin tile it: the first child starts where the parent starts, the last child ends
  where the parent ends -/
  firstStart : ∀ lvl x, lvl + 1 < h.nbLevels → x < h.nbBins lvl → HState.firstChild (h.par lvl) x = true →
    (h.lim lvl).getD x 0 = (h.lim (lvl + 1)).getD (h.parent lvl x) 0
  lastEnd : ∀ lvl x, lvl + 1 < h.nbLevels → x < h.nbBins lvl →
    (x + 1 = h.nbBins lvl ∨ h.parent lvl (x + 1) ≠ h.parent lvl x) →
    (h.lim lvl).getD (x + 1) 0 = (h.lim (lvl + 1)).getD (h.parent lvl x + 1) 0

/-- The allocation invariant (`HierarchicalDensityPlacement::check()`, "all cells placed once and
consistent"). -/
structure AllocInv (s : HState) : Prop where
  /-- the table has the shape of the current view -/
  shapeX : s.bins.length = s.nbX
  shapeY : ∀ i, i < s.nbX → (s.bins.getD i []).length = s.nbY
  /-- levels are valid -/
  lvlX : s.levelX < s.hx.nbLevels
  lvlY : s.levelY < s.hy.nbLevels
  /-- no cell twice in a bin, no cell in two bins -/
  nodup : ∀ i j, (s.cells i j).Nodup
  disjoint : ∀ i j i' j' c, c ∈ s.cells i j → c ∈ s.cells i' j' → i = i' ∧ j = j'
  /-- exactly the positive-demand cells are allocated -/
  covers : ∀ c, (c < s.nbCells ∧ s.cellDemand c > 0) ↔ ∃ i j, c ∈ s.cells i j
  /-- `cellBinX_/cellBinY_` agree with `binCells_`; `-1` for unallocated cells -/
  cbLen : s.cbx.length = s.nbCells ∧ s.cby.length = s.nbCells
  agree : ∀ i j c, c ∈ s.cells i j → s.cbx.getD c (-1) = (i : Int) ∧ s.cby.getD c (-1) = (j : Int)
  none : ∀ c, (∀ i j, c ∉ s.cells i j) → s.cbx.getD c (-1) = -1 ∧ s.cby.getD c (-1) = -1

end ColoVerif.Grid
