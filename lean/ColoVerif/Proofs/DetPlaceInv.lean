import ColoVerif.Model.DetPlace
/-
Invariant preservation for the primitives of `DetPlace` (helper lemmas for Properties/C02, C05).
The pointer surgery of `place` / `unplace` is covered, not abstracted: every lemma is about the
concrete doubly linked representation.
-/
namespace ColoVerif.DetPlace
open State

theorem Inv.link {s : State} (h : Inv s) {c : Int} (hc : s.validCell c) : LinkOk s c := by
  have := h.linksOk c.toNat (by unfold validCell at hc; omega)
  have e : (c.toNat : Int) = c := by unfold validCell at hc; omega
  rwa [e] at this
theorem Inv.cell {s : State} (h : Inv s) {c : Int} (hc : s.validCell c) : CellOk s c := by
  have := h.cellsOk c.toNat (by unfold validCell at hc; omega)
  have e : (c.toNat : Int) = c := by unfold validCell at hc; omega
  rwa [e] at this
theorem Inv.rowok {s : State} (h : Inv s) {r : Int} (hr : s.validRow r) : RowOk s r := by
  have := h.rowsOk r.toNat (by unfold validRow at hr; omega)
  have e : (r.toNat : Int) = r := by unfold validRow at hr; omega
  rwa [e] at this
theorem Inv.mk' {s : State} (h1 : ∀ r : Int, s.validRow r → RowOk s r) (h2 : ∀ c : Int, s.validCell c → LinkOk s c)
    (h3 : ∀ c : Int, s.validCell c → CellOk s c) : Inv s :=
  ⟨fun r hr => h1 r (by unfold validRow; omega), fun c hc => h2 c (by unfold validCell; omega),
   fun c hc => h3 c (by unfold validCell; omega)⟩

/-- a placed cell of an invariant state: its row is valid, its width positive -/
theorem Inv.placed_row {s : State} (h : Inv s) {c : Int} (hc : s.validCell c) (hp : s.row c ≠ -1) :
    s.validRow (s.row c) := by
  have := h.link hc; unfold LinkOk at this; unfold validRow; omega
theorem Inv.placed_width {s : State} (h : Inv s) {c : Int} (hc : s.validCell c) (hp : s.row c ≠ -1) :
    0 < s.width c := by
  have := h.cell hc; unfold CellOk at this; exact (this.1 (this.2 hp).1).2

/-! ### unplace -/

theorem unplace_link {s : State} (h : Inv s) {c : Int} (hc : s.validCell c) (hp : s.row c ≠ -1)
    (d : Int) (hd : s.validCell d) : LinkOk (s.unplace c) d := by
  have Ld := h.link hd
  have Lc := h.link hc
  have wc : 0 < s.width c := h.placed_width hc hp
  have Rc := h.rowok (h.placed_row hc hp)
  have Lp : s.pred c ≠ -1 → LinkOk s (s.pred c) := fun hh => h.link (by unfold LinkOk at Lc; exact (Lc.2.2 hp).1 hh |>.1)
  have Ln : s.next c ≠ -1 → LinkOk s (s.next c) := fun hh => h.link (by unfold LinkOk at Lc; exact (Lc.2.2 hp).2.2.1 hh |>.1)
  clear h
  have e2 : ∀ r, (s.unplace c).rowMinX r = s.rowMinX r := fun _ => rfl
  have e3 : ∀ r, (s.unplace c).rowMaxX r = s.rowMaxX r := fun _ => rfl
  have e1 : (s.unplace c).nRows = s.nRows := rfl
  by_cases hdc : d = c
  · subst hdc
    unfold LinkOk RowOk validCell at *
    simp only [e1, e2, e3]
    simp only [unplace, upd, updIf] at *
    grind (splits := 20)
  · by_cases hdp : d = s.pred c
    · unfold LinkOk RowOk validCell at *
      simp only [e1, e2, e3]
      simp only [unplace, upd, updIf] at *
      grind (splits := 20)
    · by_cases hdn : d = s.next c
      · unfold LinkOk RowOk validCell at *
        simp only [e1, e2, e3]
        simp only [unplace, upd, updIf] at *
        grind (splits := 20)
      · unfold LinkOk RowOk validCell at *
        simp only [e1, e2, e3]
        simp only [unplace, upd, updIf] at *
        grind (splits := 20)

theorem unplace_rowok {s : State} (h : Inv s) {c : Int} (hc : s.validCell c) (hp : s.row c ≠ -1)
    (r : Int) (hr : s.validRow r) : RowOk (s.unplace c) r := by
  have Rr := h.rowok hr
  have Lc := h.link hc
  have wc : 0 < s.width c := h.placed_width hc hp
  have Rc := h.rowok (h.placed_row hc hp)
  have Lp : s.pred c ≠ -1 → LinkOk s (s.pred c) := fun hh => h.link (by unfold LinkOk at Lc; exact (Lc.2.2 hp).1 hh |>.1)
  have Ln : s.next c ≠ -1 → LinkOk s (s.next c) := fun hh => h.link (by unfold LinkOk at Lc; exact (Lc.2.2 hp).2.2.1 hh |>.1)
  have Lf : s.rowFirst r ≠ -1 → LinkOk s (s.rowFirst r) := fun hh => h.link (by unfold RowOk at Rr; exact (Rr.2 hh).1)
  have Ll : s.rowFirst r ≠ -1 → LinkOk s (s.rowLast r) := fun hh => h.link (by unfold RowOk at Rr; exact (Rr.2 hh).2.1)
  clear h
  by_cases hrc : r = s.row c
  · subst hrc
    unfold LinkOk RowOk validCell validRow at *
    simp only [unplace, upd, updIf] at *
    grind (splits := 20)
  · unfold LinkOk RowOk validCell validRow at *
    simp only [unplace, upd, updIf] at *
    grind (splits := 20)

theorem unplace_cellok {s : State} (h : Inv s) {c : Int}
    (d : Int) (hd : s.validCell d) : CellOk (s.unplace c) d := by
  have Cd := h.cell hd
  have e : ∀ r, (s.unplace c).rowOrient r = s.rowOrient r := fun _ => rfl
  have e' : ∀ r, (s.unplace c).rowY r = s.rowY r := fun _ => rfl
  unfold CellOk at *
  simp only [e, e']
  simp only [unplace, upd] at *
  grind

theorem unplace_inv {s : State} (h : Inv s) {c : Int} (hc : s.validCell c) (hp : s.row c ≠ -1) :
    Inv (s.unplace c) :=
  Inv.mk' (fun r hr => unplace_rowok h hc hp r hr) (fun d hd => unplace_link h hc hp d hd)
    (fun d hd => unplace_cellok h d hd)

/-! ### place -/

/-- what `place` needs beyond `canPlace`: the contract the optimiser respects -/
structure PlaceOk (s : State) (c r p : Int) : Prop where
  hc : s.validCell c
  unplaced : s.row c = -1
  live : s.width c ≠ -1
  hr : s.validRow r
  hp : p = -1 ∨ (s.validCell p ∧ s.row p = r)

theorem placeRaw_link {s : State} (h : Inv s) {c r p x : Int} (ok : PlaceOk s c r p)
    (hx1 : s.siteBegin r p ≤ x) (hx2 : x + s.width c ≤ s.siteEnd r p)
    (d : Int) (hd : s.validCell d) : LinkOk (s.placeRaw c r p x) d := by
  have Ld := h.link hd
  have Lc := h.link ok.hc
  have Cc := h.cell ok.hc
  have Rr := h.rowok ok.hr
  have Lp : p ≠ -1 → LinkOk s p := fun hh => h.link (by cases ok.hp with | inl e => exact absurd e hh | inr e => exact e.1)
  have hn : s.siteNext r p ≠ -1 → s.validCell (s.siteNext r p) := by
    intro hh
    by_cases hp1 : p = -1
    · have e : s.siteNext r p = s.rowFirst r := by simp [siteNext, hp1]
      rw [e] at hh ⊢
      unfold RowOk at Rr; exact (Rr.2 hh).1
    · have e : s.siteNext r p = s.next p := by simp [siteNext, hp1]
      rw [e] at hh ⊢
      have := Lp hp1
      have hpr : s.row p = r := by cases ok.hp with | inl e => exact absurd e hp1 | inr e => exact e.2
      unfold LinkOk at this
      have hr := ok.hr; unfold validRow at hr
      exact ((this.2.2 (by omega)).2.2.1 hh).1
  have Ln : s.siteNext r p ≠ -1 → LinkOk s (s.siteNext r p) := fun hh => h.link (hn hh)
  have hpp := ok.hp
  have hcc := ok.hc
  have hun := ok.unplaced
  have hrr := ok.hr
  have hlive := ok.live
  clear h ok
  have e2 : ∀ q, (s.placeRaw c r p x).rowMinX q = s.rowMinX q := fun _ => rfl
  have e3 : ∀ q, (s.placeRaw c r p x).rowMaxX q = s.rowMaxX q := fun _ => rfl
  have e1 : (s.placeRaw c r p x).nRows = s.nRows := rfl
  by_cases hdc : d = c
  · subst hdc
    unfold LinkOk RowOk CellOk validCell validRow siteBegin siteEnd at *
    simp only [e1, e2, e3]
    simp only [placeRaw, upd, updIf] at *
    unfold siteNext at *
    grind (splits := 25)
  · by_cases hdp : d = p
    · subst hdp
      unfold LinkOk RowOk CellOk validCell validRow siteBegin siteEnd at *
      simp only [e1, e2, e3]
      simp only [placeRaw, upd, updIf] at *
      unfold siteNext at *
      grind (splits := 25)
    · by_cases hdn : d = s.siteNext r p
      · unfold LinkOk RowOk CellOk validCell validRow siteBegin siteEnd at *
        simp only [e1, e2, e3]
        simp only [placeRaw, upd, updIf] at *
        unfold siteNext at *
        grind (splits := 25)
      · unfold LinkOk RowOk CellOk validCell validRow siteBegin siteEnd at *
        simp only [e1, e2, e3]
        simp only [placeRaw, upd, updIf] at *
        unfold siteNext at *
        grind (splits := 25)

theorem placeRaw_rowok {s : State} (h : Inv s) {c r p x : Int} (ok : PlaceOk s c r p)
    (q : Int) (hq : s.validRow q) : RowOk (s.placeRaw c r p x) q := by
  have Rq := h.rowok hq
  have Rr := h.rowok ok.hr
  have Lc := h.link ok.hc
  have Lp : p ≠ -1 → LinkOk s p := fun hh => h.link (by cases ok.hp with | inl e => exact absurd e hh | inr e => exact e.1)
  have Lf : s.rowFirst q ≠ -1 → LinkOk s (s.rowFirst q) := fun hh => h.link (by unfold RowOk at Rq; exact (Rq.2 hh).1)
  have Ll : s.rowFirst q ≠ -1 → LinkOk s (s.rowLast q) := fun hh => h.link (by unfold RowOk at Rq; exact (Rq.2 hh).2.1)
  have hpp := ok.hp
  have hcc := ok.hc
  have hun := ok.unplaced
  have hrr := ok.hr
  clear h ok
  by_cases hqr : q = r
  · subst hqr
    unfold LinkOk RowOk validCell validRow at *
    simp only [placeRaw, upd, updIf] at *
    unfold siteNext at *
    grind (splits := 25)
  · unfold LinkOk RowOk validCell validRow at *
    simp only [placeRaw, upd, updIf] at *
    unfold siteNext at *
    grind (splits := 25)

theorem placeRaw_cellok {s : State} (h : Inv s) {c r p x : Int} (ok : PlaceOk s c r p)
    (hal : s.isRowAllowed c r = true)
    (d : Int) (hd : s.validCell d) : CellOk (s.placeRaw c r p x) d := by
  have Cd := h.cell hd
  have Cc := h.cell ok.hc
  have hlive := ok.live
  have e : ∀ q, (s.placeRaw c r p x).rowOrient q = s.rowOrient q := fun _ => rfl
  have e' : ∀ q, (s.placeRaw c r p x).rowY q = s.rowY q := fun _ => rfl
  unfold CellOk at *
  simp only [e, e']
  unfold isRowAllowed at hal
  simp only [placeRaw, upd, placedOrient] at *
  by_cases hdc : d = c
  · subst hdc
    simp only [if_true]
    grind
  · simp only [hdc, if_false]
    exact Cd

theorem place_ok {s t : State} {c r p x : Int} (e : s.place c r p x = .ok t) :
    t = s.placeRaw c r p x ∧ s.isRowAllowed c r = true ∧ s.siteBegin r p ≤ x ∧ x + s.width c ≤ s.siteEnd r p := by
  unfold place canPlace at e
  by_cases h1 : s.isPlaced c = true
  · simp [h1] at e
  · by_cases h2 : s.isRowAllowed c r = true
    · simp only [h1, h2] at e
      by_cases h3 : x ≥ s.siteBegin r p
      · by_cases h4 : x + s.width c ≤ s.siteEnd r p
        · simp [h3, h4] at e
          exact ⟨e.symm, h2, h3, h4⟩
        · simp [h3, h4] at e
      · simp [h3] at e
    · simp [h1, h2] at e

theorem place_inv {s t : State} (h : Inv s) {c r p x : Int} (ok : PlaceOk s c r p)
    (e : s.place c r p x = .ok t) : Inv t := by
  obtain ⟨rfl, hal, h1, h2⟩ := place_ok e
  exact Inv.mk' (fun q hq => placeRaw_rowok h ok q hq) (fun d hd => placeRaw_link h ok h1 h2 d hd)
    (fun d hd => placeRaw_cellok h ok hal d hd)

/-! ### field lemmas -/

theorem unplace_row (s : State) (c d : Int) : (s.unplace c).row d = if d = c then -1 else s.row d := by
  simp [unplace, upd]
theorem placeRaw_row (s : State) (c r p x d : Int) : (s.placeRaw c r p x).row d = if d = c then r else s.row d := by
  simp [placeRaw, upd]

theorem liveCell_iff (s : State) (c : Int) : s.liveCell c = true ↔ s.validCell c ∧ s.width c ≠ -1 := by
  simp [liveCell, isIgnored]
theorem isPlaced_iff (s : State) (c : Int) : s.isPlaced c = true ↔ s.row c ≠ -1 := by
  simp [isPlaced]
theorem siteOk_iff (s : State) (r p : Int) :
    s.siteOk r p = true ↔ s.validRow r ∧ (p = -1 ∨ (s.validCell p ∧ s.row p = r)) := by
  simp [siteOk]

/-! ### insert, swap -/

theorem insert_inv {s t : State} (h : Inv s) {c r p : Int} (hl : s.liveCell c = true) (hs : s.siteOk r p = true)
    (e : s.insert c r p = .ok t) : Inv t := by
  rw [liveCell_iff] at hl
  rw [siteOk_iff] at hs
  unfold State.insert canInsert at e
  by_cases h1 : s.isPlaced c = true
  · by_cases h2 : c = p
    · subst h2; simp [h1] at e
    · have hpl : s.row c ≠ -1 := (isPlaced_iff s c).1 h1
      have h' := unplace_inv h hl.1 hpl
      have ok : PlaceOk (s.unplace c) c r p := by
        refine ⟨hl.1, by simp [unplace_row], hl.2, hs.1, ?_⟩
        cases hs.2 with
        | inl e => exact Or.inl e
        | inr e => exact Or.inr ⟨e.1, by rw [unplace_row]; simp [Ne.symm h2, e.2]⟩
      -- whatever the test says, an `.ok` result comes from `place` on the unplaced state
      split at e
      · cases e
      · cases e
      · exact place_inv h' ok e
  · simp [h1] at e

theorem bind_ok {α β : Type} {x : Except Err α} {f : α → Except Err β} {b : β} (e : x.bind f = .ok b) :
    ∃ a, x = .ok a ∧ f a = .ok b := by
  cases x with
  | error e' => simp [Except.bind] at e
  | ok a => exact ⟨a, rfl, e⟩

/-- two placements in a row on a state where both cells were unplaced -/
theorem place2_inv {s t : State} (h : Inv s) {a b ra pa xa rb pb xb : Int}
    (oka : PlaceOk s a ra pa) (hb : s.validCell b) (hbu : s.row b = -1) (hbl : s.width b ≠ -1) (hab : a ≠ b)
    (hrb : s.validRow rb) (hpb : pb = -1 ∨ (s.validCell pb ∧ (if pb = a then ra else s.row pb) = rb))
    (e : (s.place a ra pa xa).bind (fun u => u.place b rb pb xb) = .ok t) : Inv t := by
  obtain ⟨u, e1, e2⟩ := bind_ok e
  have hu := place_inv h oka e1
  obtain ⟨rfl, -⟩ := place_ok e1
  refine place_inv hu ⟨hb, ?_, hbl, hrb, ?_⟩ e2
  · rw [placeRaw_row]; simp [Ne.symm hab, hbu]
  · cases hpb with
    | inl e => exact Or.inl e
    | inr e => exact Or.inr ⟨e.1, by rw [placeRaw_row]; exact e.2⟩

theorem swap_inv {s t : State} (h : Inv s) {c1 c2 : Int} (hl1 : s.liveCell c1 = true) (hl2 : s.liveCell c2 = true)
    (e : s.swap c1 c2 = .ok t) : Inv t := by
  rw [liveCell_iff] at hl1 hl2
  unfold swap canSwap at e
  by_cases hp1 : s.isPlaced c1 = true
  · by_cases hp2 : s.isPlaced c2 = true
    · by_cases h12 : c1 = c2
      · simp [hp1, hp2, h12] at e
      · have r1 : s.row c1 ≠ -1 := (isPlaced_iff s c1).1 hp1
        have r2 : s.row c2 ≠ -1 := (isPlaced_iff s c2).1 hp2
        have L1 := h.link hl1.1
        have L2 := h.link hl2.1
        have w1 := h.placed_width hl1.1 r1
        have w2 := h.placed_width hl2.1 r2
        have vr1 := h.placed_row hl1.1 r1
        have vr2 := h.placed_row hl2.1 r2
        have i1 := unplace_inv h hl1.1 r1
        have r2' : (s.unplace c1).row c2 ≠ -1 := by rw [unplace_row]; simp [Ne.symm h12, r2]
        have i2 := unplace_inv i1 (c := c2) hl2.1 r2'
        have row1 : ((s.unplace c1).unplace c2).row c1 = -1 := by simp [unplace_row, h12]
        have row2 : ((s.unplace c1).unplace c2).row c2 = -1 := by simp [unplace_row]
        have rowd : ∀ d, d ≠ c1 → d ≠ c2 → ((s.unplace c1).unplace c2).row d = s.row d := by
          intro d hd1 hd2; simp [unplace_row, hd1, hd2]
        -- the predecessors named by swap are placed cells of the right rows, distinct from c1 and c2
        have P1 : s.pred c1 ≠ -1 → s.validCell (s.pred c1) ∧ s.row (s.pred c1) = s.row c1 ∧ s.pred c1 ≠ c1 := by
          intro hh; unfold LinkOk at L1
          have := (L1.2.2 r1).1 hh
          refine ⟨this.1, this.2.1, ?_⟩
          intro e'; rw [e'] at this; omega
        have P2 : s.pred c2 ≠ -1 → s.validCell (s.pred c2) ∧ s.row (s.pred c2) = s.row c2 ∧ s.pred c2 ≠ c2 := by
          intro hh; unfold LinkOk at L2
          have := (L2.2.2 r2).1 hh
          refine ⟨this.1, this.2.1, ?_⟩
          intro e'; rw [e'] at this; omega
        have no2cycle : ¬ (s.pred c1 = c2 ∧ s.pred c2 = c1) := by
          intro ⟨ea, eb⟩; unfold LinkOk at L1 L2
          have a1 := ((L1.2.2 r1).1 (by rw [ea]; unfold validCell at hl2; omega)).2.2.1
          have a2 := ((L2.2.2 r2).1 (by rw [eb]; unfold validCell at hl1; omega)).2.2.1
          rw [ea] at a1; rw [eb] at a2; omega
        split at e
        · cases e
        · cases e
        · split at e
          · -- c2 is the predecessor of c1
            rename_i hadj
            have hrow : s.row c2 = s.row c1 := by
              have := P1 (by rw [hadj]; unfold validCell at hl2; omega); rw [hadj] at this; exact this.2.1
            refine place2_inv i2 ⟨hl1.1, row1, hl1.2, vr2, ?_⟩ hl2.1 row2 hl2.2 h12 vr1 ?_ e
            · by_cases hh : s.pred c2 = -1
              · exact Or.inl hh
              · have := P2 hh
                have ne1 : s.pred c2 ≠ c1 := fun e' => no2cycle ⟨hadj, e'⟩
                exact Or.inr ⟨this.1, by rw [rowd _ ne1 this.2.2]; exact this.2.1⟩
            · exact Or.inr ⟨hl1.1, by simp [hrow]⟩
          · split at e
            · -- c1 is the predecessor of c2
              rename_i hnadj hadj
              have hrow : s.row c1 = s.row c2 := by
                have := P2 (by rw [hadj]; unfold validCell at hl1; omega); rw [hadj] at this; exact this.2.1
              refine place2_inv i2 ⟨hl2.1, row2, hl2.2, vr1, ?_⟩ hl1.1 row1 hl1.2 (Ne.symm h12) vr2 ?_ e
              · by_cases hh : s.pred c1 = -1
                · exact Or.inl hh
                · have := P1 hh
                  have ne2 : s.pred c1 ≠ c2 := hnadj
                  exact Or.inr ⟨this.1, by rw [rowd _ this.2.2 ne2]; exact this.2.1⟩
              · exact Or.inr ⟨hl2.1, by simp [hrow]⟩
            · rename_i hn1 hn2
              refine place2_inv i2 ⟨hl1.1, row1, hl1.2, vr2, ?_⟩ hl2.1 row2 hl2.2 h12 vr1 ?_ e
              · by_cases hh : s.pred c2 = -1
                · exact Or.inl hh
                · have := P2 hh
                  exact Or.inr ⟨this.1, by rw [rowd _ hn2 this.2.2]; exact this.2.1⟩
              · by_cases hh : s.pred c1 = -1
                · exact Or.inl hh
                · have := P1 hh
                  refine Or.inr ⟨this.1, ?_⟩
                  have ne : s.pred c1 ≠ c1 := this.2.2
                  simp only [ne, if_false]
                  rw [rowd _ ne hn1]; exact this.2.1
    · simp [hp1, hp2] at e
  · simp [hp1] at e

/-! ### shift -/

theorem setXs_eq (s : State) (mv : List (Int × Int)) :
    ∃ f : Int → Int, s.setXs mv = { s with x := f } ∧ ∀ d, d ∉ mv.map (·.1) → f d = s.x d := by
  induction mv generalizing s with
  | nil => exact ⟨s.x, rfl, fun _ _ => rfl⟩
  | cons m rest ih =>
    obtain ⟨c, v⟩ := m
    obtain ⟨f, e, hf⟩ := ih { s with x := upd s.x c v }
    refine ⟨f, by simpa [setXs] using e, ?_⟩
    intro d hd
    simp only [List.map_cons, List.mem_cons, not_or] at hd
    rw [hf d hd.2]
    simp [upd, hd.1]

theorem shift_inv {s t : State} (h : Inv s) {mv : List (Int × Int)} (e : s.shift mv = .ok t) : Inv t := by
  unfold shift at e
  split at e
  · rename_i hcond
    injection e with e
    simp only [Bool.and_eq_true, List.all_eq_true, decide_eq_true_eq] at hcond
    obtain ⟨⟨hcells, -⟩, hfit⟩ := hcond
    obtain ⟨f, ef, hf⟩ := setXs_eq s mv
    rw [ef] at e hfit
    subst e
    have fit : ∀ d, d ∈ mv.map (·.1) →
        (if s.pred d = -1 then s.rowMinX (s.row d) else f (s.pred d) + s.width (s.pred d)) ≤ f d ∧
        f d + s.width d ≤ (if s.next d = -1 then s.rowMaxX (s.row d) else f (s.next d)) := by
      intro d hd
      obtain ⟨m, hm, rfl⟩ := List.mem_map.1 hd
      have := hfit m hm
      simpa [fitsInSite, boundaryBefore, boundaryAfter, rowMinX, rowMaxX, rowAt] using this
    refine Inv.mk' (fun r hr => h.rowok hr) ?_ (fun d hd => h.cell hd)
    intro d hd
    have Ld := h.link hd
    have Lp : s.row d ≠ -1 → s.pred d ≠ -1 → LinkOk s (s.pred d) := fun h1 h2 =>
      h.link (by unfold LinkOk at Ld; exact ((Ld.2.2 h1).1 h2).1)
    have Ln : s.row d ≠ -1 → s.next d ≠ -1 → LinkOk s (s.next d) := fun h1 h2 =>
      h.link (by unfold LinkOk at Ld; exact ((Ld.2.2 h1).2.2.1 h2).1)
    have k1 : d ∈ mv.map (·.1) ∨ f d = s.x d := by
      by_cases hh : d ∈ mv.map (·.1); exact Or.inl hh; exact Or.inr (hf d hh)
    have k2 : s.pred d ∈ mv.map (·.1) ∨ f (s.pred d) = s.x (s.pred d) := by
      by_cases hh : s.pred d ∈ mv.map (·.1); exact Or.inl hh; exact Or.inr (hf _ hh)
    have k3 : s.next d ∈ mv.map (·.1) ∨ f (s.next d) = s.x (s.next d) := by
      by_cases hh : s.next d ∈ mv.map (·.1); exact Or.inl hh; exact Or.inr (hf _ hh)
    have f1 := fit d
    have f2 := fit (s.pred d)
    have f3 := fit (s.next d)
    clear hf hfit hcells fit h ef
    have e2 : ∀ q, ({ s with x := f } : State).rowMinX q = s.rowMinX q := fun _ => rfl
    have e3 : ∀ q, ({ s with x := f } : State).rowMaxX q = s.rowMaxX q := fun _ => rfl
    have e1 : ({ s with x := f } : State).nRows = s.nRows := rfl
    unfold LinkOk validCell at *
    simp only [e1, e2, e3]
    grind (splits := 25)
  · cases e

/-! ### reorder write-back -/

theorem unplaceAll_inv {s t : State} (h : Inv s) {cs : List Int} (e : s.unplaceAll cs = .ok t) : Inv t := by
  induction cs generalizing s with
  | nil => simp [unplaceAll] at e; exact e ▸ h
  | cons c cs ih =>
    unfold unplaceAll at e
    split at e
    · rename_i hg
      simp only [Bool.and_eq_true] at hg
      exact ih (unplace_inv h ((liveCell_iff s c).1 hg.1).1 ((isPlaced_iff s c).1 hg.2)) e
    · cases e

theorem placeChain_inv {s t : State} (h : Inv s) {r p : Int} {l : List (Int × Int)}
    (e : s.placeChain r p l = .ok t) : Inv t := by
  induction l generalizing s p with
  | nil => simp [placeChain] at e; exact e ▸ h
  | cons m rest ih =>
    obtain ⟨c, v⟩ := m
    unfold placeChain at e
    split at e
    · rename_i hg
      simp only [Bool.and_eq_true, Bool.not_eq_true'] at hg
      obtain ⟨⟨hl, hu⟩, hs⟩ := hg
      have hl' := (liveCell_iff s c).1 hl
      have hs' := (siteOk_iff s r p).1 hs
      have hu' : s.row c = -1 := by simpa [isPlaced] using hu
      split at e
      · cases e
      · rename_i u eu
        exact ih (place_inv h ⟨hl'.1, hu', hl'.2, hs'.1, hs'.2⟩ eu) e
    · cases e

theorem placeRegions_inv {s t : State} (h : Inv s) {gs : List Region} (e : s.placeRegions gs = .ok t) : Inv t := by
  induction gs generalizing s with
  | nil => simp [placeRegions] at e; exact e ▸ h
  | cons g gs ih =>
    unfold placeRegions at e
    split at e
    · cases e
    · rename_i u eu
      exact ih (placeChain_inv h eu) e

theorem reorder_inv {s t : State} (h : Inv s) {cells : List Int} {regions : List Region}
    (e : s.reorderWriteback cells regions = .ok t) : Inv t := by
  unfold reorderWriteback at e
  split at e
  · cases e
  · rename_i u eu
    split at e
    · cases e
    · rename_i v ev
      split at e
      · injection e with e; exact e ▸ placeRegions_inv (unplaceAll_inv h eu) ev
      · cases e

/-! ### steps and histories -/

theorem step_inv {s t : State} (h : Inv s) {op : Op} (e : s.step op = .ok t) : Inv t := by
  cases op with
  | swap c1 c2 =>
    simp only [step] at e
    split at e
    · rename_i hg; simp only [Bool.and_eq_true] at hg; exact swap_inv h hg.1 hg.2 e
    · cases e
  | insert c r p =>
    simp only [step] at e
    split at e
    · rename_i hg; simp only [Bool.and_eq_true] at hg; exact insert_inv h hg.1 hg.2 e
    · cases e
  | shift mv => exact shift_inv h e
  | reorder cells regions => exact reorder_inv h e

theorem run_inv {s t : State} (h : Inv s) {ops : List Op} (e : s.run ops = .ok t) : Inv t := by
  induction ops generalizing s with
  | nil => simp [run] at e; exact e ▸ h
  | cons op ops ih =>
    unfold run at e
    split at e
    · cases e
    · rename_i u eu
      exact ih (step_inv h eu) e

end ColoVerif.DetPlace
