import ColoVerif.Proofs.ExpandFBound
/-
The `double` accumulation `expandedArea += (double)e * (double)area(i)` of `expandCellsByFactor`
(`ExpandF.expandedArea`) against the exact sum (`Expand.expandedArea`): four roundings per movable cell, so
`exact · (1−2^-53)^(4n) ≤ accumulated`; the accumulated value is 0 or at least 1/4 (never subnormal).
-/
namespace ColoVerif
namespace ExpandF
open Expand (truncRat cellArea movableArea active NonnegSizes)
open F64

theorem f64_rel_ge0 {x : Rat} (h : x = 0 ∨ (2 : Rat) ^ (-1022 : Int) ≤ x) :
    x * (1 - (2 : Rat) ^ (-53 : Int)) ≤ f64 x := by
  rcases h with h | h
  · rw [h, f64_zero]; simp
  · exact f64_rel_ge h

theorem quarter_norm : (2 : Rat) ^ (-1022 : Int) ≤ 1 / 4 := by
  have h1 : (2 : Rat) ^ (-1022 : Int) ≤ (2 : Rat) ^ (-2 : Int) := z2_le (by norm_num)
  have h2 : (2 : Rat) ^ (-2 : Int) = 1 / 4 := by norm_num
  rwa [h2] at h1

theorem f64_ge_quarter {x : Rat} (h : 1 / 4 ≤ x) : 1 / 4 ≤ f64 x := by
  have := f64_mono h
  have e : f64 (1 / 4) = 1 / 4 := by decide +kernel
  rwa [e] at this

theorem f64_ge_half {x : Rat} (h : 1 / 2 ≤ x) : 1 / 2 ≤ f64 x := by
  have := f64_mono h
  have e : f64 (1 / 2) = 1 / 2 := by decide +kernel
  rwa [e] at this

theorem u53_lt_one : (2 : Rat) ^ (-53 : Int) < 1 := by rw [two_zpow_neg53]; norm_num

/-- one term `(double)e * (double)area`: three roundings; the term is 0 or at least 1/4 -/
theorem term_lower (e : Rat) (a : Int) (he : 1 / 2 ≤ e) (ha : 0 ≤ a) :
    e * (a : Rat) * (1 - (2 : Rat) ^ (-53 : Int)) ^ 3 ≤ f64 (f64 e * d a) ∧
    (f64 (f64 e * d a) = 0 ∨ 1 / 4 ≤ f64 (f64 e * d a)) := by
  have hu := z2_pos (-53)
  have hu1 := u53_lt_one
  rcases eq_or_lt_of_le ha with h0 | h0
  · have : d a = 0 := by rw [← h0]; show f64 ((0 : Int) : Rat) = 0; simp [f64_zero]
    rw [this, ← h0]; simp [f64_zero]
  · have ha1 : (1 : Rat) ≤ (a : Rat) := by exact_mod_cast (show (1 : Int) ≤ a by omega)
    have hn1 : (2 : Rat) ^ (-1022 : Int) ≤ 1 / 4 := quarter_norm
    have he1 : e * (1 - (2 : Rat) ^ (-53 : Int)) ≤ f64 e := f64_rel_ge (by linarith)
    have he2 : 1 / 2 ≤ f64 e := f64_ge_half he
    have hd1 : (a : Rat) * (1 - (2 : Rat) ^ (-53 : Int)) ≤ d a := f64_rel_ge (by linarith)
    have hd2 : 1 ≤ d a := d_ge_one h0
    have hp : 1 / 2 ≤ f64 e * d a := by nlinarith
    have hT : f64 e * d a * (1 - (2 : Rat) ^ (-53 : Int)) ≤ f64 (f64 e * d a) := f64_rel_ge (by linarith)
    refine ⟨?_, Or.inr (f64_ge_quarter (by linarith))⟩
    generalize (2 : Rat) ^ (-53 : Int) = u at *
    have hr : 0 < 1 - u := by linarith
    have h1 : e * (1 - u) * ((a : Rat) * (1 - u)) ≤ f64 e * d a :=
      mul_le_mul he1 hd1 (by nlinarith) (by linarith)
    have h2 := mul_le_mul_of_nonneg_right h1 (le_of_lt hr)
    have e3 : e * (a : Rat) * (1 - u) ^ 3 = e * (1 - u) * ((a : Rat) * (1 - u)) * (1 - u) := by ring
    rw [e3]; linarith

/-- `exact sum · (1−2^-53)^(4n) ≤ accumulated sum` (generalised over the accumulator) -/
theorem expandedArea_lower_aux : ∀ (l : List Cell) (es : List Rat) (acc S0 : Rat) (j : Nat),
    NonnegSizes l → (∀ e ∈ es, 1 / 2 ≤ e) → 0 ≤ S0 → (acc = 0 ∨ 1 / 4 ≤ acc) →
    S0 * (1 - (2 : Rat) ^ (-53 : Int)) ^ j ≤ acc →
    (S0 + Expand.expandedArea l es) * (1 - (2 : Rat) ^ (-53 : Int)) ^ (j + 4 * l.length) ≤ expandedArea acc l es ∧
    (expandedArea acc l es = 0 ∨ 1 / 4 ≤ expandedArea acc l es) := by
  have hu := z2_pos (-53)
  have hu1 := u53_lt_one
  have hr0 : (0 : Rat) ≤ 1 - (2 : Rat) ^ (-53 : Int) := by linarith
  have hr1 : 1 - (2 : Rat) ^ (-53 : Int) ≤ 1 := by linarith
  have base : ∀ (l : List Cell) (acc S0 : Rat) (j : Nat), 0 ≤ S0 →
      S0 * (1 - (2 : Rat) ^ (-53 : Int)) ^ j ≤ acc →
      (S0 + 0) * (1 - (2 : Rat) ^ (-53 : Int)) ^ (j + 4 * l.length) ≤ acc := by
    intro l acc S0 j hS h
    have hp := pow_le_pow_of_le_one hr0 hr1 (show j ≤ j + 4 * l.length by omega)
    have := mul_le_mul_of_nonneg_left hp hS
    rw [add_zero]; linarith
  intro l
  induction l with
  | nil =>
    intro es acc S0 j _ _ hS hacc h
    simp only [expandedArea, Expand.expandedArea]
    exact ⟨base [] acc S0 j hS h, hacc⟩
  | cons cl rest ih =>
    intro es acc S0 j hn he hS hacc h
    cases es with
    | nil =>
      simp only [expandedArea, Expand.expandedArea]
      exact ⟨base (cl :: rest) acc S0 j hS h, hacc⟩
    | cons e es =>
      have hn' : NonnegSizes rest := fun c hc => hn c (by simp [hc])
      have he' : ∀ x ∈ es, 1 / 2 ≤ x := fun x hx => he x (by simp [hx])
      have hlen : j + 4 * (cl :: rest).length = (j + 4) + 4 * rest.length := by
        simp only [List.length_cons]; omega
      simp only [expandedArea, Expand.expandedArea]
      rw [hlen]
      by_cases hfx : cl.fixed = true
      · simp only [hfx, if_true, add_zero]
        have hp := pow_le_pow_of_le_one hr0 hr1 (show j ≤ j + 4 by omega)
        have h' : S0 * (1 - (2 : Rat) ^ (-53 : Int)) ^ (j + 4) ≤ acc := by
          have := mul_le_mul_of_nonneg_left hp hS; linarith
        have := ih es acc S0 (j + 4) hn' he' hS hacc h'
        simpa [zero_add] using this
      · have hfx' : cl.fixed = false := by simpa using hfx
        obtain ⟨hw0, hh0⟩ := hn cl (by simp) hfx'
        have ha0 : 0 ≤ cellArea cl := by unfold cellArea; exact mul_nonneg hw0 hh0
        have he0 : 1 / 2 ≤ e := he e (by simp)
        obtain ⟨hT, hTq⟩ := term_lower e (cellArea cl) he0 ha0
        simp only [hfx', Bool.false_eq_true, if_false]
        have hacc0 : 0 ≤ acc := by rcases hacc with h0 | h0 <;> linarith
        have hT0 : 0 ≤ f64 (f64 e * d (cellArea cl)) := by rcases hTq with h0 | h0 <;> linarith
        have hsum : acc + f64 (f64 e * d (cellArea cl)) = 0 ∨
            1 / 4 ≤ acc + f64 (f64 e * d (cellArea cl)) := by
          rcases hacc with h0 | h0
          · rcases hTq with h1 | h1
            · left; rw [h0, h1]; norm_num
            · right; linarith
          · right; linarith
        have hacc' : f64 (acc + f64 (f64 e * d (cellArea cl))) = 0 ∨
            1 / 4 ≤ f64 (acc + f64 (f64 e * d (cellArea cl))) := by
          rcases hsum with h0 | h0
          · left; rw [h0, f64_zero]
          · right; exact f64_ge_quarter h0
        have hrel := f64_rel_ge0 (x := acc + f64 (f64 e * d (cellArea cl)))
          (by rcases hsum with h0 | h0
              · exact Or.inl h0
              · exact Or.inr (le_trans quarter_norm h0))
        have heaq : (0 : Rat) ≤ e * (cellArea cl : Rat) :=
          mul_nonneg (by linarith) (by exact_mod_cast ha0)
        have hS' : 0 ≤ S0 + e * (cellArea cl : Rat) := by linarith
        have hkey : (S0 + e * (cellArea cl : Rat)) * (1 - (2 : Rat) ^ (-53 : Int)) ^ (j + 4) ≤
            f64 (acc + f64 (f64 e * d (cellArea cl))) := by
          generalize (2 : Rat) ^ (-53 : Int) = u at *
          have p1 : (1 - u) ^ (j + 4) ≤ (1 - u) ^ (j + 1) := pow_le_pow_of_le_one hr0 hr1 (by omega)
          have p2 : (1 - u) ^ (j + 4) ≤ (1 - u) ^ 4 := pow_le_pow_of_le_one hr0 hr1 (by omega)
          have q1 := mul_le_mul_of_nonneg_left p1 hS
          have q2 := mul_le_mul_of_nonneg_left p2 heaq
          have q3 : (S0 * (1 - u) ^ j + e * (cellArea cl : Rat) * (1 - u) ^ 3) * (1 - u) ≤
              (acc + f64 (f64 e * d (cellArea cl))) * (1 - u) :=
            mul_le_mul_of_nonneg_right (by linarith) hr0
          have e1 : (S0 * (1 - u) ^ j + e * (cellArea cl : Rat) * (1 - u) ^ 3) * (1 - u) =
              S0 * (1 - u) ^ (j + 1) + e * (cellArea cl : Rat) * (1 - u) ^ 4 := by ring
          have e2 : (S0 + e * (cellArea cl : Rat)) * (1 - u) ^ (j + 4) =
              S0 * (1 - u) ^ (j + 4) + e * (cellArea cl : Rat) * (1 - u) ^ (j + 4) := by ring
          linarith
        have := ih es _ (S0 + e * (cellArea cl : Rat)) (j + 4) hn' he' hS' hacc' hkey
        have eassoc : S0 + (e * (cellArea cl : Rat) + Expand.expandedArea rest es) =
            S0 + e * (cellArea cl : Rat) + Expand.expandedArea rest es := by ring
        rw [eassoc]
        exact this

theorem expandedArea_lower (l : List Cell) (es : List Rat) (hn : NonnegSizes l) (he : ∀ e ∈ es, 1 / 2 ≤ e) :
    Expand.expandedArea l es * (1 - (2 : Rat) ^ (-53 : Int)) ^ (4 * l.length) ≤ expandedArea 0 l es ∧
    (expandedArea 0 l es = 0 ∨ 1 / 4 ≤ expandedArea 0 l es) := by
  have := expandedArea_lower_aux l es 0 0 0 hn he (le_refl _) (Or.inl rfl) (by simp)
  simpa using this

theorem dR_bounds (R : Int) (hR : 0 < R) (hR63 : |R| ≤ 2 ^ 63) :
    1 ≤ d R ∧ d R ≤ (2 : Rat) ^ (63 : Int) ∧ d R ≤ (R : Rat) * (1 + (2 : Rat) ^ (-53 : Int)) := by
  have hRq : (1 : Rat) ≤ (R : Rat) := by exact_mod_cast (show (1 : Int) ≤ R by omega)
  refine ⟨d_ge_one hR, ?_, f64_rel_le (le_trans quarter_norm (by linarith))⟩
  have h1 : (R : Rat) ≤ (2 : Rat) ^ (63 : Int) := by
    have : R ≤ 2 ^ 63 := (abs_le.mp hR63).2
    have e : (2 : Rat) ^ (63 : Int) = (((2 : Int) ^ 63 : Int) : Rat) := by norm_num
    rw [e]; exact_mod_cast this
  have := f64_mono h1
  rwa [f64_pow2 (by norm_num)] at this

/-- `expandedDensity = expandedArea / (double)rowArea` loses at most one rounding:
`E·(1−2^-53) ≤ expandedDensity·(double)rowArea` for `E = 0` or `E ≥ 1/4`, `1 ≤ (double)rowArea ≤ 2^63` -/
theorem expandedDensityOf_lower (E : Rat) (R : Int) (hE : E = 0 ∨ 1 / 4 ≤ E) (hR : 0 < R) (hR63 : |R| ≤ 2 ^ 63) :
    E * (1 - (2 : Rat) ^ (-53 : Int)) ≤ expandedDensityOf E R * d R := by
  obtain ⟨b1, b2, _⟩ := dR_bounds R hR hR63
  have hpos : (0 : Rat) < d R := by linarith
  have hq : E / d R = 0 ∨ (2 : Rat) ^ (-1022 : Int) ≤ E / d R := by
    rcases hE with h0 | h0
    · left; rw [h0, zero_div]
    · right
      have h1 : (2 : Rat) ^ (-1022 : Int) ≤ (2 : Rat) ^ (-65 : Int) := z2_le (by norm_num)
      refine le_trans h1 ?_
      rw [le_div_iff₀ hpos]
      have h3 : (2 : Rat) ^ (-65 : Int) * (2 : Rat) ^ (63 : Int) = 1 / 4 := by rw [← z2_add]; norm_num
      have h4 : (2 : Rat) ^ (-65 : Int) * d R ≤ (2 : Rat) ^ (-65 : Int) * (2 : Rat) ^ (63 : Int) :=
        mul_le_mul_of_nonneg_left b2 (le_of_lt (z2_pos _))
      exact le_trans (le_trans h4 (le_of_eq h3)) h0
  have h := f64_rel_ge0 hq
  have h2 := mul_le_mul_of_nonneg_right h (le_of_lt hpos)
  unfold expandedDensityOf
  have e : E / d R * (1 - (2 : Rat) ^ (-53 : Int)) * d R = E * (1 - (2 : Rat) ^ (-53 : Int)) := by
    rw [mul_right_comm, div_mul_cancel₀ _ (ne_of_gt hpos)]
  rw [e] at h2
  exact h2

/-! ### the ratio-adjusted factors -/

/-- `e = 1.0 + (e - 1.0) * ratio` stored in a `float`, for a `float` factor `1 ≤ e ≤ 2^53` and `ratio ≥ 0`:
`e - 1.0` is exact, the product, the sum and the narrowing round once each:
`adjust ρ e ≤ (1 + (e−1)·ρ)·(1+2^-53)²·(1+2^-24)` -/
theorem adjust_le (ρ e : Rat) (hρ : 0 ≤ ρ) (hfix : f64 e = e) (he1 : 1 ≤ e) (he53 : e ≤ 2 ^ 53) :
    adjust ρ e ≤ (1 + (e - 1) * ρ) * (1 + (2 : Rat) ^ (-53 : Int)) ^ 2 * (1 + (2 : Rat) ^ (-24 : Int)) := by
  have hu := z2_pos (-53)
  have hε := z2_pos (-24)
  have hex : f64 (f64 e - 1) = e - 1 := by
    rw [hfix]
    have := f64_sub_int_exact hfix 1 (by norm_num) (by push_cast; exact he1) he53
    simpa using this
  have hg : 0 ≤ (e - 1) * ρ := mul_nonneg (by linarith) hρ
  have h3 := f64_le_gen hg
  have h30 : 0 ≤ f64 ((e - 1) * ρ) := f64_nonneg hg
  have hηu : (2 : Rat) ^ (-1075 : Int) ≤ (2 : Rat) ^ (-53 : Int) := z2_le (by norm_num)
  have hone : (2 : Rat) ^ (-1022 : Int) ≤ 1 := le_trans quarter_norm (by norm_num)
  have h4 : f64 (1 + f64 ((e - 1) * ρ)) ≤ (1 + f64 ((e - 1) * ρ)) * (1 + (2 : Rat) ^ (-53 : Int)) :=
    f64_rel_le (by linarith)
  have h41 : 1 ≤ f64 (1 + f64 ((e - 1) * ρ)) := f64_ge_one (by linarith)
  have hone32 : (2 : Rat) ^ (-126 : Int) ≤ 1 := by
    have h1 : (2 : Rat) ^ (-126 : Int) ≤ (2 : Rat) ^ (0 : Int) := z2_le (by norm_num)
    simpa using h1
  have h5 : f32' (f64 (1 + f64 ((e - 1) * ρ))) ≤
      f64 (1 + f64 ((e - 1) * ρ)) * (1 + (2 : Rat) ^ (-24 : Int)) := f32'_rel_le (le_trans hone32 h41)
  unfold adjust
  rw [hex]
  generalize f32' (f64 (1 + f64 ((e - 1) * ρ))) = y5 at *
  generalize f64 (1 + f64 ((e - 1) * ρ)) = y4 at *
  generalize f64 ((e - 1) * ρ) = y3 at *
  generalize (e - 1) * ρ = g at *
  generalize (2 : Rat) ^ (-1075 : Int) = η at *
  generalize (2 : Rat) ^ (-53 : Int) = u at *
  generalize (2 : Rat) ^ (-24 : Int) = ε at *
  -- 1 + y3 ≤ (1 + g)(1 + u)
  have a1 : 1 + y3 ≤ (1 + g) * (1 + u) := by nlinarith
  have a2 : y4 ≤ (1 + g) * (1 + u) * (1 + u) := by
    have := mul_le_mul_of_nonneg_right a1 (show (0 : Rat) ≤ 1 + u by linarith)
    linarith
  have a3 : y4 * (1 + ε) ≤ (1 + g) * (1 + u) * (1 + u) * (1 + ε) :=
    mul_le_mul_of_nonneg_right a2 (by linarith)
  have e1 : (1 + g) * (1 + u) ^ 2 * (1 + ε) = (1 + g) * (1 + u) * (1 + u) * (1 + ε) := by ring
  rw [e1]; linarith

/-- the exact expanded area of the adjusted factors: at most `(1+2^-53)²(1+2^-24)·(A + ρ·(S − A))` -/
theorem expandedArea_adjust_le (ρ : Rat) (hρ : 0 ≤ ρ) : ∀ (l : List Cell) (es : List Rat), NonnegSizes l →
    (∀ e ∈ es, f64 e = e ∧ 1 ≤ e ∧ e ≤ 2 ^ 53) → l.length = es.length →
    Expand.expandedArea l (es.map (adjust ρ)) ≤
      (1 + (2 : Rat) ^ (-53 : Int)) ^ 2 * (1 + (2 : Rat) ^ (-24 : Int)) *
        ((movableArea l : Rat) + ρ * (Expand.expandedArea l es - (movableArea l : Rat)))
  | [], [], _, _, _ => by simp [Expand.expandedArea, Expand.movableArea_nil]
  | [], _ :: _, _, _, h => by simp at h
  | _ :: _, [], _, _, h => by simp at h
  | cl :: rest, e :: es, hn, he, hlen => by
    have ih := expandedArea_adjust_le ρ hρ rest es (fun c h => hn c (by simp [h])) (fun x h => he x (by simp [h]))
      (by simpa using hlen)
    simp only [List.map_cons, Expand.expandedArea, Expand.movableArea_cons]
    by_cases hfx : cl.fixed = true
    · simp only [hfx, if_true]; push_cast; simpa using ih
    · have hfx' : cl.fixed = false := by simpa using hfx
      obtain ⟨hw0, hh0⟩ := hn cl (by simp) hfx'
      obtain ⟨hfix, he1, he53⟩ := he e (by simp)
      have hadj := adjust_le ρ e hρ hfix he1 he53
      have ha : (0 : Rat) ≤ (cl.w : Rat) * (cl.h : Rat) :=
        mul_nonneg (by exact_mod_cast hw0) (by exact_mod_cast hh0)
      have h1 := mul_le_mul_of_nonneg_right hadj ha
      simp only [hfx', Bool.false_eq_true, if_false, cellArea]
      push_cast
      have e3 : (1 + (e - 1) * ρ) * (1 + (2 : Rat) ^ (-53 : Int)) ^ 2 * (1 + (2 : Rat) ^ (-24 : Int)) *
          ((cl.w : Rat) * (cl.h : Rat)) = (1 + (2 : Rat) ^ (-53 : Int)) ^ 2 * (1 + (2 : Rat) ^ (-24 : Int)) *
          ((1 + (e - 1) * ρ) * ((cl.w : Rat) * (cl.h : Rat))) := by ring
      rw [e3] at h1
      generalize (1 + (2 : Rat) ^ (-53 : Int)) ^ 2 * (1 + (2 : Rat) ^ (-24 : Int)) = K at *
      generalize Expand.expandedArea rest (List.map (adjust ρ) es) = X at *
      generalize adjust ρ e = e' at *
      have e4 : K * (((cl.w : Rat) * (cl.h : Rat) + (movableArea rest : Rat)) +
          ρ * (e * ((cl.w : Rat) * (cl.h : Rat)) + Expand.expandedArea rest es -
            ((cl.w : Rat) * (cl.h : Rat) + (movableArea rest : Rat)))) =
          K * ((1 + (e - 1) * ρ) * ((cl.w : Rat) * (cl.h : Rat))) +
          K * ((movableArea rest : Rat) + ρ * (Expand.expandedArea rest es - (movableArea rest : Rat))) := by ring
      rw [e4]
      linarith

end ExpandF
end ColoVerif
