import ColoVerif.Proofs.TranspSsp2Solve
import ColoVerif.Proofs.CheckedTranspTree
import ColoVerif.Model.TranspRunChecked
/-
C07 `transp_costs_fit`: the checked twin of `increaseCapacity(); solve()` (Model/TranspRunChecked.lean)
never faults and returns what the unbounded model returns, for every problem that passes `check()`, has
non-negative stored costs with `3·cost < INT_MAX` (C13's `costBoundOk`) and total demand / total capacity
at most `2^61`.

The inductions are those of the C13 termination proof (`Proofs/TranspSsp2{Walk,Main,Solve}.lean`), run
once more with the checked functions next to the unbounded ones: the invariants they maintain (`WInv`
during the walk: non-negative allocations with constant row sums; `Good` between augmentations: row sums
+ remaining capacity = capacity, labels in `[0, Wmax]`) are what bounds the typed intermediates.
-/
namespace ColoVerif.Transp
open ColoVerif.Checked

/-- bound on the total demand and on the total capacity: `2^61` -/
def Qmax : Int := 2305843009213693952

/-! ### local facts -/

lemma le_sumTo (f : Nat → Int) : ∀ (n j : Nat), (∀ k, k < n → 0 ≤ f k) → j < n → f j ≤ sumTo n f ∧ 0 ≤ sumTo n f := by
  intro n
  induction n with
  | zero => intro j _ hj; omega
  | succ n ih =>
    intro j hnn hj
    simp only [sumTo_succ]
    have hn := hnn n (by omega)
    have h0 : 0 ≤ sumTo n f := by
      cases n with
      | zero => simp [sumTo]
      | succ n' => exact (ih 0 (fun k hk => hnn k (by omega)) (by omega)).2
    by_cases e : j = n
    · subst e; omega
    · have := (ih j (fun k hk => hnn k (by omega)) (by omega)).1
      omega

lemma get2_le_rowSum (a : Mat) (m i j : Nat) (hnn : ∀ j, 0 ≤ get2 a i j) (hj : j < m) :
    get2 a i j ≤ rowSum a m i :=
  (le_sumTo (fun j => get2 a i j) m j (fun k _ => hnn k) hj).1

lemma destCostsFit_of (p : Problem) (sink src : Nat)
    (h : ∀ i, i < p.nbSinks → 0 ≤ p.cost i src ∧ p.cost i src ≤ intMax) (hs : sink < p.nbSinks) :
    destCostsFit p sink src = true := by
  have im : intMax = 2147483647 := rfl
  unfold destCostsFit
  rw [List.all_eq_true]
  intro dst hd
  have hd' : dst < p.nbSinks := by simpa using hd
  have h1 := h dst hd'
  have h2 := h sink hs
  have : fitsInt32 (p.movingCost src sink dst) := by
    unfold fitsInt32 Problem.movingCost
    omega
  simp [this]

lemma sendStepC_ok (p : Problem) (m : Int) (alloc : Mat) (qs : Queues) (snk1 snk2 sentSrc : Nat) (st : Step)
    (h : sendStep p m alloc qs snk1 snk2 sentSrc = .ok st) (hd : destCostsFit p snk1 sentSrc = true)
    (h1 : fitsInt64 (get2 alloc snk1 sentSrc + m))
    (h2 : fitsInt64 (get2 (add2 alloc snk1 sentSrc m) snk1 st.newSrc - m)) :
    sendStepC p m alloc qs snk1 snk2 sentSrc = .ok st := by
  unfold sendStepC
  rw [hd, Bool.or_true, if_pos rfl, h]
  simp only [addI64, subI64, chk64_ok h1, chk64_ok h2]

/-- the typed intermediates of one round of the walk, from the walk invariant -/
lemma sendStepC_of_winv (p : Problem) (s : St) (d : Nat → Int) (m : Int) (hm : 0 < m)
    (alloc : Mat) (qs : Queues) (snk1 snk2 sentSrc : Nat) (nu : Bool) (st : Step)
    (hw : WInv p s d alloc qs nu) (hs1 : snk1 < p.nbSinks) (hss : sentSrc < p.nbSources)
    (hns : st.newSrc < p.nbSources)
    (h : sendStep p m alloc qs snk1 snk2 sentSrc = .ok st)
    (hcost : ∀ i j, i < p.nbSinks → j < p.nbSources → 0 ≤ p.cost i j ∧ p.cost i j ≤ intMax)
    (hR : rowSum s.alloc p.nbSources snk1 ≤ Qmax) (hmQ : m ≤ Qmax) :
    sendStepC p m alloc qs snk1 snk2 sentSrc = .ok st := by
  have hq : Qmax = 2305843009213693952 := rfl
  have hrs := hw.rsum snk1
  have b1 := get2_le_rowSum alloc p.nbSources snk1 sentSrc (hw.nn snk1) hss
  have b2 := get2_le_rowSum alloc p.nbSources snk1 st.newSrc (hw.nn snk1) hns
  have n1 := hw.nn snk1 sentSrc
  have n2 := hw.nn snk1 st.newSrc
  have hl : sentSrc < (alloc.getD snk1 []).length := by rw [hw.rows snk1 hs1]; exact hss
  apply sendStepC_ok p m alloc qs snk1 snk2 sentSrc st h
    (destCostsFit_of p snk1 sentSrc (fun i hi => hcost i sentSrc hi hss) hs1)
  · unfold fitsInt64; omega
  · rw [get2_add2_row alloc snk1 sentSrc m hl]
    unfold fitsInt64
    split <;> omega

/-- **the second walk, checked**: `sendLoop_total` with the checked walk next to the unbounded one -/
lemma sendLoopC_total (p : Problem) (s : St) (d : Nat → Int) (m : Int) (hm : 0 < m)
    (hcap : ∀ i, i < p.nbSinks → s.remCapa.getD i 0 = 0 → 0 < rowSum s.alloc p.nbSources i)
    (hedge : ∀ i k, i < p.nbSinks → s.parent.getD i none = some k →
      s.remCapa.getD i 0 = 0 ∧ k < p.nbSinks ∧ k ≠ i ∧
      d i = (hget (qget s.queues i k) 0).cost + d k)
    (hcost : ∀ i j, i < p.nbSinks → j < p.nbSources → 0 ≤ p.cost i j ∧ p.cost i j ≤ intMax)
    (hR : ∀ i, i < p.nbSinks → rowSum s.alloc p.nbSources i ≤ Qmax) (hmQ : m ≤ Qmax) :
    ∀ (fuel k snk1 : Nat) (q ms : Int) (root : Nat) (alloc : Mat) (qs : Queues) (sentSrc : Nat) (nu : Bool),
      maxSentLoop s.alloc s.queues s.parent fuel snk1 q = .ok (ms, root) → m ≤ ms →
      depthIs s.parent k snk1 → snk1 < p.nbSinks → sentSrc < p.nbSources →
      (∀ y k', k' ≤ k → depthIs s.parent k' y →
        alloc.getD y [] = s.alloc.getD y [] ∧ qs.getD y #[] = s.queues.getD y #[]) →
      WInv p s d alloc qs nu →
      (∀ k', k' < p.nbSinks → p.cost snk1 sentSrc + d snk1 ≤ p.cost k' sentSrc + d k') →
      ∃ w, sendLoop p s.remCapa s.parent m fuel alloc qs snk1 sentSrc nu = .ok w ∧
        sendLoopC p s.remCapa s.parent m fuel alloc qs snk1 sentSrc nu = .ok w ∧
        WInv p s d w.alloc w.queues w.needUpdate ∧ w.root = root ∧ w.src < p.nbSources ∧
        w.root < p.nbSinks ∧
        (∀ k', k' < p.nbSinks → p.cost w.root w.src + d w.root ≤ p.cost k' w.src + d k') := by
  intro fuel
  induction fuel with
  | zero => intro k snk1 q ms root alloc qs sentSrc nu h; simp [maxSentLoop] at h
  | succ fuel ih =>
    intro k snk1 q ms root alloc qs sentSrc nu h1 hle hdep hs1 hss hrows hw hP2
    unfold maxSentLoop at h1
    unfold sendLoop sendLoopC
    split at h1
    · rename_i hp
      simp only [Except.ok.injEq, Prod.mk.injEq] at h1
      simp only [hp]
      exact ⟨_, rfl, rfl, hw, h1.2, hss, hs1, hP2⟩
    · rename_i snk2 hp
      split at h1; · exact absurd h1 (by simp)
      rename_i src0 hsrc0
      split at h1
      · cases k with
        | zero =>
          simp only [depthIs] at hdep
          rw [hdep] at hp; exact absurd hp (by simp)
        | succ k =>
          obtain ⟨y, hy, hdy⟩ := hdep
          rw [hp] at hy
          injection hy with hy
          subst hy
          obtain ⟨hfull, hs2, hne21, hP3s⟩ := hedge snk1 snk2 hs1 hp
          have hne : snk1 ≠ snk2 := fun e => hne21 e.symm
          have hc : (s.remCapa.getD snk1 0 != 0) = false := by rw [hfull]; rfl
          simp only [hp, hc, Bool.false_eq_true, if_false]
          obtain ⟨hrow1a, hrow1q⟩ := hrows snk1 (k + 1) (Nat.le_refl _) ⟨snk2, hp, hdy⟩
          have hms := maxSentLoop_le _ _ _ _ _ _ _ _ h1
          have hsrc0' : (hget (qget qs snk1 snk2) 0).elt = src0 := by
            rw [qget_row qs s.queues snk1 snk2 hrow1q]
            unfold sentSourceQ qtop at hsrc0
            split at hsrc0
            · exact absurd hsrc0 (by simp [Except.map])
            · simp only [Except.map, Except.ok.injEq] at hsrc0
              exact hsrc0
          have hbound : m ≤ get2 alloc snk1 (hget (qget qs snk1 snk2) 0).elt := by
            rw [hsrc0', get2_row alloc s.alloc snk1 src0 hrow1a]
            have := min_le_right q (get2 s.alloc snk1 src0)
            omega
          have hP3 : d snk1 = (hget (qget qs snk1 snk2) 0).cost + d snk2 := by
            rw [qget_row qs s.queues snk1 snk2 hrow1q]; exact hP3s
          obtain ⟨st, hst, hw', hnsM, hra, hrq, hP2'⟩ := sendStep_winv p s d m hm alloc qs snk1 snk2 sentSrc nu
            hw hs1 hs2 hne hss hfull hp (hcap snk1 hs1 hfull) hbound hP2 hP3
          have hstC := sendStepC_of_winv p s d m hm alloc qs snk1 snk2 sentSrc nu st hw hs1 hss hnsM hst hcost
            (hR snk1 hs1) hmQ
          rw [hst, hstC]
          simp only []
          refine ih k snk2 _ ms root st.alloc st.queues st.newSrc _ h1 hle hdy hs2 hnsM ?_ hw' hP2'
          intro y k' hk' hdy'
          have hney : y ≠ snk1 := by
            intro e
            subst e
            have := depthIs_unique s.parent _ _ _ hdy' (show depthIs s.parent (k + 1) y from ⟨snk2, hp, hdy⟩)
            omega
          obtain ⟨e1, e2⟩ := hrows y k' (by omega) hdy'
          exact ⟨(hra y hney).trans e1, (hrq y hney).trans e2⟩
      · exact absurd h1 (by simp)

end ColoVerif.Transp
