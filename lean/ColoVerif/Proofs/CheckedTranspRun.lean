import ColoVerif.Proofs.TranspSsp2Solve
import ColoVerif.Properties.C13
import ColoVerif.Proofs.CheckedTranspTree
import ColoVerif.Model.TranspRunChecked
/-
C07 `transp_costs_fit`: the checked twin of `increaseCapacity(); solve()` (Model/TranspRunChecked.lean)
never faults and returns what the unbounded model returns, for every problem that passes `check()`, has
non-negative stored costs with `3·cost < INT_MAX` (C13's `costBoundOk`) and total demand / total capacity
at most `2^61`.

The inductions are those of the C13 termination proof (`Proofs/TranspSsp2{Walk,Main,Solve}.lean`), run
once more with the checked functions next to the unbounded ones: the invariants they maintain (`WInv`
during the walk: non-negative allocations with constant row sums; `Good` between augmentations: row sums
+ remaining capacity = capacity, labels in `[0, Wmax]`) are what bounds the typed intermediates.
-/
namespace ColoVerif.Transp
open ColoVerif.Checked

/-- bound on the total demand and on the total capacity: `2^61` -/
def Qmax : Int := 2305843009213693952

/-! ### local facts -/

lemma le_sumTo (f : Nat → Int) : ∀ (n j : Nat), (∀ k, k < n → 0 ≤ f k) → j < n → f j ≤ sumTo n f ∧ 0 ≤ sumTo n f := by
  intro n
  induction n with
  | zero => intro j _ hj; omega
  | succ n ih =>
    intro j hnn hj
    simp only [sumTo_succ]
    have hn := hnn n (by omega)
    have h0 : 0 ≤ sumTo n f := by
      cases n with
      | zero => simp [sumTo]
      | succ n' => exact (ih 0 (fun k hk => hnn k (by omega)) (by omega)).2
    by_cases e : j = n
    · subst e; omega
    · have := (ih j (fun k hk => hnn k (by omega)) (by omega)).1
      omega

lemma get2_le_rowSum (a : Mat) (m i j : Nat) (hnn : ∀ j, 0 ≤ get2 a i j) (hj : j < m) :
    get2 a i j ≤ rowSum a m i :=
  (le_sumTo (fun j => get2 a i j) m j (fun k _ => hnn k) hj).1

lemma destCostsFit_of (p : Problem) (sink src : Nat)
    (h : ∀ i, i < p.nbSinks → 0 ≤ p.cost i src ∧ p.cost i src ≤ intMax) (hs : sink < p.nbSinks) :
    destCostsFit p sink src = true := by
  have im : intMax = 2147483647 := rfl
  unfold destCostsFit
  rw [List.all_eq_true]
  intro dst hd
  have hd' : dst < p.nbSinks := by simpa using hd
  have h1 := h dst hd'
  have h2 := h sink hs
  have : fitsInt32 (p.movingCost src sink dst) := by
    unfold fitsInt32 Problem.movingCost
    omega
  simp [this]

lemma sendStepC_ok (p : Problem) (m : Int) (alloc : Mat) (qs : Queues) (snk1 snk2 sentSrc : Nat) (st : Step)
    (h : sendStep p m alloc qs snk1 snk2 sentSrc = .ok st) (hd : destCostsFit p snk1 sentSrc = true)
    (h1 : fitsInt64 (get2 alloc snk1 sentSrc + m))
    (h2 : fitsInt64 (get2 (add2 alloc snk1 sentSrc m) snk1 st.newSrc - m)) :
    sendStepC p m alloc qs snk1 snk2 sentSrc = .ok st := by
  unfold sendStepC
  rw [hd, Bool.or_true, if_pos rfl, h]
  simp only [addI64, subI64, chk64_ok h1, chk64_ok h2]

/-- the typed intermediates of one round of the walk, from the walk invariant -/
lemma sendStepC_of_winv (p : Problem) (s : St) (d : Nat → Int) (m : Int) (hm : 0 < m)
    (alloc : Mat) (qs : Queues) (snk1 snk2 sentSrc : Nat) (nu : Bool) (st : Step)
    (hw : WInv p s d alloc qs nu) (hs1 : snk1 < p.nbSinks) (hss : sentSrc < p.nbSources)
    (hns : st.newSrc < p.nbSources)
    (h : sendStep p m alloc qs snk1 snk2 sentSrc = .ok st)
    (hcost : ∀ i j, i < p.nbSinks → j < p.nbSources → 0 ≤ p.cost i j ∧ p.cost i j ≤ intMax)
    (hR : rowSum s.alloc p.nbSources snk1 ≤ Qmax) (hmQ : m ≤ Qmax) :
    sendStepC p m alloc qs snk1 snk2 sentSrc = .ok st := by
  have hq : Qmax = 2305843009213693952 := rfl
  have hrs := hw.rsum snk1
  have b1 := get2_le_rowSum alloc p.nbSources snk1 sentSrc (hw.nn snk1) hss
  have b2 := get2_le_rowSum alloc p.nbSources snk1 st.newSrc (hw.nn snk1) hns
  have n1 := hw.nn snk1 sentSrc
  have n2 := hw.nn snk1 st.newSrc
  have hl : sentSrc < (alloc.getD snk1 []).length := by rw [hw.rows snk1 hs1]; exact hss
  apply sendStepC_ok p m alloc qs snk1 snk2 sentSrc st h
    (destCostsFit_of p snk1 sentSrc (fun i hi => hcost i sentSrc hi hss) hs1)
  · unfold fitsInt64; omega
  · rw [get2_add2_row alloc snk1 sentSrc m hl]
    unfold fitsInt64
    split <;> omega

/-- **the second walk, checked**: `sendLoop_total` with the checked walk next to the unbounded one -/
lemma sendLoopC_total (p : Problem) (s : St) (d : Nat → Int) (m : Int) (hm : 0 < m)
    (hcap : ∀ i, i < p.nbSinks → s.remCapa.getD i 0 = 0 → 0 < rowSum s.alloc p.nbSources i)
    (hedge : ∀ i k, i < p.nbSinks → s.parent.getD i none = some k →
      s.remCapa.getD i 0 = 0 ∧ k < p.nbSinks ∧ k ≠ i ∧
      d i = (hget (qget s.queues i k) 0).cost + d k)
    (hcost : ∀ i j, i < p.nbSinks → j < p.nbSources → 0 ≤ p.cost i j ∧ p.cost i j ≤ intMax)
    (hR : ∀ i, i < p.nbSinks → rowSum s.alloc p.nbSources i ≤ Qmax) (hmQ : m ≤ Qmax) :
    ∀ (fuel k snk1 : Nat) (q ms : Int) (root : Nat) (alloc : Mat) (qs : Queues) (sentSrc : Nat) (nu : Bool),
      maxSentLoop s.alloc s.queues s.parent fuel snk1 q = .ok (ms, root) → m ≤ ms →
      depthIs s.parent k snk1 → snk1 < p.nbSinks → sentSrc < p.nbSources →
      (∀ y k', k' ≤ k → depthIs s.parent k' y →
        alloc.getD y [] = s.alloc.getD y [] ∧ qs.getD y #[] = s.queues.getD y #[]) →
      WInv p s d alloc qs nu →
      (∀ k', k' < p.nbSinks → p.cost snk1 sentSrc + d snk1 ≤ p.cost k' sentSrc + d k') →
      ∃ w, sendLoop p s.remCapa s.parent m fuel alloc qs snk1 sentSrc nu = .ok w ∧
        sendLoopC p s.remCapa s.parent m fuel alloc qs snk1 sentSrc nu = .ok w ∧
        WInv p s d w.alloc w.queues w.needUpdate ∧ w.root = root ∧ w.src < p.nbSources ∧
        w.root < p.nbSinks ∧
        (∀ k', k' < p.nbSinks → p.cost w.root w.src + d w.root ≤ p.cost k' w.src + d k') := by
  intro fuel
  induction fuel with
  | zero => intro k snk1 q ms root alloc qs sentSrc nu h; simp [maxSentLoop] at h
  | succ fuel ih =>
    intro k snk1 q ms root alloc qs sentSrc nu h1 hle hdep hs1 hss hrows hw hP2
    unfold maxSentLoop at h1
    unfold sendLoop sendLoopC
    split at h1
    · rename_i hp
      simp only [Except.ok.injEq, Prod.mk.injEq] at h1
      simp only [hp]
      exact ⟨_, rfl, rfl, hw, h1.2, hss, hs1, hP2⟩
    · rename_i snk2 hp
      split at h1; · exact absurd h1 (by simp)
      rename_i src0 hsrc0
      split at h1
      · cases k with
        | zero =>
          simp only [depthIs] at hdep
          rw [hdep] at hp; exact absurd hp (by simp)
        | succ k =>
          obtain ⟨y, hy, hdy⟩ := hdep
          rw [hp] at hy
          injection hy with hy
          subst hy
          obtain ⟨hfull, hs2, hne21, hP3s⟩ := hedge snk1 snk2 hs1 hp
          have hne : snk1 ≠ snk2 := fun e => hne21 e.symm
          have hc : (s.remCapa.getD snk1 0 != 0) = false := by rw [hfull]; rfl
          simp only [hp, hc, Bool.false_eq_true, if_false]
          obtain ⟨hrow1a, hrow1q⟩ := hrows snk1 (k + 1) (Nat.le_refl _) ⟨snk2, hp, hdy⟩
          have hms := maxSentLoop_le _ _ _ _ _ _ _ _ h1
          have hsrc0' : (hget (qget qs snk1 snk2) 0).elt = src0 := by
            rw [qget_row qs s.queues snk1 snk2 hrow1q]
            unfold sentSourceQ qtop at hsrc0
            split at hsrc0
            · exact absurd hsrc0 (by simp [Except.map])
            · simp only [Except.map, Except.ok.injEq] at hsrc0
              exact hsrc0
          have hbound : m ≤ get2 alloc snk1 (hget (qget qs snk1 snk2) 0).elt := by
            rw [hsrc0', get2_row alloc s.alloc snk1 src0 hrow1a]
            have := min_le_right q (get2 s.alloc snk1 src0)
            omega
          have hP3 : d snk1 = (hget (qget qs snk1 snk2) 0).cost + d snk2 := by
            rw [qget_row qs s.queues snk1 snk2 hrow1q]; exact hP3s
          obtain ⟨st, hst, hw', hnsM, hra, hrq, hP2'⟩ := sendStep_winv p s d m hm alloc qs snk1 snk2 sentSrc nu
            hw hs1 hs2 hne hss hfull hp (hcap snk1 hs1 hfull) hbound hP2 hP3
          have hstC := sendStepC_of_winv p s d m hm alloc qs snk1 snk2 sentSrc nu st hw hs1 hss hnsM hst hcost
            (hR snk1 hs1) hmQ
          rw [hst, hstC]
          simp only []
          refine ih k snk2 _ ms root st.alloc st.queues st.newSrc _ h1 hle hdy hs2 hnsM ?_ hw' hP2'
          intro y k' hk' hdy'
          have hney : y ≠ snk1 := by
            intro e
            subst e
            have := depthIs_unique s.parent _ _ _ hdy' (show depthIs s.parent (k + 1) y from ⟨snk2, hp, hdy⟩)
            omega
          obtain ⟨e1, e2⟩ := hrows y k' (by omega) hdy'
          exact ⟨(hra y hney).trans e1, (hrq y hney).trans e2⟩
      · exact absurd h1 (by simp)


/-! ### the tail of `sendSource(src, sink, quantity)` -/

/-- largest stored cost allowed by `3·cost < INT_MAX` -/
def Cmax : Int := 715827882

lemma cost_le_Cmax {p : Problem} (hcb : CostBound p) (i j : Nat) (hi : i < p.nbSinks) (hj : j < p.nbSources) :
    p.cost i j ≤ Cmax := by
  have := (hcb i j hi hj).1
  have im : intMax = 2147483647 := rfl
  unfold Cmax
  omega

lemma initQueuesC_ok (p : Problem) (alloc : Mat) (sink : Nat) (hs : sink < p.nbSinks)
    (hcost : ∀ i j, i < p.nbSinks → j < p.nbSources → 0 ≤ p.cost i j ∧ p.cost i j ≤ intMax) :
    initQueuesC p alloc sink = .ok (initQueues p alloc sink) := by
  unfold initQueuesC
  rw [if_pos]
  rw [List.all_eq_true]
  intro src hsrc
  have hs' : src < p.nbSources := by
    have := (List.mem_filter.mp hsrc).1
    simpa using this
  exact destCostsFit_of p sink src (fun i hi => hcost i src hi hs') hs

lemma finishSendC_total (p : Problem) (s : St) (queues : Queues) (root : Nat) (nu : Bool) (alloc' : Mat)
    (rem' : List Int) (m : Int) (qs' : Queues) (d : Nat → Int)
    (hq : qs' = if rem'.getD root 0 == 0 then queues.setIfInBounds root (initQueues p alloc' root) else queues)
    (hmid : Mid p alloc' qs' rem') (hpot : Pot p alloc' rem' d) (hdle : ∀ i, i < p.nbSinks → d i ≤ Wmax)
    (hcb : CostBound p) (hcap : ∀ i, i < p.nbSinks → 0 < p.capacity i)
    (hlazy : nu = false → ¬ rem'.getD root 0 = 0 → (∃ f, f < p.nbSinks ∧ rem'.getD f 0 > 0) →
      TreeOK p alloc' queues rem' s.sendCost s.parent)
    (hroot : root < p.nbSinks) (hnn : ∀ i j, i < p.nbSinks → j < p.nbSources → 0 ≤ p.cost i j) :
    ∃ s', finishSend p s queues root nu alloc' rem' m = .ok (s', m) ∧
      finishSendC p s queues root nu alloc' rem' m = .ok (s', m) ∧
      s'.alloc = alloc' ∧ s'.queues = qs' ∧ s'.remCapa = rem' ∧
      ((∃ f, f < p.nbSinks ∧ rem'.getD f 0 > 0) → TreeOK p alloc' qs' rem' s'.sendCost s'.parent) := by
  have im : intMax = 2147483647 := rfl
  have hcost : ∀ i j, i < p.nbSinks → j < p.nbSources → 0 ≤ p.cost i j ∧ p.cost i j ≤ Cmax :=
    fun i j hi hj => ⟨hnn i j hi hj, cost_le_Cmax hcb i j hi hj⟩
  have hcost' : ∀ i j, i < p.nbSinks → j < p.nbSources → 0 ≤ p.cost i j ∧ p.cost i j ≤ intMax := by
    intro i j hi hj
    have := hcost i j hi hj
    unfold Cmax at this
    omega
  obtain ⟨s', hfin, e1, e2, e3, htree⟩ :=
    finishSend_total p s queues root nu alloc' rem' m qs' d hq hmid hpot hdle hcb hcap hlazy
  refine ⟨s', hfin, ?_, e1, e2, e3, htree⟩
  unfold finishSend at hfin
  simp only [] at hfin
  rw [← hq] at hfin
  unfold finishSendC
  rw [initQueuesC_ok p alloc' root hroot hcost']
  have hqs : (if (rem'.getD root 0 == 0) = true then
        (Except.ok (queues.setIfInBounds root (initQueues p alloc' root)) : Except Fault Queues)
      else .ok queues) = .ok qs' := by
    rw [hq]; split <;> rfl
  simp only [hqs]
  by_cases hc : (nu || rem'.getD root 0 == 0) = true
  · rw [if_pos hc] at hfin ⊢
    obtain ⟨t, hC, hU, _⟩ := updateTreeC_at_mid p alloc' qs' rem' d hmid hpot
      (fun i hi => by have := hdle i hi; unfold Wmax at this; omega) Cmax hcost (by unfold Cmax; omega)
      (by unfold Cmax; omega) hcap
    rw [hU] at hfin
    rw [hC]
    simp only [] at hfin ⊢
    rw [Except.ok.inj hfin]
  · rw [if_neg hc] at hfin ⊢
    rw [Except.ok.inj hfin]

/-- **one call `sendSource(src, bestSink(src), quantity)`, checked** -/
lemma sendSource3C_total (p : Problem) (hcb : CostBound p) (hcap : ∀ i, i < p.nbSinks → 0 < p.capacity i)
    (hnn : ∀ i j, i < p.nbSinks → j < p.nbSources → 0 ≤ p.cost i j)
    (hcapQ : ∀ i, i < p.nbSinks → p.capacity i ≤ Qmax)
    (s : St) (sent : Nat → Int) (src : Nat) (q : Int) (hg : Good p s sent) (hsrc : src < p.nbSources)
    (hq : 0 < q) (hqQ : q ≤ Qmax) (hfree : ∃ f, f < p.nbSinks ∧ s.remCapa.getD f 0 > 0) :
    ∃ s' m, sendSource3 p s src (bestSink p s.sendCost src) q = .ok (s', m) ∧
      sendSource3C p s src (bestSink p s.sendCost src) q = .ok (s', m) ∧
      Good p s' (fun j => sent j + (if j = src then m else 0)) ∧ 0 < m ∧ m ≤ q ∧
      sumTo p.nbSinks (fun i => s'.remCapa.getD i 0) = sumTo p.nbSinks (fun i => s.remCapa.getD i 0) - m := by
  have hQ : Qmax = 2305843009213693952 := rfl
  have im : intMax = 2147483647 := rfl
  have hcost' : ∀ i j, i < p.nbSinks → j < p.nbSources → 0 ≤ p.cost i j ∧ p.cost i j ≤ intMax := by
    intro i j hi hj
    have := cost_le_Cmax hcb i j hi hj
    have := hnn i j hi hj
    unfold Cmax at *
    omega
  have hRow : ∀ i, i < p.nbSinks → rowSum s.alloc p.nbSources i ≤ Qmax := by
    intro i hi
    have := hg.mid.row i
    have := hg.mid.rnn i
    have := hcapQ i hi
    omega
  have tr := hg.tree hfree
  have hn : 0 < p.nbSinks := by obtain ⟨f, hf, _⟩ := hfree; omega
  obtain ⟨hsink, hP2⟩ := bestSink_spec p s.sendCost src hn
    (fun i hi => hcb.sum i src hi hsrc _ (tr.le i hi))
  have hcapfull := hg.mid.rowpos hcap
  obtain ⟨k, hk, hdep⟩ := tr.depth _ hsink
  have hedgeM : ∀ i k, i < p.nbSinks → s.parent.getD i none = some k →
      k < p.nbSinks ∧ 0 < (qget s.queues i k).size ∧ 0 < get2 s.alloc i (hget (qget s.queues i k) 0).elt := by
    intro i k hi hpar
    obtain ⟨hf, hk, hne, _⟩ := tr.edge i k hi hpar
    exact ⟨hk, hg.mid.qnonempty hcap i k hi hk hne hf, (hg.mid.top hcap i k hi hk hne hf).2.2⟩
  obtain ⟨ms, root, hms, hmspos, hrootn, hrootpar⟩ :=
    maxSentLoop_total s.alloc s.queues s.parent p.nbSinks hedgeM k (p.nbSinks + 1) _ q hdep (by omega) hsink hq
  have hrootfree := tr.root root hrootn hrootpar
  have hm : min ms (s.remCapa.getD root 0) > 0 := by
    show 0 < min ms (s.remCapa.getD root 0)
    rw [lt_min_iff]; exact ⟨hmspos, hrootfree⟩
  have hmsq := maxSentLoop_le _ _ _ _ _ _ _ _ hms
  have hmQ : min ms (s.remCapa.getD root 0) ≤ Qmax := by
    have := min_le_left ms (s.remCapa.getD root 0)
    omega
  have hw0 : WInv p s (fun i => s.sendCost.getD i 0) s.alloc s.queues false :=
    ⟨hg.mid.shape.rows, hg.mid.shape.qsize, hg.mid.nn, hg.mid.qrow, tr.pot.red, fun _ => rfl,
      fun i k hi hpar _ => (tr.edge i k hi hpar).2.2.2⟩
  obtain ⟨w, hwok, hwokC, hw, hwroot, hwsrc, hwrootn, hP2f⟩ :=
    sendLoopC_total p s (fun i => s.sendCost.getD i 0) _ hm hcapfull tr.edge hcost' hRow hmQ (p.nbSinks + 1) k _ q ms root
      s.alloc s.queues src false hms (min_le_left _ _) hdep hsink hsrc (fun _ _ _ _ => ⟨rfl, rfl⟩) hw0
      (fun k' hk' => hP2 k' hk')
  have hl : w.src < (w.alloc.getD w.root []).length := by rw [hw.rows w.root hwrootn]; exact hwsrc
  have hrl : w.root < s.remCapa.length := by rw [hg.mid.shape.rlen]; exact hwrootn
  have hmle : min ms (s.remCapa.getD root 0) ≤ s.remCapa.getD w.root 0 := by rw [hwroot]; exact min_le_right _ _
  obtain ⟨hmid', hpot'⟩ := mid_after p s (fun i => s.sendCost.getD i 0) w (min ms (s.remCapa.getD root 0))
    _ _ _ rfl rfl rfl hg.mid tr.pot hw hwrootn hwsrc hm hmle hP2f
  obtain ⟨s', hfin, hfinC, e1, e2, e3, htree'⟩ := finishSendC_total p s w.queues w.root w.needUpdate _ _
    (min ms (s.remCapa.getD root 0)) _ (fun i => s.sendCost.getD i 0) rfl hmid' hpot' tr.le hcb hcap
    (by
      intro hnu hnz hfree'
      refine ⟨hpot', tr.le, fun i hi hpar => ?_, fun i k hi hpar => ?_, tr.depth⟩
      · have h0 := tr.root i hi hpar
        rw [getD_set_int]
        by_cases e : i = w.root
        · subst e
          rw [getD_set_int] at hnz
          simp only [true_and, hrl, if_true] at hnz ⊢
          omega
        · simp only [e, false_and, if_false]; exact h0
      · obtain ⟨hf, hk, hne, _⟩ := tr.edge i k hi hpar
        have e : i ≠ w.root := by
          intro e; rw [e, hwroot] at hf; omega
        refine ⟨?_, hk, hne, hw.tight i k hi hpar hnu⟩
        rw [getD_set_int]
        simp only [e, false_and, if_false]; exact hf) hwrootn hnn
  have hok : sendSource3 p s src (bestSink p s.sendCost src) q
      = .ok (s', min ms (s.remCapa.getD root 0)) := by
    simp only [sendSource3, hms, hm, if_true, hwok,
      add2?_ok p.nbSinks p.nbSources w.alloc w.root w.src _ hwrootn hwsrc hl, hrl]
    exact hfin
  -- the typed intermediates of the root update
  have hfit1 : fitsInt64 (get2 w.alloc w.root w.src + min ms (s.remCapa.getD root 0)) := by
    have b1 := get2_le_rowSum w.alloc p.nbSources w.root w.src (hw.nn w.root) hwsrc
    have := hw.rsum w.root
    have := hRow w.root hwrootn
    have := hw.nn w.root w.src
    unfold fitsInt64; omega
  have hfit2 : fitsInt64 (s.remCapa.getD w.root 0 - min ms (s.remCapa.getD root 0)) := by
    have := hg.mid.row w.root
    have := hg.mid.rnn w.root
    have := hcapQ w.root hwrootn
    have b1 := (le_sumTo (fun j => get2 s.alloc w.root j) p.nbSources 0 (fun k _ => hg.mid.nn w.root k))
    have hrs : 0 ≤ rowSum s.alloc p.nbSources w.root := by
      by_cases h0 : p.nbSources = 0
      · unfold rowSum; rw [h0]; simp [sumTo]
      · exact (b1 (by omega)).2
    unfold fitsInt64; omega
  have hokC : sendSource3C p s src (bestSink p s.sendCost src) q
      = .ok (s', min ms (s.remCapa.getD root 0)) := by
    simp only [sendSource3C, hms, hm, if_true, hwokC, addI64, subI64, chk64_ok hfit1, chk64_ok hfit2,
      add2?_ok p.nbSinks p.nbSources w.alloc w.root w.src _ hwrootn hwsrc hl, hrl]
    exact hfinC
  obtain ⟨hinv', hm0, hmq⟩ := sendSource3_inv p s sent src _ q s' _ hg.inv hok
  refine ⟨s', _, hok, hokC, ⟨?_, hinv'.col, ?_, ?_⟩, hm0, hmq, ?_⟩
  · rw [e1, e2, e3]; exact hmid'
  · rw [e1, e3]; exact ⟨_, hpot'⟩
  · rw [e1, e2, e3]; exact htree'
  · rw [e3, sumTo_set _ _ _ _ hwrootn hrl]; omega


/-! ### the loops over one source and over all sources -/

lemma bestSinkC_good (p : Problem) (hcb : CostBound p)
    (hnn : ∀ i j, i < p.nbSinks → j < p.nbSources → 0 ≤ p.cost i j)
    (s : St) (sent : Nat → Int) (hg : Good p s sent) (src : Nat) (hsrc : src < p.nbSources)
    (hfree : ∃ f, f < p.nbSinks ∧ s.remCapa.getD f 0 > 0) :
    bestSinkC p s.sendCost src = .ok (bestSink p s.sendCost src) := by
  have tr := hg.tree hfree
  apply bestSinkFromC_ok p s.sendCost src p.nbSinks ?_ p.nbSinks 0 0 intMax (by omega)
  intro i hi
  have h1 := tr.pot.nn i hi
  have h2 := tr.le i hi
  have h3 := hnn i src hi hsrc
  have h4 := cost_le_Cmax hcb i src hi hsrc
  unfold Wmax at h2
  unfold Cmax at h4
  omega

lemma sendSourceLoopC_total (p : Problem) (hcb : CostBound p) (hcap : ∀ i, i < p.nbSinks → 0 < p.capacity i)
    (hnn : ∀ i j, i < p.nbSinks → j < p.nbSources → 0 ≤ p.cost i j)
    (hcapQ : ∀ i, i < p.nbSinks → p.capacity i ≤ Qmax)
    (src : Nat) (hsrc : src < p.nbSources) :
    ∀ (fuel : Nat) (s : St) (rem : Int) (sent : Nat → Int),
      Good p s sent → 0 ≤ rem → rem ≤ fuel → rem ≤ Qmax → rem ≤ sumTo p.nbSinks (fun i => s.remCapa.getD i 0) →
      ∃ s', sendSourceLoop p src fuel s rem = .ok s' ∧ sendSourceLoopC p src fuel s rem = .ok s' ∧
        Good p s' (fun j => sent j + (if j = src then rem else 0)) ∧
        sumTo p.nbSinks (fun i => s'.remCapa.getD i 0) = sumTo p.nbSinks (fun i => s.remCapa.getD i 0) - rem := by
  have hQ : Qmax = 2305843009213693952 := rfl
  intro fuel
  induction fuel with
  | zero =>
    intro s rem sent hg h0 hf _ _
    have : rem = 0 := by omega
    subst this
    refine ⟨s, by simp [sendSourceLoop], by simp [sendSourceLoopC], ?_, by omega⟩
    have e : (fun j => sent j + (if j = src then (0 : Int) else 0)) = sent := by funext j; simp
    rw [e]; exact hg
  | succ fuel ih =>
    intro s rem sent hg h0 hf hrQ hb
    unfold sendSourceLoop sendSourceLoopC
    by_cases hpos : rem > 0
    · rw [if_pos hpos, if_pos hpos]
      have hfree : ∃ f, f < p.nbSinks ∧ s.remCapa.getD f 0 > 0 := by
        obtain ⟨f, hf, hp⟩ := sumTo_pos_exists p.nbSinks (fun i => s.remCapa.getD i 0) (by omega)
        exact ⟨f, hf, hp⟩
      obtain ⟨s1, m, hok, hokC, hg1, hm0, hmq, hbud⟩ :=
        sendSource3C_total p hcb hcap hnn hcapQ s sent src rem hg hsrc hpos hrQ hfree
      rw [hok, bestSinkC_good p hcb hnn s sent hg src hsrc hfree]
      simp only []
      rw [hokC]
      simp only []
      have hm' : m > 0 := hm0
      rw [if_pos hm', if_pos hm']
      have hfit : fitsInt64 (rem - m) := by unfold fitsInt64; omega
      simp only [subI64, chk64_ok hfit]
      obtain ⟨s', hok', hokC', hg', hbud'⟩ :=
        ih s1 (rem - m) _ hg1 (by omega) (by push_cast at hf ⊢; omega) (by omega) (by omega)
      refine ⟨s', hok', hokC', ?_, by omega⟩
      have e : (fun j => sent j + (if j = src then m else 0) + (if j = src then rem - m else 0))
          = (fun j => sent j + (if j = src then rem else 0)) := by
        funext j; split <;> omega
      rw [← e]; exact hg'
    · rw [if_neg hpos, if_neg hpos]
      have : rem = 0 := by omega
      subst this
      refine ⟨s, rfl, rfl, ?_, by omega⟩
      have e : (fun j => sent j + (if j = src then (0 : Int) else 0)) = sent := by funext j; simp
      rw [e]; exact hg

lemma runSourcesC_total (p : Problem) (hcb : CostBound p) (hcap : ∀ i, i < p.nbSinks → 0 < p.capacity i)
    (hnn : ∀ i j, i < p.nbSinks → j < p.nbSources → 0 ≤ p.cost i j)
    (hcapQ : ∀ i, i < p.nbSinks → p.capacity i ≤ Qmax)
    (hdem : ∀ j, 0 ≤ p.demand j) (hdemQ : ∀ j, p.demand j ≤ Qmax) :
    ∀ (L : List Nat) (s : St) (sent : Nat → Int),
      Good p s sent → (∀ j, j ∈ L → j < p.nbSources) →
      (L.map p.demand).sum ≤ sumTo p.nbSinks (fun i => s.remCapa.getD i 0) →
      ∃ s', runSources p L s = .ok s' ∧ runSourcesC p L s = .ok s' ∧
        Good p s' (fun j => sent j + (L.count j : Int) * p.demand j) := by
  intro L
  induction L with
  | nil =>
    intro s sent hg _ _
    refine ⟨s, rfl, rfl, ?_⟩
    have e : (fun j => sent j + (([] : List Nat).count j : Int) * p.demand j) = sent := by funext j; simp
    rw [e]; exact hg
  | cons a L ih =>
    intro s sent hg hL hb
    simp only [List.map_cons, List.sum_cons] at hb
    have hLnn : 0 ≤ (L.map p.demand).sum := by
      clear hb ih hL
      induction L with
      | nil => simp
      | cons b L ih => simp only [List.map_cons, List.sum_cons]; have := hdem b; omega
    obtain ⟨s1, hok1, hokC1, hg1, hbud1⟩ := sendSourceLoopC_total p hcb hcap hnn hcapQ a (hL a (by simp))
      (p.demand a).toNat s (p.demand a) sent hg (hdem a) (by rw [Int.toNat_of_nonneg (hdem a)]) (hdemQ a) (by omega)
    obtain ⟨s', hok', hokC', hg'⟩ := ih s1 _ hg1 (fun j hj => hL j (by simp [hj])) (by omega)
    refine ⟨s', ?_, ?_, ?_⟩
    · unfold runSources sendSource
      rw [hok1]
      exact hok'
    · unfold runSourcesC sendSourceC
      rw [hokC1]
      exact hokC'
    · have e : (fun j => sent j + (if j = a then p.demand a else 0) + (L.count j : Int) * p.demand j)
          = (fun j => sent j + ((a :: L).count j : Int) * p.demand j) := by
        funext j
        rw [List.count_cons]
        by_cases e : j = a
        · subst e; simp; ring
        · have e' : ¬ a = j := fun hh => e hh.symm
          simp [e, e']
      rw [← e]; exact hg'

/-! ### `run`, `solve` -/

/-- the C07 domain of the general transportation solver: positive capacities and demands (`check()`), demand fits in
capacity, the stored costs are non-negative with `3·cost < INT_MAX` (C13's `costBoundOk`; the
fixed-point scaling of `costsFromIntegers` delivers `[0, 2^29]`), totals at most `2^61` -/
structure RunDom (p : Problem) : Prop where
  capPos : ∀ i, i < p.nbSinks → 0 < p.capacity i
  demPos : ∀ j, j < p.nbSources → 0 < p.demand j
  bal : p.totalDemand ≤ p.totalCapacity
  cb : CostBound p
  cnn : ∀ i j, i < p.nbSinks → j < p.nbSources → 0 ≤ p.cost i j
  capQ : p.totalCapacity ≤ Qmax

lemma getD_le_sum (l : List Int) (h : ∀ i, i < l.length → 0 < l.getD i 0) (i : Nat) : l.getD i 0 ≤ max l.sum 0 := by
  by_cases hi : i < l.length
  · have := (le_sumTo (fun i => l.getD i 0) l.length i (fun k hk => le_of_lt (h k hk)) hi).1
    rw [sumTo_list] at this
    omega
  · have : l.getD i 0 = 0 := by simp [List.getD_eq_getElem?_getD, Nat.not_lt.mp hi]
    omega

theorem runC_total (p : Problem) (hd : RunDom p) :
    ∃ s, run p = .ok s ∧ runC p = .ok s ∧ Good p s (fun j => if j < p.nbSources then p.demand j else 0) := by
  have hQ : Qmax = 2305843009213693952 := rfl
  have hcap := hd.capPos
  have hdem := hd.demPos
  have hc0 : ∀ i, 0 ≤ p.capacity i := getD_nonneg_of_pos _ hcap
  have hd0 : ∀ j, 0 ≤ p.demand j := getD_nonneg_of_pos _ hdem
  have hcapQ : ∀ i, i < p.nbSinks → p.capacity i ≤ Qmax := by
    intro i _
    have := getD_le_sum p.capacities hcap i
    have := hd.capQ
    unfold Problem.totalCapacity at this
    unfold Problem.capacity
    omega
  have hdemQ : ∀ j, p.demand j ≤ Qmax := by
    intro j
    have := getD_le_sum p.demands hdem j
    have h1 := hd.capQ
    have h2 := hd.bal
    unfold Problem.totalDemand at h2
    unfold Problem.demand
    omega
  have hperm : (sortedSourcesByDemand p).Perm (List.range p.nbSources) := List.mergeSort_perm _ _
  have hbud : ((sortedSourcesByDemand p).map p.demand).sum
      ≤ sumTo p.nbSinks (fun i => (initSt p).remCapa.getD i 0) := by
    rw [perm_sum_map p.demand hperm, sum_map_range]
    have e1 : sumTo p.nbSources p.demand = p.totalDemand := sumTo_list p.demands
    have e2 : sumTo p.nbSinks (fun i => (initSt p).remCapa.getD i 0) = p.totalCapacity := sumTo_list p.capacities
    rw [e1, e2]; exact hd.bal
  obtain ⟨s, hok, hokC, hg⟩ := runSourcesC_total p hd.cb hcap hd.cnn hcapQ hd0 hdemQ (sortedSourcesByDemand p) (initSt p)
    (fun _ => 0) (initSt_good p hcap hc0) (fun j hj => by simpa using (hperm.mem_iff.mp hj)) hbud
  refine ⟨s, hok, ?_, ?_⟩
  · unfold runC
    rw [if_pos]
    · exact hokC
    · rw [List.all_eq_true]
      intro x hx
      obtain ⟨i, hi, e⟩ := List.getElem_of_mem hx
      have h1 := hdem i hi
      have h2 := hdemQ i
      have e' : p.demand i = x := by
        unfold Problem.demand
        rw [List.getD_eq_getElem?_getD, List.getElem?_eq_getElem hi, e]; rfl
      rw [e'] at h2
      unfold Problem.demand at h1
      rw [List.getD_eq_getElem?_getD, List.getElem?_eq_getElem hi, e] at h1
      simp only [Option.getD_some] at h1
      simp only [decide_eq_true_eq]
      unfold fitsInt64
      omega
  · have e : (fun j => (0 : Int) + ((sortedSourcesByDemand p).count j : Int) * p.demand j)
        = (fun j => if j < p.nbSources then p.demand j else 0) := by
      funext j
      rw [count_sorted]
      split <;> simp
    rw [← e]; exact hg

/-- **`solve()`, checked = unbounded** -/
theorem solveC_eq (p : Problem) (hd : RunDom p) : ∃ q, solve p = .ok q ∧ solveC p = .ok q := by
  obtain ⟨s, h1, h2, _⟩ := runC_total p hd
  exact ⟨{ p with allocations := s.alloc }, by unfold solve; rw [h1], by unfold solveC; rw [h2]⟩


/-! ### `increaseCapacity` -/

lemma accC_ok (site : String) : ∀ (l : List Int) (acc : Int), (∀ x, x ∈ l → 0 ≤ x) → 0 ≤ acc →
    acc + l.sum ≤ 9223372036854775807 → accC site l acc = .ok (acc + l.sum) := by
  intro l
  induction l with
  | nil => intro acc _ _ _; simp [accC]
  | cons x xs ih =>
    intro acc hnn h0 hb
    have hx := hnn x (by simp)
    have hs : 0 ≤ xs.sum := by
      clear ih hb
      induction xs with
      | nil => simp
      | cons y ys ih2 =>
        simp only [List.sum_cons]
        have := hnn y (by simp)
        have := ih2 (fun z hz => hnn z (by
          rcases List.mem_cons.mp hz with e | e
          · simp [e]
          · simp [e]))
        omega
    simp only [List.sum_cons] at hb
    have hfit : fitsInt64 (acc + x) := by unfold fitsInt64; omega
    unfold accC
    simp only [addI64, chk64_ok hfit]
    rw [ih (acc + x) (fun z hz => hnn z (by simp [hz])) (by omega) (by omega)]
    simp only [List.sum_cons]
    congr 1
    omega

lemma incCapsFit_ok (added rest : Int) (ha0 : 0 ≤ added) (haQ : added ≤ Qmax) :
    ∀ (cs : List Int) (i : Nat), (∀ c, c ∈ cs → 0 ≤ c ∧ c ≤ Qmax) → incCapsFit added rest i cs = true := by
  have hQ : Qmax = 2305843009213693952 := rfl
  intro cs
  induction cs with
  | nil => intro i _; rfl
  | cons c cs ih =>
    intro i h
    have hc := h c (by simp)
    unfold incCapsFit
    have f1 : fitsInt64 (c + added) := by unfold fitsInt64; omega
    have f2 : fitsInt64 (c + added + 1) := by unfold fitsInt64; omega
    simp [f1, f2, ih (i + 1) (fun z hz => h z (by simp [hz]))]

lemma mem_le_sum_of_pos (l : List Int) (h : ∀ i, i < l.length → 0 < l.getD i 0) (x : Int) (hx : x ∈ l) :
    0 ≤ x ∧ x ≤ max l.sum 0 := by
  obtain ⟨i, hi, e⟩ := List.getElem_of_mem hx
  have e' : l.getD i 0 = x := by
    rw [List.getD_eq_getElem?_getD, List.getElem?_eq_getElem hi, e]; rfl
  have h1 := h i hi
  have h2 := getD_le_sum l h i
  omega

/-- domain of the whole sequence `increaseCapacity(); solve(); toAssignment()` as `DensityLegalizer::reoptimize`
runs it: the problem passes `check()`, there is a sink, the stored costs are non-negative with
`3·cost < INT_MAX`, total demand and total capacity are at most `2^61` -/
structure AssignDom (p : Problem) : Prop where
  chk : p.check = true
  sinks : 0 < p.nbSinks
  cb : CostBound p
  cnn : ∀ i j, i < p.nbSinks → j < p.nbSources → 0 ≤ p.cost i j
  capQ : p.totalCapacity ≤ Qmax
  demQ : p.totalDemand ≤ Qmax

theorem increaseCapacityC_eq (asr : Bool) (p : Problem) (hd : AssignDom p) :
    increaseCapacityC asr p = .ok p.increaseCapacity := by
  have hQ : Qmax = 2305843009213693952 := rfl
  obtain ⟨hcap, hdem⟩ := check_facts p hd.chk
  have hdnn : ∀ x, x ∈ p.demands → 0 ≤ x := fun x hx => (mem_le_sum_of_pos p.demands hdem x hx).1
  have hcnn : ∀ x, x ∈ p.capacities → 0 ≤ x := fun x hx => (mem_le_sum_of_pos p.capacities hcap x hx).1
  have hdQ := hd.demQ
  have hcQ := hd.capQ
  unfold Problem.totalDemand at hdQ
  unfold Problem.totalCapacity at hcQ
  have htd0 : 0 ≤ p.demands.sum := by
    have := (le_sumTo (fun i => p.demands.getD i 0) p.demands.length 0 (fun k hk => le_of_lt (hdem k hk)))
    by_cases h0 : p.demands.length = 0
    · have : p.demands = [] := List.eq_nil_of_length_eq_zero h0
      rw [this]; simp
    · have := (this (by omega)).2
      rw [sumTo_list] at this
      exact this
  have htc0 : 0 ≤ p.capacities.sum := by
    have := (le_sumTo (fun i => p.capacities.getD i 0) p.capacities.length 0 (fun k hk => le_of_lt (hcap k hk)))
    have hn := hd.sinks
    unfold Problem.nbSinks at hn
    have := (this (by omega)).2
    rw [sumTo_list] at this
    exact this
  unfold increaseCapacityC
  rw [accC_ok _ p.demands 0 hdnn (by omega) (by omega), accC_ok _ p.capacities 0 hcnn (by omega) (by omega)]
  simp only [Int.zero_add]
  have f1 : fitsInt64 (p.demands.sum - p.capacities.sum) := by unfold fitsInt64; omega
  simp only [subI64, chk64_ok f1]
  have hmiss : p.missing = p.demands.sum - p.capacities.sum := rfl
  unfold Problem.increaseCapacity
  rw [hmiss]
  by_cases hle : p.demands.sum - p.capacities.sum ≤ 0
  · rw [if_pos hle, if_pos hle]
  · rw [if_neg hle, if_neg hle]
    have hnpos : (0 : Int) < (p.nbSinks : Int) := by have := hd.sinks; omega
    have hne : ¬ ((p.nbSinks : Int) = 0) := by omega
    have hm0 : 0 ≤ p.demands.sum - p.capacities.sum := by omega
    have hadd : p.added = (p.demands.sum - p.capacities.sum) / (p.nbSinks : Int) := by
      unfold Problem.added
      rw [hmiss, Int.tdiv_eq_ediv_of_nonneg hm0]
    have ha0 : 0 ≤ (p.demands.sum - p.capacities.sum) / (p.nbSinks : Int) := Int.ediv_nonneg hm0 (le_of_lt hnpos)
    have hale : (p.demands.sum - p.capacities.sum) / (p.nbSinks : Int) ≤ p.demands.sum - p.capacities.sum :=
      Int.ediv_le_self _ hm0
    have hdm := Int.ediv_mul_add_emod (p.demands.sum - p.capacities.sum) (p.nbSinks : Int)
    have hr0 := Int.emod_nonneg (p.demands.sum - p.capacities.sum) hne
    have hr1 := Int.emod_lt_of_pos (p.demands.sum - p.capacities.sum) hnpos
    have hd0 : 0 ≤ (p.demands.sum - p.capacities.sum) / (p.nbSinks : Int) * (p.nbSinks : Int) :=
      Int.mul_nonneg ha0 (le_of_lt hnpos)
    have f2 : fitsInt64 ((p.demands.sum - p.capacities.sum) / (p.nbSinks : Int)) := by
      unfold fitsInt64; omega
    have f3 : fitsInt64 ((p.demands.sum - p.capacities.sum) / (p.nbSinks : Int) * (p.nbSinks : Int)) := by
      unfold fitsInt64; omega
    have f4 : fitsInt64 ((p.demands.sum - p.capacities.sum) -
        (p.demands.sum - p.capacities.sum) / (p.nbSinks : Int) * (p.nbSinks : Int)) := by
      unfold fitsInt64; omega
    simp only [divI64, if_neg hne, chk64_ok f2, Int.tdiv_eq_ediv_of_nonneg hm0, mulI64, chk64_ok f3, chk64_ok f4]
    have hasrt : (decide (0 ≤ (p.demands.sum - p.capacities.sum) -
          (p.demands.sum - p.capacities.sum) / (p.nbSinks : Int) * (p.nbSinks : Int)) &&
        decide ((p.demands.sum - p.capacities.sum) -
          (p.demands.sum - p.capacities.sum) / (p.nbSinks : Int) * (p.nbSinks : Int) < (p.nbSinks : Int))) = true := by
      rw [Bool.and_eq_true, decide_eq_true_eq, decide_eq_true_eq]
      omega
    rw [assertC_true asr _ hasrt]
    simp only []
    rw [incCapsFit_ok _ _ ha0 (by omega) p.capacities 0
      (fun c hc => by have := mem_le_sum_of_pos p.capacities hcap c hc; omega), if_pos rfl, hadd]

/-- the domain carries over to the problem with increased capacities -/
theorem runDom_increaseCapacity (p : Problem) (hd : AssignDom p) : RunDom p.increaseCapacity := by
  obtain ⟨hcap, hdem⟩ := check_facts p hd.chk
  obtain ⟨hbal, hmono, hns, hdems, hcosts, _, htot⟩ := C13.increaseCapacity_covers p hd.sinks
  have hsrc : p.increaseCapacity.nbSources = p.nbSources := by unfold Problem.nbSources; rw [hdems]
  have hcost : ∀ i j, p.increaseCapacity.cost i j = p.cost i j := by
    intro i j; unfold Problem.cost; rw [hcosts]
  refine ⟨fun i hi => ?_, fun j hj => ?_, hbal, fun i j hi hj => ?_, fun i j hi hj => ?_, ?_⟩
  · have := hcap i (by omega)
    have := hmono i
    omega
  · have e : p.increaseCapacity.demand j = p.demand j := by unfold Problem.demand; rw [hdems]
    rw [e]; exact hdem j (by omega)
  · rw [hcost]; exact hd.cb i j (by omega) (by omega)
  · rw [hcost]; exact hd.cnn i j (by omega) (by omega)
  · by_cases h : p.totalCapacity < p.totalDemand
    · rw [htot h]; exact hd.demQ
    · have e : p.increaseCapacity = p := by
        unfold Problem.increaseCapacity
        rw [if_pos]
        unfold Problem.missing
        omega
      rw [e]; exact hd.capQ

/-- **`increaseCapacity(); solve(); toAssignment()`: checked = unbounded, no fault** -/
theorem assignC_eq (asr : Bool) (p : Problem) (hd : AssignDom p) :
    ∃ a, assign p = .ok a ∧ assignC asr p = .ok a := by
  obtain ⟨q, h1, h2⟩ := solveC_eq p.increaseCapacity (runDom_increaseCapacity p hd)
  refine ⟨q.toAssignment, ?_, ?_⟩
  · unfold assign; rw [h1]
  · unfold assignC; rw [increaseCapacityC_eq asr p hd]; simp only []; rw [h2]

end ColoVerif.Transp
