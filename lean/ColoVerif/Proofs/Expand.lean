import ColoVerif.Model.Expand
import ColoVerif.Proofs.Freespace
/-
Helper lemmas for C18 (core Lean only): truncation, the frame of the two expansion loops, the carried
missing area, the area identity of `expandCells`, the cap of `expandCellsByFactor`, `regionMax`.
-/
namespace ColoVerif
namespace Expand

/-! ### truncation -/

theorem truncRat_eq_floor (q : Rat) (h : 0 ≤ q) : truncRat q = q.floor := by
  have hn : 0 ≤ q.num := Rat.num_nonneg.mpr h
  rw [truncRat, Rat.floor_def, Int.tdiv_eq_ediv_of_nonneg hn]

theorem truncRat_le (q : Rat) (h : 0 ≤ q) : (truncRat q : Rat) ≤ q := by
  rw [truncRat_eq_floor q h]; exact Rat.floor_le q

theorem lt_truncRat_add_one (q : Rat) (h : 0 ≤ q) : q < (truncRat q : Rat) + 1 := by
  rw [truncRat_eq_floor q h]
  have := Rat.lt_floor_add_one q
  simpa [Rat.intCast_add] using this

theorem le_truncRat (w : Int) (q : Rat) (hq : 0 ≤ q) (h : (w : Rat) ≤ q) : w ≤ truncRat q := by
  rw [truncRat_eq_floor q hq]; exact Rat.le_floor_iff.mpr h

theorem truncRat_nonneg (q : Rat) (h : 0 ≤ q) : 0 ≤ truncRat q := by
  apply le_truncRat 0 q h; simpa using h

/-! ### frame: only the widths of movable cells change -/

/-- `b` is `a` except possibly for its width, and is `a` itself when `a` is fixed -/
def FrameCell (a b : Cell) : Prop := b = { a with w := b.w } ∧ (a.fixed = true → b = a)

theorem FrameCell.refl (a : Cell) : FrameCell a a := ⟨rfl, fun _ => rfl⟩

theorem frame_stepCell (f cap m : Rat) (cl : Cell) : FrameCell cl (stepCell f cap m cl) := by
  unfold stepCell
  split
  · rename_i ha
    refine ⟨rfl, ?_⟩
    intro hf
    simp [active, hf] at ha
  · exact FrameCell.refl cl

theorem expandCells_length (f cap : Rat) : ∀ (l : List Cell) (m : Rat), (expandCells f cap m l).length = l.length
  | [], _ => rfl
  | cl :: rest, m => by simp [expandCells, expandCells_length f cap rest]

theorem frame_expandCells (f cap : Rat) : ∀ (l : List Cell) (m : Rat) (i : Nat),
    FrameCell (l.getD i default) ((expandCells f cap m l).getD i default)
  | [], _, i => by simp [expandCells]; exact FrameCell.refl _
  | cl :: rest, m, 0 => by simp [expandCells]; exact frame_stepCell f cap m cl
  | cl :: rest, m, i + 1 => by
    simp only [expandCells, List.getD_cons_succ]
    exact frame_expandCells f cap rest _ i

theorem applyFactors_length : ∀ (l : List Cell) (es : List Rat), (applyFactors l es).length = l.length
  | [], _ => by simp [applyFactors]
  | _ :: _, [] => by simp [applyFactors]
  | cl :: rest, e :: es => by simp [applyFactors, applyFactors_length rest es]

theorem frame_applyFactors : ∀ (l : List Cell) (es : List Rat) (i : Nat),
    FrameCell (l.getD i default) ((applyFactors l es).getD i default)
  | [], _, i => by simp [applyFactors]; exact FrameCell.refl _
  | _ :: _, [], i => by simp only [applyFactors]; exact FrameCell.refl _
  | cl :: rest, e :: es, 0 => by
    simp only [applyFactors, List.getD_cons_zero]
    split
    · exact FrameCell.refl cl
    · rename_i hf
      exact ⟨rfl, fun h => absurd h hf⟩
  | cl :: rest, e :: es, i + 1 => by
    simp only [applyFactors, List.getD_cons_succ]
    exact frame_applyFactors rest es i

/-! ### `regionMax` -/

theorem regionMax_ge_acc (place : Rect) : ∀ (m : List (Rect × Rat)) (acc : Rat), acc ≤ regionMax place acc m
  | [], acc => by simp [regionMax]; exact Rat.le_refl
  | (r, e) :: rest, acc => by
    simp only [regionMax]
    split
    · exact Rat.le_trans (Rat.le_max_left ..) (regionMax_ge_acc place rest _)
    · exact regionMax_ge_acc place rest _

theorem regionMax_ge_mem (place : Rect) : ∀ (m : List (Rect × Rat)) (acc : Rat) (r : Rect) (e : Rat),
    (r, e) ∈ m → r.intersects place = true → e ≤ regionMax place acc m
  | [], _, _, _, h, _ => by simp at h
  | (r', e') :: rest, acc, r, e, h, hi => by
    simp only [regionMax]
    rcases List.mem_cons.mp h with heq | h'
    · obtain ⟨rfl, rfl⟩ := Prod.mk.inj heq
      rw [if_pos hi]
      exact Rat.le_trans (Rat.le_max_right ..) (regionMax_ge_acc place rest _)
    · exact regionMax_ge_mem place rest _ r e h' hi

theorem regionMax_attained (place : Rect) : ∀ (m : List (Rect × Rat)) (acc : Rat),
    regionMax place acc m = acc ∨ ∃ r e, (r, e) ∈ m ∧ r.intersects place = true ∧ regionMax place acc m = e
  | [], acc => by simp [regionMax]
  | (r', e') :: rest, acc => by
    simp only [regionMax]
    split
    · rename_i hi
      rcases regionMax_attained place rest (max acc e') with h | ⟨r, e, hm, hri, he⟩
      · rcases Rat.max_def acc e' ▸ (by split <;> simp : (if acc ≤ e' then e' else acc) = acc ∨ (if acc ≤ e' then e' else acc) = e') with h2 | h2
        · left; rw [h, Rat.max_def]; exact h2
        · right; exact ⟨r', e', by simp, hi, by rw [h, Rat.max_def]; exact h2⟩
      · right; exact ⟨r, e, by simp [hm], hri, he⟩
    · rcases regionMax_attained place rest acc with h | ⟨r, e, hm, hri, he⟩
      · left; exact h
      · right; exact ⟨r, e, by simp [hm], hri, he⟩

theorem mem_expansionMap (cmap : List (Rect × Rat)) (fp pf : Rat) (r : Rect) (e : Rat) :
    (r, e) ∈ expansionMap cmap fp pf ↔ ∃ cg, (r, cg) ∈ cmap ∧ cg > 1 ∧ e = (cg - 1) * pf + fp + 1 := by
  simp only [expansionMap, List.mem_map, List.mem_filter, decide_eq_true_eq]
  constructor
  · rintro ⟨⟨r', cg⟩, ⟨hm, hc⟩, heq⟩
    obtain ⟨rfl, rfl⟩ := Prod.mk.inj heq
    exact ⟨cg, hm, hc, rfl⟩
  · rintro ⟨cg, hm, hc, rfl⟩
    exact ⟨(r, cg), ⟨hm, hc⟩, rfl⟩

end Expand
end ColoVerif
