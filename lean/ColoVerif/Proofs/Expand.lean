import ColoVerif.Model.Expand
import ColoVerif.Proofs.Freespace
/-
Helper lemmas for C18 (core Lean only): truncation, the frame of the two expansion loops, the carried
missing area, the area identity of `expandCells`, the cap of `expandCellsByFactor`, `regionMax`.
-/
namespace ColoVerif
namespace Expand

/-! ### truncation -/

theorem truncRat_eq_floor (q : Rat) (h : 0 ≤ q) : truncRat q = q.floor := by
  have hn : 0 ≤ q.num := Rat.num_nonneg.mpr h
  rw [truncRat, Rat.floor_def, Int.tdiv_eq_ediv_of_nonneg hn]

theorem truncRat_le (q : Rat) (h : 0 ≤ q) : (truncRat q : Rat) ≤ q := by
  rw [truncRat_eq_floor q h]; exact Rat.floor_le q

theorem lt_truncRat_add_one (q : Rat) (h : 0 ≤ q) : q < (truncRat q : Rat) + 1 := by
  rw [truncRat_eq_floor q h]
  have := Rat.lt_floor_add_one q
  simpa [Rat.intCast_add] using this

theorem le_truncRat (w : Int) (q : Rat) (hq : 0 ≤ q) (h : (w : Rat) ≤ q) : w ≤ truncRat q := by
  rw [truncRat_eq_floor q hq]; exact Rat.le_floor_iff.mpr h

theorem truncRat_nonneg (q : Rat) (h : 0 ≤ q) : 0 ≤ truncRat q := by
  apply le_truncRat 0 q h; simpa using h

/-! ### frame: only the widths of movable cells change -/

/-- `b` is `a` except possibly for its width, and is `a` itself when `a` is fixed -/
def FrameCell (a b : Cell) : Prop := b = { a with w := b.w } ∧ (a.fixed = true → b = a)

theorem FrameCell.refl (a : Cell) : FrameCell a a := ⟨rfl, fun _ => rfl⟩

theorem frame_stepCell (f cap m : Rat) (cl : Cell) : FrameCell cl (stepCell f cap m cl) := by
  unfold stepCell
  split
  · rename_i ha
    refine ⟨rfl, ?_⟩
    intro hf
    simp [active, hf] at ha
  · exact FrameCell.refl cl

theorem expandCells_length (f cap : Rat) : ∀ (l : List Cell) (m : Rat), (expandCells f cap m l).length = l.length
  | [], _ => rfl
  | cl :: rest, m => by simp [expandCells, expandCells_length f cap rest]

theorem frame_expandCells (f cap : Rat) : ∀ (l : List Cell) (m : Rat) (i : Nat),
    FrameCell (l.getD i default) ((expandCells f cap m l).getD i default)
  | [], _, i => by simp [expandCells]; exact FrameCell.refl _
  | cl :: rest, m, 0 => by simp [expandCells]; exact frame_stepCell f cap m cl
  | cl :: rest, m, i + 1 => by
    simp only [expandCells, List.getD_cons_succ]
    exact frame_expandCells f cap rest _ i

theorem applyFactors_length : ∀ (l : List Cell) (es : List Rat), (applyFactors l es).length = l.length
  | [], _ => by simp [applyFactors]
  | _ :: _, [] => by simp [applyFactors]
  | cl :: rest, e :: es => by simp [applyFactors, applyFactors_length rest es]

theorem frame_applyFactors : ∀ (l : List Cell) (es : List Rat) (i : Nat),
    FrameCell (l.getD i default) ((applyFactors l es).getD i default)
  | [], _, i => by simp [applyFactors]; exact FrameCell.refl _
  | _ :: _, [], i => by simp only [applyFactors]; exact FrameCell.refl _
  | cl :: rest, e :: es, 0 => by
    simp only [applyFactors, List.getD_cons_zero]
    split
    · exact FrameCell.refl cl
    · rename_i hf
      exact ⟨rfl, fun h => absurd h hf⟩
  | cl :: rest, e :: es, i + 1 => by
    simp only [applyFactors, List.getD_cons_succ]
    exact frame_applyFactors rest es i

/-! ### `regionMax` -/

theorem rat_le_max_left (a b : Rat) : a ≤ max a b := by
  rw [Rat.max_def]; split
  · assumption
  · exact Rat.le_refl

theorem rat_le_max_right (a b : Rat) : b ≤ max a b := by
  rw [Rat.max_def]; split
  · exact Rat.le_refl
  · rename_i h; exact Rat.le_of_lt (Rat.not_le.mp h)

theorem rat_max_cases (a b : Rat) : max a b = a ∨ max a b = b := by
  rw [Rat.max_def]; split <;> simp

theorem regionMax_ge_acc (place : Rect) : ∀ (m : List (Rect × Rat)) (acc : Rat), acc ≤ regionMax place acc m
  | [], acc => by simp [regionMax]
  | (r, e) :: rest, acc => by
    simp only [regionMax]
    split
    · exact Rat.le_trans (rat_le_max_left _ _) (regionMax_ge_acc place rest _)
    · exact regionMax_ge_acc place rest _

theorem regionMax_ge_mem (place : Rect) : ∀ (m : List (Rect × Rat)) (acc : Rat) (r : Rect) (e : Rat),
    (r, e) ∈ m → r.intersects place = true → e ≤ regionMax place acc m
  | [], _, _, _, h, _ => by simp at h
  | (r', e') :: rest, acc, r, e, h, hi => by
    simp only [regionMax]
    rcases List.mem_cons.mp h with heq | h'
    · obtain ⟨rfl, rfl⟩ := Prod.mk.inj heq
      rw [if_pos hi]
      exact Rat.le_trans (rat_le_max_right _ _) (regionMax_ge_acc place rest _)
    · exact regionMax_ge_mem place rest _ r e h' hi

theorem regionMax_attained (place : Rect) : ∀ (m : List (Rect × Rat)) (acc : Rat),
    regionMax place acc m = acc ∨ ∃ r e, (r, e) ∈ m ∧ r.intersects place = true ∧ regionMax place acc m = e
  | [], acc => by simp [regionMax]
  | (r', e') :: rest, acc => by
    simp only [regionMax]
    split
    · rename_i hi
      rcases regionMax_attained place rest (max acc e') with h | ⟨r, e, hm, hri, he⟩
      · rcases rat_max_cases acc e' with h2 | h2
        · left; rw [h, h2]
        · right; exact ⟨r', e', by simp, hi, by rw [h, h2]⟩
      · right; exact ⟨r, e, by simp [hm], hri, he⟩
    · rcases regionMax_attained place rest acc with h | ⟨r, e, hm, hri, he⟩
      · left; exact h
      · right; exact ⟨r, e, by simp [hm], hri, he⟩

theorem mem_expansionMap (cmap : List (Rect × Rat)) (fp pf : Rat) (r : Rect) (e : Rat) :
    (r, e) ∈ expansionMap cmap fp pf ↔ ∃ cg, (r, cg) ∈ cmap ∧ cg > 1 ∧ e = (cg - 1) * pf + fp + 1 := by
  simp only [expansionMap, List.mem_map, List.mem_filter, decide_eq_true_eq]
  constructor
  · rintro ⟨⟨r', cg⟩, ⟨hm, hc⟩, heq⟩
    obtain ⟨rfl, rfl⟩ := Prod.mk.inj heq
    exact ⟨cg, hm, hc, rfl⟩
  · rintro ⟨cg, hm, hc, rfl⟩
    exact ⟨(r, cg), ⟨hm, hc⟩, rfl⟩

/-! ### the carried missing area -/

theorem carry_spec (h : Int) (m1 : Rat) (hh : 0 < h) (hm : 0 ≤ m1) :
    0 ≤ carryCount h m1 ∧ 0 ≤ m1 - (carryCount h m1 : Rat) * (h : Rat) ∧
    m1 - (carryCount h m1 : Rat) * (h : Rat) < (h : Rat) := by
  have hq : (0 : Rat) < (h : Rat) := Rat.intCast_pos.mpr hh
  unfold carryCount
  split
  · rename_i hlt
    refine ⟨Int.le_refl _, ?_, ?_⟩ <;> simp <;> grind
  · rename_i hge
    have hne : (h : Rat) ≠ 0 := by grind
    have h1 : ((m1 / (h : Rat)).floor : Rat) ≤ m1 / (h : Rat) := Rat.floor_le _
    have h2 := Rat.lt_floor_add_one (m1 / (h : Rat))
    have h3 : ((m1 / (h : Rat)).floor : Rat) * (h : Rat) ≤ m1 := by
      have := Rat.mul_le_mul_of_nonneg_right h1 (Rat.le_of_lt hq)
      rwa [Rat.div_mul_cancel hne] at this
    have h4 : m1 < (((m1 / (h : Rat)).floor + 1 : Int) : Rat) * (h : Rat) := by
      have := Rat.mul_lt_mul_of_pos_right h2 hq
      rwa [Rat.div_mul_cancel hne] at this
    have h5 : (0 : Rat) ≤ m1 / (h : Rat) := by
      rw [Rat.div_def]; exact Rat.mul_nonneg hm (Rat.le_of_lt (Rat.inv_pos.mpr hq))
    refine ⟨Rat.le_floor_iff.mpr (by simpa using h5), by grind, ?_⟩
    rw [Rat.intCast_add] at h4
    grind

theorem step_identity (f cap m : Rat) (cl : Cell) :
    (cl.h : Rat) * (newWidth f cap m cl : Rat) + newMissing f cap m cl = m + (cl.h : Rat) * fracW f cap cl := by
  simp only [newWidth, newMissing, missingAdd, Rat.intCast_add]
  grind

theorem active_iff (cl : Cell) : active cl = true ↔ cl.fixed = false ∧ 0 < cl.h ∧ 0 < cl.w := by
  simp [active, and_assoc]

theorem fracW_le (f cap : Rat) (cl : Cell) : fracW f cap cl ≤ (cl.w : Rat) * f := by
  unfold fracW; split
  · rename_i h; exact Rat.le_of_lt h
  · exact Rat.le_refl

theorem fracW_nonneg (f cap : Rat) (cl : Cell) (hf : 0 ≤ f) (hcap : 0 ≤ cap) (hw : 0 < cl.w) :
    0 ≤ fracW f cap cl := by
  unfold fracW; split
  · exact hcap
  · exact Rat.mul_nonneg (Rat.le_of_lt (Rat.intCast_pos.mpr hw)) hf

theorem missingAdd_nonneg (f cap m : Rat) (cl : Cell) (hf : 0 ≤ f) (hcap : 0 ≤ cap) (hm : 0 ≤ m)
    (ha : active cl = true) : 0 ≤ missingAdd f cap m cl := by
  obtain ⟨_, hh, hw⟩ := (active_iff cl).mp ha
  have h1 := truncRat_le _ (fracW_nonneg f cap cl hf hcap hw)
  have h2 : (0 : Rat) ≤ (cl.h : Rat) * (fracW f cap cl - (truncRat (fracW f cap cl) : Rat)) :=
    Rat.mul_nonneg (Rat.le_of_lt (Rat.intCast_pos.mpr hh)) (by grind)
  unfold missingAdd
  grind

/-- after an active cell the carried area is in `[0, h)` -/
theorem newMissing_bounds (f cap m : Rat) (cl : Cell) (hf : 0 ≤ f) (hcap : 0 ≤ cap) (hm : 0 ≤ m)
    (ha : active cl = true) : 0 ≤ newMissing f cap m cl ∧ newMissing f cap m cl < (cl.h : Rat) := by
  obtain ⟨_, hh, _⟩ := (active_iff cl).mp ha
  have := carry_spec cl.h (missingAdd f cap m cl) hh (missingAdd_nonneg f cap m cl hf hcap hm ha)
  exact ⟨this.2.1, this.2.2⟩

theorem carryCount_nonneg (f cap m : Rat) (cl : Cell) (hf : 0 ≤ f) (hcap : 0 ≤ cap) (hm : 0 ≤ m)
    (ha : active cl = true) : 0 ≤ carryCount cl.h (missingAdd f cap m cl) := by
  obtain ⟨_, hh, _⟩ := (active_iff cl).mp ha
  exact (carry_spec cl.h (missingAdd f cap m cl) hh (missingAdd_nonneg f cap m cl hf hcap hm ha)).1

theorem stepMissing_nonneg (f cap m : Rat) (cl : Cell) (hf : 0 ≤ f) (hcap : 0 ≤ cap) (hm : 0 ≤ m) :
    0 ≤ stepMissing f cap m cl := by
  unfold stepMissing; split
  · rename_i ha; exact (newMissing_bounds f cap m cl hf hcap hm ha).1
  · exact hm

/-- `carry_bound`, pointwise: the carried area stays in `[0, H)` for every bound `H` on the active heights -/
theorem finalMissing_bounds (f cap : Rat) (hf : 0 ≤ f) (hcap : 0 ≤ cap) (H : Int) :
    ∀ (l : List Cell) (m : Rat), 0 ≤ m → m < (H : Rat) → (∀ cl ∈ l, active cl = true → cl.h ≤ H) →
      0 ≤ finalMissing f cap m l ∧ finalMissing f cap m l < (H : Rat)
  | [], m, h0, h1, _ => by simp [finalMissing]; exact ⟨h0, h1⟩
  | cl :: rest, m, h0, h1, hH => by
    simp only [finalMissing]
    apply finalMissing_bounds f cap hf hcap H rest _ (stepMissing_nonneg f cap m cl hf hcap h0)
    · unfold stepMissing; split
      · rename_i ha
        have hb := (newMissing_bounds f cap m cl hf hcap h0 ha).2
        have hle : (cl.h : Rat) ≤ (H : Rat) := Rat.intCast_le_intCast.mpr (hH cl (by simp) ha)
        grind
      · exact h1
    · intro c hc; exact hH c (by simp [hc])

/-! ### area identity of the expansion loop -/

theorem movableArea_cons (cl : Cell) (l : List Cell) :
    movableArea (cl :: l) = (if cl.fixed then 0 else cl.w * cl.h) + movableArea l := by
  unfold movableArea
  simp only [List.filter_cons]
  split <;> rename_i h
  · simp at h; simp [h, cellArea]
  · simp at h; simp [h]

theorem movableArea_nil : movableArea [] = 0 := rfl

/-- what the loop aims at: `h * fracW` for active cells, the old area for the other movable cells -/
def fracArea (f cap : Rat) : List Cell → Rat
  | [] => 0
  | cl :: l => (if cl.fixed then 0 else if active cl then (cl.h : Rat) * fracW f cap cl
                else ((cl.w * cl.h : Int) : Rat)) + fracArea f cap l

theorem area_identity (f cap : Rat) : ∀ (l : List Cell) (m : Rat),
    (movableArea (expandCells f cap m l) : Rat) + finalMissing f cap m l = m + fracArea f cap l
  | [], m => by simp [expandCells, finalMissing, fracArea, movableArea_nil]; grind
  | cl :: rest, m => by
    have ih := area_identity f cap rest (stepMissing f cap m cl)
    simp only [expandCells, finalMissing, fracArea, movableArea_cons, Rat.intCast_add]
    unfold stepCell stepMissing at *
    by_cases ha : active cl = true
    · obtain ⟨hfx, _, _⟩ := (active_iff cl).mp ha
      have hid := step_identity f cap m cl
      simp only [ha, if_true, hfx, Bool.false_eq_true, if_false, Rat.intCast_mul] at ih ⊢
      grind
    · have ha' : active cl = false := by simpa using ha
      simp only [ha', Bool.false_eq_true, if_false] at ih ⊢
      by_cases hfx : cl.fixed = true
      · simp only [hfx, if_true, Rat.intCast_zero] at ih ⊢
        grind
      · simp only [hfx] at ih ⊢
        grind

/-- the domain of the quantitative theorems: movable cells have non-negative sizes -/
def NonnegSizes (l : List Cell) : Prop := ∀ cl ∈ l, cl.fixed = false → 0 ≤ cl.w ∧ 0 ≤ cl.h

theorem inactive_area_zero (cl : Cell) (hfx : cl.fixed = false) (hw : 0 ≤ cl.w) (hh : 0 ≤ cl.h)
    (ha : active cl = false) : cl.w * cl.h = 0 := by
  have : ¬ (0 < cl.h ∧ 0 < cl.w) := by
    intro h; have := (active_iff cl).mpr ⟨hfx, h⟩; simp [ha] at this
  have : cl.h = 0 ∨ cl.w = 0 := by omega
  rcases this with h | h <;> simp [h]

theorem fracArea_le (f cap : Rat) (hf : 0 ≤ f) : ∀ (l : List Cell), NonnegSizes l →
    fracArea f cap l ≤ f * (movableArea l : Rat)
  | [], _ => by simp [fracArea, movableArea_nil]
  | cl :: rest, hn => by
    have ih := fracArea_le f cap hf rest (fun c hc => hn c (by simp [hc]))
    simp only [fracArea, movableArea_cons, Rat.intCast_add]
    by_cases hfx : cl.fixed = true
    · simp only [hfx, if_true, Rat.intCast_zero]; grind
    · have hfx' : cl.fixed = false := by simpa using hfx
      obtain ⟨hw, hh⟩ := hn cl (by simp) hfx'
      simp only [hfx', Bool.false_eq_true, if_false]
      by_cases ha : active cl = true
      · simp only [ha, if_true, Rat.intCast_mul]
        have h1 : (cl.h : Rat) * fracW f cap cl ≤ (cl.h : Rat) * ((cl.w : Rat) * f) :=
          Rat.mul_le_mul_of_nonneg_left (fracW_le f cap cl) (Rat.intCast_nonneg.mpr hh)
        grind
      · have ha' : active cl = false := by simpa using ha
        have hz := inactive_area_zero cl hfx' hw hh ha'
        simp only [ha', Bool.false_eq_true, if_false, hz, Rat.intCast_zero]
        grind

theorem fracArea_eq (f cap : Rat) : ∀ (l : List Cell), NonnegSizes l →
    (∀ cl ∈ l, active cl = true → (cl.w : Rat) * f ≤ cap) → fracArea f cap l = f * (movableArea l : Rat)
  | [], _, _ => by simp [fracArea, movableArea_nil]
  | cl :: rest, hn, hc => by
    have ih := fracArea_eq f cap rest (fun c h => hn c (by simp [h])) (fun c h => hc c (by simp [h]))
    simp only [fracArea, movableArea_cons, Rat.intCast_add]
    by_cases hfx : cl.fixed = true
    · simp only [hfx, if_true, Rat.intCast_zero]; grind
    · have hfx' : cl.fixed = false := by simpa using hfx
      obtain ⟨hw, hh⟩ := hn cl (by simp) hfx'
      simp only [hfx', Bool.false_eq_true, if_false]
      by_cases ha : active cl = true
      · have hcap := hc cl (by simp) ha
        have hfr : fracW f cap cl = (cl.w : Rat) * f := by
          unfold fracW; rw [if_neg (Rat.not_lt.mpr hcap)]
        simp only [ha, if_true, Rat.intCast_mul, hfr]
        grind
      · have ha' : active cl = false := by simpa using ha
        have hz := inactive_area_zero cl hfx' hw hh ha'
        simp only [ha', Bool.false_eq_true, if_false, hz, Rat.intCast_zero]
        grind

/-! ### not narrower -/

theorem stepCell_not_narrower (f cap m : Rat) (cl : Cell) (hf : 1 ≤ f) (hcap : 0 ≤ cap) (hm : 0 ≤ m)
    (hw : (cl.w : Rat) ≤ cap) : cl.w ≤ (stepCell f cap m cl).w := by
  unfold stepCell
  split
  · rename_i ha
    obtain ⟨_, hh, hwpos⟩ := (active_iff cl).mp ha
    have hf0 : (0 : Rat) ≤ f := Rat.le_trans (by decide) hf
    have hk := carryCount_nonneg f cap m cl hf0 hcap hm ha
    have hwq : (0 : Rat) < (cl.w : Rat) := Rat.intCast_pos.mpr hwpos
    have hfr : (cl.w : Rat) ≤ fracW f cap cl := by
      unfold fracW; split
      · exact hw
      · have := Rat.mul_le_mul_of_nonneg_left hf (Rat.le_of_lt hwq)
        grind
    have ht := le_truncRat cl.w (fracW f cap cl) (Rat.le_trans (Rat.le_of_lt hwq) hfr) hfr
    simp only [newWidth]
    omega
  · exact Int.le_refl _

theorem expandCells_not_narrower (f cap : Rat) (hf : 1 ≤ f) (hcap : 0 ≤ cap) :
    ∀ (l : List Cell) (m : Rat) (i : Nat), 0 ≤ m → ((l.getD i default).w : Rat) ≤ cap →
      (l.getD i default).w ≤ ((expandCells f cap m l).getD i default).w
  | [], _, i, _, _ => by simp [expandCells]
  | cl :: rest, m, 0, hm, hw => by
    simp only [expandCells, List.getD_cons_zero] at hw ⊢
    exact stepCell_not_narrower f cap m cl hf hcap hm hw
  | cl :: rest, m, i + 1, hm, hw => by
    simp only [expandCells, List.getD_cons_succ] at hw ⊢
    exact expandCells_not_narrower f cap hf hcap rest _ i
      (stepMissing_nonneg f cap m cl (Rat.le_trans (by decide) hf) hcap hm) hw

/-! ### `expandCellsByFactor` -/

theorem applyFactors_area_le : ∀ (l : List Cell) (es : List Rat), NonnegSizes l → (∀ e ∈ es, 0 ≤ e) →
    l.length = es.length → (movableArea (applyFactors l es) : Rat) ≤ expandedArea l es
  | [], [], _, _, _ => by simp [applyFactors, expandedArea, movableArea_nil]
  | [], _ :: _, _, _, h => by simp at h
  | _ :: _, [], _, _, h => by simp at h
  | cl :: rest, e :: es, hn, he, hlen => by
    have ih := applyFactors_area_le rest es (fun c h => hn c (by simp [h])) (fun x h => he x (by simp [h]))
      (by simpa using hlen)
    simp only [applyFactors, expandedArea, movableArea_cons, Rat.intCast_add]
    by_cases hfx : cl.fixed = true
    · simp only [hfx, if_true, Rat.intCast_zero]; grind
    · have hfx' : cl.fixed = false := by simpa using hfx
      obtain ⟨hw, hh⟩ := hn cl (by simp) hfx'
      have he0 : 0 ≤ e := he e (by simp)
      have hq : (0 : Rat) ≤ (cl.w : Rat) * e := Rat.mul_nonneg (Rat.intCast_nonneg.mpr hw) he0
      have h1 := Rat.mul_le_mul_of_nonneg_right (truncRat_le _ hq) (Rat.intCast_nonneg.mpr hh)
      simp only [hfx', Bool.false_eq_true, if_false, cellArea, Rat.intCast_mul]
      grind

theorem expandedArea_adjust (ρ : Rat) : ∀ (l : List Cell) (es : List Rat), l.length = es.length →
    expandedArea l (es.map (adjust ρ)) = (movableArea l : Rat) + ρ * (expandedArea l es - (movableArea l : Rat))
  | [], [], _ => by simp [expandedArea, movableArea_nil]; grind
  | [], _ :: _, h => by simp at h
  | _ :: _, [], h => by simp at h
  | cl :: rest, e :: es, hlen => by
    have ih := expandedArea_adjust ρ rest es (by simpa using hlen)
    simp only [List.map_cons, expandedArea, movableArea_cons, Rat.intCast_add, ih]
    by_cases hfx : cl.fixed = true
    · simp only [hfx, if_true, Rat.intCast_zero]; grind
    · have hfx' : cl.fixed = false := by simpa using hfx
      simp only [hfx', Bool.false_eq_true, if_false, cellArea, Rat.intCast_mul, adjust]
      grind

theorem applyFactors_not_narrower : ∀ (l : List Cell) (es : List Rat) (i : Nat), (∀ e ∈ es, 1 ≤ e) →
    0 ≤ (l.getD i default).w → (l.getD i default).w ≤ ((applyFactors l es).getD i default).w
  | [], _, i, _, _ => by simp [applyFactors]
  | _ :: _, [], i, _, _ => by simp only [applyFactors]; exact Int.le_refl _
  | cl :: rest, e :: es, 0, he, hw => by
    simp only [applyFactors, List.getD_cons_zero] at hw ⊢
    split
    · exact Int.le_refl _
    · have he1 : 1 ≤ e := he e (by simp)
      have hwq : (0 : Rat) ≤ (cl.w : Rat) := Rat.intCast_nonneg.mpr hw
      have h1 := Rat.mul_le_mul_of_nonneg_left he1 hwq
      have h2 : (cl.w : Rat) ≤ (cl.w : Rat) * e := by grind
      exact le_truncRat cl.w _ (Rat.le_trans hwq h2) h2
  | cl :: rest, e :: es, i + 1, he, hw => by
    simp only [applyFactors, List.getD_cons_succ] at hw ⊢
    exact applyFactors_not_narrower rest es i (fun x h => he x (by simp [h])) hw

theorem rat_div_pos {a b : Rat} (ha : 0 < a) (hb : 0 < b) : 0 < a / b := by
  rw [Rat.div_def]; exact Rat.mul_pos ha (Rat.inv_pos.mpr hb)

end Expand
end ColoVerif
