/-
C13: concrete evaluations of the model of `solve` (kernel reduction, `decide +kernel`): non-vacuity
witnesses for the theorems about `solve`, and the instance showing that the hypothesis on the size of
the costs cannot be dropped (with unbounded `Int` costs the `INT_MAX` sentinel of `bestSink` is passed).
-/
import ColoVerif.Proofs.TranspSsp2Solve

namespace ColoVerif.Transp

instance : DecidableEq (Except String Problem) := fun a b =>
  match a, b with
  | .ok x, .ok y =>
    if h : x = y then isTrue (by rw [h]) else isFalse (by intro e; injection e with e; exact h e)
  | .error x, .error y =>
    if h : x = y then isTrue (by rw [h]) else isFalse (by intro e; injection e with e; exact h e)
  | .ok _, .error _ => isFalse (by intro e; cases e)
  | .error _, .ok _ => isFalse (by intro e; cases e)

/-- 3 sinks × 3 sources; the second source is split between two sinks (the driver answers
`alloc 2 1 0 | 0 1 0 | 0 0 2`; the kernel cannot unfold the well-founded `List.mergeSort` /
`pushHeapLoop`, so only the hypotheses are evaluated here) -/
def witnessPb : Problem := Problem.make [3, 1, 2] [2, 2, 2] [[1, 2, 3], [5, 1, 4], [3, 2, 1]]

lemma witness_hyps : witnessPb.check = true ∧ witnessPb.totalDemand ≤ witnessPb.totalCapacity ∧
    costBoundOk witnessPb = true := by decide +kernel

/-- 2 sinks × 1 source, small enough for the kernel to run `solve` -/
def smallPb : Problem := Problem.make [1, 1] [1] [[3], [2]]

lemma small_solve : solve smallPb = .ok { smallPb with allocations := [[0], [1]] } := by
  decide +kernel

lemma small_cert : certifies { smallPb with allocations := [[0], [1]] } [[0], [1]] = true := by
  decide +kernel

/-- costs beyond `INT_MAX/3` (not representable sums in the C++): 2 sinks, 1 source -/
def bigCostPb : Problem := Problem.make [1, 1] [1] [[3000000000], [2500000000]]

lemma bigCost_solve : solve bigCostPb = .ok { bigCostPb with allocations := [[1], [0]] } := by
  decide +kernel

lemma bigCost_hyps : bigCostPb.check = true ∧ bigCostPb.totalDemand ≤ bigCostPb.totalCapacity := by
  decide +kernel

lemma bigCost_better : primalOk bigCostPb [[0], [1]] = true ∧
    costOf bigCostPb [[0], [1]] < costOf bigCostPb [[1], [0]] := by decide +kernel

end ColoVerif.Transp
