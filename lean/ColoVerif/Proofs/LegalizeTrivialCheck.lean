import ColoVerif.Proofs.LegalizeTrivialLoop
import ColoVerif.Proofs.LegalizeIdem2Top
/-
Helper lemmas for C01 (trivial success), part 2: `getPlacement` written back through distinct
indices, `AbacusLegalizer::check` passes, every cell is reported placed.
-/
namespace ColoVerif.Legalize
open ColoVerif ColoVerif.RowLeg

/-! ### `writeRow` / `writeRows` with distinct indices -/

theorem writeRow_other (S : List Row) (cells : List LCell) (row : Nat) :
    ∀ (rc : List Nat) (xs : List Int) (pos : List Pos) (m : Nat), m ∉ rc →
      posAt (writeRow S cells row rc xs pos) m = posAt pos m
  | [], _, _, _, _ => by simp [writeRow]
  | _ :: _, [], _, _, _ => by simp [writeRow]
  | c :: cs, x :: xs, pos, m, hm => by
    simp only [writeRow]
    rw [writeRow_other S cells row cs xs _ m (fun h => hm (by simp [h]))]
    have hne : c ≠ m := fun h => hm (by simp [h])
    simp [posAt, List.getD_eq_getElem?_getD, List.getElem?_set, hne]

theorem writeRow_get (S : List Row) (cells : List LCell) (row : Nat) :
    ∀ (rc : List Nat) (xs : List Int) (pos : List Pos) (t c : Nat) (x : Int), rc.Nodup →
      rc[t]? = some c → xs[t]? = some x → c < pos.length →
      posAt (writeRow S cells row rc xs pos) c
        = ⟨x, (rowAt S row).rect.minY, getOrientation S (cellAt cells c) row, true⟩
  | [], _, _, t, c, x, _, h, _, _ => by simp at h
  | _ :: _, [], _, t, c, x, _, _, h, _ => by simp at h
  | c0 :: cs, x0 :: xs, pos, 0, c, x, hnd, h1, h2, hc => by
    simp only [List.getElem?_cons_zero, Option.some.injEq] at h1 h2
    subst h1; subst h2
    simp only [writeRow]
    rw [writeRow_other S cells row cs xs _ c0 (List.nodup_cons.mp hnd).1]
    rw [posAt_set_lt _ _ _ _ hc]
    simp [cellAt]
  | c0 :: cs, x0 :: xs, pos, t + 1, c, x, hnd, h1, h2, hc => by
    simp only [List.getElem?_cons_succ] at h1 h2
    simp only [writeRow]
    exact writeRow_get S cells row cs xs _ t c x (List.nodup_cons.mp hnd).2 h1 h2 (by simpa using hc)

theorem writeRows_other (S : List Row) (cells : List LCell) :
    ∀ (rcs : List (List Nat)) (legs : List State) (i : Nat) (pos : List Pos) (m : Nat),
      (∀ rc ∈ rcs, m ∉ rc) → posAt (writeRows S cells i rcs legs pos) m = posAt pos m
  | [], _, _, _, _, _ => by simp [writeRows]
  | _ :: _, [], _, _, _, _ => by simp [writeRows]
  | rc :: rcs, leg :: legs, i, pos, m, h => by
    simp only [writeRows]
    rw [writeRows_other S cells rcs legs (i + 1) _ m (fun rc' hrc' => h rc' (by simp [hrc']))]
    exact writeRow_other S cells i rc _ pos m (h rc (by simp))

theorem writeRows_get (S : List Row) (cells : List LCell) :
    ∀ (rcs : List (List Nat)) (legs : List State) (i : Nat) (pos : List Pos) (k : Nat) (rc : List Nat)
      (leg : State) (t c : Nat) (x : Int),
      rcs[k]? = some rc → legs[k]? = some leg → rc.Nodup → rc[t]? = some c → (placement leg)[t]? = some x →
      c < pos.length → (∀ k' rc', rcs[k']? = some rc' → c ∈ rc' → k' = k) →
      posAt (writeRows S cells i rcs legs pos) c
        = ⟨x, (rowAt S (i + k)).rect.minY, getOrientation S (cellAt cells c) (i + k), true⟩
  | [], _, _, _, k, _, _, _, _, _, h, _, _, _, _, _, _ => by simp at h
  | _ :: _, [], _, _, k, _, _, _, _, _, _, h, _, _, _, _, _ => by simp at h
  | rc0 :: rcs, leg0 :: legs, i, pos, 0, rc, leg, t, c, x, h1, h2, hnd, ht, hx, hc, hu => by
    simp only [List.getElem?_cons_zero, Option.some.injEq] at h1 h2
    subst h1; subst h2
    simp only [writeRows, Nat.add_zero]
    rw [writeRows_other S cells rcs legs (i + 1) _ c]
    · exact writeRow_get S cells i rc0 _ pos t c x hnd ht hx hc
    · intro rc' hrc' hcm
      obtain ⟨k', hk', hget⟩ := List.getElem_of_mem hrc'
      have := hu (k' + 1) rc' (by simp [List.getElem?_eq_getElem hk', hget]) hcm
      omega
  | rc0 :: rcs, leg0 :: legs, i, pos, k + 1, rc, leg, t, c, x, h1, h2, hnd, ht, hx, hc, hu => by
    simp only [List.getElem?_cons_succ] at h1 h2
    simp only [writeRows]
    have := writeRows_get S cells rcs legs (i + 1) (writeRow S cells i rc0 (placement leg0) pos) k rc leg t c x
      h1 h2 hnd ht hx (by rw [writeRow_length]; exact hc) (by
        intro k' rc' hk' hcm
        have := hu (k' + 1) rc' (by simpa using hk') hcm
        omega)
    rw [show i + (k + 1) = i + 1 + k by omega]
    exact this

theorem rowOrderOk_of_consecutive (cells : List LCell) (pos : List Pos) : ∀ (rc : List Nat),
    (∀ t c1 c2, rc[t]? = some c1 → rc[t + 1]? = some c2 →
      (posAt pos c1).x + (cellAt cells c1).w ≤ (posAt pos c2).x) → rowOrderOk cells pos rc = true
  | [], _ => by simp [rowOrderOk]
  | [_], _ => by simp [rowOrderOk]
  | c1 :: c2 :: cs, h => by
    simp only [rowOrderOk, Bool.and_eq_true, Bool.not_eq_true', decide_eq_false_iff_not, Int.not_lt]
    refine ⟨by have := h 0 c1 c2 (by simp) (by simp); omega, rowOrderOk_of_consecutive cells pos (c2 :: cs) ?_⟩
    intro t d1 d2 h1 h2
    exact h (t + 1) d1 d2 (by simpa using h1) (by simpa using h2)

/-- **The Abacus pass succeeds** under the trivial-success bound: it returns (its own `check()`
passes) and every cell is reported placed. -/
theorem abacusRun_trivial (R : List Row) (H W : Int) (cells : List LCell) (ok : TrivOK (sortRows R) H W cells) :
    ∃ ps, abacusRun R cells = .ok ps ∧ ps.length = cells.length ∧ ∀ p ∈ ps, p.placed = true := by
  have inv := tsInv_run (sortRows R) H W cells ok cells.length 0 (Abacus.init R) (by omega) (tsInv_init R cells)
  rw [List.drop_zero] at inv
  unfold abacusRun
  generalize hA : abacusLoop (Abacus.init R) 0 cells = A at inv
  obtain ⟨a, oks⟩ := A
  simp only at inv ⊢
  have hrows := inv.rows
  generalize hP : writeRows a.rows cells 0 a.rowCells a.legs (cells.map initPos) = P
  have hPlen : P.length = cells.length := by rw [← hP, writeRows_length]; simp
  -- what was written for the `t`-th cell of segment `k`
  have spec : ∀ k, k < (sortRows R).length → ∀ (t c : Nat), (a.rowCells.getD k [])[t]? = some c →
      ∃ x, (placement (legAt a.legs k))[t]? = some x ∧
        posAt P c = ⟨x, (rowAt (sortRows R) k).rect.minY, getOrientation (sortRows R) (cellAt cells c) k, true⟩ := by
    intro k hk t c htc
    obtain ⟨C, hr⟩ := inv.reach k hk
    have hlen := (reach_pointwise hr).1
    simp only [List.reverse_reverse, List.length_map] at hlen
    have ht : t < (a.rowCells.getD k []).length := (List.getElem?_eq_some_iff.mp htc).1
    have htp : t < (placement (legAt a.legs k)).length := by omega
    refine ⟨(placement (legAt a.legs k))[t], List.getElem?_eq_getElem htp, ?_⟩
    have hk1 : k < a.rowCells.length := by rw [inv.clen]; exact hk
    have hk2 : k < a.legs.length := by rw [inv.llen]; exact hk
    have e1 : a.rowCells[k]? = some (a.rowCells.getD k []) := by
      simp [List.getD_eq_getElem?_getD, List.getElem?_eq_getElem hk1]
    have e2 : a.legs[k]? = some (legAt a.legs k) := by
      simp [legAt, List.getD_eq_getElem?_getD, List.getElem?_eq_getElem hk2]
    have hcm : c ∈ a.rowCells.getD k [] := List.mem_of_getElem? htc
    have := writeRows_get a.rows cells a.rowCells a.legs 0 (cells.map initPos) k _ _ t c _ e1 e2
      (inv.nodup k hk) htc (List.getElem?_eq_getElem htp)
      (by have := inv.mem k hk c hcm; simpa using this)
      (by
        intro k' rc' hk' hc'
        have hk'' : k' < (sortRows R).length := by
          have := (List.getElem?_eq_some_iff.mp hk').1
          rw [inv.clen] at this; exact this
        have e : a.rowCells.getD k' [] = rc' := by simp [List.getD_eq_getElem?_getD, hk']
        exact inv.uniq k' k c hk'' hk (by rw [e]; exact hc') hcm)
    rw [hP, Nat.zero_add, hrows] at this
    exact this
  -- feasibility of every row legalizer, cell by cell
  have feas : ∀ k, k < (sortRows R).length → ∀ (t c : Nat) (x : Int), (a.rowCells.getD k [])[t]? = some c →
      (placement (legAt a.legs k))[t]? = some x →
      (rowAt (sortRows R) k).rect.minX ≤ x ∧ x + (cellAt cells c).w ≤ (rowAt (sortRows R) k).rect.maxX ∧
      ∀ x', (placement (legAt a.legs k))[t + 1]? = some x' → x + (cellAt cells c).w ≤ x' := by
    intro k hk t c x htc hx
    obtain ⟨C, hr⟩ := inv.reach k hk
    have := (reach_pointwise hr).2 t x (cellAt cells c).w (cellAt cells c).tx hx (by
      simp only [List.reverse_reverse, List.getElem?_map, htc, Option.map_some])
    exact this
  have hcheck : abacusCheck a.rows cells a.rowCells P = .ok () := by
    unfold abacusCheck
    rw [hrows]
    have c1 : ((sortRows R).all fun r => r.rect.height == (((sortRows R).head?.map (·.rect.height)).getD 0)) = true := by
      rw [List.all_eq_true]
      intro r hr
      have hhd : ((sortRows R).head?.map (·.rect.height)).getD 0 = H := by
        cases hS : sortRows R with
        | nil => rw [hS] at hr; simp at hr
        | cons r0 rs =>
          simp only [List.head?_cons, Option.map_some, Option.getD_some]
          exact ok.heights r0 (by rw [hS]; simp)
      rw [hhd, ok.heights r hr]
      simp
    have c2 : zipAll (rowBoundsOk cells P) (sortRows R) a.rowCells = true := by
      apply zipAll_intro
      intro k r rc h1 h2
      have hk : k < (sortRows R).length := (List.getElem?_eq_some_iff.mp h1).1
      have erc : a.rowCells.getD k [] = rc := by simp [List.getD_eq_getElem?_getD, h2]
      have er : rowAt (sortRows R) k = r := by simp [rowAt, List.getD_eq_getElem?_getD, h1]
      simp only [rowBoundsOk, List.all_eq_true, Bool.and_eq_true, Bool.not_eq_true', decide_eq_false_iff_not,
        Int.not_lt]
      intro c hc
      obtain ⟨t, htc⟩ := List.mem_iff_getElem?.mp hc
      rw [← erc] at htc
      obtain ⟨x, hx, hpx⟩ := spec k hk t c htc
      obtain ⟨f1, f2, _⟩ := feas k hk t c x htc hx
      rw [er] at f1 f2
      rw [hpx]
      exact ⟨f1, f2⟩
    have c3 : a.rowCells.all (rowOrderOk cells P) = true := by
      rw [List.all_eq_true]
      intro rc hrc
      obtain ⟨k, hk, hget⟩ := List.getElem_of_mem hrc
      have hk' : k < (sortRows R).length := by rw [← inv.clen]; exact hk
      have erc : a.rowCells.getD k [] = rc := by
        simp [List.getD_eq_getElem?_getD, List.getElem?_eq_getElem hk, hget]
      apply rowOrderOk_of_consecutive
      intro t d1 d2 h1 h2
      rw [← erc] at h1 h2
      obtain ⟨x1, hx1, hp1⟩ := spec k hk' t d1 h1
      obtain ⟨x2, hx2, hp2⟩ := spec k hk' (t + 1) d2 h2
      have := (feas k hk' t d1 x1 h1 hx1).2.2 x2 hx2
      rw [hp1, hp2]
      exact this
    simp [c1, c2, c3]
  rw [hcheck]
  refine ⟨P, rfl, hPlen, ?_⟩
  intro p hp
  obtain ⟨j, hj, hget⟩ := List.getElem_of_mem hp
  have hj' : j < cells.length := by omega
  obtain ⟨k, hk, hjk⟩ := inv.cover j hj'
  obtain ⟨t, htc⟩ := List.mem_iff_getElem?.mp hjk
  obtain ⟨x, _, hpx⟩ := spec k hk t j htc
  have : posAt P j = p := by rw [posAt_eq_getElem P j hj, hget]
  rw [← this, hpx]

end ColoVerif.Legalize
