import ColoVerif.Proofs.DetPlaceInv
/-
`canPlace` succeeds inside `insert` and `swap` (helper lemmas for Properties/C02 `step_never_throws`):
on a state that satisfies `Inv`, a move that `canInsert` / `canSwap` accepts is carried out — the
`place` calls inside find their site exactly as the feasibility test computed it, and the integer
midpoint (`Int.tdiv`) of a wide enough site lies inside it.
-/
namespace ColoVerif.DetPlace
open State

/-- the C++ midpoint (truncating division) of a site that is wide enough lies inside the site -/
theorem midpoint_ok (b e w : Int) (h : b ≤ e - w) : b ≤ (b + e - w).tdiv 2 ∧ (b + e - w).tdiv 2 + w ≤ e := by
  rcases Int.le_total 0 (b + e - w) with hs | hs
  · rw [Int.tdiv_eq_ediv_of_nonneg hs]; omega
  · have e1 : (b + e - w).tdiv 2 = -((-(b + e - w)) / 2) := by
      have := Int.neg_tdiv (-(b + e - w)) 2
      rw [Int.neg_neg] at this
      rw [this, Int.tdiv_eq_ediv_of_nonneg (by omega)]
    rw [e1]; omega

theorem place_succeeds {s : State} {c r p x : Int} (hnp : s.row c = -1) (hal : s.isRowAllowed c r = true)
    (h1 : s.siteBegin r p ≤ x) (h2 : x + s.width c ≤ s.siteEnd r p) :
    s.place c r p x = .ok (s.placeRaw c r p x) := by
  unfold place canPlace
  have : s.isPlaced c = false := by simp [isPlaced, hnp]
  simp [this, hal, h1, h2]

theorem canInsert_true {s : State} {c r p : Int} (h : s.canInsert c r p = .ok true) :
    s.row c ≠ -1 ∧ c ≠ p ∧ ¬ (s.row c = r ∧ s.pred c = p) ∧ s.isRowAllowed c r = true ∧
    s.siteEnd r p - s.siteBegin r p ≥ s.width c := by
  unfold canInsert at h
  by_cases h1 : s.isPlaced c = true
  · by_cases h2 : c = p
    · subst h2; simp [h1] at h
    · by_cases h3 : s.row c = r ∧ s.pred c = p
      · simp [h1, h2, h3] at h
      · by_cases h4 : s.isRowAllowed c r = true
        · simp only [h1, h2, h3, h4, Bool.not_true, Bool.false_eq_true, if_false, Except.ok.injEq,
            decide_eq_true_eq] at h
          exact ⟨(isPlaced_iff s c).1 h1, h2, h3, h4, h⟩
        · simp [h1, h2, h3, h4] at h
  · simp [h1] at h

/-- **`insert` never throws on a move that `canInsert` accepts** (site named by the optimiser: a valid
row and a predecessor that is −1 or a placed cell of that row) -/
theorem insert_succeeds {s : State} (h : Inv s) {c r p : Int} (hl : s.liveCell c = true) (hs : s.siteOk r p = true)
    (hcan : s.canInsert c r p = .ok true) : ∃ t, s.insert c r p = .ok t := by
  rw [liveCell_iff] at hl
  rw [siteOk_iff] at hs
  obtain ⟨hp, hcp, hsite, hal, hw⟩ := canInsert_true hcan
  have Lc := h.link hl.1
  have hnext : (s.unplace c).siteNext r p = s.siteNext r p := by
    unfold LinkOk at Lc
    have hpp := hs.2
    clear h
    unfold siteNext
    simp only [unplace, upd, updIf]
    grind
  have hb : (s.unplace c).siteBegin r p = s.siteBegin r p := rfl
  have he : (s.unplace c).siteEnd r p = s.siteEnd r p := by
    unfold siteEnd
    rw [hnext]
    rfl
  have hm := midpoint_ok (s.siteBegin r p) (s.siteEnd r p) (s.width c) (by omega)
  have hx : (s.positionOnInsert c r p).1 = (s.siteBegin r p + s.siteEnd r p - s.width c).tdiv 2 := by
    unfold positionOnInsert
    simp only
    have e : s.siteEnd r p - s.width c + s.siteBegin r p = s.siteBegin r p + s.siteEnd r p - s.width c := by omega
    rw [e]
  have hins : s.insert c r p = (s.unplace c).place c r p (s.positionOnInsert c r p).1 := by
    unfold State.insert
    rw [hcan]
  rw [hins]
  exact ⟨_, place_succeeds (by simp [unplace_row]) hal (by rw [hb, hx]; exact hm.1) (by rw [he, hx]; exact hm.2)⟩

theorem canSwap_true {s : State} {c1 c2 : Int} (h : s.canSwap c1 c2 = .ok true) :
    s.row c1 ≠ -1 ∧ s.row c2 ≠ -1 ∧ c1 ≠ c2 ∧ s.isRowAllowed c1 (s.row c2) = true ∧
    s.isRowAllowed c2 (s.row c1) = true ∧
    (s.pred c1 = c2 ∨ s.pred c2 = c1 ∨
      (s.boundaryAfter c2 - s.boundaryBefore c2 ≥ s.width c1 ∧ s.boundaryAfter c1 - s.boundaryBefore c1 ≥ s.width c2)) := by
  unfold canSwap at h
  by_cases h1 : s.isPlaced c1 = true
  · by_cases h2 : s.isPlaced c2 = true
    · by_cases h3 : c1 = c2
      · simp [h2, h3] at h
      · by_cases h4 : s.isRowAllowed c1 (s.row c2) = true
        · by_cases h5 : s.isRowAllowed c2 (s.row c1) = true
          · refine ⟨(isPlaced_iff s c1).1 h1, (isPlaced_iff s c2).1 h2, h3, h4, h5, ?_⟩
            by_cases h6 : s.pred c1 = c2 ∨ s.pred c2 = c1
            · rcases h6 with h6 | h6
              · exact Or.inl h6
              · exact Or.inr (Or.inl h6)
            · simp only [h1, h2, h3, h4, h5, h6, Bool.not_true, Bool.or_self, Bool.false_eq_true, if_false,
                Except.ok.injEq, Bool.and_eq_true, decide_eq_true_eq] at h
              exact Or.inr (Or.inr h)
          · simp [h1, h2, h3, h4, h5] at h
        · simp [h1, h2, h3, h4] at h
    · simp [h1, h2] at h
  · simp [h1] at h

/-- **`swap` never throws on a move that `canSwap` accepts** (all three branches) -/
theorem swap_succeeds {s : State} (h : Inv s) {c1 c2 : Int} (hl1 : s.liveCell c1 = true) (hl2 : s.liveCell c2 = true)
    (hcan : s.canSwap c1 c2 = .ok true) : ∃ t, s.swap c1 c2 = .ok t := by
  rw [liveCell_iff] at hl1 hl2
  obtain ⟨r1, r2, h12, al1, al2, hfit⟩ := canSwap_true hcan
  have L1 := h.link hl1.1
  have L2 := h.link hl2.1
  have w1 := h.placed_width hl1.1 r1
  have w2 := h.placed_width hl2.1 r2
  have R1 := h.rowok (h.placed_row hl1.1 r1)
  have R2 := h.rowok (h.placed_row hl2.1 r2)
  have Lp1 : s.pred c1 ≠ -1 → LinkOk s (s.pred c1) := fun hh => h.link (by unfold LinkOk at L1; exact ((L1.2.2 r1).1 hh).1)
  have Lp2 : s.pred c2 ≠ -1 → LinkOk s (s.pred c2) := fun hh => h.link (by unfold LinkOk at L2; exact ((L2.2.2 r2).1 hh).1)
  have Ln1 : s.next c1 ≠ -1 → LinkOk s (s.next c1) := fun hh => h.link (by unfold LinkOk at L1; exact ((L1.2.2 r1).2.2.1 hh).1)
  have Ln2 : s.next c2 ≠ -1 → LinkOk s (s.next c2) := fun hh => h.link (by unfold LinkOk at L2; exact ((L2.2.2 r2).2.2.1 hh).1)
  have hv1 := hl1.1
  have hv2 := hl2.1
  clear h hl1 hl2
  have hsw : s.swap c1 c2 =
      if s.pred c1 = c2 then
        (((s.unplace c1).unplace c2).place c1 (s.row c2) (s.pred c2) (s.positionsOnSwap c1 c2).1.1).bind
          fun t => t.place c2 (s.row c1) c1 (s.positionsOnSwap c1 c2).2.1
      else if s.pred c2 = c1 then
        (((s.unplace c1).unplace c2).place c2 (s.row c1) (s.pred c1) (s.positionsOnSwap c1 c2).2.1).bind
          fun t => t.place c1 (s.row c2) c2 (s.positionsOnSwap c1 c2).1.1
      else
        (((s.unplace c1).unplace c2).place c1 (s.row c2) (s.pred c2) (s.positionsOnSwap c1 c2).1.1).bind
          fun t => t.place c2 (s.row c1) (s.pred c1) (s.positionsOnSwap c1 c2).2.1 := by
    unfold State.swap
    rw [hcan]
  rw [hsw]
  have e2 : ∀ q, ((s.unplace c1).unplace c2).rowMinX q = s.rowMinX q := fun _ => rfl
  have e3 : ∀ q, ((s.unplace c1).unplace c2).rowMaxX q = s.rowMaxX q := fun _ => rfl
  have f2 : ∀ a b c d q, (((s.unplace c1).unplace c2).placeRaw a b c d).rowMinX q = s.rowMinX q := fun _ _ _ _ _ => rfl
  have f3 : ∀ a b c d q, (((s.unplace c1).unplace c2).placeRaw a b c d).rowMaxX q = s.rowMaxX q := fun _ _ _ _ _ => rfl
  have a1 : ∀ q, ((s.unplace c1).unplace c2).isRowAllowed c1 q = s.isRowAllowed c1 q := fun _ => rfl
  have a2 : ∀ a b c d q, (((s.unplace c1).unplace c2).placeRaw a b c d).isRowAllowed c2 q = s.isRowAllowed c2 q := fun _ _ _ _ _ => rfl
  have a1' : ∀ a b c d q, (((s.unplace c1).unplace c2).placeRaw a b c d).isRowAllowed c1 q = s.isRowAllowed c1 q := fun _ _ _ _ _ => rfl
  have a2' : ∀ q, ((s.unplace c1).unplace c2).isRowAllowed c2 q = s.isRowAllowed c2 q := fun _ => rfl
  by_cases hadj1 : s.pred c1 = c2
  · -- c2 is the predecessor of c1: they exchange their order in place
    rw [if_pos hadj1]
    have px : s.positionsOnSwap c1 c2 = ((s.x c2, s.y c2), (s.x c2 + s.width c1, s.y c1)) := by
      unfold positionsOnSwap; rw [if_pos hadj1]
    rw [px]
    simp only
    have p1 : ((s.unplace c1).unplace c2).place c1 (s.row c2) (s.pred c2) (s.x c2) =
        .ok (((s.unplace c1).unplace c2).placeRaw c1 (s.row c2) (s.pred c2) (s.x c2)) := by
      apply place_succeeds
      · simp [unplace_row, h12]
      · rw [a1]; exact al1
      · unfold LinkOk RowOk validCell at *
        unfold siteBegin at *
        simp only [e2]
        simp only [unplace, upd, updIf] at *
        grind
      · unfold LinkOk RowOk validCell at *
        unfold siteEnd siteNext at *
        simp only [e3]
        simp only [unplace, upd, updIf] at *
        grind (splits := 20)
    rw [p1]
    simp only [Except.bind]
    refine ⟨_, place_succeeds ?_ ?_ ?_ ?_⟩
    · simp [placeRaw_row, unplace_row, Ne.symm h12]
    · rw [a2]; exact al2
    · unfold LinkOk RowOk validCell at *
      unfold siteBegin at *
      simp only [f2]
      simp only [placeRaw, unplace, upd, updIf] at *
      grind (splits := 20)
    · have hc1 : c1 ≠ -1 := by unfold validCell at hv1; omega
      have hsn : (((s.unplace c1).unplace c2).placeRaw c1 (s.row c2) (s.pred c2) (s.x c2)).siteNext (s.row c1) c1
          = s.next c1 := by
        unfold LinkOk RowOk validCell at *
        unfold siteNext
        simp only [placeRaw, unplace, upd, updIf] at *
        unfold siteNext
        simp only [upd, updIf] at *
        grind (splits := 20)
      unfold siteEnd
      rw [hsn]
      simp only [f3]
      have hx : ∀ d, d ≠ c1 → (((s.unplace c1).unplace c2).placeRaw c1 (s.row c2) (s.pred c2) (s.x c2)).x d = s.x d := by
        intro d hd; simp [placeRaw, unplace, upd, hd]
      have hw : (((s.unplace c1).unplace c2).placeRaw c1 (s.row c2) (s.pred c2) (s.x c2)).width c2 = s.width c2 := rfl
      rw [hw]
      unfold LinkOk at L1 L2
      have A := ((L1.2.2 r1).1 (by rw [hadj1]; unfold validCell at hv2; omega)).2.2.1
      rw [hadj1] at A
      by_cases hn : s.next c1 = -1
      · rw [if_pos hn]
        have := ((L1.2.2 r1).2.2.2 hn).2
        omega
      · rw [if_neg hn]
        have B := ((L1.2.2 r1).2.2.1 hn).2.2.1
        rw [hx _ (by intro e; rw [e] at B; omega)]
        omega
  · by_cases hadj2 : s.pred c2 = c1
    · -- c1 is the predecessor of c2
      rw [if_neg hadj1, if_pos hadj2]
      have px : s.positionsOnSwap c1 c2 = ((s.x c1 + s.width c2, s.y c2), (s.x c1, s.y c1)) := by
        unfold positionsOnSwap; rw [if_neg hadj1, if_pos hadj2]
      rw [px]
      simp only
      have p1 : ((s.unplace c1).unplace c2).place c2 (s.row c1) (s.pred c1) (s.x c1) =
          .ok (((s.unplace c1).unplace c2).placeRaw c2 (s.row c1) (s.pred c1) (s.x c1)) := by
        apply place_succeeds
        · simp [unplace_row]
        · rw [a2']; exact al2
        · unfold LinkOk RowOk validCell at *
          unfold siteBegin at *
          simp only [e2]
          simp only [unplace, upd, updIf] at *
          grind
        · unfold LinkOk RowOk validCell at *
          unfold siteEnd siteNext at *
          simp only [e3]
          simp only [unplace, upd, updIf] at *
          grind (splits := 20)
      rw [p1]
      simp only [Except.bind]
      refine ⟨_, place_succeeds ?_ ?_ ?_ ?_⟩
      · simp [placeRaw_row, unplace_row, h12]
      · rw [a1']; exact al1
      · unfold LinkOk RowOk validCell at *
        unfold siteBegin at *
        simp only [f2]
        simp only [placeRaw, unplace, upd, updIf] at *
        grind (splits := 20)
      · have hc2 : c2 ≠ -1 := by unfold validCell at hv2; omega
        have hsn : (((s.unplace c1).unplace c2).placeRaw c2 (s.row c1) (s.pred c1) (s.x c1)).siteNext (s.row c2) c2
            = s.next c2 := by
          unfold LinkOk RowOk validCell at *
          unfold siteNext
          simp only [placeRaw, unplace, upd, updIf] at *
          unfold siteNext
          simp only [upd, updIf] at *
          grind (splits := 20)
        unfold siteEnd
        rw [hsn]
        simp only [f3]
        have hx : ∀ d, d ≠ c2 → (((s.unplace c1).unplace c2).placeRaw c2 (s.row c1) (s.pred c1) (s.x c1)).x d = s.x d := by
          intro d hd; simp [placeRaw, unplace, upd, hd]
        have hw : (((s.unplace c1).unplace c2).placeRaw c2 (s.row c1) (s.pred c1) (s.x c1)).width c1 = s.width c1 := rfl
        rw [hw]
        unfold LinkOk at L1 L2
        have A := ((L2.2.2 r2).1 (by rw [hadj2]; unfold validCell at hv1; omega)).2.2.1
        rw [hadj2] at A
        by_cases hn : s.next c2 = -1
        · rw [if_pos hn]
          have := ((L2.2.2 r2).2.2.2 hn).2
          omega
        · rw [if_neg hn]
          have B := ((L2.2.2 r2).2.2.1 hn).2.2.1
          rw [hx _ (by intro e; rw [e] at B; omega)]
          omega
    · -- apart (or in two rows): both go to the middle of the other's site
      rw [if_neg hadj1, if_neg hadj2]
      have hf := hfit.resolve_left hadj1 |>.resolve_left hadj2
      have m1 := midpoint_ok (s.boundaryBefore c2) (s.boundaryAfter c2) (s.width c1) (by omega)
      have m2 := midpoint_ok (s.boundaryBefore c1) (s.boundaryAfter c1) (s.width c2) (by omega)
      have px : s.positionsOnSwap c1 c2 =
          (((s.boundaryBefore c2 + s.boundaryAfter c2 - s.width c1).tdiv 2, s.y c2),
           ((s.boundaryBefore c1 + s.boundaryAfter c1 - s.width c2).tdiv 2, s.y c1)) := by
        unfold positionsOnSwap; rw [if_neg hadj1, if_neg hadj2]
      rw [px]
      simp only
      generalize (s.boundaryBefore c2 + s.boundaryAfter c2 - s.width c1).tdiv 2 = x1 at m1 ⊢
      generalize (s.boundaryBefore c1 + s.boundaryAfter c1 - s.width c2).tdiv 2 = x2 at m2 ⊢
      have p1 : ((s.unplace c1).unplace c2).place c1 (s.row c2) (s.pred c2) x1 =
          .ok (((s.unplace c1).unplace c2).placeRaw c1 (s.row c2) (s.pred c2) x1) := by
        apply place_succeeds
        · simp [unplace_row, h12]
        · rw [a1]; exact al1
        · unfold LinkOk RowOk validCell at *
          unfold siteBegin boundaryBefore boundaryAfter at *
          simp only [e2]
          simp only [unplace, upd, updIf] at *
          grind
        · unfold LinkOk RowOk validCell at *
          unfold siteEnd siteNext boundaryBefore boundaryAfter at *
          simp only [e3]
          simp only [unplace, upd, updIf] at *
          grind (splits := 20)
      rw [p1]
      simp only [Except.bind]
      refine ⟨_, place_succeeds ?_ ?_ ?_ ?_⟩
      · simp [placeRaw_row, unplace_row, Ne.symm h12]
      · rw [a2]; exact al2
      · unfold LinkOk RowOk validCell at *
        unfold siteBegin boundaryBefore boundaryAfter at *
        simp only [f2]
        simp only [placeRaw, unplace, upd, updIf] at *
        grind (splits := 20)
      · unfold LinkOk RowOk validCell at *
        unfold siteEnd siteNext boundaryBefore boundaryAfter at *
        simp only [f3]
        simp only [placeRaw, unplace, upd, updIf] at *
        unfold siteNext at *
        grind (splits := 25)

end ColoVerif.DetPlace
