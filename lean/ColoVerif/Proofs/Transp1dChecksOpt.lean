import ColoVerif.Proofs.Transp1dChecks
/-
The self-checks of `Transportation1d::solve()`, part 2: `checkSolutionOptimal` accepts every plan
(entries in range, all demands positive) that either saturates every sink or has sink prices
`be ≥ 0`, zero on unsaturated sinks, with `c(i,j) - c(i,j±1) ≤ be(j±1) - be(j)` wherever the plan
ships (`checkSolutionOptimal_ok`).  The running gain of the right scan started at `snk` is then at
most `be nxt - be snk`, which is `≤ 0` at the first unsaturated sink `nxt`; entries of
`gainRight`/`gainLeft` are read only for sinks that receive something, so the `LLONG_MIN` sentinel
never enters the arithmetic.
-/
namespace ColoVerif.Transp1d

/-! ### the accumulation loops -/

theorem usedCapLoop_ok (es : Plan) (uc : List Int) (hr : ∀ e ∈ es, e.2.1 < uc.length) :
    ∃ uc', usedCapLoop es uc = .ok uc' ∧ uc'.length = uc.length ∧
      ∀ k, uc'.getD k 0 = uc.getD k 0 + colSum es k := by
  induction es generalizing uc with
  | nil => exact ⟨uc, rfl, rfl, fun k => by simp [colSum]⟩
  | cons e es ih =>
    obtain ⟨i, j, a⟩ := e
    have h1 : j < uc.length := hr (i, j, a) (List.mem_cons_self ..)
    obtain ⟨uc', e', l1, r1⟩ := ih (uc.set j (uc.getD j 0 + a))
      (fun e he => by simpa using hr e (List.mem_cons_of_mem _ he))
    refine ⟨uc', ?_, by simpa using l1, ?_⟩
    · simp only [usedCapLoop, addAt_ok uc j a h1, bind, Except.bind]
      exact e'
    · intro k
      rw [r1 k, getD_set_int _ _ _ _ h1]
      simp only [colSum]
      by_cases hk : k = j
      · subst hk; simp; omega
      · have : ¬ j = k := fun e => hk e.symm
        simp [hk, this]

theorem get_okO (l : List (Option Int)) (i : Nat) (h : i < l.length) :
    get l i = .ok (l.getD i none) := get_ok l i h

theorem getD_set_opt (l : List (Option Int)) (k j : Nat) (x : Option Int) (h : k < l.length) :
    (l.set k x).getD j none = if j = k then x else l.getD j none := by
  simp only [List.getD_eq_getElem?_getD, List.getElem?_set]
  by_cases hjk : k = j
  · subst hjk; simp [h]
  · have : ¬ j = k := fun e => hjk e.symm
    simp [hjk, this]

theorem omax_cases (old : Option Int) (g : Int) : omax old g = g ∨ old = some (omax old g) := by
  cases old with
  | none => exact Or.inl rfl
  | some x =>
    simp only [omax]
    by_cases h : x ≤ g
    · left; omega
    · right; congr 1; omega

/-- every entry of `gainRight` is an old entry or the gain of a plan entry shipping to that sink;
sinks that receive something (and are not the last one) get an entry -/
theorem gainRightLoop_ok (sv : Solver) (es : Plan) (gr : List (Option Int))
    (hlen : gr.length = sv.v.length)
    (hr : ∀ e ∈ es, e.1 < sv.u.length ∧ e.2.1 < sv.v.length) :
    ∃ gr', gainRightLoop sv es gr = .ok gr' ∧ gr'.length = sv.v.length ∧
      (∀ j g, gr'.getD j none = some g → gr.getD j none = some g ∨
        ∃ e ∈ es, e.2.1 = j ∧ j + 1 < sv.v.length ∧ g = cs sv e.1 j - cs sv e.1 (j + 1)) ∧
      (∀ j, (gr.getD j none ≠ none ∨ ∃ e ∈ es, e.2.1 = j ∧ j + 1 < sv.v.length) →
        gr'.getD j none ≠ none) := by
  induction es generalizing gr with
  | nil => exact ⟨gr, rfl, hlen, fun j g h => Or.inl h, fun j h => by
      rcases h with h | ⟨e, he, _⟩
      · exact h
      · simp at he⟩
  | cons e es ih =>
    obtain ⟨i, j, a⟩ := e
    have h1 : i < sv.u.length ∧ j < sv.v.length := hr (i, j, a) (List.mem_cons_self ..)
    have hr' : ∀ e ∈ es, e.1 < sv.u.length ∧ e.2.1 < sv.v.length :=
      fun e he => hr e (List.mem_cons_of_mem _ he)
    by_cases hj : j + 1 < sv.v.length
    · have hjl : j < gr.length := by omega
      obtain ⟨gr', e', l1, r1, r2⟩ := ih (gr.set j (some (omax (gr.getD j none)
        (iabs (sv.u.getD i 0 - sv.v.getD j 0) - iabs (sv.u.getD i 0 - sv.v.getD (j + 1) 0)))))
        (by simpa using hlen) hr'
      refine ⟨gr', ?_, l1, ?_, ?_⟩
      · simp only [gainRightLoop, Solver.nbSinks, hj, if_true, cost_ok sv i j h1.1 h1.2,
          cost_ok sv i (j + 1) h1.1 hj, get_okO gr j hjl, setAt, hjl, bind, Except.bind, pure,
          Except.pure]
        exact e'
      · intro k g hg
        rcases r1 k g hg with h | ⟨e, he, h2, h3, h4⟩
        · rw [getD_set_opt _ _ _ _ hjl] at h
          by_cases hk : k = j
          · subst hk
            rw [if_pos rfl] at h
            have h5 := Option.some.inj h
            rcases omax_cases (gr.getD k none)
              (iabs (sv.u.getD i 0 - sv.v.getD k 0) - iabs (sv.u.getD i 0 - sv.v.getD (k + 1) 0))
              with h6 | h6
            · right
              exact ⟨(i, k, a), List.mem_cons_self .., rfl, hj, by unfold cs; dsimp only; omega⟩
            · left; rw [h6, h5]
          · rw [if_neg hk] at h; exact Or.inl h
        · exact Or.inr ⟨e, List.mem_cons_of_mem _ he, h2, h3, h4⟩
      · intro k hk
        apply r2 k
        rcases hk with h | ⟨e, he, h2, h3⟩
        · left
          rw [getD_set_opt _ _ _ _ hjl]
          by_cases hkj : k = j
          · rw [if_pos hkj]; simp
          · rw [if_neg hkj]; exact h
        · rcases List.mem_cons.mp he with rfl | he'
          · left
            rw [getD_set_opt _ _ _ _ hjl]
            simp only [] at h2
            rw [if_pos h2.symm]; simp
          · exact Or.inr ⟨e, he', h2, h3⟩
    · obtain ⟨gr', e', l1, r1, r2⟩ := ih gr hlen hr'
      refine ⟨gr', ?_, l1, ?_, ?_⟩
      · simp only [gainRightLoop, Solver.nbSinks, hj, if_false]
        exact e'
      · intro k g hg
        rcases r1 k g hg with h | ⟨e, he, h2, h3, h4⟩
        · exact Or.inl h
        · exact Or.inr ⟨e, List.mem_cons_of_mem _ he, h2, h3, h4⟩
      · intro k hk
        apply r2 k
        rcases hk with h | ⟨e, he, h2, h3⟩
        · exact Or.inl h
        · rcases List.mem_cons.mp he with rfl | he'
          · simp only [] at h2; subst h2; exact absurd h3 hj
          · exact Or.inr ⟨e, he', h2, h3⟩

theorem gainLeftLoop_ok (sv : Solver) (es : Plan) (gl : List (Option Int))
    (hlen : gl.length = sv.v.length)
    (hr : ∀ e ∈ es, e.1 < sv.u.length ∧ e.2.1 < sv.v.length) :
    ∃ gl', gainLeftLoop sv es gl = .ok gl' ∧ gl'.length = sv.v.length ∧
      (∀ j g, gl'.getD j none = some g → gl.getD j none = some g ∨
        ∃ e ∈ es, e.2.1 = j ∧ 1 ≤ j ∧ g = cs sv e.1 j - cs sv e.1 (j - 1)) ∧
      (∀ j, (gl.getD j none ≠ none ∨ ∃ e ∈ es, e.2.1 = j ∧ 1 ≤ j) →
        gl'.getD j none ≠ none) := by
  induction es generalizing gl with
  | nil => exact ⟨gl, rfl, hlen, fun j g h => Or.inl h, fun j h => by
      rcases h with h | ⟨e, he, _⟩
      · exact h
      · simp at he⟩
  | cons e es ih =>
    obtain ⟨i, j, a⟩ := e
    have h1 : i < sv.u.length ∧ j < sv.v.length := hr (i, j, a) (List.mem_cons_self ..)
    have hr' : ∀ e ∈ es, e.1 < sv.u.length ∧ e.2.1 < sv.v.length :=
      fun e he => hr e (List.mem_cons_of_mem _ he)
    by_cases hj : 1 ≤ j
    · have hjl : j < gl.length := by omega
      obtain ⟨gl', e', l1, r1, r2⟩ := ih (gl.set j (some (omax (gl.getD j none)
        (iabs (sv.u.getD i 0 - sv.v.getD j 0) - iabs (sv.u.getD i 0 - sv.v.getD (j - 1) 0)))))
        (by simpa using hlen) hr'
      refine ⟨gl', ?_, l1, ?_, ?_⟩
      · simp only [gainLeftLoop, hj, if_true, cost_ok sv i j h1.1 h1.2,
          cost_ok sv i (j - 1) h1.1 (by omega), get_okO gl j hjl, setAt, hjl, bind, Except.bind,
          pure, Except.pure]
        exact e'
      · intro k g hg
        rcases r1 k g hg with h | ⟨e, he, h2, h3, h4⟩
        · rw [getD_set_opt _ _ _ _ hjl] at h
          by_cases hk : k = j
          · subst hk
            rw [if_pos rfl] at h
            have h5 := Option.some.inj h
            rcases omax_cases (gl.getD k none)
              (iabs (sv.u.getD i 0 - sv.v.getD k 0) - iabs (sv.u.getD i 0 - sv.v.getD (k - 1) 0))
              with h6 | h6
            · right
              exact ⟨(i, k, a), List.mem_cons_self .., rfl, hj, by unfold cs; dsimp only; omega⟩
            · left; rw [h6, h5]
          · rw [if_neg hk] at h; exact Or.inl h
        · exact Or.inr ⟨e, List.mem_cons_of_mem _ he, h2, h3, h4⟩
      · intro k hk
        apply r2 k
        rcases hk with h | ⟨e, he, h2, h3⟩
        · left
          rw [getD_set_opt _ _ _ _ hjl]
          by_cases hkj : k = j
          · rw [if_pos hkj]; simp
          · rw [if_neg hkj]; exact h
        · rcases List.mem_cons.mp he with rfl | he'
          · left
            rw [getD_set_opt _ _ _ _ hjl]
            simp only [] at h2
            rw [if_pos h2.symm]; simp
          · exact Or.inr ⟨e, he', h2, h3⟩
    · obtain ⟨gl', e', l1, r1, r2⟩ := ih gl hlen hr'
      refine ⟨gl', ?_, l1, ?_, ?_⟩
      · simp only [gainLeftLoop, hj, if_false]
        exact e'
      · intro k g hg
        rcases r1 k g hg with h | ⟨e, he, h2, h3, h4⟩
        · exact Or.inl h
        · exact Or.inr ⟨e, List.mem_cons_of_mem _ he, h2, h3, h4⟩
      · intro k hk
        apply r2 k
        rcases hk with h | ⟨e, he, h2, h3⟩
        · exact Or.inl h
        · rcases List.mem_cons.mp he with rfl | he'
          · simp only [] at h2; subst h2; exact absurd h3 hj
          · exact Or.inr ⟨e, he', h2, h3⟩

theorem readGain_some (g : List (Option Int)) (k : Nat) (x : Int) (h : k < g.length)
    (hx : g.getD k none = some x) : readGain g k = .ok x := by
  unfold readGain
  rw [get_okO g k h, hx]

/-! ### the right scan -/

theorem rightInner_ok (sv : Solver) (uc : List Int) (gr : List (Option Int)) (I : Nat → Int → Prop)
    (hucl : uc.length = sv.v.length) (hdl : sv.d.length = sv.v.length)
    (hgl : gr.length = sv.v.length)
    (hsat : ∀ j, j + 1 < sv.v.length → sv.d.getD j 0 ≤ uc.getD j 0 → ∃ g, gr.getD j none = some g)
    (step : ∀ nxt gain g, I nxt gain → nxt + 1 < sv.v.length → sv.d.getD nxt 0 ≤ uc.getD nxt 0 →
      gr.getD nxt none = some g → I (nxt + 1) (gain + g))
    (stop : ∀ nxt gain, I nxt gain → nxt < sv.v.length → uc.getD nxt 0 < sv.d.getD nxt 0 → gain ≤ 0)
    (cnt nxt : Nat) (gain : Int) (hc : nxt + cnt = sv.v.length) (hI : I nxt gain) :
    ∃ r, rightInner sv uc gr cnt nxt gain = .ok r ∧ ∀ n, r = some n → nxt ≤ n ∧ n < sv.v.length := by
  induction cnt generalizing nxt gain with
  | zero => exact ⟨none, rfl, fun n h => by cases h⟩
  | succ cnt ih =>
    have hn : nxt < sv.v.length := by omega
    simp only [rightInner, get_ok' uc nxt (by omega), get_ok' sv.d nxt (by omega), liftK, bind,
      Except.bind]
    by_cases hlt : uc.getD nxt 0 < sv.d.getD nxt 0
    · have := stop nxt gain hI hn hlt
      rw [if_pos hlt, if_neg (by omega)]
      exact ⟨some nxt, rfl, fun n h => by cases h; exact ⟨Nat.le_refl _, hn⟩⟩
    · rw [if_neg hlt]
      by_cases h1 : nxt + 1 < sv.v.length
      · obtain ⟨g, hg⟩ := hsat nxt h1 (by omega)
        rw [if_pos (show nxt + 1 < sv.nbSinks from h1), readGain_some gr nxt g (by omega) hg]
        obtain ⟨r, e, hr⟩ := ih (nxt + 1) (gain + g) (by omega) (step nxt gain g hI h1 (by omega) hg)
        exact ⟨r, e, fun n h => by have := hr n h; omega⟩
      · rw [if_neg (show ¬ nxt + 1 < sv.nbSinks from h1)]
        have : cnt = 0 := by omega
        subst this
        exact ⟨none, rfl, fun n h => by cases h⟩

theorem rightOuter_ok (sv : Solver) (uc : List Int) (gr : List (Option Int))
    (J : Nat → Nat → Int → Prop)
    (hucl : uc.length = sv.v.length) (hdl : sv.d.length = sv.v.length)
    (hgl : gr.length = sv.v.length)
    (hdpos : ∀ j, j < sv.v.length → 0 < sv.d.getD j 0)
    (hex : ∀ j, j + 1 < sv.v.length → uc.getD j 0 ≠ 0 → ∃ g, gr.getD j none = some g)
    (init : ∀ snk g, snk + 1 < sv.v.length → uc.getD snk 0 ≠ 0 → gr.getD snk none = some g →
      J snk (snk + 1) g)
    (step : ∀ snk nxt gain g, J snk nxt gain → nxt + 1 < sv.v.length →
      sv.d.getD nxt 0 ≤ uc.getD nxt 0 → gr.getD nxt none = some g → J snk (nxt + 1) (gain + g))
    (stop : ∀ snk nxt gain, J snk nxt gain → snk < sv.v.length → nxt < sv.v.length →
      uc.getD nxt 0 < sv.d.getD nxt 0 → gain ≤ 0)
    (fuel snk : Nat) (hf : sv.v.length < fuel + snk) (hs : snk ≤ sv.v.length) :
    rightOuter sv uc gr fuel snk = .ok () := by
  induction fuel generalizing snk with
  | zero => omega
  | succ fuel ih =>
    simp only [rightOuter]
    by_cases h1 : snk + 1 < sv.v.length
    · rw [if_pos (show snk + 1 < sv.nbSinks from h1)]
      simp only [get_ok' uc snk (by omega), liftK, bind, Except.bind]
      by_cases h0 : uc.getD snk 0 = 0
      · rw [if_pos h0]
        exact ih (snk + 1) (by omega) (by omega)
      · rw [if_neg h0]
        obtain ⟨g, hg⟩ := hex snk h1 h0
        rw [readGain_some gr snk g (by omega) hg]
        obtain ⟨r, e, hr⟩ := rightInner_ok sv uc gr (J snk) hucl hdl hgl
          (fun j hj hle => hex j hj (by have := hdpos j (by omega); omega))
          (step snk) (fun nxt gain hI hn hlt => stop snk nxt gain hI (by omega) hn hlt)
          (sv.v.length - (snk + 1)) (snk + 1) g (by omega) (init snk g h1 h0 hg)
        have e' : rightInner sv uc gr (sv.nbSinks - (snk + 1)) (snk + 1) g = .ok r := e
        simp only [e']
        apply ih
        · cases r with
          | none => simp only [nextRight]; omega
          | some n => have := hr n rfl; simp only [nextRight]; omega
        · cases r with
          | none => simp only [nextRight]; omega
          | some n => have := hr n rfl; simp only [nextRight]; omega
    · rw [if_neg (show ¬ snk + 1 < sv.nbSinks from h1)]; rfl

/-! ### the left scan -/

theorem leftInner_ok (sv : Solver) (uc : List Int) (gl : List (Option Int)) (I : Nat → Int → Prop)
    (hucl : uc.length = sv.v.length) (hdl : sv.d.length = sv.v.length)
    (hgl : gl.length = sv.v.length)
    (hsat : ∀ j, 1 ≤ j → j < sv.v.length → sv.d.getD j 0 ≤ uc.getD j 0 →
      ∃ g, gl.getD j none = some g)
    (step : ∀ nxt gain g, I (nxt + 1) gain → 1 ≤ nxt → sv.d.getD nxt 0 ≤ uc.getD nxt 0 →
      gl.getD nxt none = some g → I nxt (gain + g))
    (stop : ∀ nxt gain, I (nxt + 1) gain → uc.getD nxt 0 < sv.d.getD nxt 0 → gain ≤ 0)
    (k : Nat) (gain : Int) (hk : k ≤ sv.v.length) (hI : I k gain) :
    ∃ r, leftInner sv uc gl k gain = .ok r ∧ ∀ n, r = some n → n < k := by
  induction k generalizing gain with
  | zero => exact ⟨none, rfl, fun n h => by cases h⟩
  | succ nxt ih =>
    simp only [leftInner, get_ok' uc nxt (by omega), get_ok' sv.d nxt (by omega), liftK, bind,
      Except.bind]
    by_cases hlt : uc.getD nxt 0 < sv.d.getD nxt 0
    · have := stop nxt gain hI hlt
      rw [if_pos hlt, if_neg (by omega)]
      exact ⟨some nxt, rfl, fun n h => by cases h; omega⟩
    · rw [if_neg hlt]
      by_cases h1 : 1 ≤ nxt
      · obtain ⟨g, hg⟩ := hsat nxt h1 (by omega) (by omega)
        rw [if_pos h1, readGain_some gl nxt g (by omega) hg]
        obtain ⟨r, e, hr⟩ := ih (gain + g) (by omega) (step nxt gain g hI h1 (by omega) hg)
        exact ⟨r, e, fun n h => by have := hr n h; omega⟩
      · rw [if_neg h1]
        have : nxt = 0 := by omega
        subst this
        exact ⟨none, rfl, fun n h => by cases h⟩

theorem leftOuter_ok (sv : Solver) (uc : List Int) (gl : List (Option Int))
    (J : Nat → Nat → Int → Prop)
    (hucl : uc.length = sv.v.length) (hdl : sv.d.length = sv.v.length)
    (hgl : gl.length = sv.v.length)
    (hdpos : ∀ j, j < sv.v.length → 0 < sv.d.getD j 0)
    (hex : ∀ j, 1 ≤ j → j < sv.v.length → uc.getD j 0 ≠ 0 → ∃ g, gl.getD j none = some g)
    (init : ∀ snk g, 1 ≤ snk → snk < sv.v.length → uc.getD snk 0 ≠ 0 → gl.getD snk none = some g →
      J snk snk g)
    (step : ∀ snk nxt gain g, J snk (nxt + 1) gain → 1 ≤ nxt → sv.d.getD nxt 0 ≤ uc.getD nxt 0 →
      gl.getD nxt none = some g → J snk nxt (gain + g))
    (stop : ∀ snk nxt gain, J snk (nxt + 1) gain → snk < sv.v.length → nxt < sv.v.length →
      uc.getD nxt 0 < sv.d.getD nxt 0 → gain ≤ 0)
    (fuel snk : Nat) (hf : snk < fuel) (hs : snk ≤ sv.v.length - 1) :
    leftOuter sv uc gl fuel snk = .ok () := by
  induction fuel generalizing snk with
  | zero => omega
  | succ fuel ih =>
    simp only [leftOuter]
    by_cases h1 : 1 ≤ snk
    · rw [if_pos h1]
      have hsm : snk < sv.v.length := by omega
      simp only [get_ok' uc snk (by omega), liftK, bind, Except.bind]
      by_cases h0 : uc.getD snk 0 = 0
      · rw [if_pos h0]
        exact ih (snk - 1) (by omega) (by omega)
      · rw [if_neg h0]
        obtain ⟨g, hg⟩ := hex snk h1 hsm h0
        rw [readGain_some gl snk g (by omega) hg]
        obtain ⟨r, e, hr⟩ := leftInner_ok sv uc gl (J snk) hucl hdl hgl
          (fun j hj hjm hle => hex j hj hjm (by have := hdpos j hjm; omega))
          (step snk)
          (fun nxt gain hI hlt => by
            by_cases hn : nxt < sv.v.length
            · exact stop snk nxt gain hI hsm hn hlt
            · have e1 : uc.getD nxt 0 = 0 := by
                simp [List.getD_eq_getElem?_getD, List.getElem?_eq_none (by omega : uc.length ≤ nxt)]
              have e2 : sv.d.getD nxt 0 = 0 := by
                simp [List.getD_eq_getElem?_getD, List.getElem?_eq_none (by omega : sv.d.length ≤ nxt)]
              omega)
          snk g (by omega) (init snk g h1 hsm h0 hg)
        simp only [e]
        apply ih
        · cases r with
          | none => simp only [nextLeft]; omega
          | some n => have := hr n rfl; simp only [nextLeft]; omega
        · cases r with
          | none => simp only [nextLeft]; omega
          | some n => have := hr n rfl; simp only [nextLeft]; omega
    · rw [if_neg h1]; rfl

/-! ### assembly -/

theorem getD_replicate_none (n k : Nat) :
    (List.replicate n (none : Option Int)).getD k none = none := by
  simp only [List.getD_eq_getElem?_getD, List.getElem?_replicate]
  split <;> rfl

theorem colSum_ne_zero_mem (plan : Plan) (k : Nat) (h : colSum plan k ≠ 0) :
    ∃ e ∈ plan, e.2.1 = k := by
  by_cases hex : ∃ e ∈ plan, e.2.1 = k
  · exact hex
  · exact absurd (colSum_zero plan k (fun e he hk => hex ⟨e, he, hk⟩)) h

/-- a certificate on neighbouring sinks for the plan `sol` of the solver instance `sv` -/
structure NbCert (sv : Solver) (sol : Plan) (be : Nat → Int) : Prop where
  nn : ∀ j, j < sv.v.length → 0 ≤ be j
  slack : ∀ j, j < sv.v.length → colSum sol j < sv.d.getD j 0 → be j ≤ 0
  right : ∀ e ∈ sol, e.2.1 + 1 < sv.v.length →
    cs sv e.1 e.2.1 - cs sv e.1 (e.2.1 + 1) ≤ be (e.2.1 + 1) - be e.2.1
  left : ∀ e ∈ sol, 1 ≤ e.2.1 →
    cs sv e.1 e.2.1 - cs sv e.1 (e.2.1 - 1) ≤ be (e.2.1 - 1) - be e.2.1

/-- `checkSolutionOptimal` accepts a plan (entries in range, demands positive) that saturates every
sink or has a certificate on neighbouring sinks -/
theorem checkSolutionOptimal_ok (sv : Solver) (hdl : sv.d.length = sv.v.length) (sol : Plan)
    (hr : ∀ e ∈ sol, e.1 < sv.u.length ∧ e.2.1 < sv.v.length)
    (hdpos : ∀ j, j < sv.v.length → 0 < sv.d.getD j 0)
    (H : (∀ j, j < sv.v.length → colSum sol j = sv.d.getD j 0) ∨ ∃ be, NbCert sv sol be) :
    checkSolutionOptimal sv sol = .ok () := by
  obtain ⟨uc, e1, l1, r1⟩ := usedCapLoop_ok sol (List.replicate sv.nbSinks 0)
    (fun e he => by simpa [Solver.nbSinks] using (hr e he).2)
  obtain ⟨gr, e2, l2, g1, g2⟩ := gainRightLoop_ok sv sol (List.replicate sv.nbSinks none)
    (by simp [Solver.nbSinks]) hr
  obtain ⟨gl, e3, l3, k1, k2⟩ := gainLeftLoop_ok sv sol (List.replicate sv.nbSinks none)
    (by simp [Solver.nbSinks]) hr
  have l1' : uc.length = sv.v.length := by simpa [Solver.nbSinks] using l1
  have huc : ∀ k, uc.getD k 0 = colSum sol k := by
    intro k; rw [r1 k, getD_replicate_zero]; omega
  have hexR : ∀ j, j + 1 < sv.v.length → uc.getD j 0 ≠ 0 → ∃ g, gr.getD j none = some g := by
    intro j hj hne
    rw [huc j] at hne
    obtain ⟨e, he, hej⟩ := colSum_ne_zero_mem sol j hne
    have := g2 j (Or.inr ⟨e, he, hej, hj⟩)
    cases hg : gr.getD j none with
    | none => exact absurd hg this
    | some g => exact ⟨g, rfl⟩
  have hexL : ∀ j, 1 ≤ j → j < sv.v.length → uc.getD j 0 ≠ 0 → ∃ g, gl.getD j none = some g := by
    intro j hj _ hne
    rw [huc j] at hne
    obtain ⟨e, he, hej⟩ := colSum_ne_zero_mem sol j hne
    have := k2 j (Or.inr ⟨e, he, hej, hj⟩)
    cases hg : gl.getD j none with
    | none => exact absurd hg this
    | some g => exact ⟨g, rfl⟩
  unfold checkSolutionOptimal
  simp only [e1, e2, e3, liftK, bind, Except.bind]
  rcases H with hsat | ⟨be, c⟩
  · rw [rightOuter_ok sv uc gr (fun _ _ _ => True) l1' hdl l2 hdpos hexR
      (fun _ _ _ _ _ => trivial) (fun _ _ _ _ _ _ _ _ => trivial)
      (fun snk nxt gain _ _ hn hlt => by rw [huc nxt, hsat nxt hn] at hlt; omega)
      (sv.nbSinks + 1) 0 (by simp [Solver.nbSinks]) (Nat.zero_le _)]
    simp only []
    exact leftOuter_ok sv uc gl (fun _ _ _ => True) l1' hdl l3 hdpos hexL
      (fun _ _ _ _ _ _ => trivial) (fun _ _ _ _ _ _ _ _ => trivial)
      (fun snk nxt gain _ _ hn hlt => by rw [huc nxt, hsat nxt hn] at hlt; omega)
      (sv.nbSinks + 1) (sv.nbSinks - 1) (by simp [Solver.nbSinks]; omega) (by simp [Solver.nbSinks])
  · have hgr : ∀ j g, gr.getD j none = some g → g ≤ be (j + 1) - be j := by
      intro j g hg
      rcases g1 j g hg with h | ⟨e, he, h2, h3, h4⟩
      · rw [getD_replicate_none] at h; cases h
      · have := c.right e he (by omega)
        rw [h2] at this; omega
    have hgl : ∀ j g, gl.getD j none = some g → g ≤ be (j - 1) - be j := by
      intro j g hg
      rcases k1 j g hg with h | ⟨e, he, h2, h3, h4⟩
      · rw [getD_replicate_none] at h; cases h
      · have := c.left e he (by omega)
        rw [h2] at this; omega
    rw [rightOuter_ok sv uc gr (fun snk nxt gain => gain ≤ be nxt - be snk) l1' hdl l2 hdpos hexR
      (fun snk g _ _ hg => hgr snk g hg)
      (fun snk nxt gain g hI _ _ hg => by have := hgr nxt g hg; omega)
      (fun snk nxt gain hI hs hn hlt => by
        rw [huc nxt] at hlt
        have := c.slack nxt hn hlt
        have := c.nn snk hs
        omega)
      (sv.nbSinks + 1) 0 (by simp [Solver.nbSinks]) (Nat.zero_le _)]
    simp only []
    exact leftOuter_ok sv uc gl (fun snk k gain => gain ≤ be (k - 1) - be snk) l1' hdl l3 hdpos hexL
      (fun snk g _ _ _ hg => hgl snk g hg)
      (fun snk nxt gain g hI _ _ hg => by
        have := hgl nxt g hg
        simp only [Nat.add_sub_cancel] at hI
        omega)
      (fun snk nxt gain hI hs hn hlt => by
        rw [huc nxt] at hlt
        have := c.slack nxt hn hlt
        have := c.nn snk hs
        simp only [Nat.add_sub_cancel] at hI
        omega)
      (sv.nbSinks + 1) (sv.nbSinks - 1) (by simp [Solver.nbSinks]; omega) (by simp [Solver.nbSinks])

end ColoVerif.Transp1d
