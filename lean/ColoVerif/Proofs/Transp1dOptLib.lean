import ColoVerif.Proofs.Transp1dOptSweepDefs
/-
Small library for the optimality proof of the sweep: the sink functions `sigL`/`sigR`, the
integer identity `tR k x = - tL k (x+1)`, and the algebra of the cumulated slope `evS` under the
queue operations of the model (`evInsert`, `emplacePos`, `popAt`, `getSlopeKeep`).
-/
namespace ColoVerif.Transp1d

/-! ### `sigL`, `sigR` -/

theorem cntLe_eq_cntLt (D : List Int) (y : Int) (t : Nat) : cntLe D y t = cntLt D (y + 1) t := by
  induction t with
  | zero => rfl
  | succ t ih =>
    simp only [cntLe, cntLt, ih]
    by_cases h : D.getD (t + 1) 0 ≤ y
    · have h' : D.getD (t + 1) 0 < y + 1 := by omega
      rw [if_pos h, if_pos h']
    · have h' : ¬ D.getD (t + 1) 0 < y + 1 := by omega
      rw [if_neg h, if_neg h']

theorem sigR_eq_sigL (sv : Solver) (y : Int) : sigR sv y = sigL sv (y + 1) :=
  cntLe_eq_cntLt sv.D y sv.v.length

theorem cntLt_eq_min (D : List Int) (y : Int) (m t : Nat)
    (Dmono : ∀ a b, a ≤ b → b ≤ m → D.getD a 0 ≤ D.getD b 0)
    (h1 : D.getD t 0 < y) (h2 : y ≤ D.getD (t + 1) 0) (ht : t < m) :
    ∀ m', m' ≤ m → cntLt D y m' = min m' t := by
  intro m' hm'
  induction m' with
  | zero => simp [cntLt]
  | succ k ih =>
    have ih' := ih (by omega)
    simp only [cntLt, ih']
    by_cases hk : k < t
    · have := Dmono (k + 1) t (by omega) (by omega)
      have h' : D.getD (k + 1) 0 < y := by omega
      simp only [h', if_true]
      omega
    · have := Dmono (t + 1) (k + 1) (by omega) (by omega)
      have h' : ¬ D.getD (k + 1) 0 < y := by omega
      simp only [h', if_false]
      omega

/-- `sigL y` is the sink `t` with `D t < y ≤ D (t+1)` -/
theorem sigL_eq (sv : Solver) (Dmono : ∀ a b, a ≤ b → b ≤ sv.v.length → sv.D.getD a 0 ≤ sv.D.getD b 0)
    (y : Int) (t : Nat) (ht : t < sv.v.length) (h1 : sv.D.getD t 0 < y) (h2 : y ≤ sv.D.getD (t + 1) 0) :
    sigL sv y = t := by
  have := cntLt_eq_min sv.D y sv.v.length t Dmono h1 h2 ht sv.v.length (Nat.le_refl _)
  unfold sigL
  omega

/-- `sigR y` is the sink `t` with `D t ≤ y < D (t+1)` -/
theorem sigR_eq (sv : Solver) (Dmono : ∀ a b, a ≤ b → b ≤ sv.v.length → sv.D.getD a 0 ≤ sv.D.getD b 0)
    (y : Int) (t : Nat) (ht : t < sv.v.length) (h1 : sv.D.getD t 0 ≤ y) (h2 : y < sv.D.getD (t + 1) 0) :
    sigR sv y = t := by
  rw [sigR_eq_sigL]
  exact sigL_eq sv Dmono (y + 1) t ht (by omega) (by omega)

/-- some sink contains `y` when `D 0 < y ≤ D m` -/
theorem exists_sink (D : List Int) (y : Int) (m : Nat) (h0 : D.getD 0 0 < y) (h1 : y ≤ D.getD m 0) :
    ∃ t, t < m ∧ D.getD t 0 < y ∧ y ≤ D.getD (t + 1) 0 := by
  induction m with
  | zero => omega
  | succ k ih =>
    by_cases hk : y ≤ D.getD k 0
    · obtain ⟨t, h, h', h''⟩ := ih hk
      exact ⟨t, by omega, h', h''⟩
    · exact ⟨k, by omega, by omega, h1⟩

theorem sigL_spec (sv : Solver) (Dmono : ∀ a b, a ≤ b → b ≤ sv.v.length → sv.D.getD a 0 ≤ sv.D.getD b 0)
    (y : Int) (h0 : sv.D.getD 0 0 < y) (h1 : y ≤ sv.D.getD sv.v.length 0) :
    sigL sv y < sv.v.length ∧ sv.D.getD (sigL sv y) 0 < y ∧ y ≤ sv.D.getD (sigL sv y + 1) 0 := by
  obtain ⟨t, ht, a, b⟩ := exists_sink sv.D y sv.v.length h0 h1
  rw [sigL_eq sv Dmono y t ht a b]
  exact ⟨ht, a, b⟩

theorem sigR_spec (sv : Solver) (Dmono : ∀ a b, a ≤ b → b ≤ sv.v.length → sv.D.getD a 0 ≤ sv.D.getD b 0)
    (y : Int) (h0 : sv.D.getD 0 0 ≤ y) (h1 : y < sv.D.getD sv.v.length 0) :
    sigR sv y < sv.v.length ∧ sv.D.getD (sigR sv y) 0 ≤ y ∧ y < sv.D.getD (sigR sv y + 1) 0 := by
  have := sigL_spec sv Dmono (y + 1) (by omega) (by omega)
  rw [sigR_eq_sigL]
  omega

/-- on the integer axis the right derivative at `x` is the left derivative at `x + 1` -/
theorem tR_eq (sv : Solver) (k : Nat) (x : Int) : tR sv k x = - tL sv k (x + 1) := by
  unfold tR tL
  rw [sigR_eq_sigL, sigR_eq_sigL]
  have e1 : sv.S.getD (k + 1) 0 + x + 1 = sv.S.getD (k + 1) 0 + (x + 1) := by omega
  have e2 : sv.S.getD k 0 + x + 1 = sv.S.getD k 0 + (x + 1) := by omega
  rw [e1, e2]
  omega

/-! ### `evS` -/

theorem evS_zero (ev : List Event) (y : Int) (h : ∀ e ∈ ev, e.1 < y) : evS ev y = 0 := by
  induction ev with
  | nil => rfl
  | cons e es ih =>
    have h1 := h e (List.mem_cons_self ..)
    have h2 : ¬ y ≤ e.1 := by omega
    simp only [evS, h2, if_false, ih (fun e' he' => h e' (List.mem_cons_of_mem _ he'))]
    rfl

theorem evS_evInsert (x : Event) (ev : List Event) (y : Int) :
    evS (evInsert x ev) y = (if y ≤ x.1 then x.2 else 0) + evS ev y := by
  induction ev with
  | nil => simp [evInsert, evS]
  | cons e es ih =>
    unfold evInsert
    split
    · simp [evS]
    · simp only [evS, ih]; omega

theorem evS_emplacePos (ev : List Event) (pos sl y : Int) (hy : 0 < y) :
    evS (emplacePos ev pos sl) y = (if y ≤ pos then sl else 0) + evS ev y := by
  unfold emplacePos
  split
  · exact evS_evInsert _ _ _
  · have : ¬ y ≤ pos := by omega
    simp [this]

/-- the events popped by `getSlope` all sit at `L` -/
theorem evS_popAt (L : Int) (ev : List Event) (y : Int) :
    evS ev y = (if y ≤ L then (popAt L ev).1 else 0) + evS (popAt L ev).2 y := by
  induction ev with
  | nil => simp [popAt, evS]
  | cons e es ih =>
    unfold popAt
    by_cases h : e.1 = L
    · simp only [h, if_true, evS]
      rw [ih]
      by_cases hy : y ≤ L
      · simp only [hy, if_true]; omega
      · simp only [hy, if_false]; omega
    · simp only [h, if_false, evS]
      split <;> omega

/-- `getSlope(false)` does not change the cumulated slope -/
theorem evS_getSlopeKeep (st : St) (y : Int) :
    evS (getSlopeKeep st).2.events y = evS st.events y := by
  unfold getSlopeKeep
  simp only
  rw [evS_popAt st.lastPosition st.events y]
  split
  · rw [evS_evInsert]
  · rename_i h
    have : (popAt st.lastPosition st.events).1 = 0 := by
      by_cases h0 : (popAt st.lastPosition st.events).1 = 0
      · exact h0
      · exact absurd h0 h
    simp [this]

/-- the slope returned by `getSlope` is the cumulated slope at `L` (all events are `≤ L`) -/
theorem popAt_fst_eq (st : St) (ei : EvInv st) :
    (popAt st.lastPosition st.events).1 = evS st.events st.lastPosition := by
  have h := evS_popAt st.lastPosition st.events st.lastPosition
  have hlt := lt_popAt st.lastPosition st.events ei.sorted ei.le
  rw [evS_zero _ _ hlt] at h
  simp only [Int.le_refl, if_true] at h
  omega

end ColoVerif.Transp1d
