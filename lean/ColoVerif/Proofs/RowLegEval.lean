import ColoVerif.Proofs.RowLegFeasible
import Mathlib.Tactic.Linarith
import Mathlib.Tactic.Ring
import Mathlib.Tactic.LinearCombination
/-
Helper lemmas for C12, part 3: the piecewise-linear function represented by the
queue, `eval B x = Σ_{(p,w) ∈ B} w · max 0 (p − x)`, and the scalar identities
behind one `push`.
-/
namespace ColoVerif.RowLeg

/-- The convex, non-increasing piecewise-linear function encoded by the queue. -/
def eval : List Bound → Int → Int
  | [], _ => 0
  | β :: B, x => β.weight * max 0 (β.absPos - x) + eval B x

/-- Total weight. -/
def sumW : List Bound → Int
  | [] => 0
  | β :: B => β.weight + sumW B

/-- `Σ w · (min p cl − z)`: what the loop of `getDisplacement` integrates. -/
def linc (cl : Int) : List Bound → Int → Int
  | [], _ => 0
  | β :: B, z => β.weight * (min β.absPos cl - z) + linc cl B z

theorem eval_append (x : Int) : ∀ (A B : List Bound), eval (A ++ B) x = eval A x + eval B x
  | [], B => by simp [eval]
  | a :: A, B => by simp only [List.cons_append, eval, eval_append x A B]; omega

theorem eval_reverse (x : Int) : ∀ (A : List Bound), eval A.reverse x = eval A x
  | [] => rfl
  | a :: A => by
    simp only [List.reverse_cons, eval_append, eval, eval_reverse x A]; omega

theorem sumW_append : ∀ (A B : List Bound), sumW (A ++ B) = sumW A + sumW B
  | [], B => by simp [sumW]
  | a :: A, B => by simp only [List.cons_append, sumW, sumW_append A B]; omega

theorem sumW_reverse : ∀ (A : List Bound), sumW A.reverse = sumW A
  | [] => rfl
  | a :: A => by simp only [List.reverse_cons, sumW_append, sumW, sumW_reverse A]; omega

theorem eval_pqInsert (β : Bound) (x : Int) : ∀ (B : List Bound),
    eval (pqInsert β B) x = β.weight * max 0 (β.absPos - x) + eval B x
  | [] => rfl
  | y :: ys => by
    unfold pqInsert
    split
    · rfl
    · simp only [eval, eval_pqInsert β x ys]; omega

theorem eval_ite_pqInsert (c : Prop) [Decidable c] (β : Bound) (B : List Bound) (x : Int) :
    eval (if c then pqInsert β B else B) x =
      (if c then β.weight * max 0 (β.absPos - x) else 0) + eval B x := by
  by_cases hc : c
  · simp only [if_pos hc, eval_pqInsert]
  · simp only [if_neg hc]; omega

theorem sumW_nonneg : ∀ (B : List Bound), (∀ β ∈ B, 0 ≤ β.weight) → 0 ≤ sumW B
  | [], _ => Int.le_refl 0
  | a :: A, h => by
    have := sumW_nonneg A (fun β hβ => h β (List.mem_cons_of_mem _ hβ))
    have := h a (List.mem_cons_self ..)
    simp only [sumW]; omega

/-- At or right of every breakpoint the function is zero. -/
theorem eval_below (x : Int) : ∀ (B : List Bound), (∀ β ∈ B, β.absPos ≤ x) → eval B x = 0
  | [], _ => rfl
  | a :: A, h => by
    have h1 := h a (List.mem_cons_self ..)
    have e1 : max 0 (a.absPos - x) = 0 := by omega
    simp only [eval, e1, eval_below x A (fun β hβ => h β (List.mem_cons_of_mem _ hβ))]
    ring

/-- Left of every breakpoint the function is linear with slope `-sumW`. -/
theorem eval_diff_above (y y' : Int) (hy : y ≤ y') : ∀ (B : List Bound), (∀ β ∈ B, y' ≤ β.absPos) →
    eval B y - eval B y' = sumW B * (y' - y)
  | [], _ => by simp [eval, sumW]
  | a :: A, h => by
    have h1 := h a (List.mem_cons_self ..)
    have e1 : max 0 (a.absPos - y) = a.absPos - y := by omega
    have e2 : max 0 (a.absPos - y') = a.absPos - y' := by omega
    have ih := eval_diff_above y y' hy A (fun β hβ => h β (List.mem_cons_of_mem _ hβ))
    simp only [eval, sumW, e1, e2]
    linear_combination ih

/-- `eval` is non-increasing and its slope is at least `-sumW`. -/
theorem eval_diff_bounds (y y' : Int) (hy : y ≤ y') : ∀ (B : List Bound), (∀ β ∈ B, 0 ≤ β.weight) →
    0 ≤ eval B y - eval B y' ∧ eval B y - eval B y' ≤ sumW B * (y' - y)
  | [], _ => by simp [eval, sumW]
  | a :: A, h => by
    have hw := h a (List.mem_cons_self ..)
    have ih := eval_diff_bounds y y' hy A (fun β hβ => h β (List.mem_cons_of_mem _ hβ))
    have d0 : 0 ≤ max 0 (a.absPos - y) - max 0 (a.absPos - y') := by omega
    have d1 : 0 ≤ (y' - y) - (max 0 (a.absPos - y) - max 0 (a.absPos - y')) := by omega
    have p0 := Int.mul_nonneg hw d0
    have p1 := Int.mul_nonneg hw d1
    simp only [eval, sumW]
    constructor
    · nlinarith [ih.1]
    · nlinarith [ih.2]

/-- What the loop integrates equals the drop of `eval` between the clamp `cl` and `z`
for bounds at or right of `z`. -/
theorem linc_eq_eval (cl z : Int) (hz : z ≤ cl) : ∀ (B : List Bound), (∀ β ∈ B, z ≤ β.absPos) →
    linc cl B z = eval B z - eval B cl
  | [], _ => by simp [linc, eval]
  | a :: A, h => by
    have h1 := h a (List.mem_cons_self ..)
    have ih := linc_eq_eval cl z hz A (fun β hβ => h β (List.mem_cons_of_mem _ hβ))
    have e1 : min a.absPos cl - z = max 0 (a.absPos - z) - max 0 (a.absPos - cl) := by omega
    simp only [linc, eval, e1]
    linear_combination ih

/-! ### scalar identities of one push -/

/-- The two bounds inserted by `push` change `eval` exactly by the popped weight plus the new
cell's own cost, left of the final position; nothing changes between the final position and
the limit.  (`m = min fin x`.) -/
theorem push_terms_identity (w tgt lim b slope curPos fin x : Int)
    (hfin : fin = min lim (max b (if slope ≥ 0 then curPos else tgt)))
    (hcp : 0 ≤ slope → b ≤ curPos) (hbl : b ≤ lim) (hbx : b ≤ x) (hxl : x ≤ lim) :
    (if tgt > b then (2 * w + min slope 0) * max 0 (min tgt fin - x) else 0)
      - (if tgt > b then (2 * w + min slope 0) * max 0 (min tgt fin - lim) else 0)
      + ((if slope > 0 then slope * max 0 (curPos - x) else 0)
        - (if slope > 0 then slope * max 0 (curPos - lim) else 0))
    = (slope + w) * (fin - min fin x)
      + w * (((min fin x - tgt).natAbs : Int) - ((fin - tgt).natAbs : Int)) := by
  by_cases hs : slope ≥ 0
  · rw [if_pos hs] at hfin
    have hcp' := hcp hs
    have hms : min slope 0 = 0 := by omega
    -- the remaining-capacity bound
    have hT2 : (if slope > 0 then slope * max 0 (curPos - x) else 0)
        - (if slope > 0 then slope * max 0 (curPos - lim) else 0) = slope * (fin - min fin x) := by
      by_cases hs0 : slope > 0
      · rw [if_pos hs0, if_pos hs0]
        have : max 0 (curPos - x) - max 0 (curPos - lim) = fin - min fin x := by omega
        linear_combination slope * this
      · have : slope = 0 := by omega
        rw [if_neg hs0, if_neg hs0, this]; ring
    -- the new cell's bound
    have hT1 : (if tgt > b then (2 * w + min slope 0) * max 0 (min tgt fin - x) else 0)
        - (if tgt > b then (2 * w + min slope 0) * max 0 (min tgt fin - lim) else 0)
        = w * (fin - min fin x) + w * (((min fin x - tgt).natAbs : Int) - ((fin - tgt).natAbs : Int)) := by
      rw [hms]
      by_cases ht : tgt > b
      · rw [if_pos ht, if_pos ht]
        have : 2 * (max 0 (min tgt fin - x) - max 0 (min tgt fin - lim))
            = (fin - min fin x) + (((min fin x - tgt).natAbs : Int) - ((fin - tgt).natAbs : Int)) := by omega
        linear_combination w * this
      · rw [if_neg ht, if_neg ht]
        have : 0 = (fin - min fin x) + (((min fin x - tgt).natAbs : Int) - ((fin - tgt).natAbs : Int)) := by omega
        linear_combination w * this
    linear_combination hT1 + hT2
  · rw [if_neg hs] at hfin
    have hs0 : ¬ slope > 0 := by omega
    have hms : min slope 0 = slope := by omega
    rw [if_neg hs0, if_neg hs0, hms]
    by_cases ht : tgt > b
    · rw [if_pos ht, if_pos ht]
      have h1 : max 0 (min tgt fin - x) - max 0 (min tgt fin - lim) = fin - min fin x := by omega
      have h2 : ((min fin x - tgt).natAbs : Int) - ((fin - tgt).natAbs : Int) = fin - min fin x := by omega
      linear_combination (2 * w + slope) * h1 - w * h2
    · rw [if_neg ht, if_neg ht]
      have h1 : fin - min fin x = 0 := by omega
      have h2 : ((min fin x - tgt).natAbs : Int) - ((fin - tgt).natAbs : Int) = 0 := by omega
      linear_combination (-(slope + w)) * h1 - w * h2

end ColoVerif.RowLeg
