import ColoVerif.Proofs.DetPlaceInv
/-
Frame lemmas for the `DetPlace` primitives: which coordinates a move writes (C02 `ignored_frame`,
C05 "the positions after a move are the ones the optimiser evaluated").
-/
namespace ColoVerif.DetPlace
open State

/-- `t` has the same widths as `s` and the same x / y / orientation on every ignored cell -/
def Frame (s t : State) : Prop :=
  t.width = s.width ∧ ∀ d, s.width d = -1 → t.x d = s.x d ∧ t.y d = s.y d ∧ t.orient d = s.orient d

theorem Frame.refl (s : State) : Frame s s := ⟨rfl, fun _ _ => ⟨rfl, rfl, rfl⟩⟩

theorem Frame.trans {s t u : State} (a : Frame s t) (b : Frame t u) : Frame s u := by
  refine ⟨b.1.trans a.1, fun d hd => ?_⟩
  have h1 := a.2 d hd
  have h2 := b.2 d (by rw [a.1]; exact hd)
  exact ⟨h2.1.trans h1.1, h2.2.1.trans h1.2.1, h2.2.2.trans h1.2.2⟩

theorem unplace_frame (s : State) (c : Int) : Frame s (s.unplace c) := ⟨rfl, fun _ _ => ⟨rfl, rfl, rfl⟩⟩

theorem place_frame {s t : State} {c r p x : Int} (hl : s.width c ≠ -1) (e : s.place c r p x = .ok t) :
    Frame s t := by
  obtain ⟨rfl, -⟩ := place_ok e
  refine ⟨rfl, fun d hd => ?_⟩
  have : d ≠ c := fun e' => hl (e' ▸ hd)
  simp [placeRaw, upd, this]

theorem insert_frame {s t : State} {c r p : Int} (hl : s.liveCell c = true) (e : s.insert c r p = .ok t) :
    Frame s t := by
  rw [liveCell_iff] at hl
  unfold State.insert at e
  split at e
  · cases e
  · cases e
  · exact (unplace_frame s c).trans (place_frame (s := s.unplace c) hl.2 e)

theorem place2_frame {s t : State} {a b ra pa xa rb pb xb : Int} (ha : s.width a ≠ -1) (hb : s.width b ≠ -1)
    (e : (s.place a ra pa xa).bind (fun u => u.place b rb pb xb) = .ok t) : Frame s t := by
  obtain ⟨u, e1, e2⟩ := bind_ok e
  have f1 := place_frame ha e1
  exact f1.trans (place_frame (by rw [f1.1]; exact hb) e2)

theorem swap_frame {s t : State} {c1 c2 : Int} (hl1 : s.liveCell c1 = true) (hl2 : s.liveCell c2 = true)
    (e : s.swap c1 c2 = .ok t) : Frame s t := by
  rw [liveCell_iff] at hl1 hl2
  have f0 : Frame s ((s.unplace c1).unplace c2) := (unplace_frame s c1).trans (unplace_frame _ c2)
  unfold State.swap at e
  split at e
  · cases e
  · cases e
  · split at e
    · exact f0.trans (place2_frame (s := (s.unplace c1).unplace c2) hl1.2 hl2.2 e)
    · split at e
      · exact f0.trans (place2_frame (s := (s.unplace c1).unplace c2) hl2.2 hl1.2 e)
      · exact f0.trans (place2_frame (s := (s.unplace c1).unplace c2) hl1.2 hl2.2 e)

theorem shift_frame {s t : State} {mv : List (Int × Int)} (e : s.shift mv = .ok t) : Frame s t := by
  unfold shift at e
  split at e
  · rename_i hcond
    injection e with e
    simp only [Bool.and_eq_true, List.all_eq_true, decide_eq_true_eq] at hcond
    obtain ⟨⟨hcells, -⟩, -⟩ := hcond
    obtain ⟨f, ef, hf⟩ := setXs_eq s mv
    rw [ef] at e; subst e
    refine ⟨rfl, fun d hd => ⟨?_, rfl, rfl⟩⟩
    apply hf
    intro hmem
    obtain ⟨m, hm, rfl⟩ := List.mem_map.1 hmem
    have := hcells m hm
    simp [shiftCellOk, isIgnored] at this
    exact this.2 hd
  · cases e

theorem unplaceAll_frame {s t : State} {cs : List Int} (e : s.unplaceAll cs = .ok t) : Frame s t := by
  induction cs generalizing s with
  | nil => simp [unplaceAll] at e; exact e ▸ Frame.refl s
  | cons c cs ih =>
    unfold unplaceAll at e
    split at e
    · exact (unplace_frame s c).trans (ih e)
    · cases e

theorem placeChain_frame {s t : State} {r p : Int} {l : List (Int × Int)}
    (e : s.placeChain r p l = .ok t) : Frame s t := by
  induction l generalizing s p with
  | nil => simp [placeChain] at e; exact e ▸ Frame.refl s
  | cons m rest ih =>
    obtain ⟨c, v⟩ := m
    unfold placeChain at e
    split at e
    · rename_i hg
      simp only [Bool.and_eq_true, Bool.not_eq_true'] at hg
      have hl' := (liveCell_iff s c).1 hg.1.1
      split at e
      · cases e
      · rename_i u eu
        exact (place_frame hl'.2 eu).trans (ih e)
    · cases e

theorem placeRegions_frame {s t : State} {gs : List Region} (e : s.placeRegions gs = .ok t) : Frame s t := by
  induction gs generalizing s with
  | nil => simp [placeRegions] at e; exact e ▸ Frame.refl s
  | cons g gs ih =>
    unfold placeRegions at e
    split at e
    · cases e
    · rename_i u eu
      exact (placeChain_frame eu).trans (ih e)

theorem reorder_frame {s t : State} {cells : List Int} {regions : List Region}
    (e : s.reorderWriteback cells regions = .ok t) : Frame s t := by
  unfold reorderWriteback at e
  split at e
  · cases e
  · rename_i u eu
    split at e
    · cases e
    · rename_i v ev
      split at e
      · injection e with e; exact e ▸ (unplaceAll_frame eu).trans (placeRegions_frame ev)
      · cases e

theorem step_frame {s t : State} {op : Op} (e : s.step op = .ok t) : Frame s t := by
  cases op with
  | swap c1 c2 =>
    simp only [step] at e
    split at e
    · rename_i hg; simp only [Bool.and_eq_true] at hg; exact swap_frame hg.1 hg.2 e
    · cases e
  | insert c r p =>
    simp only [step] at e
    split at e
    · rename_i hg; simp only [Bool.and_eq_true] at hg; exact insert_frame hg.1 e
    · cases e
  | shift mv => exact shift_frame e
  | reorder cells regions => exact reorder_frame e

theorem run_frame {s t : State} {ops : List Op} (e : s.run ops = .ok t) : Frame s t := by
  induction ops generalizing s with
  | nil => simp [run] at e; exact e ▸ Frame.refl s
  | cons op ops ih =>
    unfold run at e
    split at e
    · cases e
    · rename_i u eu
      exact (step_frame eu).trans (ih e)

/-! ### positions written by swap / insert (C05) -/

/-- x and y of every cell after `place` -/
theorem placeRaw_xy (s : State) (c r p x d : Int) :
    (s.placeRaw c r p x).x d = (if d = c then x else s.x d) ∧
    (s.placeRaw c r p x).y d = (if d = c then s.rowY r else s.y d) := by
  simp [placeRaw, upd]

theorem insert_positions {s t : State} {c r p : Int} (e : s.insert c r p = .ok t) :
    ∀ d, t.x d = (if d = c then (s.positionOnInsert c r p).1 else s.x d) ∧
         t.y d = (if d = c then (s.positionOnInsert c r p).2 else s.y d) := by
  unfold State.insert at e
  split at e
  · cases e
  · cases e
  · obtain ⟨rfl, -⟩ := place_ok e
    intro d
    have := placeRaw_xy (s.unplace c) c r p (s.positionOnInsert c r p).1 d
    simpa [positionOnInsert, unplace, rowY, rowAt] using this

theorem place2_xy {s t : State} {a b ra pa xa rb pb xb : Int} (hab : a ≠ b)
    (e : (s.place a ra pa xa).bind (fun u => u.place b rb pb xb) = .ok t) :
    ∀ d, t.x d = (if d = a then xa else if d = b then xb else s.x d) ∧
         t.y d = (if d = a then s.rowY ra else if d = b then s.rowY rb else s.y d) := by
  obtain ⟨u, e1, e2⟩ := bind_ok e
  obtain ⟨rfl, -⟩ := place_ok e1
  obtain ⟨rfl, -⟩ := place_ok e2
  intro d
  have h1 := placeRaw_xy s a ra pa xa d
  have h2 := placeRaw_xy (s.placeRaw a ra pa xa) b rb pb xb d
  have er : (s.placeRaw a ra pa xa).rowY rb = s.rowY rb := rfl
  rw [er] at h2
  by_cases hda : d = a
  · subst hda; simp [h2.1, h2.2, h1.1, h1.2, hab]
  · simp [h2.1, h2.2, h1.1, h1.2, hda]

/-- after `swap` the two cells sit exactly at `positionsOnSwap` (x) on each other's row, nothing else moved -/
theorem swap_positions {s t : State} {c1 c2 : Int} (e : s.swap c1 c2 = .ok t) :
    ∀ d, t.x d = (if d = c1 then (s.positionsOnSwap c1 c2).1.1 else if d = c2 then (s.positionsOnSwap c1 c2).2.1 else s.x d) ∧
         t.y d = (if d = c1 then s.rowY (s.row c2) else if d = c2 then s.rowY (s.row c1) else s.y d) := by
  unfold State.swap canSwap at e
  by_cases h12 : c1 = c2
  · subst h12
    by_cases hp : s.isPlaced c1 = true <;> simp [hp] at e
  · have ux : ((s.unplace c1).unplace c2).x = s.x := rfl
    have uy : ((s.unplace c1).unplace c2).y = s.y := rfl
    have ur : ∀ q, ((s.unplace c1).unplace c2).rowY q = s.rowY q := fun _ => rfl
    split at e
    · cases e
    · cases e
    · split at e
      · have := place2_xy h12 e
        intro d; simpa [ux, uy, ur] using this d
      · split at e
        · have := place2_xy (Ne.symm h12) e
          intro d
          have hd := this d
          simp only [ux, uy, ur] at hd
          by_cases hd1 : d = c1
          · subst hd1; simp [hd.1, hd.2, h12]
          · simp [hd.1, hd.2, hd1]
        · have := place2_xy h12 e
          intro d; simpa [ux, uy, ur] using this d

end ColoVerif.DetPlace
