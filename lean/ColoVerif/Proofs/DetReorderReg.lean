import ColoVerif.Model.DetReorderPass
import ColoVerif.Proofs.DetPlaceLegal
/-
What `RowReordering::addCells` registers, and which windows / rows `runReordering` hands to it
(helper lemmas for Properties/C05).

(1) `addCells_registered`: on an invariant state, for a window of distinct valid placed cells, the
    registered cells `cells_` are distinct cells of the window.
(2) `rowCellsSorted_ok`: `rowCells(rows)` of distinct valid rows = distinct valid placed cells of those rows.
(3) `reorderWindows_sublist` / `reorderWindows_ok`: every window is a contiguous sublist of the cells.
(4) `rowsAbove_ok`: `{row} ∪ rowsAbove(row)` are distinct valid rows.
-/
namespace ColoVerif.DetPlace
open State

/-! ### (1) `addCells` -/

/-- `l` is the list of cells met from `c` by following `next` up to (excluding) the first `stop` -/
def RegPath (s : State) (stop : Int) : Int → List Int → Prop
  | c, [] => c = stop
  | c, d :: l => d = c ∧ c ≠ stop ∧ c ≠ -1 ∧ RegPath s stop (s.next c) l

theorem reg_cellsUntil_path (s : State) (stop : Int) : ∀ (fuel : Nat) (c : Int) (l : List Int),
    s.cellsUntil stop fuel c = .ok l → RegPath s stop c l
  | 0, _, _, e => by simp [State.cellsUntil] at e
  | fuel + 1, c, l, e => by
    unfold State.cellsUntil at e
    split at e
    · rename_i hc
      cases e
      exact hc
    · split at e
      · cases e
      · rename_i hs hc
        split at e
        · cases e
        · rename_i l' e'
          cases e
          exact ⟨rfl, hs, hc, reg_cellsUntil_path s stop fuel _ _ e'⟩

/-- `cn` is the first cell outside the window met from `c` by following `next` -/
inductive RegRun (s : State) (w : List Int) : Int → Int → Prop
  | stop {c : Int} : c ∉ w → RegRun s w c c
  | step {c cn : Int} : c ∈ w → RegRun s w (s.next c) cn → RegRun s w c cn

theorem reg_runEnd_run (s : State) (w : List Int) : ∀ (fuel : Nat) (c cn : Int),
    runEnd s w fuel c = .ok cn → RegRun s w c cn
  | 0, _, _, e => by simp [runEnd] at e
  | fuel + 1, c, cn, e => by
    unfold runEnd at e
    split at e
    · rename_i hc
      exact RegRun.step (by simpa using hc) (reg_runEnd_run s w fuel _ _ e)
    · rename_i hc
      cases e
      exact RegRun.stop (by simpa using hc)

theorem RegRun.end_not_mem {s : State} {w : List Int} {c cn : Int} (r : RegRun s w c cn) : cn ∉ w := by
  induction r with
  | stop h => exact h
  | step _ _ ih => exact ih

/-- the cells registered for a run are all in the window -/
theorem RegRun.path_mem {s : State} {w : List Int} {c cn : Int} (r : RegRun s w c cn) :
    ∀ l, RegPath s cn c l → ∀ d ∈ l, d ∈ w := by
  induction r with
  | stop h =>
    intro l p d hd
    cases l with
    | nil => cases hd
    | cons a l => exact absurd rfl p.2.1
  | step hc r ih =>
    rename_i c cn
    intro l p d hd
    cases l with
    | nil => cases hd
    | cons a l =>
      obtain ⟨e, _, _, p'⟩ := p
      rcases List.mem_cons.mp hd with h | h
      · rw [h, e]; exact hc
      · exact ih l p' d h

/-- `d` is reached from `c` through window cells only (`c` and `d` included) -/
inductive RegSeg (s : State) (w : List Int) (c : Int) : Int → Prop
  | refl : c ∈ w → RegSeg s w c c
  | tail {d : Int} : RegSeg s w c d → s.next d ∈ w → RegSeg s w c (s.next d)

theorem RegSeg.mem {s : State} {w : List Int} {c d : Int} (r : RegSeg s w c d) : d ∈ w := by
  cases r with
  | refl h => exact h
  | tail _ h => exact h

theorem RegSeg.inv {s : State} {w : List Int} {c d : Int} (r : RegSeg s w c d) :
    (d = c ∧ c ∈ w) ∨ ∃ e, RegSeg s w c e ∧ s.next e ∈ w ∧ d = s.next e := by
  cases r with
  | refl h => exact Or.inl ⟨rfl, h⟩
  | tail r h => exact Or.inr ⟨_, r, h, rfl⟩

theorem RegSeg.cons {s : State} {w : List Int} {c d : Int} (hc : c ∈ w) (r : RegSeg s w (s.next c) d) :
    RegSeg s w c d := by
  induction r with
  | refl h => exact RegSeg.tail (RegSeg.refl hc) h
  | tail _ h ih => exact RegSeg.tail ih h

/-- the facts of `LinkOk`/`CellOk` used on window cells -/
structure RegWin (s : State) (w : List Int) : Prop where
  valid : ∀ c ∈ w, s.validCell c ∧ s.row c ≠ -1
  next_ok : ∀ c ∈ w, s.next c ∈ w → s.x c < s.x (s.next c) ∧ s.pred (s.next c) = c
  site : ∀ c ∈ w, s.siteNext (s.row c) (s.pred c) = c

theorem regWin_of_inv {s : State} (h : Inv s) {w : List Int} (hw : ∀ c ∈ w, s.validCell c ∧ s.row c ≠ -1) :
    RegWin s w := by
  refine ⟨hw, ?_, ?_⟩
  · intro c hc hn
    obtain ⟨vc, pc⟩ := hw c hc
    obtain ⟨vn, _⟩ := hw _ hn
    have L := h.link vc
    unfold LinkOk at L
    have wc := h.placed_width vc pc
    have hn1 : s.next c ≠ -1 := by unfold validCell at vn; omega
    obtain ⟨_, _, xn, pn⟩ := (L.2.2 pc).2.2.1 hn1
    exact ⟨by omega, pn⟩
  · intro c hc
    obtain ⟨vc, pc⟩ := hw c hc
    have L := h.link vc
    unfold LinkOk at L
    unfold State.siteNext
    by_cases hp : s.pred c = -1
    · rw [if_pos hp]; exact ((L.2.2 pc).2.1 hp).1
    · rw [if_neg hp]; exact ((L.2.2 pc).1 hp).2.2.2

/-- a run start determines its segment: two run starts that reach the same cell are equal -/
theorem RegSeg.start_unique {s : State} {w : List Int} (W : RegWin s w) {c c' d : Int}
    (hc : s.pred c ∉ w) (hc' : s.pred c' ∉ w) (r : RegSeg s w c d) (r' : RegSeg s w c' d) : c = c' := by
  induction r generalizing c' with
  | refl h =>
    rcases r'.inv with ⟨e, _⟩ | ⟨e, re, hn, e2⟩
    · exact e
    · exfalso
      have := (W.next_ok e re.mem hn).2
      rw [← e2] at this
      rw [this] at hc
      exact hc re.mem
  | tail r hn ih =>
    rename_i d
    rcases r'.inv with ⟨e, _⟩ | ⟨e, re, hn', e2⟩
    · exfalso
      have := (W.next_ok d r.mem hn).2
      rw [e] at this
      rw [this] at hc'
      exact hc' r.mem
    · have h1 := (W.next_ok d r.mem hn).2
      have h2 := (W.next_ok e re.mem hn').2
      rw [← e2, h1] at h2
      rw [← h2] at re
      exact ih hc' re

/-- the cells of a path through the window: reached from its start, in strictly increasing x -/
theorem reg_path_seg {s : State} {w : List Int} (W : RegWin s w) (stop : Int) : ∀ (l : List Int) (c : Int),
    RegPath s stop c l → (∀ d ∈ l, d ∈ w) →
    (∀ d ∈ l, RegSeg s w c d ∧ s.x c ≤ s.x d) ∧ l.Pairwise (fun a b => s.x a < s.x b)
  | [], _, _, _ => ⟨fun _ hd => (by cases hd), List.Pairwise.nil⟩
  | a :: l, c, p, hm => by
    obtain ⟨e, _, _, p'⟩ := p
    subst e
    have ha : a ∈ w := hm a List.mem_cons_self
    obtain ⟨ih1, ih2⟩ := reg_path_seg W stop l (s.next a) p' (fun d hd => hm d (List.mem_cons_of_mem _ hd))
    have hlt : ∀ d ∈ l, RegSeg s w a d ∧ s.x a < s.x d := by
      intro d hd
      obtain ⟨sg, xo⟩ := ih1 d hd
      have hn : s.next a ∈ w := by
        cases l with
        | nil => cases hd
        | cons b l => rw [← p'.1]; exact hm b (List.mem_cons_of_mem _ List.mem_cons_self)
      have := (W.next_ok a ha hn).1
      exact ⟨RegSeg.cons ha sg, by omega⟩
    refine ⟨?_, List.pairwise_cons.mpr ⟨fun d hd => (hlt d hd).2, ih2⟩⟩
    intro d hd
    rcases List.mem_cons.mp hd with h | h
    · rw [h]; exact ⟨RegSeg.refl ha, Int.le_refl _⟩
    · exact ⟨(hlt d h).1, Int.le_of_lt (hlt d h).2⟩

theorem reg_addRow_cells {σ : Type} {s : State} {rr rr' : RowReord σ} {r cp cn : Int}
    (e : addRow s rr r cp cn = .ok rr') : ∃ cs, s.cellsBetween r cp cn = .ok cs ∧ rr'.cells = rr.cells ++ cs := by
  unfold addRow at e
  split at e
  · cases e
  · rename_i cs e'
    cases e
    exact ⟨cs, e', rfl⟩

/-- the segment registered by one iteration of the loop of `addCells` -/
theorem reg_segment {s : State} {w : List Int} (W : RegWin s w) {c cn : Int} {cs : List Int} (hc : c ∈ w)
    (e1 : runEnd s w (s.nCells + 1) c = .ok cn) (e2 : s.cellsBetween (s.row c) (s.pred c) cn = .ok cs) :
    (∀ d ∈ cs, RegSeg s w c d) ∧ cs.Nodup := by
  have r := reg_runEnd_run s w _ _ _ e1
  unfold State.cellsBetween at e2
  split at e2
  · cases e2
  · split at e2
    · cases e2
    · rw [W.site c hc] at e2
      have p := reg_cellsUntil_path s cn _ _ _ e2
      have hm := r.path_mem cs p
      obtain ⟨h1, h2⟩ := reg_path_seg W cn cs c p hm
      refine ⟨fun d hd => (h1 d hd).1, ?_⟩
      exact h2.imp (fun {a b} hab => by intro e; rw [e] at hab; omega)

/-- the loop invariant of `addCells`: the registered cells are distinct, and each is reached through
window cells from a run start that has already been visited -/
def RegInv (s : State) (w todo : List Int) (cells : List Int) : Prop :=
  cells.Nodup ∧ ∀ d ∈ cells, ∃ c, c ∈ w ∧ c ∉ todo ∧ s.pred c ∉ w ∧ RegSeg s w c d

theorem reg_addCellsLoop {σ : Type} {s : State} {w : List Int} (W : RegWin s w) :
    ∀ (todo : List Int) (rr rr' : RowReord σ), todo.Nodup → (∀ c ∈ todo, c ∈ w) →
    RegInv s w todo rr.cells → addCellsLoop s w todo rr = .ok rr' → RegInv s w [] rr'.cells
  | [], rr, rr', _, _, I, e => by
    simp only [addCellsLoop] at e
    cases e
    exact I
  | c :: rest, rr, rr', hn, hm, I, e => by
    obtain ⟨hcr, hnr⟩ := List.nodup_cons.mp hn
    have hc : c ∈ w := hm c List.mem_cons_self
    have hmr : ∀ d ∈ rest, d ∈ w := fun d hd => hm d (List.mem_cons_of_mem _ hd)
    have Iweak : ∀ cells, RegInv s w (c :: rest) cells → RegInv s w rest cells := by
      intro cells J
      refine ⟨J.1, fun d hd => ?_⟩
      obtain ⟨c0, h1, h2, h3, h4⟩ := J.2 d hd
      exact ⟨c0, h1, fun h => h2 (List.mem_cons_of_mem _ h), h3, h4⟩
    unfold addCellsLoop at e
    split at e
    · exact reg_addCellsLoop W rest rr rr' hnr hmr (Iweak _ I) e
    · rename_i hp
      have hp' : s.pred c ∉ w := by simpa using hp
      split at e
      · cases e
      · rename_i cn e1
        split at e
        · cases e
        · rename_i rr1 e2
          obtain ⟨cs, e3, e4⟩ := reg_addRow_cells e2
          obtain ⟨sg, nd⟩ := reg_segment W hc e1 e3
          refine reg_addCellsLoop W rest rr1 rr' hnr hmr ?_ e
          rw [e4]
          refine ⟨List.nodup_append.mpr ⟨I.1, nd, ?_⟩, ?_⟩
          · intro a ha b hb eab
            subst eab
            obtain ⟨c0, _, h2, h3, h4⟩ := I.2 a ha
            have := RegSeg.start_unique W h3 hp' h4 (sg a hb)
            exact h2 (by rw [this]; exact List.mem_cons_self)
          · intro d hd
            rcases List.mem_append.mp hd with h | h
            · exact (Iweak _ I).2 d h
            · exact ⟨c, hc, hcr, hp', sg d h⟩

/-- **registered cells are distinct cells of the window** -/
theorem addCells_registered {σ : Type} (s : State) (h : Inv s) (w : List Int) (st : σ) (rr : RowReord σ)
    (hn : w.Nodup) (hw : ∀ c ∈ w, s.validCell c ∧ s.row c ≠ -1)
    (e : addCells s (RowReord.new st) w = .ok rr) :
    rr.cells.Nodup ∧ ∀ c ∈ rr.cells, c ∈ w := by
  have W := regWin_of_inv h hw
  have I := reg_addCellsLoop W w (RowReord.new st) rr hn (fun _ hc => hc)
    ⟨List.nodup_nil, fun d hd => (by cases hd)⟩ e
  refine ⟨I.1, fun c hc => ?_⟩
  obtain ⟨_, _, _, _, sg⟩ := I.2 c hc
  exact sg.mem

/-! ### (2) `rowCells(rows)` -/

theorem reg_insertPair_perm (a : Int × Int) : ∀ l : List (Int × Int), (State.insertPair a l).Perm (a :: l)
  | [] => List.Perm.refl _
  | b :: bs => by
    unfold State.insertPair
    split
    · exact ((List.perm_cons b).mpr (reg_insertPair_perm a bs)).trans (List.Perm.swap a b bs)
    · exact List.Perm.refl _

theorem reg_sortPairs_perm : ∀ l : List (Int × Int), (State.sortPairs l).Perm l
  | [] => List.Perm.refl _
  | a :: l => by
    show (State.insertPair a (State.sortPairs l)).Perm (a :: l)
    exact (reg_insertPair_perm a _).trans ((List.perm_cons a).mpr (reg_sortPairs_perm l))

theorem reg_map_pair_snd (f : Int → Int) : ∀ l : List Int, (l.map fun c => (f c, c)).map (·.2) = l
  | [] => rfl
  | a :: l => by
    simp only [List.map_cons, reg_map_pair_snd f l]

/-- `rowCells(rows)` is a permutation of the concatenation of the rows' lists -/
theorem rowCellsSorted_perm (s : State) (rows : List Int) :
    (s.rowCellsSorted rows).Perm (rows.flatMap s.rowCells) := by
  unfold State.rowCellsSorted
  have := (reg_sortPairs_perm ((rows.flatMap s.rowCells).map fun c => (s.x c, c))).map (·.2)
  rwa [reg_map_pair_snd] at this

theorem reg_rowCells_nodup {s : State} (h : Inv s) {r : Int} (hr : s.validRow r) : (s.rowCells r).Nodup := by
  obtain ⟨sp, pw⟩ := rowCells_spec h hr
  have hr1 : r ≠ -1 := by unfold validRow at hr; omega
  refine pw.imp_of_mem ?_
  intro a b ha _ hab e
  obtain ⟨va, ra⟩ := (sp a).1 ha
  have := h.placed_width va (by rw [ra]; exact hr1)
  rw [e] at hab this
  omega

theorem reg_flatMap_rowCells {s : State} (h : Inv s) : ∀ (rows : List Int), rows.Nodup → (∀ r ∈ rows, s.validRow r) →
    (rows.flatMap s.rowCells).Nodup
  | [], _, _ => List.nodup_nil
  | r :: rs, hn, hr => by
    obtain ⟨hrr, hnr⟩ := List.nodup_cons.mp hn
    rw [List.flatMap_cons]
    refine List.nodup_append.mpr ⟨reg_rowCells_nodup h (hr r List.mem_cons_self),
      reg_flatMap_rowCells h rs hnr (fun q hq => hr q (List.mem_cons_of_mem _ hq)), ?_⟩
    intro a ha b hb eab
    subst eab
    obtain ⟨q, hq, haq⟩ := List.mem_flatMap.mp hb
    have e1 := (((rowCells_spec h (hr r List.mem_cons_self)).1 a).1 ha).2
    have e2 := (((rowCells_spec h (hr q (List.mem_cons_of_mem _ hq))).1 a).1 haq).2
    rw [← e1, e2] at hrr
    exact hrr hq

/-- **the sorted cells of distinct valid rows** are distinct valid placed cells of those rows -/
theorem rowCellsSorted_ok (s : State) (h : Inv s) (rows : List Int) (hn : rows.Nodup) (hr : ∀ r ∈ rows, s.validRow r) :
    (s.rowCellsSorted rows).Nodup ∧
    ∀ c ∈ s.rowCellsSorted rows, s.validCell c ∧ s.row c ≠ -1 ∧ s.row c ∈ rows := by
  have P := rowCellsSorted_perm s rows
  refine ⟨P.nodup_iff.mpr (reg_flatMap_rowCells h rows hn hr), fun c hc => ?_⟩
  obtain ⟨q, hq, hcq⟩ := List.mem_flatMap.mp (P.mem_iff.mp hc)
  obtain ⟨vc, rc⟩ := ((rowCells_spec h (hr q hq)).1 c).1 hcq
  have := hr q hq
  refine ⟨vc, ?_, by rw [rc]; exact hq⟩
  unfold validRow at this
  omega

/-! ### (3) the windows -/

theorem reg_windowsFrom_sublist (cells : List Int) (m step : Nat) : ∀ (fuel start : Nat),
    ∀ w ∈ windowsFrom cells m step fuel start, w.Sublist cells
  | 0, _, w, hw => by simp [windowsFrom] at hw
  | fuel + 1, start, w, hw => by
    unfold windowsFrom at hw
    split at hw
    · rcases List.mem_cons.mp hw with e | hw'
      · rw [e]
        exact (List.take_sublist _ _).trans (List.drop_sublist _ _)
      · exact reg_windowsFrom_sublist cells m step fuel _ w hw'
    · cases hw

/-- **windows are (contiguous) sublists** of the cells -/
theorem reorderWindows_sublist (cells : List Int) (m : Int) : ∀ w ∈ reorderWindows cells m, w.Sublist cells :=
  reg_windowsFrom_sublist cells _ _ _ _

/-- every window of `runReorderingOnRows` on distinct valid rows: distinct valid placed cells of those rows -/
theorem reorderWindows_ok (s : State) (h : Inv s) (rows : List Int) (hn : rows.Nodup) (hr : ∀ r ∈ rows, s.validRow r)
    (m : Int) : ∀ w ∈ reorderWindows (s.rowCellsSorted rows) m,
    w.Nodup ∧ ∀ c ∈ w, s.validCell c ∧ s.row c ≠ -1 ∧ s.row c ∈ rows := by
  intro w hw
  have sub := reorderWindows_sublist _ m w hw
  obtain ⟨nd, mem⟩ := rowCellsSorted_ok s h rows hn hr
  exact ⟨nd.sublist sub, fun c hc => mem c (sub.subset hc)⟩

/-! ### (4) `rowsAbove` -/

theorem reg_insertBy_perm (lt : RowNbh.Entry → RowNbh.Entry → Bool) (a : RowNbh.Entry) :
    ∀ l : List RowNbh.Entry, (RowNbh.insertBy lt a l).Perm (a :: l)
  | [] => List.Perm.refl _
  | b :: bs => by
    unfold RowNbh.insertBy
    split
    · exact ((List.perm_cons b).mpr (reg_insertBy_perm lt a bs)).trans (List.Perm.swap a b bs)
    · exact List.Perm.refl _

theorem reg_sortBy_perm (lt : RowNbh.Entry → RowNbh.Entry → Bool) : ∀ l : List RowNbh.Entry, (RowNbh.sortBy lt l).Perm l
  | [] => List.Perm.refl _
  | a :: l => by
    show (RowNbh.insertBy lt a (RowNbh.sortBy lt l)).Perm (a :: l)
    exact (reg_insertBy_perm lt a _).trans ((List.perm_cons a).mpr (reg_sortBy_perm lt l))

theorem reg_scanFound_sublist (test : Rect → Bool) (nb : Int) : ∀ (l : List RowNbh.Entry) (found : Int),
    (RowNbh.scanFound test nb found l).Sublist (l.map (·.1))
  | [], _ => by simp [RowNbh.scanFound]
  | e :: rest, found => by
    unfold RowNbh.scanFound
    rw [List.map_cons]
    split
    · split
      · exact List.Sublist.cons_cons _ (List.nil_sublist _)
      · exact List.Sublist.cons_cons _ (reg_scanFound_sublist test nb rest _)
    · split
      · exact List.nil_sublist _
      · exact List.Sublist.cons _ (reg_scanFound_sublist test nb rest _)

theorem reg_scanAll (rel : Rect → Rect → Bool) (nb : Int) : ∀ (l : List RowNbh.Entry), (l.map (·.1)).Nodup →
    ∀ kv ∈ RowNbh.scanAll rel nb l, (kv.1 :: kv.2).Nodup ∧ ∀ j ∈ kv.2, j ∈ l.map (·.1)
  | [], _, kv, hk => by simp [RowNbh.scanAll] at hk
  | e :: rest, hn, kv, hk => by
    unfold RowNbh.scanAll at hk
    rw [List.map_cons] at hn
    rcases List.mem_cons.mp hk with h | h
    · have sub := reg_scanFound_sublist (fun row2 => rel row2 e.2) nb rest 0
      rw [h]
      exact ⟨hn.sublist (List.Sublist.cons_cons _ sub), fun j hj => List.mem_cons_of_mem _ (sub.subset hj)⟩
    · obtain ⟨h1, h2⟩ := reg_scanAll rel nb rest (List.nodup_cons.mp hn).2 kv h
      exact ⟨h1, fun j hj => List.mem_cons_of_mem _ (h2 j hj)⟩

theorem reg_entries_fst (rows : List Rect) :
    (RowNbh.entries rows).map (·.1) = (List.range' 0 rows.length).map Int.ofNat := by
  unfold RowNbh.entries
  rw [← List.zipIdx_map_snd 0 rows, List.map_map, List.map_map]
  rfl

theorem reg_collect_at (n : Nat) (assoc : List (Int × List Int)) (r : Int) (h0 : 0 ≤ r) (h1 : r < n) :
    RowNbh.at_ (RowNbh.collect n assoc) r = ((assoc.find? fun kv => kv.1 == r).map (·.2)).getD [] := by
  unfold RowNbh.at_ RowNbh.collect State.intsUpTo
  rw [if_neg (by omega)]
  have e : r.toNat < n := by omega
  have e2 : Int.ofNat r.toNat = r := by simp only [Int.ofNat_eq_natCast]; omega
  simp only [List.getD_eq_getElem?_getD, List.getElem?_map, List.getElem?_range e, Option.map_some, Option.getD_some, e2]

/-- **the rows of a reordering window are distinct valid rows** -/
theorem rowsAbove_ok (rows : List Row) (nb : Int) (r : Int) (hr : 0 ≤ r ∧ r < rows.length) :
    (r :: (RowNbh.ofRows rows nb).rowsAbove r).Nodup ∧
    ∀ j ∈ (RowNbh.ofRows rows nb).rowsAbove r, 0 ≤ j ∧ j < rows.length := by
  have hl : (rows.map (·.rect)).length = rows.length := List.length_map _
  have hE : (RowNbh.rowsAbove (RowNbh.ofRows rows nb) r) =
      (((RowNbh.scanAll RowNbh.isAbove nb (RowNbh.sortBy RowNbh.orderAbove (RowNbh.entries (rows.map (·.rect))))).find?
        fun kv => kv.1 == r).map (·.2)).getD [] := by
    show RowNbh.at_ (RowNbh.buildAbove (rows.map (·.rect)) nb) r = _
    unfold RowNbh.buildAbove
    rw [reg_collect_at _ _ r hr.1 (by rw [hl]; exact hr.2)]
  rw [hE]
  cases hf : (RowNbh.scanAll RowNbh.isAbove nb (RowNbh.sortBy RowNbh.orderAbove
      (RowNbh.entries (rows.map (·.rect))))).find? fun kv => kv.1 == r with
  | none => exact ⟨by simp, fun j hj => by simp at hj⟩
  | some kv =>
    have hk := List.mem_of_find?_eq_some hf
    have hk1 : kv.1 = r := by simpa using List.find?_some hf
    have P := (reg_sortBy_perm RowNbh.orderAbove (RowNbh.entries (rows.map (·.rect)))).map (·.1)
    rw [reg_entries_fst, hl] at P
    have nd0 : ((List.range' 0 rows.length).map Int.ofNat).Nodup := by
      unfold List.Nodup
      rw [List.pairwise_map]
      exact (List.nodup_range' (s := 0) (n := rows.length)).imp (fun hab e => hab (Int.ofNat.inj e))
    obtain ⟨h1, h2⟩ := reg_scanAll RowNbh.isAbove nb _ (P.nodup_iff.mpr nd0) kv hk
    rw [hk1] at h1
    refine ⟨h1, fun j hj => ?_⟩
    have := P.mem_iff.mp (h2 j hj)
    obtain ⟨i, hi, e⟩ := List.mem_map.mp this
    rw [List.mem_range'_1] at hi
    rw [← e]
    simp only [Int.ofNat_eq_natCast]
    omega

end ColoVerif.DetPlace
