import ColoVerif.Proofs.LegalizeIdem2Loop
import ColoVerif.Proofs.LegalizeOrder
import ColoVerif.Proofs.Freespace
/-
Helper lemmas for C11, part 5: from the Abacus pass to `Legalizer::run` and `Circuit::legalize`.
With only row-high cells the Tetris pass does nothing, `remainingRows` are the free segments
themselves, `importLegalization` and `exportPlacement` write the unchanged statuses back.
-/
namespace ColoVerif.Legalize
open ColoVerif ColoVerif.RowLeg

/-! ### segments -/

/-- a well-formed free segment of height `H` -/
def GoodSeg (H : Int) (r : Row) : Prop :=
  r.rect.minX < r.rect.maxX ∧ r.rect.minY < r.rect.maxY ∧ r.rect.height = H

/-- two segments with the same `minY` do not overlap in x -/
def RowsDisj (r s : Row) : Prop :=
  r.rect.minY = s.rect.minY → r.rect.maxX ≤ s.rect.minX ∨ s.rect.maxX ≤ r.rect.minX

theorem RowsDisj.symm {r s : Row} (h : RowsDisj r s) : RowsDisj s r := by
  intro e; have := h e.symm; omega

theorem freespace_nil (H : Int) (r : Row) (h : GoodSeg H r) : r.freespace [] = [r] := by
  obtain ⟨⟨x0, x1, y0, y1⟩, o⟩ := r
  obtain ⟨h1, h2, _⟩ := h
  simp only at h1 h2
  have hne : x0 ≠ x1 := by omega
  have e1 : min x0 x1 = x0 := Int.min_eq_left (by omega)
  have e2 : max x0 x1 = x1 := Int.max_eq_right (by omega)
  simp [Row.freespace, Freespace.freeIntervals, hne, h2, Freespace.sortIvs, Freespace.sweep, e1, e2, h1]

theorem flatMap_self {α : Type} (f : α → List α) : ∀ (l : List α), (∀ r ∈ l, f r = [r]) → l.flatMap f = l
  | [], _ => rfl
  | x :: l, h => by
    rw [List.flatMap_cons, h x (by simp), flatMap_self f l (fun r hr => h r (by simp [hr]))]
    rfl

theorem placedRects_init : ∀ (cells : List LCell), placedRects cells (cells.map initPos) = []
  | [] => rfl
  | c :: cs => by simp [placedRects, initPos, placedRects_init cs]

/-! ### `importLegalization`, `exportPlacement` -/

theorem importPos_len : ∀ (sel : List Nat) (ps pos : List Pos), (importPos sel ps pos).length = pos.length
  | [], _, _ => by simp [importPos]
  | _ :: _, [], _ => by simp [importPos]
  | c :: cs, p :: ps, pos => by
    simp only [importPos]
    rw [importPos_len cs ps]
    split <;> simp

theorem importPos_final (cells : List LCell) : ∀ (sel : List Nat) (pos : List Pos) (m : Nat), m < pos.length →
    (posAt pos m = finalPos (cellAt cells m) ∨ m ∈ sel) →
    posAt (importPos sel ((sel.map (cellAt cells)).map finalPos) pos) m = finalPos (cellAt cells m)
  | [], pos, m, _, h => by
    rcases h with h | h
    · simpa [importPos] using h
    · simp at h
  | j :: sel, pos, m, hm, h => by
    simp only [List.map_cons, importPos]
    have hpl : (finalPos (cellAt cells j)).placed = true := rfl
    rw [if_pos hpl]
    apply importPos_final cells sel _ m (by simpa using hm)
    rw [posAt_set_lt _ _ _ _ hm]
    by_cases hjm : j = m
    · subst hjm; left; simp
    · rw [if_neg hjm]
      rcases h with h | h
      · left; exact h
      · rcases List.mem_cons.mp h with h | h
        · exact absurd h.symm hjm
        · right; exact h

theorem exportCells_final : ∀ (cells : List Cell),
    exportCells cells (((cells.filter fun cl => !cl.fixed).map fun cl =>
      (⟨cl.placedWidth, cl.placedHeight, cl.pol, cl.x, cl.y, cl.orient⟩ : LCell)).map finalPos) = cells
  | [] => rfl
  | cl :: cls => by
    by_cases hf : cl.fixed = true
    · simp only [exportCells, hf, if_true, List.filter_cons, Bool.not_true, Bool.false_eq_true, if_false]
      rw [exportCells_final cls]
    · have hf' : cl.fixed = false := by simpa using hf
      obtain ⟨w, h, x, y, o, f, ob, pl⟩ := cl
      simp only at hf'
      subst hf'
      simp only [exportCells, List.filter_cons, Bool.not_false, if_true, List.map_cons, Bool.false_eq_true,
        if_false, finalPos]
      rw [exportCells_final cls]

theorem exportCells_nil : ∀ (cells : List Cell), exportCells cells [] = cells
  | [] => rfl
  | cl :: cls => by
    unfold exportCells
    split <;> rw [exportCells_nil cls]

theorem posAt_eq_getElem (l : List Pos) (m : Nat) (h : m < l.length) : posAt l m = l[m] := by
  simp [posAt, List.getD_eq_getElem?_getD, List.getElem?_eq_getElem h]

theorem map_cellAt_range (cells : List LCell) : (List.range cells.length).map (cellAt cells) = cells := by
  apply List.ext_getElem
  · simp
  · intro i h1 h2
    simp [cellAt, List.getD_eq_getElem?_getD, List.getElem?_eq_getElem h2]

/-! ### `Legalizer::run` -/

/-- what the ordering key has to guarantee: a cell entirely left of another one at the same y and of
the same height is visited first.  Holds for the exact key when `0 ≤ orderingWidth ≤ 1`
(`keyOrder_exact`). -/
def KeyOrder (rnd : Rat → Rat) (p : Params) (cells : List LCell) : Prop :=
  ∀ i j, i < cells.length → j < cells.length →
    (cellAt cells i).ty = (cellAt cells j).ty → (cellAt cells i).h = (cellAt cells j).h →
    0 < (cellAt cells i).w → 0 < (cellAt cells j).w →
    (cellAt cells i).tx + (cellAt cells i).w ≤ (cellAt cells j).tx →
    keyLt (orderKey rnd p.ow p.oy p.oh (cellAt cells i), i) (orderKey rnd p.ow p.oy p.oh (cellAt cells j), j) = true

/-- both cells lie inside the free segment `r` -/
def SameSeg (r : Row) (a b : LCell) : Prop :=
  r.rect.minY = a.ty ∧ r.rect.minX ≤ a.tx ∧ a.tx + a.w ≤ r.rect.maxX ∧ r.rect.minX ≤ b.tx ∧ b.tx + b.w ≤ r.rect.maxX

/-- the weaker form that is enough: only pairs of cells lying in one and the same free segment of `R`
have to be visited left to right (the order between cells of different segments is irrelevant) -/
def KeyOrderSeg (rnd : Rat → Rat) (p : Params) (R : List Row) (cells : List LCell) : Prop :=
  ∀ i j, i < cells.length → j < cells.length →
    (cellAt cells i).ty = (cellAt cells j).ty → (cellAt cells i).h = (cellAt cells j).h →
    0 < (cellAt cells i).w → 0 < (cellAt cells j).w →
    (cellAt cells i).tx + (cellAt cells i).w ≤ (cellAt cells j).tx →
    (∃ r ∈ R, SameSeg r (cellAt cells i) (cellAt cells j)) →
    keyLt (orderKey rnd p.ow p.oy p.oh (cellAt cells i), i) (orderKey rnd p.ow p.oy p.oh (cellAt cells j), j) = true

theorem KeyOrder.toSeg {rnd : Rat → Rat} {p : Params} {cells : List LCell} (h : KeyOrder rnd p cells) (R : List Row) :
    KeyOrderSeg rnd p R cells :=
  fun i j hi hj hy hh hw1 hw2 hx _ => h i j hi hj hy hh hw1 hw2 hx

theorem keyOrder_exact (p : Params) (h0 : 0 ≤ p.ow) (h1 : p.ow ≤ 1) (cells : List LCell) : KeyOrder id p cells := by
  intro i j _ _ hy hh hw1 hw2 hx
  have := orderKey_lt_exact p.ow p.oy p.oh h0 h1 _ _ hy hh hw1 hw2 hx
  simp [keyLt, this]

/-- no two cells at the same y overlap -/
def NoOverlap (a b : LCell) : Prop := a.ty = b.ty → a.tx + a.w ≤ b.tx ∨ b.tx + b.w ≤ a.tx

/-- a cell sits in a free segment with the orientation it gets there -/
def CellInPlace (R : List Row) (H : Int) (c : LCell) : Prop :=
  c.h = H ∧ 0 < c.w ∧ c.torient ≠ Orient.INVALID ∧
  ∃ r ∈ R, r.rect.minY = c.ty ∧ r.rect.minX ≤ c.tx ∧ c.tx + c.w ≤ r.rect.maxX ∧
    (cellOrientationInRow c.pol r.orient = Orient.UNKNOWN ∨ cellOrientationInRow c.pol r.orient = c.torient)

theorem getOrientation_fixed (S : List Row) (c : LCell) (k : Nat)
    (h : cellOrientationInRow c.pol (rowAt S k).orient = Orient.UNKNOWN ∨
      cellOrientationInRow c.pol (rowAt S k).orient = c.torient) :
    getOrientation S c k = c.torient := by
  unfold getOrientation
  rcases h with h | h
  · rw [if_pos h]
  · rw [h]; split
    · rfl
    · rfl

theorem idemOK_of (rnd : Rat → Rat) (p : Params) (R : List Row) (H : Int) (cells : List LCell)
    (hgood : ∀ r ∈ R, GoodSeg H r) (hdisj : R.Pairwise RowsDisj) (hcells : ∀ c ∈ cells, CellInPlace R H c)
    (hnoov : cells.Pairwise NoOverlap) (hkey : KeyOrderSeg rnd p R cells) :
    IdemOK (sortRows (sortRows R)) H
      ((computeCellOrder rnd p.ow p.oy p.oh cells).map (cellAt cells)) := by
  have hperm : (sortRows (sortRows R)).Perm R := (sortRows_perm _).trans (sortRows_perm R)
  have hord := computeCellOrder_perm rnd p.ow p.oy p.oh cells
  have hlt : ∀ j ∈ computeCellOrder rnd p.ow p.oy p.oh cells, j < cells.length :=
    fun j hj => List.mem_range.mp (hord.mem_iff.mp hj)
  refine ⟨sortRows_sorted _, fun r hr => (hgood r (hperm.mem_iff.mp hr)).2.2, ?_, ?_, ?_⟩
  · intro k1 k2 hk1 hk2 hne
    have hpw : (sortRows (sortRows R)).Pairwise RowsDisj :=
      (hperm.pairwise_iff (fun h => RowsDisj.symm h)).mpr hdisj
    have hidx := List.pairwise_iff_getElem.mp hpw
    have e1 : rowAt (sortRows (sortRows R)) k1 = (sortRows (sortRows R))[k1] := by
      simp [rowAt, List.getD_eq_getElem?_getD, List.getElem?_eq_getElem hk1]
    have e2 : rowAt (sortRows (sortRows R)) k2 = (sortRows (sortRows R))[k2] := by
      simp [rowAt, List.getD_eq_getElem?_getD, List.getElem?_eq_getElem hk2]
    rw [e1, e2]
    rcases Nat.lt_or_ge k1 k2 with h | h
    · exact hidx k1 k2 hk1 hk2 h
    · have := hidx k2 k1 hk2 hk1 (by omega)
      exact RowsDisj.symm this
  · intro c hc
    obtain ⟨j, hj, rfl⟩ := List.mem_map.mp hc
    obtain ⟨a1, a2, a3, r, hr, b1, b2, b3, b4⟩ := hcells _ (cellAt_mem cells j (hlt j hj))
    obtain ⟨k, hk, hget⟩ := List.getElem_of_mem (hperm.mem_iff.mpr hr)
    have e : rowAt (sortRows (sortRows R)) k = r := by
      simp [rowAt, List.getD_eq_getElem?_getD, List.getElem?_eq_getElem hk, hget]
    refine ⟨a1, a2, a3, k, hk, ?_, ?_, ?_, ?_⟩
    · rw [e]; exact b1
    · rw [e]; exact b2
    · rw [e]; exact b3
    · apply getOrientation_fixed; rw [e]; exact b4
  · rw [List.pairwise_map]
    have hA := computeCellOrder_sorted rnd p.ow p.oy p.oh cells
    have hB : (computeCellOrder rnd p.ow p.oy p.oh cells).Pairwise
        fun i j => NoOverlap (cellAt cells i) (cellAt cells j) := by
      have h0 : (List.range cells.length).Pairwise fun i j => NoOverlap (cellAt cells i) (cellAt cells j) := by
        rw [← List.pairwise_map (f := cellAt cells) (R := NoOverlap), map_cellAt_range]
        exact hnoov
      refine (hord.pairwise_iff ?_).mpr h0
      intro x y hxy e
      have := hxy e.symm
      omega
    refine List.Pairwise.imp_of_mem ?_ (hA.and hB)
    intro i j hi hj hab k hk hsi hsj
    have hy : (cellAt cells i).ty = (cellAt cells j).ty := by rw [← hsi.1, ← hsj.1]
    rcases hab.2 hy with h | h
    · exact h
    · have li := hlt i hi
      have lj := hlt j hj
      obtain ⟨ai, wi, _⟩ := hcells _ (cellAt_mem cells i li)
      obtain ⟨aj, wj, _⟩ := hcells _ (cellAt_mem cells j lj)
      have hr : rowAt (sortRows (sortRows R)) k ∈ R := hperm.mem_iff.mp (rowAt_mem _ k hk)
      exact absurd (hkey j i lj li hy.symm (by rw [ai, aj]) wj wi h
        ⟨_, hr, hsj.1, hsj.2.1, hsj.2.2.1, hsi.2.1, hsi.2.2.1⟩) hab.1

theorem posAt_init_placed (cells : List LCell) (j : Nat) (hj : j < cells.length) :
    (posAt (cells.map initPos) j).placed = false := by
  rw [posAt_map cells initPos j hj]; rfl

/-- **`Legalizer::run` on an already legal single-row input** leaves every cell where it is. -/
theorem run_fixed (rnd : Rat → Rat) (p : Params) (R : List Row) (H : Int) (cells : List LCell)
    (hgood : ∀ r ∈ R, GoodSeg H r) (hdisj : R.Pairwise RowsDisj) (hcells : ∀ c ∈ cells, CellInPlace R H c)
    (hnoov : cells.Pairwise NoOverlap) (hkey : KeyOrderSeg rnd p R cells) :
    run rnd p (Base.mk' R cells) = .ok ⟨sortRows R, cells, cells.map finalPos⟩ := by
  have hperm1 : (sortRows R).Perm R := sortRows_perm R
  have hord := computeCellOrder_perm rnd p.ow p.oy p.oh cells
  have hlt : ∀ j ∈ computeCellOrder rnd p.ow p.oy p.oh cells, j < cells.length :=
    fun j hj => List.mem_range.mp (hord.mem_iff.mp hj)
  unfold run
  simp only [Base.mk']
  cases hS : sortRows R with
  | nil =>
    -- no segment at all: there can be no movable cell
    have hR : R = [] := by
      have := hperm1.length_eq; rw [hS] at this
      exact List.length_eq_zero_iff.mp this.symm
    have hc : cells = [] := by
      cases cells with
      | nil => rfl
      | cons c cs =>
        obtain ⟨_, _, _, r, hr, _⟩ := hcells c (by simp)
        rw [hR] at hr; simp at hr
    subst hc
    simp [computeCellOrder, keyed, sortKeys, runTetris, runAbacus, rowHeight?, checkAllPlaced]
  | cons r0 rs =>
    have hr0 : r0.rect.height = H := (hgood r0 (hperm1.mem_iff.mp (by rw [hS]; simp))).2.2
    have hh : ∀ j ∈ computeCellOrder rnd p.ow p.oy p.oh cells, (cellAt cells j).h = H :=
      fun j hj => (hcells _ (cellAt_mem cells j (hlt j hj))).1
    have hT : runTetris ⟨r0 :: rs, cells, cells.map initPos⟩ (computeCellOrder rnd p.ow p.oy p.oh cells)
        = .ok ⟨r0 :: rs, cells, cells.map initPos⟩ := by
      unfold runTetris
      simp only [rowHeight?, List.head?_cons, Option.map_some, hr0]
      have : tetrisSel ⟨r0 :: rs, cells, cells.map initPos⟩ H (computeCellOrder rnd p.ow p.oy p.oh cells) = [] := by
        unfold tetrisSel
        rw [List.filter_eq_nil_iff]
        intro j hj
        simp [hh j hj]
      rw [this]
      simp [importPos]
    rw [hT]
    simp only
    have hrem : Base.remainingRows ⟨r0 :: rs, cells, cells.map initPos⟩ = sortRows R := by
      unfold Base.remainingRows
      simp only [placedRects_init]
      rw [← hS]
      exact flatMap_self _ _ (fun r hr => freespace_nil H r (hgood r (hperm1.mem_iff.mp hr)))
    have hsel : abacusSel ⟨r0 :: rs, cells, cells.map initPos⟩ H (computeCellOrder rnd p.ow p.oy p.oh cells)
        = computeCellOrder rnd p.ow p.oy p.oh cells := by
      unfold abacusSel
      rw [List.filter_eq_self]
      intro j hj
      simp [hh j hj, posAt_init_placed cells j (hlt j hj)]
    have hok := idemOK_of rnd p R H cells hgood hdisj hcells hnoov hkey
    have hrun := abacusRun_fixed (sortRows R) H _ hok
    have hA : runAbacus ⟨r0 :: rs, cells, cells.map initPos⟩ (computeCellOrder rnd p.ow p.oy p.oh cells)
        = .ok ⟨r0 :: rs, cells, cells.map finalPos⟩ := by
      unfold runAbacus
      simp only [rowHeight?, List.head?_cons, Option.map_some, hr0]
      rw [hsel, hrem, hrun]
      simp only
      congr 2
      apply List.ext_getElem
      · rw [importPos_len]; simp
      · intro m h1 h2
        have hm : m < cells.length := by simpa using h2
        have := importPos_final cells (computeCellOrder rnd p.ow p.oy p.oh cells) (cells.map initPos) m
          (by simpa using hm) (Or.inr (hord.mem_iff.mpr (List.mem_range.mpr hm)))
        rw [← posAt_eq_getElem _ m h1, this]
        simp [cellAt, List.getD_eq_getElem?_getD, List.getElem?_eq_getElem hm]
    rw [hA]
    simp [checkAllPlaced, finalPos]

end ColoVerif.Legalize
